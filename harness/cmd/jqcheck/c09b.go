package main

import (
	"encoding/json"
	"fmt"
	"sort"
	"strconv"
	"strings"
	"sync"
)

// C09, two more families.
//
// index:  MC_HeapIdx  - every index value (numbers in quarters over a range beyond both ends of the array,
//                       and non-numbers) x read / store / op= / ++ -- x array lengths x four sites; the
//                       position addressed comes from the model (truncation toward zero, then from the end).
// rounds: MC_HeapRounds - a write below $ in the round of one root selector / JSON value / file is seen by
//                       no later round; runs through lang.EvalProgram with several files and root selectors.

// ---------------------------------------------------------------------------
// trees as program text / JSON text

func c09Literal(t *c09T) string {
	switch t.K {
	case "num":
		return strconv.FormatFloat(t.N, 'f', -1, 64)
	case "str":
		return strconv.Quote(t.S)
	case "bool":
		return strconv.FormatBool(t.B)
	case "null":
		return "null"
	case "arr":
		parts := []string{}
		for _, e := range t.A {
			parts = append(parts, c09Literal(e))
		}
		return "[" + strings.Join(parts, ", ") + "]"
	case "obj":
		keys := []string{}
		for k := range t.O {
			keys = append(keys, k)
		}
		sort.Strings(keys)
		parts := []string{}
		for _, k := range keys {
			parts = append(parts, k+": "+c09Literal(t.O[k]))
		}
		return "{" + strings.Join(parts, ", ") + "}"
	}
	infra("C09: no literal for a %s", t.K)
	return ""
}

func c09JSONText(t *c09T) string {
	switch t.K {
	case "arr":
		parts := []string{}
		for _, e := range t.A {
			parts = append(parts, c09JSONText(e))
		}
		return "[" + strings.Join(parts, ", ") + "]"
	case "obj":
		keys := []string{}
		for k := range t.O {
			keys = append(keys, k)
		}
		sort.Strings(keys)
		parts := []string{}
		for _, k := range keys {
			parts = append(parts, strconv.Quote(k)+": "+c09JSONText(t.O[k]))
		}
		return "{" + strings.Join(parts, ", ") + "}"
	}
	return c09Literal(t)
}

// ---------------------------------------------------------------------------
// index family

type c09IdxVal struct {
	T string `json:"t"` // q str bool null
	Q int    `json:"q"` // the number q/4
	S string `json:"s"`
	B bool   `json:"b"`
}
type c09IdxOp struct {
	Kind  string    `json:"kind"`
	Site  string    `json:"site"`
	Iv    c09IdxVal `json:"iv"`
	Trunc int       `json:"trunc"`
}
type c09IdxStep struct {
	Exp  c09Exp `json:"exp"`
	Open bool   `json:"open"`
}
type c09IdxVec struct {
	Len   int            `json:"len"`
	Start map[string]any `json:"start"`
	Ops   []c09IdxOp     `json:"ops"`
	Steps []c09IdxStep   `json:"steps"`
}

var c09IdxSites = map[string]string{"var": "x", "mem": "y.k", "doc": "$.a", "nest": "$.b[0]"}
var c09IdxForms = []string{"lit", "var", "calc"}

// c09IdxText: the statements that prepare the index of operation k (may be empty) and the index expression.
func c09IdxText(iv c09IdxVal, form string, k int) (string, string) {
	name := "i" + strconv.Itoa(k)
	var lit string
	switch iv.T {
	case "q":
		lit = strconv.FormatFloat(float64(iv.Q)/4, 'f', -1, 64)
		if form == "calc" {
			return name + " = " + strconv.Itoa(iv.Q) + "\n", name + " / 4"
		}
	case "str":
		lit = strconv.Quote(iv.S)
	case "bool":
		lit = strconv.FormatBool(iv.B)
	case "null":
		lit = "null"
	default:
		infra("C09: unknown index value kind %q", iv.T)
	}
	if form == "lit" {
		return "", lit
	}
	return name + " = " + lit + "\n", name
}

func c09IdxProgram(v *c09IdxVec, form string, arrayRoot bool) string {
	var sb strings.Builder
	if arrayRoot {
		sb.WriteString("$index == 0 ")
	}
	sb.WriteString("{\n")
	sb.WriteString("x = " + c09Literal(c09FromCompact(v.Start["x"])) + "\n")
	sb.WriteString("y = " + c09Literal(c09FromCompact(v.Start["y"])) + "\n")
	for k, op := range v.Ops {
		site, ok := c09IdxSites[op.Site]
		if !ok {
			infra("C09: unknown site %q", op.Site)
		}
		pre, idx := c09IdxText(op.Iv, form, k+1)
		sb.WriteString(pre)
		p := site + "[" + idx + "]"
		switch op.Kind {
		case "read":
			sb.WriteString("print \"R\", " + p + "\n")
		case "set":
			sb.WriteString(p + " = 7\n")
		case "cadd", "csub", "cstr":
			sb.WriteString(c09UpdText(op.Kind, p) + "\n")
		default:
			sb.WriteString("print \"R\", " + c09UpdText(op.Kind, p) + "\n")
		}
		sb.WriteString("print \"X\", x\nprint \"Y\", y\nprint \"D\", $\n")
	}
	sb.WriteString("}\n")
	return sb.String()
}

// c09IdxClass names the class of index value an operation uses (vacuity guard / evidence).
func c09IdxClass(v *c09IdxVec, op c09IdxOp) string {
	if op.Iv.T != "q" {
		return "nonnumber"
	}
	q, n := op.Iv.Q, v.Len
	frac := "int"
	if q%4 != 0 {
		frac = "frac"
	}
	switch {
	case op.Trunc < -n:
		return "before-start:" + frac
	case q < 0:
		return "negative:" + frac
	case op.Trunc >= n:
		return "past-end:" + frac
	}
	return "in-range:" + frac
}

func c09IndexFamily(c *Ctx, pool *Pool, name, cfg string, stats *c09Stats) {
	var mu sync.Mutex
	vecs := map[string]*c09IdxVec{}
	seq := 0
	type variant struct {
		form      string
		arrayRoot bool
	}
	variants := []variant{}
	for _, f := range c09IdxForms {
		variants = append(variants, variant{f, false})
	}
	variants = append(variants, variant{"lit", true}, variant{"calc", true})
	st := pool.NewStream(func(j *Job, r Result) {
		mu.Lock()
		v := vecs[j.Tag]
		delete(vecs, j.Tag)
		mu.Unlock()
		if r.Class != "ok" || len(r.Hist) != len(variants) {
			c.Violation("worker", map[string]any{"result": r, "ops": v.Ops})
			return
		}
		// the vector in the form c09Match understands
		cv := &c09Vec{}
		for i, op := range v.Ops {
			cv.Ops = append(cv.Ops, c09Op{Kind: op.Kind})
			cv.Steps = append(cv.Steps, c09Step{Exp: v.Steps[i].Exp})
		}
		last := len(v.Steps) - 1
		for k, vr := range variants {
			rr := r.Hist[k]
			if rr.Class == "budget" || rr.Class == "timeout" {
				continue
			}
			use := cv
			if v.Steps[last].Open && rr.Class == "runtime" {
				// what a non-number index of an array does is open; a refusal is one of the outcomes:
				// everything before it must still be as the model says
				use = &c09Vec{Ops: cv.Ops, Steps: append(append([]c09Step{}, cv.Steps[:last]...), c09Step{Exp: c09Exp{St: "error"}})}
			}
			o := c09Obs{class: rr.Class, lines: c09Lines(rr.Stdout), js: rr.JS, jsErr: rr.JSErr}
			if ok, why := c09Match(use, "I", o, vr.arrayRoot, nil, nil, nil); !ok {
				prog := string(j.Hist[k].Prog)
				c.Violation("index-position", map[string]any{"program": prog, "input": string(j.Hist[k].Files[0].Data), "ops": v.Ops, "array_length": v.Len,
					"difference_from_model": why, "class": rr.Class, "stdout": string(rr.Stdout), "o_document": string(rr.JS), "err": rr.ErrMsg,
					"rule": "the position an index addresses is its integer part (toward zero), counted from the end when negative"})
				break
			}
		}
		key := name + ":" + string(j.Hist[0].Prog)
		c.Case(key, v.Ops[0].Iv.T == "q" && v.Ops[0].Iv.Q%4 != 0)
		stats.mu.Lock()
		defer stats.mu.Unlock()
		stats.n++
		for i, op := range v.Ops {
			w := "write"
			if op.Kind == "read" {
				w = "read"
			}
			stats.tags["idx:"+c09IdxClass(v, op)+":"+w+":"+v.Steps[i].Exp.St]++
		}
		if stats.tags["idx:vectors"]%2503 == 0 {
			c.Sample(map[string]any{"family": "index values (" + name + ")", "program": string(j.Hist[1].Prog), "input": string(j.Hist[1].Files[0].Data),
				"expected_last_step": v.Steps[last].Exp, "model_integer_part": v.Ops[len(v.Ops)-1].Trunc})
		}
		stats.tags["idx:vectors"]++
	})
	c.TLC(TLCOpt{Module: "MC_HeapIdx", Cfg: cfg, Workers: 8, Heap: "4g",
		OnVec: func(raw []byte) {
			v := &c09IdxVec{}
			VecDecode(raw, v)
			if len(v.Ops) != len(v.Steps) || len(v.Ops) == 0 {
				infra("C09: malformed index vector %.200s", raw)
			}
			seq++
			tag := strconv.Itoa(seq)
			mu.Lock()
			vecs[tag] = v
			mu.Unlock()
			doc := c09JSONText(c09FromCompact(v.Start["$"]))
			jobs := []Job{}
			for _, vr := range variants {
				in := doc
				if vr.arrayRoot {
					in = "[" + doc + ", \"t\"]"
				}
				jobs = append(jobs, Job{Kind: "run", Prog: []byte(c09IdxProgram(v, vr.form, vr.arrayRoot)),
					Files: []FileIn{{Name: "in.json", Data: []byte(in)}}, WantJS: true})
			}
			st.Submit(Job{Kind: "history", Hist: jobs, Tag: tag})
		}})
	st.Wait()
}

func c09IdxCfg(maxLen int, fine, deep bool) string {
	b := func(x bool) string {
		if x {
			return "TRUE"
		}
		return "FALSE"
	}
	return cfgText("INIT Init", "NEXT Next", "CONSTANTS", fmt.Sprintf("MaxLen = %d", maxLen), "Fine = "+b(fine), "Deep = "+b(deep),
		"INVARIANT Laws", "INVARIANT Vec", "CHECK_DEADLOCK FALSE")
}

var c09IdxMustTags = []string{"idx:negative:frac:write:ok", "idx:negative:frac:read:ok", "idx:negative:int:write:ok", "idx:in-range:frac:write:ok",
	"idx:past-end:frac:write:ok", "idx:past-end:int:read:ok", "idx:before-start:frac:write:error", "idx:before-start:int:read:error",
	"idx:nonnumber:write:ok", "idx:nonnumber:read:ok"}

// ---------------------------------------------------------------------------
// rounds family

type c09RLine struct {
	Tag  string `json:"tag"`
	Tree any    `json:"tree"`
}
type c09RVec struct {
	Input [][]any    `json:"input"`
	Sels  [][]c09Sel `json:"sels"`
	W     struct {
		Kind string   `json:"kind"`
		Sels []c09Sel `json:"sels"`
	} `json:"w"`
	Cap   string     `json:"cap"`
	Class string     `json:"class"`
	Lines []c09RLine `json:"lines"`
	Root  any        `json:"root"`
}

func c09RProgram(v *c09RVec) string {
	p := c09Path{Base: "$", Sels: v.W.Sels}.String()
	var w string
	switch v.W.Kind {
	case "set":
		w = p + " = 7"
	case "cadd":
		w = p + " += 5"
	case "postinc":
		w = p + "++"
	default:
		infra("C09: unknown write kind %q", v.W.Kind)
	}
	capt := ""
	switch v.Cap {
	case "first":
		capt = "if (g is unknown) g = $\n"
	case "last":
		capt = "g = $\n"
	}
	return "{\nprint \"B\", $\n" + capt + w + "\nprint \"A\", $\n}\nEND { print \"G\", g }\n"
}

func c09RoundsFamily(c *Ctx, pool *Pool, cfg string, stats *c09Stats) {
	var mu sync.Mutex
	vecs := map[string]*c09RVec{}
	seq := 0
	st := pool.NewStream(func(j *Job, r Result) {
		mu.Lock()
		v := vecs[j.Tag]
		delete(vecs, j.Tag)
		mu.Unlock()
		if r.Class == "budget" || r.Class == "timeout" {
			return
		}
		why := ""
		lines := c09Lines(r.Stdout)
		switch {
		case r.Class != v.Class:
			why = "the run ended " + r.Class + ", the model says " + v.Class
		case len(lines) != len(v.Lines):
			why = fmt.Sprintf("%d lines of output, the model says %d", len(lines), len(v.Lines))
		}
		for i := 0; why == "" && i < len(lines); i++ {
			tag := v.Lines[i].Tag + " "
			exp := c09FromCompact(v.Lines[i].Tree)
			if !strings.HasPrefix(lines[i], tag) {
				why = fmt.Sprintf("line %d: %q, expected a %q line", i+1, lines[i], v.Lines[i].Tag)
			} else if g := c09ParsePrint(lines[i][len(tag):]); !c09Equal(exp, g, false) {
				why = fmt.Sprintf("line %d (%s = before / after the write of a round, G = the global at END): expected %s, got %s", i+1, v.Lines[i].Tag, exp, g)
			}
		}
		if why == "" && v.Class == "ok" {
			if r.JSErr != "" {
				why = "-o document: " + r.JSErr
			} else if doc, err := c09JSONAny(r.JS); err != nil {
				why = "-o document is not JSON: " + err.Error()
			} else if exp, g := c09FromCompact(v.Root), c09FromJSON(doc); !c09Equal(exp, g, true) {
				why = fmt.Sprintf("-o document (the root of the last round): expected %s, got %s", exp, g)
			}
		}
		files := []string{}
		for _, f := range j.Files {
			files = append(files, string(f.Data))
		}
		if why != "" {
			c.Violation("round-isolation", map[string]any{"program": string(j.Prog), "files": files, "root_selectors": j.Sels, "difference_from_model": why,
				"class": r.Class, "stdout": string(r.Stdout), "o_document": string(r.JS), "err": r.ErrMsg,
				"rule": "every (file, value, root selector) round starts from the value as it was read: a write below $ is seen by no later round"})
		}
		overlap := len(v.Sels) >= 2 || len(v.Input) >= 2 || len(v.Input[0]) >= 2
		c.Case("rounds:"+strings.Join(j.Sels, ",")+"|"+strings.Join(files, "|")+"|"+string(j.Prog), overlap)
		stats.mu.Lock()
		defer stats.mu.Unlock()
		stats.n++
		stats.tags["rounds:vectors"]++
		stats.tags["rounds:"+v.Class]++
		if len(v.Sels) >= 2 {
			stats.tags["rounds:several-selectors"]++
		}
		if len(v.Input) >= 2 {
			stats.tags["rounds:several-files"]++
		}
		if len(v.Input[0]) >= 2 {
			stats.tags["rounds:several-values"]++
		}
		if stats.tags["rounds:vectors"]%1009 == 1 {
			c.Sample(map[string]any{"family": "rounds", "program": string(j.Prog), "files": files, "root_selectors": j.Sels, "expected_lines": v.Lines})
		}
	})
	c.TLC(TLCOpt{Module: "MC_HeapRounds", Cfg: cfg, Workers: 8, Heap: "4g",
		OnVec: func(raw []byte) {
			v := &c09RVec{}
			VecDecode(raw, v)
			if len(v.Input) == 0 {
				infra("C09: malformed rounds vector %.200s", raw)
			}
			seq++
			tag := strconv.Itoa(seq)
			mu.Lock()
			vecs[tag] = v
			mu.Unlock()
			files := []FileIn{}
			for i, f := range v.Input {
				vals := []string{}
				for _, d := range f {
					vals = append(vals, c09JSONText(c09FromCompact(d)))
				}
				files = append(files, FileIn{Name: fmt.Sprintf("f%d.json", i+1), Data: []byte(strings.Join(vals, "\n") + "\n")})
			}
			sels := []string{}
			for _, s := range v.Sels {
				sels = append(sels, c09Path{Base: "$", Sels: s}.String())
			}
			st.Submit(Job{Kind: "run", Prog: []byte(c09RProgram(v)), Files: files, Sels: sels, WantJS: true, Tag: tag})
		}})
	st.Wait()
}

func c09JSONAny(b []byte) (any, error) {
	var doc any
	err := json.Unmarshal(b, &doc)
	return doc, err
}

func c09RoundsCfg(maxSels int, wide bool) string {
	w := "FALSE"
	if wide {
		w = "TRUE"
	}
	return cfgText("INIT Init", "NEXT Next", "CONSTANTS", fmt.Sprintf("MaxSels = %d", maxSels), "Wide = "+w,
		"INVARIANT Laws", "INVARIANT TypeOK", "INVARIANT Vec", "CHECK_DEADLOCK FALSE")
}

var c09RoundsMustTags = []string{"rounds:ok", "rounds:runtime", "rounds:several-selectors", "rounds:several-files", "rounds:several-values"}
