package main

import (
	"bytes"
	"encoding/json"
	"fmt"
	"math/rand"
	"os"
	"path/filepath"
	"sort"
	"strings"
	"sync"
	"time"
)

func init() { register("C04", checkC04) }

// c04SafeKey: the key can be written after a dot in a selector.
func c04SafeKey(k string) bool {
	if !c17IsIdent(k) {
		return false
	}
	for _, sk := range c17SafeKeys {
		if strings.HasPrefix(k, sk) {
			return true
		}
	}
	return false
}

type c04Vec struct {
	H   []c17Val          `json:"h"`
	Exp c17Val            `json:"exp"`
	Dev map[string]c17Val `json:"dev"`
}

const c04Dev = "empty-array-null"

// c04Verdict compares one observed JSON text (or error) with the model's
// expectation: ok | known (explained by the open deviation) | violation.
// got == nil means "the implementation reported an error".
func c04Verdict(c *Ctx, in *c17Inst, exp c17Val, dev map[string]c17Val, got []byte, isErr bool) (verdict string, why string) {
	if exp.isError() {
		if isErr {
			return "ok", ""
		}
		return "violation", "the value contains itself or a leaf JSON cannot express: an error is required, got output"
	}
	if isErr {
		return "violation", "a JSON-expressible acyclic value must be written, got an error"
	}
	val, err := c17ParseJSONText(got)
	if err != nil {
		return "violation", "output is not valid JSON: " + err.Error()
	}
	if c17DeepEq(val, in.goValue(exp)) {
		return "ok", ""
	}
	if alt, ok := dev[c04Dev]; ok && !alt.isError() && c17DeepEq(val, in.goValue(alt)) {
		if c.OpenDev(c04Dev) {
			return "known", ""
		}
		return "violation", "every empty array is written as null (deviation " + c04Dev + " is not listed as open)"
	}
	return "violation", "output parses to a different value"
}

// C04: JSON written by -o and json() is valid and equal to the value it represents.
func checkC04(c *Ctx) {
	c.Assume("in the heap and document families string and number contents are opaque atoms instantiated per seed (strings with quotes, backslashes, control characters, U+2028/2029, multi-byte and astral characters, supplied through the input document; doubles from the special pool and random bit patterns). 'All string escapes' is modelled by JqJsonText: 16 classes of code points with the same JSON treatment, every string of <= 2 (thorough 3) classes at every position and entry point; a one-code-point string is replayed with every listed member of its class (all 32 C0 controls, DEL, all C1 controls, ...), longer ones and the large classes with seeded members. 'Every finite double' is 9 classes of doubles (zero, -0, integers, fractions, >= 1e17, <= 1e-5, subnormals, the largest, around 2^53) plus random bit patterns, by instantiation only")
	c.Assume("nesting: the model has no depth limit; the implementation's reader (encoding/json) reads documents of at most 10000 nested containers. Chains are replayed at the model's depth (<= 5 / 6), stretched to a seeded depth in the hundreds (thorough: thousands), and at 9999, 10000 and 10001 levels; a value of more than 10000 levels (only constructible by a program, no readable document is that deep) may be written or refused, never written wrongly")
	c.Assume("which of the valid JSON spellings of a code point is used (raw, two-character escape, \\uXXXX, surrogate pair) is not compared; lone surrogates and raw invalid UTF-8 in the output are rejected")
	c.Assume("numbers are compared with == after encoding/json parsing (the statement says equal; -0 and 0 are equal)")
	c.Assume("object key order and whitespace of the written JSON are not compared (parsed values are)")
	c.Assume("non-JSON leaves are instantiated as +Inf, -Inf, NaN (stored in containers) and functions (only as the direct argument of json(): the implementation cannot store a function in a container); regex leaves and unset variables are left open")
	c.Assume("strings that are not valid UTF-8 (constructible by indexing a string) are outside the universe: documents as read are always valid UTF-8")
	c.Assume("heaps are built with every array allocated at its final size before a reference to it is stored (growing an aliased array is C09's finding alias-length)")
	c.Assume("input documents with duplicate object keys are outside the universe")
	pool := c.Pool()
	var nKnown, nErrExp, nInconclusive int64
	knownWitness := ""

	var vmu sync.Mutex // the verdict sinks are shared by the streams of this file and the background runs of c04b.go
	report := func(name string, rep map[string]any) { c.Violation(name, rep) }
	settle := func(fam, key string, verdict, why string, rep func() map[string]any, nontrivial bool) {
		vmu.Lock()
		defer vmu.Unlock()
		switch verdict {
		case "ok":
			c.Case(key, nontrivial)
		case "known":
			nKnown++
			c.Case(key, nontrivial)
			if knownWitness == "" {
				knownWitness = fam
			}
		default:
			m := rep()
			m["why"] = why
			m["family"] = fam
			report(fam, m)
		}
	}

	if only := os.Getenv("C04_ONLY"); only != "" { // development: the families of c04c.go / c04d.go alone
		noBin := func(prog, doc []byte, sels []string, exp c17Val, in *c17Inst, tag, fam string) {}
		if strings.Contains(only, "read") {
			c04ReadFamily(c, pool, settle, report, noBin)
		}
		if strings.Contains(only, "chunk") {
			c04ChunkFamily(c, pool, settle, report, noBin)
		}
		return
	}

	// ---- (ii) heaps: json(c1) printed, and GetRootJson after `$ = c1`
	classes := `{"s", "n", "x"}`
	if c.Thorough() {
		classes = `{"s", "n", "l", "x"}`
	}
	nh := 0
	nonTerm := &c17NonTerm{}
	guard := []byte("+Inf -Inf NaN\n")
	st := pool.NewStream(func(j *Job, r Result) {
		var v c04Vec
		VecDecode([]byte(j.Tag), &v)
		in := c17NewInst(c.Seed, []byte(j.Tag))
		in.prealloc(v.H...)
		// a dead or hung worker (endless recursion, stack overflow) is a violation, reproduced in isolation first
		var bad bool
		if r, bad = nonTerm.settle(pool, j, r); bad {
			report("json-does-not-terminate", map[string]any{"program": string(j.Prog), "input": string(j.Files[0].Data), "class": r.Class, "detail": r.Detail,
				"why": "conversion must end with a value or an error (reproduced in isolation)"})
			return
		}
		out := r.Stdout
		if j.N&2 != 0 { // the program first prints the non-finite numbers it computed; anything else: arithmetic is not what this check assumes
			if !bytes.HasPrefix(out, guard) {
				nInconclusive++
				return
			}
			out = out[len(guard):]
		}
		rep := func() map[string]any {
			return map[string]any{"program": string(j.Prog), "input": string(j.Files[0].Data), "vector": json.RawMessage(j.Tag),
				"got_class": r.Class, "got": c17Clip(out), "got_root_json": c17Clip(r.JS), "root_json_err": r.JSErr, "err": r.ErrMsg, "detail": r.Detail}
		}
		if v.Exp.isError() {
			nErrExp++
		}
		nontrivial := len(v.H) > 1
		if j.N&1 == 0 { // print json(c1)
			if r.Class != "ok" && r.Class != "runtime" {
				report("json-builtin", map[string]any{"case": rep(), "why": "unexpected outcome class"})
				return
			}
			verdict, why := c04Verdict(c, in, v.Exp, v.Dev, out, r.Class == "runtime")
			settle("json-builtin", "json:"+j.Tag, verdict, why, rep, nontrivial)
		} else { // $ = c1, then Evaluator.GetRootJson
			if r.Class != "ok" {
				report("root-json", map[string]any{"case": rep(), "why": "the program itself must succeed"})
				return
			}
			if strings.HasPrefix(r.JSErr, "panic") {
				report("root-json", map[string]any{"case": rep(), "why": "GetRootJson panicked"})
				return
			}
			verdict, why := c04Verdict(c, in, v.Exp, v.Dev, r.JS, r.JSErr != "")
			settle("root-json", "root:"+j.Tag, verdict, why, rep, nontrivial)
		}
		nh++
		if nh%20000 == 1 {
			c.Sample(map[string]any{"family": "heap", "program": string(j.Prog), "input": string(j.Files[0].Data), "expected": v.Exp, "stdout": c17Clip(out), "root_json": c17Clip(r.JS), "class": r.Class})
		}
	})
	type binCase struct {
		prog, doc []byte
		sels      []string
		exp       c17Val
		dev       map[string]c17Val
		in        *c17Inst
		tag       string
		fam       string
	}
	var binCases []binCase
	binEvery := 97
	if c.Thorough() {
		binEvery = 29
	}
	nv := 0
	c.TLC(TLCOpt{Module: "MC_Render", Workers: 12, Heap: "6g",
		Cfg: cfgText("INIT Init", "NEXT Next", "CONSTANTS", "MaxC = 3", "MaxS = 2", "Classes = "+classes, `ArgMode = "root"`, "MaxArgs = 1",
			"INVARIANT Laws", "INVARIANT VecJson", "CHECK_DEADLOCK FALSE"),
		OnVec: func(raw []byte) {
			var v c04Vec
			VecDecode(raw, &v)
			nv++
			if c17Decided(c) { // the verdict is settled: do not keep the workers busy (or crashing) until TLC's timeout
				return
			}
			in := c17NewInst(c.Seed, raw)
			in.prealloc(v.H...)
			mk := func(salt string, tail []string) c17Built {
				return c17Build(in, v.H, rand.New(rand.NewSource(c17Seed(c.Seed, raw, salt))), func(func(c17Val) string) []string { return tail })
			}
			b := mk("json", []string{"print json(c1)"})
			n := 0
			if b.HasX {
				n = 2
			}
			st.Submit(Job{Kind: "c17run", Prog: b.Prog, Files: []FileIn{{Name: "in.json", Data: b.Doc}}, Tag: string(raw), N: n})
			b2 := mk("root", []string{"$ = c1"})
			// GetRootJson shares ToGoValue with json(): in the quick tier every second heap (by vector hash) goes through it as well
			if c.Thorough() || c17Seed(c.Seed, raw, "rootjson")%2 == 0 {
				st.Submit(Job{Kind: "c17run", Prog: b2.Prog, Files: []FileIn{{Name: "in.json", Data: b2.Doc}}, Tag: string(raw), N: n | 1, WantJS: true})
			}
			if c17Seed(c.Seed, raw, "bin")%int64(binEvery) == 0 && !b2.HasX { // by vector, not by arrival (TLC's workers print in any order)
				binCases = append(binCases, binCase{prog: b2.Prog, doc: b2.Doc, exp: v.Exp, dev: v.Dev, in: in, tag: string(raw), fam: "bin-heap"})
			}
		}})
	st.Wait()

	// ---- (i) documents through programs that do not modify them
	w3 := 1
	if c.Thorough() {
		w3 = 2
	}
	ndoc := 0
	std := pool.NewStream(func(j *Job, r Result) {
		var v c17DocVec
		VecDecode([]byte(j.Tag), &v)
		in := c17NewInst(c.Seed, []byte(j.Tag))
		in.prealloc(v.Doc)
		sub := v.Subs[j.N>>2]
		fam := []string{"doc-root-json", "doc-json-builtin"}[j.N&1]
		rep := func() map[string]any {
			got := r.JS
			if j.N&1 == 1 {
				got = r.Stdout
			}
			return map[string]any{"program": string(j.Prog), "selectors": j.Sels, "input": string(j.Files[0].Data), "got_class": r.Class, "got": c17Clip(got),
				"root_json_err": r.JSErr, "err": r.ErrMsg, "detail": r.Detail}
		}
		if r.Class != "ok" || strings.HasPrefix(r.JSErr, "panic") {
			report(fam, map[string]any{"case": rep(), "why": "a program that does not modify the document must succeed"})
			return
		}
		var verdict, why string
		if j.N&1 == 1 {
			verdict, why = c04Verdict(c, in, sub.Exp, sub.Dev, r.Stdout, false)
		} else {
			verdict, why = c04Verdict(c, in, sub.Exp, sub.Dev, r.JS, r.JSErr != "")
		}
		settle(fam, fmt.Sprintf("%s:%d:%s", fam, j.N, j.Tag), verdict, why, rep, v.Doc.Kind != 0)
		ndoc++
		if ndoc%9000 == 1 {
			c.Sample(map[string]any{"family": fam, "program": string(j.Prog), "selectors": j.Sels, "input": string(j.Files[0].Data), "expected": sub.Exp, "root_json": c17Clip(r.JS), "stdout": c17Clip(r.Stdout)})
		}
	})
	nv = 0
	c.TLC(TLCOpt{Module: "MC_RenderDoc", Workers: 8, Heap: "6g",
		Cfg: cfgText("INIT Init", "NEXT Next", "CONSTANTS", "W1 = 2", "W2 = 2", fmt.Sprintf("W3 = %d", w3), "INVARIANT Laws", "INVARIANT Vec", "CHECK_DEADLOCK FALSE"),
		OnVec: func(raw []byte) {
			var v c17DocVec
			VecDecode(raw, &v)
			nv++
			in := c17NewInst(c.Seed, raw)
			in.prealloc(v.Doc)
			r := rand.New(rand.NewSource(c17Seed(c.Seed, raw, "doc")))
			var doc bytes.Buffer
			in.writeDoc(&doc, v.Doc, r)
			// self-check of the harness's own JSON writer
			if val, err := c17ParseJSONText(doc.Bytes()); err != nil || !c17DeepEq(val, in.goValue(v.Doc)) {
				infra("harness wrote a document that does not read back: %s (%v)", doc.Bytes(), err)
			}
			files := []FileIn{{Name: "in.json", Data: doc.Bytes()}}
			ident := [][]byte{[]byte("{}"), []byte("{ x = $ }"), []byte("{ x = $; y = x }\nEND { z = x }"), []byte(""), []byte("BEGINFILE { keep = $ }")}
			prog := ident[r.Intn(len(ident))]
			std.Submit(Job{Kind: "run", Prog: prog, Files: files, WantJS: true, Tag: string(raw), N: 0})
			std.Submit(Job{Kind: "run", Prog: []byte("BEGINFILE { print json($) }"), Files: files, Tag: string(raw), N: 1})
			sels := make([][]string, len(v.Subs)) // sels[k]: a selector that picks sub-document k (nil: the key has no literal)
			for k := 1; k < len(v.Subs); k++ {
				var sel string
				if v.Doc.Kind == 'a' {
					sel = fmt.Sprintf("$[%d]", k-1)
				} else {
					key := in.key(v.Doc.K[k-1])
					lit, ok := c17StrLit(key)
					switch {
					case c04SafeKey(key) && r.Intn(2) == 0:
						sel = "$." + key
					case ok:
						sel = "$[" + lit + "]"
					default:
						continue
					}
				}
				sels[k] = []string{sel}
				std.Submit(Job{Kind: "run", Prog: ident[r.Intn(len(ident))], Files: files, Sels: []string{sel}, WantJS: true, Tag: string(raw), N: k << 2})
			}
			if c17Seed(c.Seed, raw, "bin")%int64(binEvery) == 0 {
				k := r.Intn(len(v.Subs))
				if k > 0 && sels[k] == nil {
					k = 0
				}
				bc := binCase{prog: ident[r.Intn(3)], doc: doc.Bytes(), exp: v.Subs[k].Exp, dev: v.Subs[k].Dev, in: in, tag: string(raw), fam: "bin-doc"}
				if r.Intn(4) == 0 {
					bc.prog = []byte("") // the empty program, as in `jqawk -r SEL -o f.json '' f.json`
				}
				bc.sels = sels[k]
				binCases = append(binCases, bc)
			}
		}})
	std.Wait()

	// ---- (v) array values that share storage but differ in length / start (MC_RenderView)
	c04ViewFamily(c, pool, settle, report)

	// ---- (vi) programs that read the document, (vii) special code points at the reader's buffer boundaries (c04c.go, c04d.go)
	addBinCase := func(prog, doc []byte, sels []string, exp c17Val, in *c17Inst, tag, fam string) {
		binCases = append(binCases, binCase{prog: prog, doc: doc, sels: sels, exp: exp, in: in, tag: tag, fam: fam})
	}
	c04ReadFamily(c, pool, settle, report, addBinCase)
	c04ChunkFamily(c, pool, settle, report, addBinCase)

	// ---- (iii) leaves x positions x entry points, (iv) chains up to the reader's nesting limit (c04b.go);
	// the runs at the limit continue in the background until waitPart2
	waitPart2 := c04Part2(c, pool, settle, report, func(prog, doc []byte, sels []string, exp c17Val, in *c17Inst, tag, fam string) {
		binCases = append(binCases, binCase{prog: prog, doc: doc, sels: sels, exp: exp, in: in, tag: tag, fam: fam})
	})

	// ---- heaps of 4..40 containers, oracle = TLC (Trace_Render): json(c1)
	{
		nMed := 150
		if c.Thorough() {
			nMed = 800
		}
		heaps := c17MediumHeaps(rand.New(rand.NewSource(c17Seed(c.Seed, nil, "medium04"))), nMed, 40)
		exp := c17TraceRender(c, heaps)
		var jobs []Job
		var ins []*c17Inst
		for _, h := range heaps {
			raw, _ := json.Marshal(h)
			in := c17NewInst(c.Seed, raw)
			in.prealloc(h...)
			b := c17Build(in, h, rand.New(rand.NewSource(c17Seed(c.Seed, raw, "json"))), func(func(c17Val) string) []string { return []string{"print json(c1)"} })
			jobs = append(jobs, Job{Kind: "run", Prog: b.Prog, Files: []FileIn{{Name: "in.json", Data: b.Doc}}, Tag: string(raw)})
			ins = append(ins, in)
		}
		pool.Map(jobs, func(i int, r Result) {
			j := &jobs[i]
			rep := func() map[string]any {
				return map[string]any{"program": string(j.Prog), "input": string(j.Files[0].Data), "got_class": r.Class, "got": c17Clip(r.Stdout), "err": r.ErrMsg, "detail": r.Detail, "expected": exp[i].JS}
			}
			if r.Class != "ok" && r.Class != "runtime" {
				report("medium-heap-json", map[string]any{"case": rep(), "why": "conversion must end with a value or a runtime error"})
				return
			}
			if exp[i].JS.isError() {
				nErrExp++
			}
			verdict, why := c04Verdict(c, ins[i], exp[i].JS, exp[i].Dev, r.Stdout, r.Class == "runtime")
			settle("medium-heap-json", "medium:"+j.Tag, verdict, why, rep, true)
		})
	}

	// ---- json() of a function: an error, never output
	{
		progs := []string{
			"function f(a) { return a }\nBEGIN { print json(f) }",
			"BEGIN { print json(json) }",
			"BEGIN { print json(printf) }",
			"function f() { return 1 }\nBEGIN { x = [1, f]; print json(x) }",
			"function f() { return 1 }\nBEGIN { x = {k: f}; print json(x) }",
			"BEGIN { x = [1]; print json(x.push) }",
		}
		var jobs []Job
		for _, p := range progs {
			jobs = append(jobs, Job{Kind: "run", Prog: []byte(p)})
		}
		pool.Map(jobs, func(i int, r Result) {
			if r.Class != "runtime" || len(bytes.TrimSpace(r.Stdout)) != 0 {
				report("json-function", map[string]any{"program": progs[i], "got_class": r.Class, "got": c17Clip(r.Stdout), "why": "a function cannot be expressed in JSON: a runtime error and no output are required"})
				return
			}
			nErrExp++
			c.Case("fn:"+progs[i], true)
		})
	}

	// ---- the binary: -o - and -o FILE, input from a file or stdin
	{
		dir := c.TempDir("c04bin")
		var wg sync.WaitGroup
		var mu sync.Mutex
		sem := make(chan struct{}, 12)
		nbin := 0
		sort.SliceStable(binCases, func(a, b int) bool {
			if binCases[a].fam != binCases[b].fam {
				return binCases[a].fam < binCases[b].fam
			}
			if binCases[a].tag != binCases[b].tag {
				return binCases[a].tag < binCases[b].tag
			}
			return bytes.Compare(binCases[a].doc, binCases[b].doc) < 0
		})
		{
			// a document holding a byte that some way of writing treats specially (a format directive) goes
			// through both kinds of -o, whatever its position in the list: the copy that follows it has the other parity
			var expanded []binCase
			nfmt := 0
			for _, bc := range binCases {
				expanded = append(expanded, bc)
				if bytes.IndexByte(bc.doc, '%') >= 0 {
					expanded = append(expanded, bc)
					nfmt++
				}
			}
			binCases = expanded
			c.Set("binary_docs_with_percent_in_both_o_kinds", nfmt)
		}
		for i := range binCases {
			bc := binCases[i]
			mode := i % 4 // 0: -o - file, 1: -o FILE file, 2: -o - stdin, 3: -o FILE stdin
			wg.Add(1)
			sem <- struct{}{}
			go func(i int) {
				defer wg.Done()
				defer func() { <-sem }()
				inPath := filepath.Join(dir, fmt.Sprintf("in%d.json", i))
				outPath := filepath.Join(dir, fmt.Sprintf("out%d.json", i))
				// -o FILE: a third of the runs write to a fresh path, a third over an existing, much longer
				// file, a third (file input) over the input file itself; the file must afterwards hold exactly the value
				var before []byte // content of the target before the run (nil: it does not exist)
				if mode%2 == 1 {
					switch variant := (i / 4) % 3; {
					case variant == 2 && mode == 1:
						outPath = inPath
						before = bc.doc
					case variant >= 1:
						before = []byte(strings.Repeat("{\"stale\": [\"left over from an earlier, longer result\", 1, 2, 3]}\n", 40+len(bc.doc)/20))
						os.WriteFile(outPath, before, 0o644)
					}
				}
				var args []string
				for _, s := range bc.sels {
					args = append(args, "-r", s)
				}
				if mode%2 == 0 {
					args = append(args, "-o", "-")
				} else {
					args = append(args, "-o", outPath)
				}
				args = append(args, string(bc.prog))
				var stdin []byte
				if mode < 2 {
					os.WriteFile(inPath, bc.doc, 0o644)
					args = append(args, inPath)
				} else {
					stdin = bc.doc
				}
				br := c.RunBin(args, stdin, dir, 60*time.Second)
				if br.TimedOut { // reproduce before calling it non-termination (the machine may be loaded)
					if mode < 2 {
						os.WriteFile(inPath, bc.doc, 0o644)
					}
					if before != nil && outPath != inPath {
						os.WriteFile(outPath, before, 0o644)
					}
					br = c.RunBin(args, stdin, dir, 180*time.Second)
				}
				var got []byte
				if mode%2 == 0 {
					got = br.Stdout
				} else {
					got, _ = os.ReadFile(outPath)
				}
				os.Remove(inPath)
				os.Remove(outPath)
				mu.Lock()
				defer mu.Unlock()
				rep := func() map[string]any {
					return map[string]any{"args": args, "program": string(bc.prog), "input": string(bc.doc), "target_before": c17Clip(before), "exit": br.Exit, "got": c17Clip(got), "stderr": c17Clip(br.Stderr), "vector": json.RawMessage(bc.tag)}
				}
				if br.TimedOut || br.Signaled || hasCrashMarks(br.Stderr) || (br.Exit != 0 && br.Exit != 1) {
					report(bc.fam, map[string]any{"case": rep(), "why": "the binary crashed or did not terminate"})
					return
				}
				isErr := br.Exit != 0
				if isErr && before != nil && mode%2 == 1 {
					if !bytes.Equal(got, before) {
						report(bc.fam, map[string]any{"case": rep(), "why": "an error was reported but the existing target file was changed"})
						return
					}
					got = nil
				}
				if isErr && len(bytes.TrimSpace(got)) != 0 {
					report(bc.fam, map[string]any{"case": rep(), "why": "an error was reported but output was written as well"})
					return
				}
				if !isErr && mode%2 == 1 && len(br.Stdout) != 0 {
					report(bc.fam, map[string]any{"case": rep(), "why": "-o FILE must not write the JSON to stdout"})
					return
				}
				verdict, why := c04Verdict(c, bc.in, bc.exp, bc.dev, got, isErr)
				settle(bc.fam, fmt.Sprintf("%s:%d:%s", bc.fam, mode, bc.tag), verdict, why, rep, true)
				nbin++
				if nbin%400 == 1 {
					c.Sample(map[string]any{"family": bc.fam, "args": args, "input": string(bc.doc), "got": c17Clip(got), "exit": br.Exit})
				}
			}(i)
		}
		wg.Wait()
		c.Set("binary_runs", nbin)
	}

	waitPart2()
	if nKnown > 0 {
		c.Known(c04Dev, fmt.Sprintf("an empty array anywhere in the value is written as null by -o and json() (%d cases, first in family %s; witness: `echo '{\"a\":[]}' | jqawk -o - '{}'` writes {\"a\": null})", nKnown, knownWitness))
	}
	c.Set("exhaustive", true)
	c.Set("cases_explained_by_empty_array_null", nKnown)
	c.Set("cases_expecting_an_error", nErrExp)
	c.Set("inconclusive_non_finite_guard", nInconclusive)
	c.Set("rule_part2", "MC_JsonLeaf: every string of <= MaxLen code point classes (JqJsonText), every number class and true/false/null x {the value itself, array element, object value, object key, two levels down} x {json() of a program-built value, json($), json(<path>), -o after $ = v, -o of the unmodified document, -o with a selector}: the text must be accepted by a strict RFC 8259 reader whose escape table is cross-checked against JqJsonText.Allowed and by encoding/json, and equal the value. "+
		"MC_RenderDeep: chains of d <= Limit+1 containers (kind patterns of period <= MaxPeriod, empty / scalar innermost, sibling scalars before / after, as document, as program-built heap, and closed into a cycle at every level), replayed at depth d, stretched to hundreds of levels and to the implementation's reader limit -1, +0, +1 through json(), GetRootJson and the binary's -o FILE: acyclic => the same value, cycle => error; non-trivial: every case but the words true/false/null and chains of one container")
	c.Set("rule", "TLC enumerates every heap of <= 3 containers x <= 2 slots x {atom classes incl. a non-JSON leaf, reference} up to renaming and every JSON document tree of depth <= 3 (every empty/non-empty combination); "+
		"heaps are built by assignment-only programs and converted by json() and by GetRootJson after `$ = c1`, documents pass through programs that do not modify them (library GetRootJson, json($), -r selectors, and the binary's -o -/-o FILE on a seeded sample); "+
		"the output must parse to the model's tree (or be an error exactly when the model says so); a case is non-trivial when the heap has more than one container / the document is a container; distinct by (family, vector)")
	c.Set("checker_cmd", "tlc MC_Render (Laws, VecJson) / MC_RenderDoc (Laws, Vec) / MC_JsonLeaf (Laws, Vec) / MC_RenderDeep (Laws, Vec); replay through lang.EvalProgram + Evaluator.GetRootJson in worker processes and the jqawk binary")
	c.Set("bounds", map[string]any{"MaxC": 3, "MaxS": 2, "Classes": classes, "DocWidth": []int{2, 2, w3}})
}

// c04ViewFamily: every pair (thorough: triple) of windows over one storage, reachable from the one value
// handed to json() / written by -o (spec/MC_RenderView.tla).  The program prints length() probes first;
// a vector whose probes do not show the model's lengths is not compared (the implementation does not
// have the values the model speaks of: C09's open finding alias-length was repaired or changed).
func c04ViewFamily(c *Ctx, pool *Pool, settle func(fam, key string, verdict, why string, rep func() map[string]any, nontrivial bool), report func(name string, rep map[string]any)) {
	c.Assume("views (arrays that share storage but differ in length, MC_RenderView) exist only through C09's open finding alias-length (an array value is a slice header copied on assignment); each vector first confirms by length() probes that the implementation realised the windows of the model, vectors whose probes differ are counted as not realised and not compared; a view stored inside its own storage is left open (the cycle test works per storage)")
	var nReal, nUnreal int64
	cfg, bounds := c17ViewCfg(c.Thorough())
	nonTerm := &c17NonTerm{}
	n := 0
	st := pool.NewStream(func(j *Job, r Result) {
		var v c17ViewVec
		VecDecode([]byte(j.Tag), &v)
		in := c17NewInst(c.Seed, []byte(j.Tag))
		in.prealloc(v.H...)
		c17ViewDistinct(in, v.H)
		fam := []string{"view-json-builtin", "view-root-json"}[j.N&1]
		b := c17BuildViews(in, v.H, rand.New(rand.NewSource(c17Seed(c.Seed, []byte(j.Tag), fam))), nil)
		var bad bool
		if r, bad = nonTerm.settle(pool, j, r); bad {
			report("view-json-does-not-terminate", map[string]any{"program": string(j.Prog), "input": string(j.Files[0].Data), "class": r.Class, "detail": r.Detail,
				"why": "conversion must end with a value or an error (reproduced in isolation)"})
			return
		}
		out, realised := c17ViewProbe(r.Stdout, b.Probes)
		rep := func() map[string]any {
			return map[string]any{"program": string(j.Prog), "input": string(j.Files[0].Data), "vector": json.RawMessage(j.Tag), "probe_lengths_expected": b.Probes,
				"got_class": r.Class, "got": c17Clip(r.Stdout), "got_root_json": c17Clip(r.JS), "root_json_err": r.JSErr, "err": r.ErrMsg, "detail": r.Detail}
		}
		if r.Class != "ok" {
			report(fam, map[string]any{"case": rep(), "why": "building and converting an acyclic value must succeed"})
			return
		}
		if !realised {
			nUnreal++
			return
		}
		nReal++
		var verdict, why string
		if j.N&1 == 0 {
			verdict, why = c04Verdict(c, in, v.Exp, nil, out, false)
		} else {
			if strings.HasPrefix(r.JSErr, "panic") {
				report(fam, map[string]any{"case": rep(), "why": "GetRootJson panicked"})
				return
			}
			verdict, why = c04Verdict(c, in, v.Exp, nil, r.JS, r.JSErr != "")
		}
		if verdict != "ok" {
			why += ": every array is written with its own elements, also when another array over the same storage was written before it"
		}
		settle(fam, fam+":"+j.Tag, verdict, why, rep, true)
		n++
		if n%4000 == 1 {
			c.Sample(map[string]any{"family": fam, "program": string(j.Prog), "input": string(j.Files[0].Data), "expected": v.Exp, "stdout": c17Clip(r.Stdout), "root_json": c17Clip(r.JS)})
		}
	})
	c.TLC(TLCOpt{Module: "MC_RenderView", Workers: 8, Heap: "6g", Cfg: cfg,
		OnVec: func(raw []byte) {
			if c17Decided(c) {
				return
			}
			var v c17ViewVec
			VecDecode(raw, &v)
			for k, tail := range [][]string{{"print json(c1)"}, {"$ = c1"}} {
				in := c17NewInst(c.Seed, raw)
				in.prealloc(v.H...)
				c17ViewDistinct(in, v.H)
				fam := []string{"view-json-builtin", "view-root-json"}[k]
				b := c17BuildViews(in, v.H, rand.New(rand.NewSource(c17Seed(c.Seed, raw, fam))), tail)
				st.Submit(Job{Kind: "c17run", Prog: b.Prog, Files: []FileIn{{Name: "in.json", Data: b.Doc}}, Tag: string(raw), N: k, WantJS: k == 1})
			}
		}})
	st.Wait()
	c.Set("view_vectors_realised", nReal)
	c.Set("view_vectors_not_realised", nUnreal)
	c.Set("view_bounds", bounds)
	if nReal == 0 {
		c.Assume("NOTE: no view vector was realised in this run: the implementation no longer has arrays that share storage with different lengths; the family is vacuous")
	}
}
