// jqcheck: orchestrator for the TLA+ model-based checks of jqawk.
//
//	jqcheck <Cxx> [--tier quick|thorough] [--seed N] [--replay FILE]
//	jqcheck worker            (internal: executes jobs read from stdin)
//
// Exit status: 0 the property held on everything explored, 1 violation (with a
// line "VIOLATION property=<id> replay=<path>"), 2 infrastructure failure.
package main

import (
	"bufio"
	"encoding/json"
	"fmt"
	"os"
	"path/filepath"
	"sort"
	"strconv"
	"strings"
	"sync"
	"time"
)

const verifRoot = "/verif"

type Infra struct{ msg string }

func (i Infra) Error() string { return i.msg }

// infra aborts the check with exit status 2 (never a violation).
func infra(format string, a ...any) {
	panic(Infra{fmt.Sprintf(format, a...)})
}

type Finding struct {
	State string // "open" or "fixed"
	Prop  string
	Dev   string
	What  string
}

type Ctx struct {
	ID    string
	Tier  string
	Seed  int64
	Out   string // scratch dir for this run: /verif/out/<id>.<pid>
	Quick bool

	mu         sync.Mutex
	ev         Evidence
	violations []string
	known      map[string]string // dev -> what (needed on this run)
	findings   []Finding
	start      time.Time
	samples    []any
	distinct   map[string]bool
	pool       *Pool
	binPath    string
}

type Evidence struct {
	PropertyID  string         `json:"property_id"`
	Tier        string         `json:"tier"`
	Seed        int64          `json:"seed"`
	Level       string         `json:"level"`
	Coverage    map[string]any `json:"coverage"`
	Assumptions []string       `json:"assumptions"`
	WallS       float64        `json:"wall_s"`
	Violations  int            `json:"violations"`
}

type checkFn func(c *Ctx)

var registry = map[string]checkFn{}

func register(id string, f checkFn) { registry[id] = f }

func loadFindings() []Finding {
	var out []Finding
	f, err := os.Open(filepath.Join(verifRoot, "KNOWN_FINDINGS.txt"))
	if err != nil {
		return out
	}
	defer f.Close()
	sc := bufio.NewScanner(f)
	for sc.Scan() {
		line := strings.TrimSpace(sc.Text())
		if line == "" || strings.HasPrefix(line, "#") {
			continue
		}
		var fd Finding
		switch {
		case strings.HasPrefix(line, "open:"):
			fd.State = "open"
			line = strings.TrimSpace(line[5:])
		case strings.HasPrefix(line, "fixed:"):
			fd.State = "fixed"
			line = strings.TrimSpace(line[6:])
		default:
			continue
		}
		fields := strings.Fields(line)
		rest := []string{}
		for _, fl := range fields {
			switch {
			case strings.HasPrefix(fl, "property=") && fd.Prop == "":
				fd.Prop = fl[len("property="):]
			case strings.HasPrefix(fl, "dev=") && fd.Dev == "":
				fd.Dev = fl[len("dev="):]
			default:
				rest = append(rest, fl)
			}
		}
		fd.What = strings.Join(rest, " ")
		out = append(out, fd)
	}
	return out
}

// OpenDev reports whether deviation dev is listed as an open finding for this property.
func (c *Ctx) OpenDev(dev string) bool {
	for _, f := range c.findings {
		if f.State == "open" && f.Prop == c.ID && f.Dev == dev {
			return true
		}
	}
	return false
}

// Known records that an open finding was needed to explain an observation.
func (c *Ctx) Known(dev, what string) {
	c.mu.Lock()
	defer c.mu.Unlock()
	if _, ok := c.known[dev]; !ok {
		c.known[dev] = what
	}
}

// Violation records an unexplained failure and writes its replay file.
func (c *Ctx) Violation(name string, replay any) {
	c.mu.Lock()
	defer c.mu.Unlock()
	if len(c.violations) >= 20 {
		c.violations = append(c.violations, "")
		return
	}
	dir := filepath.Join(verifRoot, "out", "replay")
	os.MkdirAll(dir, 0o755)
	p := filepath.Join(dir, fmt.Sprintf("%s-%s-%d-%d.json", c.ID, sanitize(name), os.Getpid(), len(c.violations)))
	b, _ := json.MarshalIndent(map[string]any{"property": c.ID, "check": name, "seed": c.Seed, "tier": c.Tier, "case": replay}, "", " ")
	os.WriteFile(p, b, 0o644)
	c.violations = append(c.violations, p)
}

func sanitize(s string) string {
	var sb strings.Builder
	for _, r := range s {
		if r >= 'a' && r <= 'z' || r >= 'A' && r <= 'Z' || r >= '0' && r <= '9' || r == '_' {
			sb.WriteRune(r)
		} else {
			sb.WriteByte('_')
		}
	}
	return sb.String()
}

// Count adds n to a numeric coverage key.
func (c *Ctx) Count(key string, n int64) {
	c.mu.Lock()
	defer c.mu.Unlock()
	cur, _ := c.ev.Coverage[key].(int64)
	c.ev.Coverage[key] = cur + n
}

func (c *Ctx) Set(key string, v any) {
	c.mu.Lock()
	defer c.mu.Unlock()
	c.ev.Coverage[key] = v
}

// Case counts one evaluated case; key identifies it for distinctness and
// nontrivial says whether it counts as non-trivial by the check's rule.
func (c *Ctx) Case(key string, nontrivial bool) {
	c.mu.Lock()
	defer c.mu.Unlock()
	cur, _ := c.ev.Coverage["evaluations"].(int64)
	c.ev.Coverage["evaluations"] = cur + 1
	tr, _ := c.ev.Coverage["traces_validated_against_impl"].(int64)
	c.ev.Coverage["traces_validated_against_impl"] = tr + 1
	if nontrivial {
		c.distinct[hashKey(key)] = true
	}
}

func (c *Ctx) Sample(v any) {
	c.mu.Lock()
	defer c.mu.Unlock()
	if len(c.samples) < 6 {
		c.samples = append(c.samples, v)
	}
}

func (c *Ctx) Assume(s string) {
	c.mu.Lock()
	defer c.mu.Unlock()
	for _, a := range c.ev.Assumptions {
		if a == s {
			return
		}
	}
	c.ev.Assumptions = append(c.ev.Assumptions, s)
}

func (c *Ctx) Thorough() bool { return c.Tier == "thorough" }

func (c *Ctx) writeEvidence() {
	c.ev.WallS = time.Since(c.start).Seconds()
	c.ev.Violations = len(c.violations)
	c.ev.Coverage["distinct_nontrivial"] = int64(len(c.distinct))
	if _, ok := c.ev.Coverage["evaluations"]; !ok {
		c.ev.Coverage["evaluations"] = int64(0)
	}
	if len(c.samples) == 0 {
		c.samples = append(c.samples, "none")
	}
	c.ev.Coverage["samples"] = c.samples
	for _, k := range []string{"states", "transitions", "traces_validated_against_impl"} {
		if _, ok := c.ev.Coverage[k]; !ok {
			c.ev.Coverage[k] = int64(0)
		}
	}
	if c.ev.Assumptions == nil {
		c.ev.Assumptions = []string{}
	}
	b, _ := json.MarshalIndent(c.ev, "", " ")
	dir := filepath.Join(verifRoot, "evidence")
	if r := os.Getenv("VERIF_REPO"); r != "" && filepath.Clean(r) != "/repo" {
		// development runs against a scratch copy (seeded changes) do not overwrite the evidence of /repo
		dir = filepath.Join(verifRoot, "out", "evidence-dev")
	}
	os.MkdirAll(dir, 0o755)
	tmp := filepath.Join(dir, c.ID+".json.tmp"+strconv.Itoa(os.Getpid()))
	os.WriteFile(tmp, append(b, '\n'), 0o644)
	os.Rename(tmp, filepath.Join(dir, c.ID+".json"))
}

func main() {
	if len(os.Args) >= 2 && os.Args[1] == "worker" {
		workerMain()
		return
	}
	if len(os.Args) < 2 {
		fmt.Fprintln(os.Stderr, "usage: jqcheck <Cxx> [--tier quick|thorough] [--seed N] [--replay FILE]")
		os.Exit(2)
	}
	id := os.Args[1]
	tier := os.Getenv("VERIF_TIER")
	if tier == "" {
		tier = "quick"
	}
	seed := int64(1)
	if s := os.Getenv("VERIF_SEED"); s != "" {
		if n, err := strconv.ParseInt(s, 10, 64); err == nil {
			seed = n
		}
	}
	replay := ""
	for i := 2; i < len(os.Args); i++ {
		switch os.Args[i] {
		case "--tier":
			i++
			tier = os.Args[i]
		case "--seed":
			i++
			seed, _ = strconv.ParseInt(os.Args[i], 10, 64)
		case "--replay":
			i++
			replay = os.Args[i]
		}
	}
	if tier != "quick" && tier != "thorough" {
		fmt.Fprintln(os.Stderr, "bad tier", tier)
		os.Exit(2)
	}
	if id == "list" {
		ids := []string{}
		for k := range registry {
			ids = append(ids, k)
		}
		sort.Strings(ids)
		fmt.Println(strings.Join(ids, " "))
		return
	}
	fn, ok := registry[id]
	if !ok {
		fmt.Fprintln(os.Stderr, "unknown property", id)
		os.Exit(2)
	}
	c := &Ctx{ID: id, Tier: tier, Seed: seed, Quick: tier == "quick", start: time.Now(),
		known: map[string]string{}, distinct: map[string]bool{}, findings: loadFindings(),
		binPath: os.Getenv("JQAWK_BIN")}
	c.Out = filepath.Join(verifRoot, "out", fmt.Sprintf("%s.%d", id, os.Getpid()))
	os.MkdirAll(c.Out, 0o755)
	c.ev = Evidence{PropertyID: id, Tier: tier, Seed: seed, Level: "model_checking", Coverage: map[string]any{}}
	if replay != "" {
		os.Setenv("VERIF_REPLAY", replay)
	}
	code := 0
	func() {
		defer func() {
			if r := recover(); r != nil {
				if inf, ok := r.(Infra); ok {
					fmt.Fprintln(os.Stderr, "INFRASTRUCTURE FAILURE:", inf.msg)
					code = 2
					return
				}
				panic(r)
			}
		}()
		fn(c)
	}()
	if c.pool != nil {
		c.pool.Close()
	}
	os.RemoveAll(c.Out)
	if code == 2 {
		os.Exit(2)
	}
	c.writeEvidence()
	devs := []string{}
	for d := range c.known {
		devs = append(devs, d)
	}
	sort.Strings(devs)
	for _, d := range devs {
		fmt.Printf("KNOWN-FINDING: property=%s %s: %s\n", id, d, c.known[d])
	}
	for _, p := range c.violations {
		if p != "" {
			fmt.Printf("VIOLATION property=%s replay=%s\n", id, p)
		}
	}
	if len(c.violations) > 0 {
		os.Exit(1)
	}
	cov := c.ev.Coverage
	fmt.Printf("OK property=%s tier=%s seed=%d states=%v evaluations=%v distinct=%v traces=%v wall=%.1fs\n",
		id, tier, seed, cov["states"], cov["evaluations"], cov["distinct_nontrivial"], cov["traces_validated_against_impl"], c.ev.WallS)
}
