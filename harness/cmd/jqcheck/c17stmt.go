package main

import (
	"bytes"
	"encoding/json"
	"fmt"
	"math/rand"
	"strconv"
	"strings"
)

// ---------------------------------------------------------------------------
// C17, family "print-stmt" (spec/MC_PrintStmt.tla): the print statement as a
// unit.  Every argument list of 1..MaxOuter arguments over {plain value,
// printf(...) used as an expression, an expression that raises a runtime
// error, a match arm that leaves the statement by next / exit / break /
// continue / return, a call of a user function whose body prints a line of its
// own (with the same kinds of arguments)} in a rule body, in a loop and in a
// called function.  Expected: the token sequence and outcome of the model.

type c17StmtArg struct {
	Leaf string       // "v" value, "p" printf, "e" error, "s:<signal>"
	Call []c17StmtArg // non-nil: a call whose body prints these arguments
}

func (a *c17StmtArg) UnmarshalJSON(b []byte) error {
	b = bytes.TrimSpace(b)
	if len(b) > 0 && b[0] == '"' {
		return json.Unmarshal(b, &a.Leaf)
	}
	var o struct {
		C *[]c17StmtArg `json:"c"`
	}
	if err := json.Unmarshal(b, &o); err != nil {
		return err
	}
	if o.C == nil {
		return fmt.Errorf("bad print-stmt argument %s", b)
	}
	a.Call = append([]c17StmtArg{}, *o.C...)
	return nil
}

type c17StmtVec struct {
	Ctx    string       `json:"ctx"`
	Args   []c17StmtArg `json:"args"`
	Out    []string     `json:"out"`
	Status string       `json:"status"`
}

var c17PfTexts = []string{"<p>", "p", "[p] ", "p\n", "{p", "p q", "\n", "null", ", ", "}", "] "} // never exactly "[" or "{": the matcher would take them for brackets
var c17ErrExprs = []string{"1/0", "A.nosuch.zz()", "(1).nosuch()", "1 % 0"}

// c17StmtProgram renders the program of one vector; pf is the text printf writes.
func c17StmtProgram(in *c17Inst, v *c17StmtVec, r *rand.Rand) (prog, doc []byte, pf string) {
	// every atom gets its instance (and its index in $.a) before any text is rendered
	for i, a := range v.Args {
		in.atom(fmt.Sprintf("a%d", i+1))
		if a.Call != nil {
			in.atom(fmt.Sprintf("a%d.0", i+1))
			in.atom(fmt.Sprintf("a%d.9", i+1))
			for j := range a.Call {
				in.atom(fmt.Sprintf("a%d.%d", i+1, j+1))
			}
		}
	}
	pf = c17PfTexts[r.Intn(len(c17PfTexts))]
	pfLit, _ := c17StrLit(pf)
	atom := func(name string) string {
		leaf := "a" + name
		s := in.atom(leaf)
		switch s.K {
		case 't', 'f', 'z':
			if r.Intn(3) == 0 {
				return map[byte]string{'t': "true", 'f': "false", 'z': "null"}[s.K]
			}
		case 'n':
			if t := strconv.FormatFloat(s.N, 'f', -1, 64); r.Intn(3) == 0 && c17PlainNum.MatchString(t) {
				return t
			}
		case 's':
			if lit, ok := c17StrLit(s.S); ok && r.Intn(3) == 0 {
				return lit
			}
		}
		return fmt.Sprintf("A[%d]", in.aIndex[leaf])
	}
	sig := func(s string) string {
		body := s
		if s == "return" {
			body = "return w"
		}
		switch r.Intn(3) {
		case 0:
			return "match (1) { 1 => { " + body + " } }"
		case 1:
			return "match (true) { _ => { " + body + " }, }"
		}
		return "match (" + strconv.Itoa(r.Intn(5)) + ") { 7 => 0, x => { " + body + " } }"
	}
	var fns []string
	var arg func(a c17StmtArg, name string, depth int) string
	arg = func(a c17StmtArg, name string, depth int) string {
		switch {
		case a.Call != nil:
			parts := make([]string, len(a.Call))
			for j, b := range a.Call {
				parts[j] = arg(b, fmt.Sprintf("%s.%d", name, j+1), depth+1)
			}
			fn := "f" + strings.ReplaceAll(name, ".", "_")
			fns = append(fns, fmt.Sprintf("function %s(v, w) { print %s\n return v }", fn, strings.Join(parts, ", ")))
			return fmt.Sprintf("%s(%s, %s)", fn, atom(name+".0"), atom(name+".9"))
		case a.Leaf == "v":
			return atom(name)
		case a.Leaf == "p":
			return "printf(" + pfLit + ")"
		case a.Leaf == "e":
			return c17ErrExprs[r.Intn(len(c17ErrExprs))]
		case strings.HasPrefix(a.Leaf, "s:"):
			return sig(a.Leaf[2:])
		}
		infra("print-stmt: unknown argument %q", a.Leaf)
		return ""
	}
	parts := make([]string, len(v.Args))
	for i, a := range v.Args {
		parts[i] = arg(a, strconv.Itoa(i+1), 0)
	}
	pr := "print " + strings.Join(parts, ", ")
	around := "print \"s\"\n " + pr + "\n print \"t\""
	var sb strings.Builder
	for _, f := range fns {
		sb.WriteString(f + "\n")
	}
	switch v.Ctx {
	case "rule":
		sb.WriteString("{ A = $.a\n " + around + " }\n")
	case "loop":
		head := []string{"for (i = 0; i < 2; i++)", "for (x in [0, 1])", "for (k, x in {p: 1, q: 2})"}[r.Intn(3)]
		sb.WriteString("{ A = $.a\n " + head + " { " + around + " }\n print \"u\" }\n")
	case "fn":
		sb.WriteString("function h(v, w) { " + around + "\n return v }\n{ A = $.a\n h(0, 0)\n print \"u\" }\n")
	default:
		infra("print-stmt: unknown context %q", v.Ctx)
	}
	sb.WriteString("END { print \"e\" }")
	if r.Intn(3) == 0 {
		sb.WriteString("\n")
	}
	var d bytes.Buffer
	d.WriteString("[")
	for e := 0; e < 2; e++ {
		if e > 0 {
			d.WriteString(", ")
		}
		d.WriteString(`{"a":[`)
		for i, leaf := range in.aOrder {
			if i > 0 {
				d.WriteByte(',')
			}
			c17WriteJSONScalar(&d, in.atoms[leaf], nil)
		}
		d.WriteString("]}")
	}
	d.WriteString("]")
	return []byte(sb.String()), d.Bytes(), pf
}

// c17PrintStmtFamily runs MC_PrintStmt and replays every vector.
func c17PrintStmtFamily(c *Ctx, pool *Pool, nonTerm *c17NonTerm) {
	// quick: every pair of arguments, inner prints of up to 2 arguments; thorough adds every triple (inner prints of 1 argument)
	bounds := [][2]int{{2, 2}}
	if c.Thorough() {
		bounds = append(bounds, [2]int{3, 1})
	}
	kinds := map[string]int64{}
	n := 0
	st := pool.NewStream(func(j *Job, r Result) {
		var v c17StmtVec
		VecDecode([]byte(j.Tag), &v)
		in := c17NewInst(c.Seed, []byte(j.Tag))
		_, _, pf := c17StmtProgram(in, &v, rand.New(rand.NewSource(c17Seed(c.Seed, []byte(j.Tag), "stmt"))))
		toks := make([]string, len(v.Out))
		for i, t := range v.Out {
			if t == "<pf>" {
				t = pf
			}
			toks[i] = t
		}
		rep := func(why string) map[string]any {
			return map[string]any{"family": "print-stmt", "program": string(j.Prog), "input": string(j.Files[0].Data), "vector": json.RawMessage(j.Tag),
				"expected_tokens": toks, "expected_outcome": v.Status, "got_class": r.Class, "got_stdout": c17Clip(r.Stdout), "got_err": r.ErrMsg, "why": why, "detail": r.Detail}
		}
		var bad bool
		if r, bad = nonTerm.settle(pool, j, r); bad {
			c.Violation("print-stmt-does-not-terminate", rep("worker "+r.Class+" (reproduced in isolation)"))
			return
		}
		if r.Class != v.Status {
			c.Violation("print-stmt-outcome", rep("the run must end "+v.Status))
			return
		}
		if _, _, why := c17MatchOutput(in, toks, r.Stdout); why != "" {
			c.Violation("print-stmt", rep("stdout is not what the statement writes: every print writes one whole line after its arguments were evaluated, or nothing when it is abandoned: "+why))
			return
		}
		// non-trivial: some argument does more than yield a value
		nontrivial := false
		for _, a := range v.Args {
			if a.Call != nil || a.Leaf != "v" {
				nontrivial = true
			}
			k := a.Leaf
			if a.Call != nil {
				k = "call"
			}
			kinds[v.Ctx+"/"+k]++
		}
		c.Case("print-stmt:"+j.Tag, nontrivial)
		n++
		if n%3000 == 1 {
			c.Sample(map[string]any{"family": "print-stmt", "program": string(j.Prog), "input": string(j.Files[0].Data), "expected_tokens": toks, "expected_outcome": v.Status, "stdout": c17Clip(r.Stdout)})
		}
	})
	for _, b := range bounds {
		c.TLC(TLCOpt{Module: "MC_PrintStmt", Workers: 8, Heap: "6g",
			Cfg: cfgText("INIT Init", "NEXT Next", "CONSTANTS", fmt.Sprintf("MaxOuter = %d", b[0]), fmt.Sprintf("MaxInner = %d", b[1]),
				`Ctxs = {"rule", "loop", "fn"}`, "INVARIANT Laws", "INVARIANT Vec", "CHECK_DEADLOCK FALSE"),
			OnVec: func(raw []byte) {
				if c17Decided(c) {
					return
				}
				var v c17StmtVec
				VecDecode(raw, &v)
				in := c17NewInst(c.Seed, raw)
				prog, doc, _ := c17StmtProgram(in, &v, rand.New(rand.NewSource(c17Seed(c.Seed, raw, "stmt"))))
				st.Submit(Job{Kind: "c17run", Prog: prog, Files: []FileIn{{Name: "in.json", Data: doc}}, Tag: string(raw)})
			}})
	}
	st.Wait()
	c.Set("print_stmt_argument_kinds", kinds)
	c.Set("print_stmt_bounds_outer_inner", bounds)
}
