package main

import (
	"fmt"
	"os/exec"
	"strings"
	"sync"
)

func init() { register("C08", checkC08) }

type callVec struct {
	Prog    Node   `json:"prog"`
	Conds   []bool `json:"conds"`
	Out     []any  `json:"out"`
	Outcome string `json:"outcome"`
	Open    bool   `json:"open"`
}

// C08: calls bind by position and value; completed calls and matches leave no residue.
//
// Binding A: MC_EvalCall enumerates call configurations on the JqEval machine
// (TLC checks FrameBalance, BaseAtRuleStart, ScopeExit, DepthBounded, ... in
// every state); every terminated behaviour is rendered and run; compared are
// the printed values of caller/callee variables, the outcome, and the frame
// depth at which every output line was written (from the Push/Pop hooks).
// Binding A': the same programs over long inputs (history length): the
// per-element output must not depend on how many calls completed before.
func checkC08(c *Ctx) {
	c.Assume("dynamic scoping (a callee seeing a caller's local) is not fixed by the statement: behaviours in which a lookup resolves to a frame that is neither the current nor the root one are enumerated but not compared")
	c.Assume("arguments are variables or constants; calls in statement position and as the right-hand side of an assignment")
	pool := c.Pool()
	bodyLen, argSets, paramSets, fuel := 2, "few", "few", 2
	if c.Thorough() {
		bodyLen, argSets, paramSets, fuel = 2, "all", "all", 3
	}
	nsample, nopen := 0, 0
	var longProgs []callVec
	st := pool.NewStream(func(j *Job, r Result) {
		var v callVec
		VecDecode([]byte(j.Tag), &v)
		exp := expectedLines(v.Out, collectProgForIns(v.Prog))
		rep := func(why string) map[string]any {
			return map[string]any{"program": string(j.Prog), "input": string(j.Files[0].Data), "conds": v.Conds,
				"expected_outcome": v.Outcome, "expected_lines": expTexts(exp), "got_class": r.Class, "got_stdout": string(r.Stdout),
				"got_line_depths": r.LineDep, "got_err": r.ErrMsg, "why": why, "detail": r.Detail}
		}
		if r.Class == "budget" || r.Class == "timeout" {
			c.Count("inconclusive", 1)
			return
		}
		if r.Class != v.Outcome {
			c.Violation("call-outcome", rep("outcome class differs"))
			return
		}
		if why := compareEvalOutput(r.Stdout, exp); why != "" {
			c.Violation("call-values", rep(why))
			return
		}
		if why := compareDepths(r.LineDep, exp); why != "" {
			c.Violation("call-frames", rep(why))
			return
		}
		if r.Class == "ok" && r.Depth != 0 {
			c.Violation("call-frames", rep(fmt.Sprintf("the run ended at frame depth %d, expected 0", r.Depth)))
			return
		}
		c.Case(j.Tag, true)
		nsample++
		if nsample%3000 == 11 {
			c.Sample(map[string]any{"program": string(j.Prog), "conds": v.Conds, "expected": expTexts(exp), "outcome": v.Outcome})
		}
		if v.Outcome == "ok" && len(longProgs) < 400 && nsample%7 == 0 {
			longProgs = append(longProgs, v)
		}
	})
	c.TLC(TLCOpt{Module: "MC_EvalCall", Heap: "12g",
		Cfg: cfgText("INIT MCInit", "NEXT MCNext", "CONSTANTS", fmt.Sprintf("BodyLen = %d", bodyLen),
			fmt.Sprintf("ArgSets = \"%s\"", argSets), fmt.Sprintf("ParamSets = \"%s\"", paramSets), "CallLimit = 50", fmt.Sprintf("Fuel = %d", fuel),
			"NextOutsidePattern = {\"ends-rule\"}",
			"INVARIANTS TypeOK FrameBalance BaseAtRuleStart DepthBounded NoEscape OutcomeLegal SigConsumed ScopeExit Vec",
			"PROPERTIES StopFreezesOutput DoneIsFinal RefinesFrames"),
		OnVec: func(raw []byte) {
			var v callVec
			VecDecode(raw, &v)
			if v.Open {
				nopen++
				return
			}
			p := newEvalRenderer().renderEvalProgram(v.Prog, v.Conds)
			st.Submit(Job{Kind: "run", Prog: []byte(p.Text), Files: []FileIn{{Name: "in.json", Data: []byte(p.Input)}}, Depths: true, Budget: 200000, Tag: string(raw)})
		}})
	st.Wait()
	c.Set("open_behaviours_not_compared", nopen)

	// ---- history length: the per-element output does not depend on how many
	// calls / matches / next statements completed before.  The model's run has
	// two elements; when the second element took no TRUE condition, every
	// further element behaves like the second (same state at element start,
	// oracle exhausted = false), so for n elements the expected output is
	// block1 + (n-1) x block2.
	ns := []int{5000}
	if c.Thorough() {
		ns = []int{4095, 4097, 10000}
	}
	var jobs []Job
	var metas []callVec
	for _, v := range longProgs {
		exp := expectedLines(v.Out, collectProgForIns(v.Prog))
		b1, b2, tail, ok := splitBlocks(exp, v)
		if !ok {
			continue
		}
		_ = b1
		_ = b2
		_ = tail
		for _, n := range ns {
			prog := cloneNode(v.Prog)
			prog["n"] = float64(n)
			p := newEvalRenderer().renderEvalProgram(prog, v.Conds)
			jobs = append(jobs, Job{Kind: "run", Prog: []byte(p.Text), Files: []FileIn{{Name: "in.json", Data: []byte(p.Input)}}, Budget: 50_000_000, N: n})
			metas = append(metas, v)
		}
	}
	pool.Timeout = 180e9
	pool.Map(jobs, func(i int, r Result) {
		v := metas[i]
		exp := expectedLines(v.Out, collectProgForIns(v.Prog))
		b1, b2, tail, _ := splitBlocks(exp, v)
		n := jobs[i].N
		if r.Class == "budget" || r.Class == "timeout" {
			c.Count("inconclusive", 1)
			return
		}
		got := strings.Split(strings.TrimSuffix(string(r.Stdout), "\n"), "\n")
		why := ""
		if r.Class != "ok" {
			why = "outcome " + r.Class + ": " + r.ErrMsg
		} else if len(got) != len(b1)+(n-1)*len(b2)+len(tail) {
			why = fmt.Sprintf("expected %d output lines, got %d", len(b1)+(n-1)*len(b2)+len(tail), len(got))
		} else {
			pos := 0
			chk := func(block []string, el int) {
				for _, l := range block {
					l = strings.Replace(l, "rule P 1 2", fmt.Sprintf("rule P 1 %d", el), 1)
					if why == "" && got[pos] != l {
						why = fmt.Sprintf("element %d: expected %q, got %q", el, l, got[pos])
					}
					pos++
				}
			}
			chk(b1, 1)
			for el := 2; el <= n; el++ {
				chk(b2, el)
			}
			chk(tail, 0)
		}
		if why != "" {
			c.Violation("call-history", map[string]any{"program": string(jobs[i].Prog), "elements": n, "why": why,
				"block_first": b1, "block_later": b2, "got_class": r.Class, "got_err": r.ErrMsg, "got_tail": lastLines(got, 12)})
			return
		}
		c.Case(fmt.Sprintf("long:%d:%s", n, string(jobs[i].Prog)), true)
		c.Count("long_history_runs", 1)
	})
	// whole generated programs with real values (functions, recursion, by-value arguments, returns from
	// loops): re-executed by TLC on JqCore (spec/Trace_Core.tla)
	ncore := 120
	if c.Thorough() {
		ncore = 2000
	}
	checkCore(c, ncore, 8)
	checkC08ScopeDiscipline(c)
	checkC08LimitConsistency(c)
	if c.Thorough() {
		checkLongHistories(c, []int{1000, 400000})
	} else {
		checkLongHistories(c, []int{320000})
	}

	// an extra on top of TLC (no verdict depends on it): Apalache proves the frame discipline of the
	// abstraction JqFramesInd, which JqEval refines (PROPERTY RefinesFrames above), for EVERY call-depth limit
	if out, err := exec.Command("/verif/tools/apalache_frames.sh").CombinedOutput(); err == nil {
		c.Set("apalache_inductive_invariant", "proved for every limit L >= 1: "+strings.TrimSpace(string(out)))
	} else {
		c.Set("apalache_inductive_invariant", "not established on this run: "+strings.TrimSpace(string(out)))
	}

	c.Set("exhaustive", true)
	c.Set("bounds", map[string]any{"BodyLen": bodyLen, "ArgSets": argSets, "ParamSets": paramSets, "Fuel": fuel, "long_inputs": ns})
	c.Set("rule", "every fn1 body of BodyLen statements from a 24-statement pool x parameter lists x argument lists x condition outcomes, run over 2 elements (all behaviours, TLC BFS); a sample of the successful ones re-run over thousands of elements; every case is non-trivial (it performs at least one call); distinct by program+outcomes")
	c.Set("checker_cmd", "tlc MC_EvalCall (JqEval machine; FrameBalance BaseAtRuleStart ScopeExit DepthBounded NoEscape SigConsumed ...); replay via lang.EvalProgram with Push/Pop hooks")
}

func expTexts(exp []expLine) []string {
	out := make([]string, len(exp))
	for i, e := range exp {
		out[i] = fmt.Sprintf("%s @%d", e.Text, e.Depth)
	}
	return out
}

func lastLines(l []string, n int) []string {
	if len(l) > n {
		return l[len(l)-n:]
	}
	return l
}

func cloneNode(n Node) Node {
	out := Node{}
	for k, v := range n {
		out[k] = v
	}
	return out
}

// splitBlocks splits the expected lines of a 2-element run into the block of
// element 1, the block of element 2 and the END tail. ok only when element 2
// evaluated every condition to false (then later elements repeat it).
func splitBlocks(exp []expLine, v callVec) (b1, b2, tail []string, ok bool) {
	i2, ie := -1, -1
	for i, e := range exp {
		if e.ObjIt {
			return nil, nil, nil, false
		}
		if e.Text == "rule P 1 2" {
			i2 = i
		}
		if strings.HasPrefix(e.Text, "rule E ") {
			ie = i
		}
	}
	if i2 < 0 || ie < 0 || ie < i2 {
		return nil, nil, nil, false
	}
	// conditions evaluated in element 2 must all be false: count "c " lines per block
	nc1 := 0
	for _, e := range exp[:i2] {
		if strings.HasPrefix(e.Text, "c ") {
			nc1++
		}
	}
	for k := nc1; k < len(v.Conds); k++ {
		if v.Conds[k] {
			return nil, nil, nil, false
		}
	}
	for _, e := range exp[:i2] {
		b1 = append(b1, e.Text)
	}
	for _, e := range exp[i2:ie] {
		b2 = append(b2, e.Text)
	}
	for _, e := range exp[ie:] {
		tail = append(tail, e.Text)
	}
	return b1, b2, tail, true
}

// Free names in callees.  Which frame a name that is neither a parameter nor a local of the running
// function resolves to (the caller's, or only the globals) is not fixed by the statement -- but it is ONE
// discipline for the whole run: the same call in the same situation means the same whatever calls
// completed before it ("the number of calls ... executed so far never changes later behaviour").  Every
// program below has two acceptable outputs, one per discipline; anything else mixes them.
func checkC08ScopeDiscipline(c *Ctx) {
	pool := c.Pool()
	type variant struct{ name, callee, wrap, order string }
	callees := map[string]string{
		"direct":   "function show() {\n  print \"see\", name\n}\n",
		"indirect": "function show() {\n  inner()\n}\nfunction inner() {\n  print \"see\", name\n}\n",
		"matcharm": "function show() {\n  t = match (1) { _ => name }\n  print \"see\", t\n}\n",
		"expr":     "function show() {\n  print \"see\", \"\" + name\n}\n",
		"twice":    "function show() {\n  print \"see\", name\n  print \"see\", name\n}\n",
	}
	// %s: the value the caller holds under the name
	wraps := map[string]string{
		"param":    "function wrap(name) {\n  show()\n}\n",
		"local":    "function wrap(v) {\n  name = v\n  show()\n}\n", // assigns the GLOBAL name if it exists: see the order below
		"matchvar": "function wrap(v) {\n  match (v) { name => {\n    show()\n  } }\n}\n",
		"loopvar":  "function wrap(v) {\n  for (name in [v]) {\n    show()\n  }\n}\n",
	}
	var jobs []Job
	var accept [][]string
	var meta []string
	for cn, callee := range callees {
		for wn, wrap := range wraps {
			if wn == "local" || wn == "loopvar" {
				continue // an assignment / loop variable finds the existing global: no second frame is involved
			}
			for _, order := range []string{"top-first", "wrapped-first", "alternating"} {
				var body, dyn, lex strings.Builder
				per := func(k int) { // what one element contributes
					lines := 1
					if cn == "twice" {
						lines = 2
					}
					emit := func(sb *strings.Builder, v string) {
						for i := 0; i < lines; i++ {
							sb.WriteString("see " + v + "\n")
						}
					}
					switch order {
					case "top-first":
						emit(&dyn, "G")
						emit(&lex, "G")
						emit(&dyn, fmt.Sprintf("P%d", k))
						emit(&lex, "G")
					case "wrapped-first":
						emit(&dyn, fmt.Sprintf("P%d", k))
						emit(&lex, "G")
						emit(&dyn, "G")
						emit(&lex, "G")
					default:
						emit(&dyn, fmt.Sprintf("P%d", k))
						emit(&lex, "G")
						emit(&dyn, "G")
						emit(&lex, "G")
						emit(&dyn, fmt.Sprintf("P%d", k))
						emit(&lex, "G")
					}
				}
				switch order {
				case "top-first":
					body.WriteString("  show()\n  wrap(\"P\" + $index)\n")
				case "wrapped-first":
					body.WriteString("  wrap(\"P\" + $index)\n  show()\n")
				default:
					body.WriteString("  wrap(\"P\" + $index)\n  show()\n  wrap(\"P\" + $index)\n")
				}
				for k := 0; k < 4; k++ {
					per(k)
				}
				prog := callee + wrap + "BEGIN {\n  name = \"G\"\n}\n{\n" + body.String() + "}\n"
				jobs = append(jobs, Job{Kind: "run", Prog: []byte(prog), Files: []FileIn{{Name: "in.json", Data: []byte("[0, 0, 0, 0]")}}, Budget: 100000})
				accept = append(accept, []string{dyn.String(), lex.String()})
				meta = append(meta, cn+" / "+wn+" / "+order)
			}
		}
	}
	pool.Map(jobs, func(i int, r Result) {
		if r.Class == "budget" || r.Class == "timeout" {
			c.Count("inconclusive", 1)
			return
		}
		if r.Class != "ok" || (string(r.Stdout) != accept[i][0] && string(r.Stdout) != accept[i][1]) {
			c.Violation("scope-discipline", map[string]any{"case": meta[i], "program": string(jobs[i].Prog), "got_class": r.Class, "got_err": r.ErrMsg, "got_stdout": string(r.Stdout),
				"acceptable_if_callees_see_the_callers_names": accept[i][0], "acceptable_if_they_see_only_globals": accept[i][1],
				"why": "what a free name in a callee means must not depend on which calls completed earlier in the run"})
			return
		}
		c.Case("scope:"+meta[i], true)
	})
}

// Every genuinely nested call counts towards the recursion limit, wherever it is made from: if plain recursion
// of some call depth is refused, recursion of the same call depth whose calls are made from match arms, loop
// bodies, arguments or conditions (at least as many frames) is refused too; and both work at a call depth of 1000.
func checkC08LimitConsistency(c *Ctx) {
	pool := NewPool(8, 0)
	pool.Timeout = 240e9
	defer pool.Close()
	shapes := map[string]string{
		"plain":      "function f(n) {\n  if (n > 0) {\n    return f(n - 1)\n  }\n  return \"bottom\"\n}\n",
		"match-expr": "function f(n) {\n  return match (n) { 0 => \"bottom\", z => f(z - 1) }\n}\n",
		"match-arm":  "function f(n) {\n  match (n) { 0 => {\n    return \"bottom\"\n  }, z => {\n    return f(z - 1)\n  } }\n}\n",
		"nested-arm": "function f(n) {\n  return match (n) { 0 => \"bottom\", z => match (z) { y => f(y - 1) } }\n}\n",
		"for-in":     "function f(n) {\n  for (q in [n]) {\n    if (q > 0) {\n      return f(q - 1)\n    }\n  }\n  return \"bottom\"\n}\n",
		"argument":   "function id(x) {\n  return x\n}\nfunction f(n) {\n  if (n > 0) {\n    return id(f(n - 1))\n  }\n  return \"bottom\"\n}\n",
		"condition":  "function f(n) {\n  if (n > 0 && f(n - 1) == \"bottom\") {\n    return \"bottom\"\n  }\n  return \"bottom\"\n}\n",
		"mutual":     "function f(n) {\n  if (n > 0) {\n    return g(n - 1)\n  }\n  return \"bottom\"\n}\nfunction g(n) {\n  return match (n) { 0 => \"bottom\", z => f(z - 1) }\n}\n",
	}
	depths := []int{1000, 3000, 6000, 50000}
	type key struct {
		shape string
		d     int
	}
	res := map[key]string{}
	var jobs []Job
	var keys []key
	for name, fn := range shapes {
		for _, d := range depths {
			jobs = append(jobs, Job{Kind: "run", Prog: []byte(fn + fmt.Sprintf("BEGIN {\n  print \"start\"\n  print f(%d)\n}\n", d)), Budget: 50_000_000})
			keys = append(keys, key{name, d})
		}
	}
	var mu sync.Mutex
	pool.Map(jobs, func(i int, r Result) {
		mu.Lock()
		defer mu.Unlock()
		switch {
		case r.Class == "ok" && string(r.Stdout) == "start\nbottom\n":
			res[keys[i]] = "works"
		case r.Class == "runtime" && string(r.Stdout) == "start\n":
			res[keys[i]] = "refused"
		case r.Class == "budget" || r.Class == "timeout":
			res[keys[i]] = "inconclusive"
		default:
			res[keys[i]] = "other"
			c.Violation("limit-consistency", map[string]any{"shape": keys[i].shape, "depth": keys[i].d, "program": string(jobs[i].Prog), "got_class": r.Class, "got_err": r.ErrMsg, "got_stdout": firstN(string(r.Stdout), 200),
				"why": "a recursion either returns its value or is refused with a runtime error after the prior output"})
		}
	})
	for name := range shapes {
		if res[key{name, 1000}] == "refused" {
			c.Violation("limit-consistency", map[string]any{"shape": name, "depth": 1000, "why": "recursion a thousand calls deep works, wherever the calls are made from"})
		}
		// shapes that use one frame per level behave like plain recursion at every depth
		if name == "for-in" || name == "argument" || name == "condition" {
			for _, d := range depths {
				if res[key{"plain", d}] == "works" && res[key{name, d}] == "refused" {
					c.Violation("limit-consistency", map[string]any{"shape": name, "depth": d, "program": shapes[name],
						"why": "plain recursion of this call depth works, but the same call depth is refused when the calls are made from " + name + ": something other than the genuinely nested calls is counted"})
				}
			}
		}
		for _, d := range depths[1:] {
			if res[key{"plain", d}] == "refused" && res[key{name, d}] == "works" {
				c.Violation("limit-consistency", map[string]any{"shape": name, "depth": d, "program": shapes[name],
					"why": "plain recursion of this call depth is refused, but the same call depth is accepted when the calls are made from " + name + ": those nested calls are not counted"})
			}
		}
		c.Case("limitcons:"+name, true)
	}
}
