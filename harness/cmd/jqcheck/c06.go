package main

import (
	"bytes"
	"encoding/json"
	"fmt"
	"os"
	"sort"
	"strconv"
	"strings"
	"sync"
	"time"
)

func init() { register("C06", checkC06) }

// ---------------------------------------------------------------------------
// C06: precedence and associativity - an expression means its fully
// parenthesised form.
//
// spec/JqParse.tla is the grammar (a Pratt parser shaped like src/parser.go);
// spec/MC_Parse.tla enumerates token sequences (operator pairs, triples,
// prefix operators and suffixes at every place, assignment chains, sampled
// longer sequences) and, for each, every well-formed grouping t.  A vector
// carries per grouping: Render(t) (minimal parentheses), FullParen(t), the tree
// as the parser's S-expression, what the open deviation predicts instead, the
// fully parenthesised forms of the other groupings, and operand assignments
// under which the reference evaluation tells t from the other groupings.
//
//	(a) tree conformance: lang.VerifExprSexpr(Render(t)) and of FullParen(t)
//	    must equal the model's tree;
//	(b) value conformance, hook-free, the statement itself: `print Render(t)`
//	    and `print FullParen(t)` (then all variables) must print the same on
//	    the real code; both sides are computed by the implementation, so
//	    operator defects cancel out.
//
//	(c) parentheses override everything also in evaluation: FullParen(t) must
//	    not print what the reference evaluation gives ANOTHER grouping of the
//	    same tokens under operands that tell the two apart (an evaluator that
//	    re-associates a + (b + c) is invisible to (a) and (b)).
//
// The deviation parse-right-assoc explains exactly: the real tree equals
// ParseExprDev(Render(t)) and the real output equals that of its fully
// parenthesised form.  Anything else is a violation.

type c06Val struct {
	K string `json:"k"`
	N int    `json:"n"`
	S string `json:"s"`
	B bool   `json:"b"`
}

type c06Out struct {
	K   string   `json:"k"` // ok | err | unk
	V   c06Val   `json:"v"`
	Env []c06Val `json:"env"`
}

type c06Run struct {
	Vals    []c06Val `json:"vals"`
	Tys     []string `json:"tys"`
	Out     c06Out   `json:"out"`
	AltOuts []c06Out `json:"altouts"` // the other groupings under the same operands ("unk": not told apart from Out)
}

type c06Dev struct {
	Name string   `json:"name"`
	Exp  string   `json:"exp"`
	Full []string `json:"full"`
}

// the staged form of a tree (MC_Parse.Stage): one statement per operator application, then the value of the last;
// FRuns: operand assignments outside the universe of the reference evaluation (decimal fractions)
type c06Stage struct {
	Steps []struct {
		Tmp  string   `json:"tmp"`
		Toks []string `json:"toks"`
	} `json:"steps"`
	Atom  []string `json:"atom"`
	FRuns []c06Run `json:"fruns"`
}

type c06Case struct {
	Fam   string     `json:"fam"`   // set by the harness
	Gaps  []string   `json:"gaps"`  // the tight layout of Text: what stands between token i and i+1 ("" or " ")
	Stage []c06Stage `json:"stage"` // none: the tree assigns
	Text  []string   `json:"text"`
	Full  []string   `json:"full"`
	Exp   string     `json:"exp"`
	Dev   []c06Dev   `json:"dev"`
	Alts  [][]string `json:"alts"`
	Bares [][]string `json:"bares"` // further texts of the tree with fewer parentheses than the minimal rendering (around `x is T`)
	Sites []int      `json:"sites"` // the expression sites (1-based, into the site table) the tree is placed at
	NAlt  int        `json:"nalt"`
	NDisc int        `json:"ndisc"`
	Runs  []c06Run   `json:"runs"`
}

// a token sequence outside the grammar: to be refused; Lax is the tree a
// parser without target validation would build under the table
type c06Neg struct {
	Text []string `json:"text"`
	Lax  string   `json:"lax"`
	Dev  []struct {
		Name string `json:"name"`
		Lax  string `json:"lax"`
	} `json:"dev"`
}

type c06Vec struct {
	Fam       string    `json:"fam"`
	Flat      []string  `json:"flat"`
	NP        int       `json:"np"`
	NegFlat   []c06Neg  `json:"negflat"`
	Cases     []c06Case `json:"cases"`
	SiteTable []c06Site `json:"sitetable"`
}

// an expression site (JqParse.ExprSites): program text around the expression and the tree the hook prints around
// the expression's tree
type c06Site struct {
	Name    string `json:"name"`
	Kind    string `json:"kind"` // stmt | fn | pat
	Pre     string `json:"pre"`
	Post    string `json:"post"`
	TPre    string `json:"tpre"`
	TPost   string `json:"tpost"`
	Term    string `json:"term"`
	NoFirst string `json:"nofirst"`
}

// the program whose tree is asked for, and that tree, for expression text e with tree sx at the site
func (s *c06Site) treeProgram(e, sx string) (string, string) {
	switch s.Kind {
	case "fn":
		return "function kk9() {\n" + s.Pre + e + s.Post + "\n}\n", "(prog (function kk9 () (block " + s.TPre + sx + s.TPost + ")))"
	case "pat":
		return s.Pre + e + s.Post, "(prog " + s.TPre + sx + s.TPost + ")"
	}
	return "BEGIN {\n" + s.Pre + e + s.Post + "\n}\n", "(prog (rule BeginRule - (block " + s.TPre + sx + s.TPost + ")))"
}

// c06SiteProgram: the expression at the site (ref == ""), or - the reference - the fully parenthesised form
// evaluated into a variable by a statement of its own and the bare variable at the site: no grouping decision
// is left to the site.  Same initialisation and the same final prints as c06Program.
func (s *c06Site) valueProgram(e, ref string, run *c06Run) Job {
	var sb strings.Builder
	at := e
	pre := ""
	if ref != "" {
		at = "z8"
		pre = "z8 = (" + ref + ");\n" // the `;`: an expression statement that starts with ( [ - + must not continue the line before it
	}
	sb.WriteString("function f(x) { return x + 1 }\nfunction g() { return f }\nfunction idf(x) { return x }\nfunction ids(x, y) { return y }\n")
	if s.Kind == "fn" {
		sb.WriteString("function kk9() {\n" + pre + s.Pre + at + s.Post + "\n}\n")
	}
	sb.WriteString("BEGIN {\n")
	names := []string{}
	for p, v := range run.Vals {
		fmt.Fprintf(&sb, "%s = %s\n", c06VarNames[p], c06Literal(v))
		names = append(names, c06VarNames[p])
	}
	sb.WriteString("o = {k: 7}\nr = [4, 9, 2]\nu = 9\nv = 4\nw = 1\nr9 = [5, 6, 7, 8, 9, 10, 11, 12, 13, 14];\n")
	tail := "print " + strings.Join(names, ", ") + "\nprint o, r, u, v, w\n}\n"
	job := Job{Kind: "run"}
	switch s.Kind {
	case "fn":
		sb.WriteString("print kk9()\n" + tail)
	case "pat":
		sb.WriteString("}\n")
		if pre != "" {
			sb.WriteString("{\n" + pre + "}\n")
		}
		sb.WriteString(s.Pre + at + s.Post + "\nEND {\n" + tail)
		job.Files = []FileIn{{Name: "in.json", Data: []byte("[1]\n")}}
	default:
		sb.WriteString(pre + s.Pre + at + s.Post + "\n" + tail)
	}
	job.Prog = []byte(sb.String())
	return job
}

var c06VarNames = []string{"a", "b", "c", "d", "e", "h"}

func c06IsWord(t string) bool {
	if t == "" || t == "is" {
		return false
	}
	ch := t[0]
	return ch == '_' || ch == '"' || ch >= '0' && ch <= '9' || ch >= 'a' && ch <= 'z' || ch >= 'A' && ch <= 'Z'
}

// an operand the vector spells as one token of program text (MC_Parse.PrimSeq): a regex
// literal, a string in single quotes, `$`, an object literal, a match expression
func c06IsPrimary(t string) bool {
	n := len(t)
	return t == "$" || n > 2 && (t[0] == '/' && t[n-1] == '/' || t[0] == '\'' && t[n-1] == '\'' || t[n-1] == '}')
}

func c06OperandEnd(t string) bool {
	return c06IsWord(t) || t == ")" || t == "]" || c06IsPrimary(t)
}

func c06IsPrefixAt(toks []string, i int) bool {
	t := toks[i]
	if t != "!" && t != "-" && t != "+" {
		return false
	}
	return i == 0 || !c06OperandEnd(toks[i-1])
}

// c06Layout writes a token sequence as program text: one space around binary
// operators (the lexer reads `3-1` as one number: C13/F15), none after a
// prefix operator (unless another follows: `- -a` is not `--a`), none inside
// parentheses and brackets or around `.`, call and index brackets attached.
func c06Layout(toks []string) string {
	var sb strings.Builder
	for i, t := range toks {
		if i > 0 {
			p := toks[i-1]
			space := true
			switch {
			case p == "(" || p == "[" || p == ".":
				space = false
			case t == ")" || t == "]" || t == "," || t == ".":
				space = false
			case (t == "(" || t == "[") && c06OperandEnd(p):
				space = false
			case c06IsPrefixAt(toks, i-1) && !c06IsPrefixAt(toks, i):
				space = false
			}
			if space {
				sb.WriteByte(' ')
			}
		}
		sb.WriteString(t)
	}
	return sb.String()
}

func c06Literal(v c06Val) string {
	switch v.K {
	case "n":
		return strconv.Itoa(v.N)
	case "f":
		return v.S
	case "s":
		return `"` + v.S + `"`
	case "b":
		if v.B {
			return "true"
		}
		return "false"
	}
	infra("C06: operand value of kind %q", v.K)
	return ""
}

func c06LiteralSexpr(v c06Val) string {
	switch v.K {
	case "n":
		return "(num " + strconv.Itoa(v.N) + ")"
	case "s":
		return fmt.Sprintf("(str %q)", v.S)
	}
	return c06Literal(v)
}

// the printed form of a model value (DESIGN.md 3.1 / C17: integers, raw strings, true/false)
func c06Printed(v c06Val) string {
	switch v.K {
	case "n":
		return strconv.Itoa(v.N)
	case "s":
		return v.S
	case "z":
		return "null"
	}
	return c06Literal(v)
}

var c06AssignOps = map[string]bool{"=": true, "+=": true, "-=": true, "*=": true, "/=": true}

// c06Subst replaces the type placeholders T<p> by the run's type names and, if
// lits, every operand variable that is not an assignment target by its value.
func c06Subst(toks []string, run *c06Run, lits bool) []string {
	out := make([]string, len(toks))
	for i, t := range toks {
		out[i] = t
		if len(t) == 2 && t[0] == 'T' && t[1] >= '1' && t[1] <= '9' {
			out[i] = run.Tys[int(t[1]-'1')]
			continue
		}
		if !lits {
			continue
		}
		for p, name := range c06VarNames {
			if t == name && p < len(run.Vals) {
				target := i+1 < len(toks) && c06AssignOps[toks[i+1]]
				if !target {
					out[i] = c06Literal(run.Vals[p])
				}
			}
		}
	}
	return out
}

// the same substitution on an S-expression; targets: the variables that occur
// as (= (id x) ...; they stay variables everywhere
func c06SubstSexpr(sx string, toks []string, run *c06Run, lits bool) string {
	for p := range run.Tys {
		sx = strings.ReplaceAll(sx, fmt.Sprintf("(id T%d)", p+1), "(id "+run.Tys[p]+")")
	}
	if !lits {
		return sx
	}
	for i, t := range toks {
		for p, name := range c06VarNames {
			if t == name && p < len(run.Vals) {
				target := i+1 < len(toks) && c06AssignOps[toks[i+1]]
				if !target {
					sx = strings.ReplaceAll(sx, "(id "+name+")", c06LiteralSexpr(run.Vals[p]))
				}
			}
		}
	}
	return sx
}

// c06Program: every variable assigned first (comparisons with unset variables
// are special: C05), the containers and functions the suffix operands use,
// then the expression, then everything an assignment could have changed.
func c06Program(expr string, run *c06Run) []byte { return c06ProgramPre("", expr, run) }

// c06Tight: the token sequence with the model's gaps between the tokens
func c06Tight(toks, gaps []string) string {
	if len(gaps) != len(toks)-1 {
		infra("C06: %d gaps for %d tokens", len(gaps), len(toks))
	}
	var sb strings.Builder
	for i, t := range toks {
		if i > 0 {
			sb.WriteString(gaps[i-1])
		}
		sb.WriteString(t)
	}
	return sb.String()
}

// the statements of the staged form and the expression that is left
func (sg *c06Stage) program(run *c06Run) (string, string) {
	var sb strings.Builder
	for _, st := range sg.Steps {
		sb.WriteString(st.Tmp + " = " + c06Layout(c06Subst(st.Toks, run, false)) + ";\n")
	}
	return sb.String(), c06Layout(c06Subst(sg.Atom, run, false))
}

func c06HasLogical(toks []string) bool {
	for _, t := range toks {
		if t == "&&" || t == "||" {
			return true
		}
	}
	return false
}

func c06ProgramPre(pre, expr string, run *c06Run) []byte {
	var sb strings.Builder
	sb.WriteString("function f(x) { return x + 1 }\nfunction g() { return f }\nBEGIN {\n")
	names := []string{}
	for p, v := range run.Vals {
		fmt.Fprintf(&sb, "%s = %s\n", c06VarNames[p], c06Literal(v))
		names = append(names, c06VarNames[p])
	}
	sb.WriteString("o = {k: 7}\nr = [4, 9, 2]\nu = 9\nv = 4\nw = 1;\n")
	sb.WriteString(pre)
	sb.WriteString("print " + expr + "\n")
	sb.WriteString("print " + strings.Join(names, ", ") + "\n")
	sb.WriteString("print o, r, u, v, w\n}\n")
	return []byte(sb.String())
}

type c06Obs struct {
	Class  string
	Stdout string
}

func c06Observe(r Result) c06Obs { return c06Obs{r.Class, string(r.Stdout)} }

func c06Inconclusive(class string) bool { return class == "budget" || class == "timeout" }

type c06Plan struct {
	labels     []string
	jobs       []Job
	labelsOnly bool // the callback of the stream runs under one lock: it needs the labels, not the program texts
}

func (p *c06Plan) add(label string, j func() Job) {
	p.labels = append(p.labels, label)
	if !p.labelsOnly {
		p.jobs = append(p.jobs, j())
	}
}

func checkC06(c *Ctx) {
	c.Assume("++ and -- are not ranked by the statement and do not occur in the vectors")
	c.Assume("operands are variables (assigned first) and, for the first assignment of each tree, literals; numbers are small positive integers, one string, booleans; one operand of each operator single, pair and selected triple (both of a single) is in turn every other primary form: a regex literal, a string in single quotes, null, `$`, an array literal, an object literal, a match expression (families prim*); unset variables and more than one such primary among three or more operands are outside the enumeration")
	c.Assume("the reference evaluation knows null and a regex value by the tables of DESIGN.md 3 (how a regex prints is not fixed: such outcomes are outside the evaluated universe); `$` (in BEGIN), array and object literals and match expressions have no reference value: trees with them are compared on their tree and on text against fully parenthesised form on the implementation only")
	c.Assume("two layouts: single spaces around binary operators and none after a prefix operator; and, for the families bin1 lvl3 pre1 prepre presuf suf1 sufsuf inner, the tight layout (MC_Parse.Gaps: no blank wherever JqLex reads the same tokens without it; texts with `/` after an object literal or match expression keep their blanks); every other layout is C13")
	c.Assume("staged evaluation (families bin1 bin2 lvl3 pre1 prepre presuf suf1 sufsuf inner, trees without assignment): one statement per operator application; member, index and call sub-expressions are not opened (written fully parenthesised inside a step); where the staged program fails and the tree has && or || nothing is judged; decimal-fraction operands 1.1 0.1 0.7 0.3 2.5 3 are outside the reference evaluation and are used only implementation against implementation")
	c.Assume("whether `a + b += c` (compound assignment to a non-assignable target) is refused statically is not compared (C11); for `=` the refusal is compared because it is what `=` binding loosest means")
	c.Assume("the reference evaluation (MC_Parse.Ev) chooses operands and is a verdict in one way only: a fully parenthesised text that prints, not the value of its own grouping, but exactly the value and variables the reference gives ANOTHER grouping of the same tokens (both inside the evaluated universe and different) was evaluated as that other grouping; a value matching neither is an operator question (C05), reported as model_value_disagree, not judged; runtime errors are never matched this way")
	c.Assume("operator sequences longer than 3 are sampled (family deep, from the seed) or restricted to assignment chains (chain4)")
	c.Assume("the right side of `is` is ONE type-name token (an identifier, `null` or `function`: is() in src/parser.go, JqParse.PIs), so what follows it continues the enclosing expression: `a < b is bool + 1` has the one reading ((a < b) is bool) + 1 although the table ranks + above is; such texts (JqParse/MC_Parse.Bares) are compared like the minimal rendering")
	c.Assume("expression sites: the 24 places of JqParse.ExprSites (print arguments, conditions, the three for clauses, for-in, expression statement, call arguments, array items, object values, index, match subject and case body, group, return, rule pattern with and without a body); an expression that starts with `{` is not placed where the statement grammar reads `{` as a block; the case PATTERNS of match (a restricted pattern syntax) and selectors given on the command line are not sites; at a site the value is compared on the first operand assignment only")
	pool := c.Pool()

	fams := []string{"lvl3", "bin1", "bin2", "bin3", "pre1", "pre2", "prepre", "presuf", "suf1", "sufsuf", "inner", "chain4", "deep", "prim1", "prim2", "prim3", "preprim", "iskw", "neg"}
	// families whose every tree is placed at every expression site (the trees of the others: at one site each)
	siteAll := []string{"bin1", "pre1", "prepre", "presuf", "suf1", "bin2"}
	mod, ndeep, pmod, siteMod := 3, 96, 192, 3
	if c.Thorough() {
		siteMod = 1
		fams = append(fams, "suf2")
		siteAll = append(siteAll, "prim1", "iskw", "sufsuf", "inner", "preprim", "pre2")
		mod, ndeep, pmod = 1, 4000, 8
	}

	if f := os.Getenv("VERIF_C06_FAMS"); f != "" { // development only: a subset of the families
		fams = strings.Split(f, ",")
	}

	famCount := map[string]int{}
	var nCases, nAlt, nDiscModel, nDiscImpl, nAltImplRun, nRuns, nTreeOnly int
	var modelAgree, modelDisagree, modelUnknown, nRegrouped, nRegroupChecks, nBare, nSiteRuns int
	var nTight, nStaged, nStagedFloat, nStagedSkipped, nFloatAlt, nFloatDisc int
	siteCount := map[string]int{}
	var siteTable []c06Site // JqParse.ExprSites, sent once by the model (vector of family neg); cases wait for it
	var siteMu sync.Mutex
	var waiting []c06Vec
	var disagreeSamples []any
	type devHit struct {
		text string
		what string
	}
	devHits := map[string][]devHit{}
	devCases := 0
	sampled := map[string]map[string]any{}
	treeOnlyFam := map[string]int{}
	var treeOnlySamples []string

	var problems []string // infrastructure problems seen in worker callbacks (reported after the stream is drained)
	problem := func(format string, a ...any) {
		if len(problems) < 10 {
			problems = append(problems, fmt.Sprintf(format, a...))
		}
	}
	onCase := func(fam string, cs *c06Case, res []Result, labels []string) {
		rep := func(extra map[string]any) map[string]any {
			m := map[string]any{"family": fam, "text": c06Layout(cs.Text), "full": c06Layout(cs.Full), "expected_tree": cs.Exp}
			for k, v := range extra {
				m[k] = v
			}
			return m
		}
		for _, r := range res {
			if c06Inconclusive(r.Class) || r.Class == "crash" {
				problem("C06: inconclusive run (%s) on %s: %s", r.Class, c06Layout(cs.Text), r.Detail)
				return
			}
		}
		index := make(map[string]int, len(labels))
		for i, l := range labels {
			index[l] = i
		}
		at := func(label string) (Result, bool) {
			if i, ok := index[label]; ok {
				return res[i], true
			}
			return Result{}, false
		}
		var dev *c06Dev
		if len(cs.Dev) > 0 {
			dev = &cs.Dev[0]
		}
		usedDev := false
		run0 := &cs.Runs[0]

		// ---- (a) tree conformance
		treeCheck := func(label string, toks []string, lits bool, allowDev bool) bool {
			r, ok := at(label)
			if !ok {
				return true
			}
			want := c06SubstSexpr(cs.Exp, cs.Text, run0, lits)
			src := c06Layout(c06Subst(toks, run0, lits))
			if r.Class == "ok" && r.Sexpr == want {
				return true
			}
			if allowDev && dev != nil && c.OpenDev(dev.Name) && r.Class == "ok" && r.Sexpr == c06SubstSexpr(dev.Exp, cs.Text, run0, lits) {
				usedDev = true
				devHits[dev.Name] = append(devHits[dev.Name], devHit{src, fmt.Sprintf("`%s` parses as %s, the grammar says %s", src, r.Sexpr, want)})
				return true
			}
			c.Violation("tree-"+label, rep(map[string]any{"source": src, "got_class": r.Class, "got_tree": r.Sexpr, "want_tree": want, "got_msg": r.ErrMsg,
				"why": "the parser's tree for this text is not the tree of the grammar (DESIGN.md 3.9)"}))
			return false
		}
		skipTree := os.Getenv("VERIF_C06_SKIP_TREE") != "" // development only: show that the hook-free value comparison bites on its own
		if skipTree {
		} else if !treeCheck("sx-text", cs.Text, false, true) || !treeCheck("sx-full", cs.Full, false, false) ||
			!treeCheck("sx-text-lit", cs.Text, true, true) || !treeCheck("sx-full-lit", cs.Full, true, false) {
			return
		}
		// ---- (a') the texts with fewer parentheses than the minimal rendering that the grammar still reads as this tree
		for x, bare := range cs.Bares {
			if !skipTree && (!treeCheck(fmt.Sprintf("sx-bare%d", x), bare, false, false) || !treeCheck(fmt.Sprintf("sx-bare%d-lit", x), bare, true, false)) {
				return
			}
			nBare++
		}
		// ---- (d) the same tree at every expression site of the statement grammar
		var text, full, want string
		if len(cs.Sites) > 0 {
			text = c06Layout(c06Subst(cs.Text, run0, false))
			full = c06Layout(c06Subst(cs.Full, run0, false))
			want = c06SubstSexpr(cs.Exp, cs.Text, run0, false)
		}
		for _, k := range cs.Sites {
			site := &siteTable[k-1]
			for _, form := range []string{"text", "full"} {
				src := text
				if form == "full" {
					src = full
				}
				r, ok := at(fmt.Sprintf("site%d-sx-%s", k, form))
				if !ok || skipTree {
					continue
				}
				prog, wantProg := site.treeProgram(src, want)
				if r.Class == "ok" && r.Sexpr == wantProg {
					continue
				}
				c.Violation("site-tree-"+site.Name, rep(map[string]any{"site": site.Name, "program": prog, "got_class": r.Class, "got_tree": r.Sexpr, "want_tree": wantProg, "got_msg": r.ErrMsg,
					"why": "at this place of the statement grammar the parser's tree for the expression is not the tree of the grammar (the meaning of an expression does not depend on where it stands)"}))
				return
			}
			rt, ok1 := at(fmt.Sprintf("site%d-text", k))
			rr, ok2 := at(fmt.Sprintf("site%d-ref", k))
			if !ok1 || !ok2 {
				continue
			}
			nSiteRuns++
			siteCount[site.Name]++
			if ot, or := c06Observe(rt), c06Observe(rr); ot != or {
				c.Violation("site-value-"+site.Name, rep(map[string]any{"site": site.Name, "operands": run0.Vals, "types": run0.Tys,
					"program_text": string(site.valueProgram(text, "", run0).Prog), "program_reference": string(site.valueProgram(text, full, run0).Prog),
					"got_text": ot, "got_reference": or,
					"why": "the expression at this place of the statement grammar behaves differently from its fully parenthesised form evaluated first (into z8) with the bare variable at the same place"}))
				return
			}
		}

		// ---- (e) the tight layout: no blank wherever the lexer model reads the same tokens without it
		if r, ok := at("sx-tight"); ok {
			src := c06Tight(c06Subst(cs.Text, run0, false), cs.Gaps)
			want := c06SubstSexpr(cs.Exp, cs.Text, run0, false)
			if !skipTree && !(r.Class == "ok" && r.Sexpr == want) {
				c.Violation("tree-sx-tight", rep(map[string]any{"source": src, "got_class": r.Class, "got_tree": r.Sexpr, "want_tree": want, "got_msg": r.ErrMsg,
					"why": "written without the blanks the lexer does not need (JqLex reads the same tokens) the text is not parsed as the tree of the grammar: what binds tightest depends on the layout"}))
				return
			}
			rt, ok1 := at("run0-tight")
			rf, ok2 := at("run0-full")
			if ok1 && ok2 {
				nTight++
				if ot, of := c06Observe(rt), c06Observe(rf); ot != of {
					c.Violation("value-tight", rep(map[string]any{"operands": run0.Vals, "types": run0.Tys, "source": src,
						"program_text": string(c06Program(src, run0)), "program_full": string(c06Program(c06Layout(c06Subst(cs.Full, run0, false)), run0)),
						"got_text": ot, "got_full": of,
						"why": "written without the blanks the lexer does not need the expression and its fully parenthesised form print different things"}))
					return
				}
			}
		}
		// ---- (f) staged evaluation: the grouping imposed by one statement per operator application; where that
		// program runs (always, if the tree has no && ||), the fully parenthesised expression must print the same
		if len(cs.Stage) > 0 {
			sg := &cs.Stage[0]
			logical := c06HasLogical(cs.Text)
			pairs := []struct {
				label string
				run   *c06Run
				float bool
			}{{"run0", run0, false}}
			for k := range sg.FRuns {
				pairs = append(pairs, struct {
					label string
					run   *c06Run
					float bool
				}{fmt.Sprintf("frun%d", k), &sg.FRuns[k], true})
			}
			for _, p := range pairs {
				rf, ok1 := at(p.label + "-full")
				rs, ok2 := at(p.label + "-staged")
				if !ok1 || !ok2 {
					continue
				}
				if rs.Class != "ok" && logical {
					nStagedSkipped++
					continue
				}
				nStaged++
				if p.float {
					nStagedFloat++
				}
				if os, of := c06Observe(rs), c06Observe(rf); os != of {
					pre, atom := sg.program(p.run)
					c.Violation("evaluated-not-as-staged", rep(map[string]any{"operands": c06Literals(p.run.Vals), "types": p.run.Tys,
						"program_full":   string(c06Program(c06Layout(c06Subst(cs.Full, p.run, false)), p.run)),
						"program_staged": string(c06ProgramPre(pre, atom, p.run)),
						"got_full":       of, "got_staged": os,
						"why": "the fully parenthesised expression does not print what the same operator applications print when each is a statement of its own, in the order and with the operands the parentheses prescribe: the evaluator did not honour the grouping"}))
					return
				}
				if p.float {
					for x := range cs.Alts {
						if ra, ok := at(fmt.Sprintf("%s-alt%d", p.label, x)); ok {
							nFloatAlt++
							if c06Observe(ra) != c06Observe(rf) {
								nFloatDisc++
							}
						}
					}
				}
			}
		}

		// ---- (b) value conformance: Render(t) against FullParen(t), both on the real code
		implDisc := map[int]bool{}
		for q := range cs.Runs {
			run := &cs.Runs[q]
			for _, form := range []string{"", "-lit"} {
				rt, ok1 := at(fmt.Sprintf("run%d-text%s", q, form))
				rf, ok2 := at(fmt.Sprintf("run%d-full%s", q, form))
				if !ok1 || !ok2 {
					continue
				}
				nRuns++
				ot, of := c06Observe(rt), c06Observe(rf)
				if ot == of {
					continue
				}
				if dev != nil && c.OpenDev(dev.Name) {
					if rd, ok := at(fmt.Sprintf("run%d-dev%s", q, form)); ok && c06Observe(rd) == ot {
						usedDev = true
						src := c06Layout(c06Subst(cs.Text, run, form != ""))
						devHits[dev.Name] = append(devHits[dev.Name], devHit{src, fmt.Sprintf("`print %s` prints %q, `print %s` prints %q", src, c06FirstLine(ot),
							c06Layout(c06Subst(cs.Full, run, form != "")), c06FirstLine(of))})
						continue
					}
				}
				c.Violation("value", rep(map[string]any{"operands": run.Vals, "types": run.Tys, "form": form,
					"program_text": string(c06Program(c06Layout(c06Subst(cs.Text, run, form != "")), run)),
					"program_full": string(c06Program(c06Layout(c06Subst(cs.Full, run, form != "")), run)),
					"got_text":     ot, "got_full": of,
					"why": "the expression and its fully parenthesised form print different things"}))
				return
			}
			for x, bare := range cs.Bares {
				for _, form := range []string{"", "-lit"} {
					rb, ok1 := at(fmt.Sprintf("run%d-bare%d%s", q, x, form))
					rf, ok2 := at(fmt.Sprintf("run%d-full%s", q, form))
					if !ok1 || !ok2 {
						continue
					}
					nRuns++
					if ob, of := c06Observe(rb), c06Observe(rf); ob != of {
						c.Violation("value-bare", rep(map[string]any{"operands": run.Vals, "types": run.Tys, "form": form,
							"program_text": string(c06Program(c06Layout(c06Subst(bare, run, form != "")), run)),
							"program_full": string(c06Program(c06Layout(c06Subst(cs.Full, run, form != "")), run)),
							"got_text":     ob, "got_full": of,
							"why": "the expression (written with fewer parentheses than the table asks for, but with one reading only: the right side of `is` is one token) and its fully parenthesised form print different things"}))
						return
					}
				}
			}
			// ---- (c) parentheses override everything, on the evaluator's side too: the
			// fully parenthesised text (and the literal form) must not print what ANOTHER
			// grouping of the same tokens evaluates to.  The reference evaluation is
			// used only in this way: real != model(t) and real == model(other grouping),
			// both inside the evaluated universe and different.  A value that matches
			// neither is an operator question (C05) and is not judged here; runtime
			// errors are never matched (a spurious refusal is an operator defect).
			if run.Out.K == "ok" {
				for _, form := range []string{"", "-lit"} {
					rf, ok := at(fmt.Sprintf("run%d-full%s", q, form))
					if !ok || rf.Class != "ok" {
						continue
					}
					got := string(rf.Stdout)
					for _, ao := range run.AltOuts {
						if ao.K == "ok" && c06Want(ao) != c06Want(run.Out) {
							nRegroupChecks++
						}
					}
					if strings.HasPrefix(got, c06Want(run.Out)) {
						continue
					}
					for x, ao := range run.AltOuts {
						if ao.K != "ok" || c06Want(ao) == c06Want(run.Out) || !strings.HasPrefix(got, c06Want(ao)) {
							continue
						}
						nRegrouped++
						c.Violation("evaluated-as-other-grouping", rep(map[string]any{"operands": c06Literals(run.Vals), "types": run.Tys, "form": form,
							"program": string(c06Program(c06Layout(c06Subst(cs.Full, run, form != "")), run)),
							"got":     got, "intended_grouping_prints": c06Want(run.Out),
							"other_grouping": c06Layout(c06Subst(cs.Alts[x], run, form != "")), "other_grouping_prints": c06Want(ao),
							"why": "the fully parenthesised expression prints what a different grouping of the same tokens evaluates to: the parentheses were not honoured in evaluation"}))
						return
					}
				}
			}
			// the reference evaluation against the fully parenthesised text (reported only)
			if rf, ok := at(fmt.Sprintf("run%d-full", q)); ok {
				switch run.Out.K {
				case "unk":
					modelUnknown++
				case "err":
					if rf.Class == "runtime" {
						modelAgree++
					} else {
						modelDisagree++
						if len(disagreeSamples) < 5 {
							disagreeSamples = append(disagreeSamples, map[string]any{"full": c06Layout(c06Subst(cs.Full, run, false)), "operands": run.Vals, "model": "runtime error", "got_class": rf.Class, "got": string(rf.Stdout)})
						}
					}
				case "ok":
					want := c06Want(run.Out)
					if rf.Class == "ok" && strings.HasPrefix(string(rf.Stdout), want) {
						modelAgree++
					} else {
						modelDisagree++
						if len(disagreeSamples) < 5 {
							disagreeSamples = append(disagreeSamples, map[string]any{"full": c06Layout(c06Subst(cs.Full, run, false)), "operands": run.Vals, "model": want, "got_class": rf.Class, "got": string(rf.Stdout)})
						}
					}
				}
				// which other groupings the implementation itself tells apart from t under these operands
				of := c06Observe(rf)
				for x := range cs.Alts {
					if ra, ok := at(fmt.Sprintf("run%d-alt%d", q, x)); ok {
						nAltImplRun++
						if c06Observe(ra) != of {
							implDisc[x] = true
						}
					}
				}
			}
		}
		if usedDev {
			devCases++
		}
		nCases++
		famCount[fam]++
		nAlt += cs.NAlt
		nDiscModel += cs.NDisc
		nDiscImpl += len(implDisc)
		if cs.NAlt > 0 && cs.NDisc == 0 && len(implDisc) == 0 {
			nTreeOnly++
			treeOnlyFam[fam]++
			treeOnlySamples = append(treeOnlySamples, fam+": "+c06Layout(cs.Text))
		}
		c.Case(fam+":"+cs.Exp, cs.NAlt > 0 && (cs.NDisc > 0 || len(implDisc) > 0))
		if key := c06Layout(cs.Text); cs.NAlt > 0 && (sampled[fam] == nil || key < sampled[fam]["text_pattern"].(string)) {
			// per family the tree with the smallest text (independent of the order of arrival)
			sampled[fam] = (map[string]any{"text_pattern": key, "family": fam, "text": c06Layout(c06Subst(cs.Text, run0, false)), "fully_parenthesised": c06Layout(c06Subst(cs.Full, run0, false)),
				"tree": cs.Exp, "operands": c06Literals(run0.Vals), "model_outcome": c06OutString(run0.Out), "other_groupings": cs.NAlt, "told_apart_by_model": cs.NDisc, "told_apart_on_impl": len(implDisc)})
		}
	}

	nNeg, nLax := 0, 0
	var laxSamples []string
	onNeg := func(fam string, ng *c06Neg, res []Result) {
		src := c06Layout(ng.Text)
		for _, r := range res {
			if c06Inconclusive(r.Class) || r.Class == "crash" {
				problem("C06: inconclusive run (%s) on %s", r.Class, src)
				return
			}
		}
		sx, run := res[0], res[1]
		if sx.Class == "syntax" && run.Class == "syntax" {
			nNeg++
			c.Case("neg:"+src, true)
			return
		}
		// accepted: a missing target validation (C11) if the tree is the one the
		// table gives; a precedence defect otherwise
		lax := ng.Lax != "(syntax-error)" && sx.Class == "ok" && sx.Sexpr == ng.Lax
		for _, d := range ng.Dev {
			if c.OpenDev(d.Name) && d.Lax != "(syntax-error)" && sx.Class == "ok" && sx.Sexpr == d.Lax {
				lax = true
			}
		}
		if lax && run.Class != "syntax" {
			nLax++
			laxSamples = append(laxSamples, src+"  =>  "+sx.Sexpr)
			c.Case("neg:"+src, true)
			return
		}
		c.Violation("accepts-ungrammatical", map[string]any{"family": fam, "text": src, "got_class_expression": sx.Class, "got_tree": sx.Sexpr, "got_class_print": run.Class, "got": string(run.Stdout),
			"tree_without_target_validation": ng.Lax,
			"why":                            "this token sequence has no parse under the grammar (DESIGN.md 3.9); it is accepted, and not with the grouping the table gives"})
	}

	st := pool.NewStream(func(j *Job, r Result) {
		parts := strings.SplitN(j.Tag, "\x00", 3)
		if parts[0] == "neg" {
			var ng c06Neg
			VecDecode([]byte(parts[2]), &ng)
			if len(r.Hist) != 2 {
				problem("C06: worker returned %d results for 2 jobs (%s) %s", len(r.Hist), r.Class, r.Detail)
				return
			}
			onNeg(parts[1], &ng, r.Hist)
			return
		}
		var cs c06Case
		VecDecode([]byte(parts[2]), &cs)
		plan := c06CasePlan(&cs, siteTable, true)
		if len(r.Hist) != len(plan.labels) {
			problem("C06: worker returned %d results for %d jobs (%s) %s", len(r.Hist), len(plan.labels), r.Class, r.Detail)
			return
		}
		onCase(parts[1], &cs, r.Hist, plan.labels)
	})

	submitNeg := func(fam string, ng *c06Neg) {
		src := c06Layout(ng.Text)
		raw, _ := json.Marshal(ng)
		st.Submit(Job{Kind: "history", Tag: "neg\x00" + fam + "\x00" + string(raw), Hist: []Job{
			{Kind: "sexpr", Prog: []byte(src)},
			{Kind: "run", Prog: []byte("function f(x) { return x }\nBEGIN {\na = 1\nb = 2\nc = 3\nr = [1]\nprint " + src + "\n}\n")},
		}})
	}

	submitCases := func(v *c06Vec) {
		for i := range v.Cases {
			cs := &v.Cases[i]
			if len(cs.Runs) == 0 {
				infra("C06: vector without operand assignment: %s", c06Layout(cs.Text))
			}
			cs.Fam = v.Fam
			plan := c06CasePlan(cs, siteTable, false)
			b, _ := json.Marshal(cs)
			st.Submit(Job{Kind: "history", Hist: plan.jobs, Tag: "case\x00" + v.Fam + "\x00" + string(b)})
		}
	}
	var tlcWall time.Duration
	cfg := cfgText("INIT Init", "NEXT Next", "CONSTANTS",
		"Fams = {"+c06Quote(fams)+"}", fmt.Sprintf("Seed = %d", c.Seed%1000), fmt.Sprintf("Mod = %d", mod), fmt.Sprintf("NDeep = %d", ndeep), fmt.Sprintf("PMod = %d", pmod), "SiteAll = {"+c06Quote(siteAll)+"}", fmt.Sprintf("SiteMod = %d", siteMod),
		"INVARIANT Laws", "INVARIANT NegLaws", "INVARIANT Vec", "CHECK_DEADLOCK FALSE")
	res := c.TLC(TLCOpt{Module: "MC_Parse", Cfg: cfg, Workers: 12, Heap: "6g", Timeout: 40 * time.Minute,
		OnVec: func(raw []byte) {
			var v c06Vec
			VecDecode(raw, &v)
			for i := range v.NegFlat {
				submitNeg(v.Fam, &v.NegFlat[i])
			}
			siteMu.Lock()
			defer siteMu.Unlock()
			if len(v.SiteTable) > 0 {
				siteTable = v.SiteTable
				for i := range waiting {
					submitCases(&waiting[i])
				}
				waiting = nil
			}
			if len(v.Cases) > 0 {
				if siteTable == nil {
					waiting = append(waiting, v)
				} else {
					submitCases(&v)
				}
			}
		}})
	if siteTable == nil || len(waiting) > 0 {
		infra("C06: the model sent no site table")
	}
	tlcWall = res.Wall
	st.Wait()
	if len(problems) > 0 {
		infra("%s", strings.Join(problems, "\n"))
	}

	if os.Getenv("VERIF_C06_ONLY") == "" || os.Getenv("VERIF_C06_ONLY") == "deep" {
		c06Deep(c, pool)
	}

	// one deterministic witness per deviation
	for name, hits := range devHits {
		sort.Slice(hits, func(i, j int) bool {
			// prefer a witness on values with literal operands, then the shortest text
			vi, vj := strings.HasPrefix(hits[i].what, "`print ") && !strings.ContainsAny(hits[i].text, "abcde"), strings.HasPrefix(hits[j].what, "`print ") && !strings.ContainsAny(hits[j].text, "abcde")
			if vi != vj {
				return vi
			}
			if len(hits[i].text) != len(hits[j].text) {
				return len(hits[i].text) < len(hits[j].text)
			}
			return hits[i].what < hits[j].what
		})
		c.Known(name, fmt.Sprintf("binary operators of equal precedence group right to left: %s (%d of %d trees are explained by it and by nothing else)", hits[0].what, devCases, nCases))
	}

	for _, fam := range []string{"bin2", "bin3", "pre2", "presuf", "inner", "deep", "prim2", "prim3"} {
		if m := sampled[fam]; m != nil {
			c.Sample(m)
		}
	}
	c.Set("exhaustive", true)
	c.Set("rule", "TLC enumerates token sequences (all 21 binary operators: singles, ordered pairs, ordered triples [quick: the third with (i+j+k+seed)%3=0]; a prefix operator at every operand of singles and pairs, two prefixes; each suffix kind at every operand of singles [thorough: pairs]; suffix pairs; prefix with suffix; precedence restarting inside [ ] ( ) and array literals; assignment chains of 4; sampled sequences of 4 operators; every other primary form [regex literal, single-quoted string, null, $, array literal, object literal, match expression] as the operand at every place of every single [and at both places] and every ordered pair, under a prefix operator next to every operator, and at the places of the ordered triples with (i+j+k+place+primary+seed)%PMod=0; the keyword type names null and function after every `is` of every single, ordered pair [each choice] and selected triple [one choice]) and for each every well-formed grouping (2, 5, 14 bracketings; prefix/suffix applied at every enclosing sub-expression). Every tree of the families "+strings.Join(siteAll, " ")+" is also placed at every expression site of the statement grammar (JqParse.ExprSites), of the other trees "+fmt.Sprintf("one in %d", siteMod)+" (chosen by the tree and the seed) at one site chosen likewise: the program's tree (VerifProgSexpr) with the minimal and the fully parenthesised text at the site, and the run against `z8 = (fully parenthesised)` followed by the bare z8 at the same site. One case = one tree; non-trivial = the token sequence has another grouping and some operand assignment tells the two apart (by the reference evaluation or on the implementation); distinct by tree")
	c.Set("checker_cmd", "tlc MC_Parse (laws: Parse(Render(t)) = t, Parse(FullParen(t)) = t, no redundant parenthesis except those of Bares(t), which parse to t, same tokens, injectivity, deviation characterisation, SiteLaw: followed by the terminator of a site the tokens parse to t and stop before it); replay through lang.VerifExprSexpr and lang.EvalProgram")
	c.Set("bounds", map[string]any{"families": fams, "triple_selection_mod": mod, "deep_samples": ndeep, "primary_triple_selection_mod": pmod, "primary_forms": "/s/ 's' null $ [4, 9] {k: 7} match (2) { 2 => 5 }", "operand_pool": "12 6 2 3 \"s\" true false 5", "type_names": "number string bool"})
	c.Set("families", famCount)
	c.Set("trees", nCases)
	c.Set("ungrammatical_texts_refused", nNeg)
	c.Set("ungrammatical_texts_accepted_with_the_table_grouping", nLax)
	if nLax > 0 {
		sort.Strings(laxSamples)
		if len(laxSamples) > 8 {
			laxSamples = laxSamples[:8]
		}
		c.Set("ungrammatical_accepted_samples", laxSamples)
		c.Assume("texts whose only defect is a non-assignable `=` target (`-a = b`, `f() = b`) and which the parser accepts with the grouping the table gives are counted, not judged: target validation is C11")
	}
	c.Set("program_pairs_compared", nRuns)
	c.Set("texts_with_fewer_parentheses_than_the_table_asks_for", nBare)
	c.Set("site_program_pairs_compared", nSiteRuns)
	c.Set("site_program_pairs_by_site", siteCount)
	c.Set("families_at_every_site", siteAll)
	c.Set("other_trees_at_one_site_one_in", siteMod)
	c.Set("tight_layout_program_pairs_compared", nTight)
	c.Set("staged_program_pairs_compared", nStaged)
	c.Set("staged_program_pairs_with_fraction_operands", nStagedFloat)
	c.Set("staged_program_fails_with_logical_operator_not_judged", nStagedSkipped)
	c.Set("fraction_operands_alternative_groupings_run", nFloatAlt)
	c.Set("fraction_operands_alternative_groupings_told_apart_on_impl", nFloatDisc)
	c.Set("alternative_groupings", nAlt)
	c.Set("alternatives_told_apart_by_model_operands", nDiscModel)
	c.Set("alternatives_told_apart_on_impl", nDiscImpl)
	c.Set("trees_with_alternatives_but_never_told_apart", nTreeOnly)
	sort.Strings(treeOnlySamples)
	if os.Getenv("VERIF_C06_TREEONLY") == "" && len(treeOnlySamples) > 12 {
		// a spread over the sorted list
		step := len(treeOnlySamples) / 12
		spread := []string{}
		for i := 0; i < len(treeOnlySamples) && len(spread) < 12; i += step {
			spread = append(spread, treeOnlySamples[i])
		}
		treeOnlySamples = spread
	}
	c.Set("trees_never_told_apart_by_family", treeOnlyFam)
	c.Set("trees_never_told_apart_samples", treeOnlySamples)
	c.Set("other_grouping_values_ruled_out", nRegroupChecks)
	c.Set("evaluated_as_other_grouping", nRegrouped)
	c.Set("model_value_agree", modelAgree)
	c.Set("model_value_disagree", modelDisagree)
	c.Set("model_value_outside_universe", modelUnknown)
	if len(disagreeSamples) > 0 {
		c.Set("model_value_disagree_samples", disagreeSamples)
	}
	c.Set("trees_explained_by_parse_right_assoc", devCases)
	c.Set("tlc_wall_s", tlcWall.Seconds())
	_ = nAltImplRun
}

// c06Want: the first two output lines (value, then the variables) a model outcome prescribes
func c06Want(o c06Out) string {
	envs := make([]string, len(o.Env))
	for i, v := range o.Env {
		envs[i] = c06Printed(v)
	}
	return c06Printed(o.V) + "\n" + strings.Join(envs, " ") + "\n"
}

func c06Literals(vs []c06Val) []string {
	out := make([]string, len(vs))
	for i, v := range vs {
		out[i] = c06Literal(v)
	}
	return out
}

func c06OutString(o c06Out) string {
	switch o.K {
	case "ok":
		return "prints " + c06Printed(o.V) + "; variables afterwards " + strings.Join(c06Literals(o.Env), " ")
	case "err":
		return "runtime error"
	}
	return "outside the evaluated universe"
}

func c06FirstLine(o c06Obs) string {
	if o.Class != "ok" {
		return "<" + o.Class + "> " + strings.SplitN(o.Stdout, "\n", 2)[0]
	}
	return strings.SplitN(o.Stdout, "\n", 2)[0]
}

func c06Quote(ss []string) string {
	q := make([]string, len(ss))
	for i, s := range ss {
		q[i] = `"` + s + `"`
	}
	return strings.Join(q, ", ")
}

// c06CasePlan: the jobs of one tree, executed in order in one worker process.
func c06CasePlan(cs *c06Case, sites []c06Site, labelsOnly bool) *c06Plan {
	p := &c06Plan{labelsOnly: labelsOnly}
	run0 := &cs.Runs[0]
	sx := func(label string, toks []string, lits bool) {
		p.add(label, func() Job { return Job{Kind: "sexpr", Prog: []byte(c06Layout(c06Subst(toks, run0, lits)))} })
	}
	sx("sx-text", cs.Text, false)
	sx("sx-full", cs.Full, false)
	hasLit := !bytes.Equal([]byte(c06Layout(c06Subst(cs.Text, run0, true))), []byte(c06Layout(c06Subst(cs.Text, run0, false))))
	if hasLit {
		sx("sx-text-lit", cs.Text, true)
		sx("sx-full-lit", cs.Full, true)
	}
	for x, bare := range cs.Bares {
		sx(fmt.Sprintf("sx-bare%d", x), bare, false)
		if hasLit {
			sx(fmt.Sprintf("sx-bare%d-lit", x), bare, true)
		}
	}
	// the tree at the expression sites of the statement grammar: the program's tree with the minimal and with the
	// fully parenthesised text at the site; the value against the reference that leaves the site no grouping decision
	siteText, siteFull := "", ""
	if len(cs.Sites) > 0 && !labelsOnly {
		siteText = c06Layout(c06Subst(cs.Text, run0, false))
		siteFull = c06Layout(c06Subst(cs.Full, run0, false))
	}
	for _, k := range cs.Sites {
		if k < 1 || k > len(sites) {
			infra("C06: site %d of %d", k, len(sites))
		}
		site := &sites[k-1]
		tree := func(e string) func() Job {
			return func() Job {
				prog, _ := site.treeProgram(e, "")
				return Job{Kind: "psexpr", Prog: []byte(prog)}
			}
		}
		p.add(fmt.Sprintf("site%d-sx-text", k), tree(siteText))
		p.add(fmt.Sprintf("site%d-sx-full", k), tree(siteFull))
		p.add(fmt.Sprintf("site%d-text", k), func() Job { return site.valueProgram(siteText, "", run0) })
		p.add(fmt.Sprintf("site%d-ref", k), func() Job { return site.valueProgram(siteText, siteFull, run0) })
	}
	// the tight layout (the tree, and the value under the first operand assignment)
	if len(cs.Gaps) > 0 {
		toks := c06Subst(cs.Text, run0, false)
		if tight := c06Tight(toks, cs.Gaps); tight != c06Layout(toks) {
			p.add("sx-tight", func() Job { return Job{Kind: "sexpr", Prog: []byte(tight)} })
			p.add("run0-tight", func() Job { return Job{Kind: "run", Prog: c06Program(tight, run0)} })
		}
	}
	// the staged form under the first operand assignment and under the operands outside the reference universe
	if len(cs.Stage) > 0 {
		sg := &cs.Stage[0]
		staged := func(label string, run *c06Run) {
			p.add(label, func() Job {
				pre, atom := sg.program(run)
				return Job{Kind: "run", Prog: c06ProgramPre(pre, atom, run)}
			})
		}
		staged("run0-staged", run0)
		for k := range sg.FRuns {
			run := &sg.FRuns[k]
			p.add(fmt.Sprintf("frun%d-full", k), func() Job { return Job{Kind: "run", Prog: c06Program(c06Layout(c06Subst(cs.Full, run, false)), run)} })
			staged(fmt.Sprintf("frun%d-staged", k), run)
			if cs.Fam == "lvl3" || cs.Fam == "bin2" {
				// evidence: which other groupings these operands tell apart on the implementation
				for x, alt := range cs.Alts {
					alt := alt
					p.add(fmt.Sprintf("frun%d-alt%d", k, x), func() Job { return Job{Kind: "run", Prog: c06Program(c06Layout(c06Subst(alt, run, false)), run)} })
				}
			}
		}
	}
	for q := range cs.Runs {
		run := &cs.Runs[q]
		prog := func(label string, toks []string, lits bool) {
			p.add(label, func() Job { return Job{Kind: "run", Prog: c06Program(c06Layout(c06Subst(toks, run, lits)), run)} })
		}
		prog(fmt.Sprintf("run%d-text", q), cs.Text, false)
		prog(fmt.Sprintf("run%d-full", q), cs.Full, false)
		if len(cs.Dev) > 0 {
			prog(fmt.Sprintf("run%d-dev", q), cs.Dev[0].Full, false)
		}
		if q == 0 && hasLit {
			prog("run0-text-lit", cs.Text, true)
			prog("run0-full-lit", cs.Full, true)
			if len(cs.Dev) > 0 {
				prog("run0-dev-lit", cs.Dev[0].Full, true)
			}
		}
		for x, alt := range cs.Alts {
			prog(fmt.Sprintf("run%d-alt%d", q, x), alt, false)
		}
		for x, bare := range cs.Bares {
			prog(fmt.Sprintf("run%d-bare%d", q, x), bare, false)
			if q == 0 && hasLit {
				prog(fmt.Sprintf("run0-bare%d-lit", x), bare, true)
			}
		}
	}
	return p
}
