package main

import (
	"fmt"
	"math/rand"
	"os"
	"path/filepath"
	"strings"
)

func init() { register("C11", checkC11) }

// fault kinds: an expression whose evaluation fails (C11's list)
var c11FaultExprs = []string{
	"(1 / 0)", "(7 % 0)", "nf(1)", "(\"a\" ~ \"(\")", "([1] < 2)", "$nope", "printf(\"%d\", 1)",
	"[1][0 - 5]", "\"a\\q\"", "json(tf)", "num()", "garr.push()", "({a: 1} > 0)", "(\"x\" !~ 5)",
	// further members of the listed kinds: a divisor that is zero only after conversion / truncation, containers compared
	// inside a method, other non-functions, other bad printf arguments, other malformed regexes
	"(7 % 0.5)", "(7 % \"0.9\")", "(7 % (0 - 0.25))", "(1 / \"0\")", "(1 / null)", "(0 / 0)", "(1 / (sc - 1))",
	"([1] == [1])", "({} != {})", "[[1], 2].contains(2)", "[1].contains({})", "garr.contains([1])",
	"\"x\"()", "[1]()", "null()", "(1).upper()", "fo.nosuch()",
	"printf(\"%q\", 1)", "printf(\"%5\", 1)", "printf(\"%s %s\", 1)", "printf(1)",
	"(\"a\" ~ \"[z-a]\")", "(\"a\" !~ \"(?<\")", "$0", "\"a\".split()", "json()",
	// regexes whose only defect is a counted repetition; printf directives with a flag but no width, unknown flags, precision
	"(\"a\" ~ \"a{2,1}\")", "(\"a\" ~ /a{1001}/)", "(\"x\" !~ \"b{3,2}\")", "printf(\"%-s\", \"a\")", "printf(\"%-f\", 1)", "printf(\"%-v\", 1)", "printf(\"%-%\")",
	"printf(\"%+s\", \"a\")", "printf(\"%.2f\", 1)", "printf(\"%5.2f\", 1)", "printf(\"%*s\", 1, \"a\")",
	// an index that is neither a number nor a string, on every kind of receiver; a printf that fails after text or
	// satisfied directives (nothing of it is written)
	"garr[true]", "\"str\"[null]", "(5)[[1]]", "garr[uqnever]", "garr[{}]", "fo[true]", "garr[/r/]",
	"printf(\"x=%s y=%s\\n\", \"1\")", "printf(\"ab%q\", 1)", "printf(\"a%sb%5\", \"z\")", "printf(\"head %s %f tail\", \"s\", \"notnum\")",
	// arguments a method must refuse
	"fo.pluck(true)", "fo.pluck(null)", "fo.pluck([1])", "fo.pluck(uqnever)", "garr.push(1, 2)", "garr.pop(1)", "\"a\".split(1)",
	// a container compared with itself; a malformed regex at a site that has already matched with a good one
	"(garr == garr)", "(fo >= fo)", "(garr[1] != garr[1])", "(tre(\"b\") + tre(\"(\"))", "(tre(\"a\") && tre(\"a\") && tre(\"[\"))",
}

// syntactic shapes that put a failing expression E into a slot of a statement
var c11Shapes = []string{
	"fx = E", "print E", "print 1, E", "print E, 2", "printf(\"%v\", E)", "ga = [1, E]", "go = {k: E}", "garr[E]", "tf(E)", "tf(1, E)",
	"fx = (E)(1)", "fx = -E", "fx = !E", "fx = 1 + E", "fx = E + 1", "fx = true && E", "fx = false || E", "fx += E", "fo.k = E", "fo[E] = 1",
	"fx = uqnever < E", "fx = uqnever == E", "fx = uqnever != E", "fx = uqnever >= E", "fx = E > uqnever", "fx = null < E", "fx = uqnever || E", "fx = (uqnever == 1) || E",
	"fx = E is number", "fx = match (E) { 1 => 2 }", "fx = match (1) { 1 => E }", "fx = E.length()", "fx = [E][0]", "fx = E ~ \"a\"", "fx = (E < 1)",
}

// statement-level faults that are not an expression in a slot
var c11StmtFaults = []string{
	"for (q in [\"b\", \"(\"]) { fx = \"ab\" ~ q }", "for (q in [garr, 1]) { fx = q == q }",
	// division by zero in every spelling
	"sc /= 0", "sc /= (sc - 1)", "fo.z /= 0", "garr[0] /= \"0\"", "sc /= null", "fx = (sc /= 0)", "sc = sc / 0", "sc = sc % 0",
	"for (q in 5) { }", "for (q in null) { }", "sc.k = 2", "sc.y++", "fx = --sc.y", "garr[0 - 9] = 1", "garr[2000000] = 1", "sc.k.l = 1", "fx = garr[0 - 9]",
	// a literal that fails when evaluated, as a match pattern: top level, inside an array pattern, nested, as a later alternative
	"fx = match (\"x\") { \"a\\q\" => 0 }", "fx = match ([\"x\"]) { [\"a\\q\"] => 0 }", "fx = match ([[\"x\"]]) { [[\"a\\q\"]] => 0 }",
	"fx = match ([1, \"x\"]) { [1, \"a\\q\"] => 0 }", "fx = match (\"x\") { 1, \"a\\q\" => 0 }", "fx = match ([\"x\"]) { [1], [\"a\\q\"] => 0 }",
}

type faultVec struct {
	Prog    Node   `json:"prog"`
	Conds   []bool `json:"conds"`
	Out     []any  `json:"out"`
	Outcome string `json:"outcome"`
}

const c11Preamble = "function tf(a, b) {\n  return a\n}\nfunction tre(p) {\n  return \"ab\" ~ p\n}\nBEGIN {\n  nf = 5\n  sc = 1\n  garr = [1, [2]]\n  fo = {}\n}\n"

// C11: syntax errors pre-empt all execution; runtime faults stop the run at the fault.
func checkC11(c *Ctx) {
	c.Assume("error messages are not compared; which of two faults in one statement is reported is open")
	c.Assume("syntax half: the splice catalogue contains only splices that violate a necessary condition of the grammar (TLC checks this on MC_Splice); programs that remain grammatical after a splice are not claimed to be errors")
	c.Assume("output markers are at statement level, so the check does not depend on operand evaluation order")
	pool := c.Pool()
	rng := rand.New(rand.NewSource(c.Seed))

	// ---- syntax half
	type spliceVec struct {
		Host   int      `json:"host"`
		Pos    int      `json:"pos"`
		Splice int      `json:"splice"`
		Toks   []string `json:"toks"`
		// the sequence is ill-formed only while it stays on one line (a statement follows the "}" of an object literal)
		OneLine bool `json:"oneline"`
	}
	var sjobs []Job
	var smeta []string
	c.TLC(TLCOpt{Module: "MC_Splice", Heap: "4g",
		Cfg: cfgText("INIT Init", "NEXT Next", "INVARIANTS HostsWellFormed SplicedIllFormed Vec", "CHECK_DEADLOCK FALSE"),
		OnVec: func(raw []byte) {
			var v spliceVec
			VecDecode(raw, &v)
			flat := strings.Join(v.Toks, " ")
			lines := strings.ReplaceAll(strings.ReplaceAll(flat, " ; ", "\n"), "} ", "}\n")
			layouts := []string{flat, lines}
			if v.Splice == -2 || v.OneLine {
				layouts = []string{flat} // a deleted ";" is only an error while no line break takes its place
			}
			for _, text := range layouts {
				sjobs = append(sjobs, Job{Kind: "run", Prog: []byte(text), Files: []FileIn{{Name: "in.json", Data: []byte(`[{"a":1},{"a":"a"}]`)}}, Budget: 100000})
				smeta = append(smeta, fmt.Sprintf("host %d splice %d at %d", v.Host, v.Splice, v.Pos))
			}
		}})
	nsample := 0
	var binProgs []string
	pool.Map(sjobs, func(i int, r Result) {
		if r.Class != "syntax" || len(r.Stdout) != 0 {
			c.Violation("syntax-preempt", map[string]any{"program": string(sjobs[i].Prog), "splice": smeta[i], "got_class": r.Class, "got_stdout": string(r.Stdout),
				"got_err": r.ErrMsg, "detail": r.Detail, "why": "a program that violates a necessary condition of the grammar must end in a syntax error with no output"})
			return
		}
		c.Case("syn:"+string(sjobs[i].Prog), true)
		nsample++
		if nsample%900 == 1 {
			c.Sample(map[string]any{"family": "syntax splice", "program": string(sjobs[i].Prog), "splice": smeta[i]})
		}
		if rng.Intn(30) == 0 {
			binProgs = append(binProgs, string(sjobs[i].Prog))
		}
	})
	dir := c.TempDir("c11bin")
	os.WriteFile(filepath.Join(dir, "in.json"), []byte(`[{"a":1},{"a":"a"}]`), 0o644)
	parallelDo(len(binProgs), 16, func(i int) {
		br := c.RunBin([]string{binProgs[i], "in.json"}, nil, dir, 0)
		if br.Exit == 0 || len(br.Stdout) != 0 || !strings.Contains(string(br.Stderr), "syntax error") || hasCrashMarks(br.Stderr) {
			c.Violation("syntax-preempt-binary", map[string]any{"program": binProgs[i], "exit": br.Exit, "stdout": string(br.Stdout), "stderr": string(br.Stderr)})
			return
		}
		c.Case("synbin:"+binProgs[i], true)
	})

	// ---- syntax half, assignment targets (grammar: JqParse)
	type tgtVec struct {
		Toks []struct {
			Tag  string `json:"tag"`
			Text string `json:"text"`
		} `json:"toks"`
		Refused bool `json:"refused"`
	}
	var tjobs []Job
	var tmeta []tgtVec
	c.TLC(TLCOpt{Module: "MC_AssignTarget", Heap: "4g", Workers: 8,
		Cfg: cfgText("INIT Init", "NEXT Next", "INVARIANTS Law Vec", "CHECK_DEADLOCK FALSE"),
		OnVec: func(raw []byte) {
			var v tgtVec
			VecDecode(raw, &v)
			parts := make([]string, len(v.Toks))
			for i, t := range v.Toks {
				if t.Tag == "Str" {
					parts[i] = "\"" + t.Text + "\""
				} else {
					parts[i] = t.Text
				}
			}
			expr := strings.Join(parts, " ")
			for _, prog := range []string{
				"function f() {\n  return {x: 1}\n}\nBEGIN {\n  print \"before\"\n}\nBEGIN {\n  a = {x: [0, {y: 1}]};\n  b = 2;\n  " + expr + ";\n  print \"after\"\n}\n",
				"function f() {\n  return {x: 1}\n}\nBEGIN {\n  print \"before\"\n}\n{\n  if (" + expr + ") {\n    print 1\n  }\n}\n"} {
				tjobs = append(tjobs, Job{Kind: "run", Prog: []byte(prog), Files: []FileIn{{Name: "in.json", Data: []byte("[1]")}}, Budget: 100000, Tag: expr})
				tmeta = append(tmeta, v)
			}
		}})
	pool.Map(tjobs, func(i int, r Result) {
		v := tmeta[i]
		rep := map[string]any{"expression": tjobs[i].Tag, "program": string(tjobs[i].Prog), "grammar_refuses": v.Refused, "got_class": r.Class, "got_stdout": string(r.Stdout), "got_err": r.ErrMsg}
		if v.Refused && (r.Class != "syntax" || len(r.Stdout) != 0) {
			rep["why"] = "assignment to a non-assignable target must be a syntax error with no output"
			c.Violation("assign-target", rep)
			return
		}
		if !v.Refused && r.Class == "syntax" {
			rep["why"] = "an assignment the grammar allows was refused as a syntax error"
			c.Violation("assign-target", rep)
			return
		}
		c.Case("tgt:"+string(tjobs[i].Prog), v.Refused)
	})

	// ---- runtime half
	maxNodes := 3
	perVec := 5
	if c.Thorough() {
		maxNodes = 4
		perVec = 24
	}
	type inst struct {
		expr, stmt string
	}
	allInst := []inst{}
	for _, e := range c11FaultExprs {
		for _, sh := range c11Shapes {
			allInst = append(allInst, inst{e, strings.Replace(sh, "E", e, 1)})
		}
	}
	for _, sf := range c11StmtFaults {
		allInst = append(allInst, inst{c11FaultExprs[0], sf})
	}
	ki := 0
	nrt := 0
	st := pool.NewStream(func(j *Job, r Result) {
		var v faultVec
		VecDecode([]byte(j.Tag), &v)
		exp := expectedLines(v.Out, collectProgForIns(v.Prog))
		rep := func(why string) map[string]any {
			return map[string]any{"program": string(j.Prog), "fault_expr": j.Args[0], "fault_stmt": j.Args[1], "conds": v.Conds, "expected_outcome": v.Outcome,
				"expected_lines": expTexts(exp), "got_class": r.Class, "got_stdout": string(r.Stdout), "got_err": r.ErrMsg, "why": why, "detail": r.Detail}
		}
		if r.Class == "budget" || r.Class == "timeout" {
			c.Count("inconclusive", 1)
			return
		}
		if r.Class != v.Outcome {
			why := "outcome class differs"
			if v.Outcome == "runtime" && r.Class == "ok" {
				why = "the failing operation was silently ignored and the program carried on"
			}
			c.Violation("fault-stop", rep(why))
			return
		}
		if why := compareEvalOutput(r.Stdout, exp); why != "" {
			c.Violation("fault-output", rep(why))
			return
		}
		c.Case("rt:"+string(j.Prog), v.Outcome == "runtime")
		nrt++
		if nrt%8000 == 5 {
			c.Sample(map[string]any{"family": "fault injection", "program": string(j.Prog), "expected_lines": expTexts(exp), "outcome": v.Outcome})
		}
	})
	c.TLC(TLCOpt{Module: "MC_EvalFault", Heap: "12g",
		Cfg: cfgText("INIT Init", "NEXT MCNext", "CONSTANTS", fmt.Sprintf("MaxNodes = %d", maxNodes), "CallLimit = 50", "Fuel = 1",
			"NextOutsidePattern = {\"ends-rule\"}", "INVARIANTS TypeOK FrameBalance BaseAtRuleStart DepthBounded NoEscape OutcomeLegal SigConsumed Vec",
			"PROPERTIES StopFreezesOutput DoneIsFinal RefinesFrames"),
		OnVec: func(raw []byte) {
			var v faultVec
			VecDecode(raw, &v)
			for k := 0; k < perVec; k++ {
				in := allInst[(ki*7+k*131)%len(allInst)]
				if c.Thorough() {
					in = allInst[(ki*perVec+k)%len(allInst)]
				}
				r := newEvalRenderer()
				r.faultExpr, r.faultStmt = in.expr, in.stmt
				p := r.renderEvalProgram(v.Prog, v.Conds)
				st.Submit(Job{Kind: "run", Prog: []byte(c11Preamble + p.Text), Files: []FileIn{{Name: "in.json", Data: []byte(p.Input)}}, Budget: 200000,
					Tag: string(raw), Args: []string{in.expr, in.stmt}})
			}
			ki++
		}})
	st.Wait()
	c.Set("exhaustive", true)
	c.Set("bounds", map[string]any{"MaxNodes": maxNodes, "instantiations_per_behaviour": perVec, "fault_kinds": len(c11FaultExprs), "slot_shapes": len(c11Shapes), "statement_faults": len(c11StmtFaults)})
	c.Set("rule", "syntax: every host x every splice of the catalogue x every token boundary (two layouts), all of which TLC shows to violate a necessary condition of the grammar; runtime: every tree <= MaxNodes with failing slots x condition outcomes (TLC BFS on JqEval), each behaviour instantiated with a rotating selection of fault kind x syntactic shape; non-trivial: the run reaches a fault (runtime) / always (syntax)")
	c.Set("checker_cmd", "tlc MC_Splice (HostsWellFormed, SplicedIllFormed) / tlc MC_EvalFault (JqEval invariants, StopFreezesOutput); replay via lang.EvalProgram and the binary")
}
