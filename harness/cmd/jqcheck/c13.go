package main

import (
	"bytes"
	"encoding/json"
	"fmt"
	"math"
	"math/big"
	"strconv"
	"strings"
	"sync"
	"time"
	"unicode/utf8"

	lang "github.com/alligator/jqawk/src"
)

func init() {
	register("C13", checkC13)
	jobKinds["c13lex"] = c13ExecLex
}

// C13: a program's meaning depends only on its tokens, not layout, comments or quoting.
//
//	(1) token level (spec/MC_Lex, MC_LexPair): every text up to MaxLen bytes over two
//	    small alphabets, and every ordered pair (thorough: also triple) of tokens of
//	    a universe written with every gap kind and quote, must be lexed by the real
//	    lexer (Lexer.Next, with the parser's Regex re-scan of a '/' in prefix
//	    position) into the model's token sequence, or fail where the model fails.
//	(2) string literals (spec/MC_LexStr): every literal body up to MaxLen bytes, in
//	    either quote style, printed by the real interpreter, gives the model's bytes
//	    or a runtime error.
//	(3) program level (spec/MC_LexProg): the programs of a corpus are lexed by the
//	    model, TLC chooses layouts the statement permits (systematic variants
//	    exhaustively, random ones with -simulate seeded by the run's seed) and checks
//	    that each lexes back to the same tokens; every variant must behave exactly
//	    like the corpus text on the real code (class, stdout, JSON output).
const c13Dev = "lex-minus-in-number"
const c13DevPrint = "print-semicolon"

type c13Tok struct {
	G string   `json:"g"`
	P int      `json:"p"`
	N int      `json:"n"`
	X []string `json:"x"`
}

type c13Alt struct {
	Toks []c13Tok `json:"toks"`
	Err  bool     `json:"err"`
}

type c13LexVec struct {
	T    []string `json:"t"`
	Toks []c13Tok `json:"toks"`
	Err  bool     `json:"err"`
	Open bool     `json:"open"`
	Dev  []c13Alt `json:"dev"`
}

var c13OperandEnd = map[string]bool{"Ident": true, "Num": true, "Str": true, "Regex": true, ")": true, "]": true,
	"true": true, "false": true, "Null": true, "++": true, "--": true, "$": true}

// c13ExecLex (worker side) drives the lexer the way the parser does: Next()
// until EOF; a '/' that does not follow an operand is in prefix position and
// is re-scanned with Regex().
func c13ExecLex(j *Job) (res Result) {
	defer func() {
		if r := recover(); r != nil {
			res.Class = "panic"
			res.Detail = fmt.Sprint(r)
		}
	}()
	lx := lang.NewLexer(string(j.Prog))
	res.Class = "ok"
	prev := ""
	for {
		t, err := lx.Next()
		if err == nil && t.Tag == lang.Divide && !c13OperandEnd[prev] {
			t, err = lx.Regex()
		}
		if err != nil {
			res.LexErr = true
			classify(err, &res)
			return res
		}
		res.Toks = append(res.Toks, Tok{Tag: t.Tag.String(), Pos: t.Pos, Len: t.Len, Text: []byte(lx.GetString(&t))})
		if t.Tag == lang.EOF {
			return res
		}
		if t.Tag != lang.Newline {
			prev = t.Tag.String()
		}
		if len(res.Toks) > 100000 {
			res.Class = "other"
			return res
		}
	}
}

var c13Valued = map[string]bool{"Ident": true, "Num": true, "Str": true, "Regex": true}

// c13SameToks: do the real tokens start with the model's tokens (tag, text of
// valued tokens, position)?  Returns the number of model tokens matched.
func c13SameToks(real []Tok, model []c13Tok) bool {
	if len(real) < len(model) {
		return false
	}
	for i, m := range model {
		r := real[i]
		if r.Tag != m.G {
			return false
		}
		if c13Valued[m.G] {
			if r.Len != m.N || !bytes.Equal(r.Text, symsToBytes(m.X)) {
				return false
			}
		}
		if m.G == "Str" || m.G == "Regex" {
			// the statement does not say whether a string token points at its
			// delimiter or its content
			if r.Pos != m.P && r.Pos != m.P-1 {
				return false
			}
		} else if r.Pos != m.P {
			return false
		}
	}
	return true
}

// c13LexAgrees compares one real lexer run with a model expectation.
func c13LexAgrees(r Result, toks []c13Tok, isErr, open bool) bool {
	if r.Class == "panic" || r.Class == "crash" || r.Class == "timeout" || r.Class == "other" {
		return false
	}
	if !c13SameToks(r.Toks, toks) {
		return false
	}
	switch {
	case open:
		return true // what follows is not fixed by the statement
	case isErr:
		return r.LexErr && len(r.Toks) == len(toks)
	default:
		return !r.LexErr && len(r.Toks) == len(toks)+1 && r.Toks[len(toks)].Tag == "EOF"
	}
}

// c13Lexer replays token-level vectors in batches (one worker round trip per batch).
type c13Lexer struct {
	c      *Ctx
	st     *Stream
	mu     sync.Mutex
	seq    int
	cur    []c13LexVec
	byID   map[string][]c13LexVec
	family string
	n      int
}

func c13NewLexer(c *Ctx, pool *Pool, family string) *c13Lexer {
	l := &c13Lexer{c: c, byID: map[string][]c13LexVec{}, family: family}
	l.st = pool.NewStream(func(j *Job, r Result) {
		l.mu.Lock()
		vecs := l.byID[j.Tag]
		delete(l.byID, j.Tag)
		l.mu.Unlock()
		if r.Class != "ok" || len(r.Hist) != len(vecs) {
			if r.Class == "timeout" {
				return
			}
			c.Violation("lex-batch-died", map[string]any{"family": family, "first_text": vecs[0].T, "result": r})
			return
		}
		for i, v := range vecs {
			l.check(v, r.Hist[i])
		}
	})
	return l
}

func (l *c13Lexer) check(v c13LexVec, r Result) {
	c := l.c
	text := symsToBytes(v.T)
	key := l.family + ":" + string(text)
	nontrivial := len(v.Toks) >= 2 || (v.Err && len(v.Toks) >= 1)
	if c13LexAgrees(r, v.Toks, v.Err, v.Open) {
		c.Case(key, nontrivial)
		l.n++
		if l.n == 4001 {
			c.Sample(map[string]any{"family": l.family, "text": string(text), "expected_tokens": v.Toks, "expected_error": v.Err})
		}
		return
	}
	rep := map[string]any{"family": l.family, "text": string(text), "text_syms": v.T, "expected_tokens": v.Toks,
		"expected_error": v.Err, "open_after_prefix": v.Open, "got_tokens": c13ShowToks(r.Toks), "got_error": r.LexErr, "got_class": r.Class, "got_msg": r.ErrMsg}
	if len(v.Dev) == 1 && c.OpenDev(c13Dev) && c13LexAgrees(r, v.Dev[0].Toks, v.Dev[0].Err, false) {
		c.Case(key, nontrivial)
		c13Wit.add(c13Dev, string(text), fmt.Sprintf("a numeric literal absorbs an adjacent '-' (and any further '.'): text %q is lexed as %s, expected %s",
			string(text), c13ShowToks(r.Toks), c13ShowModel(v.Toks)))
		return
	}
	c.Violation("lex-"+l.family, rep)
}

func c13ShowToks(ts []Tok) string {
	var sb strings.Builder
	for i, t := range ts {
		if i > 0 {
			sb.WriteByte(' ')
		}
		if c13Valued[t.Tag] {
			fmt.Fprintf(&sb, "%s(%q)@%d", t.Tag, t.Text, t.Pos)
		} else {
			fmt.Fprintf(&sb, "%s@%d", t.Tag, t.Pos)
		}
	}
	return sb.String()
}

func c13ShowModel(ts []c13Tok) string {
	var sb strings.Builder
	for i, t := range ts {
		if i > 0 {
			sb.WriteByte(' ')
		}
		if c13Valued[t.G] {
			fmt.Fprintf(&sb, "%s(%q)@%d", t.G, symsToBytes(t.X), t.P)
		} else {
			fmt.Fprintf(&sb, "%s@%d", t.G, t.P)
		}
	}
	return sb.String()
}

func (l *c13Lexer) add(raw []byte) {
	var v c13LexVec
	VecDecode(raw, &v)
	l.cur = append(l.cur, v)
	if len(l.cur) >= 256 {
		l.flush()
	}
}

func (l *c13Lexer) flush() {
	if len(l.cur) == 0 {
		return
	}
	l.mu.Lock()
	l.seq++
	id := strconv.Itoa(l.seq)
	l.byID[id] = l.cur
	l.mu.Unlock()
	jobs := make([]Job, len(l.cur))
	for i, v := range l.cur {
		jobs[i] = Job{Kind: "c13lex", Prog: symsToBytes(v.T)}
	}
	l.cur = nil
	l.st.Submit(Job{Kind: "history", Hist: jobs, Tag: id})
}

func (l *c13Lexer) wait() {
	l.flush()
	l.st.Wait()
}

type c13Prog struct {
	Name  string
	Prog  string
	Files []string
}

func c13BytesToSyms(b []byte) []string {
	out := make([]string, len(b))
	for i, x := range b {
		if x < 0x80 {
			out[i] = string(rune(x))
		} else {
			out[i] = fmt.Sprintf("%02X", x)
		}
	}
	return out
}

func (p *c13Prog) job(text []byte, tag string) Job {
	j := Job{Kind: "run", Prog: text, WantJS: true, Tag: tag}
	for i, f := range p.Files {
		j.Files = append(j.Files, FileIn{Name: fmt.Sprintf("<test%d>", i+1), Data: []byte(f)})
	}
	return j
}

// what the statement makes observable: outcome class, stdout, JSON output
func c13Obs(r Result) string {
	return fmt.Sprintf("class=%s\nstdout=%q\njs=%q\njserr=%v", r.Class, r.Stdout, r.JS, r.JSErr != "")
}

func c13Conclusive(r Result) bool {
	return r.Class != "budget" && r.Class != "timeout"
}

func checkC13(c *Ctx) {
	c.Assume("a numeric literal directly followed by another '.' (\"1.\", \"1.2.3\", \"1.x\"): the statement does not fix the reading; the token sequence is compared only up to that literal, and layouts never write a number directly against a '.'")
	c.Assume("bytes >= 0x80 outside strings and comments (non-ASCII letters in identifiers) are not modelled; in strings and comments they are (corpus)")
	c.Assume("token positions: a Str/Regex token may point at its delimiter or its content; Len is compared only for Ident/Num/Str/Regex")
	c.Assume("layouts the statement excludes are never generated: a newline directly after print/return, after a comma of a print list, before ';'; ';' for a newline whose left neighbour is '}'; an original newline after a print-list comma is only rewritten as another newline form; one after a bare print/return becomes ';' only when a statement follows in the same block")
	c.Assume("';' replaces only newlines that the spec classifies as separating two statements (innermost bracket is a statement block, left token can end a statement, right token cannot continue an expression and is not '}' ';' else); other original newlines are treated as blanks")
	c.Assume("a string literal cannot contain its own quote (no escape exists); quotes are swapped only where the content lacks the other quote; a regex literal cannot start with '=' (\"/=\" is one token)")
	c.Assume("brace classification (block / object literal / match body) is by the left neighbour; a '{' at the start of a statement is a block only directly after '{', '}' or ';' (the corpus has no bare block after a newline and no expression statement starting with '{')")
	c.Assume("numeric literal values: the decimal reading is rendered as the nearest double (math/big) in print's format (shortest positional decimal); spellings like 0x10 or 1e5 are not numeric literals (the lexer splits them) and are not in the value family; fractional or out-of-range indices are not used")
	c.Assume("string literals as byte strings (MC_LexStr / MC_StrSite, AlphaId 2): at the sites that compare with a member of the input document only values that are well-formed UTF-8 are used (a JSON document cannot carry other bytes); the sites that count or iterate characters (.length(), for-in over a string) and the regex site are not used with bytes >= 0x80")
	c.Assume("an invalid escape is compared by outcome class only (runtime error); object keys written as strings are not escape-processed and are not compared")
	c.Assume("corpus programs never print or iterate objects with more than one key (map order is C10's business); the corpus text itself is run three times and must be deterministic")
	pool := c.Pool()
	thorough := c.Thorough()
	phases := map[string]float64{}
	t0 := time.Now()
	phase := func(name string) {
		phases[name] = float64(int(time.Since(t0).Seconds()*10)) / 10
		t0 = time.Now()
	}

	// ---- (1) token level: exhaustive texts
	type lexRun struct{ alpha, maxLen int }
	runs := []lexRun{{1, 5}, {2, 4}}
	if thorough {
		runs = []lexRun{{1, 6}, {2, 6}}
	}
	for _, lr := range runs {
		lx := c13NewLexer(c, pool, fmt.Sprintf("text%d", lr.alpha))
		c.TLC(TLCOpt{Module: "MC_Lex", Workers: 8, Heap: "6g",
			Cfg: cfgText("INIT Init", "NEXT Next", "CONSTANTS", fmt.Sprintf("MaxLen = %d", lr.maxLen), fmt.Sprintf("AlphaId = %d", lr.alpha),
				"INVARIANT Laws", "INVARIANT Vec", "CHECK_DEADLOCK FALSE"),
			OnVec: lx.add})
		lx.wait()
	}

	phase("texts")

	// ---- (1) token level: pairs / triples of tokens with every gap
	arities := []int{2}
	if thorough {
		arities = []int{2, 3}
	}
	for _, a := range arities {
		lx := c13NewLexer(c, pool, fmt.Sprintf("tuple%d", a))
		c.TLC(TLCOpt{Module: "MC_LexPair", Workers: 8, Heap: "6g",
			Cfg:   cfgText("INIT Init", "NEXT Next", fmt.Sprintf("CONSTANT Arity = %d", a), "INVARIANT Laws", "INVARIANT Vec", "CHECK_DEADLOCK FALSE"),
			OnVec: lx.add})
		lx.wait()
	}

	phase("tuples")

	// ---- (2) string literals
	strLen := 4
	if thorough {
		strLen = 5
	}
	type strVec struct {
		Prog []string `json:"prog"`
		OK   bool     `json:"ok"`
		Out  []string `json:"out"`
	}
	nstr := 0
	stS := pool.NewStream(func(j *Job, r Result) {
		var v strVec
		VecDecode([]byte(j.Tag), &v)
		if !c13Conclusive(r) {
			return
		}
		rep := map[string]any{"program": string(j.Prog), "program_syms": v.Prog, "expected_ok": v.OK, "expected_stdout": string(symsToBytes(v.Out)),
			"got_class": r.Class, "got_stdout": string(r.Stdout), "got_msg": r.ErrMsg}
		if v.OK {
			if r.Class != "ok" || !bytes.Equal(r.Stdout, symsToBytes(v.Out)) {
				c.Violation("string-value", rep)
				return
			}
		} else if r.Class != "runtime" {
			c.Violation("string-bad-escape", rep)
			return
		}
		c.Case("str:"+string(j.Prog), bytes.IndexByte(j.Prog, '\\') >= 0)
		nstr++
		if nstr == 3001 {
			c.Sample(rep)
		}
	})
	// alphabet 1: escapes, quotes, blanks; alphabet 2: a literal is a byte string (bytes >= 0x80 of every UTF-8 role next to,
	// between and inside escapes); probes: every byte value 0..255 alone, before, after, around and between escapes
	c.TLC(TLCOpt{Module: "MC_LexStr", Workers: 8, Heap: "6g",
		Cfg: cfgText("INIT Init", "NEXT Next", "CONSTANTS", fmt.Sprintf("MaxLen = %d", strLen), fmt.Sprintf("MaxLen2 = %d", strLen-1),
			"INVARIANT Laws", "INVARIANT Vec", "CHECK_DEADLOCK FALSE"),
		OnVec: func(raw []byte) {
			var v strVec
			VecDecode(raw, &v)
			stS.Submit(Job{Kind: "run", Prog: symsToBytes(v.Prog), Tag: string(raw)})
		}})
	stS.Wait()

	phase("strings")

	// ---- (2a) the same literals at every SITE of the grammar where an expression may stand (spec/MC_StrSite):
	// a literal denotes the same characters wherever it is written
	siteLen := 3
	if thorough {
		siteLen = 4
	}
	type siteVec struct {
		Site string   `json:"site"`
		Prog []string `json:"prog"`
		OK   bool     `json:"ok"`
		Val  []string `json:"val"`
		Doc  bool     `json:"doc"`
		Out  []string `json:"out"`
	}
	siteSeen := map[string]int{}
	stSite := pool.NewStream(func(j *Job, r Result) {
		var v siteVec
		VecDecode([]byte(j.Tag), &v)
		if !c13Conclusive(r) {
			return
		}
		rep := map[string]any{"site": v.Site, "program": string(j.Prog), "program_syms": v.Prog, "expected_ok": v.OK, "expected_stdout": string(symsToBytes(v.Out)),
			"denoted_value": string(symsToBytes(v.Val)), "got_class": r.Class, "got_stdout": string(r.Stdout), "got_msg": r.ErrMsg}
		if len(j.Files) > 0 {
			rep["document"] = string(j.Files[0].Data)
		}
		if v.OK {
			if r.Class != "ok" || !bytes.Equal(r.Stdout, symsToBytes(v.Out)) {
				c.Violation("string-site-value", rep)
				return
			}
		} else if r.Class != "runtime" {
			c.Violation("string-site-bad-escape", rep)
			return
		}
		c.Case("site:"+string(j.Prog), bytes.IndexByte(j.Prog, '\\') >= 0)
		siteSeen[v.Site]++
		if siteSeen[v.Site] == 401 && len(siteSeen)%6 == 0 {
			c.Sample(rep)
		}
	})
	allSites := []string{"print", "printlist", "assign", "addassign", "concatl", "concatr", "eqdoc", "neqdoc", "not", "cond", "whilecond", "arg", "ret", "elem", "objval",
		"recv", "recvsplit", "methodarg", "printfarg", "printffmt", "forin", "subset", "subget", "subgetdoc", "subsetget", "subnested", "subincr", "subaddassign",
		"subdocassign", "subdelete", "matchsubj", "matchpat", "matcharr", "matchres", "tildesubj", "grouped", "andor",
		"objkey", "objkeyget", "objkeyin", "objkeytwo"}
	// alphabet 2 (byte strings): the sites that hand the denoted bytes on unchanged; those that count or split
	// characters (recv: length, forin: characters) and the regex site (a regex must be UTF-8) are left out
	var byteSites []string
	for _, s := range allSites {
		if s != "recv" && s != "forin" && s != "tildesubj" {
			byteSites = append(byteSites, s)
		}
	}
	siteDocSkipped := 0
	siteLen2 := 0 // quick: the probes (byte groups before, after and around each escape) only
	if thorough {
		siteLen2 = 3
	}
	c.TLC(TLCOpt{Module: "MC_StrSite", Workers: 8, Heap: "6g",
		Cfg: cfgText("INIT Init", "NEXT Next", "CONSTANTS", fmt.Sprintf("MaxLen = %d", siteLen), fmt.Sprintf("MaxLen2 = %d", siteLen2),
			`Sites = {"`+strings.Join(allSites, `", "`)+`"}`, `Sites2 = {"`+strings.Join(byteSites, `", "`)+`"}`,
			"INVARIANT Laws", "INVARIANT Vec", "CHECK_DEADLOCK FALSE"),
		OnVec: func(raw []byte) {
			var v siteVec
			VecDecode(raw, &v)
			j := Job{Kind: "run", Prog: symsToBytes(v.Prog), Tag: string(raw)}
			if v.Doc { // the independent copy of the denoted bytes: {"k": val, val: 5}
				val := "x"
				if v.OK {
					val = string(symsToBytes(v.Val))
				}
				if !utf8.ValidString(val) { // a JSON document cannot hold these bytes
					siteDocSkipped++
					return
				}
				kq, _ := json.Marshal(val)
				j.Files = []FileIn{{Name: "in.json", Data: []byte(`{"k": ` + string(kq) + `, ` + string(kq) + `: 5}`)}}
			}
			stSite.Submit(j)
		}})
	stSite.Wait()
	c.Set("string_site_vectors_skipped_value_not_utf8_at_document_site", siteDocSkipped)
	for _, s := range allSites {
		if siteSeen[s] == 0 {
			infra("C13: no literal was compared at site %q", s)
		}
	}
	c.Set("string_literal_sites", siteSeen)

	phase("string_sites")

	// ---- (2b) numeric literals: the value is the decimal reading
	numInt, numFrac := 3, 2
	if thorough {
		numInt, numFrac = 4, 3
	}
	type numVec struct {
		Lit   []string `json:"lit"`
		IP    []string `json:"ip"`
		FP    []string `json:"fp"`
		Canon []string `json:"canon"`
	}
	nnum := 0
	stN := pool.NewStream(func(j *Job, r Result) {
		if !c13Conclusive(r) {
			return
		}
		parts := strings.SplitN(j.Tag, "\x00", 3) // form, literal, expected stdout
		if r.Class != "ok" || string(r.Stdout) != parts[2] {
			c.Violation("number-value-"+parts[0], map[string]any{"form": parts[0], "literal": parts[1], "program": string(j.Prog),
				"expected_stdout": parts[2], "got_class": r.Class, "got_stdout": string(r.Stdout), "got_msg": r.ErrMsg})
			return
		}
		c.Case("num:"+string(j.Prog), parts[1] != strings.TrimSuffix(parts[2], "\n"))
		nnum++
		if nnum == 2501 {
			c.Sample(map[string]any{"family": "number-value", "form": parts[0], "literal": parts[1], "program": string(j.Prog), "expected_stdout": parts[2]})
		}
	})
	c.TLC(TLCOpt{Module: "MC_LexNum", Workers: 8, Heap: "6g",
		Cfg: cfgText("INIT Init", "NEXT Next", "CONSTANTS", fmt.Sprintf("MaxInt = %d", numInt), fmt.Sprintf("MaxFrac = %d", numFrac),
			"INVARIANT Laws", "INVARIANT Vec", "CHECK_DEADLOCK FALSE"),
		OnVec: func(raw []byte) {
			var v numVec
			VecDecode(raw, &v)
			for _, f := range c13NumForms(string(symsToBytes(v.Lit)), string(symsToBytes(v.Canon))) {
				j := Job{Kind: "run", Prog: []byte(f.prog), Tag: f.name + "\x00" + string(symsToBytes(v.Lit)) + "\x00" + f.out}
				if f.input != "" {
					j.Files = []FileIn{{Name: "<test1>", Data: []byte(f.input)}}
				}
				stN.Submit(j)
			}
		}})
	stN.Wait()
	phase("numbers")

	// ---- (3) program level
	progs := c13Corpus()
	base := make([]Result, len(progs))
	usable := make([]bool, len(progs))
	{
		var jobs []Job
		for rep := 0; rep < 3; rep++ {
			for i := range progs {
				jobs = append(jobs, progs[i].job([]byte(progs[i].Prog), strconv.Itoa(i)))
			}
		}
		obs := make([][]string, len(progs))
		pool.Map(jobs, func(k int, r Result) {
			i := k % len(progs)
			obs[i] = append(obs[i], c13Obs(r))
			base[i] = r
		})
		for i := range progs {
			for _, o := range obs[i] {
				if o != obs[i][0] {
					infra("corpus program %s is not deterministic:\n%s\n--\n%s", progs[i].Name, obs[i][0], o)
				}
			}
			switch base[i].Class {
			case "ok", "runtime":
				usable[i] = true
			case "budget", "timeout":
				infra("corpus program %s: %s", progs[i].Name, base[i].Class)
			default:
				// every corpus program is a valid program
				c.Violation("corpus-program-rejected", map[string]any{"name": progs[i].Name, "program": progs[i].Prog,
					"got_class": base[i].Class, "got_msg": base[i].ErrMsg, "detail": base[i].Detail})
			}
		}
	}
	{
		var rt []string
		for i := range progs {
			if base[i].Class == "runtime" {
				rt = append(rt, progs[i].Name+": "+base[i].ErrMsg)
			}
		}
		c.Set("corpus_programs_ending_in_runtime_error", rt)
	}
	corpusJSON := func() string {
		all := make([][]string, len(progs))
		for i := range progs {
			all[i] = c13BytesToSyms([]byte(progs[i].Prog))
		}
		b, _ := json.Marshal(all)
		return string(b)
	}()
	shards := 6
	perProg := 24
	if thorough {
		shards = 8
		perProg = 300
	}
	progCfg := func(init, next string, shard int, invs ...string) string {
		lines := []string{"INIT " + init, "NEXT " + next, "CONSTANTS", fmt.Sprintf("Shard = %d", shard), fmt.Sprintf("NShards = %d", shards)}
		for _, inv := range invs {
			lines = append(lines, "INVARIANT "+inv)
		}
		lines = append(lines, "CHECK_DEADLOCK FALSE")
		return cfgText(lines...)
	}

	// (3a) the model's reading of every corpus text, cross-checked with the real lexer
	type infoVec struct {
		P     int      `json:"p"`
		OK    bool     `json:"ok"`
		Minus bool     `json:"minus"`
		Toks  []c13Tok `json:"toks"`
		Seps  int      `json:"seps"`
		Ctx   []string `json:"ctx"`
		Cls   []string `json:"classes"`
		Fused int      `json:"fused"`
	}
	nseps, nfused := 0, 0
	ctxSeen, clsSeen, kindSeen := map[string]int{}, map[string]int{}, map[string]int{}
	stI := pool.NewStream(func(j *Job, r Result) {
		var v infoVec
		VecDecode([]byte(j.Tag), &v)
		if !c13LexAgrees(r, v.Toks, false, false) {
			c.Violation("lex-corpus", map[string]any{"name": progs[v.P-1].Name, "program": progs[v.P-1].Prog,
				"expected_tokens": c13ShowModel(v.Toks), "got_tokens": c13ShowToks(r.Toks), "got_error": r.LexErr, "got_msg": r.ErrMsg})
			return
		}
		c.Case("corpuslex:"+progs[v.P-1].Name, true)
	})
	c.TLC(TLCOpt{Module: "MC_LexProg", Workers: 4, Heap: "4g", Files: map[string]string{"c13_corpus.json": corpusJSON},
		Cfg: progCfg("InitInfo", "NextInfo", 0, "Info"),
		OnVec: func(raw []byte) {
			var v infoVec
			VecDecode(raw, &v)
			if v.P < 1 || v.P > len(progs) {
				infra("bad program index %d", v.P)
			}
			if !v.OK {
				infra("corpus program %s cannot be laid out by the model (lexical error, open numeric spelling, or a gap with no permitted kind)", progs[v.P-1].Name)
			}
			if v.Minus {
				infra("corpus program %s writes a number directly against '-'", progs[v.P-1].Name)
			}
			nseps += v.Seps
			nfused += v.Fused
			for _, k := range v.Ctx {
				ctxSeen[k]++
			}
			for _, k := range v.Cls {
				clsSeen[k]++
			}
			stI.Submit(Job{Kind: "c13lex", Prog: []byte(progs[v.P-1].Prog), Tag: string(raw)})
		}})
	stI.Wait()
	// vacuity: the corpus must exercise every bracket context and every case of Permitted
	for _, k := range []string{"top", "paren", "hdr", "mhdr", "brack", "block", "obj", "mbody"} {
		if ctxSeen[k] == 0 {
			infra("corpus never exercises bracket context %q", k)
		}
	}
	for _, k := range []string{"plain-after-print", "plain", "nl-bare-print-sep", "nl-after-print", "nl-sep-after-brace", "nl-sep", "nl-inside"} {
		if clsSeen[k] == 0 {
			infra("corpus never exercises gap class %q", k)
		}
	}
	if nfused == 0 {
		infra("corpus has no adjacent tokens that need a blank")
	}

	phase("corpus")

	// (3b) variants
	type progVec struct {
		P     int      `json:"p"`
		Mode  string   `json:"mode"`
		Text  []string `json:"text"`
		Minus bool     `json:"minus"`
		PSemi bool     `json:"printsemi"`
		Semis int      `json:"semis"`
		Swaps int      `json:"swaps"`
		Kinds []string `json:"kinds"`
	}
	var vmu sync.Mutex
	nvar, nsemi, nswap := 0, 0, 0
	perProgSeen := make([]int, len(progs))
	stP := pool.NewStream(func(j *Job, r Result) {
		var v progVec
		VecDecode([]byte(j.Tag), &v)
		i := v.P - 1
		if !c13Conclusive(r) {
			return
		}
		p := &progs[i]
		vmu.Lock()
		perProgSeen[i]++
		for _, k := range v.Kinds {
			kindSeen[k]++
		}
		vmu.Unlock()
		if c13Obs(r) != c13Obs(base[i]) {
			rep := map[string]any{"name": p.Name, "mode": v.Mode, "original": p.Prog, "variant": string(j.Prog), "variant_bytes": j.Prog, "inputs": p.Files,
				"original_obs": c13Obs(base[i]), "variant_obs": c13Obs(r), "original_msg": base[i].ErrMsg, "variant_msg": r.ErrMsg, "variant_detail": r.Detail}
			if v.Minus && c.OpenDev(c13Dev) {
				c13Wit.add(c13Dev, "~"+string(j.Prog), fmt.Sprintf("program %s behaves differently when a number is written directly against '-': %q gives %s (%s), the original %s",
					p.Name, c13Excerpt(j.Prog), r.Class, r.ErrMsg, base[i].Class))
				return
			}
			if v.PSemi && c.OpenDev(c13DevPrint) {
				c13Wit.add(c13DevPrint, string(j.Prog), fmt.Sprintf("program %s: a bare print followed by ';' instead of a newline is rejected (%s: %s); variant %q",
					p.Name, r.Class, r.ErrMsg, c13ExcerptAt(j.Prog, "print;")))
				return
			}
			c.Violation("layout-"+v.Mode, rep)
			return
		}
		c.Case("var:"+string(j.Prog)+"\x00"+p.Name, string(j.Prog) != p.Prog)
		vmu.Lock()
		nvar++
		nsemi += v.Semis
		nswap += v.Swaps
		if nvar == 501 || nvar == 2001 {
			c.Sample(map[string]any{"family": "layout", "name": p.Name, "mode": v.Mode, "original": p.Prog, "variant": string(j.Prog), "observed": c13Obs(r)})
		}
		vmu.Unlock()
	})
	onProgVec := func(raw []byte) {
		var v progVec
		VecDecode(raw, &v)
		if v.P < 1 || v.P > len(progs) {
			infra("bad program index %d", v.P)
		}
		if !usable[v.P-1] {
			return
		}
		stP.Submit(progs[v.P-1].job(symsToBytes(v.Text), string(raw)))
	}
	c.TLC(TLCOpt{Module: "MC_LexProg", Workers: 8, Heap: "6g",
		Cfg: progCfg("InitDet", "NextDet", 0, "Laws", "Vec"), OnVec: onProgVec})
	phase("layouts_systematic")
	var wg sync.WaitGroup
	for s := 0; s < shards; s++ {
		n := 0
		for i := range progs {
			if (i+1)%shards == s {
				n++
			}
		}
		if n == 0 {
			continue
		}
		wg.Add(1)
		go func(s, n int) {
			defer wg.Done()
			defer func() {
				if r := recover(); r != nil {
					vmu.Lock()
					defer vmu.Unlock()
					if c13Panic == nil {
						c13Panic = r
					}
				}
			}()
			c.TLC(TLCOpt{Module: "MC_LexProg", Workers: 1, Heap: "2g", Timeout: 30 * time.Minute,
				Cfg:   progCfg("InitSim", "NextSim", s, "Laws", "Vec"),
				Extra: []string{"-simulate", fmt.Sprintf("num=%d", n*perProg), "-depth", "100000", "-seed", strconv.FormatInt(c.Seed*1000+int64(s), 10)},
				OnVec: onProgVec})
		}(s, n)
	}
	wg.Wait()
	if c13Panic != nil {
		panic(c13Panic)
	}
	stP.Wait()
	for i := range progs {
		if usable[i] && perProgSeen[i] == 0 {
			infra("no layout of corpus program %s was compared", progs[i].Name)
		}
	}

	phase("layouts_random")
	c13Wit.flush(c)
	c.Set("phase_wall_s", phases)
	c.Set("exhaustive", true)
	c.Set("rule", "token level: every text up to MaxLen over {a 1 - . + = SP LF \" '} and {a # \" ' LF SP 1 ;}, every ordered pair (thorough: triple) of universe tokens x gap kind x quote; "+
		"non-trivial = at least two tokens (or an error after a token); strings: every body up to StrLen over {a \\ n t z ' \" SP LF}, non-trivial = contains a backslash; "+
		"string sites: every body up to SiteLen (and a backslash before every other printable byte) in either quote style written at each of 37 sites of the grammar (print list, assignment, += , both sides of + and of comparisons against a document member, ! , if / while condition, && ||, parentheses, "+
		"user-function / printf / method argument, method receiver, return value, array element, object value, for-in subject, the brackets of a subscript that is read / assigned / incremented / += / nested / applied to $ / used to reach a member, match subject / pattern / array pattern / result, subject of ~): "+
		"the denoted bytes are printed or confronted with the same bytes coming from the input document, a for-in key or a variable; a bad escape is a runtime error at every site; "+
		"numbers: every spelling I[.F] with I up to NumInt digits over {0 1 7 8}, F up to NumFrac digits, plus a catalogue of long/special spellings, each in ~16 program positions, non-trivial = the literal is not its own printed form; "+
		"programs: 7 systematic layouts per corpus program (exhaustive) + LayoutsPerProgram random permitted layouts chosen by TLC -simulate (seed = 1000*seed+shard), non-trivial = text differs from the corpus text; distinct by text")
	c.Set("checker_cmd", "tlc MC_Lex / MC_LexPair / MC_LexStr / MC_StrSite / MC_LexProg (BFS + -simulate); replay through Lexer.Next/Regex and lang.EvalProgram")
	c.Set("bounds", map[string]int{"MaxLen": runs[0].maxLen, "MaxArity": arities[len(arities)-1], "StrLen": strLen, "SiteLen": siteLen, "NumInt": numInt, "NumFrac": numFrac, "CorpusPrograms": len(progs),
		"LayoutsPerProgram": perProg + 7, "SimShards": shards})
	for _, k := range []string{"none", "sp", "tab", "cr", "nl", "cmt", "crnl", "semi", "cmteof"} {
		if kindSeen[k] == 0 {
			infra("no compared layout uses gap kind %q", k)
		}
	}
	c.Set("gap_classes_in_corpus", clsSeen)
	c.Set("bracket_contexts_in_corpus", ctxSeen)
	c.Set("layouts_using_gap_kind", kindSeen)
	c.Set("layout_variants", nvar)
	c.Set("semicolons_for_newlines", nsemi)
	c.Set("quotes_swapped", nswap)
	c.Set("statement_separating_newlines_in_corpus", nseps)
}

// ---- numeric literal values

// c13Nearest: the double nearest to an exact decimal (math/big, independent of
// the implementation's number parsing).
func c13Nearest(dec string) float64 {
	r, ok := new(big.Rat).SetString(dec)
	if !ok {
		infra("bad decimal %q", dec)
	}
	f, _ := r.Float64()
	return f
}

// c13Add: IEEE addition of two doubles = the double nearest to the exact sum.
func c13Add(a, b float64) float64 {
	s := new(big.Rat).Add(new(big.Rat).SetFloat64(a), new(big.Rat).SetFloat64(b))
	f, _ := s.Float64()
	return f
}

// jqawk's print format for numbers: shortest positional decimal that reads back as the double
func c13Num(f float64) string { return strconv.FormatFloat(f, 'f', -1, 64) }

type c13NumForm struct{ name, prog, input, out string }

// c13NumForms writes the literal lit (whose value is the exact decimal canon)
// in every position a numeric literal occurs in, with the output the decimal
// reading prescribes.
func c13NumForms(lit, canon string) []c13NumForm {
	v := c13Nearest(canon)
	s := c13Num(v)
	fs := []c13NumForm{
		{"print", "BEGIN { print " + lit + " }", "", s + "\n"},
		{"print-list", "BEGIN { print 'a', " + lit + ", " + lit + " }", "", "a " + s + " " + s + "\n"},
		{"plus-one", "BEGIN { print " + lit + " + 1, 1 + " + lit + " }", "", c13Num(c13Add(v, 1)) + " " + c13Num(c13Add(1, v)) + "\n"},
		{"identity-ops", "BEGIN { print " + lit + " * 1, " + lit + " - 0, " + lit + " / 1 }", "", s + " " + s + " " + s + "\n"},
		{"equals-canonical", "BEGIN { print " + lit + " == " + canon + ", " + canon + " == " + lit + ", " + lit + " != " + canon + " }", "", "true true false\n"},
		{"order-canonical", "BEGIN { print " + lit + " > " + canon + ", " + lit + " < " + canon + ", " + lit + " >= " + canon + ", " + lit + " <= " + canon + " }", "", "false false true true\n"},
		{"assign", "BEGIN { x = " + lit + "\n  print x\n  y = 0; y += " + lit + "; print y }", "", s + "\n" + s + "\n"},
		{"containers", "BEGIN { print [" + lit + "], { a: " + lit + " }, [[" + lit + ", 1]][0][0] }", "", "[" + s + "] {\"a\": " + s + "} " + s + "\n"},
		{"call", "function f(a) { return a }\nfunction g() { return " + lit + " }\nBEGIN { print f(" + lit + "), g() }", "", s + " " + s + "\n"},
		{"match-case", "BEGIN { print match (" + canon + ") { " + lit + " => 'hit', _ => 'miss' }, match (" + lit + ") { " + canon + " => 'hit', _ => 'miss' } }", "", "hit hit\n"},
		{"pattern", lit + " == " + canon + " { print 'y', " + lit + " }", "[1]", "y " + s + "\n"},
		{"condition", "BEGIN { if (" + lit + " == " + canon + ") print 'same'; else print 'different' }", "", "same\n"},
		{"printf", "BEGIN { printf('%f|%s\\n', " + lit + ", 's') }", "", s + "|s\n"},
		{"method", "BEGIN { print (" + lit + ").floor(), (" + lit + ").ceil() }", "", c13Num(math.Floor(v)) + " " + c13Num(math.Ceil(v)) + "\n"},
		{"tight", "BEGIN{print(" + lit + ")+" + lit + "}", "", c13Num(c13Add(v, v)) + "\n"},
	}
	if v != 0 {
		fs = append(fs, c13NumForm{"negated", "BEGIN { print -" + lit + ", 0 - " + lit + " }", "", c13Num(-v) + " " + c13Num(-v) + "\n"})
	}
	if v == math.Trunc(v) && v >= 0 && v <= 12 {
		fs = append(fs,
			c13NumForm{"index", "BEGIN { x = [0, 1, 2, 3, 4, 5, 6, 7, 8, 9, 10, 11, 12]; print x[" + lit + "] }", "", s + "\n"},
			c13NumForm{"index-input", "{ print $[" + lit + "] }", "[[0, 1, 2, 3, 4, 5, 6, 7, 8, 9, 10, 11, 12]]", s + "\n"},
			c13NumForm{"index-assign", "BEGIN { x[" + lit + "] = 'v'; print x.length() }", "", c13Num(v+1) + "\n"})
	}
	if v == math.Trunc(v) && v >= 0 && v < 1e6 {
		fs = append(fs, c13NumForm{"for-bounds", "BEGIN { for (i = " + lit + "; i < " + lit + " + 2; i++) print i }", "", s + "\n" + c13Num(v+1) + "\n"})
	}
	return fs
}

var c13Panic any

// c13Witness keeps, per deviation, the smallest witness seen (so that the
// KNOWN-FINDING line does not depend on the order in which workers answer).
type c13Witness struct {
	mu   sync.Mutex
	best map[string][2]string // dev -> (key, message)
}

func (w *c13Witness) add(dev, key, msg string) {
	w.mu.Lock()
	defer w.mu.Unlock()
	if w.best == nil {
		w.best = map[string][2]string{}
	}
	cur, ok := w.best[dev]
	if !ok || len(key) < len(cur[0]) || (len(key) == len(cur[0]) && key < cur[0]) {
		w.best[dev] = [2]string{key, msg}
	}
}

func (w *c13Witness) flush(c *Ctx) {
	w.mu.Lock()
	defer w.mu.Unlock()
	for dev, b := range w.best {
		c.Known(dev, b[1])
	}
}

var c13Wit c13Witness

func c13ExcerptAt(b []byte, what string) string {
	i := bytes.Index(b, []byte(what))
	if i < 0 {
		i = 0
	}
	lo, hi := i-10, i+len(what)+14
	if lo < 0 {
		lo = 0
	}
	if hi > len(b) {
		hi = len(b)
	}
	return string(b[lo:hi])
}

func c13Excerpt(b []byte) string {
	for i := 0; i+1 < len(b); i++ {
		if b[i] >= '0' && b[i] <= '9' && b[i+1] == '-' {
			lo, hi := i-12, i+12
			if lo < 0 {
				lo = 0
			}
			if hi > len(b) {
				hi = len(b)
			}
			return string(b[lo:hi])
		}
	}
	if len(b) > 40 {
		b = b[:40]
	}
	return string(b)
}

const c13Emp = `[
  { "name": "Beth", "rate": 4, "hours": 0 },
  { "name": "Dan", "rate": 3.75, "hours": 0 },
  { "name": "Kathy", "rate": 4, "hours": 10 },
  { "name": "Mark", "rate": 5, "hours": 20 },
  { "name": "Mary", "rate": 5.50, "hours": 22 },
  { "name": "Susie", "rate": 4.25, "hours": 18 }
]`

const c13Nums = `[2, 7, 3, 12, 87, -3, 0]`

const c13Countries = `[
	["Russia", 8650, 262, "Asia"],
	["Canada", 3852, 24, "North America"],
	["China", 3692, 866, "Asia"],
	["USA", 3615, 219, "North America"],
	["Brazil", 3286, 116, "South America"],
	["Australia", 2968, 14, "Australia"],
	["India", 1269, 637, "Asia"],
	["Argentina", 1072, 26, "South America"],
	["Sudan", 968, 19, "Africa"],
	["Algeria", 920, 18, "Africa"]
]`

// c13Corpus: programs written for this check ("own:") and the programs of
// /repo/jqawk_test.go that parse ("t:", harvested once; inputs as there).
func c13Corpus() []c13Prog {
	return []c13Prog{
		{"own:pay", `BEGIN {
  print 'Pay'
  print '----------------'
}

$.hours > 0 {
  printf("%-8s %f\n", $.name, $.rate * $.hours)
  total += $.rate * $.hours
}

END {
  print '----------------'
  print'Total   ', total
}
`, []string{c13Emp}},
		{"own:table", `BEGIN {
  columns = ['name', 'rate', 'hours']
  rows = []
}

{
  if ($.name != 'Dan') {
    rows.push([$.name, $.rate, $.hours])
  }
}

END {
  # print column headers
  for (col in columns) {
    printf('%-10s ', col)
  }

  # print divider
  printf('\n')
  i = 0
  while (i < 32) {
    printf('-')
    i++
  }
  printf('\n')

  # print rows
  for (row in rows) {
    printf('%-10s %-10f %-10f\n', row[0], row[1], row[2])
  }

  # print footer
  for (i = 0; i < 32; i++) {
    printf('-')
  }
  printf('\n')
}
`, []string{c13Emp}},
		{"own:fib", `function fib(n) {
  if (n < 2) return n
  return fib(n - 1) + fib(n - 2)
}
BEGIN { for (i = 0; i < 10; i++) print i, fib(i) }
`, nil},
		{"own:regex-rules", `$.name ~ /^M/ { print 'M:', $.name }
$.name !~ /a/ { print 'no a:', $.name }
/^S/ ~ 'x' { print 'never' }
END { if ('Kathy' ~ /th/) print 'th' }
`, []string{c13Emp}},
		{"own:regex-start", `/an/ ~ $.name { n++ } END { print n, 10 / 2 / 5, (n) / 1 }`, []string{c13Emp}},
		{"own:kwlike", `BEGIN {
  iffy = 1
  fortune = 2
  printer = iffy + fortune
  BEGINNER = 'b'
  xin = [1, 2]
  nextone = xin[1]
  is_ = printer is number
  _if = null
  inn = 'in'
  elsewhere = true
  print iffy, fortune, printer, BEGINNER, xin, nextone, is_, _if, inn, elsewhere
  for (format in xin) print format
  returned = 5
  print returned
}
`, nil},
		{"own:strings", `BEGIN {
  print "it's # not a comment", 'say "hi"' # a comment with 'quotes"
  print 'a//b', "/* c */", '}{', ";"
  print 'tab\there', "nl\\n", 'back\\slash'
  print "", '', "x" + 'y'
  s = 'multi
line'
  print s, s.length()
}
`, nil},
		{"own:unicode", `# commentaire: é ☃
BEGIN {
  print "héllo wörld ☃", 'naïve'.length()
  x = { 'clé': 1 }
  print x['clé']
}
`, nil},
		{"own:numbers", `BEGIN {
  print 1.5 + 2.25, 10 / 4, 007, 3 * 0.5, 100 % 7
  print 1 - 2 - 3, 2 * 3 + 4, 2 + 3 * 4, (2 + 3) * 4
  x = 10
  print x - 1, x -1, x - -1, -x, - x, +x
  print 3 > 2, 3 >= 3, 2 < 1, 2 <= 2, 1 == 1.0, 1 != 2
}
`, nil},
		{"own:elseif", `{
  if ($ > 10) print "big"
  else if ($ > 5) print "mid"
  else print "small"
}
`, []string{c13Nums}},
		{"own:elseif-braces", `{
  if ($ > 10) {
    size = "big"
  }
  else if ($ > 5)
  {
    size = "mid"
  } else
    size = "small"
  print $, size
}
`, []string{c13Nums}},
		{"own:bare-return", `function f(x) {
  if (x > 2) {
    return
  }
  print 'small', x
}
function g(x) {
  if (x > 2) return
  print 'g', x
}
{ f($); g($) }
`, []string{`[1, 2, 3, 4]`}},
		{"own:bare-print", `$ > 2 {
  print
  count++
}
$ < 2 { print
  print }
END {
  print
  print count
}
`, []string{`[1, 2, 3, 4]`}},
		{"own:match-kinds", `{
  kind = match ($) {
    [x] => 'single ' + x,
    [x, y] => {
      print 'pair'
      x + y
    },
    _ => '?'
  }
  print kind
}
`, []string{`[["a"], [1, 2], [1, 2, 3]]`}},
		{"own:match-scalars", `{ print match ($) { 1 => 'one', 2, 3 => 'few', _ => "many" } }
END {
  r = match ('b') { 'a' => 1
    'b' => 2 }
  print r
}
`, []string{`[1, 2, 3, 9]`}},
		{"own:match-nested", `function classify(v) {
  return match (v) {
    [1, rest] => match (rest) {
      [a, b] => a * b,
      _ => 0
    },
    _ => -1
  }
}
{ print classify($) }
`, []string{`[[1, [2, 3]], [1, 5], [2, [3, 4]]]`}},
		{"own:match-stmt", `{
  match ($.name) {
    'Beth' => { print 'hello Beth' }
    'Dan' => print_it = 1
    _ => { others++ }
  }
}
END { print print_it, others }
`, []string{c13Emp}},
		{"own:loops", `BEGIN {
  i = 0
  while (true) {
    i++
    if (i % 2 == 0) continue
    if (i > 7) break
    print i
  }
  for (j = 10; j > 0; j -= 3) print j
  for (c, k in 'abc') print k, c
  for (v in [3, 2, 1]) {
    for (w in [v]) print v * w
  }
}
`, nil},
		{"own:arrays", `BEGIN {
  a = [5, 3, 9]
  a.push(1)
  print a, a.length(), a[0], a[-1], a.contains(9), a.contains(7)
  print a.sort(), a.pop(), a.popfirst(), a
  b = [[1, 2], [3, [4, 5]]]
  print b[1][1][0], b[0].length()
  b[0][0] = 'x'
  print b
}
`, nil},
		{"own:objects", `BEGIN {
  o = { name: 'n', 'q': [1, { z: 2 }] }
  print o.name, o['name'], o.q[1].z, o.length()
  o.q[1].z += 5
  print o.q[1].z
  p = {}
  p.k = 1
  print p, json(p), json([1, 'a', null, true])
  print { only: 1 }.only
}
`, nil},
		{"own:multiline-expr", `function total(a, b,
               c) {
  return a +
    b +
    c
}
BEGIN {
  x = [1,
       2,
       3]
  y = {
    a: 1
  }
  printf("%f %f %f\n",
    x[0],
    y.a,
    total(1, 2,
      3))
  z = 'abc'
    .upper()
    .lower()
  print z
  w = 1 +
      2
  print w
}
`, nil},
		{"own:methods", `{
  n = $.name
  print n.upper(), n.lower(), n.length(), n.split('a')
  print $.rate.floor(), $.rate.ceil(), $.rate.round(), num('4') + 1
  print $.pluck('name')
}
`, []string{c13Emp}},
		{"own:index-file", `BEGINFILE { print 'start', $file }
{ print $index, $file, $ }
ENDFILE { print 'end', $file }
`, []string{`[10, 20]`, `[30]`}},
		{"own:is", `{
  if ($ is string) print 'string'
  if ($ is number) print 'number'
  if ($ is array) print 'array'
  if ($ is null) print 'null'
  if ($ is bool) print 'bool'
}
`, []string{`["s", 1, [1], null, true]`}},
		{"own:compound", `BEGIN { p = 1; d = 64 }
{ s += $; p *= $; d /= $; m -= $ }
END { print s, p, d, m }
`, []string{`[2, 4]`}},
		{"own:incdec", `BEGIN {
  i = 5
  print i++, i, ++i, i, i--, i, --i, i
  a[0]++; ++o.k
  print a, o
}
`, nil},
		{"own:logic", `{
  if ($.hours > 0 && $.rate >= 4 || $.name == 'Dan') print $.name
  if (!($.hours > 0) && !!$.rate) print 'idle', $.name
}
`, []string{c13Emp}},
		{"own:exit-next", `$ == 2 { next }
$ == 4 { exit }
{ print $ }
END { print 'end' }
`, []string{`[1, 2, 3, 4, 5]`}},
		{"own:reroot", `BEGINFILE { $ = $.result }
{ print $.name }
`, []string{`{ "status": "success", "result": [ { "name": "alligator" }, { "name": "someone else" } ] }`}},
		{"own:modify", `{ $.name_length = $.name.length() }
$.rate > 4 { $.rich = true }
`, []string{c13Emp}},
		{"own:modify-pluck", `{ $ = $.pluck('name', 'rate') }`, []string{c13Emp}},
		{"own:runtime-error", `BEGIN {
  print 'before'
  x = 0
  print 1 / x
  print 'after'
}
`, nil},
		{"own:bad-escape", `BEGIN { print 'ok'; print 'bad\qescape'; print 'unreached' }`, nil},
		{"own:unknown-func", `{ print $; nosuch($) }`, []string{`[1, 2]`}},
		{"own:semis", `BEGIN { a = 1; b = 2; print a + b; }
{ x = $; y = x * 2; print x, y }
`, []string{`[1, 2]`}},
		{"own:comments", `# leading comment
BEGIN { # after brace
  x = 1 # after statement
  # a comment line with "quotes' and { braces
  print x # last
} # after rule
# trailing comment`, nil},
		{"own:oneline", `$.language != null { langs[$.language]++ } END { for (k, v in langs) print v, k }`, []string{`[{"language": "Go"}, {"language": null}, {"language": "Go"}]`}},
		{"own:max", `$.size > max.size { max = $ } END { print max.name }`, []string{`[{"name": "a", "size": 3}, {"name": "b", "size": 9}, {"name": "c", "size": 4}]`}},
		{"own:years", `{ years[$.created_at.split('-')[0]]++ } END { for (k, v in years) print v, k }`, []string{`[{"created_at": "2020-01-02"}, {"created_at": "2020-05-06"}]`}},
		{"own:deep-blocks", `function walk(v, depth) {
  if (v is array) {
    for (item in v) {
      if (item is array) {
        walk(item, depth + 1)
      } else {
        if (depth > 1) {
          print depth, item
        } else print 'top', item
      }
    }
  }
}
{ walk($, 1) }
`, []string{`[[1, [2, [3]]]]`}},
		{"own:call-chain", `function id(x) { return x }
function mk() { return [[1, 2], [3, 4]] }
BEGIN {
  print id(id(3)), mk()[1][0], id(mk())[0].length(), id('s').upper()
  print (id)(4), [id(1), id(2)][1]
}
`, nil},
		{"own:return-values", `function a() { return [1, 2] }
function b() { return { k: 'v' } }
function c() { return 'a' + 'b' }
function d() { return -1 }
function e() { return !true }
function f() { return (1 + 2) * 3 }
function g() { return /x/ }
BEGIN { print a(), b(), c(), d(), e(), f(), 'x' ~ g() }
`, nil},
		{"own:print-forms", `BEGIN {
  print (1 + 2) * 3
  print [1, 2], { a: 1 }
  print -1, !true, +2
  print 'a', 'b',
    'c'
  print match (1) { 1 => 'm' }, 2
  print /re/ is regex
}
`, nil},
		{"own:printf-forms", `{
  printf('%f|%6f|%-6f|%06f\n', $, $, $, $)
  printf('%s|%5s|%-5s|\n', 'ab', 'ab', 'ab')
  printf("plain\n")
  printf('%s %s\n', 'two', "args")
}
`, []string{`[1, 2.5]`}},
		{"own:truthy", `{
  if ($) print 'truthy', $
  else print 'falsy', $
  print !$, !!$
}
`, []string{`[0, 1, "", "a", [], [0], null, true, false]`}},
		{"own:var-scope", `function setg() { g = 'global' }
function loc(p) { p = 'changed'; return p }
BEGIN {
  setg()
  q = 'orig'
  print g, loc(q), q
}
`, nil},
		{"own:empty-bodies", `BEGIN {}
function nothing() {}
{ }
$ > 1 { x = 1; }
END { nothing(); print 'done' }
`, []string{`[1, 2]`}},
		{"own:nested-block", `BEGIN {
  { print 'inner' }
  x = 1; { print x }
  if (x) { } { print 'after' }
}
`, nil},
		{"own:dollar-names", `{ print $index + 1, $ * 2, $file }
END { print $ }
`, []string{`[5, 6]`}},
		{"own:jsonl", `{ total += $.n } END { print total }`, []string{`{"n": 1} {"n": 2}
{"n": 3}`}},
		{"own:cr-original", "BEGIN {\r\n  x = 1\r\n  print x\r\n}\r\n", nil},
		{"own:tabs-original", "BEGIN\t{\tx\t=\t2\n\tprint\tx\t,\tx\t*\t2\n}", nil},
		{"t:advent of code example", `
			BEGIN {
				part1 = 0
			}

			{
				chars = []
				for (c in $.split("")) {
					if (c ~ "[0-9]") {
						chars.push(c)
					}
				}
				part1 += num(chars[0] + chars[-1])
			}

			END {
				print "part 1:", part1
			}
		`, []string{`["1abc2", "pqr3stu8vwx", "a1b2c3d4e5f", "treb7uchet"]`}},
		{"t:begin", `BEGIN { print 'hello' } BEGIN { print 'other hello' }`, []string{}},
		{"t:comments", `BEGIN { print 'hello' } # prints hello
# goodbye`, []string{}},
		{"t:operators", `BEGIN {
			print 2 + 3
			print 2 - 3
			print 2 * 3
			print 6 / 3
			print 6 / 2 - 1 * 3
			print 4 % 3
			print '';

			print 3 < 4;
			print 3 <= 3;
			print 3 > 2;
			print 3 >= 3;
			print '';

			print false && true;
			print false || true;
			print '';
			
			obj = { a: 1 }
			print !obj.a
			print -obj.a + 2
			print -(obj.a + 2)
		}`, []string{}},
		{"t:pre/postfix operators", `BEGIN {
			for (i = 0; i < 4; i++) {
				print a++, b--, b--, ++c, --d, --d;
			}
		}`, []string{}},
		{"t:compound operators", `
		BEGIN {
			prod = 1;
			div = 8;
			sub = 16
		}

		{
			sum += $;
			prod *= $;
		}

		$ > 3 {
			div /= $;
			sub -= $;
		}

		END {
			print sum;
			print prod;
			print div;
			print sub;
		}`, []string{`[2, 3, 4]`}},
		{"t:unary operators", `BEGIN {
			print !false, !true;
			n = -3
			p = 3
			print +n, -p;
		}`, []string{}},
		{"t:dot", `{ print $.name }`, []string{`[{ "name": "gate" }, { "name": "sponge" }]`}},
		{"t:subscript", `{ print $['name'] }`, []string{`[{ "name": "gate" }, { "name": "sponge" }]`}},
		{"t:subscript array", `{ print $[0] }`, []string{`[[1, 2], [10, 20], [100, 200]]`}},
		{"t:subscript array negative index", `{ print $[-1] }`, []string{`[[1, 2], [10, 20], [100, 200]]`}},
		{"t:subscript array with string", `{ A = []; A.A = 2; }`, []string{`[1]`}},
		{"t:unknown variable comparison", `$ > max { max = $ } $ < min { min = $ } END { print min, max }`, []string{`[1, 2, 3, 4, 3, 2, 1]`}},
		{"t:semicolon statement separator", `{ print 'a'; print 'b' }`, []string{`[1]`}},
		{"t:pretty print", `{ print }`, []string{`[[1, 2], { "name": "alligator" }]`}},
		{"t:string concatenation", `{ print 'name: ' + $.name, 'age: ' + $.age }`, []string{`[{ "name": "gate", "age": 1 }, { "name": "sponge", "age": 2 }]`}},
		{"t:printf", `
		{
			printf('name: %s\nage: %f\n', $.name, $.age)
			printf('string lpad: %10s %1s\n', $.name, $.name)
			printf('string rpad: %-10s %-1s\n', $.name, $.name)
			printf(' float lpad: %6f %06f\n', $.age, $.age)
		}`, []string{`[{ "name": "gate", "age": 1 }, { "name": "sponge", "age": 2.300 }]`}},
		{"t:equal, not equal", `
			$.name == 'gate' { print 'eq', $.name }
			$.name != 'gate' { print 'neq', $.name }
		`, []string{`[{ "name": "gate", "age": 1 }, { "name": "sponge", "age": 2.300 }]`}},
		{"t:regex match, not match", `
			$.name ~ 'gate' { print 'eq', $.name }
			$.name !~ 'gate' { print 'neq', $.name }
		`, []string{`[{ "name": "gate", "age": 1 }, { "name": "sponge", "age": 2.300 }]`}},
		{"t:order of operations", `$.age + 1 > 2 { print $.name }`, []string{`[{ "name": "gate", "age": 1 }, { "name": "sponge", "age": 2.300 }]`}},
		{"t:functions", `
			function add(a, b) {
				return a + b;
			}

			function empty_return(a, b) {
				print a;
				return;
				print b;
			}

			function log(a) { print a }

			BEGIN {
				print add(3, 4);
				log("hello");
				empty_return(5, 6);
			}
		`, []string{`[]`}},
		{"t:if", `
			{
				if ($ > 5) {
					print $;
				}
			}
		`, []string{`[2, 7, 3, 12, 87, -3, 0]`}},
		{"t:else", `
			{
				if ($ > 5) {
					print $;
				} else {
					printf("%f <= 5\n", $);
				}
			}
		`, []string{`[2, 7, 3, 12, 87, -3, 0]`}},
		{"t:root object", `{ printf('%s
', $.name) }`, []string{`{ "name": "alligator" }`}},
		{"t:root number", `{ print }`, []string{`45.67`}},
		{"t:while", `
			BEGIN {
				i = 0;
				while (i < 3) {
					print i;
					i += 1;
				}
			}
		`, []string{`[]`}},
		{"t:for", `
			BEGIN {
				for (i = 0; i < 5; i += 1) {
					print i;
				}
			}
		`, []string{`[]`}},
		{"t:for in", `
			{
				for (x in $) {
					print x;
				}

				for (x, i in $) {
					print i, x;
				}
			}

			END {
				for (c, i in 'bye') {
					print i, c;
				}
			}
		`, []string{`[[1, 2], [3, 4]]`}},
		{"t:for in object", `
			{
				for (k, v in $) {
					print k, v;
				}
			}
		`, []string{`{ "a": 1 }`}},
		{"t:match", `
			{
				print match ($) {
					1 => 'one',
					2 => 'two',
					_ => '?',
				}

				match ($) {
					2 => {
						print '2'
					}
				}
			}
		`, []string{`[1, 2, 3, 4]`}},
		{"t:match array", `
			{
				print match ($) {
					[1, x] => x * 2,
					[2, x] => x + 10,
				}
			}
		`, []string{`[[1, 1], [1, 2], [2, 1]]`}},
		{"t:match nested array", `
			{
				print match ($) {
					[x, [2, y]] => y,
					[x, [5, y]] => x,
				}
			}
		`, []string{`[[1, [2, 3]], [4, [5, 6]]]`}},
		{"t:length methods", `{ print $.obj.length(), $.array.length(); }`, []string{`[{ "obj": { "key1": 1, "key2": 2 }, "array": [1, 2, 3, 4] }]`}},
		{"t:implicit object creation", `BEGIN { new_obj.name = 'hi'; print new_obj.name; }`, []string{`[]`}},
		{"t:optional chaining", `{ print $.a.b.c.d.e }`, []string{`[{ "a": 1 }]`}},
		{"t:deep implicit object creation", `BEGIN { new_obj.a.b.c = 'hi'; print new_obj; }`, []string{`[]`}},
		{"t:implicit array creation", `BEGIN { a[0] = 1; a[2] = 'hello'; print a; }`, []string{`[]`}},
		{"t:deep implicit array creation", `BEGIN { a[0][0] = 1; a[2][1] = 2; print a; }`, []string{`[]`}},
		{"t:implicit object-in-array creation", `BEGIN { a[0]['a'] = 1; a[2]['b'] = 'hello'; print a; }`, []string{`[]`}},
		{"t:groupings", `BEGIN { print (1 + 2) * 3; }`, []string{`[]`}},
		{"t:array literal", `
			BEGIN {
				x = [];
				y = [1, 2, 3];
				print x, y;
			}
		`, []string{`[]`}},
		{"t:object literal", `
			BEGIN {
				x = { a: 1, 'b': '2' };
				print x.a, x.b;
			}
		`, []string{`[]`}},
		{"t:break", `
			BEGIN {
				for (i = 0; i < 10; i++) {
					print i;
					if (i > 2) {
						break;
					}
				}
			}
		`, []string{`[]`}},
		{"t:continue", `
			BEGIN {
				for (i = 0; i < 4; i++) {
					if (i == 2) {
						continue;
					}
					print i;
				}
			}
		`, []string{`[]`}},
		{"t:next", `{ print $; next } { print $ }`, []string{`[1, 2, 3, 4]`}},
		{"t:printing circular references", `BEGIN { a.a=a; print a; b = []; b[0] = 1; b[1] = b; print b; }`, []string{`[]`}},
		{"t:converting circular references to JSON", `BEGIN { a.a=a; print json(a) }`, []string{`[]`}},
		{"t:string methods", `
			BEGIN {
				print "aBc".upper()
				print "aBc".lower()
				print "aBc".split("B")
			}
		`, []string{`[]`}},
		{"t:pluck", `{ print $.pluck('a') }`, []string{`[{ "a": 1, "b": 2}]`}},
		{"t:exit", `{ print $; exit }`, []string{`[1, 2]`}},
		{"t:null comparison", `
			$.a == null { print 'lhs null' }
			$.a != null { print 'lhs not null' }

			null == $.a { print 'rhs null' }
			null != $.a { print 'rhs not null' }

			END {
				if (null > 0) print 'oh no'
				if (0 < null) print 'oh no'
			}
		`, []string{`[{ "a": null }, { "a": "not null" }, { "a": 1 }]`}},
		{"t:multiple inputs", `{ print $.a }`, []string{`[{ "a": 1 }]`, `[{ "a": 2 }]`}},
		{"t:$file", `{ print $file, $.a }`, []string{`[{ "a": 1 }]`, `[{ "a": 2 }]`}},
		{"t:truthiness", `BEGIN { print !![], !!{} }`, []string{`[]`}},
		{"t:BEGIN and END with multiple inputs", `BEGIN { print 'hi' } END { print 'bye' }`, []string{`[{ "a": 1 }]`, `[{ "a": 2 }]`}},
		{"t:floating point", `BEGIN { print 0.2 + 0.3 + num('1.0') }`, []string{}},
		{"t:is operator", `
			function fn() {}

			{
				if ($ is string) print 'string';
				if ($ is bool) 	 print 'bool';
				if ($ is number) print 'number';
				if ($ is array)  print 'array';
				if ($ is object) print 'object';
				if ($ is null)   print 'null';
			}

			END {
				if (fn is function) print 'function';
				if (/123/ is regex) print 'regex';
				if (x is unknown)   print 'unknown';
			}
		`, []string{`["1", false, 2, [3], { "n": 4 }, null]`}},
		{"t:array sort", `
			BEGIN {
				a = [4, 5, 3, 1, 2];
				b = ['clown', {a: 1}, 'bee', [1], 'dog'];
				print a.sort();  # numbers
				print b.sort();  # strings and other things
				print a;         # original array is unmodified
			}
		`, []string{`[]`}},
		{"t:beginfile endfile", `
			BEGIN { print 'begin', $ }
			BEGINFILE { print 'beginfile', $ }
			ENDFILE { print 'endfile', $ }
			END { print 'end', $ }
		`, []string{`123`, `456`}},
		{"t:$ is the root value in endfile", `
			BEGINFILE { $ = $.stuff }
			{ print $ }
			ENDFILE { print $ }
		`, []string{`{ "stuff": [1, 2, 3] }`}},
		{"t:num methods", `
			BEGIN {
				a = 2.5
				print a.floor()
				print a.ceil()
				print a.round()
				print (3.5).round()
			}
		`, []string{`[]`}},
		{"t:jsonl", `{ print $ }`, []string{`[1, 2]
[3, 4]`}},
		{"t:escape chars", `BEGIN { print 'one\ntwo\tthree\\four' }`, []string{`[]`}},
		{"t:invalid escape chars", `BEGIN { print '\z' }`, []string{`[]`}},
		{"t:bug: statement after block", `
			{
				if ($ > 10) {
					print $;
				}
				print "after if";
			}
		`, []string{`[2, 12, 87 ,0]`}},
		{"t:bug: nested return", `
			function add_while(a, b) {
				while (true) {
					return a + b;
				}
			}

			function add_for(a, b) {
				for (i = 0; i < 5; i++) {
					return a + b;
				}
			}

			function add_for_in(a, b) {
				for (x in [1, 2, 3]) {
					return a + b;
				}
			}

			function add_if(a, b) {
				if (true) {
					return a + b;
				}
			}

			function add_else(a, b) {
				if (false) {
					return 0;
				} else {
					return a + b;
				}
			}

			BEGIN {
				print add_while(1, 2);
				print add_for(3, 4);
				print add_for_in(5, 6);
				print add_if(7, 8);
				print add_if(9, 10);
			}
		`, []string{`[]`}},
		{"t:bug: unary precedence", `BEGIN { print -1 + 2; }`, []string{`[]`}},
		{"t:bug: !! precedence", `{ print !!$[0] }`, []string{`[[0], [1]]`}},
		{"t:bug: divide by 0", `BEGIN { print 0 / 0 }`, []string{`[]`}},
		{"t:bug: modulo by 0", `BEGIN { print 0 % 0 }`, []string{`[]`}},
		{"t:bug: null comparison", `BEGIN { a = []; print a == null }`, []string{`[]`}},
		{"t:bug: create implicit arrays/objects with ++", `BEGIN { a[0]++; ++b['zero']; print a, b }`, []string{`[]`}},
		{"t:bug: pushing arrays to arrays", `
			BEGIN { a = [] }
			{ a.push($) }
			END {
				b = []
				for (v in a) {
					b.push([v])
				}
				print b
			}
		`, []string{`[1, 2, 3]`}},
		{"t:p1", `{ print }`, []string{`[1, 2, 3]`}},
		{"t:p2", `{ print $[0], $[2] }`, []string{`[[1, 2, 3], [10, 20, 30]]`}},
		{"t:p4", `{ print $index, $ }`, []string{`[2, 4, 6, 8]`}},
		{"t:p7", `$ > 100`, []string{`[1, 2, 300, 400, 5]`}},
		{"t:p8", `$[3] == 'Asia' { print $[0] }`, []string{c13Countries}},
		{"t:p9", `$[0] >= 'S' { print $[0] }`, []string{c13Countries}},
		{"t:p10", `$[0] == $[3] { print $[0] }`, []string{c13Countries}},
		{"t:p11", `$[3] ~ /Asia/ { print $[0] }`, []string{c13Countries}},
		{"t:p13", `$[3] !~ /Asia/ { print $[0] }`, []string{c13Countries}},
		{"t:p19", `
			BEGIN { digits = "^[0-9]+$" }
			$[1] !~ digits
		`, []string{c13Countries}},
		{"t:p20", `$[3] == 'Asia' && $[2] > 500 { print $[0] }`, []string{c13Countries}},
		{"t:p21", `$[3] == 'Asia' || $[3] == 'Europe' { print $[0] }`, []string{c13Countries}},
	}
}
