#!/usr/bin/env python3
"""importseed.py <srcdir> <seed-id> <property> <caught_by> <needs...>: copies a confirmed seeded change into /verif/seeded/<id>/ with meta.json"""
import sys, os, shutil, json
src, sid, prop, caught = sys.argv[1:5]
needs = " ".join(sys.argv[5:])
dst = "/verif/seeded/" + sid
os.makedirs(dst, exist_ok=True)
for f in ("patch.diff", "demo.sh", "notes.md"):
    if os.path.exists(os.path.join(src, f)):
        shutil.copy(os.path.join(src, f), os.path.join(dst, f))
meta = {"property": prop, "breaks": prop, "needs_to_manifest": needs,
        "confirmed": "tools/seedtest.sh: patch applies to /repo HEAD, go build ok, go test ./... passes with it, demo.sh exits non-zero with the change and 0 without",
        "ran": "VERIF_REPO=<scratch copy with the patch> ./check %s --tier quick" % prop,
        "caught_by": caught}
json.dump(meta, open(os.path.join(dst, "meta.json"), "w"), indent=1)
print("imported", dst)
