#!/bin/bash
# usage: coredbg.sh <replay.json>: re-executes the AST of a core-program replay on JqCore and prints the model's output
R=$1
D=$(mktemp -d /tmp/coredbg.XXXXXX)
cp /verif/spec/*.tla $D/
python3 - "$R" "$D" <<'PY'
import json,sys
d=json.load(open(sys.argv[1])); c=d['case']
if isinstance(c,str): c=json.loads(c)
lines=[l for l in c['got_stdout'].split('\n')]
if lines and lines[-1]=='': lines=lines[:-1]
open(sys.argv[2]+'/coretraces.ndjson','w').write(json.dumps({"prog":c['ast'],"out":lines,"outcome":c['got_class']})+'\n')
PY
printf 'INIT TInit\nNEXT TNext\nCONSTANTS\nCoreCallLimit = 4096\nCoreFuel = 12000\nINVARIANTS ReportOut\nCHECK_DEADLOCK FALSE\n' > $D/Trace_Core.cfg
(cd $D && timeout 300 java -Xss256m -cp /opt/veriftools/tla/tla2tools.jar:/opt/veriftools/tla/CommunityModules-deps.jar tlc2.TLC -metadir $D/md -workers 1 Trace_Core.tla 2>&1 | grep -A60 "MODELOUT\|Error" | head -90)
rm -rf $D
