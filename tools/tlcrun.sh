#!/bin/bash
# dev helper: tools/tlcrun.sh <Module> '<cfg text with \n>' [tlc args...]; runs TLC in a scratch copy of spec/
M=$1; CFG=$2; shift 2
D=$(mktemp -d /tmp/tlcrun.XXXXXX)
cp /verif/spec/*.tla "$D"/
printf "$CFG" > "$D/$M.cfg"
(cd "$D" && timeout ${TLC_TIMEOUT:-600} java -XX:+UseParallelGC -Xmx${TLC_HEAP:-12g} -Xss256m -cp /opt/veriftools/tla/tla2tools.jar:/opt/veriftools/tla/CommunityModules-deps.jar tlc2.TLC -metadir "$D/md" -workers ${TLC_WORKERS:-16} "$@" "$M.tla" 2>&1 | grep -v '^Linting\|^Semantic\|^Parsing\|^Warning: Please run\|^(Use the')
rm -rf "$D"
