#!/bin/bash
# tools/seedtest.sh <dir with patch.diff [demo.sh]> <Cxx> [tier]
# Applies the seeded change to a scratch copy of /repo, confirms it compiles, passes the repository's
# tests, that the demonstration fails with it and passes without it, then runs the check against it.
# Prints one summary line; exit 0 iff the check caught it (exit 1 of ./check).
export GOFLAGS=-mod=mod GOPROXY=off GOSUMDB=off GOTOOLCHAIN=local
S=$1; P=$2; TIER=${3:-quick}
D=$(mktemp -d /tmp/seedtest.XXXXXX); B=$(mktemp -d /tmp/seedbase.XXXXXX)
trap 'rm -rf "$D" "$B"' EXIT
cp -r /repo/. "$D"/ ; cp -r /repo/. "$B"/
if ! git -C "$D" apply "$S/patch.diff" 2>/tmp/seedtest.err; then echo "SEED $S: patch does not apply: $(head -2 /tmp/seedtest.err)"; exit 3; fi
(cd "$D" && go build ./... ) >/dev/null 2>&1 || { echo "SEED $S: does not compile"; exit 3; }
T=$(cd "$D" && go test -vet=off -count=1 ./... 2>&1 | tail -1)
case "$T" in ok*) tests=pass;; *) tests=FAIL;; esac
demo=none
if [ -f "$S/demo.sh" ]; then
  bash "$S/demo.sh" "$D" >/dev/null 2>&1; a=$?
  bash "$S/demo.sh" "$B" >/dev/null 2>&1; b=$?
  demo="with=$a,without=$b"
fi
rm -f "$D/jqawk" "$B/jqawk"
out=$(VERIF_REPO="$D" /verif/check $P --tier $TIER 2>&1); rc=$?
first=$(echo "$out" | grep -m1 '^VIOLATION' | sed 's/.*replay=//')
echo "SEED $S property=$P tests=$tests demo=$demo check_exit=$rc first_replay=$(basename "$first" 2>/dev/null)"
[ $rc -eq 1 ]
