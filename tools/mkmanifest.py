#!/usr/bin/env python3
"""Regenerates /verif/MANIFEST.json from the table below (one source of truth)."""
import json, subprocess
CHECKS = {
 "C12": dict(cat="model_checking", ref="5 (C12), 4.1",
   text="TLC enumerates every text <= N bytes over a 6-byte alphabet x every offset (JqText laws checked on the spec) and every positioned multi-line program (fillers x fault catalogue x fillers); every behaviour is replayed into Lexer.GetLineAndCol / lang.EvalProgram and the reported (line, column, source line) compared with the spec's. Exhaustive within the bounds; the right level because the property is a pure function of (text, offset).",
   note="Trusts TLC and the JqText module as the definition of line/column; alphabet and catalogue bounds as listed in evidence; offsets at a newline / end of text only checked for consistency.",
   tech="TLA+ functional spec (JqText) enumerated by TLC; behaviours replayed into the real lexer/evaluator"),
 "C07": dict(cat="model_checking", ref="5 (C07), 4.7",
   text="The statement-level abstract machine JqEval (frames, control stack, signals, one action per critical section of evaluator.go) is explored by TLC over every statement tree up to N nodes x every condition-outcome sequence; invariants (FrameBalance, NoEscape, SigConsumed, ...) and action properties are checked in every state; every terminated behaviour is rendered to a program (two renderings: all braces / minimal braces) and replayed on lang.EvalProgram, comparing the label trace line by line. Exhaustive within the bounds.",
   note="Trusts TLC and the JqEval transcription of the documented control-flow semantics; bounds (nodes, fuel) as in evidence; object key order only required to be deterministic.",
   tech="TLA+ transition system (JqEval) model-checked by TLC; every behaviour replayed into the real evaluator"),
 "C08": dict(cat="model_checking", ref="5 (C08), 4.7",
   text="TLC explores call configurations on the JqEval machine (parameter binding, locals, globals, every form of return, recursion, mutual recursion, next/exit/fault inside callees, match frames) checking FrameBalance, BaseAtRuleStart, ScopeExit, DepthBounded in every state; each behaviour is replayed on the real code comparing printed values, outcome, and the frame depth (Push/Pop hooks) at which every output line is written; a sample is re-run over thousands of elements (history length).",
   note="Trusts TLC and JqEval; dynamic-scoping captures are enumerated but not compared (statement silent); bounds as in evidence.",
   tech="TLA+ transition system (JqEval frames/scopes) model-checked by TLC; behaviours replayed with frame-depth hooks; long-history replays"),
 "C01": dict(cat="model_checking", ref="5 (C01), 4.7",
   text="A: TLC explores every placement (7 rule contexts incl. pattern expression and root selector x wrapper nests x next/exit/return/break/continue/fault) on the JqEval machine, checking NoEscape/SigConsumed/FrameBalance in every state; each placement runs through the library (outcome and output must be one the model allows) and the binary (exit status, stderr, no crash). B: thousands of seeded random programs (grammatical, mutated, arbitrary bytes) x selectors x inputs are executed with hooks on; the recorded event traces are validated by TLC against the protocol spec JqProto (legal outcome, frame discipline, signal consumption); a sample also through the binary.",
   note="Trusts TLC, JqEval/JqProto; random coverage is sampling, not exhaustive; budget/timeouts are inconclusive.",
   tech="TLA+ model checking of signal placements + trace validation of recorded executions against a TLA+ protocol spec"),
 "C11": dict(cat="model_checking", ref="5 (C11), 4.7",
   text="Syntax half: TLC shows (MC_Splice) that every splice of the catalogue at every token boundary of every host violates a necessary condition of the grammar (hosts satisfy all of them); each spliced program must end in a syntax error with no output (library, two layouts, and a sample through the binary). Runtime half: TLC explores fault-injected statement trees on the JqEval machine (StopFreezesOutput, NoEscape, ... in every state); each behaviour is instantiated with fault kinds x syntactic slot shapes and replayed: outcome runtime, output exactly the statements executed before the fault.",
   note="Trusts TLC, JqEval and the necessary-condition recognisers of MC_Splice; fault kinds/shapes are a finite catalogue; messages not compared.",
   tech="TLA+ model checking (fault propagation on JqEval; grammar necessary conditions) + behaviour replay"),
 "C20": dict(cat="model_checking", ref="5 (C20), 4.7",
   text="Design level: TLC explores runaway recursion of every shape (direct, mutual, through match block / expression bodies) from every start context on the JqEval machine with stand-in limits, checking DepthBounded, RefusedAsRuntimeError, StopFreezesOutput in every state; the behaviours are replayed modulo the repetition count. Implementation level: boundary programs (recursion depths, fill indices, printf widths, JSON nesting around the limits; after thousands of completed calls) run in isolated subprocesses; the recorded successes/refusals (frame depths from the Push/Refuse hooks) are validated by TLC against Trace_Limits, whose limit constants are unlogged ranges: one consistent value per limit must exist.",
   note="Trusts TLC; limits only constrained to the magnitudes the statement gives; memory exhaustion is observed as a subprocess crash (violation), timeouts are inconclusive.",
   tech="TLA+ model checking of the refusal design + TLC validation of recorded boundary observations with unlogged limit constants"),
 "C10": dict(cat="model_checking", ref="5 (C10), 4.10",
   text="JqProc specifies a run as a function of its key with no process-level state (TLC checks Deterministic / NoProcessState on the design). A history driver executes hundreds of keys (object printing/iterating programs, polluters of process-level state, method-using victims, random programs) several times at random positions in long-lived processes and in fresh processes; the recorded run history is validated by TLC against JqProc (trace validation): equal keys must always show equal observations. Open deviations are re-checked explicitly (named in KNOWN_FINDINGS.txt).",
   note="Sampling over keys and orders (seeded); observation = stdout + JSON output + outcome class.",
   tech="TLA+ spec of run determinism; TLC trace validation of recorded multi-run histories"),
 "C05": dict(cat="model_checking", ref="5 (C05), 3, 4.4",
   text="JqValue.tla transcribes the operator tables of DESIGN section 3 (exact dyadic rationals, byte strings); TLC enumerates every operator x every ordered pair of a 37-value universe (all kinds and boundary values), checks the algebraic laws of section 3.4 and that errors occur exactly on the marked cells, and emits every cell; each cell is replayed as one-line programs in five operand renderings (literal, variable, document field, shared variable, marker functions showing evaluation order / short circuit). Seeded instantiation extends value classes.",
   note="Trusts TLC and the section 3 tables; != <= >= on unset operands, non-finite results, the RE2 engine are not compared; seeded values use a Go port of the table that is cross-checked against the spec on every cell.",
   tech="TLC-enumerated operator tables (JqValue) replayed as one-line programs on lang.EvalProgram"),
 "C16": dict(cat="model_checking", ref="5 (C16), 4.4",
   text="MC_Methods: TLC checks the algebraic laws of split/join, upper/lower, length, floor/ceil/round, pluck (fresh object, exact keys), num() over complete small domains and emits every case; each is replayed as a program and compared with the model's value; calls outside the contract must end ok or with a runtime error; seeded instantiation checks the laws on arbitrary UTF-8 strings and random doubles.",
   note="Trusts TLC and JqValue; non-ASCII case mapping, overlapping-separator decompositions, num() of a number are law-only or not compared.",
   tech="TLC-checked method laws over complete small domains, every case replayed on lang.EvalProgram"),
 "C06": dict(cat="model_checking", ref="5 (C06), 3.9, 4.3",
   text="JqParse.tla is the intended Pratt parser (precedence table of DESIGN 3.9); TLC enumerates every operator, all ordered pairs and triples of the 21 binary operators in every grouping, prefix/suffix placements, parenthesised overrides and sampled 4-operator sequences, checks the round-trip laws (parse(Render(t)) = t, parse(FullParen(t)) = t, no removable parenthesis), and emits each tree; each is replayed on the real parser (S-expression hook: tree conformance) and evaluator (hook-free: print of the minimal text vs the fully parenthesised text with discriminating operands).",
   note="Trusts TLC and the 3.9 table; ++/-- ranking, layout and 4+ operator sequences beyond the sample are not claimed.",
   tech="TLA+ Pratt-parser model; TLC-enumerated trees replayed on the real parser (tree hook) and evaluator (differential)"),
 "C18": dict(cat="model_checking", ref="5 (C18), 4.11",
   text="JqPrintf.tla is the format scanner as a transition system (one action per branch of nativePrintf) with an independent declarative reference formatter; TLC explores every format of <= 4/5 bytes over a 9-symbol alphabet x the arguments the scanner examines, checking WriteOnce, PadLaw, agreement with the reference, in every state; every finished call is replayed on the real code with exact stdout bytes (or runtime error and nothing written).",
   note="Three points the statement leaves open (width on %v and %%, zero flag with negative width) are policy bits: one reading must explain all outputs of a run.",
   tech="TLA+ transition system of the format scanner, TLC BFS, every behaviour replayed"),
 "C19": dict(cat="model_checking", ref="5 (C19), 4.7",
   text="JqMatch.tla is the executable match semantics (pattern / alternatives / case loop) with declarative laws (first matching case, markers of later cases never fire, bindings reconstruct the subject); TLC enumerates case lists in three tiers x 10 subjects; every case list is replayed with side-effect markers, comparing value, marker trace and outcome, plus frame balance after block bodies.",
   note="Container subject against a non-null literal is open (three readings); patterns other than literal / identifier / array are outside.",
   tech="executable TLA+ match semantics with laws, TLC enumeration, replay with markers"),
 "C02": dict(cat="model_checking", ref="5 (C02), 4.9",
   text="JqDriver is a transition system with one action per loop level of EvalProgram / evalPatternRules / evalRules; TLC checks the schedule laws (BeginFirst, EndLast, Ordered, Bindings, ElementMultiplicity, BodyIffPattern, NextSkipsRestOfElementOnly, ExitAbsorbing, DenoteLaw, ...) in every reachable state over all rule lists <= 3 (30-symbol alphabet) x fixed inputs, all inputs x fixed rule lists, plus simulation; every explored behaviour is replayed into lang.EvalProgram and compared line for line (a sample through the binary); recorded hook traces of larger seeded random runs are validated by TLC against the same actions (Trace_Driver), with corrupted traces required to be rejected on every run.",
   note="Trusts TLC; printed values limited to scalars/arrays/single-key objects; $ in ENDFILE after BEGINFILE reassigned it, $index outside array rounds, next outside pattern rules are left open.",
   tech="TLA+ transition system: exhaustive BFS + simulation, behaviour replay, trace validation"),
 "C03": dict(cat="model_checking", ref="5 (C03), 4.8",
   text="JqStream (an RFC 8259 pushdown scanner + the reader/decoder transition system) is model-checked by TLC over every stream of <= 2 (sampled 3) values x every truncation / I/O-error position / single-byte substitution x EVERY chunking (Incremental, NoSpeculation, ChunkIndependent, PrefixClosed, FaultReported in every state); each (stream, fault) is replayed on lang.EvalProgram under the boundary-relevant chunkings with a scheduled reader, checking the output written at every Read call, final stdout / outcome / file name, and agreement across chunkings. B: seeded random JSONL streams (<= 200 values, chunks > 512 B) recorded as reader/decoder/writer traces and validated by TLC (Trace_Stream); a sample through the binary over a pipe.",
   note="Trusts TLC and encoding/json as the meaning of JSON text (the model scanner is cross-checked against it on every vector); value-at-prefix-end and promptness of error reporting are left open.",
   tech="TLA+ transition system model-checked over all chunkings + replay with a scheduled reader + TLC trace validation"),
 "C14": dict(cat="model_checking", ref="5 (C14), 4.12",
   text="JqCli models cli.Run as actions (and as a function, shown equal) over all 243 command-line shapes x 3 library results with relational laws (status iff ok, diagnostics iff failure, stdout shape, -f/inline, stdin/file, -o FILE/-o -); each shape is materialised with 40-108 program/selector/input triples on the compiled binary and compared with the library run on the same bytes, plus differential pairs (-r vs BEGINFILE { $ = E }, file and selector order) and fault cases (missing / unreadable inputs, -o with two inputs).",
   note="The library is the oracle (that is the statement); exact exit codes and messages are not compared; mode-000 inputs are inconclusive when running as root.",
   tech="TLA+ transition system of the CLI wrapper + differential replay on the binary"),
}
ALL = ["C%02d" % i for i in range(1, 21)]
hooks_commits = subprocess.run(["git","-C","/repo","log","--format=%H %s"],capture_output=True,text=True).stdout.splitlines()
hook_shas = [l.split()[0] for l in hooks_commits if l.split(' ',1)[1].startswith("verif:")]
m = {
 "version": 1,
 "setup_cmd": "cd /verif/harness && GOFLAGS=-mod=mod GOPROXY=off GOSUMDB=off GOTOOLCHAIN=local go build -tags verif -o /verif/out/bin/jqcheck.setup ./cmd/jqcheck && rm -f /verif/out/bin/jqcheck.setup",
 "hooks": {"guard": "verif (Go build tag)", "enable": "go build -tags verif (the ./check script does this for the harness and the jqawk binary)",
           "baseline_off_cmd": "cd /repo && GOFLAGS=-mod=mod GOPROXY=off GOSUMDB=off GOTOOLCHAIN=local go test -vet=off -count=1 -timeout 25m ./...",
           "source_commits": hook_shas, "add_only": True},
 "engines": [{"name": "jqcheck", "path": "/verif/harness/cmd/jqcheck", "serves_properties": sorted(CHECKS),
              "kind_free_text": "Go orchestrator: runs TLC on /verif/spec, replays TLC-emitted behaviours into the real code (worker subprocesses), records traces from the real code and validates them with TLC"}],
 "checks": [], "not_applicable": [],
 "notes": "Technique: explicit TLA+ specification (/verif/spec) checked with TLC, bound to the Go code by behaviour replay (spec -> code) and trace validation (code -> spec). See DESIGN.md.",
}
for pid in ALL:
    if pid in CHECKS:
        c = CHECKS[pid]
        m["checks"].append({"property_id": pid, "quick_cmd": "./check %s --tier quick" % pid, "thorough_cmd": "./check %s --tier thorough" % pid,
            "evidence_file": "/verif/evidence/%s.json" % pid, "replay_cmd_template": "./check %s --replay {path}" % pid, "engine": "jqcheck",
            "level_claimed": {"category": c["cat"], "text": c["text"], "design_ref": "DESIGN.md section " + c["ref"]},
            "level_note": c["note"], "technique": c["tech"]})
    else:
        m["not_applicable"].append({"property_id": pid, "reason": "check not built yet (work in progress; planned in DESIGN.md section 5)"})
json.dump(m, open("/verif/MANIFEST.json", "w"), indent=1)
print("checks:", len(m["checks"]), "not_applicable:", len(m["not_applicable"]))
