#!/usr/bin/env python3
"""Regenerates the measured tables of DESIGN.md section 11 (between the AUTO markers) from
evidence/*.json, seeded/*/meta.json, KNOWN_FINDINGS.txt and the /repo log."""
import json, glob, os, re, subprocess
out = []
out.append("| property | spec modules (TLC) | binding | measured (last full sweeps, seed 1): states / replays / wall | verdict on the current tree |")
out.append("|---|---|---|---|---|")
MODS = {
 "C01": ("JqEval + MC_EvalPlace; JqProto + Trace_Proto; JqCore", "A (placements, library + binary) + B (recorded hook traces of random programs) + crash sweep"),
 "C02": ("JqDriver (cells, glob) + MC_Driver; Trace_Driver", "A (every behaviour replayed) + B (hook traces of larger random runs)"),
 "C03": ("JqStream + MC_Stream; Trace_Stream; JqStreamRun + MC_StreamRun; JqStreamOut + MC_StreamOut", "A (scheduled reader, every chunking family) + B (random JSONL traces) + pipe"),
 "C04": ("JqRender + MC_Render / MC_RenderDoc / MC_RenderDeep / MC_RenderView; JqJsonText + MC_JsonLeaf / MC_JsonChunk; JqRead + MC_RenderRead", "A (json(), -o, selectors, binary)"),
 "C05": ("JqValue + MC_Ops (EvalTree, made, fnval)", "A (five operand renderings, repeated ~ sites) + seeded atoms"),
 "C06": ("JqParse + MC_Parse (Gaps, Stage) + MC_ParseDeep; JqLex", "A (tree hook + print differential + other-grouping verdict)"),
 "C07": ("JqEval + MC_EvalCtl; Trace_Eval; JqCore + Trace_Core", "A (two renderings) + B (recorded runs of large generated programs)"),
 "C08": ("JqEval + MC_EvalCall; JqCore + Trace_Core; JqFramesInd (Apalache)", "A (values + frame depth per line) + long histories"),
 "C09": ("JqHeap + MC_Heap + MC_HeapIdx + MC_HeapRounds", "A + B"),
 "C10": ("JqProc + MC_Proc; Trace_Proc", "B (multi-run histories in long-lived and fresh processes)"),
 "C11": ("MC_Splice; MC_AssignTarget (JqParse); JqEval + MC_EvalFault", "A (splices; fault kinds x slot shapes) + binary sample"),
 "C12": ("JqText + MC_Text / MC_TextProg", "A (GetLineAndCol; positioned programs) + B (errors of random programs)"),
 "C13": ("JqLex + MC_Lex / MC_LexPair / MC_LexStr / MC_LexProg / MC_StrSite", "A (tokens; strings; differential layouts chosen by TLC)"),
 "C14": ("JqCli + MC_Cli + MC_CliBytes", "A (binary vs library; differential pairs; faults)"),
 "C15": ("JqHeap + MC_List; Trace_List; JqValue + MC_SortForm", "A + B"),
 "C16": ("JqValue + MC_Methods + MC_SplitHist", "A + seeded law checks"),
 "C17": ("JqRender + MC_Render; Trace_Render; MC_PrintStmt; MC_RenderLive; MC_RenderGrow", "A (heaps, argument lists, documents) + medium/large heaps"),
 "C18": ("JqPrintf + MC_Printf + MC_PrintfSites", "A (exact bytes)"),
 "C19": ("JqMatch + MC_Match; JqMatchCore; JqMatchLit + MC_MatchLit; JqMatchEnv + MC_MatchEnv; JqCore + MC_MatchExit", "A (markers, value, frame balance)"),
 "C20": ("JqEval + MC_EvalLimit; Trace_Limits", "A (runaway shapes modulo repetition) + B (boundary observations, unlogged limits)"),
}
open_by = {}
for l in open("/verif/KNOWN_FINDINGS.txt"):
    if l.startswith("open:"):
        m = re.search(r"property=(\S+) dev=(\S+)", l)
        open_by.setdefault(m.group(1), []).append(m.group(2))
for pid in sorted(MODS):
    f = "/verif/evidence/%s.json" % pid
    if os.path.exists(f):
        e = json.load(open(f)); c = e["coverage"]
        meas = "%s / %s / %.0f s (%s)" % (c.get("states"), c.get("evaluations"), e["wall_s"], e["tier"])
    else:
        meas = "-"
    # the last full sweeps (out/logs, not committed): quick seed 1 and thorough seed 1
    sweep = []
    for tier in ("quick", "thorough"):
        last = None
        for lf in ["/verif/out/logs/final_quick_s1.log"] + sorted(glob.glob("/verif/out/logs/final_thorough_*.log")) + sorted(glob.glob("/verif/out/logs/final2_*.log")) + sorted(glob.glob("/verif/out/logs/final3_*.log")):
            if not os.path.exists(lf):
                continue
            for l in open(lf, errors="replace"):
                mm = re.search(r"^%s .*?(?:OK|KNOWN-FINDING).*?property=%s tier=%s seed=1 states=(\d+) evaluations=(\d+).*? wall=([\d.]+)s" % (pid, pid, tier), l)
                if mm:  # the run of the latest version of the check (most states); among equals the least disturbed one
                    cand = (int(mm.group(1)), -float(mm.group(3)), int(mm.group(2)))
                    if last is None or cand[:2] > last[:2]:
                        last = cand
        if last:
            sweep.append("%s: %d / %d / %.0f s" % (tier, last[0], last[2], -last[1]))
    if sweep:
        meas = "; ".join(sweep)
    verdict = "holds" if pid not in open_by else "open finding(s): " + ", ".join(open_by[pid])
    out.append("| %s | %s | %s | %s | %s |" % (pid, MODS[pid][0], MODS[pid][1], meas, verdict))
out.append("")
out.append("Repairs in `/repo` (`git log`, oldest first):")
out.append("")
log = subprocess.run(["git", "-C", "/repo", "log", "--reverse", "--format=%h %s"], capture_output=True, text=True).stdout.splitlines()
for l in log:
    if l.split(" ", 1)[1].startswith("fix:"):
        out.append("* `%s` %s" % tuple(l.split(" ", 1)))
out.append("")
out.append("Seeded changes (`seeded/<id>/`):")
out.append("")
out.append("| id | property | needs, to manifest | caught by |")
out.append("|---|---|---|---|")
for d in sorted(glob.glob("/verif/seeded/*")):
    m = json.load(open(d + "/meta.json"))
    out.append("| %s | %s | %s | %s |" % (os.path.basename(d), m["property"], m["needs_to_manifest"].replace("|", "/"), m["caught_by"].replace("|", "/")))
text = "\n".join(out)
p = "/verif/DESIGN.md"
s = open(p).read()
B, E = "<!-- AUTO TABLES BEGIN -->", "<!-- AUTO TABLES END -->"
if B in s:
    s = s[:s.index(B) + len(B)] + "\n" + text + "\n" + s[s.index(E):]
else:
    s += "\n### 11.5 Measured tables (generated by tools/mkdesigntables.py)\n\n" + B + "\n" + text + "\n" + E + "\n"
open(p, "w").write(s)
print("tables written:", len(out), "lines")
