#!/bin/bash
# Proves with Apalache that IndInv of spec/JqFramesInd.tla is an inductive invariant for every call-depth limit L >= 1
# (an extra on top of TLC: no check's verdict depends on it). Exit 0 iff both obligations are discharged.
D=$(mktemp -d /tmp/apa.XXXXXX); trap 'rm -rf "$D"' EXIT
cp /verif/spec/JqFramesInd.tla "$D"/ && cd "$D" || exit 2
a=$(timeout 300 apalache-mc check --cinit=ConstInit --init=Init --inv=IndInv --length=0 JqFramesInd.tla 2>&1 | grep -c "EXITCODE: OK")
b=$(timeout 300 apalache-mc check --cinit=ConstInit --init=IndInit --inv=IndInv --length=1 JqFramesInd.tla 2>&1 | grep -c "EXITCODE: OK")
echo "apalache: Init => IndInv: $a, IndInv /\\ Next => IndInv': $b"
[ "$a" = 1 ] && [ "$b" = 1 ]
