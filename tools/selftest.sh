#!/bin/bash
# tools/selftest.sh [pattern]: runs every seeded change (seeded/<id>/) against the check of its property.
# Each must be caught (check exits 1). Prints a table; exit 0 iff all were caught.
cd /verif
fail=0
for d in /verif/seeded/${1:-*}; do
  [ -f "$d/meta.json" ] || continue
  P=$(python3 -c "import json;m=json.load(open('$d/meta.json'));print(m.get('check_with') or m['property'])")
  line=$(tools/seedtest.sh "$d" "$P" 2>&1 | grep '^SEED')
  echo "$line"
  case "$line" in *check_exit=1*) ;; *) fail=1;; esac
  rm -f out/replay/$P-*
done
exit $fail
