--------------------------- MODULE Trace_Limits ---------------------------
(* C20: the refusal limits are constants of the specification with RANGES,  *)
(* because the statement fixes only magnitudes: call nesting "a few         *)
(* thousand" frames (recursion a thousand deep must work), array fill       *)
(* "about a million" (an array of a million elements must work), printf     *)
(* width 65536 exactly, JSON nesting at the decoder's limit (>= 1000).      *)
(* The observations recorded from the real code (limits.ndjson) are         *)
(* explained iff ONE value of each limit exists under which every success   *)
(* lies within and every refusal just beyond that limit -- for all          *)
(* recursion shapes alike (frames are what is limited), and whatever number *)
(* of calls completed before.  The limit values are not logged: TLC         *)
(* searches the ranges.                                                     *)
EXTENDS JqUtil

Obs == ndJsonDeserialize("limits.ndjson")
Of(w) == {i \in 1..Len(Obs) : Obs[i].what = w}

CallRange == 1001..9999
FillRange == 1000000..2000000
WidthLimit == 65536
JsonRange == 1000..1000000

\* a run of a recursive program: maxdepth = deepest frame pushed, refused = a call was
\* refused, refusedepth = the frame depth that was refused, ok = the run succeeded
\* need = the number of frames the program needs at its deepest point (levels x frames per level + entry;
\* 0 when not known: runaway recursion).  Frames are what is limited, and only frames that are in use:
\* whatever ran before (thousands of completed calls and match scopes, signals leaving them) leaves none.
CallOK(L) == \A i \in Of("call") :
  /\ Obs[i].maxdepth <= L
  /\ Obs[i].refused = 1 => Obs[i].refusedepth = L + 1 /\ Obs[i].ok = 0
  /\ Obs[i].refused = 0 => Obs[i].ok = 1
  /\ Obs[i].need > 0 => ((Obs[i].ok = 1) <=> (Obs[i].need <= L))
  /\ Obs[i].need > 0 => (Obs[i].ok = 1 => Obs[i].maxdepth = Obs[i].need)
\* a[x] = 1 on an empty array
FillOK(F) == \A i \in Of("fill") : (Obs[i].ok = 1) <=> (Obs[i].x <= F)
Abs(n) == IF n < 0 THEN 0 - n ELSE n
WidthOK == \A i \in Of("width") : (Obs[i].ok = 1) <=> (Abs(Obs[i].x) <= WidthLimit)
\* a document nested x deep
JsonOK(J) == \A i \in Of("json") : (Obs[i].ok = 1) <=> (Obs[i].x <= J)

VARIABLE v
Init == v = 0
Next == UNCHANGED v

CallExplained == \E L \in CallRange : CallOK(L)
FillExplained == \E F \in FillRange : FillOK(F)
WidthExplained == WidthOK
JsonExplained == \E J \in JsonRange : JsonOK(J)
\* vacuity guards: the observations contain successes and refusals of every kind
Covered == \A w \in {"call", "fill", "width", "json"} :
             (\E i \in Of(w) : Obs[i].ok = 1) /\ (\E i \in Of(w) : Obs[i].ok = 0)
=============================================================================
