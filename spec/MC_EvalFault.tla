--------------------------- MODULE MC_EvalFault ---------------------------
(* C11, runtime half: fault injection.  Statement trees (up to MaxNodes      *)
(* nodes) in which any evaluated slot may fail: a statement, an if / while  *)
(* condition, each of the three for clauses, a for-in iterable, a call      *)
(* argument, a returned expression, a match subject, a match expression     *)
(* body, a rule pattern.  The tree is the body of the first pattern rule of *)
(* BEGIN {print} tree-rule {print}-rule END {print} over two elements.      *)
(* The machine (JqEval) says: the run stops AT the fault with a runtime      *)
(* error, everything printed before is kept, nothing is printed after.      *)
(* The harness instantiates every failing slot with every fault kind and    *)
(* every syntactic shape (operand, argument, element, index, ...).          *)
EXTENDS JqEval
CONSTANTS MaxNodes

P == [k |-> "print"]
F == [k |-> "fault"]
FX == [k |-> "faultx"]
One == [k |-> "num", v |-> 1]
Conds == {"o", "fault"}

RECURSIVE Sz(_, _)
Sz(n, inFn) ==
  IF n <= 0 THEN {}
  ELSE IF n = 1 THEN {P, F} \cup (IF inFn THEN {[k |-> "return", e |-> FX], [k |-> "return", e |-> One]} ELSE {})
  ELSE
    {[k |-> "if", c |-> c, th |-> x, el |-> NoStmt] : c \in Conds, x \in Sz(n-1, inFn)}
    \cup UNION {{[k |-> "if", c |-> "o", th |-> x, el |-> y] : x \in Sz(i, inFn), y \in Sz(n-1-i, inFn)} : i \in 1..(n-2)}
    \cup UNION {{[k |-> "block", b |-> <<x, y>>] : x \in Sz(i, inFn), y \in Sz(n-1-i, inFn)} : i \in 1..(n-2)}
    \cup {[k |-> "while", c |-> c, b |-> x] : c \in Conds, x \in Sz(n-1, inFn)}
    \cup {[k |-> "for", c |-> v[2], init |-> v[1], post |-> v[3], b |-> x] :
            v \in {<<"ok", "o", "ok">>, <<"fault", "o", "ok">>, <<"ok", "fault", "ok">>, <<"ok", "o", "fault">>}, x \in Sz(n-1, inFn)}
    \cup {[k |-> "forin", kind |-> v[1], n |-> v[2], two |-> v[3], b |-> x] :
            v \in {<<"arr", 2, FALSE>>, <<"arr", 0 - 1, FALSE>>, <<"obj", 2, TRUE>>, <<"str", 2, TRUE>>, <<"ustr", 2, FALSE>>}, x \in Sz(n-1, inFn)}
    \cup (IF inFn THEN {} ELSE {[k |-> "callstmt", f |-> 0, args |-> <<>>, fb |-> x] : x \in Sz(n-1, TRUE)})
    \cup {[k |-> "matchstmt", subj |-> s, bind |-> "z", b |-> x] : s \in {One, FX}, x \in Sz(n-1, inFn)}
    \cup (IF n = 2 THEN {[k |-> "set", n |-> "mv", e |-> [k |-> "match", subj |-> s, bind |-> "z", body |-> b]] :
                            s \in {One, FX}, b \in {[k |-> "var", n |-> "z"], FX}}
                         \cup {[k |-> "callstmt", f |-> 1, args |-> <<a>>] : a \in {One, FX}}
                         \cup {[k |-> "set", n |-> "cv", e |-> [k |-> "call", f |-> 1, args |-> <<One, a>>]] : a \in {One, FX}}
          ELSE {})

Trees == UNION {Sz(n, FALSE) : n \in 1..MaxNodes}
Fn1 == [params |-> <<"a">>, body |-> [k |-> "block", b |-> <<P, [k |-> "return", e |-> [k |-> "var", n |-> "a"]]>>]]

VARIABLES pat
Init == \E tr \in Trees, pf \in BOOLEAN :
  /\ pat = pf
  /\ InitFor([fns |-> <<Fn1>>,
              rules |-> << [kind |-> "B", body |-> P],
                           IF pf THEN [kind |-> "P", pat |-> [k |-> "const", v |-> TRUE], body |-> tr] ELSE [kind |-> "P", body |-> tr],
                           [kind |-> "P", body |-> P], [kind |-> "E", body |-> P] >>,
              n |-> 2])
MCNext == Next /\ UNCHANGED pat

Vec == (outcome # "running") =>
  Emit([prog |-> prog, conds |-> conds, out |-> out, outcome |-> outcome])
=============================================================================
