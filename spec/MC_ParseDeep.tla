--------------------------- MODULE MC_ParseDeep ---------------------------
(* C06, "to any depth": families of expressions indexed by a depth n, each  *)
(* with its bare text and its fully parenthesised text in CLOSED FORM       *)
(*     text(n) = L(n) L(n-1) ... L(1)  core  R(1) ... R(n-1) R(n)           *)
(* (the pieces depend on the parity of their index only), so that the       *)
(* harness can write them for depths far beyond what TLC can parse.  TLC    *)
(* ties the closed forms to the grammar of JqParse for every n <= NMax: the *)
(* assembled texts are Render(T(n)) / FullParen(T(n)), both parse to T(n)   *)
(* and the assembled S-expression is Sexpr(T(n)), where T(n) is the tree    *)
(* defined by recursion on n.  The step n -> n+1 adds the same pieces       *)
(* whatever n is (StepLaw), which is what carries the laws beyond NMax.     *)
(*                                                                          *)
(* The shapes: a left-to-right run of one operator or of two alternating    *)
(* operators of one level (folded by the LOOP of expressionWithPrec: the    *)
(* bare text has no nesting at all, its fully parenthesised form nests n    *)
(* deep), a right-to-left assignment chain, a stack of prefix operators,    *)
(* nested index brackets, nested call arguments, a run of call suffixes,    *)
(* and n redundant pairs of parentheses around a fixed expression.          *)
EXTENDS JqParse
CONSTANTS NMax

Par(i) == (i % 2) + 1
X(i) == Lit("Num", IF i % 2 = 0 THEN "1" ELSE "2")
XTy(i) == Ty(IF i % 2 = 0 THEN "number" ELSE "bool")
Pair(x, y) == <<x, y>>
Both(x) == <<x, x>>
None == Both(<<>>)

SameLevelPairs ==
  {<<o1, o2>> : o1 \in MulOps, o2 \in MulOps} \cup {<<o1, o2>> : o1 \in AddOps, o2 \in AddOps}
  \cup {<<o1, o2>> : o1 \in LogOps, o2 \in LogOps} \cup {<<o, o>> : o \in CmpOps}

ShapeIds ==
  {[kind |-> "lchain", ops |-> p] : p \in SameLevelPairs}
  \cup {[kind |-> "rchain", ops |-> <<o, o>>] : o \in AssignOps}
  \cup {[kind |-> "rchain", ops |-> p] : p \in {<<"=", "+=">>, <<"-=", "=">>}}
  \cup {[kind |-> "prefix", ops |-> <<u1, u2>>] : u1 \in PrefixOps, u2 \in PrefixOps}
  \cup {[kind |-> k, ops |-> <<"", "">>] : k \in {"index", "callnest", "callchain", "parens"}}

\* the right operand of operator o at place i
RO(o, i) == IF o = "is" THEN XTy(i) ELSE X(i)

Fixed == Bin("-", Bin("-", X(0), X(1)), Bin("*", X(0), X(1)))     \* shape parens: 1 - 2 - 1 * 2

\* ---- the tree, by recursion on the depth
RECURSIVE T(_, _)
T(s, n) ==
  IF s.kind = "parens" THEN Fixed
  ELSE IF n = 0 THEN (CASE s.kind = "lchain" -> X(0)
                        [] s.kind = "rchain" -> X(0)
                        [] s.kind = "prefix" -> Id("a")
                        [] s.kind = "index" -> Lit("Num", "0")
                        [] s.kind = "callnest" -> X(0)
                        [] s.kind = "callchain" -> Id("gg"))
  ELSE LET o == s.ops[Par(n)]
           sub == T(s, n - 1)
       IN CASE s.kind = "lchain" -> Bin(o, sub, RO(o, n))
            [] s.kind = "rchain" -> Bin(o, Id("a"), sub)
            [] s.kind = "prefix" -> Un(o, sub)
            [] s.kind = "index" -> Idx(Id("r"), sub)
            [] s.kind = "callnest" -> Call(Id("f"), <<sub>>)
            [] s.kind = "callchain" -> Call(sub, <<>>)

\* ---- the closed forms: [core, bl, br, fl, fr] token pieces, [score, sl, sr] pieces of the printed tree
OpenP == <<Sym("(")>>
CloseP == <<Sym(")")>>
SxOp(o) == IF o = "is" THEN "Is" ELSE o
Pieces(s) ==
  LET o == s.ops IN
  CASE s.kind = "lchain" ->
         [core |-> <<LeafTok(X(0))>>, score |-> Sexpr(X(0)),
          bl |-> None, br |-> [p \in 1..2 |-> <<Sym(o[p]), LeafTok(RO(o[p], p - 1))>>],
          fl |-> Both(OpenP), fr |-> [p \in 1..2 |-> <<Sym(o[p]), LeafTok(RO(o[p], p - 1))>> \o CloseP],
          sl |-> [p \in 1..2 |-> "(" \o SxOp(o[p]) \o " "], sr |-> [p \in 1..2 |-> " " \o Sexpr(RO(o[p], p - 1)) \o ")"]]
    [] s.kind = "rchain" ->
         [core |-> <<LeafTok(X(0))>>, score |-> Sexpr(X(0)),
          bl |-> [p \in 1..2 |-> <<Tok("Ident", "a"), Sym(o[p])>>], br |-> None,
          fl |-> [p \in 1..2 |-> OpenP \o <<Tok("Ident", "a"), Sym(o[p])>>], fr |-> Both(CloseP),
          sl |-> [p \in 1..2 |-> IF o[p] = "=" THEN "(= (id a) " ELSE "(= (id a) (" \o CompoundBase(o[p]) \o " (id a) "],
          sr |-> [p \in 1..2 |-> IF o[p] = "=" THEN ")" ELSE "))"]]
    [] s.kind = "prefix" ->
         [core |-> <<Tok("Ident", "a")>>, score |-> "(id a)",
          bl |-> [p \in 1..2 |-> <<Sym(o[p])>>], br |-> None,
          fl |-> [p \in 1..2 |-> OpenP \o <<Sym(o[p])>>], fr |-> Both(CloseP),
          sl |-> [p \in 1..2 |-> "(pre" \o o[p] \o " "], sr |-> Both(")")]
    [] s.kind = "index" ->
         [core |-> <<Tok("Num", "0")>>, score |-> "(num 0)",
          bl |-> Both(<<Tok("Ident", "r"), Sym("[")>>), br |-> Both(<<Sym("]")>>),
          fl |-> Both(OpenP \o <<Tok("Ident", "r"), Sym("[")>>), fr |-> Both(<<Sym("]")>> \o CloseP),
          sl |-> Both("([ (id r) "), sr |-> Both(")")]
    [] s.kind = "callnest" ->
         [core |-> <<LeafTok(X(0))>>, score |-> Sexpr(X(0)),
          bl |-> Both(<<Tok("Ident", "f"), Sym("(")>>), br |-> Both(CloseP),
          fl |-> Both(OpenP \o <<Tok("Ident", "f"), Sym("(")>>), fr |-> Both(CloseP \o CloseP),
          sl |-> Both("(call (id f) "), sr |-> Both(")")]
    [] s.kind = "callchain" ->
         [core |-> <<Tok("Ident", "gg")>>, score |-> "(id gg)",
          bl |-> None, br |-> Both(OpenP \o CloseP),
          fl |-> Both(OpenP), fr |-> Both(OpenP \o CloseP \o CloseP),
          sl |-> Both("(call "), sr |-> Both(" )")]
    [] s.kind = "parens" ->
         [core |-> Render(Fixed), score |-> Sexpr(Fixed),
          bl |-> None, br |-> None, fl |-> Both(OpenP), fr |-> Both(CloseP),
          sl |-> Both(""), sr |-> Both("")]

\* L(n) ... L(1) core R(1) ... R(n); works on token sequences and on strings
RECURSIVE Asm(_, _, _, _)
Asm(L, core, R, n) == IF n = 0 THEN core ELSE L[Par(n)] \o Asm(L, core, R, n - 1) \o R[Par(n)]

Bare(s, n) == LET p == Pieces(s) IN Asm(p.bl, p.core, p.br, n)
Full(s, n) == LET p == Pieces(s) IN Asm(p.fl, p.core, p.fr, n)
Sx(s, n) == LET p == Pieces(s) IN Asm(p.sl, p.score, p.sr, n)

\* ---- states
VARIABLES shape, done
Nil == [kind |-> "", ops |-> <<"", "">>]
Init == shape = Nil /\ done = FALSE
Next == ~done /\ done' = TRUE /\ shape' \in ShapeIds

\* ---- laws
\* redundant parentheses aside, the closed forms ARE the renderings of the grammar module
Exact(s) == s.kind # "parens"
Laws ==
  done =>
    \A n \in 0..NMax :
      LET t == T(shape, n)
          b == Bare(shape, n)
          f == Full(shape, n)
      IN /\ ParseExpr(b) = t                              \* the bare text means T(n)
         /\ ParseExpr(f) = t                              \* the parenthesised text means T(n)
         /\ Sx(shape, n) = Sexpr(t)                       \* the printed tree in closed form
         /\ Exact(shape) => b = Render(t) /\ f = FullParen(t)
         /\ ~Exact(shape) => b = Render(t) /\ Len(f) = Len(b) + 2 * n
         \* the bare text of a run of infix operators / call suffixes has no bracket nesting: the
         \* depth is all in the parenthesised form
         /\ shape.kind = "lchain" => \A j \in 1..Len(b) : b[j].tag \notin {"(", ")"}
         \* one more level wraps the text of the level below in the pieces of that level, whatever n is
         /\ n > 0 => LET p == Pieces(shape) IN
                     /\ b = p.bl[Par(n)] \o Bare(shape, n - 1) \o p.br[Par(n)]
                     /\ f = p.fl[Par(n)] \o Full(shape, n - 1) \o p.fr[Par(n)]
                     /\ Exact(shape) => Size(t) = Size(T(shape, n - 1)) + 1

Texts(toks) == [j \in 1..Len(toks) |-> toks[j].text]
TextPair(pp) == [q \in 1..2 |-> Texts(pp[q])]
Vec ==
  done =>
    LET p == Pieces(shape) IN
    Emit([kind |-> shape.kind, ops |-> shape.ops, nmax |-> NMax,
          core |-> Texts(p.core), bl |-> TextPair(p.bl), br |-> TextPair(p.br), fl |-> TextPair(p.fl), fr |-> TextPair(p.fr),
          score |-> p.score, sl |-> p.sl, sr |-> p.sr,
          \* one assembled instance, for the harness to check its own assembly against
          n0 |-> 3, bare0 |-> Texts(Bare(shape, 3)), full0 |-> Texts(Full(shape, 3)), sx0 |-> Sx(shape, 3)])
=============================================================================
