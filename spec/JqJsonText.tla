----------------------------- MODULE JqJsonText -----------------------------
(* C04, lexical layer: how one string is spelled in the JSON text written by *)
(* -o and json() ("valid JSON ... all string escapes and non-ASCII text").    *)
(*                                                                            *)
(* The statement fixes two things about a written string: the text is a JSON *)
(* string (RFC 8259 section 7) and it reads back as the same sequence of      *)
(* code points.  It does not fix WHICH of the valid spellings is used        *)
(* (encoding/json writes "<" as <, another writer may not), so the model *)
(* is the reader's table: for every class of code points, the spellings that *)
(* are JSON and denote that code point.                                       *)
(*                                                                            *)
(* Implementation counterparts: the string encoder behind json.MarshalIndent  *)
(* (nativeJson in src/runtime.go, GetRootJson in src/evaluator.go) and any    *)
(* short cut taken around it.                                                 *)
(*                                                                            *)
(* Code point classes (a partition of the Unicode scalar values; the harness  *)
(* holds the membership function and the members it instantiates):            *)
(*   pl    printable ASCII other than the ones below (includes the letters    *)
(*         u n t x U 0..9 that, after a backslash, LOOK like escapes)         *)
(*   dq    "            bs  \            sl  /                                *)
(*   html  < > &   (encoding/json writes them escaped by default)             *)
(*   c2    U+0008 U+0009 U+000A U+000C U+000D: controls with a two-character  *)
(*         escape in JSON                                                     *)
(*   cu    the other 27 controls U+0000..U+001F: only \u00XX is JSON          *)
(*   del   U+007F           c1  U+0080..U+009F                                *)
(*   b2    other two-byte code points, printable                              *)
(*   ls    U+2028 U+2029                                                      *)
(*   b3    other three-byte code points, printable                            *)
(*   bnp   BMP code points that are not graphic (soft hyphen, zero-width and  *)
(*         bidi marks, BOM, private use, non-characters, unassigned)          *)
(*   rep   U+FFFD itself                                                      *)
(*   as    code points above U+FFFF, printable                                *)
(*   anp   code points above U+FFFF that are not graphic (tags, private-use   *)
(*         planes, non-characters, unassigned)                                *)
EXTENDS JqUtil

CharClasses == {"pl", "dq", "bs", "sl", "html", "c2", "cu", "del", "c1", "b2", "ls", "b3", "bnp", "rep", "as", "anp"}
Astral == {"as", "anp"}
\* a JSON string may not contain these unescaped
MustEscape == {"dq", "bs", "c2", "cu"}
\* the classes with a two-character escape \" \\ \/ \b \f \n \r \t
HasShort == {"dq", "bs", "sl", "c2"}

(* Spellings of ONE code point.                                              *)
(*   raw   the character itself (UTF-8)                                       *)
(*   e2    backslash and one of " \ / b f n r t                               *)
(*   eu    \uXXXX, one UTF-16 unit                                            *)
(*   sp    \uD8xx\uDCxx, a surrogate pair                                     *)
(* and the spellings other string syntaxes have and JSON has not:             *)
(*   ex    \xNN              eU  \UNNNNNNNN                                   *)
(*   e1    backslash and any other character (\a \v \' \0 \e ...)            *)
Forms == {"raw", "e2", "eu", "sp"}
NotJson == {"ex", "eU", "e1"}
Spellings == Forms \cup NotJson

StrError == "error"
\* what a JSON reader makes of spelling f used for a code point of class c
ReadOne(f, c) ==
  CASE f = "raw" -> IF c \in MustEscape THEN StrError ELSE c
    [] f = "e2"  -> IF c \in HasShort THEN c ELSE StrError
    [] f = "eu"  -> IF c \in Astral THEN StrError ELSE c
    [] f = "sp"  -> IF c \in Astral THEN c ELSE StrError
    [] OTHER     -> StrError

Allowed(c) == {f \in Spellings : ReadOne(f, c) = c}

\* a string is a sequence of classes; a spelling of it one form per code point
\* result [ok, v]: v the classes read, ok = FALSE when some spelling is not JSON
\* or does not denote the code point
RECURSIVE ReadStr(_, _)
ReadStr(fs, s) ==
  IF s = <<>> THEN [ok |-> TRUE, v |-> <<>>]
  ELSE LET one == ReadOne(Head(fs), Head(s))
           rest == ReadStr(Tail(fs), Tail(s)) IN
    IF one = StrError \/ ~rest.ok THEN [ok |-> FALSE, v |-> <<>>] ELSE [ok |-> TRUE, v |-> <<one>> \o rest.v]
Reads(fs, s) == ReadStr(fs, s) = [ok |-> TRUE, v |-> s]

Write(W(_), s) == [i \in 1..Len(s) |-> W(s[i])]

\* reference writers (any of them satisfies the statement; the check accepts
\* every writer that stays inside Allowed)
WMin(c) == IF c \in HasShort /\ c # "sl" THEN "e2" ELSE IF c = "cu" THEN "eu" ELSE "raw"
WGo(c) == CASE c \in {"dq", "bs", "c2"} -> "e2"
            [] c \in {"cu", "html", "ls"} -> "eu"
            [] OTHER -> "raw"
WAscii(c) == CASE c \in {"dq", "bs", "c2", "sl"} -> "e2"
               [] c \in Astral -> "sp"
               [] c = "pl" -> "raw"
               [] OTHER -> "eu"
\* a writer of another string syntax (Go / C source): JSON for most classes,
\* not for all of them
WSource(c) == CASE c \in {"dq", "bs", "c2"} -> "e2"
                [] c \in {"cu", "del"} -> "ex"
                [] c \in {"c1", "bnp", "ls"} -> "eu"
                [] c = "anp" -> "eU"
                [] OTHER -> "raw"

\* sorted rendering of a set of forms for the vectors
FormOrder == <<"raw", "e2", "eu", "sp", "ex", "eU", "e1">>
RECURSIVE FormSeqFrom(_, _)
FormSeqFrom(S, i) == IF i > Len(FormOrder) THEN <<>>
                     ELSE (IF FormOrder[i] \in S THEN <<FormOrder[i]>> ELSE <<>>) \o FormSeqFrom(S, i + 1)
FormSeq(S) == FormSeqFrom(S, 1)

\* laws of the table itself (checked by MC_JsonLeaf for every string of the bound)
TableLaws ==
  /\ \A c \in CharClasses : Allowed(c) # {} /\ Allowed(c) \subseteq Forms
  /\ \A c \in CharClasses : ("raw" \in Allowed(c)) <=> (c \notin MustEscape)
  /\ \A c \in CharClasses : ("sp" \in Allowed(c)) <=> ("eu" \notin Allowed(c))
  /\ \A c \in CharClasses : \A f \in NotJson : f \notin Allowed(c)
StringLaws(s) ==
  \* every string has a spelling, and all three reference writers produce one
  /\ Reads(Write(WMin, s), s)
  /\ Reads(Write(WGo, s), s)
  /\ Reads(Write(WAscii, s), s)
  \* a spelling reads back as s iff every position uses an allowed form
  /\ \A fs \in [1..Len(s) -> Spellings] :
       Reads(fs, s) <=> (\A i \in 1..Len(s) : fs[i] \in Allowed(s[i]))
  \* the foreign writer fails exactly on the classes it spells in a non-JSON way
  /\ (~ReadStr(Write(WSource, s), s).ok) <=> (\E i \in 1..Len(s) : s[i] \in {"cu", "del", "anp"})
=============================================================================
