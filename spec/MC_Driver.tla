----------------------------- MODULE MC_Driver -----------------------------
(* C02, binding A: bounded but complete configuration spaces for JqDriver.   *)
(* A configuration is built by a first phase of the behaviour (so that TLC's *)
(* workers share the work and -simulate samples the product), then the       *)
(* driver runs on it; pattern outcomes and body signals are functions of the *)
(* configuration.  Every finished run is emitted as a vector: configuration  *)
(* plus the sequence of body activations with the bindings of $, $index and  *)
(* $file the statement prescribes.                                           *)
(*                                                                           *)
(* Families (constant Fam):                                                  *)
(*   "rules"  every rule list of length <= MaxRules over the alphabet below  *)
(*            (Alpha = "full": 30 symbols, "core": 8) x the fixed inputs     *)
(*            Inputs[i], i in InputSel                                       *)
(*   "inputs" every input (files <= MaxFiles, values per file <= MaxVals,    *)
(*            nsel in NSel, root shapes ShapeSet) x the fixed rule lists     *)
(*   "sim"    both built freely, arrays grown up to MaxArr (for -simulate)   *)
EXTENDS JqDriver

CONSTANTS Fam, Alpha, MaxRules, MaxFiles, MaxVals, MaxArr, InputSel, NSel

VARIABLES nsel, cstage      \* number of selectors; "rules" | "input": what the configuration phase may still add
vars == <<dvars, nsel, cstage>>

\* ---- rules
R(k, p, b) == [kind |-> k, haspat |-> p # "none", pat |-> p, body |-> b]
CoreAlphabet ==
  {R("BF", "none", "print"), R("EF", "none", "print"), R("E", "none", "print"),
   R("P", "none", "print"), R("P", "self", "next"), R("P", "memb", "print"), R("P", "T", "exit"),
   R("P", "self", "bare")}
FullAlphabet ==
  {R("B", "none", b) : b \in {"print", "exit"}} \cup
  {R(k, "none", b) : k \in {"BF", "EF", "E"}, b \in {"print", "exit", "bare"}} \cup
  {R("P", p, b) : p \in {"none", "T", "F", "self", "memb"}, b \in {"print", "next", "exit"}} \cup
  {R("P", p, "bare") : p \in {"T", "F", "self", "memb"}}
Alphabet == IF Alpha = "core" THEN CoreAlphabet ELSE FullAlphabet

\* a rule without a body cannot be written directly before a pattern rule without a pattern
CanFollow(rs, r) == (Len(rs) > 0 /\ rs[Len(rs)].body = "bare") => ~(r.kind = "P" /\ r.pat = "none")

SigOf(r) == IF r.body \in {"next", "exit"} THEN r.body ELSE "none"

\* ---- element kinds and the two data-driven patterns: "self" is the truthiness of the
\* element itself (`$`), "memb" that of its member p (`$.p`, false for anything but an object)
ElemKinds == {"n1", "n0", "s1", "s0", "nul", "o1", "o0", "ar"}   \* number # 0 / 0, string non-empty / empty, null,
                                                              \* object with p truthy / falsy or absent, nested array
Truth(p, ek) ==
  CASE p = "none" -> TRUE
    [] p = "T" -> TRUE
    [] p = "F" -> FALSE
    [] p = "self" -> ek \in {"n1", "s1", "o1", "o0", "ar"}
    [] p = "memb" -> ek = "o1"

\* ---- root shapes
A(es) == [n |-> Len(es), a |-> TRUE, es |-> es]        \* array root with these elements
S(k) == [n |-> -1, a |-> FALSE, es |-> <<k>>]          \* non-array root of kind k

Inputs == <<
  [nsel |-> 0, files |-> << << <<A(<<"n1", "n0", "o1">>)>>, <<S("s1")>> >>, << <<A(<<>>)>>, <<S("nul")>> >> >>],
  [nsel |-> 2, files |-> << << <<A(<<"o1", "o0">>), S("n1")>>, <<S("o0"), A(<<"s0", "s1">>)>> >>, <<>>,
                           << <<S("nul"), A(<<"n1">>)>> >> >>],
  [nsel |-> 1, files |-> << << <<S("o1")>> >>, << <<A(<<"n0", "n1", "ar">>)>>, <<A(<<>>)>> >> >>],
  [nsel |-> 0, files |-> <<>>],
  [nsel |-> 1, files |-> << <<>>, << <<S("n0")>> >> >>],
  [nsel |-> 1, files |-> << << <<A(<<"n1", "o0", "s0">>)>>, <<A(<<>>)>> >>, << <<A(<<"o1">>)>> >> >>]   \* arrays only: $index is printed
>>

RuleLists == {
  <<R("B", "none", "print"), R("BF", "none", "print"), R("P", "none", "print"), R("EF", "none", "print"), R("E", "none", "print")>>,
  <<R("P", "self", "print"), R("E", "none", "print"), R("P", "memb", "next"), R("B", "none", "print"), R("P", "none", "print"), R("B", "none", "print")>>,
  <<R("E", "none", "bare"), R("EF", "none", "print"), R("P", "T", "next"), R("P", "none", "print"), R("BF", "none", "bare"), R("E", "none", "print")>>,
  <<R("P", "F", "print"), R("P", "memb", "bare"), R("P", "self", "exit"), R("P", "none", "print"), R("E", "none", "print"), R("EF", "none", "print")>>,
  <<R("BF", "none", "print"), R("P", "self", "bare"), R("P", "memb", "print"), R("EF", "none", "exit"), R("E", "none", "print")>>,
  <<R("EF", "none", "bare"), R("P", "self", "next"), R("EF", "none", "print"), R("P", "none", "print"), R("BF", "none", "print"), R("BF", "none", "print")>>
}

ShapeSet ==
  IF Fam = "sim" THEN {S(k) : k \in ElemKinds \ {"ar"}} \cup {A(<<>>)}
  ELSE {A(<<>>), A(<<"s1">>), A(<<"o1", "n0">>), S("o0"), S("n1"), S("nul")}

Values(ns) == [1..(IF ns = 0 THEN 1 ELSE ns) -> ShapeSet]

\* ---- the configuration phase
Init ==
  /\ Idle
  /\ cstage = "rules"
  /\ IF Fam = "rules" THEN nsel = 0 ELSE nsel \in NSel

SetCfg(rs, fs, st) ==
  /\ rules' = rs /\ files' = fs /\ cstage' = st
  /\ UNCHANGED <<part, phase, level, fi, vi, si, ei, ri, tested, signal, dollar, index, file, obs, outcome>>

AddRule ==
  /\ phase = "config" /\ cstage = "rules" /\ Fam \in {"rules", "sim"} /\ Len(rules) < MaxRules
  /\ \E r \in Alphabet : CanFollow(rules, r) /\ SetCfg(Append(rules, r), files, "rules")
  /\ UNCHANGED nsel
PickRules ==
  /\ phase = "config" /\ cstage = "rules" /\ Fam = "inputs" /\ rules = <<>>
  /\ \E rs \in RuleLists : SetCfg(rs, files, "input")
  /\ UNCHANGED nsel
PickInput ==
  /\ phase = "config" /\ Fam = "rules" /\ files = <<>> /\ cstage = "rules"
  /\ \E i \in InputSel : SetCfg(rules, Inputs[i].files, "input") /\ nsel' = Inputs[i].nsel
AddFile ==
  /\ phase = "config" /\ Fam \in {"inputs", "sim"} /\ Len(files) < MaxFiles
  /\ (Fam = "inputs") => cstage = "input"
  /\ SetCfg(rules, Append(files, <<>>), "input")
  /\ UNCHANGED nsel
AddValue ==
  /\ phase = "config" /\ cstage = "input" /\ Fam \in {"inputs", "sim"}
  /\ Len(files) > 0 /\ Len(files[Len(files)]) < MaxVals
  /\ \E val \in Values(nsel) :
        SetCfg(rules, [files EXCEPT ![Len(files)] = Append(@, val)], "input")
  /\ UNCHANGED nsel
AddElem ==
  /\ phase = "config" /\ cstage = "input" /\ Fam = "sim"
  /\ Len(files) > 0 /\ Len(files[Len(files)]) > 0
  /\ LET f == Len(files) v == Len(files[f]) IN
     \E s \in 1..Len(files[f][v]) : \E k \in ElemKinds :
        /\ files[f][v][s].a /\ files[f][v][s].n < MaxArr
        /\ SetCfg(rules, [files EXCEPT ![f][v][s] = A(Append(@.es, k))], "input")
  /\ UNCHANGED nsel
Start ==
  /\ phase = "config"
  /\ (Fam = "inputs") => rules # <<>>
  /\ (Fam = "rules") => cstage = "input"
  /\ Load(rules, files)
  /\ UNCHANGED <<nsel>> /\ cstage' = "run"

\* ---- the run: outcomes supplied from the configuration
CurRule == rules[part[CurKind][ri]]
CurElemKind == LET root == files[fi][vi][si] IN IF root.a THEN root.es[ei + 1] ELSE root.es[1]

Run ==
  \/ Internal \/ NextValue \/ NextSelector \/ NextElement \/ ConsumeNext \/ Exit \/ Finish
  \/ phase = "begin" /\ ri <= N("B") /\ RunBegin(SigOf(CurRule))
  \/ phase = "files" /\ level = "bf" /\ ri <= N("BF") /\ RunBeginFile(SigOf(CurRule))
  \/ phase = "files" /\ level = "ef" /\ ri <= N("EF") /\ RunEndFile(SigOf(CurRule))
  \/ phase = "end" /\ ri <= N("E") /\ RunEnd(SigOf(CurRule))
  \/ phase = "files" /\ level = "rule" /\ ~tested /\ ri <= N("P") /\ TestPattern(Truth(CurRule.pat, CurElemKind))
  \/ phase = "files" /\ level = "rule" /\ tested /\ RunBody(SigOf(CurRule))

\* the end of a run is a legitimate end of the behaviour; every other state without a successor is a deadlock
\* of the model (-simulate: behaviours simply end there, deadlock checking is off)
Terminated == Fam # "sim" /\ phase = "done" /\ UNCHANGED vars

Next ==
  \/ (AddRule \/ PickRules \/ PickInput \/ AddFile \/ AddValue \/ AddElem \/ Start)
  \/ (Run /\ UNCHANGED <<nsel, cstage>>)
  \/ Terminated

Spec == Init /\ [][Next]_vars

-----------------------------------------------------------------------------
(* An independent, denotational definition of the schedule: the run as one   *)
(* sequence built by comprehension over files, values, selectors, elements   *)
(* and rules, cut after the first exit.  Law: the transition system's        *)
(* history equals it at the end of every run.                                *)

DEntry(t, r, b, sig, d, x, fb) == [t |-> t, r |-> r, b |-> b, sig |-> sig, d |-> d, x |-> x, fb |-> fb]

DPlain(k, d, fb) ==
  LET ps == OfKind(rules, k) IN
  [j \in 1..Len(ps) |-> DEntry("body", ps[j], TRUE, SigOf(rules[ps[j]]), d, -1, fb)]

RECURSIVE DRound(_, _, _, _, _)
DRound(j, ek, d, x, fb) ==
  LET ps == OfKind(rules, "P") IN
  IF j > Len(ps) THEN <<>>
  ELSE LET r == ps[j]
           b == Truth(rules[r].pat, ek)
           sig == SigOf(rules[r])
       IN IF ~b THEN <<DEntry("test", r, FALSE, "none", d, x, fb)>> \o DRound(j + 1, ek, d, x, fb)
          ELSE <<DEntry("test", r, TRUE, "none", d, x, fb), DEntry("body", r, TRUE, sig, d, x, fb)>>
               \o (IF sig = "next" THEN <<>> ELSE DRound(j + 1, ek, d, x, fb))

DRoot1(f, v, s) ==
  LET root == files[f][v][s] IN
  DPlain("BF", DRoot(f, v, s), f)
  \o (IF root.a
        THEN FlattenSeq([e \in 1..root.n |-> DRound(1, root.es[e], DElem(f, v, s, e - 1), e - 1, f)])
        ELSE DRound(1, root.es[1], DRoot(f, v, s), -1, f))
  \o DPlain("EF", DRoot(f, v, s), f)

DAll ==
  DPlain("B", DOpen, 0)
  \o FlattenSeq([f \in 1..Len(files) |->
       FlattenSeq([v \in 1..Len(files[f]) |->
         FlattenSeq([s \in 1..Len(files[f][v]) |-> DRoot1(f, v, s)])])])
  \o DPlain("E", DNull, 0)

DCut(q) ==
  LET X == {k \in 1..Len(q) : q[k].sig = "exit"} IN
  IF X = {} THEN q ELSE SubSeq(q, 1, SetMin(X))

Denote == DCut(DAll)

\* the history, with the bindings the statement leaves open blanked out
Proj(a) ==
  DEntry(a.t, a.r, a.b, a.sig, a.d,
         (IF a.d.t = "elem" THEN a.x ELSE -1),
         (IF a.k \in {"BF", "P", "EF"} THEN a.fb ELSE 0))

DenoteLaw == phase = "done" => [k \in 1..Len(obs) |-> Proj(obs[k])] = Denote

\* selectors: every value has one root per selector (one without selectors)
ShapeLaw ==
  \A f \in 1..Len(files) : \A v \in 1..Len(files[f]) :
     /\ Len(files[f][v]) = (IF nsel = 0 THEN 1 ELSE nsel)
     /\ \A s \in 1..Len(files[f][v]) :
          LET root == files[f][v][s] IN
          IF root.a THEN root.n = Len(root.es) ELSE root.n = -1 /\ Len(root.es) = 1 /\ root.es[1] # "ar"

\* ---- vector: configuration + body activations <<rule, dollar type, f, v, s, e, $index, $file>>
DCode(t) == CASE t = "open" -> 0 [] t = "null" -> 1 [] t = "root" -> 2 [] t = "elem" -> 3
Bodies == SelectSeq(obs, LAMBDA a : a.t = "body")
Vec ==
  phase = "done" =>
    Emit([rules |-> [i \in 1..Len(rules) |-> <<rules[i].kind, rules[i].pat, rules[i].body>>],
          nsel |-> nsel,
          files |-> [f \in 1..Len(files) |-> [v \in 1..Len(files[f]) |-> [s \in 1..Len(files[f][v]) |->
                       [a |-> files[f][v][s].a, es |-> files[f][v][s].es]]]],
          lines |-> [k \in 1..Len(Bodies) |->
                       LET a == Bodies[k] IN <<a.r, DCode(a.d.t), a.d.f, a.d.v, a.d.s, a.d.e, a.x, a.fb>>],
          exit |-> Exited])
=============================================================================
