----------------------------- MODULE MC_Driver -----------------------------
(* C02, binding A: bounded but complete configuration spaces for JqDriver.   *)
(* A configuration is built by a first phase of the behaviour (so that TLC's *)
(* workers share the work and -simulate samples the product), then the       *)
(* driver runs on it; pattern outcomes and body signals are functions of the *)
(* configuration.  Every finished run is emitted as a vector: configuration  *)
(* plus the sequence of body activations with the bindings of $, $index and  *)
(* $file the statement prescribes.                                           *)
(*                                                                           *)
(* Families (constant Fam):                                                  *)
(*   "rules"  every rule list of length <= MaxRules over the alphabet below  *)
(*            (Alpha = "full": 30 symbols, "core": 8) x the fixed inputs     *)
(*            Inputs[i], i in InputSel                                       *)
(*   "inputs" every input (files <= MaxFiles, values per file <= MaxVals,    *)
(*            nsel in NSel, root shapes ShapeSet) x the fixed rule lists     *)
(*   "sim"    both built freely, arrays grown up to MaxArr (for -simulate)   *)
(*   "cells"  every rule list of length <= MaxRules over the alphabet of     *)
(*            WRITING rules (Alpha = "cells": each body may assign $, $.p or *)
(*            $file after printing) x the fixed inputs CellInputs[i], i in   *)
(*            InputSel: files with several JSON values, and selector lists   *)
(*            that select the same subtree twice or one inside the other     *)
(* sels[s] is the key the s-th selector picks from the object every value is *)
(* (0: the whole value, `$`); two selectors with the same key select the     *)
(* same subtree of the value -- in the specification two separate roots.     *)
(*   "glob"   (Alpha = "glob") rules whose PATTERN reads the program's own   *)
(*            variable g (`g`, `!g`, `g < 2`) and whose bodies assign it      *)
(*            (`g = 0`, `g = 1`, `g++`): the truth value of such a pattern    *)
(*            is a function of the whole history of the run, not of the      *)
(*            element, and must be taken anew at every rule of every round   *)
(* sform[s] is the FORM of the s-th selector expression (SelForms = "all"):  *)
(* a path (`$.k`, `$["k"]`, `($.k)`), an array literal built from the member *)
(* (`[$.k]`, `[$.k, $.k]`), a constant array literal (`[]`, `["k"]`, `[0]`,  *)
(* `[1, 2]`) or a scalar literal: "the argument to -r can be any valid       *)
(* expression" and the selected root is what that expression evaluates to.   *)
(* mems[f][v][s] is what the path `$.k` of the s-th selector would select    *)
(* from the value; files[f][v][s] = SelRoot(sform[s], mems[f][v][s]) is the  *)
(* root the driver is handed.                                                *)
(* paths[f] is the path given as the f-th file argument (numbered by first   *)
(* occurrence).  A command line may name the same path several times: the    *)
(* schedule has one file per ARGUMENT, so every occurrence is processed in   *)
(* full, in its place, with the content the path names (families "inputs"    *)
(* and "sim": RepeatFile).                                                   *)
EXTENDS JqDriver

CONSTANTS Fam, Alpha, MaxRules, MaxFiles, MaxVals, MaxArr, InputSel, NSel,
          SelForms          \* "dot": every selector is the path `$.k` (or `$`); "all": every form of FormSet

VARIABLES nsel, cstage,     \* number of selectors; "rules" | "input": what the configuration phase may still add
          sels,             \* per selector the key it picks (0: the whole value)
          paths,            \* per file argument the path it names
          sform,            \* per selector the form of its expression
          mems              \* mems[f][v][s]: what the path of selector s selects from the value (files holds the roots)
vars == <<dvars, nsel, cstage, sels, paths, sform, mems>>

\* ---- rules
RW(k, p, b, w) == [kind |-> k, haspat |-> p # "none", pat |-> p, body |-> b, w |-> w]
R(k, p, b) == RW(k, p, b, "none")
CoreAlphabet ==
  {R("BF", "none", "print"), R("EF", "none", "print"), R("E", "none", "print"),
   R("P", "none", "print"), R("P", "self", "next"), R("P", "memb", "print"), R("P", "T", "exit"),
   R("P", "self", "bare")}
FullAlphabet ==
  {R("B", "none", b) : b \in {"print", "exit"}} \cup
  {R(k, "none", b) : k \in {"BF", "EF", "E"}, b \in {"print", "exit", "bare"}} \cup
  {R("P", p, b) : p \in {"none", "T", "F", "self", "memb"}, b \in {"print", "next", "exit"}} \cup
  {R("P", p, "bare") : p \in {"T", "F", "self", "memb"}}
\* rules that write after printing: `$ = v` (sd), `$.p = v` where $ is an object (sm), `$file = v` (sf; $file exists
\* only while a value is being processed: not in BEGIN, and END's $file is left open)
CellAlphabet ==
  {RW("B", "none", "print", w) : w \in {"none", "sd"}} \cup
  {RW(k, "none", "print", w) : k \in {"BF", "EF"}, w \in {"none", "sd", "sf", "sm"}} \cup
  \* BEGINFILE / ENDFILE rules without a body print $: what the rules before them left in the cell they are bound to
  {RW(k, "none", "bare", "none") : k \in {"BF", "EF"}} \cup
  {RW("P", p, "print", w) : p \in {"none", "memb", "nmemb", "self"}, w \in {"none", "sd", "sf", "sm"}} \cup
  {RW("P", "nmemb", "next", "sm"), RW("P", "none", "exit", "sd"), RW("P", "memb", "bare", "none")} \cup
  {RW("E", "none", "print", w) : w \in {"none", "sd"}} \cup {RW("E", "none", "bare", "none")}
\* rules about the program's own variable g: patterns that read it (gv `g`, ngv `!g`, glt `g < 2`), bodies that
\* assign it after printing (g0 `g = 0`, g1 `g = 1`, ginc `g++`), next to element-driven patterns that switch it
GlobAlphabet ==
  {RW("P", p, "print", w) : p \in {"gv", "ngv", "glt"}, w \in {"none", "g0", "g1", "ginc"}} \cup
  {RW("P", p, "print", w) : p \in {"none", "self", "memb"}, w \in {"g0", "g1", "ginc"}} \cup
  {RW("P", "gv", "next", "g0"), RW("P", "glt", "next", "ginc"), RW("P", "gv", "bare", "none"), RW("P", "glt", "exit", "none"),
   RW("P", "none", "print", "none")} \cup
  {RW(k, "none", "print", w) : k \in {"BF", "EF"}, w \in {"g0", "g1", "ginc"}} \cup
  {RW("B", "none", "print", "g1"), RW("E", "none", "print", "none")}
Alphabet == IF Alpha = "core" THEN CoreAlphabet ELSE IF Alpha = "cells" THEN CellAlphabet
            ELSE IF Alpha = "glob" THEN GlobAlphabet ELSE FullAlphabet

\* a rule without a body cannot be written directly before a pattern rule without a pattern, nor before a
\* pattern that begins with the operator `!` (the grammar reads on: a body, a binary operator)
CanFollow(rs, r) == (Len(rs) > 0 /\ rs[Len(rs)].body = "bare") => ~(r.kind = "P" /\ r.pat \in {"none", "nmemb", "ngv"})

SigOf(r) == IF r.body \in {"next", "exit"} THEN r.body ELSE "none"

\* ---- element kinds and the two data-driven patterns: "self" is the truthiness of the
\* element itself (`$`), "memb" that of its member p (`$.p`, false for anything but an object)
ElemKinds == {"n1", "n0", "s1", "s0", "nul", "o1", "o0", "ar"}   \* number # 0 / 0, string non-empty / empty, null,
                                                              \* object with p truthy / falsy or absent, nested array
\* "gv" / "ngv" / "glt" read the program's variable g (-1: unset, which is falsy and smaller than 2: DESIGN.md 3.1, 3.3)
Truth(p, ek, g) ==
  CASE p = "none" -> TRUE
    [] p = "gv" -> g > 0
    [] p = "ngv" -> ~(g > 0)
    [] p = "glt" -> g < 2
    [] p = "T" -> TRUE
    [] p = "F" -> FALSE
    [] p = "self" -> ek \in {"n1", "s1", "o1", "o0", "ar"}
    [] p = "memb" -> ek = "o1"
    [] p = "nmemb" -> ek # "o1"        \* `!$.p`

\* ---- root shapes
A(es) == [n |-> Len(es), a |-> TRUE, es |-> es]        \* array root with these elements
S(k) == [n |-> -1, a |-> FALSE, es |-> <<k>>]          \* non-array root of kind k

Inputs == <<
  [nsel |-> 0, files |-> << << <<A(<<"n1", "n0", "o1">>)>>, <<S("s1")>> >>, << <<A(<<>>)>>, <<S("nul")>> >> >>],
  [nsel |-> 2, files |-> << << <<A(<<"o1", "o0">>), S("n1")>>, <<S("o0"), A(<<"s0", "s1">>)>> >>, <<>>,
                           << <<S("nul"), A(<<"n1">>)>> >> >>],
  [nsel |-> 1, files |-> << << <<S("o1")>> >>, << <<A(<<"n0", "n1", "ar">>)>>, <<A(<<>>)>> >> >>],
  [nsel |-> 0, files |-> <<>>],
  [nsel |-> 1, files |-> << <<>>, << <<S("n0")>> >> >>],
  [nsel |-> 1, files |-> << << <<A(<<"n1", "o0", "s0">>)>>, <<A(<<>>)>> >>, << <<A(<<"o1">>)>> >> >>]   \* arrays only: $index is printed
>>

\* inputs of family "cells": [sels, files]; a selector of the whole value (key 0) selects an object without p
CellInputs == <<
  \* no selector: three values in one file, one in the next
  [sels |-> <<>>, files |-> << << <<A(<<"o0", "o1">>)>>, <<S("o0")>>, <<S("n1")>> >>, << <<S("o1")>> >> >>],
  \* the same subtree twice
  [sels |-> <<1, 1>>, files |-> << << <<A(<<"o0", "o1">>), A(<<"o0", "o1">>)>>, <<S("o0"), S("o0")>> >> >>],
  \* a subtree, then the whole value; the whole value, then a subtree
  [sels |-> <<1, 0>>, files |-> << << <<A(<<"o0", "s1">>), S("o0")>>, <<S("o0"), S("o0")>> >> >>],
  [sels |-> <<0, 1>>, files |-> << << <<S("o0"), A(<<"o1", "o0">>)>> >>, << <<S("o0"), S("o1")>> >> >>],
  \* two subtrees around a repeated one
  [sels |-> <<1, 2, 1>>, files |-> << << <<S("o0"), A(<<"o0">>), S("o0")>>, <<A(<<"o0">>), S("n1"), A(<<"o0">>)>> >> >>],
  \* arrays only ($index is printed), the same subtree twice, two values
  [sels |-> <<1, 1>>, files |-> << << <<A(<<"o0", "o1">>), A(<<"o0", "o1">>)>>, <<A(<<"n1">>), A(<<"n1">>)>> >> >>]
>>

\* the rule lists run on every input when the selectors take every form: the first and the last of RuleLists
XRuleLists == {
  <<R("B", "none", "print"), R("BF", "none", "print"), R("P", "none", "print"), R("EF", "none", "print"), R("E", "none", "print")>>,
  <<R("EF", "none", "bare"), R("P", "self", "next"), R("EF", "none", "print"), R("P", "none", "print"), R("BF", "none", "print"), R("BF", "none", "print")>>
}
RuleLists == {
  <<R("B", "none", "print"), R("BF", "none", "print"), R("P", "none", "print"), R("EF", "none", "print"), R("E", "none", "print")>>,
  <<R("P", "self", "print"), R("E", "none", "print"), R("P", "memb", "next"), R("B", "none", "print"), R("P", "none", "print"), R("B", "none", "print")>>,
  <<R("E", "none", "bare"), R("EF", "none", "print"), R("P", "T", "next"), R("P", "none", "print"), R("BF", "none", "bare"), R("E", "none", "print")>>,
  <<R("P", "F", "print"), R("P", "memb", "bare"), R("P", "self", "exit"), R("P", "none", "print"), R("E", "none", "print"), R("EF", "none", "print")>>,
  <<R("BF", "none", "print"), R("P", "self", "bare"), R("P", "memb", "print"), R("EF", "none", "exit"), R("E", "none", "print")>>,
  <<R("EF", "none", "bare"), R("P", "self", "next"), R("EF", "none", "print"), R("P", "none", "print"), R("BF", "none", "print"), R("BF", "none", "print")>>
}

ShapeSet ==
  IF Fam = "sim" THEN {S(k) : k \in ElemKinds \ {"ar"}} \cup {A(<<>>)}
  ELSE {A(<<>>), A(<<"s1">>), A(<<"o1", "n0">>), S("o0"), S("n1"), S("nul")}

\* ---- selector expressions: the root is what the expression evaluates to
PathForms == {"dot", "idx", "par"}                                  \* `$.k`  `$["k"]`  `($.k)`
MembForms == {"wrap", "dup"}                                        \* `[$.k]`  `[$.k, $.k]`
ConstForms == {"empty", "ckey", "cnum", "cnums", "str", "nul", "num"} \* `[]` `["k"]` `[0]` `[1, 2]` `"lit"` `null` `0`
FormSet == IF SelForms = "all" THEN PathForms \cup MembForms \cup ConstForms ELSE {"dot"}
\* number of items of an array literal (-1: the form is not an array literal)
NItems(fm) == CASE fm = "wrap" -> 1 [] fm = "dup" -> 2 [] fm = "empty" -> 0 [] fm = "ckey" -> 1 [] fm = "cnum" -> 1
                [] fm = "cnums" -> 2 [] OTHER -> -1
\* a value as an element of an array: its kind
AsElem(m) == IF m.a THEN "ar" ELSE m.es[1]
SelRoot(fm, m) ==
  CASE fm \in PathForms -> m
    [] fm = "wrap" -> A(<<AsElem(m)>>)
    [] fm = "dup" -> A(<<AsElem(m), AsElem(m)>>)
    [] fm = "empty" -> A(<<>>)
    [] fm = "ckey" -> A(<<"s1">>)
    [] fm = "cnum" -> A(<<"n0">>)
    [] fm = "cnums" -> A(<<"n1", "n1">>)
    [] fm = "str" -> S("s1")
    [] fm = "nul" -> S("nul")
    [] fm = "num" -> S("n0")
RootsOf(mv) == [s \in 1..Len(mv) |-> IF s <= Len(sform) THEN SelRoot(sform[s], mv[s]) ELSE mv[s]]
RootsAll(ms) == [f \in 1..Len(ms) |-> [v \in 1..Len(ms[f]) |-> RootsOf(ms[f][v])]]

\* selector lists of family "sim": distinct keys, or (with the writing rules) a repeated key / the whole value
SelLists(ns) ==
  {[s \in 1..ns |-> s]} \cup
  (IF Alpha = "cells" /\ ns = 2 THEN {<<1, 1>>, <<1, 0>>, <<0, 1>>} ELSE {}) \cup
  (IF SelForms = "all" /\ ns = 2 THEN {<<1, 1>>} ELSE {})
\* what the selectors' paths select from one value: selectors with the same key select the same thing, the whole value is an object without p
Values(ns) ==
  {val \in [1..(IF ns = 0 THEN 1 ELSE ns) -> ShapeSet] :
     \A s \in 1..Len(sels) :
        /\ sels[s] = 0 => val[s] = S("o0")
        /\ \A t \in 1..Len(sels) : sels[s] = sels[t] => val[s] = val[t]}

\* ---- the configuration phase
NPaths == IF paths = <<>> THEN 0 ELSE SetMax({paths[f] : f \in 1..Len(paths)})
\* the content of a path is built while it is the last argument and was not named before
LastPathFresh == \A g \in 1..(Len(paths) - 1) : paths[g] # paths[Len(paths)]

Init ==
  /\ Idle
  /\ cstage = "rules"
  /\ paths = <<>>
  /\ mems = <<>>
  /\ IF Fam \in {"rules", "cells"} THEN nsel = 0 /\ sels = <<>> /\ sform = <<>>
     ELSE nsel \in NSel /\ sels \in SelLists(nsel) /\ sform \in [1..nsel -> FormSet]

SetCfg(rs, fs, st) ==
  /\ rules' = rs /\ files' = fs /\ cstage' = st
  /\ UNCHANGED <<part, phase, level, fi, vi, si, ei, ri, tested, signal, dollar, index, file, cell, fw, obs, outcome, glob>>
\* the same with the input given by what the selectors' paths select: the roots follow from the forms
SetCfgM(rs, ms, st) == SetCfg(rs, RootsAll(ms), st) /\ mems' = ms

AddRule ==
  /\ phase = "config" /\ cstage = "rules" /\ Fam \in {"rules", "sim", "cells"} /\ Len(rules) < MaxRules
  /\ \E r \in Alphabet : CanFollow(rules, r) /\ SetCfg(Append(rules, r), files, "rules")
  /\ UNCHANGED <<nsel, sels, paths, sform, mems>>
PickRules ==
  /\ phase = "config" /\ cstage = "rules" /\ Fam = "inputs" /\ rules = <<>>
  /\ \E rs \in (IF SelForms = "all" THEN XRuleLists ELSE RuleLists) : SetCfg(rs, files, "input")
  /\ UNCHANGED <<nsel, sels, paths, sform, mems>>
PickInput ==
  /\ phase = "config" /\ Fam = "rules" /\ files = <<>> /\ cstage = "rules"
  /\ \E i \in InputSel : SetCfg(rules, Inputs[i].files, "input") /\ nsel' = Inputs[i].nsel
                          /\ sels' = [s \in 1..Inputs[i].nsel |-> s]
                          /\ sform' = [s \in 1..Inputs[i].nsel |-> "dot"] /\ mems' = Inputs[i].files
                          /\ paths' = [f \in 1..Len(Inputs[i].files) |-> f]
PickCellInput ==
  /\ phase = "config" /\ Fam = "cells" /\ files = <<>> /\ cstage = "rules"
  /\ \E i \in InputSel : SetCfg(rules, CellInputs[i].files, "input") /\ nsel' = Len(CellInputs[i].sels)
                          /\ sels' = CellInputs[i].sels
                          /\ sform' = [s \in 1..Len(CellInputs[i].sels) |-> "dot"] /\ mems' = CellInputs[i].files
                          /\ paths' = [f \in 1..Len(CellInputs[i].files) |-> f]
AddFile ==
  /\ phase = "config" /\ Fam \in {"inputs", "sim"} /\ Len(files) < MaxFiles
  /\ (Fam = "inputs") => cstage = "input"
  /\ SetCfgM(rules, Append(mems, <<>>), "input")
  /\ paths' = Append(paths, NPaths + 1)
  /\ UNCHANGED <<nsel, sels, sform>>
\* the next file argument names a path that was given before: the same content once more
RepeatFile ==
  /\ phase = "config" /\ cstage = "input" /\ Fam \in {"inputs", "sim"} /\ Len(files) < MaxFiles
  /\ \E g \in 1..Len(files) :
        /\ SetCfgM(rules, Append(mems, mems[g]), "input")
        /\ paths' = Append(paths, paths[g])
  /\ UNCHANGED <<nsel, sels, sform>>
AddValue ==
  /\ phase = "config" /\ cstage = "input" /\ Fam \in {"inputs", "sim"}
  /\ Len(files) > 0 /\ Len(files[Len(files)]) < MaxVals /\ LastPathFresh
  /\ \E val \in Values(nsel) :
        SetCfgM(rules, [mems EXCEPT ![Len(mems)] = Append(@, val)], "input")
  /\ UNCHANGED <<nsel, sels, paths, sform>>
AddElem ==
  /\ phase = "config" /\ cstage = "input" /\ Fam = "sim"
  /\ Len(files) > 0 /\ Len(files[Len(files)]) > 0 /\ LastPathFresh
  /\ LET f == Len(files) v == Len(files[f]) IN
     \E s \in 1..Len(mems[f][v]) : \E k \in ElemKinds :
        /\ mems[f][v][s].a /\ mems[f][v][s].n < MaxArr
        \* every selector of the same key gets the element
        /\ SetCfgM(rules, [mems EXCEPT ![f][v] = [t \in 1..Len(@) |->
                             IF t = s \/ (t <= Len(sels) /\ s <= Len(sels) /\ sels[t] = sels[s]) THEN A(Append(@[t].es, k)) ELSE @[t]]],
                  "input")
  /\ UNCHANGED <<nsel, sels, paths, sform>>
Start ==
  /\ phase = "config"
  /\ (Fam = "inputs") => rules # <<>>
  /\ (Fam \in {"rules", "cells"}) => cstage = "input"
  /\ Load(rules, files)
  /\ UNCHANGED <<nsel, sels, paths, sform, mems>> /\ cstage' = "run"

\* ---- the run: outcomes supplied from the configuration
CurRule == rules[part[CurKind][ri]]
\* kind of the value in a cell: as read (pk), or as written
EK(pk, ov) == IF ov[1] = "w" THEN "s1" ELSE IF ov[1] = "p" THEN "o1" ELSE pk
IsObjK(k) == k \in {"o0", "o1"}
\* `$.p = v` is guarded by `$ is object`: elsewhere the body writes nothing
EffW(w, k) == IF w = "sm" /\ ~IsObjK(k) THEN "none" ELSE w
CurPristine ==
  IF phase # "files" THEN "nul"
  ELSE LET root == files[fi][vi][si] IN
       IF InArrayRound THEN root.es[ei + 1] ELSE IF root.a THEN "ar" ELSE root.es[1]
CurElemKind == EK(CurPristine, DollarW)
CurW == EffW(CurRule.w, CurElemKind)

Run ==
  \/ Internal \/ NextValue \/ NextSelector \/ NextElement \/ ConsumeNext \/ Exit \/ Finish
  \/ phase = "begin" /\ ri <= N("B") /\ RunBegin(SigOf(CurRule), CurW)
  \/ phase = "files" /\ level = "bf" /\ ri <= N("BF") /\ RunBeginFile(SigOf(CurRule), CurW)
  \/ phase = "files" /\ level = "ef" /\ ri <= N("EF") /\ RunEndFile(SigOf(CurRule), CurW)
  \/ phase = "end" /\ ri <= N("E") /\ RunEnd(SigOf(CurRule), CurW)
  \/ phase = "files" /\ level = "rule" /\ ~tested /\ ri <= N("P") /\ TestPattern(Truth(CurRule.pat, CurElemKind, glob))
  \/ phase = "files" /\ level = "rule" /\ tested /\ RunBody(SigOf(CurRule), CurW)

\* the end of a run is a legitimate end of the behaviour; every other state without a successor is a deadlock
\* of the model (-simulate: behaviours simply end there, deadlock checking is off)
Terminated == Fam # "sim" /\ phase = "done" /\ UNCHANGED vars

Next ==
  \/ (AddRule \/ PickRules \/ PickInput \/ PickCellInput \/ AddFile \/ RepeatFile \/ AddValue \/ AddElem \/ Start)
  \/ (Run /\ UNCHANGED <<nsel, cstage, sels, paths, sform, mems>>)
  \/ Terminated

Spec == Init /\ [][Next]_vars

-----------------------------------------------------------------------------------------------------------------------------------------------------
(* An independent, denotational definition of the schedule: the run as one   *)
(* sequence built by recursion over files, values, selectors, elements and   *)
(* rules (big steps: a round, a root, a value are evaluated as a whole and   *)
(* hand on what the next one may still see), cut after the first exit.  Law: *)
(* the transition system's history equals it at the end of every run.        *)

DEntry(t, r, b, sig, d, x, fb, w, cw, ews, fwv, dopen, g) ==
  [t |-> t, r |-> r, b |-> b, sig |-> sig, d |-> d, x |-> x, fb |-> fb, w |-> w, cw |-> cw, ews |-> ews, fwv |-> fwv, dopen |-> dopen, g |-> g]

Ov(ov, w, r) == IF w = "sd" THEN <<"w", r>> ELSE IF w = "sm" THEN <<"p", r>> ELSE ov

\* the program's variable g is threaded through EVERYTHING in the order of the run: each big step takes the value
\* the step before left and hands on its own (no level of the schedule re-binds it)
RECURSIVE GFold(_, _, _)
GFold(q, k, g) == IF k > Len(q) THEN g ELSE GFold(q, k + 1, GAfter(g, q[k].w))

\* BEGIN / END rules from the j-th on: every rule has its own null cell, nothing it writes there is seen again
RECURSIVE DPlain(_, _, _, _)
DPlain(k, d, j, g) ==
  LET ps == OfKind(rules, k) IN
  IF j > Len(ps) THEN <<>>
  ELSE LET w == EffW(rules[ps[j]].w, "nul") IN
       <<DEntry("body", ps[j], TRUE, SigOf(rules[ps[j]]), d, -1, 0, w, NoW, <<>>, 0, FALSE, g)>> \o DPlain(k, d, j + 1, GAfter(g, w))

\* the tree of one root during its round: st = [root, els, fwv, g]
PristineRoot(f, v, s) == LET root == files[f][v][s] IN IF root.a THEN "ar" ELSE root.es[1]
IsArr(f, v, s, st) == files[f][v][s].a /\ st.root[1] # "w"

\* BEGINFILE / ENDFILE rules from the j-th on
RECURSIVE DFileRules(_, _, _, _, _, _)
DFileRules(k, j, st, f, v, s) ==
  LET ps == OfKind(rules, k) IN
  IF j > Len(ps) THEN [q |-> <<>>, st |-> st]
  ELSE LET r == ps[j]
           w == EffW(rules[r].w, EK(PristineRoot(f, v, s), st.root))
           e == DEntry("body", r, TRUE, SigOf(rules[r]), DRoot(f, v, s), -1, f, w, st.root,
                       (IF IsArr(f, v, s, st) THEN st.els ELSE <<>>), st.fwv, k = "EF" /\ st.root[1] = "w", st.g)
           \* `$ = v` in an ENDFILE rule is the rule's own: the next one is bound to the selected root again
           rest == DFileRules(k, j + 1, [st EXCEPT !.root = (IF k = "EF" /\ w = "sd" THEN @ ELSE Ov(@, w, r)),
                                                   !.fwv = (IF w = "sf" THEN r ELSE @),
                                                   !.g = GAfter(@, w)], f, v, s)
       IN [q |-> <<e>> \o rest.q, st |-> rest.st]

\* one round of the pattern rules from the j-th on, on a cell that holds a value of kind pk as read and overlay ov;
\* every pattern is evaluated when its rule is reached, with g as the bodies before it (of this round too) left it
RECURSIVE DRound(_, _, _, _, _, _, _, _)
DRound(j, ov, fwv, pk, d, x, fb, g) ==
  LET ps == OfKind(rules, "P") IN
  IF j > Len(ps) THEN [q |-> <<>>, ov |-> ov, fwv |-> fwv, g |-> g]
  ELSE LET r == ps[j]
           ek == EK(pk, ov)
           b == Truth(rules[r].pat, ek, g)
           sig == SigOf(rules[r])
           w == EffW(rules[r].w, ek)
           test == DEntry("test", r, b, "none", d, x, fb, "none", ov, <<>>, fwv, FALSE, g)
       IN IF ~b THEN LET rest == DRound(j + 1, ov, fwv, pk, d, x, fb, g) IN [rest EXCEPT !.q = <<test>> \o @]
          ELSE LET body == DEntry("body", r, TRUE, sig, d, x, fb, w, ov, <<>>, fwv, FALSE, g)
                   ov2 == Ov(ov, w, r)
                   fw2 == IF w = "sf" THEN r ELSE fwv
                   g2 == GAfter(g, w)
               IN IF sig = "next" THEN [q |-> <<test, body>>, ov |-> ov2, fwv |-> fw2, g |-> g2]
                  ELSE LET rest == DRound(j + 1, ov2, fw2, pk, d, x, fb, g2) IN [rest EXCEPT !.q = <<test, body>> \o @]

\* the rounds of the elements from the e-th on (1-based)
RECURSIVE DElems(_, _, _, _, _)
DElems(e, st, f, v, s) ==
  LET root == files[f][v][s] IN
  IF e > root.n THEN [q |-> <<>>, st |-> st]
  ELSE LET rd == DRound(1, ElOv(st, e), st.fwv, root.es[e], DElem(f, v, s, e - 1), e - 1, f, st.g)
           st2 == IF rd.ov = NoW THEN [st EXCEPT !.fwv = rd.fwv, !.g = rd.g] ELSE [SetEl(st, e, rd.ov) EXCEPT !.fwv = rd.fwv, !.g = rd.g]
           rest == DElems(e + 1, st2, f, v, s)
       IN [q |-> rd.q \o rest.q, st |-> rest.st]

\* one root: a fresh tree; fwin = 0, or -1 when an earlier round of the value overwrote $file
DRoot1(f, v, s, fwin, g) ==
  LET bf == DFileRules("BF", 1, [root |-> NoW, els |-> <<>>, fwv |-> fwin, g |-> g], f, v, s)
      pr == IF IsArr(f, v, s, bf.st) THEN DElems(1, bf.st, f, v, s)
            ELSE LET rd == DRound(1, bf.st.root, bf.st.fwv, PristineRoot(f, v, s), DRoot(f, v, s), -1, f, bf.st.g)
                 IN [q |-> rd.q, st |-> [bf.st EXCEPT !.root = rd.ov, !.fwv = rd.fwv, !.g = rd.g]]
      ef == DFileRules("EF", 1, pr.st, f, v, s)
  IN [q |-> bf.q \o pr.q \o ef.q, fwv |-> ef.st.fwv, g |-> ef.st.g]

RECURSIVE DSels(_, _, _, _, _)
DSels(s, fwin, f, v, g) ==
  IF s > Len(files[f][v]) THEN [q |-> <<>>, g |-> g]
  ELSE LET one == DRoot1(f, v, s, fwin, g)
           rest == DSels(s + 1, (IF one.fwv = 0 THEN 0 ELSE -1), f, v, one.g)
       IN [q |-> one.q \o rest.q, g |-> rest.g]

RECURSIVE DVals(_, _, _)
DVals(v, f, g) ==
  IF v > Len(files[f]) THEN [q |-> <<>>, g |-> g]
  ELSE LET one == DSels(1, 0, f, v, g) rest == DVals(v + 1, f, one.g) IN [q |-> one.q \o rest.q, g |-> rest.g]

RECURSIVE DFiles(_, _)
DFiles(f, g) ==
  IF f > Len(files) THEN [q |-> <<>>, g |-> g]
  ELSE LET one == DVals(1, f, g) rest == DFiles(f + 1, one.g) IN [q |-> one.q \o rest.q, g |-> rest.g]

DAll ==
  LET b == DPlain("B", DOpen, 1, -1)
      fs == DFiles(1, GFold(b, 1, -1))
  IN b \o fs.q \o DPlain("E", DNull, 1, fs.g)

DCut(q) ==
  LET X == {k \in 1..Len(q) : q[k].sig = "exit"} IN
  IF X = {} THEN q ELSE SubSeq(q, 1, SetMin(X))

Denote == DCut(DAll)

\* the history, with the bindings the statement leaves open blanked out
Proj(a) ==
  DEntry(a.t, a.r, a.b, a.sig, a.d,
         (IF a.d.t = "elem" THEN a.x ELSE -1),
         (IF a.k \in {"BF", "P", "EF"} THEN a.fb ELSE 0),
         a.w, a.cw, a.ews,
         (IF a.k \in {"BF", "P", "EF"} THEN a.fw ELSE 0),
         a.dopen, a.g)

DenoteLaw == phase = "done" => [k \in 1..Len(obs) |-> Proj(obs[k])] = Denote

\* selectors: every value has one root per selector (one without selectors)
ShapeLaw ==
  /\ Len(sels) = nsel /\ Len(sform) = nsel
  /\ \A s \in 1..nsel : sform[s] \in FormSet
  /\ Len(mems) = Len(files)
  /\ \A f \in 1..Len(files) :
     /\ Len(mems[f]) = Len(files[f])
     /\ \A v \in 1..Len(files[f]) :
       /\ Len(files[f][v]) = (IF nsel = 0 THEN 1 ELSE nsel)
       /\ Len(mems[f][v]) = Len(files[f][v])
       /\ \A s \in 1..Len(files[f][v]) :
            /\ LET root == files[f][v][s] IN
               IF root.a THEN root.n = Len(root.es) ELSE root.n = -1 /\ Len(root.es) = 1 /\ root.es[1] # "ar"
            /\ LET m == mems[f][v][s] IN
               IF m.a THEN m.n = Len(m.es) ELSE m.n = -1 /\ Len(m.es) = 1 /\ m.es[1] # "ar"
       /\ \A s \in 1..nsel :
            /\ sels[s] = 0 => mems[f][v][s] = S("o0")
            /\ \A t \in 1..nsel : sels[s] = sels[t] => mems[f][v][s] = mems[f][v][t]

\* selector expressions: a path hands the driver what it selects; an array literal of n items is an array root of
\* exactly n elements whatever its items are (an item that is itself an array is ONE element, never spliced, and the
\* literal is never read as an index into the value); a scalar literal is a root that is not an array.  With
\* ElementMultiplicity: the pattern rules run once per ITEM of the literal
FormLaw ==
  \A f \in 1..Len(files) : \A v \in 1..Len(files[f]) : \A s \in 1..nsel :
    LET root == files[f][v][s] m == mems[f][v][s] fm == sform[s] IN
    /\ fm \in PathForms => root = m
    /\ NItems(fm) >= 0 => root.a /\ root.n = NItems(fm)
    /\ fm \in MembForms => \A e \in 1..root.n : root.es[e] = (IF m.a THEN "ar" ELSE m.es[1])
    /\ fm \in {"str", "nul", "num"} => ~root.a
\* ... and without selectors the root is the value
NoSelLaw == nsel = 0 => files = mems

\* ---- file arguments and paths: one path per argument, numbered by first occurrence; the same path is the same content
PathLaw ==
  /\ Len(paths) = Len(files)
  /\ \A f \in 1..Len(paths) :
        /\ paths[f] \in 1..f
        /\ (f = 1 \/ paths[f] <= SetMax({paths[g] : g \in 1..(f - 1)} \cup {0}) + 1)
        /\ \A g \in 1..Len(paths) : paths[f] = paths[g] => files[f] = files[g]
\* every occurrence of a path is a file of its own in the schedule: in a run that is not cut short by exit, what
\* happens for the g-th argument is what happens for an earlier argument f naming the same path, shifted to g
\* (activations, bindings, writes seen), and $file is bound to the argument's position (which names the path)
ActsOfFile(f) == SelectSeq(obs, LAMBDA a : a.pos[1] = 1 /\ a.pos[2] = f)
Unplaced(a) == [t |-> a.t, k |-> a.k, r |-> a.r, b |-> a.b, sig |-> a.sig, dt |-> a.d.t, dv |-> a.d.v, ds |-> a.d.s, de |-> a.d.e,
                x |-> (IF a.d.t = "elem" THEN a.x ELSE -1),     \* $index outside an array round is left open
                pos |-> SubSeq(a.pos, 3, 8), w |-> a.w, cw |-> a.cw, ews |-> a.ews, fw |-> a.fw, en |-> a.en, dopen |-> a.dopen]
\* (a program whose patterns read its own variable carries state from one file to the next: the law is about the
\* schedule, and is stated for the programs whose activations are a function of the input alone)
ReadsGlobal == \E i \in 1..Len(rules) : rules[i].pat \in {"gv", "ngv", "glt"}
OccurrenceLaw ==
  (ObsKeep = 0 /\ phase = "done" /\ ~Exited /\ ~ReadsGlobal) =>
    \A f \in 1..Len(paths) : \A g \in (f + 1)..Len(paths) :
      paths[f] = paths[g] =>
        LET qa == ActsOfFile(f) qb == ActsOfFile(g) IN
        /\ Len(qa) = Len(qb)
        /\ \A k \in 1..Len(qa) :
              /\ Unplaced(qa[k]) = Unplaced(qb[k])
              /\ qa[k].fb = f /\ qb[k].fb = g /\ qa[k].d.f = f /\ qb[k].d.f = g

\* ---- vector: configuration + body activations
\* <<rule, dollar type, f, v, s, e, $index, $file, $ open, $file cell, tag and rule of the overlay of $,
\*   then per element of an array root shown as a whole: tag, rule>>
DCode(t) == CASE t = "open" -> 0 [] t = "null" -> 1 [] t = "root" -> 2 [] t = "elem" -> 3
OvCode(t) == CASE t = "-" -> 0 [] t = "p" -> 1 [] t = "w" -> 2
Bodies == SelectSeq(obs, LAMBDA a : a.t = "body")
Vec ==
  phase = "done" =>
    Emit([rules |-> [i \in 1..Len(rules) |-> <<rules[i].kind, rules[i].pat, rules[i].body, rules[i].w>>],
          nsel |-> nsel, sels |-> sels, paths |-> paths, sform |-> sform,
          mems |-> [f \in 1..Len(mems) |-> [v \in 1..Len(mems[f]) |-> [s \in 1..Len(mems[f][v]) |->
                       [a |-> mems[f][v][s].a, es |-> mems[f][v][s].es]]]],
          gs |-> [k \in 1..Len(Bodies) |-> Bodies[k].g],
          files |-> [f \in 1..Len(files) |-> [v \in 1..Len(files[f]) |-> [s \in 1..Len(files[f][v]) |->
                       [a |-> files[f][v][s].a, es |-> files[f][v][s].es]]]],
          lines |-> [k \in 1..Len(Bodies) |->
                       LET a == Bodies[k]
                           n == IF a.k \in {"BF", "EF"} /\ a.en >= 0 THEN a.en ELSE 0
                       IN <<a.r, DCode(a.d.t), a.d.f, a.d.v, a.d.s, a.d.e, a.x, a.fb,
                            (IF a.dopen THEN 1 ELSE 0), a.fw, OvCode(a.cw[1]), a.cw[2]>>
                          \o FlattenSeq([e \in 1..n |->
                                LET ov == IF e \in DOMAIN a.ews THEN a.ews[e] ELSE NoW IN <<OvCode(ov[1]), ov[2]>>])],
          exit |-> Exited])
=============================================================================
