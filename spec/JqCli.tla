------------------------------ MODULE JqCli ------------------------------
(* The command-line wrapper cli.Run (DESIGN.md 4.12; property C14).          *)
(*                                                                           *)
(* cfg : the command line                                                    *)
(*   progVia   "inline" | "file"      program as first argument / with -f    *)
(*   nfiles    0 (stdin) | 1 | 2      named input files                      *)
(*   same      both file arguments are the same path (nfiles = 2)            *)
(*   nsel      0..2                   number of -r selectors                 *)
(*   out       "none" | "dash" | "path"   no -o / -o - / -o FILE              *)
(*   badProg   the -f file does not exist                                    *)
(*   badAt     0, or the number of the input file that cannot be used        *)
(*   badKind   "none" | "missing" | "unreadable"                             *)
(*   stop      (optional) where the program ends the run with `exit`:        *)
(*             "never" | "begin" (in a BEGIN rule: no input is taken up) |   *)
(*             "in1" | "in2" (while the first / second input is processed);  *)
(*             "pool" / absent: whatever the program at hand does            *)
(*   alias     (optional) what the -o path is: "none" / absent: a path of    *)
(*             its own; "input" | "spelled" | "symlink" | "hardlink": the    *)
(*             input file itself (the same string, another spelling of the   *)
(*             path, a symbolic / hard link to it): rewriting a document in  *)
(*             place                                                         *)
(*   pre       (optional) what a -o path of its own holds when the command   *)
(*             is given: "absent" / absent: nothing is there; "stale": a     *)
(*             file with other, longer content (an earlier result)           *)
(*   ofault    (optional) what is wrong with the -o path: "none" / absent:   *)
(*             nothing; "nodir" | "isdir": it cannot be created (its         *)
(*             directory does not exist / it is a directory); "full": it is  *)
(*             created (opened) but the write fails (a full device)          *)
(* lib : the result of the library interpreter on (program, selectors in     *)
(*   order, inputs in order).  It is an INPUT of this module (uninterpreted):*)
(*   outcome "ok" | "err", json "ok" | "err" | "na" (GetRootJson).           *)
(*                                                                           *)
(* stdout is a sequence of tokens: "lib" = whatever the library wrote while  *)
(* evaluating, "json" = the JSON document of the root.                       *)
(*                                                                           *)
(* The command line carries TEXTS: the program (inline or in the -f file),   *)
(* the selectors, the file names, the input bytes; the library hands back    *)
(* texts: its output and the JSON document.  cfg may have a field            *)
(* text = [chan, bytes]: one of these texts holds this byte sequence (JqUtil *)
(* bytes).  The wrapper is a pipe for every text: what the library is called *)
(* with IS the text of the command line, and the tokens "lib" / "json" stand *)
(* for the library's bytes unchanged, wherever they are written.             *)
EXTENDS JqUtil

VARIABLES cfg, pc, opened, lib, calls, stdout, stderr, outfile, status
cvars == <<cfg, pc, opened, lib, calls, stdout, stderr, outfile, status>>

NoLib == [outcome |-> "na", json |-> "na"]
StopOf(c) == IF "stop" \in DOMAIN c THEN c.stop ELSE "pool"
AliasOf(c) == IF "alias" \in DOMAIN c THEN c.alias ELSE "none"
PreOf(c) == IF "pre" \in DOMAIN c THEN c.pre ELSE "absent"
OFaultOf(c) == IF "ofault" \in DOMAIN c THEN c.ofault ELSE "none"
CreateFaults == {"nodir", "isdir"}
WriteFaults == {"full"}
OutFaults == CreateFaults \cup WriteFaults
NoText == [chan |-> "none", bytes |-> <<>>]
TextOf(c) == IF "text" \in DOMAIN c THEN c.text ELSE NoText
\* texts that travel from the command line to the library / from the library to stdout and the -o file
\* EdgeChans: the text is the very beginning / the very end of the program text or of an input's bytes (where a
\* loader would skip a signature, trim, or add a final newline); RawOutChans: the text is, byte for byte, what the
\* program writes last (no newline added): at the end of a successful run, before `exit`, before a runtime error.
EdgeChans == {"prog-head", "prog-tail", "input-head", "input-tail"}
\* "prog-all": the text IS the program (the empty program, a blank, a lone newline ...)
InChans == {"prog-str", "prog-re", "prog-ws", "prog-cmt", "prog-all", "sel", "fname", "input-str", "input-ws"} \cup EdgeChans
RawOutChans == {"out-end", "out-exit", "out-err"}
OutChans == {"doc-val", "doc-key"} \cup RawOutChans
LibResults == {[outcome |-> "ok", json |-> "ok"], [outcome |-> "ok", json |-> "err"], [outcome |-> "err", json |-> "na"]}

\* the inputs the evaluator is to read, in command-line order; stdin when no file is named
\* an input is identified by the path it names: a path given twice is two inputs, each opened and read on its own
Inputs(c) == IF c.nfiles = 0 THEN <<"stdin">> ELSE [i \in 1..c.nfiles |-> IF c.same THEN 1 ELSE i]
Selectors(c) == [i \in 1..c.nsel |-> i]
\* how many of the inputs the evaluator gets to read: a program that exits earlier never reads the rest
NReads(c) == CASE StopOf(c) = "begin" -> 0 [] StopOf(c) = "in1" -> 1 [] StopOf(c) = "in2" -> 2 [] OTHER -> Len(Inputs(c))
\* what the -o path holds when the command is given: (in place) the input document; a directory; a device that
\* keeps nothing ("sink": there is nothing to look at afterwards); an earlier result; nothing
OutBefore(c) ==
  CASE AliasOf(c) # "none" -> "doc"
    [] OFaultOf(c) = "isdir" -> "dir"
    [] OFaultOf(c) = "full" -> "sink"
    [] PreOf(c) = "stale" -> "stale"
    [] OTHER -> "absent"

Start(c) ==
  /\ cfg = c /\ pc = "parse" /\ opened = <<>> /\ lib = NoLib /\ calls = <<>>
  /\ stdout = <<>> /\ stderr = <<>> /\ outfile = OutBefore(c) /\ status = -1

Fail(msg) == stderr' = Append(stderr, msg) /\ status' = 1 /\ pc' = "exit"

\* flag.Parse, program source selection, stdin detection
ParseFlags ==
  /\ pc = "parse" /\ pc' = "load"
  /\ UNCHANGED <<cfg, opened, lib, calls, stdout, stderr, outfile, status>>

\* os.ReadFile(-f) or the first argument
LoadProgram ==
  /\ pc = "load"
  /\ IF cfg.progVia = "file" /\ cfg.badProg
       THEN Fail("program file") /\ UNCHANGED <<cfg, opened, lib, calls, stdout, outfile>>
       ELSE pc' = "open" /\ UNCHANGED <<cfg, opened, lib, calls, stdout, stderr, outfile, status>>

\* os.Open of each named file, in order; the first failure ends the run.  Every input is opened before the program
\* runs, whether or not the program will get as far as reading it (StopOf)
OpenInput ==
  /\ pc = "open" /\ Len(opened) < Len(Inputs(cfg))
  /\ LET i == Len(opened) + 1 IN
     IF cfg.badAt = i
       THEN Fail("input file") /\ UNCHANGED <<cfg, opened, lib, calls, stdout, outfile>>
       ELSE opened' = Append(opened, Inputs(cfg)[i])
            /\ UNCHANGED <<cfg, pc, lib, calls, stdout, stderr, outfile, status>>

\* lang.EvalProgram(program, inputs, selectors, os.Stdout): r is what it returns
Evaluate(r) ==
  /\ pc = "open" /\ Len(opened) = Len(Inputs(cfg))
  /\ r \in LibResults
  /\ lib' = r
  \* the evaluator reads its inputs during the call: an input that is also the -o path holds what that path holds NOW
  /\ calls' = Append(calls, [inputs |-> opened, sels |-> Selectors(cfg), text |-> TextOf(cfg),
                             read |-> [i \in 1..NReads(cfg) |-> IF AliasOf(cfg) = "none" THEN "doc" ELSE outfile]])
  /\ stdout' = Append(stdout, "lib")
  /\ IF r.outcome = "err"
       THEN Fail("evaluation") /\ UNCHANGED <<cfg, opened, outfile>>
       ELSE pc' = "json" /\ UNCHANGED <<cfg, opened, stderr, outfile, status>>

NoJson ==
  /\ pc = "json" /\ cfg.out = "none"
  /\ status' = 0 /\ pc' = "exit"
  /\ UNCHANGED <<cfg, opened, lib, calls, stdout, stderr, outfile>>

RefuseMultiInputJson ==
  /\ pc = "json" /\ cfg.out # "none" /\ Len(Inputs(cfg)) > 1
  /\ Fail("several inputs") /\ UNCHANGED <<cfg, opened, lib, calls, stdout, outfile>>

\* ev.GetRootJson(): the document is made BEFORE its destination is touched; -o - prints it
SerialiseJson ==
  /\ pc = "json" /\ cfg.out # "none" /\ Len(Inputs(cfg)) <= 1
  /\ IF lib.json # "ok"
       THEN Fail("json") /\ UNCHANGED <<cfg, opened, lib, calls, stdout, outfile>>
       ELSE IF cfg.out = "dash"
              THEN /\ stdout' = Append(stdout, "json") /\ status' = 0 /\ pc' = "exit"
                   /\ UNCHANGED <<cfg, opened, lib, calls, stderr, outfile>>
              ELSE pc' = "create" /\ UNCHANGED <<cfg, opened, lib, calls, stdout, stderr, outfile, status>>

\* os.Create(-o FILE): whatever FILE held is gone from here on (a device keeps nothing anyway)
CreateOut ==
  /\ pc = "create"
  /\ IF OFaultOf(cfg) \in CreateFaults
       THEN Fail("create") /\ UNCHANGED <<cfg, opened, lib, calls, stdout, outfile>>
       ELSE /\ outfile' = (IF outfile = "sink" THEN "sink" ELSE "empty") /\ pc' = "write"
            /\ UNCHANGED <<cfg, opened, lib, calls, stdout, stderr, status>>

\* file.WriteString(document): a write that fails is an error of the run like any other
WriteOut ==
  /\ pc = "write"
  /\ IF OFaultOf(cfg) \in WriteFaults
       THEN Fail("write") /\ UNCHANGED <<cfg, opened, lib, calls, stdout, outfile>>
       ELSE /\ outfile' = "json" /\ status' = 0 /\ pc' = "exit"
            /\ UNCHANGED <<cfg, opened, lib, calls, stdout, stderr>>

\* os.Exit(code): nothing happens afterwards
ExitWith == pc = "exit" /\ UNCHANGED cvars

CliNext(r) == ParseFlags \/ LoadProgram \/ OpenInput \/ Evaluate(r) \/ NoJson \/ RefuseMultiInputJson \/ SerialiseJson \/ CreateOut \/ WriteOut \/ ExitWith

-----------------------------------------------------------------------------
(* The same wrapper as a function of (command line, library result): what    *)
(* the statement promises, written without reference to the steps.           *)

InputFault(c) == c.badAt \in 1..c.nfiles
ProgFault(c) == c.progVia = "file" /\ c.badProg
Evaluated(c) == ~ProgFault(c) /\ ~InputFault(c)
JsonWanted(c) == c.out # "none"
JsonOk(c, r) == Len(Inputs(c)) <= 1 /\ r.json = "ok"
\* the destination of the document can be created and written
OutOk(c) == c.out # "path" \/ OFaultOf(c) = "none"

Result(c, r) ==
  LET ev == Evaluated(c)
      ok == ev /\ r.outcome = "ok" /\ (JsonWanted(c) => (JsonOk(c, r) /\ OutOk(c)))
  IN [status0 |-> ok,
      diag |-> ~ok,
      stdout |-> (IF ev THEN <<"lib">> ELSE <<>>) \o (IF ok /\ c.out = "dash" THEN <<"json">> ELSE <<>>),
      outfile |-> IF ok /\ c.out = "path" THEN "json" ELSE OutBefore(c),
      calls |-> IF ev THEN <<[inputs |-> Inputs(c), sels |-> Selectors(c), text |-> TextOf(c),
                              read |-> [i \in 1..NReads(c) |-> "doc"]]>> ELSE <<>>]

Observed ==
  [status0 |-> status = 0, diag |-> stderr # <<>>, stdout |-> stdout, outfile |-> outfile, calls |-> calls]

\* ---- stdout as a byte stream.  A token stands for the bytes it names: "lib" for what the program wrote --
\* the text itself when it travels on a raw output channel, else the opaque "<lib>" --, "json" for the document.
\* The stream is ONE sequence of bytes in the order of the writes: nothing the program wrote may still be
\* under way when the wrapper writes, whether or not the program's last line is complete.
LibBytes(c) == IF TextOf(c).chan \in RawOutChans THEN TextOf(c).bytes ELSE <<"<lib>">>
StreamOf(c, toks) == FlattenSeq([i \in 1..Len(toks) |-> IF toks[i] = "lib" THEN LibBytes(c) ELSE <<"<json>">>])
IsPrefix(a, b) == Len(a) <= Len(b) /\ SubSeq(b, 1, Len(a)) = a

\* ---- properties of the transition system (checked in every reachable state)
CliTypeOK ==
  /\ pc \in {"parse", "load", "open", "json", "create", "write", "exit"}
  /\ status \in {-1, 0, 1} /\ (status = -1 <=> pc # "exit")
  /\ outfile \in {"absent", "stale", "doc", "dir", "sink", "empty", "json"}
  /\ Len(calls) <= 1

\* status = 0 iff the library succeeded and the JSON step (if any) did
StatusIffOk ==
  pc = "exit" => (status = 0 <=> (Len(calls) = 1 /\ lib.outcome = "ok" /\ (JsonWanted(cfg) => (JsonOk(cfg, lib) /\ OutOk(cfg)))))
\* a failure always comes with a diagnostic, a success never writes one here
DiagIffFail == pc = "exit" => (status # 0 <=> stderr # <<>>)
\* stdout = the library's output, then the document iff -o - succeeded
StdoutShape ==
  /\ stdout \in {<<>>, <<"lib">>, <<"lib", "json">>}
  /\ (stdout = <<"lib", "json">>) <=> (pc = "exit" /\ status = 0 /\ cfg.out = "dash")
  /\ (outfile = "json") <=> (pc = "exit" /\ status = 0 /\ cfg.out = "path")
\* the bytes on stdout: once the library was called, everything it wrote comes first, whatever its last byte is;
\* the document follows it and nothing follows the document
ByteOrder ==
  LET st == StreamOf(cfg, stdout) IN
  /\ Len(calls) = 1 => IsPrefix(LibBytes(cfg), st)
  /\ Len(calls) = 0 => st = <<>>
  /\ \A i \in 1..Len(st) : st[i] = "<json>" => i = Len(st) /\ i = Len(LibBytes(cfg)) + 1
\* the library is called at most once, after every input was opened, with inputs and selectors in command-line order
CallOrder ==
  \A k \in 1..Len(calls) : calls[k].inputs = Inputs(cfg) /\ calls[k].sels = Selectors(cfg) /\ opened = Inputs(cfg)
\* a run that succeeds has opened every input, also those the program never got to read (it exited before): an
\* input that cannot be used is never forgiven
OpensAll == (pc \in {"json", "exit"} /\ status # 1) => opened = Inputs(cfg)
\* the evaluator reads every input as it was when the command was given: the -o path is written when the
\* evaluation is over, and only then (rewriting the input in place works)
ReadsOriginal ==
  /\ \A k \in 1..Len(calls) : \A i \in DOMAIN calls[k].read : calls[k].read[i] = "doc"
  /\ outfile # OutBefore(cfg) => (pc \in {"write", "exit"} /\ status # 1 /\ Len(calls) = 1)
\* -o FILE is touched only when there is a document to write: the evaluation succeeded AND the root could be
\* serialised (what -o - would print exists).  A run that fails for any reason -- the program, the root has no JSON
\* form, several inputs, an unusable input, FILE cannot be created -- leaves FILE as it found it: not created,
\* an earlier result not truncated, the input (in place) not destroyed.  [A failed write is modelled on a device
\* only: what a regular file holds after a write that failed half way is not fixed by anything.]
TouchedLate ==
  outfile # OutBefore(cfg) => (cfg.out = "path" /\ Len(calls) = 1 /\ lib.outcome = "ok" /\ lib.json = "ok" /\ Len(Inputs(cfg)) <= 1)
FailureWritesNothing == (pc = "exit" /\ status = 1) => outfile = OutBefore(cfg)
\* a failing create / write is reported: never status 0 with the document not in FILE
OutFaultReported ==
  (pc = "exit" /\ cfg.out = "path" /\ OFaultOf(cfg) # "none") => (status = 1 /\ stderr # <<>> /\ outfile = OutBefore(cfg))
\* the library sees the texts of the command line byte for byte, however the program was given
Transparent == \A k \in 1..Len(calls) : calls[k].text = TextOf(cfg)
\* inputs are opened in order, none after a failure
OpenOrder == \A i \in 1..Len(opened) : opened[i] = Inputs(cfg)[i] /\ (cfg.badAt = 0 \/ i < cfg.badAt)
\* the steps agree with the function
AgreesWithResult == pc = "exit" => Observed = Result(cfg, lib)

\* ---- relational laws of the function, over a set of command lines C
\* -f behaves as the same text given inline
LawProgVia(C) ==
  \A c \in C : \A r \in LibResults :
    ~ProgFault(c) => Result([c EXCEPT !.progVia = "inline"], r) = Result([c EXCEPT !.progVia = "file", !.badProg = FALSE], r)
\* stdin behaves as one named file (the library is told a different name; that is all)
LawStdin(C) ==
  \A c \in C : \A r \in LibResults :
    (c.nfiles = 1 /\ ~InputFault(c)) =>
      LET a == Result(c, r) b == Result([c EXCEPT !.nfiles = 0, !.badAt = 0], r) IN
      /\ a.status0 = b.status0 /\ a.diag = b.diag /\ a.stdout = b.stdout /\ a.outfile = b.outfile
      /\ Len(a.calls) = Len(b.calls)
\* a path named twice is two inputs like any two: the wrapper decides nothing by it, the library gets both
LawSamePath(C) ==
  \A c \in C : \A r \in LibResults :
    (c.nfiles = 2 /\ ~c.same /\ c.badAt <= 1) =>
      LET a == Result(c, r) b == Result([c EXCEPT !.same = TRUE], r) IN
      /\ a.status0 = b.status0 /\ a.diag = b.diag /\ a.stdout = b.stdout /\ a.outfile = b.outfile
      /\ Len(a.calls) = Len(b.calls)
      /\ \A k \in 1..Len(b.calls) : Len(b.calls[k].inputs) = 2 /\ b.calls[k].inputs[1] = b.calls[k].inputs[2]
\* -o FILE receives exactly what -o - appends after the program's own output, with the same status
LawOutPath(C) ==
  \A c \in C : \A r \in LibResults :
    LET d == Result([c EXCEPT !.out = "dash"], r) p == Result([c EXCEPT !.out = "path"], r)
        n == Result([c EXCEPT !.out = "none"], r) IN
    /\ p.stdout = n.stdout
    /\ IF OFaultOf(c) = "none"
         THEN /\ d.status0 = p.status0
              /\ (p.outfile = "json") <=> (d.stdout = n.stdout \o <<"json">>)
              \* also on every error path: -o - prints nothing more <=> FILE is as it was found
              /\ (p.outfile = OutBefore([c EXCEPT !.out = "path"])) <=> (d.stdout = n.stdout)
         ELSE ~p.status0 /\ p.diag /\ p.outfile = OutBefore([c EXCEPT !.out = "path"])
\* the same on the byte stream: -o - prints every byte of the run without -o, then the document, then nothing
LawOutBytes(C) ==
  \A c \in C : \A r \in LibResults :
    LET d == Result([c EXCEPT !.out = "dash"], r) p == Result([c EXCEPT !.out = "path"], r)
        n == Result([c EXCEPT !.out = "none"], r) IN
    /\ StreamOf(c, p.stdout) = StreamOf(c, n.stdout)
    /\ OFaultOf(c) = "none" => StreamOf(c, d.stdout) = StreamOf(c, n.stdout) \o (IF p.outfile = "json" THEN <<"<json>">> ELSE <<>>)
\* what the wrapper decides does not depend on where the program stops: an unusable input or -o with several
\* inputs is refused also when the program exits before it would have read that input
StopsAll == {"never", "begin", "in1", "in2"}
LawStop(C) ==
  \A c \in C : \A r \in LibResults : \A s \in StopsAll :
    ("stop" \in DOMAIN c /\ c.stop # "pool") =>
      LET a == Result(c, r) b == Result([c EXCEPT !.stop = s], r) IN
      /\ a.status0 = b.status0 /\ a.diag = b.diag /\ a.stdout = b.stdout /\ a.outfile = b.outfile
      /\ Len(a.calls) = Len(b.calls)
      /\ (InputFault(c) \/ (JsonWanted(c) /\ c.nfiles > 1)) => (~b.status0 /\ b.diag)
\* -o FILE where FILE is the input: the run is that of a FILE of its own (the evaluator read the document), and
\* FILE holds the JSON afterwards; after a failure it still holds the document
LawInPlace(C) ==
  \A c \in C : \A r \in LibResults :
    AliasOf(c) # "none" =>
      LET a == Result(c, r) b == Result([c EXCEPT !.alias = "none"], r) IN
      /\ a.status0 = b.status0 /\ a.diag = b.diag /\ a.stdout = b.stdout /\ a.calls = b.calls
      /\ (a.outfile = "json") <=> (b.outfile = "json")
      /\ a.outfile \in {"json", "doc"} /\ (a.outfile = "doc" <=> ~a.status0)
\* a -o FILE that cannot be created or written: whatever the run is, it fails with a diagnostic; everything else
\* (what is evaluated, what the program prints) is as with a good FILE, and a run that fails anyway fails alike
LawOutFault(C) ==
  \A c \in C : \A r \in LibResults : \A f \in OutFaults :
    ("ofault" \in DOMAIN c /\ c.ofault = "none" /\ c.out = "path" /\ AliasOf(c) = "none" /\ PreOf(c) = "absent") =>
      LET a == Result(c, r) b == Result([c EXCEPT !.ofault = f], r) IN
      /\ ~b.status0 /\ b.diag /\ b.stdout = a.stdout /\ b.calls = a.calls
      /\ b.outfile = OutBefore([c EXCEPT !.ofault = f])
\* what FILE held before does not matter: same status, same output, and FILE holds the document or what it held
LawPre(C) ==
  \A c \in C : \A r \in LibResults :
    ("pre" \in DOMAIN c /\ c.pre = "stale") =>
      LET a == Result(c, r) b == Result([c EXCEPT !.pre = "absent"], r) IN
      /\ a.status0 = b.status0 /\ a.diag = b.diag /\ a.stdout = b.stdout /\ a.calls = b.calls
      /\ (a.outfile = "json") <=> (b.outfile = "json")
      /\ a.outfile \in {"json", "stale"} /\ (a.outfile = "stale" <=> ~a.status0)
\* every error, an unusable file, -o with several inputs, and a -o FILE that cannot be created or written:
\* non-zero and a diagnostic
LawErrors(C) ==
  \A c \in C : \A r \in LibResults :
    LET x == Result(c, r) IN
    /\ (ProgFault(c) \/ InputFault(c) \/ r.outcome = "err" \/ (JsonWanted(c) /\ c.nfiles > 1) \/ (JsonWanted(c) /\ r.json # "ok")
        \/ (c.out = "path" /\ OFaultOf(c) # "none")) => (~x.status0 /\ x.diag)
    /\ x.status0 <=> ~x.diag
=============================================================================
