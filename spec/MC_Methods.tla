---------------------------- MODULE MC_Methods ----------------------------
(* C16: string / number / object methods, num() and json().  Algebraic laws *)
(* over complete small domains, one vector per case:                        *)
(*   str    every string of <= MaxLen symbols: length, upper, lower         *)
(*   split  every such string x every separator of <= 2 symbols (+ empty)   *)
(*   num    every k/4 with |k| <= 22, and +-2^53: floor, ceil, round        *)
(*   pluck  every key set over {a,b,c} x every key list of length <= 3      *)
(*   proto  key lists that name a method of the object prototype            *)
(*   numb   num() on the string universe of DESIGN.md 3.1                   *)
(*   call   every method / builtin x every receiver kind x argument lists   *)
(*          outside the documented contract: "neutral value or a runtime    *)
(*          error, never a crash"                                           *)
EXTENDS JqValue
CONSTANTS MaxLen

E9 == <<"C3", "A9">>                               \* U+00E9 as its two UTF-8 bytes
Symbols == {<<"a">>, <<"B">>, <<",">>, E9, <<" ">>}
SymSeqs(n) == SeqsUpTo(Symbols, n)
Bytes(ss) == FlattenSeq(ss)                        \* a symbol sequence as a byte string
S(str) == VStr(Chars(str))

\* ---- objects
KA == Chars("a")  KB == Chars("b")  KC == Chars("c")
Keys == {KA, KB, KC}
KeyOrder == <<KA, KB, KC>>
ValOf(key) == CASE key = KA -> I(1) [] key = KB -> S("s") [] key = KC -> VArr(1)
ObjOver(ks) == [key \in ks |-> ValOf(key)]
\* an object / a pluck result as a sequence of [key, val] pairs in KeyOrder (for the vector)
RECURSIVE PairsFrom(_, _)
PairsFrom(o, order) ==
  IF order = <<>> THEN <<>>
  ELSE (IF Head(order) \in DOMAIN o THEN <<[key |-> Head(order), val |-> o[Head(order)]]>> ELSE <<>>) \o PairsFrom(o, Tail(order))
ProtoKeys == <<Chars("length"), Chars("pluck")>>
ProtoLists == << <<ProtoKeys[1]>>, <<ProtoKeys[2]>>, <<KA, ProtoKeys[1]>>, <<ProtoKeys[1], KB, ProtoKeys[2]>> >>

\* ---- numbers
NumDomain == [i \in 1..45 |-> Num(i - 23, 4, 0)] \o <<Num(1, 1, 53), Num(-1, 1, 53)>>

\* ---- num()
NumbStrings == <<"", "0", "5", "-3", "2.5", "1e2", "10", "9", " 1", "1 ", "abc", "5x", "-0", "+7", ".5", "5.", "1E3", "2e-2",
                 ".", "-", "e5", "1e", "1.2.3", "--1", "0.125">>

\* ---- calls outside the documented contract
Methods == <<"length", "upper", "lower", "split", "floor", "ceil", "round", "pluck">>
Builtins == <<"num", "json">>
Receivers == <<I(5), Num(-5, 2, 0), S("aB"), S(""), VBool(TRUE), VNull, VUnset, VArr(0), VArr(1), VObj(0), VObj(1), VRegex(Chars("x")), VFn>>
ArgLists == << <<>>, <<S(",")>>, <<S("")>>, <<I(1)>>, <<S("a"), S("b")>>, <<S("a"), I(2), VNull>>, <<VNull>>, <<VArr(0)>>, <<VBool(TRUE)>>, <<VObj(1)>>,
               <<VUnset>>, <<VRegex(Chars("x"))>>, <<VFn>>, <<I(5), I(6)>> >>
AllStr(args) == \A i \in 1..Len(args) : args[i].k = "str"
\* is the call inside the contract the statement documents?
Documented(m, recv, args) ==
  CASE m = "length" -> recv.k \in {"str", "obj", "arr"} /\ args = <<>>
    [] m \in {"upper", "lower"} -> recv.k = "str" /\ args = <<>>
    [] m = "split" -> recv.k = "str" /\ Len(args) = 1 /\ args[1].k = "str"
    [] m \in {"floor", "ceil", "round"} -> recv.k = "num" /\ args = <<>>
    [] m = "pluck" -> recv.k = "obj" /\ AllStr(args)
    [] m = "num" -> Len(args) = 1 /\ args[1].k = "str"
    [] m = "json" -> Len(args) = 1 /\ args[1].k \in {"num", "str", "bool", "null", "arr", "obj"}

\* ---- enumeration
VARIABLES fam, a, b, done
vars == <<fam, a, b, done>>
None == <<>>
Init ==
  /\ done = FALSE /\ b = None
  /\ \/ fam = "split" /\ a \in SymSeqs(MaxLen)
     \/ fam = "str" /\ a \in SymSeqs(MaxLen)
     \/ fam = "num" /\ a \in 1..Len(NumDomain)
     \/ fam = "pluck" /\ a \in SUBSET Keys
     \/ fam = "proto" /\ a \in 1..Len(ProtoLists)
     \/ fam = "numb" /\ a \in 1..Len(NumbStrings)
     \/ fam = "call" /\ a \in 1..(Len(Methods) + Len(Builtins))
Next ==
  /\ ~done /\ done' = TRUE /\ UNCHANGED <<fam, a>>
  /\ CASE fam = "split" -> b' \in SymSeqs(2)
       [] fam = "pluck" -> b' \in SeqsUpTo(Keys, 3)
       [] fam = "call" -> b' \in (IF a <= Len(Methods) THEN 1..Len(Receivers) ELSE {0}) \X (1..Len(ArgLists))
       [] OTHER -> b' = None

\* ======================================================================
\* Laws
\* ======================================================================
\* --- split: every way of cutting s at non-overlapping occurrences of sep
Occ(s, sep) == {i \in 1..Len(s) : OccursAt(s, sep, i)}
NonOverlap(P, m) == \A i, j \in P : i < j => i + m <= j
RECURSIVE SortedSeq(_)
SortedSeq(P) == IF P = {} THEN <<>> ELSE LET m == SetMin(P) IN <<m>> \o SortedSeq(P \ {m})
RECURSIVE CutAt(_, _, _, _)
CutAt(s, m, ps, from) ==
  IF ps = <<>> THEN <<SubSeq(s, from, Len(s))>>
  ELSE <<SubSeq(s, from, Head(ps) - 1)>> \o CutAt(s, m, Tail(ps), Head(ps) + m)
Decomps(s, sep) == {CutAt(s, Len(sep), SortedSeq(P), 1) : P \in {Q \in SUBSET Occ(s, sep) : NonOverlap(Q, Len(sep))}}
\* the decompositions the statement allows: joined by sep they give s, and no piece contains sep
Allowed(s, sep) == {ps \in Decomps(s, sep) : \A i \in 1..Len(ps) : ~Contains(ps[i], sep)}
OverlappingOcc(s, sep) == ~NonOverlap(Occ(s, sep), Len(sep))

SplitLaws(ss, seps) ==
  LET s == Bytes(ss)  sep == Bytes(seps)  ps == Split(s, sep) IN
  /\ Join(ps, sep) = s
  /\ sep # <<>> =>
       /\ \A i \in 1..Len(ps) : ~Contains(ps[i], sep)
       /\ ps \in Allowed(s, sep)
       /\ \A qs \in Decomps(s, sep) : Join(qs, sep) = s
       /\ ~OverlappingOcc(s, sep) => Allowed(s, sep) = {ps} /\ Len(ps) = Cardinality(Occ(s, sep)) + 1
       /\ Len(ps) >= 1
  /\ sep = <<>> => ps = ss                     \* the characters: exactly the symbols the string was built from
  /\ Len(sep) > Len(s) => ps = <<s>>

StrLaws(ss) ==
  LET s == Bytes(ss) IN
  /\ StrLen(s) = Len(ss) + Cardinality({i \in 1..Len(ss) : ss[i] = E9})
  /\ Len(Upper(s)) = Len(s) /\ Len(Lower(s)) = Len(s)
  /\ Upper(Upper(s)) = Upper(s) /\ Lower(Lower(s)) = Lower(s)
  /\ Lower(Upper(s)) = Lower(s) /\ Upper(Lower(s)) = Upper(s)
  /\ \A i \in 1..Len(s) : s[i] \notin {"a", "B"} => Upper(s)[i] = s[i] /\ Lower(s)[i] = s[i]
  /\ \A i \in 1..Len(s) : s[i] = "a" => Upper(s)[i] = "A" /\ Lower(s)[i] = "a"
  /\ \A i \in 1..Len(s) : s[i] = "B" => Upper(s)[i] = "B" /\ Lower(s)[i] = "b"
  /\ CharsOf(s) = ss

Half == Num(1, 2, 0)
AbsNum(x) == IF x.n < 0 THEN Neg(x) ELSE x
NumLaws(x) ==
  LET f == Floor(x)  c == Ceil(x)  r == Round(x)  d == AbsNum(Sub(r, x)) IN
  /\ IsInteger(f) /\ IsInteger(c) /\ IsInteger(r)
  /\ NumCmp(f, x) <= 0 /\ NumCmp(x, c) <= 0
  /\ NumEq(c, Neg(Floor(Neg(x))))
  /\ IsInteger(x) => NumEq(f, x) /\ NumEq(c, x) /\ NumEq(r, x)
  /\ Small(x) =>                                                     \* (2^53 + 1 is outside the 32-bit arithmetic)
       /\ NumCmp(x, Add(f, I(1))) < 0 /\ NumCmp(Sub(c, I(1)), x) < 0
       /\ ~IsInteger(x) => NumEq(c, Add(f, I(1)))
       /\ NumCmp(d, Half) <= 0
       /\ NumCmp(d, Half) = 0 => NumCmp(AbsNum(r), AbsNum(x)) > 0    \* halves away from zero
  /\ NumEq(Round(Neg(x)), Neg(r))
  /\ NumEq(r, f) \/ NumEq(r, c)
NumAnchors ==
  /\ Round(Num(-5, 2, 0)) = I(-3) /\ Round(Num(5, 2, 0)) = I(3) /\ Round(Num(1, 4, 0)) = Zero /\ Round(Num(-1, 2, 0)) = I(-1)
  /\ Floor(Num(-1, 4, 0)) = I(-1) /\ Ceil(Num(-1, 4, 0)) = Zero /\ Ceil(Num(1, 4, 0)) = I(1) /\ Floor(Num(11, 2, 0)) = I(5)
  /\ Round(Num(7, 4, 0)) = I(2) /\ Round(Num(-7, 4, 0)) = I(-2) /\ Floor(Num(1, 1, 53)) = Num(1, 1, 53)

PluckLaws(ks, keys) ==
  LET o == ObjOver(ks)
      h == [i \in {1} |-> o]
      r == PluckH(h, 1, keys)
      p == r.heap[r.id]
  IN
  /\ r.id \notin DOMAIN h                                           \* a fresh object
  /\ r.heap[1] = o                                                  \* the receiver is unchanged
  /\ DOMAIN p = Range(keys)                                         \* exactly the requested keys
  /\ \A key \in DOMAIN p : p[key] = (IF key \in ks THEN ValOf(key) ELSE VNull)
  /\ ObjLen(p) = Cardinality(Range(keys)) /\ ObjLen(p) <= Len(keys)
  /\ \A key \in Keys : SetKeyH(r.heap, r.id, key, I(99))[1] = o     \* writing to the result does not reach the receiver
  /\ Pluck(p, keys) = p                                             \* idempotent
  /\ Pluck(o, KeyOrder) = [key \in Keys |-> IF key \in ks THEN ValOf(key) ELSE VNull]

NumbLaws(i) ==
  LET s == Chars(NumbStrings[i])  r == NumBuiltin(VStr(s)) IN
  /\ r.k \in {"num", "null"}
  /\ (r.k = "num") = ParseNum(s).ok
  /\ r.k = "num" => r = NumOf(VStr(s))
  /\ r.k = "num" /\ r.d = 1 /\ Len(NumText(r)) <= 8 => NumBuiltin(VStr(NumText(r))) = r     \* text of a dyadic number reads back
NumbAnchors ==
  /\ NumBuiltin(S("2.5")) = Num(5, 2, 0) /\ NumBuiltin(S("1e2")) = I(100) /\ NumBuiltin(S("-0")) = NegZero /\ NumBuiltin(S(".5")) = Num(1, 2, 0)
  /\ NumBuiltin(S("5.")) = I(5) /\ NumBuiltin(S("2e-2")) = Num(1, 50, 0) /\ NumBuiltin(S("0.125")) = Num(1, 8, 0) /\ NumBuiltin(S("+7")) = I(7)
  /\ \A t \in {"", " 1", "1 ", "abc", "5x", ".", "-", "e5", "1e", "1.2.3", "--1"} : NumBuiltin(S(t)) = VNull

CallName(i) == IF i <= Len(Methods) THEN Methods[i] ELSE Builtins[i - Len(Methods)]
CallRecv == IF b[1] = 0 THEN VNull ELSE Receivers[b[1]]

Laws == done =>
  CASE fam = "split" -> SplitLaws(a, b)
    [] fam = "str" -> StrLaws(a)
    [] fam = "num" -> NumLaws(NumDomain[a])
    [] fam = "pluck" -> PluckLaws(a, b)
    [] fam = "numb" -> NumbLaws(a)
    [] OTHER -> TRUE
ASSUME NumAnchors
ASSUME NumbAnchors

\* ======================================================================
\* Vectors
\* ======================================================================
Vec == done =>
  CASE fam = "split" ->
         LET s == Bytes(a)  sep == Bytes(b) IN
         Emit([fam |-> fam, s |-> s, sep |-> sep, pieces |-> Split(s, sep),
               unique |-> (sep # <<>> /\ Cardinality(Allowed(s, sep)) = 1)])
    [] fam = "str" ->
         LET s == Bytes(a) IN
         Emit([fam |-> fam, s |-> s, len |-> StrLen(s), upper |-> Upper(s), lower |-> Lower(s)])
    [] fam = "num" ->
         LET x == NumDomain[a] IN
         Emit([fam |-> fam, x |-> x, floor |-> Floor(x), ceil |-> Ceil(x), round |-> Round(x)])
    [] fam = "pluck" ->
         LET o == ObjOver(a)  p == Pluck(o, b) IN
         Emit([fam |-> fam, obj |-> PairsFrom(o, KeyOrder), keys |-> b, res |-> PairsFrom(p, KeyOrder), len |-> ObjLen(p), olen |-> ObjLen(o)])
    [] fam = "proto" ->
         \* the object {a: 1}; keys that name a prototype method are absent keys: null
         LET o == ObjOver({KA})  keys == ProtoLists[a]  p == Pluck(o, keys) IN
         Emit([fam |-> fam, obj |-> PairsFrom(o, KeyOrder), keys |-> keys,
               res |-> PairsFrom(p, KeyOrder \o ProtoKeys), len |-> ObjLen(p), olen |-> 1, protokeys |-> ProtoKeys])
    [] fam = "numb" ->
         Emit([fam |-> fam, s |-> Chars(NumbStrings[a]), res |-> NumBuiltin(S(NumbStrings[a]))])
    [] fam = "call" ->
         Emit([fam |-> fam, m |-> CallName(a), builtin |-> (a > Len(Methods)), recv |-> CallRecv, args |-> ArgLists[b[2]],
               documented |-> Documented(CallName(a), CallRecv, ArgLists[b[2]])])
=============================================================================
