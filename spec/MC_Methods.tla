---------------------------- MODULE MC_Methods ----------------------------
(* C16: string / number / object methods, num() and json().  Algebraic laws *)
(* over complete small domains, one vector per case:                        *)
(*   str    every string of <= CaseLen characters over an alphabet with     *)
(*          cased letters of every kind: length, upper, lower               *)
(*   casetab  the case table itself (for the harness's seeded strings)      *)
(*   split  every such string x every separator of <= 2 symbols (+ empty)   *)
(*   num    every k/4 with |k| <= 22, and +-2^53: floor, ceil, round        *)
(*   pluck  every key set over {a,b,c} x every key list of length <= 3      *)
(*   pluckw every key set x key list of length <= 2 x one write (= += -= ++ *)
(*          -- prefix/postfix) to one key through the copy or the receiver  *)
(*   pluckj every key set over {a,b,c,d} (d holds an object) x key list of   *)
(*          length <= 2 x nine arrangements of the receiver, the result and  *)
(*          their shared member, written by json(): shared is not cyclic     *)
(*   proto  key lists that name a method of the object prototype            *)
(*   pluckk every key set over {a, 1, 2.5, -3} x every list of <= KeyLen key  *)
(*          ARGUMENTS of both kinds an object is indexed with: strings and   *)
(*          numbers (a number names the key that is its decimal text, as in  *)
(*          o[1]); pluck(x) holds what o[x] reads                            *)
(*   numb   num() on the string universe of DESIGN.md 3.1                   *)
(*   numbig num() on digit strings of every length up to 22 around the      *)
(*          powers of two and ten, with signs, zeros, fractions, exponents   *)
(*   call   every method / builtin x every receiver kind x argument lists   *)
(*          outside the documented contract: "neutral value or a runtime    *)
(*          error, never a crash"                                           *)
EXTENDS JqValue
CONSTANTS MaxLen, CaseLen, KeyLen

E9 == <<"C3", "A9">>                               \* U+00E9 as its two UTF-8 bytes
Symbols == {<<"a">>, <<"B">>, <<",">>, E9, <<" ">>}
SymSeqs(n) == SeqsUpTo(Symbols, n)
Bytes(ss) == FlattenSeq(ss)                        \* a symbol sequence as a byte string
S(str) == VStr(Chars(str))
\* the alphabet of the case-mapping family: ASCII, and non-ASCII characters of 2, 3 and 4 bytes with and without case
CaseSymbols == {<<"a">>, <<"B">>, <<"1">>, E9, HB("C785"), HB("E285B7"), HB("E292B6"), HB("CD85"), HB("CF89"), HB("E4B896"), HB("F09090A8")}
Caseless == {HB("E4B896"), HB("F09F9880")}                       \* U+4E16, U+1F600
CaseSeqs(n) == SeqsUpTo(CaseSymbols, n)

RECURSIVE SetSeq(_)
SetSeq(T) == IF T = {} THEN <<>> ELSE LET x == CHOOSE x \in T : TRUE IN <<x>> \o SetSeq(T \ {x})
\* ---- objects
KA == Chars("a")  KB == Chars("b")  KC == Chars("c")
Keys == {KA, KB, KC}
KeyOrder == <<KA, KB, KC>>
ValOf(key) == CASE key = KA -> I(1) [] key = KB -> S("s") [] key = KC -> VArr(1)
ObjOver(ks) == [key \in ks |-> ValOf(key)]
\* an object / a pluck result as a sequence of [key, val] pairs in KeyOrder (for the vector)
RECURSIVE PairsFrom(_, _)
PairsFrom(o, order) ==
  IF order = <<>> THEN <<>>
  ELSE (IF Head(order) \in DOMAIN o THEN <<[key |-> Head(order), val |-> o[Head(order)]]>> ELSE <<>>) \o PairsFrom(o, Tail(order))
\* ---- family "pluckj": the receiver and the result of pluck written TOGETHER by json().  The result holds "the
\* original's values": a member that is an array or an object is the SAME array / object in both (a shallow copy).
\* A value in which a container is reachable along two paths is still a finite tree for json() -- only a value that
\* contains ITSELF is refused -- so json() of any arrangement of o, p = o.pluck(keys), o.d and p.d is the JSON text of
\* the arrangement with every occurrence written out.  An arrangement is a tree: a leaf names o, p, o.d or p.d.
KD == Chars("d")
KeysJ == Keys \cup {KD}
KeyOrderJ == KeyOrder \o <<KD>>
ValOfJ(key) == IF key = KD THEN VObj(1) ELSE ValOf(key)
ObjOverJ(ks) == [key \in ks |-> ValOfJ(key)]
JLeaf(x) == [t |-> "leaf", x |-> x]
JArr(items) == [t |-> "arr", items |-> items]
JObj(keys, items) == [t |-> "obj", keys |-> keys, items |-> items]
Arrangements == <<
  JArr(<<JLeaf("o"), JLeaf("p")>>),                                            \* [o, p]
  JObj(<<"orig", "copy">>, <<JLeaf("o"), JLeaf("p")>>),                        \* {orig: o, copy: p}
  JArr(<<JLeaf("p"), JLeaf("p")>>),                                            \* the result twice
  JObj(<<"orig", "copies">>, <<JLeaf("o"), JArr(<<JLeaf("p"), JLeaf("p")>>)>>),
  JArr(<<JLeaf("od"), JLeaf("pd")>>),                                          \* the shared member itself, twice
  JArr(<<JLeaf("p"), JLeaf("o"), JLeaf("p"), JLeaf("od")>>),
  JObj(<<"x", "y">>, <<JObj(<<"z">>, <<JLeaf("p")>>), JObj(<<"z">>, <<JLeaf("o")>>)>>),
  JLeaf("p"), JLeaf("o") >>
\* the arrangement with every leaf written out: o and p as their members, o.d / p.d as the member's value (null when absent)
MemberOrNull(obj, key) == IF key \in DOMAIN obj THEN obj[key] ELSE VNull
RECURSIVE Unfold(_, _, _)
Unfold(tr, o, p) ==
  CASE tr.t = "leaf" ->
         (CASE tr.x = "o" -> [t |-> "pairs", pairs |-> PairsFrom(o, KeyOrderJ)]
            [] tr.x = "p" -> [t |-> "pairs", pairs |-> PairsFrom(p, KeyOrderJ)]
            [] tr.x = "od" -> [t |-> "val", val |-> MemberOrNull(o, KD)]
            [] tr.x = "pd" -> [t |-> "val", val |-> MemberOrNull(p, KD)])
    [] tr.t = "arr" -> [t |-> "arr", items |-> [i \in 1..Len(tr.items) |-> Unfold(tr.items[i], o, p)]]
    [] tr.t = "obj" -> [t |-> "obj", keys |-> tr.keys, items |-> [i \in 1..Len(tr.items) |-> Unfold(tr.items[i], o, p)]]
\* the containers (by identity) an arrangement reaches, with multiplicity: o, p, and the members of o that are containers
\* (p's members ARE o's members)
RECURSIVE LeavesOf(_)
LeavesOf(tr) == IF tr.t = "leaf" THEN <<tr.x>> ELSE FlattenSeq([i \in 1..Len(tr.items) |-> LeavesOf(tr.items[i])])
IsContainer(v) == v.k \in {"arr", "obj"}
ReachCount(tr, o, p, key) ==          \* how many times the container o[key] is written out
  Cardinality({i \in 1..Len(LeavesOf(tr)) :
     \/ LeavesOf(tr)[i] = "o" /\ key \in DOMAIN o
     \/ LeavesOf(tr)[i] = "p" /\ key \in DOMAIN p /\ key \in DOMAIN o
     \/ LeavesOf(tr)[i] = "od" /\ key = KD /\ KD \in DOMAIN o
     \/ LeavesOf(tr)[i] = "pd" /\ key = KD /\ KD \in DOMAIN p /\ KD \in DOMAIN o})
\* ---- family "pluckk": key arguments by kind.  An object is indexed with strings AND numbers: a number names the key
\* that is its decimal text (o[1] and o["1"] are the same member, o[10/4] is o["2.5"]); pluck takes its keys the same way.
KeysK == {Chars("a"), Chars("1"), Chars("2.5"), Chars("-3")}
ValOfK(key) == CASE key = Chars("a") -> I(1) [] key = Chars("1") -> S("one") [] key = Chars("2.5") -> VArr(1) [] key = Chars("-3") -> VBool(TRUE)
ObjOverK(ks) == [key \in ks |-> ValOfK(key)]
KeyArgs == <<S("a"), S("1"), I(1), S("2.5"), Num(5, 2, 0), I(-3), I(0), I(7), Num(1, 4, 0), S("zz")>>
ArgKey(v) == IF v.k = "num" THEN NumText(v) ELSE v.s                \* the key an index / pluck argument names
ArgKeys(args) == [i \in 1..Len(args) |-> ArgKey(args[i])]
PluckArgs(o, args) == Pluck(o, ArgKeys(args))
IndexObj(o, v) == IF ArgKey(v) \in DOMAIN o THEN o[ArgKey(v)] ELSE VNull       \* what o[v] reads
KeyOrderK == SetSeq(KeysK \cup Range(ArgKeys(KeyArgs)))
ProtoKeys == <<Chars("length"), Chars("pluck")>>
ProtoLists == << <<ProtoKeys[1]>>, <<ProtoKeys[2]>>, <<KA, ProtoKeys[1]>>, <<ProtoKeys[1], KB, ProtoKeys[2]>> >>

\* ---- numbers
NumDomain == [i \in 1..45 |-> Num(i - 23, 4, 0)] \o <<Num(1, 1, 53), Num(-1, 1, 53)>>

\* ---- num()
NumbStrings == <<"", "0", "5", "-3", "2.5", "1e2", "10", "9", " 1", "1 ", "abc", "5x", "-0", "+7", ".5", "5.", "1E3", "2e-2",
                 ".", "-", "e5", "1e", "1.2.3", "--1", "0.125">>

\* ---- num() on long digit strings (family "numbig")
\* little-endian digit sequences (as JqValue.MulDig): + 1 and - 1
RECURSIVE IncLE(_)
IncLE(ds) == IF ds = <<>> THEN <<1>> ELSE IF Head(ds) < 9 THEN <<Head(ds) + 1>> \o Tail(ds) ELSE <<0>> \o IncLE(Tail(ds))
RECURSIVE DecLE(_)
DecLE(ds) == IF Head(ds) > 0 THEN <<Head(ds) - 1>> \o Tail(ds) ELSE <<9>> \o DecLE(Tail(ds))       \* ds > 0
RECURSIVE TrimLE(_)
TrimLE(ds) == IF Len(ds) > 1 /\ ds[Len(ds)] = 0 THEN TrimLE(SubSeq(ds, 1, Len(ds) - 1)) ELSE ds    \* no leading zero
TextLE(ds) == DigText(Rev(TrimLE(ds)))
Pow2LE(k) == MulPow(<<1>>, 2, k)
Pow10LE(k) == [i \in 1..(k + 1) |-> IF i = k + 1 THEN 1 ELSE 0]
BigExps2 == <<31, 32, 53, 62, 63, 64, 70>>
BigExps10 == <<1, 2, 5, 9, 10, 15, 16, 17, 18, 19, 20, 21, 22>>
BigBasesLE == [i \in 1..Len(BigExps2) |-> Pow2LE(BigExps2[i])] \o [i \in 1..Len(BigExps10) |-> Pow10LE(BigExps10[i])]
\* per base b: b - 1, b, b + 1
BigTexts == [i \in 1..(3 * Len(BigBasesLE)) |->
               LET b == BigBasesLE[(i + 2) \div 3] IN
               CASE i % 3 = 1 -> TextLE(DecLE(b)) [] i % 3 = 2 -> TextLE(b) [] OTHER -> TextLE(IncLE(b))]
\* decorations that keep the text numeric: <<prefix, negative, leading zeros>> and <<suffix, fraction digits, exponent>>
BigPrefixes == << <<"", FALSE, <<>> >>, <<"-", TRUE, <<>> >>, <<"+", FALSE, <<>> >>, <<"0", FALSE, <<"0">> >>, <<"-00", TRUE, <<"0", "0">> >> >>
BigSuffixes == << <<"", <<>>, 0>>, <<".", <<>>, 0>>, <<".0", <<"0">>, 0>>, <<"e0", <<>>, 0>>, <<"e1", <<>>, 1>>, <<"E-1", <<>>, -1>>, <<".5", <<"5">>, 0>>,
                  <<"e+2", <<>>, 2>>, <<".50e1", <<"5", "0">>, 1>> >>
\* decorations that make it non-numeric
BadDecor == << <<"", "e">>, <<"", "e+">>, <<"", "..">>, <<"", " ">>, <<"", "x">>, <<"--", "">>, <<" ", "">>, <<"", "e1.5">>, <<"+-", "">> >>
NBigDecor == Len(BigPrefixes) * Len(BigSuffixes)
BigText(i, j) ==                         \* j <= NBigDecor: a numeric decoration; beyond: a bad one
  IF j <= NBigDecor THEN Chars(BigPrefixes[((j - 1) % Len(BigPrefixes)) + 1][1]) \o BigTexts[i] \o Chars(BigSuffixes[((j - 1) \div Len(BigPrefixes)) + 1][1])
  ELSE Chars(BadDecor[j - NBigDecor][1]) \o BigTexts[i] \o Chars(BadDecor[j - NBigDecor][2])

\* ---- calls outside the documented contract
Methods == <<"length", "upper", "lower", "split", "floor", "ceil", "round", "pluck">>
Builtins == <<"num", "json">>
Receivers == <<I(5), Num(-5, 2, 0), S("aB"), S(""), VBool(TRUE), VNull, VUnset, VArr(0), VArr(1), VObj(0), VObj(1), VRegex(Chars("x")), VFn>>
ArgLists == << <<>>, <<S(",")>>, <<S("")>>, <<I(1)>>, <<S("a"), S("b")>>, <<S("a"), I(2), VNull>>, <<VNull>>, <<VArr(0)>>, <<VBool(TRUE)>>, <<VObj(1)>>,
               <<VUnset>>, <<VRegex(Chars("x"))>>, <<VFn>>, <<I(5), I(6)>> >>
AllStr(args) == \A i \in 1..Len(args) : args[i].k = "str"
AllKeys(args) == \A i \in 1..Len(args) : args[i].k \in {"str", "num"}
\* is the call inside the contract the statement documents?
Documented(m, recv, args) ==
  CASE m = "length" -> recv.k \in {"str", "obj", "arr"} /\ args = <<>>
    [] m \in {"upper", "lower"} -> recv.k = "str" /\ args = <<>>
    [] m = "split" -> recv.k = "str" /\ Len(args) = 1 /\ args[1].k = "str"
    [] m \in {"floor", "ceil", "round"} -> recv.k = "num" /\ args = <<>>
    [] m = "pluck" -> recv.k = "obj" /\ AllKeys(args)
    [] m = "num" -> Len(args) = 1 /\ args[1].k = "str"
    [] m = "json" -> Len(args) = 1 /\ args[1].k \in {"num", "str", "bool", "null", "arr", "obj"}

\* ---- enumeration
VARIABLES fam, a, b, done
vars == <<fam, a, b, done>>
None == <<>>
Init ==
  /\ done = FALSE /\ b = None
  /\ \/ fam = "split" /\ a \in SymSeqs(MaxLen)
     \/ fam = "str" /\ a \in CaseSeqs(CaseLen)
     \/ fam = "casetab" /\ a = 0
     \/ fam = "pluckw" /\ a \in SUBSET Keys
     \/ fam = "numbig" /\ a \in 1..Len(BigTexts)
     \/ fam = "num" /\ a \in 1..Len(NumDomain)
     \/ fam = "pluck" /\ a \in SUBSET Keys
     \/ fam = "pluckj" /\ a \in SUBSET KeysJ
     \/ fam = "pluckk" /\ a \in SUBSET KeysK
     \/ fam = "proto" /\ a \in 1..Len(ProtoLists)
     \/ fam = "numb" /\ a \in 1..Len(NumbStrings)
     \/ fam = "call" /\ a \in 1..(Len(Methods) + Len(Builtins))
Next ==
  /\ ~done /\ done' = TRUE /\ UNCHANGED <<fam, a>>
  /\ CASE fam = "split" -> b' \in SymSeqs(2)
       [] fam = "pluck" -> b' \in SeqsUpTo(Keys, 3)
       [] fam = "pluckj" -> b' \in SeqsUpTo(KeysJ, 2) \X (1..Len(Arrangements))
       [] fam = "pluckk" -> b' \in SeqsUpTo(Range(KeyArgs), KeyLen)
       [] fam = "pluckw" -> b' \in SeqsUpTo(Keys, 2) \X {"copy", "recv"} \X Keys \X MemberWrites     \* <<key list, written object, written key, write>>
       [] fam = "numbig" -> b' \in 1..(NBigDecor + Len(BadDecor))
       [] fam = "call" -> b' \in (IF a <= Len(Methods) THEN 1..Len(Receivers) ELSE {0}) \X (1..Len(ArgLists))
       [] OTHER -> b' = None

\* ======================================================================
\* Laws
\* ======================================================================
\* --- split: every way of cutting s at non-overlapping occurrences of sep
Occ(s, sep) == {i \in 1..Len(s) : OccursAt(s, sep, i)}
NonOverlap(P, m) == \A i, j \in P : i < j => i + m <= j
RECURSIVE SortedSeq(_)
SortedSeq(P) == IF P = {} THEN <<>> ELSE LET m == SetMin(P) IN <<m>> \o SortedSeq(P \ {m})
RECURSIVE CutAt(_, _, _, _)
CutAt(s, m, ps, from) ==
  IF ps = <<>> THEN <<SubSeq(s, from, Len(s))>>
  ELSE <<SubSeq(s, from, Head(ps) - 1)>> \o CutAt(s, m, Tail(ps), Head(ps) + m)
Decomps(s, sep) == {CutAt(s, Len(sep), SortedSeq(P), 1) : P \in {Q \in SUBSET Occ(s, sep) : NonOverlap(Q, Len(sep))}}
\* the decompositions the statement allows: joined by sep they give s, and no piece contains sep
Allowed(s, sep) == {ps \in Decomps(s, sep) : \A i \in 1..Len(ps) : ~Contains(ps[i], sep)}
OverlappingOcc(s, sep) == ~NonOverlap(Occ(s, sep), Len(sep))

SplitLaws(ss, seps) ==
  LET s == Bytes(ss)  sep == Bytes(seps)  ps == Split(s, sep) IN
  /\ Join(ps, sep) = s
  /\ sep # <<>> =>
       /\ \A i \in 1..Len(ps) : ~Contains(ps[i], sep)
       /\ ps \in Allowed(s, sep)
       /\ \A qs \in Decomps(s, sep) : Join(qs, sep) = s
       /\ ~OverlappingOcc(s, sep) => Allowed(s, sep) = {ps} /\ Len(ps) = Cardinality(Occ(s, sep)) + 1
       /\ Len(ps) >= 1
  /\ sep = <<>> => ps = ss                     \* the characters: exactly the symbols the string was built from
  /\ Len(sep) > Len(s) => ps = <<s>>

RECURSIVE FoldLen(_)
FoldLen(ss) == IF ss = <<>> THEN 0 ELSE Len(Head(ss)) + FoldLen(Tail(ss))
\* ss: a sequence of characters of CaseSymbols
StrLaws(ss) ==
  LET s == Bytes(ss)  u == Upper(s)  l == Lower(s) IN
  /\ StrLen(s) = Len(s) /\ Len(s) = FoldLen(ss)                   \* bytes, not characters
  /\ CharsOf(s) = ss
  \* character by character, whatever the neighbours are
  /\ u = FlattenSeq([i \in 1..Len(ss) |-> Upper(ss[i])]) /\ l = FlattenSeq([i \in 1..Len(ss) |-> Lower(ss[i])])
  /\ Len(CharsOf(u)) = Len(ss) /\ Len(CharsOf(l)) = Len(ss)
  /\ Upper(u) = u /\ Lower(l) = l
  /\ HB("CD85") \notin Range(ss) => Lower(u) = l /\ Upper(l) = u          \* (U+0345 goes up to U+0399, which comes down to U+03B9)
  /\ \A i \in 1..Len(ss) :
        /\ ss[i] = <<"a">> => CharsOf(u)[i] = <<"A">> /\ CharsOf(l)[i] = <<"a">>
        /\ ss[i] = <<"B">> => CharsOf(u)[i] = <<"B">> /\ CharsOf(l)[i] = <<"b">>
        /\ ss[i] \in {<<"1">>, HB("E4B896")} => CharsOf(u)[i] = ss[i] /\ CharsOf(l)[i] = ss[i]
        /\ ss[i] = HB("C785") => CharsOf(u)[i] = HB("C784") /\ CharsOf(l)[i] = HB("C786")      \* the titlecase digraph changes both ways
        /\ ss[i] = HB("E285B7") => CharsOf(u)[i] = HB("E285A7") /\ CharsOf(l)[i] = ss[i]
        /\ ss[i] = HB("E292B6") => CharsOf(u)[i] = ss[i] /\ CharsOf(l)[i] = HB("E29390")
        /\ ss[i] = HB("CD85") => CharsOf(u)[i] = HB("CE99") /\ CharsOf(l)[i] = ss[i]
\* the table is closed and consistent: images are listed, upper case letters are fixed by Upper, lower case ones by
\* Lower, every row's images map to each other, and no listed character is ASCII or caseless
CaseTableLaws ==
  /\ \A r \in CaseTable :
        /\ CaseRows(r[1]) = {r}                                            \* one row per character
        /\ CaseRows(r[2]) # {} /\ CaseRows(r[3]) # {}
        /\ UpperChar(r[2]) = r[2] /\ LowerChar(r[3]) = r[3]
        /\ UpperChar(r[3]) = r[2] /\ (LowerChar(r[2]) = r[3] \/ r[1] = HB("CD85"))     \* (U+0345: up to U+0399, which comes down to U+03B9)
        /\ Len(r[1]) \in 2..4 /\ CharsOf(r[1]) = <<r[1]>> /\ r[1] \notin Caseless
  /\ \A c \in Caseless : UpperChar(c) = c /\ LowerChar(c) = c
  /\ \A c \in CaseSymbols : Len(c) > 1 => (c \in Caseless \/ CaseRows(c) # {})
  /\ \E r \in CaseTable : r[2] # r[1] /\ r[3] # r[1]                       \* a character that is neither its upper nor its lower form

Half == Num(1, 2, 0)
AbsNum(x) == IF x.n < 0 THEN Neg(x) ELSE x
NumLaws(x) ==
  LET f == Floor(x)  c == Ceil(x)  r == Round(x)  d == AbsNum(Sub(r, x)) IN
  /\ IsInteger(f) /\ IsInteger(c) /\ IsInteger(r)
  /\ NumCmp(f, x) <= 0 /\ NumCmp(x, c) <= 0
  /\ NumEq(c, Neg(Floor(Neg(x))))
  /\ IsInteger(x) => NumEq(f, x) /\ NumEq(c, x) /\ NumEq(r, x)
  /\ Small(x) =>                                                     \* (2^53 + 1 is outside the 32-bit arithmetic)
       /\ NumCmp(x, Add(f, I(1))) < 0 /\ NumCmp(Sub(c, I(1)), x) < 0
       /\ ~IsInteger(x) => NumEq(c, Add(f, I(1)))
       /\ NumCmp(d, Half) <= 0
       /\ NumCmp(d, Half) = 0 => NumCmp(AbsNum(r), AbsNum(x)) > 0    \* halves away from zero
  /\ NumEq(Round(Neg(x)), Neg(r))
  /\ NumEq(r, f) \/ NumEq(r, c)
NumAnchors ==
  /\ Round(Num(-5, 2, 0)) = I(-3) /\ Round(Num(5, 2, 0)) = I(3) /\ Round(Num(1, 4, 0)) = Zero /\ Round(Num(-1, 2, 0)) = I(-1)
  /\ Floor(Num(-1, 4, 0)) = I(-1) /\ Ceil(Num(-1, 4, 0)) = Zero /\ Ceil(Num(1, 4, 0)) = I(1) /\ Floor(Num(11, 2, 0)) = I(5)
  /\ Round(Num(7, 4, 0)) = I(2) /\ Round(Num(-7, 4, 0)) = I(-2) /\ Floor(Num(1, 1, 53)) = Num(1, 1, 53)

PluckLaws(ks, keys) ==
  LET o == ObjOver(ks)
      h == [i \in {1} |-> o]
      r == PluckH(h, 1, keys)
      p == r.heap[r.id]
  IN
  /\ r.id \notin DOMAIN h                                           \* a fresh object
  /\ r.heap[1] = o                                                  \* the receiver is unchanged
  /\ DOMAIN p = Range(keys)                                         \* exactly the requested keys
  /\ \A key \in DOMAIN p : p[key] = (IF key \in ks THEN ValOf(key) ELSE VNull)
  /\ ObjLen(p) = Cardinality(Range(keys)) /\ ObjLen(p) <= Len(keys)
  /\ \A key \in Keys : SetKeyH(r.heap, r.id, key, I(99))[1] = o     \* writing to the result does not reach the receiver
  /\ Pluck(p, keys) = p                                             \* idempotent
  /\ Pluck(o, KeyOrder) = [key \in Keys |-> IF key \in ks THEN ValOf(key) ELSE VNull]

\* --- pluck over objects whose members include an object; what json() of an arrangement is
PluckJsonLaws(ks, keys, ai) ==
  LET o == ObjOverJ(ks)
      r == PluckH([i \in {1} |-> o], 1, keys)
      p == r.heap[r.id]
      tr == Arrangements[ai]
      u == Unfold(tr, o, p)
  IN
  /\ r.heap[1] = o /\ DOMAIN p = Range(keys)
  /\ \A key \in DOMAIN p : p[key] = (IF key \in ks THEN ValOfJ(key) ELSE VNull)          \* the original's values
  \* the arrangements do what they are meant to: over all of them, an object member is written out twice or more
  /\ (KD \in ks /\ KD \in Range(keys) /\ ai = 1) => ReachCount(tr, o, p, KD) = 2
  /\ (KD \in ks /\ KD \in Range(keys) /\ ai = 6) => ReachCount(tr, o, p, KD) = 4
  /\ (KC \in ks /\ KC \in Range(keys) /\ ai = 2) => ReachCount(tr, o, p, KC) = 2
  \* the text has one occurrence per path: as many leaves as the arrangement, each with the members of its object
  /\ Len(LeavesOf(tr)) >= 1
  /\ tr.t = "arr" => u.t = "arr" /\ Len(u.items) = Len(tr.items)
  /\ tr = JLeaf("p") => u.pairs = PairsFrom(Pluck(o, keys), KeyOrderJ)
  /\ tr = JLeaf("o") => Len(u.pairs) = Cardinality(ks)

\* --- key arguments of both kinds
PluckKeyLaws(ks, args) ==
  LET o == ObjOverK(ks)
      r == PluckH([i \in {1} |-> o], 1, ArgKeys(args))
      p == r.heap[r.id]
  IN
  /\ p = PluckArgs(o, args) /\ r.heap[1] = o
  /\ DOMAIN p = Range(ArgKeys(args))
  /\ \A i \in 1..Len(args) : p[ArgKey(args[i])] = IndexObj(o, args[i])            \* pluck(x)[x] is what o[x] reads
  /\ \A i \in 1..Len(args) : IndexObj(p, args[i]) = IndexObj(o, args[i])
  /\ p = PluckArgs(o, [i \in 1..Len(args) |-> VStr(ArgKey(args[i]))])              \* a number and its text are the same key
  /\ \A i \in 1..Len(args) : ArgKey(args[i]) \in ks => p[ArgKey(args[i])] = ValOfK(ArgKey(args[i])) /\ p[ArgKey(args[i])] # VNull
  /\ \A i \in 1..Len(args) : ArgKey(args[i]) \notin ks => p[ArgKey(args[i])] = VNull
KeyAnchors ==
  /\ ArgKey(I(1)) = Chars("1") /\ ArgKey(Num(5, 2, 0)) = Chars("2.5") /\ ArgKey(I(-3)) = Chars("-3") /\ ArgKey(I(0)) = Chars("0")
  /\ ArgKey(Num(1, 4, 0)) = Chars("0.25") /\ ArgKey(S("1")) = ArgKey(I(1)) /\ ArgKey(S("a")) = Chars("a")
  /\ Cardinality(Range(ArgKeys(KeyArgs))) = 8
  /\ PluckArgs(ObjOverK(KeysK), <<I(1), Num(5, 2, 0), I(7)>>) = (Chars("1") :> S("one")) @@ (Chars("2.5") :> VArr(1)) @@ (Chars("7") :> VNull)

NumbLaws(i) ==
  LET s == Chars(NumbStrings[i])  r == NumBuiltin(VStr(s)) IN
  /\ r.k \in {"num", "null"}
  /\ (r.k = "num") = ParseNum(s).ok
  /\ r.k = "num" => r = NumOf(VStr(s))
  /\ ParseDec(s).ok = ParseNum(s).ok /\ (ParseNum(s).ok => DecAsNum(ParseDec(s)) = r)      \* the two readings of the grammar agree
  /\ r.k = "num" /\ r.d = 1 /\ Len(NumText(r)) <= 8 => NumBuiltin(VStr(NumText(r))) = r     \* text of a dyadic number reads back
NumbAnchors ==
  /\ NumBuiltin(S("2.5")) = Num(5, 2, 0) /\ NumBuiltin(S("1e2")) = I(100) /\ NumBuiltin(S("-0")) = NegZero /\ NumBuiltin(S(".5")) = Num(1, 2, 0)
  /\ NumBuiltin(S("5.")) = I(5) /\ NumBuiltin(S("2e-2")) = Num(1, 50, 0) /\ NumBuiltin(S("0.125")) = Num(1, 8, 0) /\ NumBuiltin(S("+7")) = I(7)
  /\ \A t \in {"", " 1", "1 ", "abc", "5x", ".", "-", "e5", "1e", "1.2.3", "--1"} : NumBuiltin(S(t)) = VNull

\* --- a write through the copy never reaches the receiver, a write through the receiver never reaches the copy
PluckWriteLaws(ks, keys, target, wkey, w) ==
  LET o == ObjOver(ks)
      r == PluckH([i \in {1} |-> o], 1, keys)
      tid == IF target = "copy" THEN r.id ELSE 1
      oid == IF target = "copy" THEN 1 ELSE r.id
      h2 == WriteH(r.heap, tid, wkey, w)
      old == OldOf(r.heap[tid], wkey)
  IN
  /\ DOMAIN h2 = DOMAIN r.heap                                     \* no object appears or disappears
  /\ h2[oid] = r.heap[oid]                                         \* the other object is untouched
  /\ DOMAIN h2[tid] = DOMAIN r.heap[tid] \cup {wkey}
  /\ \A key \in DOMAIN h2[tid] \ {wkey} : h2[tid][key] = r.heap[tid][key]
  /\ h2[tid][wkey] =
       (CASE w = "set" -> I(99)
          [] old = I(1) -> (IF w \in {"add", "postinc", "preinc"} THEN I(2) ELSE Zero)
          [] old = S("s") -> (CASE w = "add" -> S("s1") [] w \in {"postinc", "preinc"} -> I(1) [] OTHER -> I(-1))
          [] OTHER -> (IF w \in {"add", "postinc", "preinc"} THEN I(1) ELSE I(-1)))            \* an array, or no member at all
  /\ old \in {I(1), S("s"), VArr(1), VNull}

\* --- long digit strings
RECURSIVE HalveBE(_, _)
HalveBE(ds, carry) ==                        \* big-endian digits (numbers) of an even number, divided by two
  IF ds = <<>> THEN <<>> ELSE <<(10 * carry + Head(ds)) \div 2>> \o HalveBE(Tail(ds), (10 * carry + Head(ds)) % 2)
RECURSIVE HalveTimes(_, _)
HalveTimes(ds, k) == IF k = 0 THEN ds ELSE HalveTimes(HalveBE(ds, 0), k - 1)
DigitNums(t) == [i \in 1..Len(t) |-> DigitVal(t[i])]
RECURSIVE StripNumZeros(_)
StripNumZeros(ds) == IF Len(ds) > 1 /\ Head(ds) = 0 THEN StripNumZeros(Tail(ds)) ELSE ds
BigBaseLaws ==
  /\ \A i \in 1..Len(BigExps2) :
        LET k == BigExps2[i]  t == BigTexts[3 * i - 1] IN
        /\ t = ExactText(Num(1, 1, k))                                                 \* the text the C05 model prints for 2^k
        /\ StripNumZeros(HalveTimes(DigitNums(t), k)) = <<1>>                              \* halved k times it is 1
        /\ DigitVal(t[Len(t)]) % 2 = 0 /\ DigitVal(BigTexts[3 * i - 2][Len(t)]) % 2 = 1
        /\ TextLE(IncLE(DecLE(Pow2LE(k)))) = t /\ TextLE(DecLE(IncLE(Pow2LE(k)))) = t
  /\ BigTexts[3 * 5 - 1] = Chars("9223372036854775808") /\ BigTexts[3 * 5 - 2] = Chars("9223372036854775807")
  /\ BigTexts[3 * 3 - 1] = Chars("9007199254740992") /\ BigTexts[3 * 3] = Chars("9007199254740993")
  /\ BigTexts[3 * (Len(BigExps2) + 10)] = Chars("10000000000000000001") /\ BigTexts[3 * (Len(BigExps2) + 10) - 2] = Chars("9999999999999999999")
  /\ \A i \in 1..Len(BigTexts) : \A j \in 1..Len(BigTexts[i]) : BigTexts[i][j] \in Digit
  /\ \A i \in 1..Len(BigTexts) : BigTexts[i][1] # "0" \/ BigTexts[i] = <<"0">>
  /\ ((1..23) \ {4, 7, 8, 12, 13, 14}) \subseteq {Len(BigTexts[i]) : i \in 1..Len(BigTexts)}
NumBigLaws(i, j) ==
  LET t == BigText(i, j)  p == ParseDec(t) IN
  IF j > NBigDecor THEN ~p.ok /\ NumBuiltinDec(VStr(t)) = VNull
  ELSE LET pre == BigPrefixes[((j - 1) % Len(BigPrefixes)) + 1]  suf == BigSuffixes[((j - 1) \div Len(BigPrefixes)) + 1] IN
       /\ p.ok /\ p.neg = pre[2]
       /\ p.ds = StripZeros(pre[3] \o BigTexts[i] \o suf[2])
       /\ p.e10 = suf[3] - Len(suf[2])
       /\ NumBuiltinDec(VStr(t)).k = "dec"
       \* both readings of the grammar agree wherever the 32-bit one can be evaluated
       /\ Len(p.ds) <= 8 => ParseNum(t).ok /\ ParseNum(t).v = DecAsNum(p)

CallName(i) == IF i <= Len(Methods) THEN Methods[i] ELSE Builtins[i - Len(Methods)]
CallRecv == IF b[1] = 0 THEN VNull ELSE Receivers[b[1]]

Laws == done =>
  CASE fam = "split" -> SplitLaws(a, b)
    [] fam = "str" -> StrLaws(a)
    [] fam = "num" -> NumLaws(NumDomain[a])
    [] fam = "pluck" -> PluckLaws(a, b)
    [] fam = "pluckj" -> PluckJsonLaws(a, b[1], b[2])
    [] fam = "pluckk" -> PluckKeyLaws(a, b)
    [] fam = "numb" -> NumbLaws(a)
    [] fam = "pluckw" -> PluckWriteLaws(a, b[1], b[2], b[3], b[4])
    [] fam = "numbig" -> NumBigLaws(a, b)
    [] OTHER -> TRUE
ASSUME NumAnchors
ASSUME NumbAnchors
ASSUME CaseTableLaws
ASSUME BigBaseLaws
ASSUME KeyAnchors

\* ======================================================================
\* Vectors
\* ======================================================================
Vec == done =>
  CASE fam = "split" ->
         LET s == Bytes(a)  sep == Bytes(b) IN
         Emit([fam |-> fam, s |-> s, sep |-> sep, pieces |-> Split(s, sep),
               unique |-> (sep # <<>> /\ Cardinality(Allowed(s, sep)) = 1)])
    [] fam = "str" ->
         LET s == Bytes(a) IN
         Emit([fam |-> fam, s |-> s, len |-> StrLen(s), upper |-> Upper(s), lower |-> Lower(s)])
    [] fam = "num" ->
         LET x == NumDomain[a] IN
         Emit([fam |-> fam, x |-> x, floor |-> Floor(x), ceil |-> Ceil(x), round |-> Round(x)])
    [] fam = "pluck" ->
         LET o == ObjOver(a)  p == Pluck(o, b) IN
         Emit([fam |-> fam, obj |-> PairsFrom(o, KeyOrder), keys |-> b, res |-> PairsFrom(p, KeyOrder), len |-> ObjLen(p), olen |-> ObjLen(o)])
    [] fam = "pluckj" ->
         LET o == ObjOverJ(a)  p == Pluck(o, b[1]) IN
         Emit([fam |-> fam, obj |-> PairsFrom(o, KeyOrderJ), keys |-> b[1], res |-> PairsFrom(p, KeyOrderJ),
               shape |-> Arrangements[b[2]], want |-> Unfold(Arrangements[b[2]], o, p)])
    [] fam = "pluckk" ->
         LET o == ObjOverK(a)  p == PluckArgs(o, b) IN
         Emit([fam |-> fam, obj |-> PairsFrom(o, KeyOrderK), args |-> b, keys |-> ArgKeys(b), res |-> PairsFrom(p, KeyOrderK),
               idx |-> [i \in 1..Len(b) |-> IndexObj(o, b[i])]])
    [] fam = "proto" ->
         \* the object {a: 1}; keys that name a prototype method are absent keys: null
         LET o == ObjOver({KA})  keys == ProtoLists[a]  p == Pluck(o, keys) IN
         Emit([fam |-> fam, obj |-> PairsFrom(o, KeyOrder), keys |-> keys,
               res |-> PairsFrom(p, KeyOrder \o ProtoKeys), len |-> ObjLen(p), olen |-> 1, protokeys |-> ProtoKeys])
    [] fam = "casetab" ->
         Emit([fam |-> fam, table |-> SetSeq(CaseTable), caseless |-> SetSeq(Caseless)])
    [] fam = "pluckw" ->
         LET o == ObjOver(a)
             r == PluckH([i \in {1} |-> o], 1, b[1])
             h2 == WriteH(r.heap, IF b[2] = "copy" THEN r.id ELSE 1, b[3], b[4])
         IN Emit([fam |-> fam, obj |-> PairsFrom(o, KeyOrder), keys |-> b[1], target |-> b[2], wkey |-> b[3], w |-> b[4],
                  recvobj |-> PairsFrom(h2[1], KeyOrder), copyobj |-> PairsFrom(h2[r.id], KeyOrder)])
    [] fam = "numbig" ->
         Emit([fam |-> fam, s |-> BigText(a, b), res |-> NumBuiltinDec(VStr(BigText(a, b)))])
    [] fam = "numb" ->
         Emit([fam |-> fam, s |-> Chars(NumbStrings[a]), res |-> NumBuiltin(S(NumbStrings[a]))])
    [] fam = "call" ->
         Emit([fam |-> fam, m |-> CallName(a), builtin |-> (a > Len(Methods)), recv |-> CallRecv, args |-> ArgLists[b[2]],
               documented |-> Documented(CallName(a), CallRecv, ArgLists[b[2]])])
=============================================================================
