----------------------------- MODULE JqMatch -----------------------------
(* match expressions (DESIGN.md 4.7 MatchExpr, property C19) over abstract *)
(* scalars: the values, the comparison `v == literal` on them, the bodies   *)
(* of the model and the whole expression.  The matcher itself (MatchPat =   *)
(* one pattern against one value, MatchAlts = the alternatives of a case,   *)
(* SelectFrom = the loop over the cases; the three readings of "array       *)
(* against a literal"; the named deviation match-array-alt-stops, F16) is   *)
(* JqMatchCore, instantiated here with LitCmp; MatchExpr adds the           *)
(* evaluation of the selected body (the ExprMatch arm of evalExpr).         *)
(* JqMatchLit instantiates the same matcher for literal patterns as         *)
(* written in the source (escapes, number spellings, full `==`).            *)
EXTENDS JqUtil

\* ---- values (uniform records so that TLC can compare any two)
Num(n)  == [k |-> "num",  n |-> n, s |-> "",  a |-> <<>>]
Str(s)  == [k |-> "str",  n |-> 0, s |-> s,   a |-> <<>>]
Bool(b) == [k |-> "bool", n |-> IF b THEN 1 ELSE 0, s |-> "", a |-> <<>>]
Null    == [k |-> "null", n |-> 0, s |-> "",  a |-> <<>>]
Arr(a)  == [k |-> "arr",  n |-> 0, s |-> "",  a |-> a]
Obj     == [k |-> "obj",  n |-> 0, s |-> "",  a |-> <<>>]     \* one object value, {z: 1} (a container that is no array)

\* num(v) of DESIGN.md 3.1 for the scalars of this model (no numeric strings here)
NumOf(v) == IF v.k \in {"num", "bool"} THEN v.n ELSE 0

\* `v == lit` per DESIGN.md 3.4: "eq" / "ne" / "err"
LitCmp(v, lit) ==
  IF v.k = "null" /\ lit.k = "null" THEN "eq"
  ELSE IF v.k = "null" \/ lit.k = "null" THEN "ne"
  ELSE IF v.k \in {"arr", "obj"} \/ lit.k \in {"arr", "obj"} THEN "err"
  ELSE IF v.k = "str" /\ lit.k = "str" THEN (IF v.s = lit.s THEN "eq" ELSE "ne")
  ELSE IF NumOf(v) = NumOf(lit) THEN "eq" ELSE "ne"

\* ---- the matcher: JqMatchCore with this comparison
INSTANCE JqMatchCore WITH LitCmp <- LitCmp
PLit(v)    == PLitOf(v)
PId(name)  == PIdOf(name, Null)
PArr(ps)   == PArrOf(ps, Null)

\* The match expressions of the model sit in a program whose globals x, y, u are
\* preset to the strings gx, gy, gu.  A name in a body denotes the binding made
\* by the alternative that matched, if that alternative binds it, and otherwise
\* the enclosing variable: names bound only by an alternative (or case) that
\* did NOT match must not be visible.
Global(name) == Str(CASE name = "x" -> "gx" [] name = "y" -> "gy" [] OTHER -> "gu")
Resolve(b, name) == IF name \in Bound(b) THEN Lookup(b, name) ELSE Global(name)

\* ---- bodies.  A case is [alts, body]; a body is [kind, arg]:
\*   const:     `'c<k>'`          value the string c<k>
\*   name:      `<arg>`           value of the name (binding of the matching alternative, else the global)
\*   marker:    `m('k<k>')`       prints "m k<k>", value the string k<k>
\*   block:     `{ m('k<k>') }`   prints "m k<k>", value null
\*   blockname: `{ m(<arg>) }`    prints "m <value of the name>", value null
Body(kind, arg) == [kind |-> kind, arg |-> arg]
IsBlock(body) == body.kind \in {"block", "blockname"}
KStr(k) == Str(CASE k = 1 -> "k1" [] k = 2 -> "k2" [] k = 3 -> "k3" [] OTHER -> "k4")
CStr(k) == Str(CASE k = 1 -> "c1" [] k = 2 -> "c2" [] k = 3 -> "c3" [] OTHER -> "c4")

\* value and marker trace of body k evaluated under bindings b
BodyVal(body, k, b) ==
  CASE body.kind = "const"     -> [val |-> CStr(k), trace |-> <<>>]
    [] body.kind = "name"      -> [val |-> Resolve(b, body.arg), trace |-> <<>>]
    [] body.kind = "marker"    -> [val |-> KStr(k), trace |-> <<KStr(k)>>]
    [] body.kind = "block"     -> [val |-> Null, trace |-> <<KStr(k)>>]
    [] body.kind = "blockname" -> [val |-> Null, trace |-> <<Resolve(b, body.arg)>>]

\* ---- the match expression.  Outcome:
\*   [cls: "ok" | "runtime", sel: selected case (0 none), alt, val, trace, blk]
MatchFrom(v, cases, k, rd, devs) ==
  LET r == SelectFrom(v, cases, k, rd, devs) IN
  IF r.m = "no"
  THEN [cls |-> "ok", sel |-> 0, alt |-> 0, val |-> Null, trace |-> <<>>, blk |-> FALSE]
  ELSE IF r.m = "err"
  THEN [cls |-> "runtime", sel |-> r.sel, alt |-> r.alt, val |-> Null, trace |-> <<>>, blk |-> FALSE]
  ELSE LET bv == BodyVal(cases[r.sel].body, r.sel, r.b)
       IN [cls |-> "ok", sel |-> r.sel, alt |-> r.alt, val |-> bv.val, trace |-> bv.trace,
           blk |-> IsBlock(cases[r.sel].body)]

MatchExpr(v, cases, rd, devs) == MatchFrom(v, cases, 1, rd, devs)

\* ------------------------------------------------------------------------
\* Declarative counterparts used by the laws of MC_Match.

\* a pattern with its bindings substituted
RECURSIVE Inst(_, _)
Inst(p, b) ==
  IF p.t = "lit" THEN p.v
  ELSE IF p.t = "id" THEN Lookup(b, p.name)
  ELSE Arr([i \in 1..Len(p.items) |-> Inst(p.items[i], b)])

\* structural equality up to `==` on scalars
RECURSIVE SameUpToEq(_, _)
SameUpToEq(a, b) ==
  IF a.k = "arr" /\ b.k = "arr"
  THEN Len(a.a) = Len(b.a) /\ \A i \in 1..Len(a.a) : SameUpToEq(a.a[i], b.a[i])
  ELSE IF a.k = "arr" \/ b.k = "arr" THEN FALSE
  ELSE IF a.k = "obj" \/ b.k = "obj" THEN a = b
  ELSE LitCmp(a, b) = "eq"

\* does matching v against p compare an array with a non-null literal anywhere
\* (positions reachable when lengths agree)?
RECURSIVE Touchy(_, _)
Touchy(v, p) ==
  IF p.t = "lit" THEN v.k \in {"arr", "obj"} /\ p.v.k # "null"
  ELSE IF p.t = "arr" /\ v.k = "arr" /\ Len(v.a) = Len(p.items)
       THEN \E i \in 1..Len(p.items) : Touchy(v.a[i], p.items[i])
  ELSE FALSE
=============================================================================
