----------------------------- MODULE JqStream -----------------------------
(* Reader and decoder (DESIGN.md 4.8) - property C03.                        *)
(*                                                                           *)
(* An input is a byte stream handed out by a reader in chunks, ending in a    *)
(* true end of input or in an I/O error.  The implementation (EvalProgram's   *)
(* decode loop: json.NewDecoder(file.Reader); d.More(); d.Decode) alternates  *)
(* between asking the reader for bytes, recognising the next top-level JSON   *)
(* value in what it has, and processing that value to completion (all rules). *)
(*                                                                           *)
(* Part 1 is a pushdown recogniser for JSON value streams written from the    *)
(* RFC 8259 grammar: it only decides where top-level values end and whether   *)
(* the text is well formed (what a value text denotes is encoding/json's      *)
(* business).  Part 2 is the declarative expectation: what must have been     *)
(* processed after d delivered bytes, what may have been, and the final       *)
(* outcome as a function of stream and fault only.  Part 3 is the transition  *)
(* system, whose actions look only at the bytes delivered so far.  Part 4     *)
(* states the invariants that tie 3 to 2.                                     *)
EXTENDS JqUtil

CONSTANT Deviations        \* names of the known, unrepaired deviations that are enabled

\* ---------------------------------------------------------------------------
\* Part 1: the scanner

WS     == {" ", NL, CR, TAB}
Ctl    == {NL, CR, TAB}                 \* control bytes of the modelled alphabet (illegal inside strings)
Digit  == {"0", "1", "2", "3", "4", "5", "6", "7", "8", "9"}
Digit19 == Digit \ {"0"}
Hex    == Digit \cup {"a", "b", "c", "d", "e", "f", "A", "B", "C", "D", "E", "F"}
Esc1   == {"\"", "\\", "/", "b", "f", "n", "r", "t"}
NumFinal == {"zero", "int", "frac", "exp"}   \* number states in which the number may end

\* scanner state: mode, stack of open containers ("a" array / "o" object),
\* whether the string being read is an object key, rest of the literal being read
Q0 == [m |-> "bv", st |-> <<>>, key |-> FALSE, lit |-> <<>>]

Top(q)  == q.st[Len(q.st)]
Pop(q)  == SubSeq(q.st, 1, Len(q.st) - 1)
Mode(q, m) == [q EXCEPT !.m = m]
Cont(q) == [q |-> q, r |-> "cont"]
Err(q)  == [q |-> q, r |-> "err"]

\* a value has just been completed with the byte being looked at; st is the stack after it
Done(q, st) == IF st = <<>> THEN [q |-> Q0, r |-> "end"]
               ELSE Cont([q EXCEPT !.m = "ev", !.st = st])

BeginValue(q, c) ==
  CASE c = "["  -> Cont([q EXCEPT !.m = "bvc", !.st = Append(q.st, "a")])
    [] c = "{"  -> Cont([q EXCEPT !.m = "bk", !.st = Append(q.st, "o")])
    [] c = "\"" -> Cont([q EXCEPT !.m = "s", !.key = FALSE])
    [] c = "-"  -> Cont(Mode(q, "neg"))
    [] c = "0"  -> Cont(Mode(q, "zero"))
    [] c \in Digit19 -> Cont(Mode(q, "int"))
    [] c = "t"  -> Cont([q EXCEPT !.m = "lit", !.lit = <<"r", "u", "e">>])
    [] c = "f"  -> Cont([q EXCEPT !.m = "lit", !.lit = <<"a", "l", "s", "e">>])
    [] c = "n"  -> Cont([q EXCEPT !.m = "lit", !.lit = <<"u", "l", "l">>])
    [] OTHER    -> Err(q)

\* after a value inside a container: "," or the matching closer
EndValue(q, c) ==
  CASE c \in WS -> Cont(q)
    [] c = ","  -> Cont(Mode(q, IF Top(q) = "a" THEN "bv" ELSE "k"))
    [] c = "]" /\ Top(q) = "a" -> Done(q, Pop(q))
    [] c = "}" /\ Top(q) = "o" -> Done(q, Pop(q))
    [] OTHER    -> Err(q)

\* a number ends before byte c (c is not part of it)
NumDone(q, c) == IF q.st = <<>> THEN [q |-> Q0, r |-> "before"] ELSE EndValue(Mode(q, "ev"), c)

\* one byte.  r: "cont" | "end" (a top-level value ends WITH c) |
\* "before" (a top-level number ended BEFORE c; c is still to be scanned) | "err"
Step(q, c) ==
  CASE q.m = "bv"  -> IF c \in WS THEN Cont(q) ELSE BeginValue(q, c)
    [] q.m = "bvc" -> IF c \in WS THEN Cont(q) ELSE IF c = "]" THEN Done(q, Pop(q)) ELSE BeginValue(q, c)
    [] q.m = "bk"  -> IF c \in WS THEN Cont(q)
                      ELSE IF c = "}" THEN Done(q, Pop(q))
                      ELSE IF c = "\"" THEN Cont([q EXCEPT !.m = "s", !.key = TRUE]) ELSE Err(q)
    [] q.m = "k"   -> IF c \in WS THEN Cont(q)
                      ELSE IF c = "\"" THEN Cont([q EXCEPT !.m = "s", !.key = TRUE]) ELSE Err(q)
    [] q.m = "col" -> IF c \in WS THEN Cont(q) ELSE IF c = ":" THEN Cont(Mode(q, "bv")) ELSE Err(q)
    [] q.m = "ev"  -> EndValue(q, c)
    [] q.m = "s"   -> IF c = "\"" THEN (IF q.key THEN Cont(Mode(q, "col")) ELSE Done(q, q.st))
                      ELSE IF c = "\\" THEN Cont(Mode(q, "se"))
                      ELSE IF c \in Ctl THEN Err(q) ELSE Cont(q)
    [] q.m = "se"  -> IF c \in Esc1 THEN Cont(Mode(q, "s")) ELSE IF c = "u" THEN Cont(Mode(q, "u1")) ELSE Err(q)
    [] q.m = "u1"  -> IF c \in Hex THEN Cont(Mode(q, "u2")) ELSE Err(q)
    [] q.m = "u2"  -> IF c \in Hex THEN Cont(Mode(q, "u3")) ELSE Err(q)
    [] q.m = "u3"  -> IF c \in Hex THEN Cont(Mode(q, "u4")) ELSE Err(q)
    [] q.m = "u4"  -> IF c \in Hex THEN Cont(Mode(q, "s")) ELSE Err(q)
    [] q.m = "lit" -> IF c # Head(q.lit) THEN Err(q)
                      ELSE IF Len(q.lit) = 1 THEN Done(q, q.st) ELSE Cont([q EXCEPT !.lit = Tail(q.lit)])
    [] q.m = "neg" -> IF c = "0" THEN Cont(Mode(q, "zero")) ELSE IF c \in Digit19 THEN Cont(Mode(q, "int")) ELSE Err(q)
    [] q.m = "zero" -> IF c = "." THEN Cont(Mode(q, "dot")) ELSE IF c \in {"e", "E"} THEN Cont(Mode(q, "e")) ELSE NumDone(q, c)
    [] q.m = "int" -> IF c \in Digit THEN Cont(q)
                      ELSE IF c = "." THEN Cont(Mode(q, "dot")) ELSE IF c \in {"e", "E"} THEN Cont(Mode(q, "e")) ELSE NumDone(q, c)
    [] q.m = "dot" -> IF c \in Digit THEN Cont(Mode(q, "frac")) ELSE Err(q)
    [] q.m = "frac" -> IF c \in Digit THEN Cont(q) ELSE IF c \in {"e", "E"} THEN Cont(Mode(q, "e")) ELSE NumDone(q, c)
    [] q.m = "e"   -> IF c \in {"+", "-"} THEN Cont(Mode(q, "esign")) ELSE IF c \in Digit THEN Cont(Mode(q, "exp")) ELSE Err(q)
    [] q.m = "esign" -> IF c \in Digit THEN Cont(Mode(q, "exp")) ELSE Err(q)
    [] q.m = "exp" -> IF c \in Digit THEN Cont(q) ELSE NumDone(q, c)

\* Scan bytes i..upto of s for the next top-level value (q: scanner state,
\* start: offset of the value's first byte, 0 = still skipping whitespace).
\* eof: bytes 1..upto are known to be the whole input.  Looks at no byte beyond upto.
\*   [r |-> "value", s, e, sd]  value occupies bytes s..e; sd: its end is visible in the value
\*                              itself (container, string, literal), not sd: a number
\*   [r |-> "more", blank]      no complete value yet; blank: only whitespace was seen
\*   [r |-> "err", at]          byte at cannot continue any JSON value stream
RECURSIVE Run(_, _, _, _, _, _)
Run(s, i, upto, q, start, eof) ==
  IF i > upto THEN
    IF q.st = <<>> /\ q.m = "bv" THEN [r |-> "more", blank |-> TRUE]
    ELSE IF eof /\ q.st = <<>> /\ q.m \in NumFinal THEN [r |-> "value", s |-> start, e |-> upto, sd |-> FALSE]
    ELSE [r |-> "more", blank |-> FALSE]
  ELSE
    LET c == s[i]
        x == Step(q, c)
        st == IF start = 0 /\ c \notin WS THEN i ELSE start
    IN CASE x.r = "cont"   -> Run(s, i + 1, upto, x.q, st, eof)
         [] x.r = "end"    -> [r |-> "value", s |-> st, e |-> i, sd |-> TRUE]
         [] x.r = "before" -> [r |-> "value", s |-> st, e |-> i - 1, sd |-> FALSE]
         [] x.r = "err"    -> [r |-> "err", at |-> i]

NextValue(s, from, upto, eof) == Run(s, from + 1, upto, Q0, 0, eof)

\* The whole text s as a stream that ends in a true end of input:
\*   vals: the complete values in order; err: offset of the first byte that cannot
\*   continue the stream (0 = none); open: the text ends inside a value.
RECURSIVE Collect(_, _, _)
Collect(s, from, acc) ==
  LET x == NextValue(s, from, Len(s), TRUE) IN
  CASE x.r = "value" -> Collect(s, x.e, Append(acc, [s |-> x.s, e |-> x.e, sd |-> x.sd]))
    [] x.r = "more"  -> [vals |-> acc, err |-> 0, open |-> ~x.blank]
    [] x.r = "err"   -> [vals |-> acc, err |-> x.at, open |-> FALSE]

ScanAll(s) == Collect(s, 0, <<>>)

AllWS(s, a, b) == \A i \in a..b : s[i] \in WS

\* Prefix determinism of the scanner (law, checked on every modelled stream):
\* what is recognised in a prefix does not change when more bytes follow,
\* except that a number touching the end of the prefix may grow.
PrefixLaw(s) ==
  LET a == ScanAll(s) IN
  \A n \in 0..Len(s) :
    LET b == ScanAll(SubSeq(s, 1, n)) IN
    /\ \A k \in 1..Len(b.vals) : (b.vals[k].e < n \/ b.vals[k].sd) =>
          k <= Len(a.vals) /\ a.vals[k] = b.vals[k]
    /\ \A k \in 1..Len(a.vals) : (a.vals[k].e < n \/ (a.vals[k].e = n /\ a.vals[k].sd)) =>
          k <= Len(b.vals) /\ b.vals[k] = a.vals[k]
    /\ b.err # 0 => a.err = b.err
    /\ (a.err # 0 /\ a.err <= n) => b.err = a.err
    /\ Len(b.vals) <= Len(a.vals) + 1

\* ---------------------------------------------------------------------------
\* Part 2: what the statement prescribes, as functions of stream and fault only
\* fault: [kind |-> "none"] | [kind |-> "eof", at |-> p] | [kind |-> "ioerr", at |-> p]
\* ("eof" at p: the input is truncated to its first p bytes.)

LimitOf(s, f) == IF f.kind = "none" THEN Len(s) ELSE f.at
Readable(s, f) == SubSeq(s, 1, LimitOf(s, f))

\* values that MUST have been processed once d bytes were delivered: the value
\* and one following byte have been read
MustCount(sc, d) == Cardinality({k \in 1..Len(sc.vals) : sc.vals[k].e + 1 <= d})

\* values that MAY have been processed once d bytes were delivered (atEnd: the
\* reader has reported a true end of input after them): complete within the prefix;
\* a number that touches the end of the prefix is complete only at end of input
MayCount(sc, d, atEnd) ==
  Cardinality({k \in 1..Len(sc.vals) :
      sc.vals[k].e <= d /\ (sc.vals[k].sd \/ sc.vals[k].e < d \/ atEnd)})

\* sc = ScanAll(Readable(s, f)).  outcome and the range lo..hi of the number of
\* values processed (always the first ones, in order).
Expected(sc, s, f) ==
  LET lim == LimitOf(s, f) IN
  IF f.kind = "ioerr"
  THEN [outcome |-> "json", lo |-> MustCount(sc, lim), hi |-> MayCount(sc, lim, FALSE)]
  ELSE [outcome |-> IF sc.err # 0 \/ sc.open THEN "json" ELSE "ok",
        lo |-> Len(sc.vals), hi |-> Len(sc.vals)]

\* What the named deviation "more-swallows-error" predicts instead (F4: the
\* `for d.More()` loop treats a stray "]" / "}" between values, and a reader
\* error that falls between two values, as end of input): outcome "ok" after
\* the counts given.  {} = the deviation does not apply to this behaviour.
SwallowCounts(sc, s, f) ==
  LET lim == LimitOf(s, f)
      n == Len(sc.vals)
      endOf(k) == IF k = 0 THEN 0 ELSE sc.vals[k].e
  IN IF sc.err # 0 /\ s[sc.err] \in {"]", "}"} /\ AllWS(s, endOf(n) + 1, sc.err - 1) THEN {n}
     ELSE IF f.kind = "ioerr" /\ sc.err = 0
          THEN {k \in MustCount(sc, lim)..MayCount(sc, lim, FALSE) : AllWS(s, endOf(k) + 1, lim)}
          ELSE {}

\* ---------------------------------------------------------------------------
\* Part 3: the transition system

VARIABLES
  stream, fault,         \* parameters of the behaviour (never change): the bytes and the fault
  scan,                  \* = ScanAll(Readable(stream, fault)), kept for the invariants only
  delivered,             \* bytes handed out by the reader so far
  inRead,                \* the implementation is blocked in a Read call
  rstat,                 \* what the reader has reported: "open" | "eof" | "ioerr"
  consumed,              \* offset of the last byte of the last value decoded
  pending,               \* <<v>>: value decoded, rules not yet run; <<>> otherwise
  processed,             \* number of values fully processed (output written)
  emitted,               \* their spans, in order
  outcome                \* "run" | "ok" | "json"

params == <<stream, fault, scan>>
svars  == <<delivered, inRead, rstat, consumed, pending, processed, emitted, outcome>>
vars   == <<stream, fault, scan, delivered, inRead, rstat, consumed, pending, processed, emitted, outcome>>

Limit == LimitOf(stream, fault)

StartState ==
  /\ delivered = 0 /\ inRead = FALSE /\ rstat = "open" /\ consumed = 0
  /\ pending = <<>> /\ processed = 0 /\ emitted = <<>> /\ outcome = "run"

\* the decoder's view: the next value in the bytes it holds
Look == NextValue(stream, consumed, delivered, rstat = "eof")

Idle == outcome = "run" /\ ~inRead /\ pending = <<>>

\* The implementation asks for more input.  Not while a value AND a following
\* byte are already in hand (a value that ends exactly where the delivered
\* bytes end may or may not be decoded first: left open).  Asking again after
\* the reader has reported its end is harmless and allowed (encoding/json does
\* it after a value that is ended by the end of input): the reader repeats itself.
ReadCall ==
  /\ Idle
  /\ LET x == Look IN ~(x.r = "value" /\ x.e < delivered)
  /\ inRead' = TRUE
  /\ UNCHANGED <<delivered, rstat, consumed, pending, processed, emitted, outcome>>

\* the reader hands out the next k bytes; k is not determined by anything the
\* implementation can see: every partition of the stream into chunks is a behaviour
ReadReturn(k) ==
  /\ inRead /\ k >= 1 /\ delivered + k <= Limit
  /\ delivered' = delivered + k
  /\ inRead' = FALSE
  /\ UNCHANGED <<rstat, consumed, pending, processed, emitted, outcome>>

\* nothing is left: the reader reports end of input, or fails
ReadEnd ==
  /\ inRead /\ delivered = Limit
  /\ rstat' = IF fault.kind = "ioerr" THEN "ioerr" ELSE "eof"
  /\ inRead' = FALSE
  /\ UNCHANGED <<delivered, consumed, pending, processed, emitted, outcome>>

\* Decoder.Decode returns the next value
DecodeValue ==
  /\ Idle
  /\ LET x == Look IN
       /\ x.r = "value"
       /\ pending' = <<[s |-> x.s, e |-> x.e]>>
       /\ consumed' = x.e
  /\ UNCHANGED <<delivered, inRead, rstat, processed, emitted, outcome>>

\* BEGINFILE, pattern rules, ENDFILE run to completion on it (JqDriver)
ProcessValue ==
  /\ outcome = "run" /\ pending # <<>>
  /\ processed' = processed + 1
  /\ emitted' = Append(emitted, pending[1])
  /\ pending' = <<>>
  /\ UNCHANGED <<delivered, inRead, rstat, consumed, outcome>>

\* JsonError: malformed byte, input ends inside a value, or the reader failed
StopJsonError ==
  /\ Idle
  /\ LET x == Look IN
       \/ x.r = "err"
       \/ rstat = "eof" /\ x.r = "more" /\ ~x.blank
       \/ rstat = "ioerr" /\ ~(x.r = "value" /\ x.e < delivered)
  /\ outcome' = "json"
  /\ UNCHANGED <<delivered, inRead, rstat, consumed, pending, processed, emitted>>

\* true end of input after the last value
StopEndOfInput ==
  /\ Idle /\ rstat = "eof"
  /\ LET x == Look IN x.r = "more" /\ x.blank
  /\ outcome' = "ok"
  /\ UNCHANGED <<delivered, inRead, rstat, consumed, pending, processed, emitted>>

\* Deviation more-swallows-error (F4): Decoder.More() answers "no more" on a
\* stray closing bracket and on a reader error seen while looking for the next value.
StopSwallow ==
  /\ "more-swallows-error" \in Deviations
  /\ Idle
  /\ LET x == Look IN
       \/ x.r = "err" /\ stream[x.at] \in {"]", "}"} /\ AllWS(stream, consumed + 1, x.at - 1)
       \/ rstat = "ioerr" /\ x.r = "more" /\ x.blank
  /\ outcome' = "ok"
  /\ UNCHANGED <<delivered, inRead, rstat, consumed, pending, processed, emitted>>

Step3 ==
  \/ ReadCall
  \/ \E k \in 1..(Limit - delivered) : ReadReturn(k)
  \/ ReadEnd
  \/ DecodeValue
  \/ ProcessValue
  \/ StopJsonError
  \/ StopEndOfInput
  \/ StopSwallow

StreamNext == Step3 /\ UNCHANGED params

\* ---------------------------------------------------------------------------
\* Part 4: invariants (checked by TLC in every reachable state)

TypeOK ==
  /\ delivered \in 0..Limit /\ consumed \in 0..delivered
  /\ inRead \in BOOLEAN /\ rstat \in {"open", "eof", "ioerr"}
  /\ Len(pending) <= 1 /\ processed = Len(emitted)
  /\ outcome \in {"run", "ok", "json"}
  /\ (rstat # "open") => delivered = Limit
  /\ inRead => (pending = <<>> /\ outcome = "run")

\* blocked asking for input => every value that has been read together with one
\* following byte is fully processed
Incremental == inRead => processed >= MustCount(scan, delivered)

\* nothing is decoded or processed before it is complete within the delivered
\* bytes, and what is processed are the stream's values, in order, each once
NoSpeculation ==
  /\ processed + Len(pending) <= MayCount(scan, delivered, rstat = "eof")
  /\ \A k \in 1..processed : emitted[k] = [s |-> scan.vals[k].s, e |-> scan.vals[k].e]
  /\ pending # <<>> => pending[1] = [s |-> scan.vals[processed + 1].s, e |-> scan.vals[processed + 1].e]

\* the result is a function of stream and fault: Expected knows nothing of the
\* chunk sizes k chosen by ReadReturn
ChunkIndependent ==
  outcome # "run" =>
    LET x == Expected(scan, stream, fault) IN
    \/ outcome = x.outcome /\ processed \in x.lo..x.hi
    \/ /\ "more-swallows-error" \in Deviations
       /\ outcome = "ok" /\ processed \in SwallowCounts(scan, stream, fault)

\* a fault is never taken for the end of input, and is reported only after
\* every earlier complete value was processed (stated without Expected)
FaultReported ==
  /\ (outcome = "ok" /\ Deviations = {}) =>
        /\ fault.kind # "ioerr" /\ scan.err = 0 /\ ~scan.open
        /\ processed = Len(scan.vals)
        /\ AllWS(stream, consumed + 1, Limit)
  /\ outcome = "json" =>
        /\ fault.kind = "ioerr" \/ scan.err # 0 \/ scan.open
        /\ processed >= MustCount(scan, Limit)
        /\ \A k \in 1..Len(scan.vals) : (scan.err # 0 \/ scan.open) => k <= processed

\* for every prefix of the stream taken as a whole input: the values processed
\* are the complete values of the prefix, and the outcome is "json" iff bytes
\* other than whitespace remain after the last of them
PrefixClosed(s) ==
  \A n \in 0..Len(s) :
    LET f == [kind |-> "eof", at |-> n]
        sc == ScanAll(Readable(s, f))
        x == Expected(sc, s, f)
        last == IF sc.vals = <<>> THEN 0 ELSE sc.vals[Len(sc.vals)].e
    IN /\ x.lo = Len(sc.vals) /\ x.hi = x.lo
       /\ (x.outcome = "json") <=> ~AllWS(s, last + 1, n)
       /\ \A k \in 1..Len(sc.vals) : sc.vals[k].e <= n
=============================================================================
