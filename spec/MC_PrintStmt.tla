--------------------------- MODULE MC_PrintStmt ---------------------------
(* C17, the print STATEMENT as a unit: "print writes its arguments separated *)
(* by one space and ended by a newline".  MC_Render checks the line that is  *)
(* written for given argument VALUES; this module checks when it is written: *)
(* the arguments are evaluated first, left to right, whatever they do (write *)
(* output of their own, raise an error, leave the statement through a control *)
(* signal), and only a print whose arguments were all evaluated writes - one *)
(* whole line, after everything its arguments wrote.  A print that is        *)
(* abandoned writes nothing.                                                 *)
(*                                                                            *)
(* Two definitions of the same language fragment:                            *)
(*  - a small-step machine shaped like the implementation (evalStatement /   *)
(*    evalExprList / callFunction / evalMatch in src/evaluator.go): control   *)
(*    stack, value stack, signals that unwind to their handler; one action   *)
(*    per step, so that the laws are checked in every intermediate state;    *)
(*  - a denotation by structural recursion (B...), the reading of the        *)
(*    statement: print = evaluate all arguments, then one line.              *)
(* Laws: in every reachable state the output is a prefix of the denotation   *)
(* (nothing is ever written that the finished run does not contain at that   *)
(* place: no partial line), a line is only ever started at a line start or   *)
(* behind printf text, the stacks are balanced; at the end the two agree.    *)
(*                                                                            *)
(* Universe: the statement under test PR = print a1, .., an (1 <= n <=       *)
(* MaxOuter); an argument is                                                  *)
(*   val     a plain value (opaque scalar atom, named by its position)       *)
(*   printf  printf("<text>") used as an expression: writes text, yields null *)
(*   err     an expression that raises a runtime error                       *)
(*   sig s   a match expression whose arm is the block { s }                 *)
(*   call b  a call f(v, w) of a user function whose body is                 *)
(*           print b1, .., bm (1 <= m <= MaxInner, arguments as above without *)
(*           call; signals return w / next / exit) followed by return v      *)
(* in three contexts: directly in a rule body (signals next, exit), in a     *)
(* for loop in the rule body (break, continue, next, exit), in a function    *)
(* called by the rule (return, next, exit); around PR the fixed lines s / t  *)
(* (before / after it), u (after the loop / call), e (END).  The rule runs   *)
(* for two input elements.                                                    *)
EXTENDS JqRender
CONSTANTS MaxOuter, MaxInner, Ctxs

VARIABLES ctx, pr, ctl, vs, out, status, phase
vars == <<ctx, pr, ctl, vs, out, status, phase>>

AVal == [a |-> "val"]
APf  == [a |-> "printf"]
AErr == [a |-> "err"]
ASig(s) == [a |-> "sig", s |-> s]
ACall(b) == [a |-> "call", b |-> b]

InnerSigs == {"return", "next", "exit"}
CtxSigs(c) == CASE c = "rule" -> {"next", "exit"}
                [] c = "loop" -> {"break", "continue", "next", "exit"}
                [] OTHER      -> {"return", "next", "exit"}
InnerArgs == {AVal, APf, AErr} \cup {ASig(s) : s \in InnerSigs}
InnerPrints == UNION {[1..k -> InnerArgs] : k \in 1..MaxInner}
OuterArgs(c) == {AVal, APf, AErr} \cup {ASig(s) : s \in CtxSigs(c)} \cup {ACall(b) : b \in InnerPrints}

\* statements; pp is the position prefix that names the atoms below it
SPrint(args, pp) == [k |-> "print", args |-> args, pp |-> pp]
SMark(s) == [k |-> "mark", s |-> s]
SLoop(n, body) == [k |-> "loop", n |-> n, body |-> body]
SCall(body, pp) == [k |-> "callstmt", body |-> body, pp |-> pp]

PR(args) == SPrint(args, <<>>)
Around(args) == <<SMark("s"), PR(args), SMark("t")>>
RuleBody(c, args) ==
  CASE c = "rule" -> Around(args)
    [] c = "loop" -> <<SLoop(2, Around(args)), SMark("u")>>
    [] OTHER      -> <<SCall(Around(args), <<0>>), SMark("u")>>
NElems == 2

PfTok == P("<pf>")
MarkLine(s) == <<P(s), Newline>>
PrintLine(vals) == PrintStmt(EmptyHeap, vals, Null)
RetVal(pp) == Atom("a", pp \o <<0>>)     \* the function's first parameter: `return v` at the end of its body
SigVal(pp) == Atom("a", pp \o <<9>>)     \* its second parameter: `return w` in a match arm

----------------------------------------------------------------------------
(* The machine.  ctl[1] is the next item; vs grows at its end.               *)
IS(s) == [i |-> "stmt", s |-> s]
IA(a, pp) == [i |-> "arg", a |-> a, pp |-> pp]
IW(n) == [i |-> "write", n |-> n]
IDrop == [i |-> "drop"]
IFrame(base, pp) == [i |-> "frame", base |-> base, pp |-> pp]
ILoop(k, body, base) == [i |-> "loop", k |-> k, body |-> body, base |-> base]
IElem(k, body) == [i |-> "elem", k |-> k, body |-> body]
Items(ss) == [j \in 1..Len(ss) |-> IS(ss[j])]

Start(c, args) == <<IElem(NElems, RuleBody(c, args)), IS(SMark("e"))>>

\* index of the first item of kind k on the control stack (0: none)
FirstOf(st, k) == LET S == {j \in 1..Len(st) : st[j].i = k} IN IF S = {} THEN 0 ELSE SetMin(S)
From(st, j) == SubSeq(st, j, Len(st))

\* a signal unwinds to its handler; pending argument values of abandoned prints are dropped
Raise(s) ==
  LET f == FirstOf(ctl, "frame")
      l == FirstOf(ctl, "loop")
      e == FirstOf(ctl, "elem")
  IN
  CASE s = "exit" -> /\ ctl' = <<>> /\ vs' = <<>> /\ status' = "ok" /\ UNCHANGED out
    [] s = "error" -> /\ ctl' = <<>> /\ vs' = <<>> /\ status' = "runtime" /\ UNCHANGED out
    [] s = "return" /\ f > 0 ->
         /\ ctl' = From(ctl, f + 1)
         /\ vs' = Append(SubSeq(vs, 1, ctl[f].base), SigVal(ctl[f].pp))
         /\ UNCHANGED <<out, status>>
    [] s = "break" /\ l > 0 /\ (f = 0 \/ l < f) ->
         /\ ctl' = From(ctl, l + 1) /\ vs' = SubSeq(vs, 1, ctl[l].base) /\ UNCHANGED <<out, status>>
    [] s = "continue" /\ l > 0 /\ (f = 0 \/ l < f) ->
         /\ ctl' = From(ctl, l) /\ vs' = SubSeq(vs, 1, ctl[l].base) /\ UNCHANGED <<out, status>>
    [] s = "next" /\ e > 0 ->
         /\ ctl' = From(ctl, e) /\ vs' = <<>> /\ UNCHANGED <<out, status>>
    [] OTHER -> /\ ctl' = <<>> /\ vs' = <<>> /\ status' = "open" /\ UNCHANGED out   \* a signal without handler: outside this universe

Step ==
  LET top == Head(ctl)
      rest == Tail(ctl)
  IN
  CASE top.i = "stmt" ->
         LET s == top.s IN
         CASE s.k = "print" ->   \* evalExprList: all arguments, left to right, then the write
                /\ ctl' = [j \in 1..Len(s.args) |-> IA(s.args[j], s.pp \o <<j>>)] \o <<IW(Len(s.args))>> \o rest
                /\ UNCHANGED <<vs, out, status>>
           [] s.k = "mark" -> /\ out' = out \o MarkLine(s.s) /\ ctl' = rest /\ UNCHANGED <<vs, status>>
           [] s.k = "loop" -> /\ ctl' = <<ILoop(s.n, s.body, Len(vs))>> \o rest /\ UNCHANGED <<vs, out, status>>
           [] OTHER -> \* an expression statement that calls a function: value dropped
                /\ ctl' = Items(s.body) \o <<IFrame(Len(vs), s.pp), IDrop>> \o rest
                /\ UNCHANGED <<vs, out, status>>
    [] top.i = "arg" ->
         LET a == top.a IN
         CASE a.a = "val" -> /\ vs' = Append(vs, Atom("a", top.pp)) /\ ctl' = rest /\ UNCHANGED <<out, status>>
           [] a.a = "printf" -> /\ out' = Append(out, PfTok) /\ vs' = Append(vs, Null) /\ ctl' = rest /\ UNCHANGED status
           [] a.a = "err" -> Raise("error")
           [] a.a = "sig" -> Raise(a.s)
           [] OTHER -> \* call: the body (one print), then `return v`
                /\ ctl' = <<IS(SPrint(a.b, top.pp)), IFrame(Len(vs), top.pp)>> \o rest
                /\ UNCHANGED <<vs, out, status>>
    [] top.i = "frame" -> /\ vs' = Append(vs, RetVal(top.pp)) /\ ctl' = rest /\ UNCHANGED <<out, status>>
    [] top.i = "write" ->
         /\ out' = out \o PrintLine(SubSeq(vs, Len(vs) - top.n + 1, Len(vs)))
         /\ vs' = SubSeq(vs, 1, Len(vs) - top.n)
         /\ ctl' = rest /\ UNCHANGED status
    [] top.i = "drop" -> /\ vs' = SubSeq(vs, 1, Len(vs) - 1) /\ ctl' = rest /\ UNCHANGED <<out, status>>
    [] OTHER -> \* loop / elem: one more round or done
         /\ ctl' = IF top.k = 0 THEN rest ELSE Items(top.body) \o <<[top EXCEPT !.k = @ - 1]>> \o rest
         /\ UNCHANGED <<vs, out, status>>

\* two phases (BUILDING.md): Init picks the context and the first argument, Pick the others
Init == /\ ctx \in Ctxs
        /\ \E a \in OuterArgs(ctx) : pr = <<a>>
        /\ ctl = <<>> /\ vs = <<>> /\ out = <<>> /\ status = "running" /\ phase = "pick"
Pick == /\ phase = "pick" /\ phase' = "run"
        /\ \E more \in UNION {[1..k -> OuterArgs(ctx)] : k \in 0..(MaxOuter - 1)} :
             /\ pr' = pr \o more
             /\ ctl' = Start(ctx, pr \o more)
        /\ UNCHANGED <<ctx, vs, out, status>>
Run == /\ phase = "run" /\ ctl # <<>> /\ Step /\ UNCHANGED <<ctx, pr, phase>>
Finish == /\ phase = "run" /\ ctl = <<>> /\ phase' = "done"
          /\ status' = IF status = "running" THEN "ok" ELSE status
          /\ UNCHANGED <<ctx, pr, ctl, vs, out>>
Next == Pick \/ Run \/ Finish

----------------------------------------------------------------------------
(* The denotation: [o |-> tokens written, sig |-> "none" | signal | "error"] *)
RECURSIVE BArg(_, _), BArgs(_, _, _), BStmt(_), BStmts(_, _), BLoop(_, _), BElems(_, _)
BArg(a, pp) ==
  CASE a.a = "val" -> [o |-> <<>>, sig |-> "none", v |-> Atom("a", pp)]
    [] a.a = "printf" -> [o |-> <<PfTok>>, sig |-> "none", v |-> Null]
    [] a.a = "err" -> [o |-> <<>>, sig |-> "error", v |-> Null]
    [] a.a = "sig" -> [o |-> <<>>, sig |-> a.s, v |-> Null]
    [] OTHER -> LET r == BStmt(SPrint(a.b, pp)) IN
                CASE r.sig = "none" -> [o |-> r.o, sig |-> "none", v |-> RetVal(pp)]
                  [] r.sig = "return" -> [o |-> r.o, sig |-> "none", v |-> SigVal(pp)]
                  [] OTHER -> [o |-> r.o, sig |-> r.sig, v |-> Null]
BArgs(args, pp, j) ==
  IF j > Len(args) THEN [o |-> <<>>, sig |-> "none", vals |-> <<>>]
  ELSE LET r == BArg(args[j], pp \o <<j>>) IN
       IF r.sig # "none" THEN [o |-> r.o, sig |-> r.sig, vals |-> <<>>]
       ELSE LET q == BArgs(args, pp, j + 1) IN [o |-> r.o \o q.o, sig |-> q.sig, vals |-> <<r.v>> \o q.vals]
BStmt(s) ==
  CASE s.k = "print" -> LET r == BArgs(s.args, s.pp, 1) IN
                        IF r.sig = "none" THEN [o |-> r.o \o PrintLine(r.vals), sig |-> "none"]
                        ELSE [o |-> r.o, sig |-> r.sig]      \* abandoned: what the arguments wrote, no line
    [] s.k = "mark" -> [o |-> MarkLine(s.s), sig |-> "none"]
    [] s.k = "loop" -> BLoop(s.n, s.body)
    [] OTHER -> LET r == BStmts(s.body, 1) IN
                IF r.sig \in {"none", "return"} THEN [o |-> r.o, sig |-> "none"] ELSE r
BStmts(ss, j) ==
  IF j > Len(ss) THEN [o |-> <<>>, sig |-> "none"]
  ELSE LET r == BStmt(ss[j]) IN
       IF r.sig # "none" THEN r
       ELSE LET q == BStmts(ss, j + 1) IN [o |-> r.o \o q.o, sig |-> q.sig]
BLoop(k, body) ==
  IF k = 0 THEN [o |-> <<>>, sig |-> "none"]
  ELSE LET r == BStmts(body, 1) IN
       CASE r.sig \in {"none", "continue"} -> LET q == BLoop(k - 1, body) IN [o |-> r.o \o q.o, sig |-> q.sig]
         [] r.sig = "break" -> [o |-> r.o, sig |-> "none"]
         [] OTHER -> r
BElems(k, body) ==
  IF k = 0 THEN [o |-> <<>>, sig |-> "none"]
  ELSE LET r == BStmts(body, 1) IN
       IF r.sig \in {"none", "next"} THEN LET q == BElems(k - 1, body) IN [o |-> r.o \o q.o, sig |-> q.sig]
       ELSE r
Denote(c, args) ==
  LET r == BElems(NElems, RuleBody(c, args)) IN
  CASE r.sig = "none" -> [o |-> r.o \o MarkLine("e"), status |-> "ok"]
    [] r.sig = "exit" -> [o |-> r.o, status |-> "ok"]           \* exit: END does not run
    [] r.sig = "error" -> [o |-> r.o, status |-> "runtime"]
    [] OTHER -> [o |-> r.o, status |-> "open"]

----------------------------------------------------------------------------
IsPrefix(a, b) == Len(a) <= Len(b) /\ SubSeq(b, 1, Len(a)) = a
AtLineStart == out = <<>> \/ out[Len(out)] = Newline \/ out[Len(out)] = PfTok
Frames == {j \in 1..Len(ctl) : ctl[j].i \in {"frame", "loop"}}
PendingArgs == Cardinality({j \in 1..Len(ctl) : ctl[j].i \in {"write", "drop"}})

Laws == phase # "pick" =>
  LET d == Denote(ctx, pr) IN
  \* nothing is ever on the output that the finished run does not have at that place
  /\ IsPrefix(out, d.o)
  \* a line is started only at a line start (or right behind printf text)
  /\ (ctl # <<>> /\ ctl[1].i = "write") => AtLineStart
  /\ (ctl # <<>> /\ ctl[1].i = "stmt" /\ ctl[1].s.k = "mark") => AtLineStart
  \* the value stack holds exactly the evaluated arguments of the prints that are being evaluated
  /\ \A j \in Frames : ctl[j].base <= Len(vs)
  /\ (PendingArgs = 0) => vs = <<>>
  /\ (ctl # <<>> /\ ctl[1].i = "write") => Len(vs) >= ctl[1].n
  /\ status # "open"
  /\ phase = "done" => (out = d.o /\ status = d.status /\ vs = <<>>)
  \* an abandoned print writes no line: the number of lines is the number of completed statements
  /\ phase = "done" => Count(out, LAMBDA tk : tk = Newline) = Count(d.o, LAMBDA tk : tk = Newline)

RECURSIVE EncArg(_)
EncArg(a) ==
  CASE a.a = "val" -> "v"
    [] a.a = "printf" -> "p"
    [] a.a = "err" -> "e"
    [] a.a = "sig" -> "s:" \o a.s
    [] OTHER -> [c |-> [j \in 1..Len(a.b) |-> EncArg(a.b[j])]]

\* which kinds of behaviour the vector exercises (evidence / sampling on the Go side)
Vec == phase = "done" =>
  Emit([ctx |-> ctx, args |-> [j \in 1..Len(pr) |-> EncArg(pr[j])], out |-> EncToks(out), status |-> status])
=============================================================================
