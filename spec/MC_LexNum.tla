---------------------------- MODULE MC_LexNum ----------------------------
(* C13: what a numeric literal denotes.  Every spelling  I ('.' F)?  with I *)
(* up to MaxInt digits and F up to MaxFrac digits over small digit sets     *)
(* (leading zeros, digits that are and are not octal digits, trailing       *)
(* fraction zeros), plus a catalogue of long and special spellings.         *)
(* Vector: the literal and its exact decimal value in canonical form; the   *)
(* harness writes the literal in every position a literal can occur and     *)
(* compares what the real code prints with the nearest double of the value. *)
EXTENDS JqLex
CONSTANTS MaxInt, MaxFrac

IntAlphabet == {"0", "1", "7", "8"}
FracAlphabet == IF MaxFrac > 2 THEN {"0", "1", "5"} ELSE {"0", "5"}
Catalogue == {Chars(s) : s \in {
  "0", "00", "000", "007", "010", "0100", "08", "09", "017", "018", "019", "0777", "012", "00012", "0644", "01234567",
  "00.5", "1.50", "10.010", "010.010", "0.0", "00.00", "0.10", "3.14159", "2.500", "100", "1000000", "0001000000",
  "9", "99", "90", "9.9", "0.9", "123456789", "9007199254740993", "09007199254740993",
  "18446744073709551616", "0000000000000000000000000000010", "00000000000000000000000000000000000000000000000000000000000000000000000000000008",
  "123456789012345678901234567890", "0123456789012345678901234567", "0.1000000000000000055511151231257827",
  "0.30000000000000004", "1.0000000000000000000000000000000000000001", "000000000000000000000.5000000000000000000000",
  "4294967296", "04294967296", "0777777777777777777777", "9223372036854775807", "9223372036854775808"}}

NonEmptyUpTo(S, n) == SeqsUpTo(S, n) \ {<<>>}
VARIABLES lit, done
Init == /\ lit \in NonEmptyUpTo(IntAlphabet, MaxInt) \cup Catalogue
        /\ done = FALSE
Next == /\ ~done /\ done' = TRUE
        /\ IF lit \in Catalogue /\ lit \notin NonEmptyUpTo(IntAlphabet, MaxInt) THEN lit' = lit
           ELSE \E f \in SeqsUpTo(FracAlphabet, MaxFrac) : lit' = lit \o (IF f = <<>> THEN <<>> ELSE <<".">> \o f)

\* ---- laws
DigitVal(c) == CHOOSE n \in 0..9 : ToString(n) = c
RECURSIVE Pow10(_)
Pow10(k) == IF k = 0 THEN 1 ELSE 10 * Pow10(k - 1)
\* positional value of a digit sequence: sum of digit * 10^k (k counted from the right)
PosVal(d) == LET n == Len(d)
                 RECURSIVE Sum(_)
                 Sum(i) == IF i > n THEN 0 ELSE DigitVal(d[i]) * Pow10(n - i) + Sum(i + 1)
             IN Sum(1)
\* the same by Horner's rule
RECURSIVE Horner(_, _)
Horner(d, acc) == IF d = <<>> THEN acc ELSE Horner(Tail(d), 10 * acc + DigitVal(Head(d)))
Laws == done =>
  LET v == NumValue(lit)
      I == IntDigits(lit)
      F == FracDigits(lit)
      r == Tokens(lit)
  IN \* it is one numeric literal of the language, and so is its canonical spelling
     /\ ~r.err /\ ~r.open /\ Len(r.toks) = 1 /\ r.toks[1] = Tok("Num", 0, Len(lit), lit)
     /\ LET c == Tokens(NumCanon(v)) IN ~c.err /\ ~c.open /\ Len(c.toks) = 1 /\ c.toks[1].tag = "Num"
     /\ lit = I \o (IF F = <<>> THEN <<>> ELSE <<".">> \o F)
     \* canonical form: no leading zero on a multi-digit integer part, no trailing zero in the fraction; idempotent
     /\ Len(v.ip) >= 1 /\ (Len(v.ip) > 1 => v.ip[1] # "0")
     /\ (Len(v.fp) > 0 => v.fp[Len(v.fp)] # "0")
     /\ NumValue(NumCanon(v)) = v
     \* leading zeros do not change the value
     /\ NumValue(<<"0">> \o lit) = v
     /\ NumValue(<<"0", "0">> \o lit) = v
     \* trailing fraction zeros do not change the value; an all-zero fraction is no fraction
     /\ NumValue(I \o <<".">> \o F \o <<"0">>) = v
     /\ (F = <<>>) => NumValue(I \o <<".", "0", "0">>) = v
     \* value = sum of digit * 10^k: all digits of the literal, scaled, equal the canonical digits, scaled
     /\ (Len(I) + 2 * Len(F) <= 8) =>      \* (TLC integers are 32 bits)
          PosVal(I \o F) * Pow10(Len(v.fp)) = (Horner(v.ip, 0) * Pow10(Len(v.fp)) + Horner(v.fp, 0)) * Pow10(Len(F))
     \* distinct canonical forms are distinct values: a different digit anywhere is a different number
     /\ (v.ip = <<"0">> /\ v.fp = <<>>) <=> (\A i \in 1..Len(lit) : lit[i] \in {"0", "."})

Vec == done => LET v == NumValue(lit) IN Emit([lit |-> lit, ip |-> v.ip, fp |-> v.fp, canon |-> NumCanon(v)])
=============================================================================
