--------------------------- MODULE MC_PrintfSites ---------------------------
(* C18: printf emits its bytes WHERE THE CALL IS EVALUATED.                  *)
(*                                                                           *)
(* printf is an expression, so a call can stand at every place an expression *)
(* is evaluated: the body of a BEGIN / BEGINFILE / pattern / ENDFILE / END   *)
(* rule, the PATTERN of a rule, the body of a user function, an arm of a     *)
(* match, an argument of another call, the header of a loop, and a ROOT      *)
(* SELECTOR (-r, any expression; evaluated once per JSON value), itself bare *)
(* or inside an object / array literal or a match arm.  The statement says   *)
(* what a call writes (the scanner of JqPrintf) -- "and nothing else", and   *)
(* nothing less: the bytes of a call that succeeds are part of the output of *)
(* the run, in the order of evaluation relative to everything else the run   *)
(* prints; a failing call writes nothing and ends the run with what was      *)
(* written before it.                                                        *)
(*                                                                           *)
(* The model is the composition of two machines:                             *)
(*  - the SITE ORDER of a run (RunActs: one operator per loop level of       *)
(*    EvalProgram: run / value / selector round / element / rule body), a    *)
(*    sequence of activations: a marker (a `print` of the program) or the    *)
(*    evaluation of the call standing at a site;                             *)
(*  - the scanner of JqPrintf, started afresh for every activation of a call *)
(*    (Enter), fed the bytes of that call's format (Scan), ended (Finish);   *)
(*    its ONE write lands in `so`, the stdout of the RUN (Return), or the    *)
(*    run is over (Abort).                                                   *)
(* WHEN a selector is evaluated relative to the rounds of EARLIER selectors   *)
(* of the same value is not fixed by any statement: `lazy` = each selector    *)
(* right before its own round, else all selectors of a value before its first *)
(* round.  Both readings are emitted where they differ (sens); the harness    *)
(* wants ONE reading to explain every run.                                    *)
EXTENDS JqPrintf
CONSTANTS Big     \* thorough tier: more calls, more input shapes

\* ---- the calls: formats of the families of MC_Printf, arguments by value.
\* "x" is a literal byte instantiated PER SITE by the harness (so the bytes of
\* a call name the site that wrote them), "d" a letter that is no directive;
\* the bytes of the arguments are opaque symbols as in MC_Printf.
A(kind, r, src) == [kind |-> kind, r |-> r, src |-> src]
AS == A("str", <<"sa", "sb">>, "S")
AL == A("str", <<"la", "lb", "lc", "ld", "le", "lf">>, "L")
AN == A("num", <<"na">>, "N")
AV == A("arr", Chars("[1]"), "[1]")
Call(f, as) == [f |-> Chars(f), a |-> as, none |-> FALSE]
NoCall == [f |-> <<>>, a |-> <<>>, none |-> TRUE]
Ok1 == Call("x%4sx", <<AS>>)
OkCalls == { Ok1, Call("x%sx", <<AS>>), Call("x%-5s", <<AS>>), Call("%03fx", <<AN>>), Call("x%vx%%", <<AV>>),
             Call("%s%4fx", <<AL, AN>>), Call("x", <<>>) }
Bad1 == Call("x%sx", <<>>)
BadCalls == { Bad1,                                 \* missing argument
              Call("x%fx", <<AS>>),                 \* wrong kind
              Call("x%dx", <<>>),                   \* unknown directive
              Call("xx%", <<>>),                    \* dangling %
              Call("x%4", <<AS>>),                  \* dangling width
              Call("x%65537sx", <<AS>>),            \* beyond the maximum
              Call("x%-sx", <<AS>>),                \* a sign without digits
              Call("%5sx%f", <<AS>>) }              \* a field that succeeds, then a missing argument
BigCalls == { Call("x%5000sx", <<AS>>), Call("%4096s%f", <<AS, AS>>), Call("%-4096sx%5000s", <<AS, AL>>) }
Calls == OkCalls \cup BadCalls \cup (IF Big THEN BigCalls ELSE {})

\* ---- the sites
ProgSites == {"B", "BF", "PAT", "BODY", "FN", "ARM", "ARG", "LOOP", "EF", "E"}
SelSite(k) == IF k = 1 THEN "S1" ELSE IF k = 2 THEN "S2" ELSE "S3"
\* a selector: what it selects and the call standing in it.  doc: the value as read (an object);
\* arr: a member of it that is an array of 2; pbare: the call itself; pobj: an object literal holding
\* the call; parr: an array literal of 2 holding the call; pmatch: a match arm holding such an object
CallShapes == {"pbare", "pobj", "parr", "pmatch"}
Sel(sh, c) == [shape |-> sh, c |-> c]
SelDoc == Sel("doc", NoCall)
SelArr == Sel("arr", NoCall)
NElems(sel) == IF sel.shape \in {"arr", "parr"} THEN 2 ELSE -1      \* -1: not an array, one round

NoneAt == [s \in ProgSites |-> NoCall]
Cfg(fam, vals, sels, at) == [fam |-> fam, vals |-> vals, sels |-> sels, at |-> at]

\* Family 1: ONE site holds a call x every call x small inputs
Shapes1 == IF Big THEN {<<1>>, <<2>>, <<1, 1>>} ELSE {<<1>>, <<2>>}
Fam1 ==
  { Cfg(1, vs, ss, [NoneAt EXCEPT ![s] = c]) : s \in ProgSites, c \in Calls, vs \in Shapes1, ss \in {<<>>, <<SelArr>>} }
  \cup UNION { { Cfg(1, vs, <<Sel(sh, c)>>, NoneAt), Cfg(1, vs, <<SelDoc, Sel(sh, c)>>, NoneAt), Cfg(1, vs, <<Sel(sh, c), SelArr>>, NoneAt) }
               : sh \in CallShapes, c \in Calls, vs \in Shapes1 }

\* Family 2: every PAIR of sites, both succeed / the one or the other fails
AllSites == ProgSites \cup {"S1", "S2"}
PairCalls == { <<Ok1, Call("%s%4fx", <<AL, AN>>)>>, <<Ok1, Bad1>>, <<Bad1, Ok1>> }
PairAt(s, t, cs) == [x \in ProgSites |-> IF x = s THEN cs[1] ELSE IF x = t THEN cs[2] ELSE NoCall]
CallOf(s, t, cs, x) == IF x = s THEN cs[1] ELSE IF x = t THEN cs[2] ELSE NoCall
PairSels(s, t, cs) ==
  IF {s, t} \cap {"S1", "S2"} = {} THEN <<SelArr>>
  ELSE << (IF "S1" \in {s, t} THEN Sel("pobj", CallOf(s, t, cs, "S1")) ELSE SelDoc),
          (IF "S2" \in {s, t} THEN Sel("parr", CallOf(s, t, cs, "S2")) ELSE SelArr) >>
Fam2 == { Cfg(2, <<2>>, PairSels(p[1], p[2], cs), PairAt(p[1], p[2], cs)) :
            p \in {q \in AllSites \X AllSites : q[1] # q[2]}, cs \in PairCalls }

\* Family 3: EVERY site holds a call (the same one; the site byte tells them apart)
Shapes3 == {<<1>>, <<2>>, <<1, 1>>}
Sels3(c) == { <<>>, <<Sel("pobj", c), Sel("parr", c)>>, <<Sel("pbare", c)>>, <<Sel("pmatch", c), SelDoc>>,
              <<SelArr, Sel("pbare", c), Sel("pobj", c)>> }
Fam3 == UNION { { Cfg(3, vs, ss, [s \in ProgSites |-> c]) : vs \in Shapes3, ss \in Sels3(c) } : c \in OkCalls }
        \cup (IF Big THEN { Cfg(3, <<2>>, <<Sel("pobj", Ok1), Sel("parr", Ok1)>>, [[s \in ProgSites |-> Ok1] EXCEPT ![b] = c])
                            : b \in ProgSites, c \in BadCalls }
              ELSE {})
Configs == Fam1 \cup Fam2 \cup Fam3

\* ---- the site order of a run (evaluator.go: EvalProgram, evalPatternRules, the template program of the harness)
Mark(t) == [t |-> "mark", s |-> t, c |-> NoCall]
CallAt(s, c) == IF c.none THEN <<>> ELSE << [t |-> "call", s |-> s, c |-> c] >>
At(cf, s) == CallAt(s, cf.at[s])
RECURSIVE Rep(_, _)
Rep(sq, n) == IF n <= 0 THEN <<>> ELSE sq \o Rep(sq, n - 1)
\* rule 1: PATTERN { print "P1"; BODY; fn(); match arm; id(ARG); for (..; LOOP && i < 2; ..) print "it"; print "P1e" }
BodyActs(cf) == <<Mark("P1")>> \o At(cf, "BODY") \o <<Mark("fn")>> \o At(cf, "FN") \o At(cf, "ARM") \o At(cf, "ARG")
                \o At(cf, "LOOP") \o <<Mark("it")>> \o At(cf, "LOOP") \o <<Mark("it")>> \o At(cf, "LOOP") \o <<Mark("P1e")>>
\* one element (or the root that is no array): rule 1 (pattern, then body), rule 2
ElemActs(cf) == At(cf, "PAT") \o BodyActs(cf) \o <<Mark("P2")>>
\* one round: BEGINFILE, the pattern rules per element, ENDFILE
RoundActs(cf, n) == <<Mark("BF")>> \o At(cf, "BF") \o Rep(ElemActs(cf), IF n < 0 THEN 1 ELSE n) \o <<Mark("EF")>> \o At(cf, "EF")
SelAct(cf, k) == CallAt(SelSite(k), cf.sels[k].c)
ValueActs(cf, lz) ==
  LET ns == Len(cf.sels) IN
  IF ns = 0 THEN RoundActs(cf, -1)
  ELSE IF lz THEN FlattenSeq([k \in 1..ns |-> SelAct(cf, k) \o RoundActs(cf, NElems(cf.sels[k]))])
  ELSE FlattenSeq([k \in 1..ns |-> SelAct(cf, k)]) \o FlattenSeq([k \in 1..ns |-> RoundActs(cf, NElems(cf.sels[k]))])
RECURSIVE SumSeq(_)
SumSeq(sq) == IF sq = <<>> THEN 0 ELSE Head(sq) + SumSeq(Tail(sq))
NVals(cf) == SumSeq(cf.vals)
RunActs(cf, lz) == <<Mark("B")>> \o At(cf, "B") \o Rep(ValueActs(cf, lz), NVals(cf)) \o <<Mark("E")>> \o At(cf, "E")
\* the reading matters only where a selector after the first writes (or fails)
Sens(cf) == \E k \in 2..Len(cf.sels) : ~cf.sels[k].c.none

VARIABLES cfg, lazy,
          agenda,   \* activations still to come
          cur,      \* the call being evaluated (an activation), or Idle
          rest,     \* the part of its format not yet handed to the scanner
          so,       \* stdout of the RUN: markers and the writes of finished calls, in order
          cls       \* "running" | "ok" | "runtime"
svars == <<cfg, lazy, agenda, cur, rest, so, cls>>
vars == <<inp, args, mode, wneg, wzero, wval, buf, argi, out, writes, why, cfg, lazy, agenda, cur, rest, so, cls>>
Idle == [t |-> "idle", s |-> "", c |-> NoCall]

Init == /\ cfg \in Configs
        /\ lazy \in (IF Sens(cfg) THEN BOOLEAN ELSE {FALSE})
        /\ agenda = RunActs(cfg, lazy)
        /\ cur = Idle /\ rest = <<>> /\ so = <<>> /\ cls = "running"
        /\ PInit(<<>>)

\* a `print` of the program
DoMark == /\ cls = "running" /\ cur = Idle /\ agenda # <<>> /\ Head(agenda).t = "mark"
          /\ so' = Append(so, [t |-> "mark", s |-> Head(agenda).s, runs |-> <<>>])
          /\ agenda' = Tail(agenda)
          /\ UNCHANGED <<cfg, lazy, cur, rest, cls>> /\ UNCHANGED pvars
\* the evaluation reaches a call: a fresh scanner
Enter == /\ cls = "running" /\ cur = Idle /\ agenda # <<>> /\ Head(agenda).t = "call"
         /\ cur' = Head(agenda) /\ rest' = Head(agenda).c.f /\ agenda' = Tail(agenda)
         /\ inp' = <<>> /\ args' = <<>> /\ mode' = "Literal" /\ wneg' = FALSE /\ wzero' = FALSE /\ wval' = 0
         /\ buf' = <<>> /\ argi' = 0 /\ out' = <<>> /\ writes' = 0 /\ why' = ""
         /\ UNCHANGED <<cfg, lazy, so, cls>>
\* the next argument of the call: every argument looked at so far was consumed (or ended the call)
NextArg == IF Len(args) < Len(cur.c.a) THEN cur.c.a[Len(args) + 1] ELSE NoArg
Scan == /\ cur # Idle /\ mode \notin Terminal /\ rest # <<>>
        /\ Step(Head(rest), IF Head(rest) \in {"s", "f", "v"} /\ mode \in {"Percent", "WidthDigits"} /\ wval <= MaxWidth
                             THEN {NextArg} ELSE {NoArg})
        /\ rest' = Tail(rest)
        /\ UNCHANGED <<cfg, lazy, agenda, cur, so, cls>>
Finish == /\ cur # Idle /\ mode \notin Terminal /\ rest = <<>>
          /\ End
          /\ UNCHANGED svars
\* the call has written (once): its bytes are the next bytes of the run's output
Return == /\ cur # Idle /\ mode = "Done"
          /\ so' = Append(so, [t |-> "out", s |-> cur.s, runs |-> OutRuns(CodePolicy)])
          /\ cur' = Idle
          /\ UNCHANGED <<cfg, lazy, agenda, rest, cls>> /\ UNCHANGED pvars
\* the call failed: a runtime error, the run is over, nothing more is written
Abort == /\ cur # Idle /\ mode = "Failed"
         /\ cls' = "runtime" /\ agenda' = <<>> /\ cur' = Idle
         /\ UNCHANGED <<cfg, lazy, rest, so>> /\ UNCHANGED pvars
Halt == /\ cls = "running" /\ cur = Idle /\ agenda = <<>>
        /\ cls' = "ok"
        /\ UNCHANGED <<cfg, lazy, agenda, cur, rest, so>> /\ UNCHANGED pvars
Next == DoMark \/ Enter \/ Scan \/ Finish \/ Return \/ Abort \/ Halt

\* ------------------------------------------------------------------------
\* Laws
TypeOK ==
  /\ cls \in {"running", "ok", "runtime"}
  /\ cur = Idle \/ (cur.t = "call" /\ ~cur.c.none)
  /\ mode \in Scanning \cup {"Fail"} \cup Terminal
  /\ \A i \in 1..Len(so) : so[i].t \in {"mark", "out"}
  /\ cls # "running" => agenda = <<>> /\ cur = Idle

\* the calls of this module have no surplus argument and nothing the open points of the statement touch:
\* every reading gives the same bytes; the scanner asks for the argument the call has or finds none
CallsClosed ==
  \A c \in Calls :
    /\ \A p1, p2 \in Policies : RefPrintf(c.f, c.a, p1) = RefPrintf(c.f, c.a, p2)
    /\ RefPrintf(c.f, c.a, CodePolicy).ok => RefPrintf(c.f, c.a, CodePolicy).used = Len(c.a)
    /\ (c \in OkCalls) => RefPrintf(c.f, c.a, CodePolicy).ok
    /\ (c \in BadCalls) => ~RefPrintf(c.f, c.a, CodePolicy).ok
ASSUME CallsClosed
ASSUME \A cf \in Configs : Sens(cf) <=> RunActs(cf, TRUE) # RunActs(cf, FALSE)

\* a call in progress has written nothing to the run's output; what it writes, it writes whole
InCall == cur # Idle => /\ (mode = "Done") = (writes = 1)
                        /\ mode # "Done" => out = <<>>
                        /\ inp \o rest = cur.c.f \/ mode = "Fail"
\* independent reference of the whole run: RefPrintf per activation, up to the first call that fails
RECURSIVE RefRun(_, _)
RefRun(acts, acc) ==
  IF acts = <<>> THEN [ok |-> TRUE, items |-> acc]
  ELSE LET a == Head(acts) IN
       IF a.t = "mark" THEN RefRun(Tail(acts), Append(acc, <<"mark", a.s, <<>>>>))
       ELSE LET r == RefPrintf(a.c.f, a.c.a, CodePolicy) IN
            IF r.ok THEN RefRun(Tail(acts), Append(acc, <<"out", a.s, r.bytes>>)) ELSE [ok |-> FALSE, items |-> acc]
HasBig(cf) == \E s \in ProgSites : cf.at[s] \in BigCalls
              \/ \E k \in 1..Len(cf.sels) : cf.sels[k].c \in BigCalls
\* how often the call at a site is evaluated in a run that does not fail (closed form, not via RunActs)
Rounds(cf) == IF cf.sels = <<>> THEN <<1>> ELSE [k \in 1..Len(cf.sels) |-> IF NElems(cf.sels[k]) < 0 THEN 1 ELSE NElems(cf.sels[k])]
Evals(cf, s) ==
  CASE s \in {"B", "E"} -> 1
    [] s \in {"BF", "EF"} -> NVals(cf) * Len(Rounds(cf))
    [] s \in {"PAT", "BODY", "FN", "ARM", "ARG"} -> NVals(cf) * SumSeq(Rounds(cf))
    [] s = "LOOP" -> 3 * NVals(cf) * SumSeq(Rounds(cf))
    [] OTHER -> NVals(cf)
HoldsCall(cf, s) == IF s \in ProgSites THEN ~cf.at[s].none
                    ELSE \E k \in 1..Len(cf.sels) : SelSite(k) = s /\ ~cf.sels[k].c.none
OutsOf(s) == Len(SelectSeq(so, LAMBDA it : it.t = "out" /\ it.s = s))
Finished ==
  cls # "running" =>
    LET ref == RefRun(RunActs(cfg, lazy), <<>>) IN
    /\ ref.ok = (cls = "ok")
    /\ Len(ref.items) = Len(so)
    /\ \A i \in 1..Len(so) : /\ so[i].t = ref.items[i][1] /\ so[i].s = ref.items[i][2]
                             /\ RunsLen(so[i].runs) = Len(ref.items[i][3])
                             /\ ~HasBig(cfg) => Expand(so[i].runs) = ref.items[i][3]
    /\ cls = "ok" => \A s \in AllSites \cup {"S3"} : OutsOf(s) = (IF HoldsCall(cfg, s) THEN Evals(cfg, s) ELSE 0)
    /\ cls = "runtime" => why # "" /\ writes = 0
    \* the frame of every run: BEGIN first; END last in a run that succeeds
    /\ so[1] = [t |-> "mark", s |-> "B", runs |-> <<>>]
    /\ cls = "ok" => \E i \in {Len(so) - 1, Len(so)} : so[i].t = "mark" /\ so[i].s = "E"
Laws == TypeOK /\ InCall /\ Finished

\* Action properties
IsPrefix(a, b) == Len(a) <= Len(b) /\ SubSeq(b, 1, Len(a)) = a
\* the run's output only grows, one item at a time; while a call is being evaluated it does not move
OutputGrows == [][IsPrefix(so, so') /\ Len(so') <= Len(so) + 1 /\ (cur # Idle /\ cur' # Idle => so' = so)]_vars
\* the bytes of a call enter the run's output in the step that ends it, and they are what the scanner wrote
WriteLands == [][(so' # so /\ so'[Len(so')].t = "out") => (mode = "Done" /\ cur # Idle /\ so'[Len(so')].s = cur.s
                                                          /\ so'[Len(so')].runs = Runs(out, CodePolicy))]_vars
\* after the end of the run (a failing call, or the last rule) nothing happens
ErrorEnds == [][cls = "running"]_vars
\* the activations are taken in order, none skipped (except by an error)
InOrder == [][agenda' = agenda \/ agenda' = Tail(agenda) \/ (agenda' = <<>> /\ cls' = "runtime")]_vars

\* ------------------------------------------------------------------------
CallJ(c) == [f |-> c.f, a |-> [i \in 1..Len(c.a) |-> c.a[i].src], none |-> c.none]
Vec == cls # "running" =>
  Emit([fam |-> cfg.fam, vals |-> cfg.vals,
        sels |-> [k \in 1..Len(cfg.sels) |-> [shape |-> cfg.sels[k].shape, c |-> CallJ(cfg.sels[k].c)]],
        at |-> [s \in ProgSites |-> CallJ(cfg.at[s])],
        lazy |-> lazy, sens |-> Sens(cfg), cls |-> cls, why |-> why,
        exp |-> [i \in 1..Len(so) |-> [t |-> so[i].t, s |-> so[i].s, runs |-> so[i].runs]]])
=============================================================================
