----------------------------- MODULE JqLex -----------------------------
(* The intended lexer of jqawk (DESIGN.md 4.2), the layout of a token       *)
(* sequence, and the layouts the statement of C13 permits.                  *)
(*                                                                          *)
(* A text is a sequence of bytes (JqUtil: 1-char strings, hex names for     *)
(* bytes >= 0x80).  Offsets are 0-based as in the implementation: the byte  *)
(* at offset p is t[p+1].  A token is [tag, pos, len, text]; tags are the   *)
(* names the implementation prints (TokenTag.String()).  pos/len follow     *)
(* the implementation's convention: a Str/Regex token points at its content *)
(* (after the opening delimiter), valued tokens (Ident Num Str Regex) have  *)
(* len = Len(text), all other tokens len = 0; `text` is the spelling.       *)
(* Which quote delimits a string is NOT part of the token.                  *)
(*                                                                          *)
(* The structure follows Lexer.Next: one operator per branch.               *)
EXTENDS JqUtil

Digits == {"0", "1", "2", "3", "4", "5", "6", "7", "8", "9"}
Lower == {"a", "b", "c", "d", "e", "f", "g", "h", "i", "j", "k", "l", "m",
          "n", "o", "p", "q", "r", "s", "t", "u", "v", "w", "x", "y", "z"}
Upper == {"A", "B", "C", "D", "E", "F", "G", "H", "I", "J", "K", "L", "M",
          "N", "O", "P", "Q", "R", "S", "T", "U", "V", "W", "X", "Y", "Z"}
WordStart == Lower \cup Upper \cup {"_"}
WordChar == WordStart \cup Digits
Blank == {" ", CR, TAB}
Quotes == {"'", "\""}

\* keyword spelling -> tag
KwList == <<
  <<"BEGIN", "Begin">>, <<"END", "End">>, <<"BEGINFILE", "BeginFile">>, <<"ENDFILE", "EndFile">>,
  <<"print", "Print">>, <<"function", "Function">>, <<"return", "Return">>, <<"if", "If">>,
  <<"else", "Else">>, <<"for", "For">>, <<"while", "While">>, <<"in", "In">>, <<"match", "Match">>,
  <<"true", "true">>, <<"false", "false">>, <<"break", "Break">>, <<"continue", "Continue">>,
  <<"next", "Next">>, <<"exit", "Exit">>, <<"null", "Null">>, <<"is", "Is">> >>
KwWords == {Chars(KwList[i][1]) : i \in 1..Len(KwList)}
KwTags == {KwList[i][2] : i \in 1..Len(KwList)}
KwTag == [w \in KwWords |-> KwList[CHOOSE i \in 1..Len(KwList) : Chars(KwList[i][1]) = w][2]]

Punct1 == {"{", "}", "[", "]", "(", ")", ",", ".", ";", ":", "~", "%", "<", ">", "+", "-", "*", "/", "=", "!"}
Punct2 == {"<=", ">=", "++", "+=", "--", "-=", "*=", "/=", "==", "=>", "!=", "!~", "&&", "||"}

ValuedTags == {"Ident", "Num", "Str", "Regex"}

\* After one of these a '/' is the division operator; anywhere else the
\* parser finds it in prefix position and has the lexer re-scan a regex.
OperandEnd == {"Ident", "Num", "Str", "Regex", ")", "]", "true", "false", "Null", "++", "--", "$"}

Tok(tag, pos, len, text) == [tag |-> tag, pos |-> pos, len |-> len, text |-> text]

\* first offset >= p whose byte is not in S (Len(t) if none)
RECURSIVE ScanWhile(_, _, _)
ScanWhile(t, p, S) == IF p < Len(t) /\ t[p+1] \in S THEN ScanWhile(t, p + 1, S) ELSE p
\* first offset >= p whose byte is in S (Len(t) if none)
RECURSIVE ScanUntil(_, _, _)
ScanUntil(t, p, S) == IF p < Len(t) /\ t[p+1] \notin S THEN ScanUntil(t, p + 1, S) ELSE p

\* ---- branches of Next.  Each returns [k, tok, np]: k = "tok" | "eof" | "err" | "open"
Res(k, tok, np) == [k |-> k, tok |-> tok, np |-> np]
NoTok == Tok("", 0, 0, <<>>)

\* skipWhitespace: blanks, and comments up to (not including) the newline
RECURSIVE SkipBlank(_, _)
SkipBlank(t, p) ==
  IF p >= Len(t) THEN p
  ELSE IF t[p+1] \in Blank THEN SkipBlank(t, p + 1)
  ELSE IF t[p+1] = "#" THEN SkipBlank(t, ScanUntil(t, p, {NL}))
  ELSE p

NewlineTok(t, p) == Res("tok", Tok("Newline", p, 0, <<NL>>), p + 1)

\* '$' alone, or '$' followed by a word: one identifier, never a keyword
DollarName(t, p) ==
  LET q == ScanWhile(t, p + 1, WordChar) IN
  IF q = p + 1 THEN Res("tok", Tok("$", p, 0, <<"$">>), q)
  ELSE Res("tok", Tok("Ident", p, q - p, SubSeq(t, p + 1, q)), q)

\* digit+ ('.' digit+)?   The statement fixes nothing about a literal that is
\* directly followed by another '.', ("1." "1.2.3" "1.x"): result "open".
\* Deviation lex-minus-in-number (F15): the scan also swallows '-' and '.'.
Number(t, p, devs) ==
  IF "lex-minus-in-number" \in devs
  THEN LET q == ScanWhile(t, p, Digits \cup {".", "-"}) IN
       Res("tok", Tok("Num", p, q - p, SubSeq(t, p + 1, q)), q)
  ELSE
  LET q1 == ScanWhile(t, p, Digits)
      frac == q1 + 1 < Len(t) /\ t[q1+1] = "." /\ t[q1+2] \in Digits
      q == IF frac THEN ScanWhile(t, q1 + 1, Digits) ELSE q1
  IN IF q < Len(t) /\ t[q+1] = "." THEN Res("open", NoTok, p)
     ELSE Res("tok", Tok("Num", p, q - p, SubSeq(t, p + 1, q)), q)

\* maximal run of letters, digits, '_'; a keyword only if the whole run is one
Word(t, p) ==
  LET q == ScanWhile(t, p, WordChar)
      w == SubSeq(t, p + 1, q)
  IN IF w \in KwWords THEN Res("tok", Tok(KwTag[w], p, 0, w), q)
     ELSE Res("tok", Tok("Ident", p, q - p, w), q)

\* strings run to the same quote; no escapes at this level
String(t, p) ==
  LET q == ScanUntil(t, p + 1, {t[p+1]}) IN
  IF q >= Len(t) THEN Res("err", NoTok, p)
  ELSE Res("tok", Tok("Str", p + 1, q - p - 1, SubSeq(t, p + 2, q)), q + 1)

\* called by the parser for a '/' in prefix position: p is the offset of the '/'
RegexScan(t, p) ==
  LET q == ScanUntil(t, p + 1, {"/"}) IN
  IF q >= Len(t) THEN Res("err", NoTok, p)
  ELSE Res("tok", Tok("Regex", p + 1, q - p - 1, SubSeq(t, p + 2, q)), q + 1)

Punct(t, p) ==
  LET c == t[p+1]
      two == IF p + 1 < Len(t) THEN c \o t[p+2] ELSE "" IN
  IF two \in Punct2 THEN Res("tok", Tok(two, p, 0, <<c, t[p+2]>>), p + 2)
  ELSE IF c \in Punct1 THEN Res("tok", Tok(c, p, 0, <<c>>), p + 1)
  ELSE Res("err", NoTok, p)     \* illegal character (also a lone & or |)

\* Lexer.Next at offset p0 (+ the parser-driven regex re-scan when rx and the
\* previous significant token does not end an operand)
NextTok(t, p0, prev, rx, devs) ==
  LET p == SkipBlank(t, p0) IN
  IF p >= Len(t) THEN Res("eof", NoTok, p)
  ELSE LET c == t[p+1] IN
    IF c = NL THEN NewlineTok(t, p)
    ELSE IF c = "$" THEN DollarName(t, p)
    ELSE IF c \in Digits THEN Number(t, p, devs)
    ELSE IF c \in WordStart THEN Word(t, p)
    ELSE IF c \in Quotes THEN String(t, p)
    ELSE LET r == Punct(t, p) IN
         IF rx /\ r.k = "tok" /\ r.tok.tag = "/" /\ prev \notin OperandEnd THEN RegexScan(t, p) ELSE r

\* The closed form: all tokens of t.  err: the scan stopped at an error;
\* open: it stopped at a numeric spelling the statement leaves open (the
\* tokens before that point are still prescribed).
RECURSIVE Lex(_, _, _, _, _, _)
Lex(t, p, prev, rx, devs, acc) ==
  LET r == NextTok(t, p, prev, rx, devs) IN
  IF r.k = "tok" THEN Lex(t, r.np, IF r.tok.tag = "Newline" THEN prev ELSE r.tok.tag, rx, devs, Append(acc, r.tok))
  ELSE [toks |-> acc, err |-> r.k = "err", open |-> r.k = "open"]

TokensDev(t, rx, devs) == Lex(t, 0, "", rx, devs, <<>>)
Tokens(t) == TokensDev(t, TRUE, {})

\* ---- views of a token sequence
NoNewlines(toks) == SelectSeq(toks, LAMBDA k : k.tag # "Newline")
Sig(toks) == LET s == NoNewlines(toks) IN [i \in 1..Len(s) |-> <<s[i].tag, s[i].text>>]
\* was there a newline between significant token i and i+1 (index 0: before the first)
RECURSIVE NlFlags(_, _, _, _)
NlFlags(toks, i, seen, acc) ==
  IF i > Len(toks) THEN Append(acc, seen)
  ELSE IF toks[i].tag = "Newline" THEN NlFlags(toks, i + 1, TRUE, acc)
  ELSE NlFlags(toks, i + 1, FALSE, Append(acc, seen))
\* NlAfter(toks)[i+1] for i = 0..n : newline seen in the gap after significant token i
NlAfter(toks) == NlFlags(toks, 1, FALSE, <<>>)

\* ---- Layout
GapKinds == {"none", "sp", "tab", "cr", "nl", "cmt", "crnl", "semi"}
WsKinds == {"none", "sp", "tab", "cr"}
NlKinds == {"nl", "cmt", "crnl"}
CommentText == Chars("  # it's a \"comment\" { ; /")
GapText(k) ==
  CASE k = "none" -> <<>>
    [] k = "sp" -> <<" ">>
    [] k = "tab" -> <<TAB>>
    [] k = "cr" -> <<CR>>
    [] k = "nl" -> <<NL>>
    [] k = "cmt" -> CommentText \o <<NL>>
    [] k = "crnl" -> <<CR, NL>>
    [] k = "semi" -> <<";">>
    [] k = "cmteof" -> CommentText

\* q: the quote to write a Str token with (ignored for other tokens)
Spell(tok, q) ==
  CASE tok.tag = "Str" -> <<q>> \o tok.text \o <<q>>
    [] tok.tag = "Regex" -> <<"/">> \o tok.text \o <<"/">>
    [] OTHER -> tok.text
AllowedQuotes(tok) == IF tok.tag = "Str" THEN {q \in Quotes : \A i \in 1..Len(tok.text) : tok.text[i] # q} ELSE {"'"}

\* T: tokens without newlines; g[i]: gap kind after token i (i < Len(T));
\* qs[i]: quote for token i; lead, trail: gap kinds before / after everything
Layout(T, g, qs, lead, trail) ==
  GapText(lead) \o
  FlattenSeq([i \in 1..Len(T) |-> Spell(T[i], qs[i]) \o (IF i < Len(T) THEN GapText(g[i]) ELSE <<>>)]) \o
  GapText(trail)

\* what Layout should lex to: T plus a ';' token for every "semi" gap
Expected(T, g) ==
  FlattenSeq([i \in 1..Len(T) |->
     <<<<T[i].tag, T[i].text>>>> \o (IF i < Len(T) /\ g[i] = "semi" THEN <<<<";", <<";">>>>>> ELSE <<>>)])

\* Two adjacent tokens written without anything between them would be read
\* differently (or, for a number followed by '.', in a way the statement
\* leaves open).
First(tok) == IF tok.tag = "Str" THEN "'" ELSE IF tok.tag = "Regex" THEN "/" ELSE tok.text[1]
EndsWordy(a) == a.tag \in KwTags \cup {"Ident", "$"}
StartsWordy(b) == b.tag \in KwTags \cup {"Num"} \/ (b.tag = "Ident" /\ b.text[1] # "$")
NeedsSpace(a, b) ==
  \/ EndsWordy(a) /\ StartsWordy(b)
  \/ a.tag = "Num" /\ b.tag \in {"Num", "."}
  \/ a.tag \in {"<", ">", "*", "/", "=", "!", "+", "-"} /\ First(b) = "="
  \/ a.tag = "+" /\ First(b) = "+"
  \/ a.tag = "-" /\ First(b) = "-"
  \/ a.tag = "=" /\ First(b) = ">"
  \/ a.tag = "!" /\ First(b) = "~"

\* A token sequence that can be the result of lexing: a Regex only where the
\* parser would re-scan, a '/' only after an operand, no regex text starting
\* with '=' ("/=" is one token), delimiters absent from delimited texts
WellFormed(T) ==
  \A i \in 1..Len(T) :
    LET prev == IF i = 1 THEN "" ELSE T[i-1].tag IN
    /\ T[i].tag = "Regex" => /\ prev \notin OperandEnd
                             /\ \A j \in 1..Len(T[i].text) : T[i].text[j] # "/"
                             /\ (Len(T[i].text) = 0 \/ T[i].text[1] # "=")
    /\ T[i].tag = "/" => prev \in OperandEnd
    /\ T[i].tag = "/=" => prev \in OperandEnd
    /\ T[i].tag = "Str" => AllowedQuotes(T[i]) # {}

\* ---- statement-level context (the statement-end rules of the parser):
\* for every token the innermost bracket that is open after it, and for a
\* closing bracket what it closed.
\* kinds: paren hdr (if/while/for) mhdr (match subject) brack block obj mbody
RECURSIVE CtxScan(_, _, _, _, _)
CtxScan(T, i, stack, lastClosed, acc) ==
  IF i > Len(T) THEN acc
  ELSE
  LET tg == T[i].tag
      prev == IF i = 1 THEN "" ELSE T[i-1].tag
      top == IF stack = <<>> THEN "top" ELSE stack[Len(stack)]
      opens == tg \in {"(", "[", "{"}
      closes == tg \in {")", "]", "}"}
      kind == IF tg = "(" THEN (IF prev \in {"If", "While", "For"} THEN "hdr" ELSE IF prev = "Match" THEN "mhdr" ELSE "paren")
              ELSE IF tg = "[" THEN "brack"
              ELSE IF stack = <<>> THEN "block"
              ELSE IF prev = ")" /\ lastClosed = "mhdr" THEN "mbody"
              ELSE IF prev \in {")", "Else", "=>"} THEN "block"
              ELSE IF top = "block" /\ prev \in {"{", "}", ";"} THEN "block"
              ELSE "obj"
      stack2 == IF opens THEN Append(stack, kind)
                ELSE IF closes /\ stack # <<>> THEN SubSeq(stack, 1, Len(stack) - 1)
                ELSE stack
      closed == IF closes THEN top ELSE ""
      inner == IF stack2 = <<>> THEN "top" ELSE stack2[Len(stack2)]
  IN CtxScan(T, i + 1, stack2, IF closes THEN closed ELSE lastClosed,
             Append(acc, [inner |-> inner, closed |-> closed]))
Ctx(T) == CtxScan(T, 1, <<>>, "", <<>>)

\* tokens that can continue an expression (have an infix rule), so a newline
\* in front of them does not end a statement
InfixTags == {"[", ".", "(", "<", ">", "==", "!=", "<=", ">=", "~", "!~", "=", "+", "-", "*", "/",
              "+=", "-=", "*=", "/=", "&&", "||", "++", "--", "%", "Is", "!"}
\* tokens a statement can end with
StmtEndTags == {"Ident", "Num", "Str", "Regex", "true", "false", "Null", "$", ")", "]", "}", "++", "--",
                "Break", "Continue", "Next", "Exit"}

AfterPrintReturn(T, i) == T[i].tag \in {"Print", "Return"}
PrintComma(T, cx, i) == T[i].tag = "," /\ cx[i].inner = "block"
\* T[i+1] starts a statement of the block that T[i] is in
StmtFollows(T, cx, i) ==
  /\ cx[i].inner = "block"
  /\ T[i+1].tag \notin InfixTags \cup {"}", ";", "Else"}
\* the newline in gap i (between T[i] and T[i+1]) separates two statements
Separator(T, cx, i) ==
  /\ StmtFollows(T, cx, i)
  /\ T[i].tag \in StmtEndTags
  /\ ~(T[i].tag = ")" /\ cx[i].closed \in {"hdr", "mhdr"})

\* The gap kinds the statement of C13 permits between T[i] and T[i+1], given
\* whether the original text has a newline there (nl).
\*  - blanks anywhere; nothing at all only if the two tokens do not fuse
\*  - a newline (alone, after a comment, after a CR) anywhere except directly
\*    after print/return, after a comma of a print list, before ';'
\*  - an original newline that separates two statements stays a newline or
\*    becomes ';' (not after '}'); so does one after a bare print/return that is
\*    followed by a statement; one after a print-list comma stays a newline
\*  - any other original newline is between two tokens of one construct and
\*    may be replaced by blanks
\* GapClass names the case; ClassKinds gives its kinds.
GapClass(T, cx, nl, i) ==
  LET special == AfterPrintReturn(T, i) \/ PrintComma(T, cx, i) IN
  IF ~nl THEN (IF special THEN "plain-after-print" ELSE "plain")
  ELSE IF special THEN (IF AfterPrintReturn(T, i) /\ StmtFollows(T, cx, i) THEN "nl-bare-print-sep" ELSE "nl-after-print")
  ELSE IF Separator(T, cx, i) THEN (IF T[i].tag = "}" THEN "nl-sep-after-brace" ELSE "nl-sep")
  ELSE "nl-inside"
GapClasses == {"plain-after-print", "plain", "nl-bare-print-sep", "nl-after-print", "nl-sep-after-brace", "nl-sep", "nl-inside"}
ClassKinds(c) ==
  CASE c = "plain-after-print" -> WsKinds
    [] c = "plain" -> WsKinds \cup NlKinds
    [] c = "nl-bare-print-sep" -> NlKinds \cup {"semi"}
    [] c = "nl-after-print" -> NlKinds
    [] c = "nl-sep-after-brace" -> NlKinds
    [] c = "nl-sep" -> NlKinds \cup {"semi"}
    [] c = "nl-inside" -> WsKinds \cup NlKinds
Permitted(T, cx, nl, i) ==
  (ClassKinds(GapClass(T, cx, nl, i)) \ (IF NeedsSpace(T[i], T[i+1]) THEN {"none"} ELSE {}))
         \ (IF T[i+1].tag = ";" THEN NlKinds ELSE {})
LeadKinds == WsKinds \cup NlKinds
TrailKinds == WsKinds \cup NlKinds \cup {"cmteof"}

\* A numeric literal written directly against a following '-' (what deviation
\* lex-minus-in-number mis-reads): token i is a Num, gap "none", next starts with '-'
MinusAdjacent(T, g) ==
  \E i \in 1..(Len(T) - 1) : T[i].tag = "Num" /\ g[i] = "none" /\ First(T[i+1]) = "-"

\* A bare print directly followed by ';' (what deviation print-semicolon rejects)
BarePrintSemi(T, g) == \E i \in 1..(Len(T) - 1) : T[i].tag = "Print" /\ g[i] = "semi"

\* ---- the value a numeric literal denotes: its decimal reading, whatever
\* zeros are written in front of the integer digits or behind the fraction
\* digits.  Exact decimal in canonical form: ip = integer digits without
\* leading zeros (<<"0">> for zero), fp = fraction digits without trailing
\* zeros; value = ip.fp read in base ten.  (Digit sequences, not integers:
\* literals may be longer than any machine integer.)
RECURSIVE DropLeadingZeros(_)
DropLeadingZeros(d) == IF Len(d) > 1 /\ d[1] = "0" THEN DropLeadingZeros(Tail(d)) ELSE d
RECURSIVE DropTrailingZeros(_)
DropTrailingZeros(d) == IF Len(d) > 0 /\ d[Len(d)] = "0" THEN DropTrailingZeros(SubSeq(d, 1, Len(d) - 1)) ELSE d
\* the two digit runs of a literal  digit+ ('.' digit+)?
IntDigits(text) == SubSeq(text, 1, ScanWhile(text, 0, Digits))
FracDigits(text) == LET q == ScanWhile(text, 0, Digits) IN IF q < Len(text) THEN SubSeq(text, q + 2, Len(text)) ELSE <<>>
NumValue(text) == [ip |-> DropLeadingZeros(IntDigits(text)), fp |-> DropTrailingZeros(FracDigits(text))]
\* the canonical spelling of that value
NumCanon(v) == v.ip \o (IF Len(v.fp) > 0 THEN <<".">> \o v.fp ELSE <<>>)

\* ---- the value a string literal denotes when evaluated: exactly its bytes,
\* with \n \t \\ as the only escapes; anything else after a backslash (or a
\* backslash at the end) is an error.
RECURSIVE StrValueAcc(_, _, _)
StrValueAcc(s, i, acc) ==
  IF i > Len(s) THEN [ok |-> TRUE, val |-> acc]
  ELSE IF s[i] # "\\" THEN StrValueAcc(s, i + 1, Append(acc, s[i]))
  ELSE IF i = Len(s) THEN [ok |-> FALSE, val |-> <<>>]
  ELSE IF s[i+1] = "n" THEN StrValueAcc(s, i + 2, Append(acc, NL))
  ELSE IF s[i+1] = "t" THEN StrValueAcc(s, i + 2, Append(acc, TAB))
  ELSE IF s[i+1] = "\\" THEN StrValueAcc(s, i + 2, Append(acc, "\\"))
  ELSE [ok |-> FALSE, val |-> <<>>]
StrValue(s) == StrValueAcc(s, 1, <<>>)

\* the literal body that denotes v
EscapeByte(b) == IF b = "\\" THEN <<"\\", "\\">> ELSE IF b = NL THEN <<"\\", "n">> ELSE IF b = TAB THEN <<"\\", "t">> ELSE <<b>>
Escape(v) == FlattenSeq([i \in 1..Len(v) |-> EscapeByte(v[i])])
=============================================================================
