---------------------------- MODULE MC_LexStr ----------------------------
(* C13: what a string literal denotes.  Every literal body up to MaxLen     *)
(* bytes over an alphabet with the backslash, the three escape letters, a   *)
(* non-escape letter, both quotes, a blank and a raw newline, in either     *)
(* quote style.  Vector: the program text `BEGIN { print <literal> }` and   *)
(* the prescribed outcome (the bytes printed, or a runtime error).          *)
EXTENDS JqLex
CONSTANTS MaxLen

Alphabet == {"a", "\\", "n", "t", "z", "'", "\"", " ", NL}

\* "anything else is an error": a backslash before every other byte
PrintableStr == " !\"#$%&'()*+,-./0123456789:;<=>?@ABCDEFGHIJKLMNOPQRSTUVWXYZ[\\]^_`abcdefghijklmnopqrstuvwxyz{|}~"
OtherBytes == ({SubSeq(PrintableStr, i, i) : i \in 1..Len(PrintableStr)} \cup {TAB, CR, "C3", "A9", "80", "FF"}) \ Alphabet
Probes == {<<"x", "\\", b, "y">> : b \in OtherBytes} \cup {<<"\\", b>> : b \in OtherBytes}

VARIABLES body, q, done
Init == /\ body \in SeqsUpTo(Alphabet, 2) \cup Probes /\ q = "'" /\ done = FALSE
Next == /\ ~done /\ done' = TRUE
        /\ \E s \in (IF Len(body) < 2 \/ body \in Probes THEN {<<>>} ELSE SeqsUpTo(Alphabet, MaxLen - 2)) : body' = body \o s
        /\ q' \in {x \in Quotes : \A i \in 1..Len(body') : body'[i] # x}

\* ---- laws
\* independent reading of the escape rule: a backslash is an escape
\* introducer iff an even number of backslashes directly precede it
RunBefore(s, i) == LET S == {j \in 1..(i-1) : \A k \in j..(i-1) : s[k] = "\\"} IN Cardinality(S)
Introducer(s, i) == s[i] = "\\" /\ RunBefore(s, i) % 2 = 0
GoodEscapes(s) == \A i \in 1..Len(s) : Introducer(s, i) => (i < Len(s) /\ s[i+1] \in {"n", "t", "\\"})
Laws == done =>
  LET v == StrValue(body) IN
  /\ v.ok = GoodEscapes(body)
  /\ v.ok => Len(v.val) = Len(body) - Cardinality({i \in 1..Len(body) : Introducer(body, i)})
  /\ (\A i \in 1..Len(body) : body[i] # "\\") => (v.ok /\ v.val = body)     \* exactly its characters
  /\ StrValue(Escape(body)) = [ok |-> TRUE, val |-> body]                   \* every byte string is denotable
  \* lexically, the literal is one Str token with exactly the body, whatever the quote
  /\ LET r == Tokens(<<q>> \o body \o <<q>>) IN
       ~r.err /\ Len(r.toks) = 1 /\ r.toks[1] = Tok("Str", 1, Len(body), body)

Prefix == Chars("BEGIN { print ")
Suffix == Chars(" }")
Vec == done =>
  LET v == StrValue(body) IN
  Emit([prog |-> Prefix \o <<q>> \o body \o <<q>> \o Suffix, ok |-> v.ok, out |-> v.val \o <<NL>>])
=============================================================================
