---------------------------- MODULE MC_LexStr ----------------------------
(* C13: what a string literal denotes.  Every literal body up to MaxLen     *)
(* bytes over an alphabet, in either quote style.  Vector: the program text *)
(* `BEGIN { print <literal> }` and the prescribed outcome (the bytes        *)
(* printed, or a runtime error).                                            *)
(* Alphabet 1: the backslash, the three escape letters, a non-escape        *)
(*   letter, both quotes, a blank and a raw newline.                        *)
(* Alphabet 2: "exactly its characters" at the level of BYTES.  A literal is *)
(*   a byte string: the backslash and two escape letters together with      *)
(*   bytes >= 0x80 of every UTF-8 role (a 2-byte lead C3, a 3-byte lead E9, *)
(*   the continuations A9 and 80, the never-valid FF), so that well-formed, *)
(*   truncated and stray sequences all occur next to, between and inside    *)
(*   escapes.                                                               *)
(* Probes: for EVERY byte value 0..255, the byte alone, before, after,      *)
(*   around and between each of the three escapes, and after a backslash    *)
(*   (an error unless it is an escape letter).                              *)
EXTENDS JqLex
CONSTANTS MaxLen,      \* bound on the bodies over alphabet 1
          MaxLen2      \* bound on the bodies over alphabet 2

Alphabet(a) == IF a = 1 THEN {"a", "\\", "n", "t", "z", "'", "\"", " ", NL}
               ELSE {"a", "\\", "n", "t", "C3", "A9", "E9", "80", "FF"}
Bound(a) == IF a = 1 THEN MaxLen ELSE MaxLen2
Alphas == {1, 2}

\* the 256 byte values under their symbols (JqUtil: a 1-char string, or two hex digits)
PrintableStr == " !\"#$%&'()*+,-./0123456789:;<=>?@ABCDEFGHIJKLMNOPQRSTUVWXYZ[\\]^_`abcdefghijklmnopqrstuvwxyz{|}~"
HexDigits == "0123456789ABCDEF"
HexName(n) == SubSeq(HexDigits, (n \div 16) + 1, (n \div 16) + 1) \o SubSeq(HexDigits, (n % 16) + 1, (n % 16) + 1)
ByteSym(n) == IF n = 9 THEN TAB ELSE IF n = 10 THEN NL ELSE IF n = 13 THEN CR
              ELSE IF n >= 32 /\ n <= 126 THEN SubSeq(PrintableStr, n - 31, n - 31) ELSE HexName(n)
AllBytes == {ByteSym(n) : n \in 0..255}
EscLetters == {"n", "t", "\\"}

\* "anything else is an error": a backslash before every other byte
OtherBytes == AllBytes \ EscLetters
\* every byte value alone, before, after, around and between escapes
ByteProbes == UNION {{<<b>>, <<b, "\\", e>>, <<"\\", e, b>>, <<b, "\\", e, b>>, <<"\\", e, b, "\\", e>>} : b \in AllBytes \ {"\\"}, e \in EscLetters}
Probes == {<<"x", "\\", b, "y">> : b \in OtherBytes} \cup {<<"\\", b>> : b \in OtherBytes}
          \cup ByteProbes

Min2(n) == IF n < 2 THEN n ELSE 2
VARIABLES body, q, done
Init == /\ body \in UNION {SeqsUpTo(Alphabet(a), Min2(Bound(a))) : a \in Alphas} \cup Probes /\ q = "'" /\ done = FALSE
\* (a body of two bytes of one alphabet is extended over that alphabet; shorter ones and the other probes stand as they are)
Ext == UNION {IF Len(body) = 2 /\ body[1] \in Alphabet(a) /\ body[2] \in Alphabet(a) THEN SeqsUpTo(Alphabet(a), Bound(a) - 2) ELSE {<<>>} : a \in Alphas}
Next == /\ ~done /\ done' = TRUE
        /\ \E s \in Ext : body' = body \o s
        /\ q' \in {x \in Quotes : \A i \in 1..Len(body') : body'[i] # x}

\* ---- laws
\* independent reading of the escape rule: a backslash is an escape
\* introducer iff an even number of backslashes directly precede it
RunBefore(s, i) == LET S == {j \in 1..(i-1) : \A k \in j..(i-1) : s[k] = "\\"} IN Cardinality(S)
Introducer(s, i) == s[i] = "\\" /\ RunBefore(s, i) % 2 = 0
GoodEscapes(s) == \A i \in 1..Len(s) : Introducer(s, i) => (i < Len(s) /\ s[i+1] \in {"n", "t", "\\"})
Laws == done =>
  LET v == StrValue(body) IN
  /\ v.ok = GoodEscapes(body)
  /\ v.ok => Len(v.val) = Len(body) - Cardinality({i \in 1..Len(body) : Introducer(body, i)})
  /\ (\A i \in 1..Len(body) : body[i] # "\\") => (v.ok /\ v.val = body)     \* exactly its characters
  /\ StrValue(Escape(body)) = [ok |-> TRUE, val |-> body]                   \* every byte string is denotable
  \* lexically, the literal is one Str token with exactly the body, whatever the quote
  /\ LET r == Tokens(<<q>> \o body \o <<q>>) IN
       ~r.err /\ Len(r.toks) = 1 /\ r.toks[1] = Tok("Str", 1, Len(body), body)

Prefix == Chars("BEGIN { print ")
Suffix == Chars(" }")
Vec == done =>
  LET v == StrValue(body) IN
  Emit([prog |-> Prefix \o <<q>> \o body \o <<q>> \o Suffix, ok |-> v.ok, out |-> v.val \o <<NL>>])
=============================================================================
