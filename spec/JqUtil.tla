----------------------------- MODULE JqUtil -----------------------------
(* Small helpers shared by all layers of the jqawk specification.          *)
EXTENDS Integers, Sequences, FiniteSets, TLC, Json

\* A byte is a string: one character for ASCII ("a", " ", "\n"), or a
\* two-character upper-case hex name ("C3", "A9", "80") for bytes >= 0x80.
\* Texts are sequences of bytes.  Chars turns an ASCII string into a text.
Chars(s) == [i \in 1..Len(s) |-> SubSeq(s, i, i)]

NL == "\n"
CR == "\r"
TAB == "\t"

SetMax(S) == CHOOSE x \in S : \A y \in S : y <= x
SetMin(S) == CHOOSE x \in S : \A y \in S : x <= y

RECURSIVE FlattenSeq(_)
FlattenSeq(ss) == IF ss = <<>> THEN <<>> ELSE Head(ss) \o FlattenSeq(Tail(ss))

\* All sequences over S of length 0..n
SeqsUpTo(S, n) == UNION {[1..k -> S] : k \in 0..n}

\* Vector emission: one JSON line on TLC's output, picked up by the harness.
Emit(rec) == PrintT("VEC " \o ToJson(rec))
=============================================================================
