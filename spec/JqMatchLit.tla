---------------------------- MODULE JqMatchLit ----------------------------
(* Literal patterns of match expressions AS WRITTEN in the source (C19: "a  *)
(* literal pattern matches when v == literal").  A literal pattern is a     *)
(* token; what it is compared with is the VALUE the literal denotes when    *)
(* it is evaluated as an expression (never its spelling):                   *)
(*   string literal  the bytes of its body after \n \t \\ are unescaped     *)
(*                   (JqLex!StrValue; either quote), a string               *)
(*   number literal  digit+ ('.' digit+)?  read in base ten, a number       *)
(*                   (01, 1.0 and 1.00 all denote the number 1)             *)
(*   true false null                                                       *)
(* and the comparison is the language's `==` (JqValue!Cmp, DESIGN.md 3.4):  *)
(* null only equals null; an array on either side is a runtime error; two   *)
(* strings compare bytewise; everything else compares num(v) with           *)
(* num(literal) (so the string "1.0" matches the pattern 1 but not "1").    *)
(* The matcher itself is JqMatchCore, instantiated with this comparison.    *)
EXTENDS JqUtil
V == INSTANCE JqValue
L == INSTANCE JqLex

\* ---- values: JqValue's numbers, booleans and null; strings carry their numeric
\* reading num(s) (DESIGN.md 3.1: the number a numeric string spells, else 0) next to
\* their bytes, so that it is computed once per string; arrays of values
WStr(s) == [k |-> "str", s |-> s, num |-> V!ParsedOrZero(V!ParseNum(s))]
WArr(a) == [k |-> "arr", a |-> a]
\* the number written text (a decimal numeral: JSON number or number literal)
NumOfText(text) == V!ParseNum(text).v
\* the same value in JqValue's own representation (arrays: JqValue looks at the kind only)
Plain(v) == IF v.k = "str" THEN V!VStr(v.s) ELSE v

\* ---- literal tokens: [tag, text].  tag: "Str" (text = the body between the
\* quotes), "Num" (text = the spelling), "true", "false", "null"
Lit(tag, text) == [tag |-> tag, text |-> text]
LitTags == {"Str", "Num", "true", "false", "null"}

\* the value of the literal expression: [ok, v]; not ok = evaluating the
\* literal is a runtime error (a bad escape in a string literal)
Denote(l) ==
  CASE l.tag = "Str" -> LET r == L!StrValue(l.text) IN
                        IF r.ok THEN [ok |-> TRUE, v |-> WStr(r.val)] ELSE [ok |-> FALSE, v |-> V!VNull]
    [] l.tag = "Num" -> [ok |-> TRUE, v |-> NumOfText(l.text)]
    [] l.tag = "true" -> [ok |-> TRUE, v |-> V!VBool(TRUE)]
    [] l.tag = "false" -> [ok |-> TRUE, v |-> V!VBool(FALSE)]
    [] l.tag = "null" -> [ok |-> TRUE, v |-> V!VNull]

\* `v == w` (DESIGN.md 3.4, rows 2-7): "eq" / "ne" / "err".  Two strings: the bytewise
\* three-way comparison is 0 exactly when the byte strings are the same.
\* (MC_MatchLit checks that this is JqValue!Cmp(v, w).c = 0 wherever JqValue!StrCmp
\* is defined: it orders printable bytes only, the strings here also hold newline and tab.)
NumRead(v) ==
  CASE v.k = "num" -> v
    [] v.k = "str" -> v.num
    [] v.k = "bool" -> (IF v.b THEN V!I(1) ELSE V!Zero)
    [] OTHER -> V!Zero
ValCmp(v, w) ==
  IF v.k = "null" /\ w.k = "null" THEN "eq"
  ELSE IF v.k = "null" \/ w.k = "null" THEN "ne"
  ELSE IF v.k = "arr" \/ w.k = "arr" THEN "err"
  ELSE IF v.k = "str" /\ w.k = "str" THEN (IF v.s = w.s THEN "eq" ELSE "ne")
  ELSE IF V!NumEq(NumRead(v), NumRead(w)) THEN "eq" ELSE "ne"
\* `v == <the literal l>`
SrcCmp(v, l) == LET d == Denote(l) IN IF ~d.ok THEN "err" ELSE ValCmp(v, d.v)

\* ---- the matcher.  A literal pattern holds its token and (computed once, when the
\* pattern is built) what the token denotes
PatCmp(v, lp) == IF ~lp.den.ok THEN "err" ELSE ValCmp(v, lp.den.v)
NoLit == [tok |-> Lit("null", <<>>), den |-> [ok |-> TRUE, v |-> V!VNull]]
INSTANCE JqMatchCore WITH LitCmp <- PatCmp
PLit(l)   == PLitOf([tok |-> l, den |-> Denote(l)])
PId(name) == PIdOf(name, NoLit)
PArr(ps)  == PArrOf(ps, NoLit)
=============================================================================
