---------------------------- MODULE JqStreamRun ----------------------------
(* A whole run over value streams - property C03, the layer above JqStream.   *)
(*                                                                           *)
(* JqStream decides, for ONE input taken as bytes, which values are complete  *)
(* and how the input ends.  The statement also quantifies over what is done   *)
(* with the values: "each input is consumed as a stream", "processing a      *)
(* stream of values is equivalent to processing the values one after         *)
(* another", "reported as a JSON input error naming the file".  None of this  *)
(* may depend on the shape of the program (which kinds of rule it has), on    *)
(* the root selectors, or on how many values came before.  This module is the *)
(* run at the level of values:                                               *)
(*                                                                           *)
(*   cfg.prog   [shape |-> the rule kinds present, ctr |-> every rule prints  *)
(*              and increments one global counter]                           *)
(*   cfg.sels   the root selectors (kinds, see SelRoot)                      *)
(*   cfg.files  the inputs in order; each is a byte text + fault whose       *)
(*              complete values (k of them) and ending (ok / json) are taken *)
(*              from JqStream's scanner and Expected, plus the structure of  *)
(*              the values it was built from                                 *)
(*                                                                           *)
(* Part 1 is the declarative expectation (a fold of "one value on its own"), *)
(* Part 2 the transition system with one action per loop level of            *)
(* EvalProgram (begin, decode+select, one round per root, end of file, fault, *)
(* end), Part 3 the invariants tying 2 to 1.                                  *)
(*                                                                           *)
(* Program globals persist from value to value and from file to file (that   *)
(* is what "one after another" means for a program with state); a root       *)
(* selector's scratch variables do not: each value is selected from as if it  *)
(* were the first.                                                           *)
EXTENDS JqUtil

S == INSTANCE JqStream WITH
       Deviations <- {}, stream <- <<>>, fault <- [kind |-> "none", at |-> 0], scan <- <<>>,
       delivered <- 0, inRead <- FALSE, rstat <- "open", consumed <- 0, pending <- <<>>,
       processed <- 0, emitted <- <<>>, outcome <- "run"

Kinds == {"B", "BF", "P", "EF", "E"}

\* ---------------------------------------------------------------------------
\* JSON values of known structure: a leaf (opaque text: scalar, object) or an array
Leaf(t)  == [k |-> "leaf", t |-> t, els |-> <<>>]
Arr(els) == [k |-> "arr", t |-> <<>>, els |-> els]

RECURSIVE JoinWith(_, _)
JoinWith(ts, sep) == IF ts = <<>> THEN <<>>
                     ELSE IF Len(ts) = 1 THEN ts[1] ELSE ts[1] \o sep \o JoinWith(Tail(ts), sep)

\* the (compact) JSON text of a value
RECURSIVE Text(_)
Text(v) == IF v.k = "leaf" THEN v.t
           ELSE <<"[">> \o JoinWith([i \in 1..Len(v.els) |-> Text(v.els[i])], <<",">>) \o <<"]">>

\* ---------------------------------------------------------------------------
\* Part 1: the expectation

\* A root selector is an expression over $ that may use scratch variables of its
\* own.  n is the value of its scratch counter when evaluation starts.
\*   id  $        i0  $[0]      i1  $[1]
\*   ctr  $[i++] (or any other way of counting in a variable)      ctr0  $[0][i++]
SelKinds == {"id", "i0", "i1", "ctr", "ctr0"}
SelRoot(kind, v, n) ==
  CASE kind = "id"   -> v
    [] kind = "i0"   -> v.els[1]
    [] kind = "i1"   -> v.els[2]
    [] kind = "ctr"  -> v.els[n + 1]
    [] kind = "ctr0" -> v.els[1].els[n + 1]

\* the roots of one value: every selector starts from an empty environment
\* (n = 0), whatever was selected from earlier values.  (Whether the selectors
\* of ONE value see each other's variables is not fixed by the statement: the
\* selectors of a run use variables of their own.)
Roots(sels, v) == IF sels = <<>> THEN <<v>> ELSE [s \in 1..Len(sels) |-> SelRoot(sels[s], v, 0)]

\* one round (one root): BEGINFILE rules, the pattern rules once per element of
\* an array root / once on any other root, ENDFILE rules
RoundItems(shape, root) ==
  (IF "BF" \in shape THEN <<[r |-> "BF", t |-> Text(root)]>> ELSE <<>>)
  \o (IF "P" \notin shape THEN <<>>
      ELSE IF root.k = "arr" THEN [e \in 1..Len(root.els) |-> [r |-> "P", t |-> Text(root.els[e])]]
      ELSE <<[r |-> "P", t |-> Text(root)]>>)
  \o (IF "EF" \in shape THEN <<[r |-> "EF", t |-> Text(root)]>> ELSE <<>>)

\* the activations get the file they belong to and the value of the global
\* counter (g when the first of them starts); c = -1: the program has no counter
Number(items, f, g, ctr) ==
  [i \in 1..Len(items) |-> [r |-> items[i].r, f |-> f, c |-> IF ctr THEN g + i - 1 ELSE -1, t |-> items[i].t]]

ValueItems(shape, sels, v) ==
  LET rs == Roots(sels, v) IN FlattenSeq([s \in 1..Len(rs) |-> RoundItems(shape, rs[s])])

\* processing ONE value v of file f on its own, the program's counter being g:
\* a function of the value and the program state alone
ValueOut(prog, sels, f, v, g) == Number(ValueItems(prog.shape, sels, v), f, g, prog.ctr)

\* pairs: <<f, v>> in order of arrival; one after another
RECURSIVE PairsOut(_, _, _, _)
PairsOut(prog, sels, pairs, g) ==
  IF pairs = <<>> THEN <<>>
  ELSE LET o == ValueOut(prog, sels, pairs[1][1], pairs[1][2], g)
       IN o \o PairsOut(prog, sels, Tail(pairs), g + Len(o))

Complete(file) == SubSeq(file.vals, 1, file.k)
PairsOfFile(files, f) == [i \in 1..files[f].k |-> <<f, files[f].vals[i]>>]

\* the first input that does not end well (0: none): nothing after it is opened
FirstBad(files) ==
  IF \E f \in 1..Len(files) : files[f].outcome = "json"
  THEN SetMin({f \in 1..Len(files) : files[f].outcome = "json"}) ELSE 0

\* all values that are processed in the run
AllPairs(files) ==
  LET last == IF FirstBad(files) = 0 THEN Len(files) ELSE FirstBad(files)
  IN FlattenSeq([f \in 1..last |-> PairsOfFile(files, f)])

BeginOut(prog) == IF "B" \in prog.shape THEN Number(<<[r |-> "B", t |-> <<>>]>>, 0, 0, prog.ctr) ELSE <<>>
EndOut(prog, g) == IF "E" \in prog.shape THEN Number(<<[r |-> "E", t |-> <<>>]>>, 0, g, prog.ctr) ELSE <<>>

\* toks: all activations; body: those before the END rules.  The END rules run
\* when every input ended well (whether they run after an input error is not
\* fixed by the statement: the check accepts both).
RunExpected(c) ==
  LET b == BeginOut(c.prog)
      m == PairsOut(c.prog, c.sels, AllPairs(c.files), Len(b))
      bad == FirstBad(c.files)
      e == IF bad = 0 THEN EndOut(c.prog, Len(b) + Len(m)) ELSE <<>>
  IN [toks |-> b \o m \o e, body |-> Len(b) + Len(m),
      outcome |-> IF bad = 0 THEN "ok" ELSE "json", errfile |-> bad,
      nvals |-> Len(AllPairs(c.files))]

\* an input: bytes + fault, the values it was built from; k / outcome by JqStream
FileOf(text, flt, vals) ==
  LET sc == S!ScanAll(S!Readable(text, flt))
      x  == S!Expected(sc, text, flt)
  IN [text |-> text, fault |-> flt, vals |-> vals, k |-> x.lo, khi |-> x.hi, outcome |-> x.outcome,
      spans |-> [i \in 1..Len(sc.vals) |-> <<sc.vals[i].s, sc.vals[i].e>>]]

\* the number of processed values is determined (no value ends exactly where an I/O error strikes)
Det(file) == file.k = file.khi

\* the complete values JqStream finds ARE the first k values the input was built from
FileLaw(file) ==
  /\ file.k <= Len(file.vals) /\ file.k <= Len(file.spans)
  /\ \A i \in 1..file.k : SubSeq(file.text, file.spans[i][1], file.spans[i][2]) = Text(file.vals[i])

\* ---------------------------------------------------------------------------
\* Part 2: the transition system (EvalProgram's loops)

VARIABLES
  cfg,        \* the run's configuration (never changes)
  rph,        \* "begin" | "files" | "done"
  rfi, rvi,   \* current input; number of its values decoded so far
  roots,      \* roots selected from the current value, rounds still to run
  rg,         \* the program's counter
  rout,       \* activations so far
  routcome,   \* "run" | "ok" | "json"
  rerr        \* the input named by the error (0: none)

rvars == <<rph, rfi, rvi, roots, rg, rout, routcome, rerr>>

RunStart ==
  /\ rph = "begin" /\ rfi = 0 /\ rvi = 0 /\ roots = <<>> /\ rg = 0 /\ rout = <<>>
  /\ routcome = "run" /\ rerr = 0

RBegin ==
  /\ rph = "begin"
  /\ rout' = BeginOut(cfg.prog) /\ rg' = Len(BeginOut(cfg.prog))
  /\ rph' = "files" /\ rfi' = 1
  /\ UNCHANGED <<rvi, roots, routcome, rerr>>

InFiles == rph = "files" /\ routcome = "run" /\ rfi <= Len(cfg.files)
CurFile == cfg.files[rfi]

\* Decode hands out the next complete value; all root selectors are evaluated
\* on it before any rule runs
RSelect ==
  /\ InFiles /\ roots = <<>> /\ rvi < CurFile.k
  /\ roots' = Roots(cfg.sels, CurFile.vals[rvi + 1])
  /\ rvi' = rvi + 1
  /\ UNCHANGED <<rph, rfi, rg, rout, routcome, rerr>>

RRound ==
  /\ InFiles /\ roots # <<>>
  /\ LET o == Number(RoundItems(cfg.prog.shape, Head(roots)), rfi, rg, cfg.prog.ctr)
     IN rout' = rout \o o /\ rg' = rg + Len(o)
  /\ roots' = Tail(roots)
  /\ UNCHANGED <<rph, rfi, rvi, routcome, rerr>>

\* the clean end of an input: on to the next
RFileEnd ==
  /\ InFiles /\ roots = <<>> /\ rvi = CurFile.k /\ CurFile.outcome = "ok"
  /\ rfi' = rfi + 1 /\ rvi' = 0
  /\ UNCHANGED <<rph, roots, rg, rout, routcome, rerr>>

\* what follows the last complete value is truncated, malformed or unreadable
RFault ==
  /\ InFiles /\ roots = <<>> /\ rvi = CurFile.k /\ CurFile.outcome = "json"
  /\ routcome' = "json" /\ rerr' = rfi /\ rph' = "done"
  /\ UNCHANGED <<rfi, rvi, roots, rg, rout>>

REnd ==
  /\ rph = "files" /\ routcome = "run" /\ rfi > Len(cfg.files)
  /\ rout' = rout \o EndOut(cfg.prog, rg) /\ rg' = rg + Len(EndOut(cfg.prog, rg))
  /\ routcome' = "ok" /\ rph' = "done"
  /\ UNCHANGED <<rfi, rvi, roots, rerr>>

RunNext == (RBegin \/ RSelect \/ RRound \/ RFileEnd \/ RFault \/ REnd) /\ UNCHANGED cfg

\* ---------------------------------------------------------------------------
\* Part 3: invariants

RunTypeOK ==
  /\ rph \in {"begin", "files", "done"} /\ routcome \in {"run", "ok", "json"}
  /\ rfi \in 0..(Len(cfg.files) + 1) /\ rerr \in 0..Len(cfg.files)
  /\ (rph = "done") <=> (routcome # "run")
  /\ (rfi \in 1..Len(cfg.files)) => rvi \in 0..cfg.files[rfi].k
  /\ roots # <<>> => rvi >= 1

\* the values decoded so far, in order of arrival
Consumed ==
  FlattenSeq([f \in 1..(IF rfi > Len(cfg.files) THEN Len(cfg.files) ELSE rfi) |->
     IF f < rfi THEN PairsOfFile(cfg.files, f)
     ELSE [i \in 1..rvi |-> <<f, cfg.files[f].vals[i]>>]])

\* a run on the single value v (as the only value of the only input), its
\* activations attributed to input f
AloneBody(c, f, v) ==
  LET one == [c EXCEPT !.files = <<[text |-> Text(v), fault |-> [kind |-> "none", at |-> 0], vals |-> <<v>>,
                                     k |-> 1, khi |-> 1, outcome |-> "ok", spans |-> <<<<1, Len(Text(v))>>>>]>>]
      x == RunExpected(one)
      b == Len(BeginOut(c.prog))
  IN [i \in 1..(x.body - b) |-> [x.toks[b + i] EXCEPT !.f = f]]

\* Whenever a value has been dealt with, the output is the output of the
\* complete values so far processed one after another - for a program without
\* state literally the outputs of the runs on each value alone.
OneAfterAnother ==
  (rph = "files" /\ roots = <<>>) =>
     /\ rout = BeginOut(cfg.prog) \o PairsOut(cfg.prog, cfg.sels, Consumed, Len(BeginOut(cfg.prog)))
     /\ ~cfg.prog.ctr =>
          rout = BeginOut(cfg.prog) \o FlattenSeq([i \in 1..Len(Consumed) |-> AloneBody(cfg, Consumed[i][1], Consumed[i][2])])

IsPrefix(a, b) == Len(a) <= Len(b) /\ a = SubSeq(b, 1, Len(a))

\* what has been written at any moment is a prefix of the final expectation
PrefixOut == IsPrefix(rout, RunExpected(cfg).toks)

\* the machine ends where the fold says
Final ==
  rph = "done" =>
    LET x == RunExpected(cfg) IN rout = x.toks /\ routcome = x.outcome /\ rerr = x.errfile

\* a faulty input is reported, naming it, after every complete value before the
\* fault was processed and without any rule on what follows; never taken for the end
RunFaultReported ==
  /\ routcome = "ok" => \A f \in 1..Len(cfg.files) : cfg.files[f].outcome = "ok"
  /\ routcome = "json" =>
       /\ cfg.files[rerr].outcome = "json"
       /\ \A f \in 1..(rerr - 1) : cfg.files[f].outcome = "ok"
       /\ rvi = cfg.files[rerr].k /\ roots = <<>>
       /\ Len(Consumed) = RunExpected(cfg).nvals

\* outcome, the input named and the number of values processed are the same for
\* every program shape, with or without selectors and state
ShapeFree ==
  rph = "done" =>
    \A sh \in {{}, {"B"}, Kinds} :
      LET x == RunExpected([cfg EXCEPT !.prog = [shape |-> sh, ctr |-> FALSE], !.sels = <<>>])
      IN x.outcome = routcome /\ x.errfile = rerr /\ x.nvals = Len(Consumed)
=============================================================================
