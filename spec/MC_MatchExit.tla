---------------------------- MODULE MC_MatchExit ----------------------------
(* C19, "the bindings are visible in that case's body" - and nowhere else,  *)
(* HOWEVER the body is left.  A case block may be left by a control signal  *)
(* (break, continue, next, return with and without a value, exit) raised    *)
(* directly in the block, under an `if`, inside the case block of a match   *)
(* nested in it (two binding scopes are left at once) or inside a loop      *)
(* nested in it (a break / continue there is consumed by that loop: the     *)
(* scope is NOT left, the bindings must still be there).  Afterwards the    *)
(* program goes on: the loop's next round, the statements after the loop,   *)
(* the caller of the function, the next rule, the next element, END.        *)
(*                                                                          *)
(* This module is a transition system: Init picks one program of the        *)
(* family below (where the match sits x the loop around it x the site of    *)
(* the signal x the signal x the pattern shape x the kind of statement      *)
(* holding the match x the round in which the signal is raised), Next is    *)
(* the step relation of the JqCore machine (frames, control stack, signal   *)
(* unwinding; "every signal leaves the arm's frame").  Checked in every     *)
(* reachable state: the laws of the machine and ScopesMirrorArms (there are *)
(* exactly as many binding frames as case bodies being evaluated); in the   *)
(* final state: the declarative reading of the statement on the printed     *)
(* lines - every line printed inside a case body shows the values the       *)
(* pattern bound, every line printed outside shows the variables of the     *)
(* program (presets gn gt ge, the function's own parameter) and a name only *)
(* a pattern binds is unknown there.  The final state emits the vector      *)
(* (program, printed lines, outcome) the harness replays on the real code.  *)
(*                                                                          *)
(* All bound names (n, tag, e) are also variables of the program, preset in *)
(* BEGIN; tag is also the second parameter of the function F; t2 (bound by  *)
(* the nested match) is set nowhere.                                        *)
EXTENDS JqCore
CONSTANTS Big,      \* FALSE: quick (one statement kind per program, rounds 1 and 2, one slice), TRUE: the full product
          Slice     \* quick: which eighth of the family (0..7, from the seed); every slice holds every value of every
                    \* dimension and every pair of values of two dimensions

\* ---- AST constructors (the node shapes JqCore executes and the harness renders)
Num(v) == [k |-> "num", v |-> v]
Str(s) == [k |-> "str", v |-> s]
Var(n) == [k |-> "var", n |-> n]
Bin(op, l, r) == [k |-> "bin", op |-> op, l |-> l, r |-> r]
IsUnknown(n) == [k |-> "is", e |-> Var(n), ty |-> "unknown"]
ArrE(items) == [k |-> "arr", items |-> items]
Idx(n, key) == [k |-> "idx", n |-> n, key |-> key]
Call(f, args) == [k |-> "call", f |-> f, args |-> args]
Asg(n, e) == [k |-> "asg", op |-> "=", n |-> n, e |-> e]
PostInc(n) == [k |-> "inc", n |-> n, op |-> "++", post |-> TRUE]
Pid(n) == [k |-> "pid", n |-> n]
Plit(v) == [k |-> "plit", v |-> Num(v)]
Parr(items) == [k |-> "parr", items |-> items]
CaseB(pats, body) == [pats |-> pats, bk |-> "block", b |-> body]
CaseE(pats, e) == [pats |-> pats, bk |-> "expr", b |-> e]
Match(e, cases) == [k |-> "match", e |-> e, cases |-> cases]

None == [k |-> "none"]
PrintS(args) == [k |-> "print", args |-> args]
ExprS(e) == [k |-> "expr", e |-> e]
Block(b) == [k |-> "block", b |-> b]
If(c, th) == [k |-> "if", c |-> c, th |-> th, el |-> None]
While(c, b) == [k |-> "while", c |-> c, b |-> b]
For(init, c, post, b) == [k |-> "for", init |-> init, c |-> c, post |-> post, b |-> b]
ForIn(v1, n, b) == [k |-> "forin", v1 |-> v1, v2 |-> "", n |-> n, b |-> b]
Sig(name) == [k |-> name]
Return(e) == [k |-> "return", e |-> e]

\* ---- the family
Wheres == {"begin", "fn", "rule", "rulefn"}      \* the match sits in BEGIN / in F called from BEGIN / in a rule / in F called from a rule
Loops  == {"none", "forin", "while", "for"}      \* the loop around the match (inside the same BEGIN / function / rule)
Sites  == {"direct", "if", "nested", "inloop"}
Sigs   == {"break", "continue", "next", "exit", "retval", "retbare"}
Pats   == {"pair", "any", "second"}              \* [n, tag] / e / [0, tag] => 'zero', [n, tag]
Kinds  == {"expr", "asg", "print"}               \* match (..) {..} / r = match (..) {..} / print 'm', match (..) {..}
Rounds == {1, 2, 3}                              \* the evaluation of the match (counted in c) in which the signal is raised

Param == [where : Wheres, loop : Loops, site : Sites, sig : Sigs, pat : Pats, kind : Kinds, k : Rounds]
InFn(w) == w \in {"fn", "rulefn"}
Ord(x, seq) == CHOOSE i \in 1..Len(seq) : seq[i] = x
Rot(q) == Ord(q.where, <<"begin", "fn", "rule", "rulefn">>) + Ord(q.loop, <<"none", "forin", "while", "for">>)
          + Ord(q.site, <<"direct", "if", "nested", "inloop">>) + Ord(q.pat, <<"pair", "any", "second">>)
          + Ord(q.sig, <<"break", "continue", "next", "exit", "retval", "retbare">>) + q.k
KRot(q) == Ord(q.where, <<"begin", "fn", "rule", "rulefn">>) + 2 * Ord(q.loop, <<"none", "forin", "while", "for">>)
           + Ord(q.site, <<"direct", "if", "nested", "inloop">>) + 2 * Ord(q.pat, <<"pair", "any", "second">>)
           + Ord(q.sig, <<"break", "continue", "next", "exit", "retval", "retbare">>)
Valid(q) ==
  \* return needs a function; break / continue a loop (the one around the match, or the one in the case block)
  /\ q.sig \in {"retval", "retbare"} => InFn(q.where)
  /\ q.sig \in {"break", "continue"} => (q.loop # "none" \/ q.site = "inloop")
  \* the direct site raises in every round; without a loop in BEGIN / F-from-BEGIN... there is one round per call or rule
  /\ q.site = "direct" => q.k = 1
  /\ (q.loop = "none" /\ q.where = "begin") => q.k = 1
  /\ (~Big) => /\ q.kind = <<"expr", "asg", "print">>[(KRot(q) % 3) + 1]
               /\ q.k \in {1, 2}
               /\ Rot(q) % 8 = Slice
Params == {q \in Param : Valid(q)}

\* the data: pairs [number, string]; qs for the loop inside a case block
PairsE == ArrE(<<ArrE(<<Num(1), Str("a")>>), ArrE(<<Num(2), Str("b")>>), ArrE(<<Num(3), Str("c")>>)>>)
PairNums == <<"1", "2", "3">>
PairStrs == <<"a", "b", "c">>

BoundNames(q) == IF q.pat = "any" THEN <<"e">> ELSE <<"n", "tag">>
VarsOf(names) == [i \in 1..Len(names) |-> Var(names[i])]

\* the signal statement; a return with a value returns what the pattern bound
SigStmt(q) ==
  CASE q.sig = "retval" -> Return(Var(BoundNames(q)[Len(BoundNames(q))]))
    [] q.sig = "retbare" -> Return(None)
    [] OTHER -> Sig(q.sig)

\* the case block.  Lines printed here start with "in" / "stay" / "inner" / "q": they show the bound names.
CaseBody(q) ==
  LET bn == VarsOf(BoundNames(q))
      pin == PrintS(<<Str("in")>> \o bn)
      stay == PrintS(<<Str("stay")>> \o bn)
      guard == Bin("==", Var("c"), Num(q.k))
  IN CASE q.site = "direct" -> Block(<<pin, SigStmt(q), PrintS(<<Str("unreached")>>)>>)
       [] q.site = "if" -> Block(<<pin, If(guard, SigStmt(q)), stay>>)
       [] q.site = "nested" ->
            Block(<<pin,
                    ExprS(Match(Var("c"), <<CaseB(<<Pid("t2")>>,
                       Block(<<If(Bin("==", Var("t2"), Num(q.k)), SigStmt(q)), PrintS(<<Str("inner"), Var("t2")>> \o bn)>>))>>)),
                    stay>>)
       [] q.site = "inloop" ->
            Block(<<pin,
                    ForIn("q", "qs", Block(<<PrintS(<<Str("q"), Var("q")>> \o bn), If(Bin("==", Var("q"), Num(q.k)), SigStmt(q)),
                                             PrintS(<<Str("qpost"), Var("q")>>)>>)),
                    stay>>)

Cases(q) ==
  LET body == CaseBody(q) IN
  CASE q.pat = "pair" -> <<CaseB(<<Parr(<<Pid("n"), Pid("tag")>>)>>, body), CaseE(<<Pid("z")>>, Str("other"))>>
    [] q.pat = "any" -> <<CaseB(<<Pid("e")>>, body)>>
    [] q.pat = "second" -> <<CaseE(<<Parr(<<Plit(0), Pid("tag")>>)>>, Str("zero")), CaseB(<<Parr(<<Pid("n"), Pid("tag")>>)>>, body)>>

\* the statement holding the match (subject: the variable p)
MatchStmt(q) ==
  LET m == Match(Var("p"), Cases(q)) IN
  CASE q.kind = "expr" -> ExprS(m)
    [] q.kind = "asg" -> ExprS(Asg("r", m))
    [] q.kind = "print" -> PrintS(<<Str("m"), m>>)

\* Probe lines printed OUTSIDE every case body: the names the patterns bind, read as variables of the program.
\* mark "G": at the root (tag is the program's variable); "F": inside F (tag is F's parameter)
Probe(mark) == PrintS(<<Str(mark), Var("n"), Var("tag"), Var("e"), IsUnknown("t2")>>)
LaterMatch(mark) == PrintS(<<Str(mark), Match(Num(5), <<CaseE(<<Plit(5)>>, Var("n"))>>), Match(Num(6), <<CaseE(<<Pid("z")>>, Var("tag"))>>),
                            Var("e"), IsUnknown("t2")>>)

\* one round: count it, evaluate the match, probe
Round(q, mark) == <<ExprS(PostInc("c")), MatchStmt(q), Probe(mark)>>
\* the rounds of one BEGIN / function / rule body: once with the p at hand, or in a loop over ps
Rounds3(q, mark) ==
  CASE q.loop = "none" -> Round(q, mark)
    [] q.loop = "forin" -> <<ForIn("p", "ps", Block(Round(q, mark)))>>
    [] q.loop = "while" -> <<ExprS(Asg("i", Num(0))),
                             While(Bin("<", Var("i"), Num(3)), Block(<<ExprS(Asg("p", Idx("ps", Var("i")))), ExprS(PostInc("i"))>> \o Round(q, mark)))>>
    [] q.loop = "for" -> <<For(Asg("i", Num(0)), Bin("<", Var("i"), Num(3)), PostInc("i"),
                               Block(<<ExprS(Asg("p", Idx("ps", Var("i"))))>> \o Round(q, mark)))>>

Presets == <<ExprS(Asg("n", Str("gn"))), ExprS(Asg("tag", Str("gt"))), ExprS(Asg("e", Str("ge"))), ExprS(Asg("c", Num(0))),
             ExprS(Asg("r", Str("gr"))), ExprS(Asg("ps", PairsE)), ExprS(Asg("qs", ArrE(<<Num(1), Num(2), Num(3)>>))),
             ExprS(Asg("p", Idx("ps", Num(0))))>>
After == <<Probe("G"), LaterMatch("G"), PrintS(<<Str("vars"), Var("c"), Var("p"), Var("r")>>)>>

\* F(p, tag): the rounds, a probe, a value
FnF(q) == [name |-> "F", params |-> <<"p", "tag">>,
           body |-> Block(Rounds3(q, "F") \o <<Probe("F"), LaterMatch("F"), Return(Str("done"))>>)]
CallF(arg) == <<ExprS(Asg("r", Call("F", <<arg, Str("arg")>>))), PrintS(<<Str("ret"), Var("r")>>), Probe("G")>>

Prog(q) ==
  LET fns == IF InFn(q.where) THEN <<FnF(q)>> ELSE <<>>
      tail == Block(After)
  IN CASE q.where = "begin" ->
            [fns |-> fns, begin |-> Block(Presets \o Rounds3(q, "G") \o After),
             rules |-> <<[pat |-> None, body |-> Block(After)]>>, end |-> tail, input |-> <<Num(7)>>]
       [] q.where = "fn" ->
            [fns |-> fns, begin |-> Block(Presets \o <<ForIn("p0", "ps", Block(CallF(Var("p0"))))>> \o After),
             rules |-> <<[pat |-> None, body |-> Block(After)]>>, end |-> tail, input |-> <<Num(7)>>]
       [] q.where = "rule" ->
            [fns |-> fns, begin |-> Block(Presets),
             rules |-> <<[pat |-> None, body |-> Block(<<ExprS(Asg("p", ArrE(<<[k |-> "dollar"], Str("s")>>)))>> \o Rounds3(q, "G") \o After)],
                         [pat |-> None, body |-> Block(<<Probe("G")>>)]>>,
             end |-> tail, input |-> <<Num(1), Num(2), Num(3)>>]
       [] q.where = "rulefn" ->
            [fns |-> fns, begin |-> Block(Presets),
             rules |-> <<[pat |-> None, body |-> Block(<<ExprS(Asg("p0", ArrE(<<[k |-> "dollar"], Str("s")>>)))>> \o CallF(Var("p0")) \o After)],
                         [pat |-> None, body |-> Block(<<Probe("G")>>)]>>,
             end |-> tail, input |-> <<Num(1), Num(2), Num(3)>>]

\* ---- the transition system
VARIABLE par
Init == par \in Params /\ st = InitState(Prog(par))
Next == CoreNext /\ UNCHANGED par

\* ---- laws, every reachable state
MatchFrames == Cardinality({i \in 1..Len(st.frames) : IsMatchFrame(st.frames[i])})
PendingArms == Cardinality({i \in 1..Len(st.ctl) : st.ctl[i].t = "matchk"})
PendingCalls == Cardinality({i \in 1..Len(st.ctl) : st.ctl[i].t = "callk"})
\* as many binding scopes as case bodies under evaluation, as many other frames as calls (plus the root):
\* a body that has been left - by its end or by any signal - has taken its bindings with it
ScopesMirrorArms == st.outcome = "running" =>
  /\ MatchFrames = PendingArms
  /\ Len(st.frames) - MatchFrames = 1 + PendingCalls
\* a name only patterns bind exists in binding scopes only
BoundOnlyInScopes == \A i \in 1..Len(st.frames) : ("t2" \in DOMAIN st.frames[i] /\ st.frames[i]["t2"].t # "unset") => IsMatchFrame(st.frames[i])
\* the presets are never overwritten by a binding
PresetsStay == LET root == st.frames[Len(st.frames)] IN
  /\ "n" \in DOMAIN root => root["n"] = VStr("gn")
  /\ "tag" \in DOMAIN root => root["tag"] = VStr("gt")
  /\ "e" \in DOMAIN root => root["e"] = VStr("ge")
\* inside F the parameter tag is the argument
ParamStays == \A i \in 1..Len(st.frames) :
  (~IsMatchFrame(st.frames[i]) /\ i # Len(st.frames) /\ "tag" \in DOMAIN st.frames[i]) => st.frames[i]["tag"] = VStr("arg")

\* ---- laws, final state: the statement read on the printed lines
Starts(l, pre) == Len(l) >= Len(pre) /\ SubSeq(l, 1, Len(pre)) = pre
Sfx(l, pre) == SubSeq(l, Len(pre) + 1, Len(l))
PairShown == {PairNums[j] \o " " \o PairStrs[j] : j \in 1..3} \cup {d \o " s" : d \in {"1", "2", "3"}}
WholeShown == {"[" \o PairNums[j] \o ", \"" \o PairStrs[j] \o "\"]" : j \in 1..3} \cup {"[" \o d \o ", \"s\"]" : d \in {"1", "2", "3"}}
BoundShown == IF par.pat = "any" THEN WholeShown ELSE PairShown
Digits == {"1", "2", "3", "4", "5", "6", "7", "8", "9"}
LineOK(l) ==
  \* outside every case body: the program's variables, and t2 unknown
  /\ Starts(l, "G ") => (l = "G gn gt ge true")
  /\ Starts(l, "F ") => (l = "F gn arg ge true")
  \* inside the case body: what the pattern bound
  /\ Starts(l, "in ") => Sfx(l, "in ") \in BoundShown
  /\ Starts(l, "stay ") => Sfx(l, "stay ") \in BoundShown
  /\ Starts(l, "inner ") => \E d \in Digits : \E b \in BoundShown : Sfx(l, "inner ") = d \o " " \o b
  /\ Starts(l, "q ") => \E d \in {"1", "2", "3"} : \E b \in BoundShown : Sfx(l, "q ") = d \o " " \o b
  /\ l # "unreached"
FinalLaws == st.outcome # "running" =>
  /\ ~st.open /\ st.outcome = "ok"
  /\ st.sig = "none" /\ Len(st.frames) = 1
  /\ \A j \in 1..Len(st.out) : LineOK(st.out[j])
  \* not vacuous: a case body was entered, and (unless the run was ended by exit) a line was printed outside afterwards
  /\ \E j \in 1..Len(st.out) : Starts(st.out[j], "in ")
  /\ par.sig # "exit" => \E j \in 1..Len(st.out) : Starts(st.out[j], "G ")
  \* the direct site leaves every body it enters: nothing is printed by a body after its "in" line
  /\ par.site = "direct" => ~\E j \in 1..Len(st.out) : Starts(st.out[j], "stay ")
  \* a break / continue raised in the loop inside the case block is consumed there: the body goes on, bindings intact
  /\ (par.site = "inloop" /\ par.sig \in {"break", "continue"}) =>
        Cardinality({j \in 1..Len(st.out) : Starts(st.out[j], "in ")}) = Cardinality({j \in 1..Len(st.out) : Starts(st.out[j], "stay ")})

Laws == ScopesMirrorArms /\ BoundOnlyInScopes /\ PresetsStay /\ ParamStays /\ FinalLaws

Vec == st.outcome # "running" =>
  Emit([par |-> par, prog |-> st.prog, out |-> st.out, outcome |-> st.outcome, steps |-> st.steps])
=============================================================================
