---------------------------- MODULE MC_HeapIdx ----------------------------
(* C09, index values: "all index values (in range, past the end, negative,   *)
(* fractional)".  An index of an array is a NUMBER; the position it          *)
(* addresses is its integer part (truncation toward zero, as for every       *)
(* number used as an integer: 1.5 -> 1, -0.5 -> 0, -1.5 -> -1) and then, if   *)
(* that is negative, counted from the end (JqHeap.Norm).  The same position   *)
(* is addressed by a read, a store, `op=` and ++ / --; a store past the end   *)
(* pads with null, before the start is a runtime error, a read past the end   *)
(* yields null and creates nothing.                                          *)
(*                                                                            *)
(* Index values are numbers in QUARTERS (q stands for q/4) over the whole     *)
(* range  -(MaxLen+2) .. MaxLen+2, so that every array length 0..MaxLen meets *)
(* indices beyond both ends, and the non-numbers "1" "-1" "0" "1.5" true      *)
(* false null, for which the statement does not say what they address: the   *)
(* array they are applied to is left open, everything else must not change.  *)
(* Four arrays of the same length live at four sites (a variable, a member of *)
(* an object held by a variable, a member of the input document, an element   *)
(* of an array of the input document); each operation addresses one of them, *)
(* the other three and the rest of x, y, $ are the frame.                     *)
(* Config: MaxLen; Fine (quarters, else halves); Deep (histories of two       *)
(* operations at one site, the second a read / store / postfix ++, instead of *)
(* one operation).                                                            *)
EXTENDS JqHeap
CONSTANTS MaxLen, Fine, Deep

Fuel == 12
ObsNames == {"x", "y", "$"}

IQ(q) == [t |-> "q", q |-> q]
Trunc(q) == IF q >= 0 THEN q \div 4 ELSE -((-q) \div 4)        \* toward zero
QRange == LET m == 4 * (MaxLen + 2) IN {q \in (-m)..m : Fine \/ q % 2 = 0}
Others == {Str("1"), Str("-1"), Str("0"), Str("1.5"), Bool(TRUE), Bool(FALSE), Null}
IdxVals == {IQ(q) : q \in QRange} \cup Others

Sites == IF Deep THEN {"var", "doc"} ELSE {"var", "mem", "doc", "nest"}
SitePath(s) == CASE s = "var" -> Path("x", <<>>)
                 [] s = "mem" -> Path("y", <<K("k")>>)
                 [] s = "doc" -> Path("$", <<K("a")>>)
                 [] s = "nest" -> Path("$", <<K("b"), I(0)>>)
Elems(n, off) == [i \in 1..n |-> Num(10 * i + off)]
Start(n) == [heap |-> << ArrC(Elems(n, 0)),
                         ObjC(("k" :> Arr(3)) @@ ("j" :> Num(1))), ArrC(Elems(n, 1)),
                         ObjC(("a" :> Arr(5)) @@ ("b" :> Arr(6)) @@ ("n" :> Num(5))), ArrC(Elems(n, 2)),
                         ArrC(<<Arr(7), Num(7)>>), ArrC(Elems(n, 3)) >>,
             env |-> [v \in ObsNames |-> CASE v = "x" -> Arr(1) [] v = "y" -> Obj(2) [] v = "$" -> Obj(4)]]

Kinds == {"read", "set", "cadd", "csub", "cstr", "preinc", "postinc", "predec", "postdec"}
Kinds2 == {"read", "set", "postinc"}
Op(kind, site, iv) == [kind |-> kind, site |-> site, iv |-> iv]
Ops1 == {Op(k, s, iv) : k \in Kinds, s \in Sites, iv \in IdxVals}
Ops2(site) == {Op(k, site, iv) : k \in Kinds2, iv \in IdxVals}

R3(st, res, status) == [st |-> st, res |-> res, status |-> status]
At(site, i) == LET sp == SitePath(site) IN Path(sp.base, sp.sels \o <<I(i)>>)
ItemsAt(st, site) == st.heap[ReadPath(st, SitePath(site)).id].items
\* the state with the array at `site` blanked out: what an operation at that site must leave alone
Frame(st, site) == LET s2 == AssignPath(st, SitePath(site), Wild).st IN [n \in ObsNames |-> Tree(s2, s2.env[n], Fuel)]

\* the operation at the integer index i
StepAt(st, kind, site, i) ==
  LET p == At(site, i)
      cur == ReadPath(st, p)
  IN IF cur.t = "error" THEN R3(st, Null, "error")
     ELSE IF kind = "read" THEN R3(st, cur, "ok")
     ELSE IF kind = "set" THEN LET a == AssignPath(st, p, Num(7)) IN R3(a.st, Missing, a.status)
     ELSE LET new == CASE kind = "cadd" -> Plus(cur, Num(2))
                       [] kind = "csub" -> Minus(cur, Num(2))
                       [] kind = "cstr" -> Plus(cur, Str("s"))
                       [] kind \in {"preinc", "postinc"} -> Num(NumOf(cur) + 1)
                       [] OTHER -> Num(NumOf(cur) - 1)
              a == AssignPath(st, p, new)
              res == CASE kind \in {"postinc", "postdec"} -> Num(NumOf(cur))
                       [] kind \in {"preinc", "predec"} -> new
                       [] OTHER -> Missing
          IN R3(a.st, res, a.status)

Step(st, op) ==
  IF op.iv.t # "q" THEN R3(AssignPath(st, SitePath(op.site), Wild).st, Wild, "open")
  ELSE StepAt(st, op.kind, op.site, Trunc(op.iv.q))

-----------------------------------------------------------------------------
(* laws of the specification itself *)
Abs(i) == IF i < 0 THEN -i ELSE i
Max(a, b) == IF a >= b THEN a ELSE b
TruncLaws(q) == /\ Trunc(-q) = -Trunc(q)                       \* toward zero, not toward minus infinity
                /\ Abs(4 * Trunc(q)) <= Abs(q) /\ Abs(q) < Abs(4 * Trunc(q)) + 4
                /\ (q % 4 = 0 => 4 * Trunc(q) = q)
                /\ \A q2 \in QRange : q <= q2 => Trunc(q) <= Trunc(q2)
StepLaws(st, op, r) ==
  IF op.iv.t # "q" THEN Frame(r.st, op.site) = Frame(st, op.site)
  ELSE
  LET items == ItemsAt(st, op.site)
      n == Len(items)
      t == Trunc(op.iv.q)
      pos == Norm(n, t)
  IN /\ TruncLaws(op.iv.q)
     /\ (r.status = "error") = (pos < 0)
     /\ r.status \in {"ok", "error"}
     /\ (r.status = "error" => r.st = st)
     /\ (op.kind = "read" /\ r.status = "ok" => r.st = st /\ r.res = (IF pos < n THEN items[pos + 1] ELSE Null))
     /\ (op.kind # "read" /\ r.status = "ok" =>
           LET new == ItemsAt(r.st, op.site) IN
           /\ Len(new) = Max(n, pos + 1)                                   \* grows exactly up to the new index
           /\ \A j \in 1..Len(new) : j # pos + 1 => new[j] = (IF j <= n THEN items[j] ELSE Null)   \* every other position as before / null padding
           /\ Frame(r.st, op.site) = Frame(st, op.site)                   \* nothing outside the array
           /\ ReadPath(r.st, At(op.site, t)) = new[pos + 1]               \* read back through the same index
           /\ ReadPath(r.st, At(op.site, pos)) = new[pos + 1]             \* and through the position counted from the start
           /\ (op.kind = "set" => new[pos + 1] = Num(7))
           /\ (op.kind \in {"postinc", "preinc"} => new[pos + 1] = Num(NumOf(IF pos < n THEN items[pos + 1] ELSE Null) + 1)))
     \* a negative index that stays inside the array is the same operation as the index counted from the start
     /\ (t < 0 /\ pos >= 0 => StepAt(st, op.kind, op.site, pos) = r)

-----------------------------------------------------------------------------
VARIABLES len, hist, cur, out, law, alive
vars == <<len, hist, cur, out, law, alive>>

Expect(r) == [st |-> IF r.status = "error" THEN "error" ELSE "ok", open |-> r.status = "open",
              res |-> IF r.res.t = "missing" THEN Null ELSE Tree(r.st, r.res, Fuel),
              vars |-> [n \in ObsNames |-> Tree(r.st, r.st.env[n], Fuel)]]

Init == len \in 0..MaxLen /\ hist = <<>> /\ cur = Start(len) /\ out = <<>> /\ law = TRUE /\ alive = TRUE
Next == /\ alive
        /\ Len(hist) < (IF Deep THEN 2 ELSE 1)
        /\ \E op \in (IF hist = <<>> THEN Ops1 ELSE Ops2(hist[1].site)) :
             LET r == Step(cur, op) IN
             /\ hist' = Append(hist, op)
             /\ cur' = r.st
             /\ out' = Append(out, Expect(r))
             /\ law' = StepLaws(cur, op, r)
             /\ alive' = (r.status = "ok")
        /\ UNCHANGED len

Laws == law

RECURSIVE Compact(_)
Compact(tr) ==
  CASE tr.t = "num" -> tr.n [] tr.t = "str" -> tr.s [] tr.t = "bool" -> tr.b
    [] tr.t = "arr" -> [i \in 1..Len(tr.items) |-> Compact(tr.items[i])]
    [] tr.t = "obj" -> [o |-> [k \in DOMAIN tr.m |-> Compact(tr.m[k])]]
    [] OTHER -> "~" \o tr.t
CompactStep(e) == [exp |-> [st |-> e.st, res |-> Compact(e.res), vars |-> [n \in ObsNames |-> Compact(e.vars[n])]], open |-> e.open]
StartTrees == LET s == Start(len) IN [n \in ObsNames |-> Compact(Tree(s, s.env[n], Fuel))]
\* the position (from the start) the model says the operation addresses, for the evidence
PosOf(op) == IF op.iv.t = "q" THEN Trunc(op.iv.q) ELSE 0
Complete == Len(hist) = (IF Deep THEN 2 ELSE 1) \/ (hist # <<>> /\ ~alive)
Vec == Complete => Emit([len |-> len, start |-> StartTrees, ops |-> [i \in 1..Len(hist) |-> [kind |-> hist[i].kind, site |-> hist[i].site, iv |-> hist[i].iv, trunc |-> PosOf(hist[i])]],
                         steps |-> [i \in 1..Len(out) |-> CompactStep(out[i])]])
=============================================================================
