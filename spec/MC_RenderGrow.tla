--------------------------- MODULE MC_RenderGrow ---------------------------
(* C17: "sharing without a cycle is printed in full" for an array and the     *)
(* copy of it that was taken before it grew.                                  *)
(*                                                                            *)
(* In the pinned implementation an array value is a slice header over a      *)
(* storage of cells (C09's open finding alias-length).  `b = a` copies the    *)
(* header.  When a then grows beyond the capacity of the storage (the first  *)
(* push onto an array literal / an input array, an assignment past its end)  *)
(* the cells move to a NEW storage: from then on a (L + g elements) and b    *)
(* (still L elements) are two arrays that hold the same first L cells.  b is  *)
(* not reachable from itself, so wherever it is met - also below a - it is   *)
(* printed in full; a genuine cycle through a is still cut at the point of   *)
(* recurrence.  Identity for the cycle test is the storage, never a cell.    *)
(*                                                                            *)
(* Universe: base array of L <= MaxL scalars, created by a literal or read    *)
(* from the input; the old copy is held in a variable / an object member /    *)
(* an array element / the input document itself; growth by g <= MaxGrow      *)
(* pushes or by one assignment at index L + g - 1 (the slots in between are  *)
(* padded with null); then every new slot keeps its scalar or receives: the  *)
(* old copy, an object / array wrapper around the old copy, the grown array   *)
(* itself, an object wrapper around the grown array.  The old copy is only   *)
(* READ after the growth.  Printed: the grown array, or [grown, old].         *)
(*                                                                            *)
(* Two heaps: Dev (the implementation as it is: old and grown are two         *)
(* containers) and Ideal (alias-length repaired: the old copy IS the grown    *)
(* array).  The harness decides by length() probes which world it runs in.    *)
EXTENDS JqRender
CONSTANTS MaxL, MaxGrow, Holders, Bases, GrowOps, Fills, Roots

VARIABLES L, g, gop, holder, base, fills, root, done
vars == <<L, g, gop, holder, base, fills, root, done>>

Init == /\ L \in 1..MaxL /\ g \in 1..MaxGrow /\ gop \in GrowOps /\ base \in Bases
        /\ holder \in (IF base = "input" THEN {"input"} ELSE Holders)
        /\ fills = <<>> /\ root = "" /\ done = FALSE
Next == /\ ~done /\ done' = TRUE /\ UNCHANGED <<L, g, gop, holder, base>>
        /\ fills' \in [1..g -> Fills]
        /\ root' \in Roots
        \* at least one slot receives a container: everything else is MC_Render's universe
        /\ \E j \in 1..g : fills'[j] # "atom"

GrownId == 1
OldId == 2
Wrapped(f) == f \in {"oldobj", "oldarr", "selfobj"}
WrapIdx(j) == Cardinality({i \in 1..j : Wrapped(fills[i])})
RootId == 3 + WrapIdx(g)

\* what a new slot holds when it is left alone
Default(j) == IF gop = "index" /\ j < g THEN Null ELSE Atom("a", <<1, L + j>>)
BaseSlots == [j \in 1..L |-> Atom("a", <<2, j>>)]

\* old = the id the old copy denotes in this world
Heap(old) ==
  LET slot(j) == CASE fills[j] = "atom" -> Default(j)
                   [] fills[j] = "old"  -> Ref(old)
                   [] fills[j] = "self" -> Ref(GrownId)
                   [] OTHER -> Ref(2 + WrapIdx(j))
      wrapper(k) == LET j == CHOOSE i \in 1..g : Wrapped(fills[i]) /\ WrapIdx(i) = k
                        tgt == IF fills[j] = "selfobj" THEN Ref(GrownId) ELSE Ref(old)
                    IN IF fills[j] = "oldarr" THEN Arr(<<tgt>>) ELSE Obj(<<tgt>>, <<<<2 + k, 1>>>>)
  IN [i \in 1..RootId |->
        CASE i = GrownId -> Arr(BaseSlots \o [j \in 1..g |-> slot(j)])
          [] i = OldId   -> Arr(BaseSlots)
          [] i = RootId  -> Arr(<<Ref(GrownId), Ref(old)>>)
          [] OTHER       -> wrapper(i - 2)]

Dev == Heap(OldId)
Ideal == Heap(GrownId)
RootV == IF root = "grown" THEN Ref(GrownId) ELSE Ref(RootId)

Selfish == Cardinality({j \in 1..g : fills[j] \in {"self", "selfobj"}})
Oldish  == Cardinality({j \in 1..g : fills[j] \in {"old", "oldobj", "oldarr"}})
Circs(toks) == Count(toks, LAMBDA tk : tk = Circ)

Laws == done =>
  LET pd == Pretty(Dev, RootV)
      pi == Pretty(Ideal, RootV)
      jo == ToJsonV(Dev, Ref(OldId))
  IN
  \* the old copy is a tree of its own L elements, wherever it stands, and they are the first L of the grown array
  /\ jo = Arr(BaseSlots) /\ ~OnCycle(Dev, OldId)
  /\ SubSeq(Dev[GrownId].s, 1, L) = jo.s /\ Len(Dev[GrownId].s) = L + g
  \* Dev: exactly the references to the grown array from below itself are cut; the old copy never is
  /\ Circs(pd) = Selfish
  /\ CyclicFrom(Dev, RootV) <=> Selfish > 0
  /\ Selfish = 0 => /\ ToJsonV(Dev, RootV) = Unfold(Dev, RootV)
                    /\ ParseJson(pd) = ToJsonV(Dev, RootV)
                    \* the old copy is written out once per place it stands in
                    /\ Count(pd, LAMBDA tk : tk = [t |-> "anest", n |-> <<2, 1>>]) = 1 + Oldish + (IF root = "beside" THEN 1 ELSE 0)
  \* Ideal: the old copy is the grown array, every such reference below it is a recurrence
  /\ Circs(pi) = (Selfish + Oldish) * (IF root = "beside" THEN 2 ELSE 1)
  \* the two worlds print differently exactly when the old copy stands somewhere
  /\ (pd = pi) <=> (Oldish = 0 /\ root = "grown")

Vec == done =>
  Emit([L |-> L, g |-> g, gop |-> gop, holder |-> holder, base |-> base, fills |-> fills, root |-> root,
        h |-> [i \in 1..Len(Dev) |-> EncVal(Dev[i])],
        out |-> EncToks(PrintStmt(Dev, <<RootV>>, RootV)),
        ideal |-> EncToks(PrintStmt(Ideal, <<RootV>>, RootV)),
        js |-> EncVal(ToJsonV(Dev, RootV))])
=============================================================================
