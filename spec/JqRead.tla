------------------------------- MODULE JqRead -------------------------------
(* C04, "a program that does not modify it": what a member lookup            *)
(* (`v.key`, `v["key"]`, `v[i]`, chained to any length) does to the document  *)
(* it walks through, as opposed to an assignment through the same chain.      *)
(*                                                                            *)
(* Implementation counterparts:                                               *)
(*   Lookup   -  case LSquare, Dot of Evaluator.evalBinaryExpr and            *)
(*               Value.GetMember (src/evaluator.go, src/value.go): a member   *)
(*               that exists is the document's own cell; a member that does  *)
(*               not exist is a speculative null that remembers its parent   *)
(*               but is NOT stored in it                                      *)
(*   Assign   -  the assignment through such a chain (SetMember /             *)
(*               createSpeculativeObjects): only this stores anything         *)
(*                                                                            *)
(* The document is a tree of inline values of JqRender (labelled: every atom *)
(* and key is named by its access path).  A position is the sequence of slot *)
(* numbers from the root.                                                     *)
EXTENDS JqRender

RECURSIVE At(_, _)
At(d, p) == IF p = <<>> THEN d ELSE At(d.s[Head(p)], Tail(p))

RECURSIVE ValidPos(_, _)
ValidPos(d, p) == p = <<>> \/ (IsContainer(d) /\ Head(p) \in 1..Len(d.s) /\ ValidPos(d.s[Head(p)], Tail(p)))

RECURSIVE Size(_), SumSizes(_)
Size(v) == IF ~IsContainer(v) THEN 1 ELSE 1 + SumSizes(v.s)
SumSizes(s) == IF s = <<>> THEN 0 ELSE Size(Head(s)) + SumSizes(Tail(s))

\* ---- steps of an access chain
\* key j >= 1: the key of slot j of the object the chain stands on; j = 0: a
\* key no object of the document has.  idx i: 0-based; negative from the end.
Key(j) == [s |-> "key", n |-> j]
Idx(i) == [s |-> "idx", n |-> i]

\* ---- what the chain stands on after some steps
\*   node  a cell of the document (position p)
\*   spec  a null that is not part of the document: the missing member st of
\*         the existing value at p (a missing key, an index past the end, any
\*         member of a null / number / true / false, a key of a string or an
\*         array)
\*   det   a value with no place in the document at all: a member of a spec /
\*         det, a character of a string
\*   error the lookup is refused (an index that walks off the front)
Node(p) == [k |-> "node", p |-> p]
Spec(p, st) == [k |-> "spec", p |-> p, st |-> st]
Detached == [k |-> "det"]
Failed == [k |-> "error"]

Lookup(d, cur, st) ==
  CASE cur.k = "error" -> Failed
    [] cur.k \in {"spec", "det"} -> Detached
    [] OTHER ->
      LET v == At(d, cur.p)
          n == IF IsContainer(v) THEN Len(v.s) ELSE 0 IN
      CASE v.t = "obj" /\ st.s = "key" -> IF st.n \in 1..n THEN Node(Append(cur.p, st.n)) ELSE Spec(cur.p, st)
        [] v.t = "arr" /\ st.s = "idx" ->
             LET i == IF st.n < 0 THEN n + st.n ELSE st.n IN
             IF i < 0 THEN Failed ELSE IF i < n THEN Node(Append(cur.p, i + 1)) ELSE Spec(cur.p, st)
        [] v.t = "atom" /\ v.c = "s" /\ st.s = "idx" -> Detached
        [] OTHER -> Spec(cur.p, st)

\* the kind of value at which a chain leaves the document (for the vectors)
Through(d, cur) ==
  CASE cur.k = "node" -> "inside"
    [] cur.k = "spec" -> LET v == At(d, cur.p) IN
         IF v.t = "null" THEN "null" ELSE IF v.t = "atom" THEN v.c ELSE v.t \o "-" \o cur.st.s
    [] OTHER -> cur.k

\* the value the chain denotes; Open where the statement is silent (characters of strings)
Open == [t |-> "open"]
Value(d, cur) ==
  CASE cur.k = "node" -> At(d, cur.p)
    [] cur.k = "spec" -> Null
    [] OTHER -> Open

\* ---- a lookup does not change the document.  Stated as a function so that
\* the transition system of MC_RenderRead can check it against Assign.
AfterLookup(d, cur, st) == d

\* ---- an assignment through the chain (the cases whose effect is documented:
\* an existing member is replaced, a missing key is added to its object, the
\* element one past the end is appended)
RECURSIVE Replace(_, _, _)
Replace(d, p, val) ==
  IF p = <<>> THEN val
  ELSE [d EXCEPT !.s = [@ EXCEPT ![Head(p)] = Replace(d.s[Head(p)], Tail(p), val)]]

CanAssign(d, cur) ==
  \/ cur.k = "node" /\ cur.p # <<>>
  \/ /\ cur.k = "spec"
     /\ LET v == At(d, cur.p) IN
        \/ v.t = "obj" /\ cur.st.s = "key"
        \/ v.t = "arr" /\ cur.st.s = "idx" /\ cur.st.n = Len(v.s)

Assign(d, cur, val) ==
  IF cur.k = "node" THEN Replace(d, cur.p, val)
  ELSE LET v == At(d, cur.p) IN
    IF v.t = "obj" THEN Replace(d, cur.p, Obj(Append(v.s, val), Append(v.ks, <<0>>)))
    ELSE Replace(d, cur.p, Arr(Append(v.s, val)))
=============================================================================
