--------------------------- MODULE MC_Render ---------------------------
(* C17 / C04: every heap with <= MaxC containers of <= MaxS slots, slots     *)
(* holding an atom of one of the Classes or a reference: every cycle and     *)
(* sharing shape of that size (self reference, 2- and 3-cycles through       *)
(* arrays, objects and mixtures, the diamond, the same child twice, empty    *)
(* containers at every position).  One representative per heap up to         *)
(* renaming: all containers reachable from container 1 and numbered in       *)
(* depth-first discovery order.                                              *)
(* ArgMode "root": the printed / converted value is container 1.             *)
(* ArgMode "lists": print argument lists of 0..MaxArgs values (containers    *)
(* and atoms); the empty list prints $, which the program sets to container 1.*)
EXTENDS JqRender
CONSTANTS MaxC, MaxS, Classes, ArgMode, MaxArgs

VARIABLES nC, h, args, done
vars == <<nC, h, args, done>>

SlotVals(n) == {Atom(c, <<>>) : c \in Classes} \cup {Ref(i) : i \in 1..n}
Conts(n) == UNION {{Arr(s), Obj(s, <<>>)} : s \in SeqsUpTo(SlotVals(n), MaxS)}

\* atom and key names: <<container, slot>>
Named(hh) ==
  [i \in 1..Len(hh) |->
     LET c == hh[i]
         s2 == [j \in 1..Len(c.s) |-> IF c.s[j].t = "atom" THEN Atom(c.s[j].c, <<i, j>>) ELSE c.s[j]]
     IN IF c.t = "arr" THEN Arr(s2) ELSE Obj(s2, [j \in 1..Len(c.s) |-> <<i, j>>])]

InSeq(x, s) == \E i \in 1..Len(s) : s[i] = x
RECURSIVE Pre(_, _, _)
\* depth-first discovery order of the containers reachable from the values todo
Pre(hh, todo, seen) ==
  IF todo = <<>> THEN seen
  ELSE LET v == Head(todo) IN
    IF v.t = "ref" /\ ~InSeq(v.id, seen) THEN Pre(hh, hh[v.id].s \o Tail(todo), Append(seen, v.id))
    ELSE Pre(hh, Tail(todo), seen)
Canon(hh) == Pre(hh, <<Ref(1)>>, <<>>) = [i \in 1..Len(hh) |-> i]

ArgVals(n) == {Atom(c, <<0>>) : c \in Classes} \cup {Ref(i) : i \in 1..n}
NamedArgs(a) == [k \in 1..Len(a) |-> IF a[k].t = "atom" THEN Atom(a[k].c, <<0, k>>) ELSE a[k]]
ArgLists(n) == IF ArgMode = "root" THEN {<<Ref(1)>>} ELSE SeqsUpTo(ArgVals(n), MaxArgs)

\* two phases (BUILDING.md): Init picks the size and container 1, Next the rest
Init == /\ nC \in 1..MaxC
        /\ \E c \in Conts(nC) : h = <<c>>
        /\ args = <<>> /\ done = FALSE
Next == /\ ~done /\ done' = TRUE /\ UNCHANGED nC
        /\ \E rest \in [2..nC -> Conts(nC)] :
             LET hh == [i \in 1..nC |-> IF i = 1 THEN h[1] ELSE rest[i]] IN
             /\ Canon(hh)
             /\ h' = Named(hh)
        /\ \E a \in ArgLists(nC) : args' = NamedArgs(a)

----------------------------------------------------------------------------
Dollar == Ref(1)
Roots == IF args = <<>> THEN <<Dollar>> ELSE args
Out == PrintStmt(h, args, Dollar)

AtomKinds == {"raw", "quo", "num", "word", "atop", "anest", "any"}
IsCircTok(tk) == tk = Circ
IsAtomTok(tk) == tk.t \in AtomKinds
IsNL(tk) == tk = Newline
IsSP(tk) == tk = Space

RECURSIVE HasEmptyArr(_)
HasEmptyArr(j) ==
  CASE j.t = "arr" -> j.s = <<>> \/ \E i \in 1..Len(j.s) : HasEmptyArr(j.s[i])
    [] j.t = "obj" -> \E i \in 1..Len(j.s) : HasEmptyArr(j.s[i])
    [] OTHER -> FALSE

\* Two <circular reference> positions that name the SAME occurrence of an ancestor: two back edges
\* into one container from within its own rendering.  The second one must be recognised like the
\* first (a cycle check that forgets an ancestor once it has been met again renders it a second time,
\* or never ends); the counting laws below cover it, this predicate only tells the harness which
\* vectors are of that shape (evidence: the class is exercised).
AncestorAt(vs) == CHOOSE i \in 1..(Len(vs) - 1) : vs[i].t = "ref" /\ vs[i].id = vs[Len(vs)].id
RepeatedBack(v) ==
  LET paths == {p \in SeqsUpTo(1..MaxS, nC + 1) : Follow(h, v, p) # <<>> /\ IsCircPos(Follow(h, v, p))} IN
  \E p, q \in paths :
     /\ p # q
     /\ LET i == AncestorAt(Follow(h, v, p)) IN
        /\ i = AncestorAt(Follow(h, v, q))
        /\ SubSeq(p, 1, i - 1) = SubSeq(q, 1, i - 1)

\* laws about one rendered value v (DESIGN.md section 5, C17 and C04)
ValueLaws(v) ==
  LET pr == Pretty(h, v)
      js == ToJsonV(h, v)
      cyc == CyclicFrom(h, v)
      bad == BadLeafFrom(h, v)
      paths == {p \in SeqsUpTo(1..MaxS, nC + 1) : Follow(h, v, p) # <<>>}
      W(p) == Follow(h, v, p)
      Last(vs) == vs[Len(vs)]
  IN
  \* termination: the recursion is bounded by the number of containers
  /\ MaxDepth(pr) <= nC
  \* <circular reference> appears iff a cycle is reachable ...
  /\ (Count(pr, IsCircTok) = 0) <=> ~cyc
  \* ... exactly at the first recurrences on a path from the root, and every
  \* other position that is reached without a recurrence is printed
  /\ Count(pr, IsCircTok) = Cardinality({p \in paths : IsCircPos(W(p))})
  /\ Count(pr, IsAtomTok) = Cardinality({p \in paths : Rendered(W(p)) /\ Last(W(p)).t = "atom"})
  /\ Count(pr, IsOpen) = Cardinality({p \in paths : Rendered(W(p)) /\ Last(W(p)).t = "ref" /\ ~IsCircPos(W(p))})
  \* an ancestor that is referred to twice from below itself is shown twice, not rendered again
  /\ RepeatedBack(v) => Count(pr, IsCircTok) >= 2
  \* sharing without a cycle is printed in full: the text is that of the tree
  /\ ~cyc => pr = Pretty(EmptyHeap, Unfold(h, v))
  \* JSON: error iff a container is on its own path or a non-JSON leaf is reachable
  /\ (js = Error) <=> (cyc \/ bad)
  \* ... otherwise the tree unfolding
  /\ js # Error => js = Unfold(h, v)
  \* re-readable: the rendering of an acyclic container is JSON equal to the value,
  \* the rendering of a cyclic one is not JSON (it cannot be mistaken for a value)
  /\ (v.t = "ref" /\ ~cyc /\ ~bad) => ParseJson(pr) = js
  /\ (v.t = "ref" /\ cyc) => ParseJson(pr) = Error
  \* the deviation changes the result exactly when an empty array is part of the value
  /\ (ToJsonDev(h, v, "empty-array-null") # js) <=> (js # Error /\ HasEmptyArr(js))
  /\ ToJsonDev(h, v, "") = js

\* laws about the whole print statement
PrintLaws ==
  LET out == Out
      body == SubSeq(out, 1, Len(out) - 1)
  IN
  /\ out[Len(out)] = Newline
  /\ Count(out, IsNL) = 1
  /\ Count(out, IsSP) = Len(Roots) - 1
  /\ SplitToks(body, Space) = [i \in 1..Len(Roots) |-> Pretty(h, Roots[i])]
  \* top-level strings raw, nested strings quoted; separators only inside containers
  /\ \A i \in 1..Len(out) :
       /\ out[i].t \in {"raw", "atop"} => DepthAt(out, i) = 0
       /\ out[i].t \in {"quo", "anest", "key"} => DepthAt(out, i) > 0
       /\ (out[i] = Comma \/ out[i] = Colon) => DepthAt(out, i) > 0
       /\ (out[i] = Space \/ out[i] = Newline) => DepthAt(out, i) = 0
       /\ out[i].t = "key" => out[i + 1] = Colon
  /\ DepthAt(out, Len(out) + 1) = 0

Laws == done => (PrintLaws /\ \A i \in 1..Len(Roots) : ValueLaws(Roots[i]))

\* C17 vector: the heap, the argument list, the expected output, and per
\* printed value its JSON tree (or error) for the re-reading comparison
VecPrint == done =>
  Emit([h |-> [i \in 1..nC |-> EncVal(h[i])], args |-> [i \in 1..Len(args) |-> EncVal(args[i])],
        out |-> EncToks(Out), rb |-> (\E i \in 1..Len(Roots) : RepeatedBack(Roots[i])),
        js |-> [i \in 1..Len(Roots) |-> EncVal(ToJsonV(h, Roots[i]))]])

\* C04 vector: json(c1) / -o with $ = c1
VecJson == done =>
  Emit([h |-> [i \in 1..nC |-> EncVal(h[i])], exp |-> EncVal(ToJsonV(h, Ref(1))),
        dev |-> ("empty-array-null" :> EncVal(ToJsonDev(h, Ref(1), "empty-array-null")))])
=============================================================================
