--------------------------- MODULE Trace_Proc ---------------------------
(* Validates a recorded history of runs (runs.ndjson: one Run event per     *)
(* line: key, proc, obs = hash of stdout + JSON output + outcome class,     *)
(* pollutes, methods) against JqProc.  Accepted iff every line is consumed. *)
EXTENDS JqProc
Trace == ndJsonDeserialize("runs.ndjson")
VARIABLE l
TInit == PrInit /\ l = 1
TNext == /\ l <= Len(Trace) /\ l' = l + 1
         /\ Run(Trace[l].key, Trace[l].proc, Trace[l].obs, Trace[l].pollutes = 1, Trace[l].methods = 1)
TSpec == TInit /\ [][TNext]_<<prvars, l>>
\* (LET: the file is parsed once; TraceKeys is substituted for a constant, and TLC evaluates that
\* substitution before it has cached Trace, i.e. once per reference to it)
TraceKeys == LET T == Trace IN {T[i].key : i \in 1..Len(T)}
Matched == TLCGet("stats").diameter - 1
TraceAccepted == /\ PrintT(<<"MATCHED", Matched, Len(Trace)>>)
                 /\ Matched = Len(Trace)
=============================================================================
