--------------------------- MODULE MC_RenderLive ---------------------------
(* C17: "a bare print, like a rule without a body, prints $" - the CURRENT   *)
(* value of $, at every moment of the handling of one element.               *)
(*                                                                            *)
(* A transition system over one input element.  The state is the heap of the *)
(* element (JqRender representation: containers with identity), the value $  *)
(* denotes, and what has been written so far.  One action per kind of step    *)
(* of a script:                                                               *)
(*   print    a print statement without arguments                             *)
(*   rule     a rule without a body (the script's rules are split here)       *)
(*   set      overwrite the first slot of a container with a fresh scalar    *)
(*   add      give a container one more slot (push / assignment at the end /  *)
(*            a new key)                                                      *)
(*   pop      remove the last slot of an array                                *)
(*   replace  $ = a new container                                             *)
(* set / add / pop address the root container of $ (c = 1) or the container  *)
(* in its second slot (c = 2), directly through a $-path or through another   *)
(* name bound to the container before (an alias: objects and array elements  *)
(* are shared; length changes through an alias of an array are C09's open    *)
(* finding alias-length and are not generated).                              *)
(* Every print-like step writes PrintStmt(h, <<>>, $) of the state it is     *)
(* executed in.  The vector is the script and everything written; the        *)
(* harness renders the script as rules of a jqawk program, runs it on the    *)
(* element as read from the input and matches stdout.                        *)
EXTENDS JqRender
CONSTANTS MaxSteps, RootKinds, InnerKinds     \* e.g. 3, {"arr","obj"}, {"none","arr","obj"}

VARIABLES h, dol, h0, steps, out
vars == <<h, dol, h0, steps, out>>

Mk(kind, s, id) == IF kind = "arr" THEN Arr(s) ELSE Obj(s, [j \in 1..Len(s) |-> <<id, j>>])
InitHeap(rk, ik) ==
  IF ik = "none" THEN <<Mk(rk, <<Atom("a", <<1, 1>>)>>, 1)>>
  ELSE <<Mk(rk, <<Atom("a", <<1, 1>>), Ref(2)>>, 1), Mk(ik, <<Atom("a", <<2, 1>>)>>, 2)>>

Init == /\ \E rk \in RootKinds, ik \in InnerKinds : h = InitHeap(rk, ik)
        /\ h0 = h /\ dol = Ref(1) /\ steps = <<>> /\ out = <<>>

Root == h[dol.id]
HasInner == Len(Root.s) >= 2 /\ Root.s[2].t = "ref"
Cid(c) == IF c = 1 THEN dol.id ELSE Root.s[2].id
Addressable(c) == c = 1 \/ HasInner
N == Len(steps) + 1
Fresh == Atom("a", <<9, N>>)

\* how the harness reaches slot j of container i: "i<index>" or "k<key name>"
SlotName(i, j) == IF h[i].t = "arr" THEN "i" \o ToString(j - 1) ELSE "k" \o NameStr(h[i].ks[j])
Acc(c) == IF c = 1 THEN <<>> ELSE <<SlotName(dol.id, 2)>>
Step(op, c, via, slot, val) ==
  [op |-> op, acc |-> IF c = 0 THEN <<>> ELSE Acc(c), via |-> via, slot |-> slot, val |-> val,
   ck |-> IF c = 0 THEN "" ELSE h[Cid(c)].t]

DoPrint(op) ==
  /\ steps' = Append(steps, Step(op, 0, "", "", ""))
  /\ out' = out \o PrintStmt(h, <<>>, dol)
  /\ UNCHANGED <<h, dol, h0>>

Set(c, via) ==
  /\ Addressable(c) /\ Len(h[Cid(c)].s) >= 1
  \* the first slot of the root may be overwritten only while it holds a scalar (the inner container stays reachable)
  /\ h[Cid(c)].s[1].t = "atom"
  /\ h' = [h EXCEPT ![Cid(c)].s[1] = Fresh]
  /\ steps' = Append(steps, Step("set", c, via, SlotName(Cid(c), 1), EncVal(Fresh)))
  /\ UNCHANGED <<dol, h0, out>>

Add(c, via) ==
  /\ Addressable(c)
  /\ via = "alias" => h[Cid(c)].t = "obj"
  /\ LET i == Cid(c)
         k == Len(h[i].s) + 1
     IN /\ h' = [h EXCEPT ![i] = IF h[i].t = "arr" THEN Arr(Append(h[i].s, Fresh))
                                 ELSE Obj(Append(h[i].s, Fresh), Append(h[i].ks, <<9, N>>))]
        /\ steps' = Append(steps, Step("add", c, via,
                                       IF h[i].t = "arr" THEN "i" \o ToString(k - 1) ELSE "k" \o NameStr(<<9, N>>),
                                       EncVal(Fresh)))
  /\ UNCHANGED <<dol, h0, out>>

Pop(c) ==
  /\ Addressable(c) /\ h[Cid(c)].t = "arr"
  /\ Len(h[Cid(c)].s) >= (IF c = 1 /\ HasInner THEN 3 ELSE 1)    \* the inner container is not popped off
  /\ h' = [h EXCEPT ![Cid(c)].s = SubSeq(@, 1, Len(@) - 1)]
  /\ steps' = Append(steps, Step("pop", c, "path", "", ""))
  /\ UNCHANGED <<dol, h0, out>>

Replace(kind) ==
  /\ h' = Append(h, IF kind = "arr" THEN Arr(<<Fresh>>) ELSE Obj(<<Fresh>>, <<<<9, N>>>>))
  /\ dol' = Ref(Len(h) + 1)
  /\ steps' = Append(steps, [op |-> "replace", acc |-> <<>>, via |-> "", slot |-> "k" \o NameStr(<<9, N>>), val |-> EncVal(Fresh), ck |-> kind])
  /\ UNCHANGED <<h0, out>>

IsMut(st) == st.op \notin {"print", "rule"}
Next ==
  /\ Len(steps) < MaxSteps
  /\ \/ \E op \in {"print", "rule"} : DoPrint(op)
     \/ \E c \in {1, 2}, via \in {"path", "alias"} : Set(c, via) \/ Add(c, via)
     \/ \E c \in {1, 2} : Pop(c)
     \/ \E kind \in {"arr", "obj"} : Replace(kind)

----------------------------------------------------------------------------
J == ToJsonV(h, dol)
Lines == Cardinality({i \in 1..Len(steps) : ~IsMut(steps[i])})

Laws ==
  \* $ always denotes a container of the heap; nothing here is cyclic
  /\ dol.t = "ref" /\ dol.id \in 1..Len(h)
  /\ ~CyclicFrom(h, dol) /\ J # Error
  /\ J = Unfold(h, dol)
  \* what a print-like step would write now: one line, no <circular reference>, reads back as $
  /\ LET p == PrintStmt(h, <<>>, dol) IN
       /\ p = PrintStmt(h, <<dol>>, dol)            \* a bare print is `print $`
       /\ p[Len(p)] = Newline
       /\ Count(p, LAMBDA tk : tk = Circ) = 0
       /\ ParseJson(SubSeq(p, 1, Len(p) - 1)) = J
  \* one line per print-like step so far
  /\ Count(out, LAMBDA tk : tk = Newline) = Lines
  \* the last print-like step wrote the current $ when nothing changed since
  /\ (steps # <<>> /\ ~IsMut(steps[Len(steps)])) =>
       LET ls == SplitToks(out, Newline) IN ParseJson(ls[Len(ls) - 1]) = J

\* every mutating step is observable: the value of $ after it differs from the value before
\* (so a print that shows an older $ is always distinguishable)
MutObservable ==
  [][(steps' # steps /\ IsMut(steps'[Len(steps')])) => ToJsonV(h', dol') # ToJsonV(h, dol)]_vars
\* print-like steps change nothing but the output
PrintPure ==
  [][(steps' # steps /\ ~IsMut(steps'[Len(steps')])) => (h' = h /\ dol' = dol)]_vars

Muts == Cardinality({i \in 1..Len(steps) : IsMut(steps[i])})
\* one vector per script that ends in a print-like step and changes $ at least once
Vec == (steps # <<>> /\ ~IsMut(steps[Len(steps)]) /\ Muts >= 1) =>
  Emit([init |-> EncVal(Unfold(h0, Ref(1))), steps |-> steps, out |-> EncToks(out),
        js |-> EncVal(J)])
=============================================================================
