----------------------------- MODULE JqText -----------------------------
(* Program text as bytes; lines, columns, source lines (DESIGN.md 4.1).    *)
(* Offsets p are 0-based byte offsets, as in the implementation; the byte  *)
(* at offset p is t[p+1].  A newline byte belongs to the line it ends.     *)
EXTENDS JqUtil

\* number of the line (1-based) that contains offset p
LineOf(t, p) == 1 + Cardinality({i \in 1..p : t[i] = NL})

\* offset of the first byte of the line containing offset p
LineStartOff(t, p) ==
  LET S == {i \in 1..p : t[i] = NL} IN IF S = {} THEN 0 ELSE SetMax(S)

\* offset one past the last byte of that line (its newline excluded)
LineEndOff(t, p) ==
  LET S == {i \in (p+1)..Len(t) : t[i] = NL} IN IF S = {} THEN Len(t) ELSE SetMin(S) - 1

ColOf(t, p) == p - LineStartOff(t, p)

SrcLineOf(t, p) == SubSeq(t, LineStartOff(t, p) + 1, LineEndOff(t, p))

\* independent definition: split on newlines
RECURSIVE Lines(_)
Lines(t) ==
  LET S == {i \in 1..Len(t) : t[i] = NL} IN
  IF S = {} THEN <<t>>
  ELSE LET i == SetMin(S) IN <<SubSeq(t, 1, i - 1)>> \o Lines(SubSeq(t, i + 1, Len(t)))

\* Laws that tie the two definitions together (checked by TLC on MC_Text)
TextLaws(t) ==
  \A p \in 0..Len(t) :
     /\ LineOf(t, p) \in 1..Len(Lines(t))
     /\ SrcLineOf(t, p) = Lines(t)[LineOf(t, p)]
     /\ ColOf(t, p) >= 0
     /\ ColOf(t, p) <= Len(SrcLineOf(t, p))
     /\ (p < Len(t) /\ t[p+1] # NL) => SrcLineOf(t, p)[ColOf(t, p) + 1] = t[p+1]
=============================================================================
