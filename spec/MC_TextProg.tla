--------------------------- MODULE MC_TextProg ---------------------------
(* C12, end to end: multi-line programs = filler lines + one fault line +   *)
(* filler lines.  The offending construct's byte span is marked in the      *)
(* fault line with the pseudo-bytes "LO" and "HI" (stripped before use).    *)
(* The expected line, source line and column range come from JqText.        *)
EXTENDS JqText
CONSTANTS MaxPre, MaxPost, LeanFrom

E9 == <<"C3", "A9">>   \* the two bytes of U+00E9

Fillers == <<
  <<>>,
  Chars("# comment ") \o E9 \o Chars(" end"),
  Chars("BEGIN { a = 'h") \o E9 \o Chars("' } # t") \o E9,
  Chars("BEGIN { b = 1 }") \o <<CR>>,
  Chars("function f(v) { return v }"),
  <<TAB>> \o Chars("  ")
>>

Mark(pre, mid, post) == Chars(pre) \o <<"LO">> \o mid \o <<"HI">> \o Chars(post)

\* class: expected error kind; exact: column must be exactly lo
Faults == <<
  [t |-> Mark("BEGIN { x = ", Chars("@"), " }"),           class |-> "syntax",  exact |-> TRUE],
  [t |-> Mark("BEGIN { x = ", E9, " }"),                   class |-> "syntax",  exact |-> FALSE],
  [t |-> Mark("BEGIN { x", <<"A9">>, " = 1 }"),            class |-> "syntax",  exact |-> TRUE],
  [t |-> Mark("BEGIN { x = ", Chars(")"), " }"),           class |-> "syntax",  exact |-> TRUE],
  [t |-> Mark("BEGIN { x = 1 ", Chars("+ *"), " 2 }"),     class |-> "syntax",  exact |-> FALSE],
  [t |-> Mark("BEGIN { ", Chars("return"), " 1 }"),        class |-> "syntax",  exact |-> FALSE],
  [t |-> Mark("BEGIN { ", Chars("break"), " }"),           class |-> "syntax",  exact |-> FALSE],
  [t |-> Mark("BEGIN { ", Chars("1 = 2"), " }"),           class |-> "syntax",  exact |-> FALSE],
  [t |-> Mark("BEGIN { y = ", Chars("1 / 0"), " }"),       class |-> "runtime", exact |-> FALSE],
  [t |-> Mark("BEGIN { y = 5; ", Chars("y(1)"), " }"),     class |-> "runtime", exact |-> FALSE],
  [t |-> Mark("BEGIN { z = ", Chars("[1] < 2"), " }"),     class |-> "runtime", exact |-> FALSE],
  [t |-> Mark("BEGIN { print ", Chars("$nope"), " }"),     class |-> "runtime", exact |-> FALSE],
  [t |-> Mark("BEGIN { ", Chars("for (q in 5) print q"), " }"), class |-> "runtime", exact |-> FALSE],
  [t |-> Mark("BEGIN { w = 1; ", Chars("w.k = 2"), " }"),  class |-> "runtime", exact |-> FALSE],
  [t |-> Mark("BEGIN { print ", Chars("'a' ~ '('"), " }"), class |-> "runtime", exact |-> FALSE],
  [t |-> Chars("BEGIN { print 'h") \o E9 \o Chars("', ") \o Mark("", Chars("1 % 0"), " }"), class |-> "runtime", exact |-> FALSE],
  [t |-> Mark("BEGIN { print ", Chars("'a\\q'"), " }"),    class |-> "runtime", exact |-> FALSE],
  [t |-> Mark("BEGIN { ", Chars("printf('%d', 1)"), " }"), class |-> "runtime", exact |-> FALSE],
  [t |-> Mark("BEGIN { y = 5; ", Chars("y /= 0"), " }"),   class |-> "runtime", exact |-> FALSE],
  [t |-> Mark("BEGIN { y = 5; ", Chars("y += 1 / 0"), " }"), class |-> "runtime", exact |-> FALSE],
  [t |-> Mark("BEGIN { q = [1]; print ", Chars("q[0 - 3]"), " }"), class |-> "runtime", exact |-> FALSE],
  [t |-> Mark("BEGIN { o = {}; ", Chars("o.a.b(1)"), " }"), class |-> "runtime", exact |-> FALSE],
  [t |-> Mark("BEGIN { print 1, ", Chars("num()"), " }"),  class |-> "runtime", exact |-> FALSE],
  [t |-> Mark("function g(v) { return ", Chars("v % 0"), " } BEGIN { g(1) }"), class |-> "runtime", exact |-> FALSE],
  [t |-> Mark("BEGIN { print match (1) { 1 => ", Chars("2 / 0"), " } }"), class |-> "runtime", exact |-> FALSE],
  [t |-> Mark("BEGIN { if (", Chars("[1] == 2"), ") print 1 }"), class |-> "runtime", exact |-> FALSE],
  [t |-> Mark("BEGIN { x = [1, 2", Chars("}"), " }"),      class |-> "syntax",  exact |-> TRUE],
  \* illegal characters that are prefixes of legal two-character tokens, also as the last byte of the line
  [t |-> Mark("BEGIN { x = 1 ", Chars("&"), " 2 }"),       class |-> "syntax",  exact |-> TRUE],
  [t |-> Mark("BEGIN { x = 1 ", Chars("|"), " 2 }"),       class |-> "syntax",  exact |-> TRUE],
  [t |-> Mark("BEGIN { x = 1 ", Chars("&"), ""),           class |-> "syntax",  exact |-> TRUE],
  [t |-> Mark("BEGIN { x = 1 ", Chars("|"), ""),           class |-> "syntax",  exact |-> TRUE],
  [t |-> Mark("BEGIN { x = 1 ", Chars("@"), ""),           class |-> "syntax",  exact |-> TRUE],
  [t |-> Mark("BEGIN { x = 1 ", Chars("^"), " 2 }"),       class |-> "syntax",  exact |-> TRUE],
  [t |-> Mark("BEGIN { x = 1 ", Chars("?"), ""),           class |-> "syntax",  exact |-> TRUE],
  [t |-> Mark("", Chars("@"), " BEGIN { x = 1 }"),         class |-> "syntax",  exact |-> TRUE],
  [t |-> Mark("BEGIN { x = 1", Chars("&"), "|2 }"),        class |-> "syntax",  exact |-> TRUE],
  \* the refused call / match at the call depth limit
  [t |-> Mark("function r(n) { return ", Chars("r(n + 1)"), " } BEGIN { r(0) }"), class |-> "runtime", exact |-> FALSE],
  [t |-> Mark("function r(n) { return 1 + ", Chars("r(n + 1)"), " } BEGIN { print 1; r(0) }"), class |-> "runtime", exact |-> FALSE],
  [t |-> Mark("function m(n) { return ", Chars("match (n) { z => m(z + 1) }"), " } BEGIN { m(0) }"), class |-> "runtime", exact |-> FALSE],
  \* faults inside methods and builtins, in later rules, in patterns
  [t |-> Mark("BEGIN { q = [1]; ", Chars("q.push()"), " }"), class |-> "runtime", exact |-> FALSE],
  [t |-> Mark("BEGIN { q = [[1], 2]; print ", Chars("q.contains(2)"), " }"), class |-> "runtime", exact |-> FALSE],
  [t |-> Mark("BEGIN { q = 'a'; print q, ", Chars("q.split()"), " }"), class |-> "runtime", exact |-> FALSE],
  [t |-> Mark("BEGIN { q = 1 } END { print q; ", Chars("q.upper()"), " }"), class |-> "runtime", exact |-> FALSE],
  [t |-> Mark("BEGIN { q = 0 } ", Chars("1 / q"), " { print }"), class |-> "runtime", exact |-> FALSE],
  [t |-> Mark("BEGIN { q = 0 } { print ", Chars("$ % q"), " }"), class |-> "runtime", exact |-> FALSE],
  [t |-> Mark("function g(v) { return v } BEGIN { g(1, ", Chars("2 / 0"), ") }"), class |-> "runtime", exact |-> FALSE],
  [t |-> Mark("BEGIN { q = [1]; q[0] = q; print ", Chars("json(q)"), " }"), class |-> "runtime", exact |-> FALSE],
  [t |-> Mark("BEGIN { q = 5; q = 6; ", Chars("q()"), "; q = 7 }"), class |-> "runtime", exact |-> FALSE],
  [t |-> Mark("BEGIN { q = [1]; q = [2]; for (k in q) { ", Chars("q[0 - 9]"), " } }"), class |-> "runtime", exact |-> FALSE],
  [t |-> Mark("BEGIN { q = 1; q = 2; ", Chars("q < [1]"), " }"), class |-> "runtime", exact |-> FALSE],
  [t |-> Mark("BEGIN { q = 1; ", Chars("q + 1 = 2"), " }"), class |-> "syntax", exact |-> FALSE],
  \* a byte order mark is not part of the language: reported where it stands (which of its bytes is the
  \* illegal one is the lexer's business)
  [t |-> Mark("", <<"EF", "BB", "BF">>, "BEGIN { x = 1 }"), class |-> "syntax", exact |-> FALSE],
  [t |-> Mark("BEGIN { x = 1 } ", <<"EF", "BB", "BF">>, ""), class |-> "syntax", exact |-> FALSE],
  \* faults in the patterns of a match (not in its arms): at the pattern
  [t |-> Mark("BEGIN { x = match (1) { ", Chars("'two\\z'"), " => 1 } }"), class |-> "runtime", exact |-> FALSE],
  [t |-> Mark("BEGIN { x = match (1) { 0 => 1, ", Chars("-1"), " => 2, _ => 3 } }"), class |-> "runtime", exact |-> FALSE],
  [t |-> Mark("BEGIN { x = match (1) { 0 => 1, ", Chars("1 + 1"), " => 2 } }"), class |-> "runtime", exact |-> FALSE],
  [t |-> Mark("BEGIN { x = match ([1]) { ", Chars("5"), " => 1 } }"), class |-> "runtime", exact |-> FALSE],
  [t |-> Mark("BEGIN { x = match ([[1]]) { [", Chars("'a'"), "] => 1 } }"), class |-> "runtime", exact |-> FALSE],
  \* the refusal at the depth limit when the refused frame is that of a match arm (entered through 0, 1, 2 calls)
  [t |-> Mark("function w(n) { return m(n) } function m(n) { return ", Chars("match (n) { z => m(z + 1) }"), " } BEGIN { w(0) }"), class |-> "runtime", exact |-> FALSE],
  [t |-> Mark("function v(n) { return w(n) } function w(n) { return m(n) } function m(n) { return ", Chars("match (n) { z => m(z + 1) }"), " } BEGIN { v(0) }"), class |-> "runtime", exact |-> FALSE],
  [t |-> Mark("function m(n) { return ", Chars("match (n) { z => match (z) { y => m(y + 1) } }"), " } BEGIN { m(0) }"), class |-> "runtime", exact |-> FALSE],
  [t |-> Mark("function w(n) { return m(n) } function m(n) { return ", Chars("match (n) { z => match (z) { y => m(y + 1) } }"), " } BEGIN { w(0) }"), class |-> "runtime", exact |-> FALSE],
  [t |-> Mark("function m(n) { ", Chars("match (n) { z => { return m(z + 1) } }"), " } BEGIN { x = 1 + m(0) }"), class |-> "runtime", exact |-> FALSE],
  \* a call that fails after its arguments ran other calls (also calls made inside the callee of an argument)
  [t |-> Mark("function w(s) { n = s.length(); return n } BEGIN { q = 5; ", Chars("q(w('a'))"), " }"), class |-> "runtime", exact |-> FALSE],
  [t |-> Mark("function w(s) { n = s.length(); return n } BEGIN { q = 'a,b'; print ", Chars("q.split(w('a'))"), " }"), class |-> "runtime", exact |-> FALSE],
  [t |-> Mark("function w(s) { return num(s) } BEGIN { print ", Chars("printf('%s %s', w('1'))"), " }"), class |-> "runtime", exact |-> FALSE],
  [t |-> Mark("function w(s) { return s.upper().lower() } BEGIN { q = [1]; print ", Chars("q.push(w('a'), w('b'))"), " }"), class |-> "runtime", exact |-> FALSE],
  [t |-> Mark("function w(s) { return s } BEGIN { print w(w(", Chars("nosuch(w(1))"), ")) }"), class |-> "runtime", exact |-> FALSE],
  \* an argument that cannot be passed; a malformed number; a line with tabs
  [t |-> Mark("function w(s) { return 1 } BEGIN { q = 'a'; x = w(", Chars("q.length"), ") }"), class |-> "runtime", exact |-> FALSE],
  [t |-> Mark("function w(s, t) { return 1 } BEGIN { x = w('s', ", Chars("printf"), ") }"), class |-> "runtime", exact |-> FALSE],
  [t |-> Mark("BEGIN { x = ", Chars("10.0.0.17"), " ; print x }"), class |-> "runtime", exact |-> FALSE],
  [t |-> Mark("BEGIN { x = [1, ", Chars("1..5"), ", 2] }"), class |-> "runtime", exact |-> FALSE],
  [t |-> <<"09">> \o Chars("BEGIN {") \o <<"09">> \o Chars("y = 5;") \o <<"09", "LO">> \o Chars("y(1)") \o <<"HI">> \o Chars(" }"), class |-> "runtime", exact |-> FALSE],
  [t |-> <<"09", "09">> \o Chars("BEGIN { x = ") \o <<"LO">> \o Chars("@") \o <<"HI", "09">> \o Chars("}"), class |-> "syntax", exact |-> TRUE]
>>

VARIABLES pre, fi, post, lastNL, done
vars == <<pre, fi, post, lastNL, done>>

\* two phases (Init: fault and lines before; Next: lines after) so that the
\* evaluation is spread over TLC's workers
\* faults from index LeanFrom on run with at most one filler line before (the catalogue grew; the first
\* entries keep the full set of surroundings)
Init == /\ fi \in 1..Len(Faults)
        /\ pre \in SeqsUpTo(1..Len(Fillers), IF fi >= LeanFrom THEN 1 ELSE MaxPre)
        /\ post = <<>> /\ lastNL = FALSE /\ done = FALSE
Next == /\ ~done /\ done' = TRUE
        /\ post' \in SeqsUpTo(1..Len(Fillers), MaxPost)
        /\ lastNL' \in BOOLEAN
        /\ UNCHANGED <<pre, fi>>

\* the fault line: for a line with two marked spans only the last counts
StripTo(t) == SelectSeq(t, LAMBDA b : b \notin {"LO", "HI"})
IdxLast(t, m) == SetMax({i \in 1..Len(t) : t[i] = m})
\* offset (0-based) of marker occurrence i in the stripped line = number of non-marker bytes before it
OffOf(t, i) == Cardinality({j \in 1..(i-1) : t[j] \notin {"LO", "HI"}})

LineText(i) == Fillers[i] \o <<NL>>
Prog ==
  LET f == Faults[fi].t
      before == FlattenSeq([k \in 1..Len(pre) |-> LineText(pre[k])])
      after == FlattenSeq([k \in 1..Len(post) |-> LineText(post[k])])
      body == before \o StripTo(f) \o (IF Len(post) > 0 \/ lastNL THEN <<NL>> ELSE <<>>) \o
              (IF Len(post) = 0 THEN <<>> ELSE
                 IF lastNL THEN after ELSE SubSeq(after, 1, Len(after) - 1))
      lo == Len(before) + OffOf(f, IdxLast(f, "LO"))
      hi == Len(before) + OffOf(f, IdxLast(f, "HI"))
  IN [text |-> body, lo |-> lo, hi |-> hi]

Vec == done =>
  LET P == Prog IN
  Emit([text |-> P.text, class |-> Faults[fi].class, exact |-> Faults[fi].exact,
        line |-> LineOf(P.text, P.lo), src |-> SrcLineOf(P.text, P.lo),
        collo |-> ColOf(P.text, P.lo), colhi |-> ColOf(P.text, P.lo) + (P.hi - P.lo),
        fault |-> fi])

\* spec-level sanity: the span lies within one line, which is line Len(pre)+1
Laws == done =>
  LET P == Prog IN
  /\ LineOf(P.text, P.lo) = Len(pre) + 1
  /\ LineOf(P.text, P.hi - 1) = Len(pre) + 1
  /\ P.lo < P.hi
  /\ SrcLineOf(P.text, P.lo) = Lines(P.text)[Len(pre) + 1]
=============================================================================
