--------------------------- MODULE MC_AssignTarget ---------------------------
(* C11, syntax half, assignment targets: "assignment to a non-assignable      *)
(* target" is a syntax error.  The grammar (JqParse, DESIGN 3.9) allows a      *)
(* variable, a member or an index as the target of = += -= *= /=.  Every      *)
(* left-hand side of a catalogue (assignable and not) x every assignment      *)
(* operator x several surrounding contexts is parsed with JqParse.ParseExpr;  *)
(* TLC checks that the grammar refuses exactly the non-assignable ones (with  *)
(* InvalidAssignmentTarget) and emits each text with that verdict.            *)
EXTENDS JqParse

I(x) == Tok("Ident", x)
N(x) == Tok("Num", x)
S(x) == Tok("Str", x)
P(x) == Tok("Prim", x)

\* <<tokens, is the tree assignable>>
Lhs == {
  <<<<N("1")>>, FALSE>>, <<<<S("s")>>, FALSE>>, <<<<Tok("true", "true")>>, FALSE>>, <<<<Tok("null", "null")>>, FALSE>>,
  <<<<Sym("["), N("1"), Sym("]")>>, FALSE>>,
  <<<<Sym("-"), I("a")>>, FALSE>>, <<<<Sym("!"), I("a")>>, FALSE>>,
  <<<<I("f"), Sym("("), Sym(")")>>, FALSE>>,
  <<<<I("a"), Sym("+"), I("b")>>, FALSE>>,
  <<<<Sym("("), I("a"), Sym("+"), I("b"), Sym(")")>>, FALSE>>,
  <<<<I("a"), Sym("."), I("x"), Sym("("), Sym(")")>>, FALSE>>,
  <<<<I("a"), Sym("=="), I("b")>>, FALSE>>,
  <<<<I("a"), Sym("*"), N("2")>>, FALSE>>,
  <<<<P("match (1) { 1 => a }")>>, FALSE>>, <<<<P("match (b) { 2 => a, _ => b }")>>, FALSE>>, <<<<Sym("("), P("match (1) { 1 => a }"), Sym(")")>>, FALSE>>,
  <<<<P("{k: 1}")>>, FALSE>>, <<<<P("{}")>>, FALSE>>, <<<<P("/re/")>>, FALSE>>, <<<<P("a++")>>, FALSE>>, <<<<P("a--")>>, FALSE>>, <<<<P("a.x++")>>, FALSE>>,
  <<<<Sym("+"), I("a")>>, FALSE>>, <<<<Sym("-"), Sym("-"), I("a")>>, FALSE>>,
  <<<<I("a"), Sym("is"), I("number")>>, FALSE>>, <<<<I("a"), Sym("~"), S("x")>>, FALSE>>, <<<<I("a"), Sym("&&"), I("b")>>, FALSE>>,
  <<<<I("a"), Sym("||"), I("b")>>, FALSE>>, <<<<I("a"), Sym("<"), I("b")>>, FALSE>>, <<<<I("a"), Sym("%"), I("b")>>, FALSE>>,
  <<<<I("a"), Sym("["), N("0"), Sym("]"), Sym("("), Sym(")")>>, FALSE>>, <<<<Sym("["), Sym("]")>>, FALSE>>,
  <<<<I("a"), Sym("."), I("x"), Sym("."), I("length"), Sym("("), Sym(")")>>, FALSE>>,
  <<<<P("match (1) { 1 => a }"), Sym("."), I("x")>>, TRUE>>, <<<<Sym("("), P("{k: 1}"), Sym(")"), Sym("["), S("k"), Sym("]")>>, TRUE>>,
  <<<<Sym("["), N("1"), Sym("]"), Sym("["), N("0"), Sym("]")>>, TRUE>>,
  <<<<I("a")>>, TRUE>>, <<<<I("a"), Sym("."), I("x")>>, TRUE>>, <<<<I("a"), Sym("["), N("0"), Sym("]")>>, TRUE>>,
  <<<<Sym("("), I("a"), Sym(")")>>, TRUE>>,
  <<<<I("a"), Sym("."), I("x"), Sym("["), N("1"), Sym("]"), Sym("."), I("y")>>, TRUE>>,
  <<<<I("f"), Sym("("), Sym(")"), Sym("."), I("x")>>, TRUE>>
}

\* surrounding contexts: <<tokens before, tokens after>>
Ctx == {
  <<<<>>, <<>>>>,
  <<<<I("z"), Sym("="), Sym("(")>>, <<Sym(")")>>>>,
  <<<<I("f"), Sym("(")>>, <<Sym(")")>>>>,
  <<<<Sym("["), N("7"), Sym(",")>>, <<Sym("]")>>>>,
  <<<<I("z"), Sym("=")>>, <<>>>>
}

VARIABLES lhs, op, cx, done
Init == lhs \in Lhs /\ op = "=" /\ cx = <<<<>>, <<>>>> /\ done = FALSE
Next == ~done /\ done' = TRUE /\ op' \in AssignOps /\ cx' \in Ctx /\ UNCHANGED lhs

Toks == cx[1] \o lhs[1] \o <<Sym(op), N("3")>> \o cx[2]
Tree == ParseExpr(Toks)
Refused == Tree.k = "error"

\* the grammar refuses exactly the non-assignable targets, and for that reason
\* (in the context `z = LHS op 3` the target of the inner assignment is LHS only when LHS
\* binds tighter than =, which holds for every catalogue entry: the law shows it)
Law == done => /\ (lhs[2] => ~Refused)
               /\ (~lhs[2] => Refused /\ Tree.v = "InvalidAssignmentTarget")
Vec == done => Emit([toks |-> Toks, refused |-> Refused])
=============================================================================
