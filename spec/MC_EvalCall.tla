---------------------------- MODULE MC_EvalCall ----------------------------
(* C08: call configurations.  A pattern rule over two elements sets two     *)
(* globals, calls fn1 with 0..3 arguments and then calls chk(), which shows *)
(* every name of interest from inside its own frame.  fn1's body is every   *)
(* sequence of BodyLen statements from a pool covering: parameter use and   *)
(* mutation, locals first created in the callee, assignment to existing     *)
(* globals, every form of return (from loops / conditionals / match         *)
(* bodies), recursion, mutual recursion (fn2), next / exit / a fault inside *)
(* the callee, match with block and expression bodies and their bindings.   *)
EXTENDS JqEval
CONSTANTS BodyLen, ArgSets, ParamSets

V(n) == [k |-> "var", n |-> n]
N(i) == [k |-> "num", v |-> i]
Show(n) == [k |-> "show", n |-> n]
Set(n, e) == [k |-> "set", n |-> n, e |-> e]
Ret(e) == [k |-> "return", e |-> e]
If(s) == [k |-> "if", c |-> "o", th |-> s, el |-> NoStmt]
Call(f, args) == [k |-> "call", f |-> f, args |-> args]
CallS(f, args) == [k |-> "callstmt", f |-> f, args |-> args]
Block(b) == [k |-> "block", b |-> b]

BodyPool ==
  {Show("p"), Show("q"), Set("p", N(7)), Set("loc", N(5)), Set("g", N(9)), Set("a", N(8)),
   Ret(V("p")), Ret(NoStmt), Ret(N(6)), Ret(V("loc")),
   If(Ret(V("p"))),
   [k |-> "while", c |-> "o", b |-> Ret(V("q"))],
   [k |-> "forin", kind |-> "arr", n |-> 2, two |-> FALSE, b |-> Ret(N(6))],
   [k |-> "matchstmt", subj |-> V("p"), bind |-> "m", b |-> Ret(V("m"))],
   [k |-> "matchstmt", subj |-> V("p"), bind |-> "m", b |-> Show("m")],
   If(Set("r2", Call(1, <<V("p")>>))),
   If(CallS(2, <<V("p")>>)),
   [k |-> "next"], [k |-> "exit"], [k |-> "fault"],
   Set("loc2", [k |-> "match", subj |-> V("p"), bind |-> "m", body |-> V("m")]),
   \* an expression-bodied match left abnormally: its body calls a function that executes next / returns from a loop
   Set("loc2", [k |-> "match", subj |-> V("p"), bind |-> "m", body |-> Call(4, <<>>)]),
   Set("loc2", [k |-> "match", subj |-> V("p"), bind |-> "m", body |-> Call(5, <<V("m")>>)]),
   Show("m"), Show("loc"), Show("g"),
   \* a parameter that has the name of an existing global, used from a deeper frame of the same
   \* activation (a match body): it is the parameter that is read and assigned, the global stays
   [k |-> "matchstmt", subj |-> V("p"), bind |-> "m", b |-> Show("g")],
   [k |-> "matchstmt", subj |-> V("p"), bind |-> "m", b |-> Set("g", V("m"))],
   [k |-> "matchstmt", subj |-> V("g"), bind |-> "m", b |-> Block(<<Set("g", N(7)), Show("g")>>)]}

MN == [k |-> "membnull"]    \* gobj.k, a member the global object does not have: passed as null, by value
Args == CASE ArgSets = "few" -> {<<>>, <<V("a")>>, <<V("a"), N(4), N(5)>>, <<MN>>}
          [] OTHER -> {<<>>, <<V("a")>>, <<V("a"), N(4)>>, <<V("a"), N(4), N(5)>>, <<N(2)>>, <<MN>>, <<V("a"), MN>>}
Pars == CASE ParamSets = "few" -> {<<"p">>, <<"p", "q">>, <<"p", "g">>}
          [] OTHER -> {<<>>, <<"p">>, <<"p", "q">>, <<"p", "g">>, <<"g">>}

Fn2 == [params |-> <<"p">>, body |-> Block(<<Show("p"), If(Set("x2", Call(1, <<V("p")>>))), Ret(N(4))>>)]
Fn4 == [params |-> <<>>, body |-> Block(<<[k |-> "next"]>>)]
Fn5 == [params |-> <<"w">>, body |-> Block(<<[k |-> "forin", kind |-> "arr", n |-> 2, two |-> FALSE, b |-> Ret(V("w"))], Ret(N(0))>>)]
Chk == [params |-> <<>>, body |-> Block(<<[k |-> "showg"], Show("a"), Show("r"), Show("g"), Show("p"), Show("q"),
                                          Show("loc"), Show("loc2"), Show("m"), Show("r2"), Show("x2")>>)]

Main(args) == Block(<<Set("g", N(1)), Set("a", N(3)), Set("r", Call(1, args)), CallS(3, <<>>)>>)

\* two phases: Init picks parameters, arguments and the first statement; Next the rest
VARIABLES first, pars, args, built
mcvars == <<first, pars, args, built>>

Bodies(n) == [1..n -> BodyPool]

MCInit ==
  /\ first \in BodyPool /\ pars \in Pars /\ args \in Args /\ built = FALSE
  /\ InitFor([fns |-> <<>>, rules |-> <<>>, n |-> 0])

Build ==
  /\ ~built /\ built' = TRUE
  /\ \E rest \in Bodies(BodyLen - 1) :
       LET body == Block(<<first>> \o rest)
           p == [fns |-> <<[params |-> pars, body |-> body], Fn2, Chk, Fn4, Fn5>>,
                 rules |-> << [kind |-> "P", body |-> Main(args)], [kind |-> "E", body |-> [k |-> "print"]] >>,
                 n |-> 2]
       IN /\ prog' = p
          /\ sched' = ScheduleOf(p)
  /\ UNCHANGED <<first, pars, args, si, ctl, frames, sig, retval, out, conds, trues, outcome, open>>

MCNext == \/ Build
          \/ built /\ Next /\ UNCHANGED mcvars

\* the run proper has not started before Build: keep Finish from firing on the empty program
Ready == built

Vec == (built /\ outcome # "running") =>
  Emit([prog |-> prog, conds |-> conds, out |-> out, outcome |-> outcome, open |-> open])

\* C08 laws on the spec (every reachable state)
\* a finished call leaves nothing behind: after chk() returned at the base, no name of the
\* callee (parameters, locals, match bindings) is in the root frame
ScopeExit ==
  (built /\ ctl = <<>> /\ ~open) =>
     DOMAIN frames[1].vars \subseteq {"g", "a", "r"}
=============================================================================
