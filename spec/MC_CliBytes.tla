---------------------------- MODULE MC_CliBytes ----------------------------
(* C14: the wrapper is a pipe for every text it carries.  MC_Cli treats the  *)
(* program, the selectors, the inputs and the library's output as opaque;    *)
(* here one of them holds a byte sequence: every sequence of length <=       *)
(* MaxLen over Bytes (the bytes a formatting, quoting, splitting or newline- *)
(* normalising step of a front end would treat specially) x every channel x  *)
(* the command-line shapes in which that channel matters.  TLC checks the    *)
(* step-level properties of JqCli, Transparent (the library is called with   *)
(* the text unchanged) and the relational laws, and emits one vector per     *)
(* (command line, library result).                                           *)
EXTENDS JqCli

CONSTANTS MaxLen

\* %, a verb letter; CR, LF, TAB, blank; the quote and the escape of both languages; the two bytes of U+00E9
\* (in order: valid UTF-8, alone: not); the characters command lines are split at; the one JSON encoders escape
Bytes == {"%", "d", CR, NL, TAB, " ", "\"", "\\", "C3", "A9", ",", "-", "<"}
Texts == SeqsUpTo(Bytes, MaxLen)

\* the command-line shapes in which a channel is exercised
ShapesOf(ch) ==
  LET base == [progVia |-> "inline", nfiles |-> 1, nsel |-> 0, out |-> "none", badProg |-> FALSE, badAt |-> 0, badKind |-> "none"] IN
  CASE ch \in {"prog-str", "prog-re", "prog-ws", "prog-cmt"} ->
         {[base EXCEPT !.progVia = v, !.out = o] : v \in {"inline", "file"}, o \in {"none", "path"}}
    [] ch \in {"input-str", "input-ws"} ->
         {[base EXCEPT !.nfiles = n, !.out = o] : n \in {0, 1}, o \in {"none", "dash"}}
    [] ch \in {"doc-val", "doc-key"} ->
         {[base EXCEPT !.nfiles = n, !.out = o] : n \in {0, 1}, o \in {"none", "dash", "path"}}
    [] ch = "sel" -> {[base EXCEPT !.nsel = 1, !.out = o] : o \in {"none", "dash"}}
    [] ch = "fname" -> {base}

WithText(c, ch, t) == [progVia |-> c.progVia, nfiles |-> c.nfiles, nsel |-> c.nsel, out |-> c.out, badProg |-> c.badProg,
                       badAt |-> c.badAt, badKind |-> c.badKind, text |-> [chan |-> ch, bytes |-> t]]
Plain(c) == [progVia |-> c.progVia, nfiles |-> c.nfiles, nsel |-> c.nsel, out |-> c.out, badProg |-> c.badProg,
             badAt |-> c.badAt, badKind |-> c.badKind]

VARIABLE picked      \* the channel was chosen, the text is chosen next (two phases: see BUILDING.md)
bvars == <<cvars, picked>>

Init == \E ch \in InChans \cup OutChans : \E c \in ShapesOf(ch) : Start(WithText(c, ch, <<>>)) /\ picked = FALSE
PickText ==
  /\ ~picked /\ pc = "parse"
  /\ \E t \in Texts : cfg' = [cfg EXCEPT !.text.bytes = t]
  /\ picked' = TRUE
  /\ UNCHANGED <<pc, opened, lib, calls, stdout, stderr, outfile, status>>
Next == PickText \/ (picked /\ (\E r \in LibResults : CliNext(r)) /\ UNCHANGED picked)
Spec == Init /\ [][Next]_bvars

\* the laws of the function, with the text as part of the command line
SameShapes(c) == {WithText(d, c.text.chan, c.text.bytes) : d \in ShapesOf(c.text.chan)}
Laws ==
  (picked /\ pc = "parse") =>
     /\ LawProgVia(SameShapes(cfg)) /\ LawStdin(SameShapes(cfg)) /\ LawOutPath(SameShapes(cfg)) /\ LawErrors(SameShapes(cfg))
     \* the text is no part of what the wrapper itself decides: the result is that of the same shape without it
     /\ \A r \in LibResults :
          LET a == Result(cfg, r) b == Result(Plain(cfg), r) IN
          /\ a.status0 = b.status0 /\ a.diag = b.diag /\ a.stdout = b.stdout /\ a.outfile = b.outfile
          /\ Len(a.calls) = Len(b.calls)
          /\ \A k \in 1..Len(a.calls) : a.calls[k].text = cfg.text

\* every channel x every text is there, in every shape of the channel
Complete ==
  (picked /\ pc = "parse") =>
     /\ cfg.text.bytes \in Texts /\ Plain(cfg) \in ShapesOf(cfg.text.chan)
     /\ Cardinality(InChans \cup OutChans) = 10

Vec ==
  (pc = "exit" /\ status # -1) =>
    Emit([cfg |-> Plain(cfg), chan |-> cfg.text.chan, bytes |-> cfg.text.bytes, lib |-> lib, evaluated |-> Len(calls) = 1,
          libtext |-> (IF Len(calls) = 1 THEN calls[1].text.bytes ELSE <<>>),
          status0 |-> status = 0, diag |-> stderr # <<>>, stdout |-> stdout, outfile |-> outfile])
=============================================================================
