---------------------------- MODULE MC_CliBytes ----------------------------
(* C14: the wrapper is a pipe for every text it carries.  MC_Cli treats the  *)
(* program, the selectors, the inputs and the library's output as opaque;    *)
(* here one of them holds a byte sequence: every sequence of length <=       *)
(* MaxLen over Bytes (the bytes a formatting, quoting, splitting or newline- *)
(* normalising step of a front end would treat specially) x every channel x  *)
(* the command-line shapes in which that channel matters.  TLC checks the    *)
(* step-level properties of JqCli, Transparent (the library is called with   *)
(* the text unchanged) and the relational laws, and emits one vector per     *)
(* (command line, library result).                                           *)
EXTENDS JqCli

CONSTANTS MaxLen

\* %, a verb letter; CR, LF, TAB, blank; the quote and the escape of both languages; the two bytes of U+00E9
\* (in order: valid UTF-8, alone: not); the characters command lines are split at; the one JSON encoders escape
Bytes == {"%", "d", CR, NL, TAB, " ", "\"", "\\", "C3", "A9", ",", "-", "<"}
\* signatures a loader might recognise and skip or act on: the byte-order marks of UTF-8, UTF-16 BE and LE.
\* A text is a sequence of UNITS (a byte or a whole mark), so that a mark, a mark after / before any byte and
\* two marks are among the texts of length <= 2.
Marks == {<<"EF", "BB", "BF">>, <<"FE", "FF">>, <<"FF", "FE">>}
ByteUnits == {<<b>> : b \in Bytes}
\* marks travel where bytes are loaded from a file or a pipe: the input and the program text
MarkChans == EdgeChans \cup {"input-str", "input-ws", "prog-cmt"}
UnitsOf(ch) == IF ch \in MarkChans THEN ByteUnits \cup Marks ELSE ByteUnits
TextsOf(ch) == {FlattenSeq(us) : us \in SeqsUpTo(UnitsOf(ch), MaxLen)}

\* the command-line shapes in which a channel is exercised
ShapesOf(ch) ==
  LET base == [progVia |-> "inline", nfiles |-> 1, same |-> FALSE, nsel |-> 0, out |-> "none", badProg |-> FALSE, badAt |-> 0, badKind |-> "none"] IN
  CASE ch \in {"prog-str", "prog-re", "prog-ws", "prog-cmt", "prog-head", "prog-tail"} ->
         {[base EXCEPT !.progVia = v, !.out = o] : v \in {"inline", "file"}, o \in {"none", "path"}}
    \* the whole program: also with input on stdin (what is no program text must not be taken for one, nor an
    \* argument for the program) and with the document printed
    [] ch = "prog-all" ->
         {[base EXCEPT !.progVia = v, !.nfiles = n, !.out = o] : v \in {"inline", "file"}, n \in {0, 1}, o \in {"none", "dash", "path"}}
    [] ch \in {"input-str", "input-ws", "input-tail"} ->
         {[base EXCEPT !.nfiles = n, !.out = o] : n \in {0, 1}, o \in {"none", "dash"}}
    \* the beginning of an input: also of the second of two files
    [] ch = "input-head" ->
         {[base EXCEPT !.nfiles = n, !.out = o] : n \in {0, 1}, o \in {"none", "dash"}}
         \cup {[base EXCEPT !.nfiles = 2], [base EXCEPT !.nfiles = 2, !.same = TRUE]}
    [] ch \in {"doc-val", "doc-key"} \cup RawOutChans ->
         {[base EXCEPT !.nfiles = n, !.out = o] : n \in {0, 1}, o \in {"none", "dash", "path"}}
    [] ch = "sel" -> {[base EXCEPT !.nsel = 1, !.out = o] : o \in {"none", "dash"}}
    [] ch = "fname" -> {base}

WithText(c, ch, t) == [progVia |-> c.progVia, nfiles |-> c.nfiles, same |-> c.same, nsel |-> c.nsel, out |-> c.out, badProg |-> c.badProg,
                       badAt |-> c.badAt, badKind |-> c.badKind, text |-> [chan |-> ch, bytes |-> t]]
Plain(c) == [progVia |-> c.progVia, nfiles |-> c.nfiles, same |-> c.same, nsel |-> c.nsel, out |-> c.out, badProg |-> c.badProg,
             badAt |-> c.badAt, badKind |-> c.badKind]

\* the same command line with an earlier result in the -o path
WithStale(c) == [x \in DOMAIN c \cup {"pre"} |-> IF x = "pre" THEN "stale" ELSE c[x]]

VARIABLE picked      \* the channel was chosen, the text is chosen next (two phases: see BUILDING.md)
bvars == <<cvars, picked>>

Init == \E ch \in InChans \cup OutChans : \E c \in ShapesOf(ch) : Start(WithText(c, ch, <<>>)) /\ picked = FALSE
PickText ==
  /\ ~picked /\ pc = "parse"
  /\ \E t \in TextsOf(cfg.text.chan) : cfg' = [cfg EXCEPT !.text.bytes = t]
  /\ picked' = TRUE
  /\ UNCHANGED <<pc, opened, lib, calls, stdout, stderr, outfile, status>>
Next == PickText \/ (picked /\ (\E r \in LibResults : CliNext(r)) /\ UNCHANGED picked)
Spec == Init /\ [][Next]_bvars

\* the laws of the function, with the text as part of the command line
SameShapes(c) == {WithText(d, c.text.chan, c.text.bytes) : d \in ShapesOf(c.text.chan)}
Laws ==
  (picked /\ pc = "parse") =>
     /\ LawProgVia(SameShapes(cfg)) /\ LawStdin(SameShapes(cfg)) /\ LawOutPath(SameShapes(cfg)) /\ LawErrors(SameShapes(cfg))
     /\ LawOutBytes(SameShapes(cfg)) /\ LawSamePath(SameShapes(cfg))
     \* the text is no part of what the wrapper itself decides: the result is that of the same shape without it
     /\ \A r \in LibResults :
          LET a == Result(cfg, r) b == Result(Plain(cfg), r) IN
          /\ a.status0 = b.status0 /\ a.diag = b.diag /\ a.stdout = b.stdout /\ a.outfile = b.outfile
          /\ Len(a.calls) = Len(b.calls)
          /\ \A k \in 1..Len(a.calls) : a.calls[k].text = cfg.text

\* every channel x every text is there, in every shape of the channel
Complete ==
  \* a mark alone, and a text whose last byte is no newline, are among the texts of the channels they are meant for
  /\ ~picked => LET ch == cfg.text.chan IN
                 /\ ch \in MarkChans => \A m \in Marks : m \in TextsOf(ch)
                 /\ ch \in RawOutChans => \E t \in TextsOf(ch) : t # <<>> /\ t[Len(t)] # NL
  /\ (picked /\ pc = "parse") =>
     /\ cfg.text.bytes \in TextsOf(cfg.text.chan) /\ Plain(cfg) \in ShapesOf(cfg.text.chan)
     /\ Cardinality(InChans \cup OutChans) = 18
     /\ <<>> \in TextsOf("prog-all")

Vec ==
  (pc = "exit" /\ status # -1) =>
    Emit([cfg |-> Plain(cfg), chan |-> cfg.text.chan, bytes |-> cfg.text.bytes, lib |-> lib, evaluated |-> Len(calls) = 1,
          libtext |-> (IF Len(calls) = 1 THEN calls[1].text.bytes ELSE <<>>),
          \* the bytes stdout must hold: "<lib>" / "<json>" stand for the library's output / the document
          stream |-> StreamOf(cfg, stdout),
          status0 |-> status = 0, diag |-> stderr # <<>>, stdout |-> stdout, outfile |-> outfile,
          \* what the -o path holds afterwards when an earlier result was in it (the function Result: it agrees with
          \* the steps in every command line of MC_Cli, among them those with pre = "stale")
          outfileStale |-> Result(WithStale(cfg), lib).outfile])
=============================================================================
