----------------------------- MODULE JqProto -----------------------------
(* The frame / signal / rule protocol of one jqawk run, as observed through *)
(* the verif hooks (Push Pop Rule Pattern Element Raise Consume Decoded),   *)
(* the stdout writer (Write) and the driver (Start, Outcome).  This is the  *)
(* abstraction of JqEval that holds for EVERY program, not only those in    *)
(* JqEval's small AST: it is what recorded executions of arbitrary          *)
(* generated programs are validated against (C01, C08, C11; DESIGN 2.2 B).  *)
(*                                                                          *)
(*  stack   frame names above the root, innermost first                     *)
(*  pend    a control signal that has been raised and not yet consumed:     *)
(*          "none" | "return" | "next" | "exit"  (break / continue are      *)
(*          consumed by loops without a hook and are not tracked)           *)
(*  skipP   next was consumed for the current element: no pattern rule may  *)
(*          start before the next element / value / non-pattern rule        *)
(*  wrote   something has been written to stdout in this run                *)
(*  rules   a rule has started in this run                                  *)
(*  phase   "idle" (before Start) | "run" | "over" (after Outcome)          *)
(*  cur     kind of the rule started last ("" before the first)             *)
EXTENDS JqUtil

VARIABLES stack, pend, skipP, wrote, rules, phase, cur
pvars == <<stack, pend, skipP, wrote, rules, phase, cur>>

Depth == Len(stack)

PInit == /\ stack = <<>> /\ pend = "none" /\ skipP = FALSE
         /\ wrote = FALSE /\ rules = FALSE /\ phase = "idle" /\ cur = ""

Start ==
  /\ phase \in {"idle", "over"}
  /\ stack' = <<>> /\ pend' = "none" /\ skipP' = FALSE /\ wrote' = FALSE /\ rules' = FALSE
  /\ phase' = "run" /\ cur' = ""

\* pushFrame: only while no signal is propagating; the hook reports the new depth
PushF(name, d) ==
  /\ phase = "run" /\ pend = "none"
  /\ d = Depth + 1
  /\ stack' = <<name>> \o stack
  /\ UNCHANGED <<pend, skipP, wrote, rules, phase, cur>>

\* popFrame: a pending `return` is consumed by the function frame it leaves
\* (not by a <match> frame, which every signal passes through)
PopF(d) ==
  /\ phase = "run" /\ Depth > 0
  /\ d = Depth - 1
  /\ stack' = Tail(stack)
  /\ pend' = IF pend = "return" /\ Head(stack) # "<match>" THEN "none" ELSE pend
  /\ UNCHANGED <<skipP, wrote, rules, phase, cur>>

Refuse == phase = "run" /\ pend = "none" /\ UNCHANGED pvars

\* a rule (or a pattern test) starts: nothing pending, only the root frame exists
RuleStart(kind, d) ==
  /\ phase = "run" /\ pend = "none"
  /\ d = 0 /\ Depth = 0
  /\ kind = "P" => ~skipP
  /\ skipP' = IF kind = "P" THEN skipP ELSE FALSE
  /\ rules' = TRUE /\ cur' = kind
  /\ UNCHANGED <<stack, pend, wrote, phase>>

PatternTested == phase = "run" /\ pend = "none" /\ Depth = 0 /\ UNCHANGED pvars

NewElement(d) ==
  /\ phase = "run" /\ pend = "none" /\ d = 0 /\ Depth = 0
  /\ skipP' = FALSE
  /\ UNCHANGED <<stack, pend, wrote, rules, phase, cur>>

\* a new JSON value was decoded, or the round for the next selected root begins
NewValue ==
  /\ phase = "run" /\ pend = "none" /\ Depth = 0
  /\ skipP' = FALSE
  /\ UNCHANGED <<stack, pend, wrote, rules, phase, cur>>

\* evalStatement raises a signal: none may be pending already
RaiseSig(sg, d) ==
  /\ phase = "run" /\ pend = "none" /\ d = Depth
  /\ pend' = IF sg \in {"break", "continue"} THEN "none" ELSE sg
  /\ UNCHANGED <<stack, skipP, wrote, rules, phase, cur>>

\* a rule driver consumes `next` (with every frame above the root released)
ConsumeNext(d) ==
  /\ phase = "run" /\ pend = "next" /\ d = 0 /\ Depth = 0
  /\ pend' = "none" /\ skipP' = (cur = "P")
  /\ UNCHANGED <<stack, wrote, rules, phase, cur>>

\* stdout is written only while no signal propagates
Wrote ==
  /\ phase = "run" /\ pend = "none"
  /\ wrote' = TRUE
  /\ UNCHANGED <<stack, pend, skipP, rules, phase, cur>>

\* the run ends: success or one of the three error kinds; never with a
\* pending return; a pending next only as a runtime error; success at the base
\* frame.  parses: the program text itself has no syntax error (a root selector
\* is parsed when it is first used, so its syntax error may come later).  A
\* program with a syntax error anywhere yields a syntax error and nothing else
\* (C11): no rule started, nothing written.
Outcome(class, parses) ==
  /\ phase = "run"
  /\ class \in {"ok", "syntax", "runtime", "json"}
  /\ pend = "return" => FALSE
  /\ pend = "next" => class = "runtime"
  /\ pend = "exit" => class \in {"ok", "runtime"}
  /\ class = "ok" => Depth = 0
  /\ ~parses => class = "syntax" /\ ~wrote /\ ~rules /\ Depth = 0
  /\ phase' = "over"
  /\ UNCHANGED <<stack, pend, skipP, wrote, rules, cur>>
=============================================================================
