---------------------------- MODULE MC_JsonChunk ----------------------------
(* C04 (vii): "equal to the input as read ... all string escapes and          *)
(* non-ASCII text", for a code point that lies ACROSS A READ BOUNDARY of the  *)
(* input: the document reaches the JSON reader in pieces (the reader's own    *)
(* buffer refills, or short reads of a pipe), and where the pieces meet is    *)
(* no property of the document.                                               *)
(*                                                                            *)
(* Two sources of boundaries:                                                 *)
(*   "refill"  the whole text is available; the reader (json.Decoder.refill)  *)
(*             fills a buffer of capacity cap and, when less than MinRead     *)
(*             bytes are free, moves to one of 2*cap + MinRead.  The           *)
(*             transition system below follows the refills; the offset at     *)
(*             which refill k+1 starts is a boundary (512, 1536, 3584, ...).  *)
(*             The harness cross-checks these offsets against the real        *)
(*             decoder.                                                       *)
(*   "two" / "drip"  the input itself comes in short reads: one cut, or one   *)
(*             byte per read across the code point.                            *)
(* At every boundary: every code point class of JqJsonText in every spelling  *)
(* JSON allows for it (JqJsonText.Allowed), the boundary at every byte offset *)
(* cut of the spelling (0 = the spelling starts exactly at the boundary,      *)
(* SpLen = it ends there), the string being an array element, an object key   *)
(* or a value two levels down.  Expectation: the identity (the value written  *)
(* by -o / json() is the string of the input).                                *)
EXTENDS JqJsonText
CONSTANTS NRefill, MinRead

\* the UTF-8 widths of the members of a class (bnp has members below and above U+0800)
U8(c) == CASE c \in {"pl", "dq", "bs", "sl", "html", "c2", "cu", "del"} -> {1}
           [] c \in {"c1", "b2"} -> {2}
           [] c = "bnp" -> {2, 3}
           [] c \in {"ls", "b3", "rep"} -> {3}
           [] OTHER -> {4}
SpLen(f, w) == CASE f = "raw" -> w [] f = "e2" -> 2 [] f = "eu" -> 6 [] OTHER -> 12

Modes == {"refill", "two", "drip"}
Positions == {"val", "key", "deep"}

VARIABLES c, pos, mode, cap, have, k, f, w, cut, done
vars == <<c, pos, mode, cap, have, k, f, w, cut, done>>

Init == /\ c \in CharClasses /\ pos \in Positions /\ mode \in Modes
        /\ cap = 0 /\ have = 0 /\ k = 0 /\ f = "raw" /\ w = 1 /\ cut = 0 /\ done = FALSE

\* one refill of the reader's buffer while more text is available than it holds
Refill == /\ ~done /\ mode = "refill" /\ k < NRefill
          /\ cap' = IF cap - have < MinRead THEN 2 * cap + MinRead ELSE cap
          /\ have' = cap'
          /\ k' = k + 1
          /\ UNCHANGED <<c, pos, mode, f, w, cut, done>>

\* the code point is placed against the boundary where the next read starts
Place == /\ ~done /\ done' = TRUE
         /\ (mode = "refill" => k >= 1)
         /\ \E ff \in Allowed(c), ww \in U8(c) :
              /\ f' = ff /\ w' = ww /\ cut' \in 0..SpLen(ff, ww)
              /\ (ff # "raw" => ww = SetMax(U8(c)))      \* the width matters for the raw spelling only
         /\ UNCHANGED <<c, pos, mode, cap, have, k>>

Next == Refill \/ Place

RECURSIVE Pow2(_)
Pow2(n) == IF n = 0 THEN 1 ELSE 2 * Pow2(n - 1)

Laws ==
  \* the buffer is full at every boundary, the boundaries follow the closed form, each read delivers new bytes
  /\ have = cap
  /\ have = MinRead * (Pow2(k) - 1)
  /\ (mode # "refill" => k = 0)
  /\ done => /\ Reads(<<f>>, <<c>>)          \* the input spells the code point in JSON
             /\ cut \in 0..SpLen(f, w) /\ w \in U8(c)
             /\ (f = "raw" => SpLen(f, w) \in 1..4)
  \* reading in pieces is reading: the table does not depend on where the pieces meet
  /\ done => ReadOne(f, c) = c

Vec == done => Emit([c |-> c, f |-> f, cut |-> cut, splen |-> SpLen(f, w), w |-> w, pos |-> pos, mode |-> mode, k |-> k, b |-> have])
=============================================================================
