--------------------------- MODULE MC_HeapRounds ---------------------------
(* C09, "... and leaves every other part of every value, including the rest  *)
(* of the input document, unchanged", across the ROUNDS of a run: the program *)
(* is run once per (input file, JSON value of that file, root selector), and  *)
(* each of these rounds starts from the value as it was read.  A write below  *)
(* `$` made in one round is seen by nothing but that round's own document     *)
(* (and by the references the program itself keeps in a global): not by the   *)
(* round of a later selector over the same value (even when the two selectors *)
(* select overlapping parts), not by a later value, not by a later file.      *)
(*                                                                            *)
(* A transition system over the intended heap of JqHeap: `Decode` starts the  *)
(* next round (a fresh copy of the catalogue document is allocated, the root  *)
(* selector picks the root R), `Rule` runs the one pattern rule               *)
(*     { print "B", $; [capture;] W; print "A", $ }                           *)
(* on the next element (`$` is R[e] when R is an array, else R), `Finish`     *)
(* runs END { print "G", g }.  Checked in every reachable state: a round      *)
(* starts from the document as read (the tree of R is the catalogue tree      *)
(* under the selector); R shares no container with any earlier round or with  *)
(* g; a rule changes no container that is not reachable from R.               *)
(* Config: MaxSels (root selectors per run), Wide (more inputs).              *)
EXTENDS JqHeap
CONSTANTS MaxSels, Wide

Fuel == 12
TA(items) == [t |-> "arr", items |-> items]
TO(m) == [t |-> "obj", m |-> m]
DocA == TO(("s" :> TA(<<TO("p" :> Num(10)), TO("p" :> Num(20))>>)) @@ ("o" :> TO(("p" :> Num(30)) @@ ("q" :> TA(<<Num(3)>>)))) @@ ("n" :> Num(1)))
DocB == TO(("s" :> TA(<<TO("p" :> Num(40))>>)) @@ ("o" :> TO(("p" :> Num(50)) @@ ("q" :> TA(<<Num(1), Num(2)>>)))) @@ ("n" :> Num(2)))
Doc(d) == IF d = "A" THEN DocA ELSE DocB

\* inputs: files, each a sequence of JSON values
Inputs == { <<<<"A">>>>, <<<<"A", "A">>>>, <<<<"A">>, <<"A">>>>, <<<<"A", "B">>>>, <<<<"B">>, <<"A">>>> }
          \cup (IF Wide THEN { <<<<"B", "A", "B">>>>, <<<<"A">>, <<"B">>, <<"A">>>>, <<<<"A", "B">>, <<"B", "A">>>> } ELSE {})
\* root selectors $  $.s  $.s[0]  $.s[-1]  $.o  $.o.q  $.n
SelUniverse == { <<>>, <<K("s")>>, <<K("s"), I(0)>>, <<K("s"), I(-1)>>, <<K("o")>>, <<K("o"), K("q")>>, <<K("n")>> }
SelLists == SeqsUpTo(SelUniverse, MaxSels)          \* <<>>: no selector, the whole value is the root
\* the write of the rule body, on a path below $
W(kind, sels) == [kind |-> kind, sels |-> sels]
Writes == { W("cadd", <<K("p")>>),                  \* $.p += 5
            W("set", <<K("seen")>>),                \* $.seen = 7
            W("set", <<K("s"), I(0), K("p")>>),     \* $.s[0].p = 7
            W("set", <<K("s"), I(2)>>),             \* $.s[2] = 7   (appends / pads)
            W("postinc", <<K("o"), K("p")>>),       \* $.o.p++
            W("set", <<K("q"), I(0)>>),             \* $.q[0] = 7
            W("set", <<>>),                         \* $ = 7
            W("postinc", <<>>),                     \* $++
            W("cadd", <<K("n")>>) }                 \* $.n += 5
Caps == {"none", "first", "last"}                   \* g = $ in the first round only / in every round

-----------------------------------------------------------------------------
(* a catalogue tree copied into the heap *)
KeyOrder == <<"n", "o", "p", "q", "s", "seen">>
KeysOf(m) == SelectSeq(KeyOrder, LAMBDA k : k \in DOMAIN m)
RECURSIVE Mk(_, _), MkItems(_, _, _), MkMembers(_, _, _, _)
MkItems(st, items, acc) ==
  IF items = <<>> THEN [st |-> st, vals |-> acc]
  ELSE LET r == Mk(st, Head(items)) IN MkItems(r.st, Tail(items), Append(acc, r.val))
MkMembers(st, m, ks, acc) ==
  IF ks = <<>> THEN [st |-> st, m |-> acc]
  ELSE LET r == Mk(st, m[Head(ks)]) IN MkMembers(r.st, m, Tail(ks), (Head(ks) :> r.val) @@ acc)
Mk(st, tr) ==
  CASE tr.t = "arr" -> LET r == MkItems(st, tr.items, <<>>)  s1 == Alloc(r.st, ArrC(r.vals)) IN [st |-> s1, val |-> Arr(Len(s1.heap))]
    [] tr.t = "obj" -> LET r == MkMembers(st, tr.m, KeysOf(tr.m), EmptyMap)  s1 == Alloc(r.st, ObjC(r.m)) IN [st |-> s1, val |-> Obj(Len(s1.heap))]
    [] OTHER -> [st |-> st, val |-> tr]

\* the selector applied to a TREE (no heap): what the root of a round must look like
RECURSIVE TSel(_, _)
TSel(tr, sels) ==
  IF sels = <<>> THEN tr
  ELSE LET s == Head(sels) IN
       IF tr.t = "obj" /\ s.s = "key" /\ s.k \in DOMAIN tr.m THEN TSel(tr.m[s.k], Tail(sels))
       ELSE IF tr.t = "arr" /\ s.s = "idx" /\ Norm(Len(tr.items), s.i) \in 0..(Len(tr.items) - 1) THEN TSel(tr.items[Norm(Len(tr.items), s.i) + 1], Tail(sels))
       ELSE Missing

-----------------------------------------------------------------------------
Names == {"R", "g"}
VARIABLES cfg,      \* [input, sels, w, cap]
          st,       \* the heap and the two globals R (root of the round) and g
          pos,      \* [f, v, s]: file, value, selector of the round; e: next element
          elem,
          roots,    \* the containers reachable from the roots of the rounds so far, at the time they ended
          out, phase, law
vars == <<cfg, st, pos, elem, roots, out, phase, law>>

NSel == IF cfg.sels = <<>> THEN 1 ELSE Len(cfg.sels)
SelAt(i) == IF cfg.sels = <<>> THEN <<>> ELSE cfg.sels[i]
\* the position after [f, v, s]; Begin before the first round, End after the last
Begin == [f |-> 0, v |-> 0, s |-> 0]
End == [f |-> -1, v |-> 0, s |-> 0]
After(p) ==
  IF p.s < NSel THEN [p EXCEPT !.s = p.s + 1]
  ELSE IF p.v < Len(cfg.input[p.f]) THEN [p EXCEPT !.v = p.v + 1, !.s = 1]
  ELSE IF p.f < Len(cfg.input) THEN [f |-> p.f + 1, v |-> 1, s |-> 1]
  ELSE End
RootLen(s) == IF s.env["R"].t = "arr" THEN Len(s.heap[s.env["R"].id].items) ELSE 1
Dollar(s, e) == IF s.env["R"].t = "arr" THEN Path("R", <<I(e)>>) ELSE Path("R", <<>>)
TreeOfV(s, v) == IF v.t = "unset" THEN Unset ELSE Tree(s, Stored(v), Fuel)
Line(tag, s, v) == [tag |-> tag, tree |-> TreeOfV(s, v)]

Init == /\ cfg \in [input : Inputs, sels : {<<>>}, w : Writes, cap : {"none"}]
        /\ st = [heap |-> <<>>, env |-> [n \in Names |-> Unset]]
        /\ pos = Begin /\ elem = 0 /\ roots = {} /\ out = <<>> /\ phase = "pick" /\ law = {}

\* second half of the enumeration
Pick == /\ phase = "pick"
        /\ \E sl \in SelLists, c \in Caps : cfg' = [cfg EXCEPT !.sels = sl, !.cap = c]
        /\ phase' = "run"
        /\ UNCHANGED <<st, pos, elem, roots, out, law>>

RoundOver == pos = Begin \/ elem >= RootLen(st)

\* start the next round: a fresh copy of the value, the selector picks the root
Decode ==
  /\ phase = "run" /\ RoundOver
  /\ LET nxt == IF pos = Begin THEN [f |-> 1, v |-> 1, s |-> 1] ELSE After(pos) IN
     /\ nxt # End
     /\ LET d == Doc(cfg.input[nxt.f][nxt.v])
            m == Mk(st, d)
            root == ReadFrom(m.st, m.val, SelAt(nxt.s))
            old == IF pos = Begin THEN {} ELSE ReachFrom(st, st.env["R"], Fuel)
            s1 == [m.st EXCEPT !.env["R"] = root]
        IN IF root.t \in {"missing", "error", "open"}
           THEN /\ phase' = "open" /\ UNCHANGED <<st, pos, elem, roots, out, law>>     \* a selector that selects nothing: not this family's matter
           ELSE /\ st' = s1 /\ pos' = nxt /\ elem' = 0 /\ roots' = roots \cup old
                /\ law' = law
                     \cup (IF Tree(s1, root, Fuel) = TSel(d, SelAt(nxt.s)) THEN {} ELSE {"fresh"})            \* the round starts from the value as read
                     \cup (IF ReachFrom(s1, root, Fuel) \cap (roots \cup old \cup ReachFrom(st, st.env["g"], Fuel)) = {} THEN {} ELSE {"disjoint"})
                     \cup (IF Tree(m.st, m.val, Fuel) = d THEN {} ELSE {"mk"})
                /\ UNCHANGED <<out, phase>>
  /\ UNCHANGED cfg

\* the rule body on element `elem`
Rule ==
  /\ phase = "run" /\ ~RoundOver
  /\ LET dp == Dollar(st, elem)
         before == ReadPath(st, dp)
         s1 == IF cfg.cap = "last" \/ (cfg.cap = "first" /\ st.env["g"].t = "unset") THEN [st EXCEPT !.env["g"] = before] ELSE st
         p == Path("R", dp.sels \o cfg.w.sels)
         cur == ReadPath(s1, p)
         new == CASE cfg.w.kind = "set" -> Num(7) [] cfg.w.kind = "cadd" -> Plus(cur, Num(5)) [] OTHER -> Num(NumOf(cur) + 1)
         a == IF cfg.w.kind # "set" /\ (cur.t \in {"error", "open"} \/ IsCont(cur)) THEN Fail(s1, IF cur.t = "error" THEN "error" ELSE "open")
              ELSE AssignPath(s1, p, new)
         mine == ReachFrom(st, st.env["R"], Fuel)
     IN IF a.status = "open" THEN phase' = "open" /\ UNCHANGED <<st, elem, out, law>>
        ELSE IF a.status = "error" THEN /\ phase' = "error" /\ out' = Append(out, Line("B", st, before)) /\ UNCHANGED <<st, elem, law>>
        ELSE /\ st' = a.st /\ elem' = elem + 1 /\ phase' = "run"
             /\ out' = out \o <<Line("B", st, before), Line("A", a.st, ReadPath(a.st, dp))>>
             /\ law' = law
                  \cup (IF \A id \in 1..Len(st.heap) : id \notin mine => a.st.heap[id] = st.heap[id] THEN {} ELSE {"frame"})   \* nothing outside this round's root
                  \cup (IF ReadPath(a.st, p) = new THEN {} ELSE {"readback"})
  /\ UNCHANGED <<cfg, pos, roots>>

Finish ==
  /\ phase = "run" /\ RoundOver /\ pos # Begin /\ After(pos) = End
  /\ out' = Append(out, Line("G", st, st.env["g"]))
  /\ phase' = "done"
  /\ UNCHANGED <<cfg, st, pos, elem, roots, law>>

Next == Pick \/ Decode \/ Rule \/ Finish

Laws == law = {}
\* in every state of a run: the containers of finished rounds hold what they held when their round ended,
\* unless the program's own global g reaches them (checked as an action property over Rule via "frame")
TypeOK == phase \in {"pick", "run", "open", "error", "done"}

RECURSIVE Compact(_)
Compact(tr) ==
  CASE tr.t = "num" -> tr.n [] tr.t = "str" -> tr.s [] tr.t = "bool" -> tr.b
    [] tr.t = "arr" -> [i \in 1..Len(tr.items) |-> Compact(tr.items[i])]
    [] tr.t = "obj" -> [o |-> [k \in DOMAIN tr.m |-> Compact(tr.m[k])]]
    [] OTHER -> "~" \o tr.t
SelJson(ss) == [i \in 1..Len(ss) |-> ss[i]]
Vec == phase \in {"done", "error"} =>
         Emit([input |-> [f \in 1..Len(cfg.input) |-> [v \in 1..Len(cfg.input[f]) |-> Compact(Doc(cfg.input[f][v]))]],
               sels |-> [i \in 1..Len(cfg.sels) |-> SelJson(cfg.sels[i])], w |-> [kind |-> cfg.w.kind, sels |-> SelJson(cfg.w.sels)], cap |-> cfg.cap,
               class |-> IF phase = "done" THEN "ok" ELSE "runtime",
               lines |-> [i \in 1..Len(out) |-> [tag |-> out[i].tag, tree |-> Compact(out[i].tree)]],
               root |-> IF phase = "done" THEN Compact(TreeOfV(st, st.env["R"])) ELSE "~wild"])
=============================================================================
