----------------------------- MODULE MC_Lex -----------------------------
(* C13, token level: every text up to MaxLen bytes over a small alphabet.  *)
(* Laws on the intended lexer (checked by TLC on every text) and one       *)
(* vector per text: the token sequence the real lexer must produce.        *)
EXTENDS JqLex
CONSTANTS MaxLen, AlphaId

\* 1: words, numbers, operators that could glue to a number, both quotes, newline
\* 2: comments against strings and newlines
Alphabet == IF AlphaId = 1 THEN {"a", "1", "-", ".", "+", "=", " ", NL, "\"", "'"}
            ELSE {"a", "#", "\"", "'", NL, " ", "1", ";"}

VARIABLES t, done
Init == /\ t \in SeqsUpTo(Alphabet, 2)
        /\ done = FALSE
Next == /\ ~done
        /\ done' = TRUE
        /\ IF Len(t) < 2 THEN t' = t
           ELSE \E s \in SeqsUpTo(Alphabet, MaxLen - 2) : t' = t \o s

\* ---- laws
\* every token points at its spelling; tokens are in order and everything
\* between them is blank, comment or a string/regex delimiter
Extent(k) == IF k.tag \in {"Str", "Regex"} THEN [lo |-> k.pos - 1, hi |-> k.pos + k.len + 1]
             ELSE [lo |-> k.pos, hi |-> k.pos + Len(k.text)]
OnlySkippable(tx, lo, hi) == SkipBlank(SubSeq(tx, 1, hi), lo) = hi
PositionLaw(tx, r) ==
  /\ \A i \in 1..Len(r.toks) :
       LET k == r.toks[i] e == Extent(k) IN
       /\ SubSeq(tx, k.pos + 1, k.pos + Len(k.text)) = k.text
       /\ k.len = (IF k.tag \in ValuedTags THEN Len(k.text) ELSE 0)
       /\ k.tag = "Str" => tx[k.pos] \in Quotes /\ tx[k.pos + k.len + 1] = tx[k.pos]
       /\ OnlySkippable(tx, IF i = 1 THEN 0 ELSE Extent(r.toks[i-1]).hi, e.lo)
  /\ (~r.err /\ ~r.open) =>
       OnlySkippable(tx, IF r.toks = <<>> THEN 0 ELSE Extent(r.toks[Len(r.toks)]).hi, Len(tx))

\* writing the tokens out again, tightly or with a comment line in every gap,
\* with either quote, lexes to the same tokens
RoundTripLaw(r) ==
  (~r.err /\ ~r.open) =>
    LET T == NoNewlines(r.toks)
        n == Len(T)
        tight == [i \in 1..(n-1) |-> IF NeedsSpace(T[i], T[i+1]) THEN "sp" ELSE "none"]
        airy == [i \in 1..(n-1) |-> "cmt"]
        qa == [i \in 1..n |-> IF "'" \in AllowedQuotes(T[i]) THEN "'" ELSE "\""]
        qb == [i \in 1..n |-> IF "\"" \in AllowedQuotes(T[i]) THEN "\"" ELSE "'"]
        ok(g, qs, l, tr) == LET r2 == Tokens(Layout(T, g, qs, l, tr)) IN ~r2.err /\ ~r2.open /\ Sig(r2.toks) = Sig(T)
    IN /\ WellFormed(T)
       /\ ok(tight, qa, "none", "none")
       /\ ok(airy, qb, "cmt", "cmteof")

\* exchanging the two quote characters everywhere gives the same tokens at
\* the same places (with the exchange applied inside texts)
SwapQ(b) == IF b = "'" THEN "\"" ELSE IF b = "\"" THEN "'" ELSE b
SwapText(s) == [i \in 1..Len(s) |-> SwapQ(s[i])]
QuoteLaw(tx, r) ==
  LET r2 == Tokens(SwapText(tx)) IN
  /\ r2.err = r.err /\ r2.open = r.open /\ Len(r2.toks) = Len(r.toks)
  /\ \A i \in 1..Len(r.toks) : r2.toks[i] = [r.toks[i] EXCEPT !.text = SwapText(@)]

\* a numeric literal is digits with an optional fraction: its text contains no
\* operator, and whatever follows it directly is a separate token
NumberLaw(tx, r) ==
  \A i \in 1..Len(r.toks) : r.toks[i].tag = "Num" =>
     LET k == r.toks[i] IN
     /\ \A j \in 1..Len(k.text) : k.text[j] \in Digits \cup {"."}
     /\ k.text[1] \in Digits /\ k.text[Len(k.text)] \in Digits
     /\ Cardinality({j \in 1..Len(k.text) : k.text[j] = "."}) <= 1
     /\ (k.pos + k.len < Len(tx) /\ tx[k.pos + k.len + 1] \in {"-", "+", "="}) =>
           (i < Len(r.toks) /\ r.toks[i+1].pos = k.pos + k.len /\ r.toks[i+1].text[1] = tx[k.pos + k.len + 1])

\* the regex re-scan plays no role when there is no '/'
NoSlashLaw(tx, r) == TokensDev(tx, FALSE, {}) = r

Laws == done => LET r == Tokens(t) IN
  /\ PositionLaw(t, r) /\ RoundTripLaw(r) /\ QuoteLaw(t, r) /\ NumberLaw(t, r) /\ NoSlashLaw(t, r)

\* ---- vectors
Compact(toks) == [i \in 1..Len(toks) |-> [g |-> toks[i].tag, p |-> toks[i].pos, n |-> toks[i].len, x |-> toks[i].text]]
Vec == done =>
  LET r == Tokens(t)
      d == TokensDev(t, TRUE, {"lex-minus-in-number"})
  IN Emit([t |-> t, toks |-> Compact(r.toks), err |-> r.err, open |-> r.open,
           dev |-> IF d = r THEN <<>> ELSE <<[toks |-> Compact(d.toks), err |-> d.err]>>])
=============================================================================
