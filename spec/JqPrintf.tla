----------------------------- MODULE JqPrintf -----------------------------
(* printf (DESIGN.md 4.11, property C18): the format scanner of            *)
(* nativePrintf (src/runtime.go) as a state machine over the format's      *)
(* bytes.  One action per branch of the Go loop; every action consumes one *)
(* byte of the format (or its end) and appends to a PENDING buffer; the    *)
(* buffer reaches stdout in exactly one place (EmitBuf), or never (Fail).     *)
(*                                                                          *)
(* What the statement leaves open is a POLICY (whether a width applies to  *)
(* %v / to %%): the buffer holds symbolic pieces and is turned into bytes  *)
(* per policy, so the machine prescribes the SET of outputs the statement  *)
(* allows.                                                                  *)
(* The fill byte is NOT open: the statement has one padding rule with two  *)
(* independent modifiers, the side ("on the right for a negative width")   *)
(* and the byte ("with zeros when the width is written with a leading 0"). *)
(* A width is the text between the '%' and the directive letter; "-05" is  *)
(* written with a leading '-', so only an unsigned width can ask for zeros *)
(* and padding on the right is always blanks (zeros appended to a number   *)
(* would display a different number: 3 as 30000).                          *)
(*                                                                          *)
(* The second half is an independent, declarative definition of the same   *)
(* function (RefPrintf: whole-directive lookahead, closed-form width       *)
(* value); MC_Printf checks that both agree on every explored behaviour.   *)
EXTENDS JqUtil

Digits == {"0", "1", "2", "3", "4", "5", "6", "7", "8", "9"}
DigitVal(c) == CASE c = "0" -> 0 [] c = "1" -> 1 [] c = "2" -> 2 [] c = "3" -> 3 [] c = "4" -> 4
                 [] c = "5" -> 5 [] c = "6" -> 6 [] c = "7" -> 7 [] c = "8" -> 8 [] c = "9" -> 9
Dirs == {"s", "f", "v", "%"}
MaxWidth == 65536            \* the fixed maximum (C20 names the number)
TooWide == MaxWidth + 1      \* width values saturate here (TLC integers are 32 bit)
Min2(a, b) == IF a < b THEN a ELSE b
Max2(a, b) == IF a > b THEN a ELSE b

\* An argument: kind \in ArgKinds, r = its rendering (bytes; the print format
\* of the value, top-level strings raw), src = a name the harness turns into
\* source text.  "unset" is a name that was never assigned; "fn" a user or
\* built-in function.  Only the kind decides whether a directive takes it:
\* a regex carries a source text and a missing element remembers its index,
\* neither makes it a string or a number.
ArgKinds == {"str", "num", "null", "bool", "arr", "obj", "regex", "unset", "fn"}
NoArg == [kind |-> "none", r |-> <<>>, src |-> "-"]
KindOK(d, a) == \/ d = "v"
                \/ d = "s" /\ a.kind = "str"
                \/ d = "f" /\ a.kind = "num"

\* ---- pieces of the pending buffer
LitPiece(c) == [t |-> "lit", c |-> c, d |-> "", w |-> 0, neg |-> FALSE, zero |-> FALSE, r |-> <<>>]
FldPiece(d, w, neg, zero, r) == [t |-> "fld", c |-> "", d |-> d, w |-> w, neg |-> neg, zero |-> zero, r |-> r]

\* ---- policies: the readings the statement admits
Policies == [v : BOOLEAN, pct : BOOLEAN]
CodePolicy == [v |-> FALSE, pct |-> FALSE]   \* what the pinned code does (not used for verdicts)
Applies(p, pol) == \/ p.d \in {"s", "f"}
                   \/ p.d = "v" /\ pol.v
                   \/ p.d = "%" /\ pol.pct
ZeroFill(neg, zero) == zero /\ ~neg        \* the width text starts with "0"
PadCh(p, pol) == IF ZeroFill(p.neg, p.zero) THEN "0" ELSE " "
PadCount(p, pol) == IF Applies(p, pol) /\ p.w > Len(p.r) THEN p.w - Len(p.r) ELSE 0

\* Output is kept as runs <<byte, count>> so that a width of 65536 stays small.
TextRuns(r) == [i \in 1..Len(r) |-> <<r[i], 1>>]
PieceRuns(p, pol) ==
  IF p.t = "lit" THEN << <<p.c, 1>> >>
  ELSE LET k == PadCount(p, pol)
           pad == IF k = 0 THEN <<>> ELSE << <<PadCh(p, pol), k>> >>
       IN IF p.neg THEN TextRuns(p.r) \o pad ELSE pad \o TextRuns(p.r)
Runs(ps, pol) == FlattenSeq([i \in 1..Len(ps) |-> PieceRuns(ps[i], pol)])
RECURSIVE RunsLen(_)
RunsLen(rs) == IF rs = <<>> THEN 0 ELSE Head(rs)[2] + RunsLen(Tail(rs))
Expand(rs) == FlattenSeq([i \in 1..Len(rs) |-> [j \in 1..rs[i][2] |-> rs[i][1]]])

\* ------------------------------------------------------------------------
\* The scanner.
VARIABLES
  inp,     \* format bytes consumed so far
  args,    \* the arguments looked at so far (the call may have more: never examined)
  mode,    \* Literal | Percent | WidthSign | WidthDigits | Fail | Done | Failed
  wneg, wzero, wval,   \* the width being read: sign, leading zero, value (saturating)
  buf,     \* pending buffer (pieces)
  argi,    \* arguments consumed
  out,     \* pieces written to stdout by this call
  writes,  \* number of writes to stdout by this call
  why      \* which error return was taken
pvars == <<inp, args, mode, wneg, wzero, wval, buf, argi, out, writes, why>>

Scanning == {"Literal", "Percent", "WidthSign", "WidthDigits"}
Terminal == {"Done", "Failed"}

PInit(a) ==
  /\ inp = <<>> /\ args = a /\ mode = "Literal"
  /\ wneg = FALSE /\ wzero = FALSE /\ wval = 0
  /\ buf = <<>> /\ argi = 0 /\ out = <<>> /\ writes = 0 /\ why = ""

Consume(c) == inp' = Append(inp, c)
FailWith(w) == /\ mode' = "Fail" /\ why' = w
               /\ UNCHANGED <<args, wneg, wzero, wval, buf, argi, out, writes>>

\* `sb.WriteByte(b)` for a byte that is not '%'
Literal(c) ==
  /\ mode = "Literal" /\ c # "%" /\ Consume(c)
  /\ buf' = Append(buf, LitPiece(c))
  /\ UNCHANGED <<args, mode, wneg, wzero, wval, argi, out, writes, why>>

\* '%' opens a directive: widthSpec := 0, padChar := " "
Percent(c) ==
  /\ mode = "Literal" /\ c = "%" /\ Consume(c)
  /\ mode' = "Percent" /\ wneg' = FALSE /\ wzero' = FALSE /\ wval' = 0
  /\ UNCHANGED <<args, buf, argi, out, writes, why>>

\* a '-' directly after the '%'
WidthSign(c) ==
  /\ mode = "Percent" /\ c = "-" /\ Consume(c)
  /\ mode' = "WidthSign" /\ wneg' = TRUE
  /\ UNCHANGED <<args, wzero, wval, buf, argi, out, writes, why>>

\* a width digit; the first one decides the zero flag
WidthDigit(c) ==
  /\ mode \in {"Percent", "WidthSign", "WidthDigits"} /\ c \in Digits /\ Consume(c)
  /\ mode' = "WidthDigits"
  /\ wzero' = IF mode = "WidthDigits" THEN wzero ELSE (c = "0")
  /\ wval' = Min2(wval * 10 + DigitVal(c), TooWide)
  /\ UNCHANGED <<args, wneg, buf, argi, out, writes, why>>

\* the directive letter: checks, then the padded rendering goes to the buffer.
\* a is the next argument of the call (NoArg: the list is exhausted); the
\* argument list is data the scanner discovers one directive at a time, so it
\* is a parameter of this action and `args` records what has been looked at.
Directive(c, a) ==
  /\ mode \in {"Percent", "WidthDigits"} /\ c \in Dirs /\ Consume(c)
  /\ LET need == c # "%" IN
     IF wval > MaxWidth THEN a = NoArg /\ FailWith("wide")
     ELSE IF ~need THEN
          /\ a = NoArg /\ mode' = "Literal"
          /\ buf' = Append(buf, FldPiece(c, wval, wneg, wzero, <<"%">>))
          /\ UNCHANGED <<args, wneg, wzero, wval, argi, out, writes, why>>
     ELSE IF a = NoArg THEN FailWith("missing")
     ELSE IF ~KindOK(c, a) THEN
          /\ mode' = "Fail" /\ why' = "kind" /\ args' = Append(args, a)
          /\ UNCHANGED <<wneg, wzero, wval, buf, argi, out, writes>>
     ELSE /\ mode' = "Literal" /\ args' = Append(args, a) /\ argi' = argi + 1
          /\ buf' = Append(buf, FldPiece(c, wval, wneg, wzero, a.r))
          /\ UNCHANGED <<wneg, wzero, wval, out, writes, why>>

\* a sign without digits
BadWidth(c) ==
  /\ mode = "WidthSign" /\ c \notin Digits /\ Consume(c)
  /\ FailWith("badwidth")

\* anything else where a directive letter is expected
Unknown(c) ==
  /\ \/ mode = "Percent" /\ c \notin Digits \cup Dirs \cup {"-"}
     \/ mode = "WidthDigits" /\ c \notin Digits \cup Dirs
  /\ Consume(c)
  /\ FailWith("unknown")

\* the call has returned an error: the rest of the format is never looked at
Skip(c) ==
  /\ mode = "Fail" /\ Consume(c)
  /\ UNCHANGED <<args, mode, wneg, wzero, wval, buf, argi, out, writes, why>>

\* A: the candidates for the next argument (NoArg among them)
Step(c, A) == \/ Literal(c) \/ Percent(c) \/ WidthSign(c) \/ WidthDigit(c)
              \/ (\E a \in A : Directive(c, a)) \/ BadWidth(c) \/ Unknown(c) \/ Skip(c)

\* end of the format reached between directives: the ONE write
EmitBuf ==
  /\ mode = "Literal"
  /\ mode' = "Done" /\ out' = buf /\ writes' = writes + 1
  /\ UNCHANGED <<inp, args, wneg, wzero, wval, buf, argi, why>>

\* end of the format inside a directive: dangling % or width
Dangling ==
  /\ mode \in {"Percent", "WidthSign", "WidthDigits"}
  /\ mode' = "Failed" /\ why' = "dangling"
  /\ UNCHANGED <<inp, args, wneg, wzero, wval, buf, argi, out, writes>>

Failed ==
  /\ mode = "Fail" /\ mode' = "Failed"
  /\ UNCHANGED <<inp, args, wneg, wzero, wval, buf, argi, out, writes, why>>

End == EmitBuf \/ Dangling \/ Failed

\* ---- observables of a finished call
Class == IF mode = "Done" THEN "ok" ELSE "runtime"
OutRuns(pol) == Runs(out, pol)
Outs == {OutRuns(pol) : pol \in Policies}

\* ------------------------------------------------------------------------
\* Independent reference: printf as a function of (format, arguments, policy).
\* A directive is found by lookahead to the first byte that cannot belong to a
\* width; the width text is validated as a whole and valued in closed form.
WidthChars == Digits \cup {"-"}
RECURSIVE Pow10(_)
Pow10(n) == IF n = 0 THEN 1 ELSE 10 * Pow10(n - 1)
\* value of a digit string, saturating; more than 6 digits after the leading
\* zeros cannot be <= MaxWidth
RECURSIVE DigitSum(_, _)
DigitSum(s, i) == IF i > Len(s) THEN 0 ELSE DigitVal(s[i]) * Pow10(Len(s) - i) + DigitSum(s, i + 1)
NumVal(ds) ==
  LET nz == {i \in 1..Len(ds) : ds[i] # "0"}
  IN IF nz = {} THEN 0
     ELSE LET s == SubSeq(ds, SetMin(nz), Len(ds))
          IN IF Len(s) > 6 THEN TooWide ELSE Min2(DigitSum(s, 1), TooWide)
ValidWidth(wt) ==
  \/ wt = <<>>
  \/ /\ \A i \in 2..Len(wt) : wt[i] \in Digits
     /\ \/ wt[1] \in Digits
        \/ wt[1] = "-" /\ Len(wt) >= 2

RefPad(r, w, neg, ch) ==
  LET k == Max2(w - Len(r), 0)
      pad == [i \in 1..k |-> ch]
  IN IF neg THEN r \o pad ELSE pad \o r

\* result: [ok |-> BOOLEAN, bytes |-> output, used |-> arguments consumed]
RECURSIVE RefScan(_, _, _, _, _)
RefScan(f, i, as, ai, pol) ==
  IF i > Len(f) THEN [ok |-> TRUE, bytes |-> <<>>, used |-> ai]
  ELSE IF f[i] # "%" THEN
    LET rest == RefScan(f, i + 1, as, ai, pol)
    IN IF rest.ok THEN [rest EXCEPT !.bytes = <<f[i]>> \o @] ELSE rest
  ELSE
    LET stop == {j \in (i + 1)..Len(f) : f[j] \notin WidthChars}
        bad == [ok |-> FALSE, bytes |-> <<>>, used |-> ai]
    IN IF stop = {} THEN bad
       ELSE
         LET j == SetMin(stop)
             d == f[j]
             wt == SubSeq(f, i + 1, j - 1)
             neg == wt # <<>> /\ wt[1] = "-"
             ds == IF neg THEN Tail(wt) ELSE wt
             zero == ds # <<>> /\ ds[1] = "0"
             w == NumVal(ds)
             need == d # "%"
         IN IF ~ValidWidth(wt) \/ d \notin Dirs \/ w > MaxWidth THEN bad
            ELSE IF need /\ (ai >= Len(as) \/ ~KindOK(d, as[ai + 1])) THEN bad
            ELSE
              LET r == IF need THEN as[ai + 1].r ELSE <<"%">>
                  applies == d \in {"s", "f"} \/ (d = "v" /\ pol.v) \/ (d = "%" /\ pol.pct)
                  ch == IF wt # <<>> /\ wt[1] = "0" THEN "0" ELSE " "
                  fld == IF applies THEN RefPad(r, w, neg, ch) ELSE r
                  rest == RefScan(f, j + 1, as, IF need THEN ai + 1 ELSE ai, pol)
              IN IF rest.ok THEN [rest EXCEPT !.bytes = fld \o @] ELSE rest
RefPrintf(f, as, pol) == RefScan(f, 1, as, 0, pol)

\* literal text of a format (directives removed), for the preservation law
RECURSIVE RefLits(_, _)
RefLits(f, i) ==
  IF i > Len(f) THEN <<>>
  ELSE IF f[i] # "%" THEN <<f[i]>> \o RefLits(f, i + 1)
  ELSE LET stop == {j \in (i + 1)..Len(f) : f[j] \notin WidthChars}
       IN IF stop = {} THEN <<>> ELSE RefLits(f, SetMin(stop) + 1)
=============================================================================
