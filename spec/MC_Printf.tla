----------------------------- MODULE MC_Printf -----------------------------
(* C18: the printf scanner of JqPrintf explored by TLC.                     *)
(* Family 1: the environment hands the scanner ANY next byte of Alphabet   *)
(*   (or the end of the format) while the format is shorter than MaxLen,   *)
(*   and ANY next argument (or none) when a directive asks for one, so BFS *)
(*   visits every format of <= MaxLen bytes with every argument list of    *)
(*   <= MaxArgs values as far as the scanner looks at it (arguments it     *)
(*   never examines are appended by the harness in every possible way).    *)
(* Family 2: the format is one of F2 (a single directive, widths around    *)
(*   the limits), fed to the same scanner byte by byte.                    *)
(* Family 3: formats of 2 or 3 directives with widths from {none, 3, 03, -3, *)
(*   -03, 12}, letters s f v %, literals between them, arguments of the    *)
(*   right kind, short and long: a directive's width and zero flag must    *)
(*   not reach a later directive.                                          *)
(* Family 4: large fields (4096, 5000, 65536 bytes; several fields) and    *)
(*   then the end of the format or an error of every kind.                 *)
(* Every state is checked against the laws below; every finished call      *)
(* (mode Done/Failed) is emitted as a vector.                              *)
EXTENDS JqPrintf
CONSTANTS MaxLen, MaxArgs, Family, Big

Alphabet == {"%", "s", "f", "v", "d", "-", "0", "5", "x"}

\* Argument values.  The bytes of the two strings and the two numbers are
\* opaque symbols ("sa","sb": the 2 bytes of the short string; "la".."lf": the 6
\* bytes of the long one; "na": the 1-byte number; "ma".."mf": the 6-byte
\* number), instantiated per seed by the harness; only their lengths (2 and 6
\* around the width 5, 1 and 6) matter to the model.  Likewise "x" (a literal
\* byte) and "d" (a letter that is no directive) in the format alphabet.
Arg(kind, r, src) == [kind |-> kind, r |-> r, src |-> src]
ArgVals == { Arg("str", <<"sa", "sb">>, "S"), Arg("str", <<"la", "lb", "lc", "ld", "le", "lf">>, "L"),
             Arg("num", <<"na">>, "N"), Arg("num", <<"ma", "mb", "mc", "md", "me", "mf">>, "M"),
             Arg("null", Chars("null"), "null"), Arg("arr", Chars("[1]"), "[1]") }

Widths == {"1", "2", "9", "10", "11", "4096", "65536", "65537", "4294967297", "18446744073709551617"}
F2 == { pp[1] \o <<"%">> \o sg \o zr \o Chars(w) \o d \o pp[2] :
          pp \in { <<<<>>, <<>>>>, <<<<"x">>, <<"x">>>> },
          sg \in { <<>>, <<"-">> }, zr \in { <<>>, <<"0">> }, w \in Widths,
          d \in { <<"s">>, <<"f">>, <<"v">>, <<"%">>, <<"d">>, <<>> } }

\* Family 3: formats with 2 or 3 directives, literals between them: each directive
\* has a width text from W3 and a letter from D3 and gets an argument of the
\* kind it wants (short and long relative to the widths), so every call
\* succeeds and one directive's width / zero flag must not reach the next.
\* The format grows one directive at a time (todo = directives still to come).
W3 == {"", "3", "03", "-3", "-03", "12"}
D3 == {"s", "f", "v", "%"}
Specs3 == { Chars(w) \o <<d>> \o <<"x">> : w \in W3, d \in D3 }   \* what follows the '%'
ByName(n) == CHOOSE a \in ArgVals : a.src = n

\* Family 4: one or several LARGE fields and then the end of the format or an
\* error of every kind: a failing call must not have written the large part.
Big4 == { "%4096s", "%5000s", "%65536s", "%-5000s", "%05000s", "%3000s%3000s", "%4096s%4096s",
          "x%5000sx%5000vx", "%2000s%2000s%2000s" }
End4 == { "", "%s", "%f", "%d", "%", "%5", "%-", "%65537s", "x%sx" }
F4 == { Chars(b) \o <<"x">> \o Chars(e) : b \in Big4, e \in End4 }

VARIABLES rest,   \* families 2-4: the part of the format not yet handed to the scanner
          todo,   \* family 3: directives still to be appended to the format
          rich    \* family 3: long and short arguments (else short only)
vars == <<inp, args, mode, wneg, wzero, wval, buf, argi, out, writes, why, rest, todo, rich>>

\* candidates for the next argument when the scanner is handed byte c
ArgsFor(c) ==
  IF Len(args) >= MaxArgs THEN {NoArg}
  ELSE IF Family \in {1, 2} THEN ArgVals \cup {NoArg}
  ELSE IF Family = 3 THEN
         (IF c = "s" THEN (IF rich THEN {ByName("S"), ByName("L")} ELSE {ByName("S")})
          ELSE IF c = "f" THEN (IF rich THEN {ByName("N"), ByName("M")} ELSE {ByName("N")})
          ELSE IF c = "v" THEN (IF rich THEN {ByName("S"), ByName("M"), ByName("[1]")} ELSE {ByName("S")})
          ELSE {NoArg})
  ELSE (IF c \in {"s", "f", "v"} THEN {ByName("S"), NoArg} ELSE {NoArg})

Init == /\ PInit(<<>>)
        /\ rest \in (CASE Family = 1 -> {<<>>} [] Family = 2 -> F2 [] Family = 3 -> {<<"x">>} [] Family = 4 -> F4)
        /\ todo \in (IF Family = 3 THEN {2, 3} ELSE {0})
        /\ rich = (Big \/ todo = 2)

Next == /\ UNCHANGED rich
        /\ IF Family = 1
           THEN \/ /\ Len(inp) < MaxLen
                   /\ \E c \in Alphabet : Step(c, ArgsFor(c))
                   /\ UNCHANGED <<rest, todo>>
                \/ End /\ UNCHANGED <<rest, todo>>
           ELSE \/ /\ rest # <<>>
                   /\ Step(Head(rest), ArgsFor(Head(rest)))
                   /\ rest' = Tail(rest) /\ UNCHANGED todo
                \/ /\ rest = <<>> /\ todo > 0          \* the format goes on with one more directive
                   /\ Step("%", {NoArg})
                   /\ \E sp \in Specs3 : rest' = sp
                   /\ todo' = todo - 1
                \/ rest = <<>> /\ todo = 0 /\ End /\ UNCHANGED <<rest, todo>>

\* ------------------------------------------------------------------------
\* Laws over every reachable state
TypeOK ==
  /\ mode \in Scanning \cup {"Fail"} \cup Terminal
  /\ wval \in 0..TooWide /\ wneg \in BOOLEAN /\ wzero \in BOOLEAN
  /\ argi \in 0..Len(args) /\ writes \in {0, 1}
  /\ why \in {"", "wide", "missing", "kind", "badwidth", "unknown", "dangling"}

\* stdout is touched only by Emit, once, and never by a failing call
WriteOnce ==
  /\ (writes = 1) <=> (mode = "Done")
  /\ mode # "Done" => out = <<>>
  /\ mode = "Done" => out = buf
  /\ (why # "") <=> (mode \in {"Fail", "Failed"})

\* the buffer is the literal bytes and one field per completed directive, in order
LitsOf(ps) == [i \in 1..Len(SelectSeq(ps, LAMBDA p : p.t = "lit")) |-> SelectSeq(ps, LAMBDA p : p.t = "lit")[i].c]
Flds(ps) == SelectSeq(ps, LAMBDA p : p.t = "fld")
BufShape ==
  /\ argi = Len(SelectSeq(Flds(buf), LAMBDA p : p.d # "%"))
  /\ \A i \in 1..Len(Flds(buf)) : Flds(buf)[i].w <= MaxWidth
  /\ mode \in Scanning => LitsOf(buf) = RefLits(inp, 1)

\* padding: exactly max(|w|, len) bytes, the rendering kept whole at the right
\* end (w > 0) or the left end (w < 0), the rest pad bytes; no width, no change
PadLaw(p, pol) ==
  LET span == Expand(PieceRuns(p, pol))
      n == Len(p.r)
  IN IF ~Applies(p, pol) THEN span = p.r
     ELSE /\ Len(span) = Max2(p.w, n)
          /\ IF p.neg
             THEN /\ SubSeq(span, 1, n) = p.r
                  /\ \A i \in (n + 1)..Len(span) : span[i] = PadCh(p, pol)
             ELSE /\ SubSeq(span, Len(span) - n + 1, Len(span)) = p.r
                  /\ \A i \in 1..(Len(span) - n) : span[i] = PadCh(p, pol)
          /\ PadCh(p, pol) = "0" => p.zero
          /\ (p.zero /\ ~p.neg) => PadCh(p, pol) = "0"

RECURSIVE FieldMin(_)
FieldMin(fs) == IF fs = <<>> THEN 0
                ELSE (IF Head(fs).d \in {"s", "f"} THEN Max2(Head(fs).w, Len(Head(fs).r)) ELSE Len(Head(fs).r))
                     + FieldMin(Tail(fs))

BigWidth == \E i \in 1..Len(buf) : buf[i].w > 600

\* the open points can only matter where a %v, a %% or a "-0" width occurs
Sensitive(ps) == \E i \in 1..Len(ps) :
                    ps[i].t = "fld" /\ (ps[i].d \in {"v", "%"} \/ (ps[i].neg /\ ps[i].zero))
LawPolicies == IF mode = "Done" /\ Sensitive(out) THEN Policies ELSE {CodePolicy}

Finished ==
  mode \in Terminal =>
    /\ ~Sensitive(out) => \A pol \in Policies : OutRuns(pol) = OutRuns(CodePolicy)
    /\ \A pol \in LawPolicies :
      LET ref == RefPrintf(inp, args, pol) IN
      /\ ref.ok = (mode = "Done")
      /\ mode = "Done" =>
           /\ ref.used = argi
           /\ RunsLen(OutRuns(pol)) = Len(ref.bytes)
           /\ RunsLen(OutRuns(pol)) >= Len(RefLits(inp, 1)) + FieldMin(Flds(out))
           /\ LitsOf(out) = RefLits(inp, 1)
           /\ ~BigWidth => /\ Expand(OutRuns(pol)) = ref.bytes
                           /\ \A i \in 1..Len(out) : out[i].t = "fld" => PadLaw(out[i], pol)
      /\ mode = "Failed" => /\ OutRuns(pol) = <<>>
                            /\ writes = 0

Laws == TypeOK /\ WriteOnce /\ BufShape /\ Finished

\* Action properties
IsPrefix(a, b) == Len(a) <= Len(b) /\ SubSeq(b, 1, Len(a)) = a
BufMonotone == [][IsPrefix(buf, buf') /\ Len(buf') <= Len(buf) + 1]_vars
WriteOnlyAtEmit == [][(writes' # writes \/ out' # out) => (mode = "Literal" /\ mode' = "Done" /\ out' = buf /\ inp' = inp)]_vars
FailStep == (mode = "Fail") => (mode' \in {"Fail", "Failed"} /\ buf' = buf /\ argi' = argi /\ why' = why)
FailAbsorbs == [][FailStep]_vars
ArgsStep == /\ argi' \in {argi, argi + 1}
            /\ IsPrefix(args, args') /\ Len(args') <= Len(args) + 1
            /\ (argi' = argi + 1) => (Len(args') = argi' /\ Len(buf') = Len(buf) + 1 /\ buf'[Len(buf')].r = args'[argi'].r)
            /\ (Len(args') = Len(args) + 1 /\ argi' = argi) => (mode' = "Fail" /\ why' = "kind")
ArgsInOrder == [][ArgsStep]_vars
ByteStep == (mode \in Scanning \cup {"Fail"}) => (Len(inp') = Len(inp) + 1 \/ (inp' = inp /\ mode' \in Terminal))
EveryByteConsumed == [][ByteStep]_vars

\* ------------------------------------------------------------------------
\* outs[k+1] is the output under policy k (bit 0: width applies to %v, bit 1: to
\* %%, bit 2: zero flag with a negative width); entries equal to outs[1] are 0.
PolOf(k) == [v |-> (k % 2 = 1), pct |-> ((k \div 2) % 2 = 1), zneg |-> ((k \div 4) % 2 = 1)]
Vec == mode \in Terminal =>
  LET base == OutRuns(PolOf(0)) IN
  Emit([fam |-> Family, fmt |-> inp, args |-> [i \in 1..Len(args) |-> args[i].src],
        cls |-> Class,
        outs |-> [k \in 1..8 |-> IF k > 1 /\ OutRuns(PolOf(k - 1)) = base THEN <<0>> ELSE OutRuns(PolOf(k - 1))],
        why |-> why])
=============================================================================
