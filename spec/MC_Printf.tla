----------------------------- MODULE MC_Printf -----------------------------
(* C18: the printf scanner of JqPrintf explored by TLC.                     *)
(* Family 1: the environment hands the scanner ANY next byte of Alphabet   *)
(*   (or the end of the format) while the format is shorter than MaxLen,   *)
(*   and ANY next argument (or none) when a directive asks for one, so BFS *)
(*   visits every format of <= MaxLen bytes with every argument list of    *)
(*   <= MaxArgs values as far as the scanner looks at it (arguments it     *)
(*   never examines are appended by the harness in every possible way).    *)
(* Family 2: the format is one of F2 (a single directive, widths around    *)
(*   the limits), fed to the same scanner byte by byte.                    *)
(* Family 3: formats of 2 or 3 directives with widths from {none, 3, 03, -3, *)
(*   -03, 12}, letters s f v %, literals between them, arguments of the    *)
(*   right kind, short and long: a directive's width and zero flag must    *)
(*   not reach a later directive.                                          *)
(* Family 4: large fields (4096, 5000, 65536 bytes; several fields) and    *)
(*   then the end of the format or an error of every kind.                 *)
(* Family 5: one directive (after nothing or after a %s that succeeds) x    *)
(*   every width form x every KIND of value the language has, reached in     *)
(*   every way a value can reach an argument (literal, variable, element,    *)
(*   member, call result, input document, missing element / member).         *)
(* Family 6: one directive x NUMBERS of every class of the number rendering  *)
(*   (both zeros, small and large whole numbers either side of 2^53 and of   *)
(*   2^63, fractions, renderings longer than 17 digits) x widths placed      *)
(*   around the length of THAT rendering x the ways a number is produced.    *)
(*   The rendering is JqValue.NumText (the one number rendering of the       *)
(*   language: print, concatenation, %v and %f share it).                    *)
(* Every state is checked against the laws below; every finished call      *)
(* (mode Done/Failed) is emitted as a vector.                              *)
EXTENDS JqPrintf
CONSTANTS MaxLen, MaxArgs, Family, Big
V == INSTANCE JqValue

Alphabet == {"%", "s", "f", "v", "d", "-", "0", "5", "x"}

\* Argument values.  The bytes of the two strings and the two numbers are
\* opaque symbols ("sa","sb": the 2 bytes of the short string; "la".."lf": the 6
\* bytes of the long one; "na": the 1-byte number; "ma".."mf": the 6-byte
\* number), instantiated per seed by the harness; only their lengths (2 and 6
\* around the width 5, 1 and 6) matter to the model.  Likewise "x" (a literal
\* byte) and "d" (a letter that is no directive) in the format alphabet.
Arg(kind, r, src) == [kind |-> kind, r |-> r, src |-> src]
ArgVals == { Arg("str", <<"sa", "sb">>, "S"), Arg("str", <<"la", "lb", "lc", "ld", "le", "lf">>, "L"),
             Arg("num", <<"na">>, "N"), Arg("num", <<"ma", "mb", "mc", "md", "me", "mf">>, "M"),
             Arg("null", Chars("null"), "null"), Arg("arr", Chars("[1]"), "[1]") }

Widths == {"1", "2", "9", "10", "11", "4096", "65536", "65537", "4294967297", "18446744073709551617"}
F2 == { pp[1] \o <<"%">> \o sg \o zr \o Chars(w) \o d \o pp[2] :
          pp \in { <<<<>>, <<>>>>, <<<<"x">>, <<"x">>>> },
          sg \in { <<>>, <<"-">> }, zr \in { <<>>, <<"0">> }, w \in Widths,
          d \in { <<"s">>, <<"f">>, <<"v">>, <<"%">>, <<"d">>, <<>> } }

\* Family 3: formats with 2 or 3 directives, literals between them: each directive
\* has a width text from W3 and a letter from D3 and gets an argument of the
\* kind it wants (short and long relative to the widths), so every call
\* succeeds and one directive's width / zero flag must not reach the next.
\* The format grows one directive at a time (todo = directives still to come).
W3 == {"", "3", "03", "-3", "-03", "12"}
D3 == {"s", "f", "v", "%"}
Specs3 == { Chars(w) \o <<d>> \o <<"x">> : w \in W3, d \in D3 }   \* what follows the '%'
ByName(n) == CHOOSE a \in ArgVals : a.src = n

\* Family 4: one or several LARGE fields and then the end of the format or an
\* error of every kind: a failing call must not have written the large part.
Big4 == { "%4096s", "%5000s", "%65536s", "%-5000s", "%05000s", "%3000s%3000s", "%4096s%4096s",
          "x%5000sx%5000vx", "%2000s%2000s%2000s" }
End4 == { "", "%s", "%f", "%d", "%", "%5", "%-", "%65537s", "x%sx" }
F4 == { Chars(b) \o <<"x">> \o Chars(e) : b \in Big4, e \in End4 }

\* Family 5: every kind of value x every way it reaches the argument list.
\* <<kind, rendering, name>>; the name of an argument is name@via.
Vals5 == { <<"str", <<"sa", "sb">>, "S">>, <<"num", <<"na">>, "N">>, <<"null", Chars("null"), "null">>,
           <<"bool", Chars("true"), "true">>, <<"arr", Chars("[1]"), "[1]">>,
           <<"obj", Chars("{\"a\": 1}"), "obj">>, <<"regex", Chars("<regex>"), "regex">> }
ViasOf(kind) ==
  {"lit", "var", "elem", "memb", "call"}
  \cup (IF kind \in {"str", "num", "null", "bool", "arr", "obj"} THEN {"json"} ELSE {})
  \cup (IF kind = "null" THEN {"noelem", "nomemb", "nojson"} ELSE {})    \* an element / member that is not there
Args5 == UNION { { Arg(t[1], t[2], t[3] \o "@" \o via) : via \in ViasOf(t[1]) } : t \in Vals5 }
         \cup { Arg("unset", Chars("<unknown>"), "unset@var"),      \* a name never assigned
                Arg("fn", <<>>, "fn@var"), Arg("fn", <<>>, "native@var") }   \* a user function, a built-in
W5 == {"", "4", "-4", "04", "12"}
F5 == { pre \o <<"%">> \o Chars(w) \o <<d, "x">> : pre \in {<<>>, Chars("%sx")}, w \in W5, d \in {"s", "f", "v"} }

\* Family 6: numbers n * 2^e (n odd, |n| < 2^31) and the two zeros.
PN(n, e) == [k |-> "num", n |-> n, d |-> 1, e |-> e, nz |-> FALSE]
Nums6Small == { V!Zero, V!NegZero, PN(1, 0), PN(-7, 0), PN(21, 1), PN(-25, 2), PN(1929, 6),
                PN(-1, -1), PN(153, -1), PN(1, -20), PN(1, -30),
                PN(1, 53), PN(3, 53), PN(1, 60), PN(-1, 62), PN(1162261467, 30), PN(2147483647, 32), PN(1, 63), PN(1, 70) }
Nums6Big == { PN(-1, 0), PN(7, 0), PN(5, 1), PN(1, 16), PN(15625, 6),
              PN(1, -1), PN(3, -1), PN(-7, -1), PN(1, -2), PN(17, -2), PN(-1, -10), PN(-3, -40), PN(1, -60),
              PN(1, 31), PN(1, 32), PN(2147483647, 22), PN(-1, 53), PN(1, 54), PN(1, 62), PN(-1, 63), PN(-2147483647, 32),
              PN(1, 64), PN(1220703125, 13), PN(1, 100), PN(5, 60), PN(3, 61), PN(-5, 59), PN(7, 55), PN(1162261467, 25) }
Nums6 == Nums6Small \cup (IF Big THEN Nums6Big ELSE {})
\* The print form of a number is the SHORTEST decimal that reads back as the same
\* double, in positional notation.  Where that is not the exact expansion (more
\* than 15 significant digits) it is a leaf fact <<|n|, e, text>>; LongOK below ties
\* each to the exact expansion, the harness proves each shortest with exact arithmetic.
PfLong == { <<1, -30, "0.0000000009313225746154785">>, <<3, -40, "0.0000000000027284841053187847">>,
            <<1, -60, "0.0000000000000000008673617379884035">>,
            <<1, 60, "1152921504606847000">>, <<1, 62, "4611686018427388000">>, <<1162261467, 30, "1247968747541495800">>,
            <<1, 63, "9223372036854776000">>, <<2147483647, 32, "9223372032559809000">>, <<1, 64, "18446744073709552000">>,
            <<1, 70, "1180591620717411300000">>, <<1, 100, "1267650600228229400000000000000">>,
            <<5, 60, "5764607523034235000">>, <<3, 61, "6917529027641082000">>, <<5, 59, "2882303761517117400">>,
            <<7, 55, "252201579132747780">>, <<1162261467, 25, "38999023360671740">> }
PfNumText(x) ==
  (IF V!IsNeg(x) THEN <<"-">> ELSE <<>>)
  \o V!AbsText(x, { <<p[1], Chars(p[3])>> : p \in {q \in PfLong : q[1] = V!Abs(x.n) /\ q[2] = x.e} })
NumName(x) == "n" \o ToString(x.n) \o "e" \o ToString(x.e) \o (IF x.nz THEN "z" ELSE "")
Vias6 == IF Big THEN {"lit", "var", "json", "jsonexp", "arith"} ELSE {"lit", "json", "arith"}
Args6 == { Arg("num", PfNumText(x), NumName(x) \o "@" \o via) : x \in Nums6, via \in Vias6 }
\* widths around the length of the rendering, in every written form
Forms6 == IF Big THEN {"", "-", "0", "-0"} ELSE {"", "-", "0"}
Deltas6 == {-1, 0, 1, 3}
WText(n) == V!DigText(V!Rev(V!DigitsLE(n)))
Specs6(a) == { <<>> } \cup { Chars(f) \o WText(Len(a.r) + dl) : f \in Forms6, dl \in Deltas6 }
F6(a) == { <<"x", "%">> \o w \o <<d, "x">> : w \in Specs6(a), d \in {"f", "v", "s"} }

VARIABLES rest,   \* families 2-6: the part of the format not yet handed to the scanner
          todo,   \* family 3: directives still to be appended to the format
          rich,   \* family 3: long and short arguments (else short only)
          pick    \* family 6: the number of this call (else NoArg)
vars == <<inp, args, mode, wneg, wzero, wval, buf, argi, out, writes, why, rest, todo, rich, pick>>

\* candidates for the next argument when the scanner is handed byte c
ArgsFor(c) ==
  IF Len(args) >= MaxArgs THEN {NoArg}
  ELSE IF Family \in {1, 2} THEN ArgVals \cup {NoArg}
  ELSE IF Family = 3 THEN
         (IF c = "s" THEN (IF rich THEN {ByName("S"), ByName("L")} ELSE {ByName("S")})
          ELSE IF c = "f" THEN (IF rich THEN {ByName("N"), ByName("M")} ELSE {ByName("N")})
          ELSE IF c = "v" THEN (IF rich THEN {ByName("S"), ByName("M"), ByName("[1]")} ELSE {ByName("S")})
          ELSE {NoArg})
  ELSE IF Family = 4 THEN (IF c \in {"s", "f", "v"} THEN {ByName("S"), NoArg} ELSE {NoArg})
  ELSE IF Family = 5 THEN
         (IF Len(rest) > 2 THEN {ByName("S")}          \* the %s in front
          \* a function handed to %v: the statement says "any value", the language refuses to
          \* pass functions around at all; left open
          ELSE {a \in Args5 : c = "v" => a.kind # "fn"} \cup {NoArg})
  ELSE {pick}

Init == /\ PInit(<<>>)
        /\ pick \in (IF Family = 6 THEN Args6 ELSE {NoArg})
        /\ rest \in (CASE Family = 1 -> {<<>>} [] Family = 2 -> F2 [] Family = 3 -> {<<"x">>} [] Family = 4 -> F4
                       [] Family = 5 -> F5 [] Family = 6 -> F6(pick))
        /\ todo \in (IF Family = 3 THEN {2, 3} ELSE {0})
        /\ rich = (Big \/ todo = 2)

Next == /\ UNCHANGED <<rich, pick>>
        /\ IF Family = 1
           THEN \/ /\ Len(inp) < MaxLen
                   /\ \E c \in Alphabet : Step(c, ArgsFor(c))
                   /\ UNCHANGED <<rest, todo>>
                \/ End /\ UNCHANGED <<rest, todo>>
           ELSE \/ /\ rest # <<>>
                   /\ Step(Head(rest), ArgsFor(Head(rest)))
                   /\ rest' = Tail(rest) /\ UNCHANGED todo
                \/ /\ rest = <<>> /\ todo > 0          \* the format goes on with one more directive
                   /\ Step("%", {NoArg})
                   /\ \E sp \in Specs3 : rest' = sp
                   /\ todo' = todo - 1
                \/ rest = <<>> /\ todo = 0 /\ End /\ UNCHANGED <<rest, todo>>

\* ------------------------------------------------------------------------
\* Laws over every reachable state
TypeOK ==
  /\ mode \in Scanning \cup {"Fail"} \cup Terminal
  /\ wval \in 0..TooWide /\ wneg \in BOOLEAN /\ wzero \in BOOLEAN
  /\ argi \in 0..Len(args) /\ writes \in {0, 1}
  /\ why \in {"", "wide", "missing", "kind", "badwidth", "unknown", "dangling"}

\* stdout is touched only by Emit, once, and never by a failing call
WriteOnce ==
  /\ (writes = 1) <=> (mode = "Done")
  /\ mode # "Done" => out = <<>>
  /\ mode = "Done" => out = buf
  /\ (why # "") <=> (mode \in {"Fail", "Failed"})

\* the buffer is the literal bytes and one field per completed directive, in order
LitsOf(ps) == [i \in 1..Len(SelectSeq(ps, LAMBDA p : p.t = "lit")) |-> SelectSeq(ps, LAMBDA p : p.t = "lit")[i].c]
Flds(ps) == SelectSeq(ps, LAMBDA p : p.t = "fld")
BufShape ==
  /\ argi = Len(SelectSeq(Flds(buf), LAMBDA p : p.d # "%"))
  /\ \A i \in 1..Len(Flds(buf)) : Flds(buf)[i].w <= MaxWidth
  /\ mode \in Scanning => LitsOf(buf) = RefLits(inp, 1)

\* padding: exactly max(|w|, len) bytes, the rendering kept whole at the right
\* end (w > 0) or the left end (w < 0), the rest pad bytes; no width, no change
PadLaw(p, pol) ==
  LET span == Expand(PieceRuns(p, pol))
      n == Len(p.r)
  IN IF ~Applies(p, pol) THEN span = p.r
     ELSE /\ Len(span) = Max2(p.w, n)
          /\ IF p.neg
             THEN /\ SubSeq(span, 1, n) = p.r
                  /\ \A i \in (n + 1)..Len(span) : span[i] = PadCh(p, pol)
             ELSE /\ SubSeq(span, Len(span) - n + 1, Len(span)) = p.r
                  /\ \A i \in 1..(Len(span) - n) : span[i] = PadCh(p, pol)
          /\ (PadCh(p, pol) = "0") <=> (p.zero /\ ~p.neg)
          /\ p.neg => \A i \in (n + 1)..Len(span) : span[i] = " "     \* nothing but blanks after the rendering

RECURSIVE FieldMin(_)
FieldMin(fs) == IF fs = <<>> THEN 0
                ELSE (IF Head(fs).d \in {"s", "f"} THEN Max2(Head(fs).w, Len(Head(fs).r)) ELSE Len(Head(fs).r))
                     + FieldMin(Tail(fs))

BigWidth == \E i \in 1..Len(buf) : buf[i].w > 600

\* the open points can only matter where a %v or a %% occurs
Sensitive(ps) == \E i \in 1..Len(ps) : ps[i].t = "fld" /\ ps[i].d \in {"v", "%"}
LawPolicies == IF mode = "Done" /\ Sensitive(out) THEN Policies ELSE {CodePolicy}

Finished ==
  mode \in Terminal =>
    /\ ~Sensitive(out) => \A pol \in Policies : OutRuns(pol) = OutRuns(CodePolicy)
    /\ \A pol \in LawPolicies :
      LET ref == RefPrintf(inp, args, pol) IN
      /\ ref.ok = (mode = "Done")
      /\ mode = "Done" =>
           /\ ref.used = argi
           /\ RunsLen(OutRuns(pol)) = Len(ref.bytes)
           /\ RunsLen(OutRuns(pol)) >= Len(RefLits(inp, 1)) + FieldMin(Flds(out))
           /\ LitsOf(out) = RefLits(inp, 1)
           /\ ~BigWidth => /\ Expand(OutRuns(pol)) = ref.bytes
                           /\ \A i \in 1..Len(out) : out[i].t = "fld" => PadLaw(out[i], pol)
      /\ mode = "Failed" => /\ OutRuns(pol) = <<>>
                            /\ writes = 0

\* only the kind of a value decides; of the kinds only a string suits %s, only a number %f
KindLaw ==
  /\ \A a \in Args5 : /\ a.kind \in ArgKinds
                      /\ KindOK("s", a) <=> (a.kind = "str")
                      /\ KindOK("f", a) <=> (a.kind = "num")
                      /\ KindOK("v", a)
  /\ {a.kind : a \in Args5} = ArgKinds
\* the argument of the wrong kind was looked at and not consumed
KindFail == why = "kind" => Len(args) = argi + 1 /\ args[Len(args)].kind \in ArgKinds

\* ---- the number renderings of family 6
\* t is e correctly rounded to its first k bytes (k: the last byte of t that is not "0"),
\* zero-filled up to the point, nothing after it beyond k
RECURSIVE IncDigs(_)
IncDigs(ds) ==          \* the digit string (with or without a point) plus one unit in its last place
  IF ds = <<>> THEN <<"1">>
  ELSE LET l == ds[Len(ds)] h == SubSeq(ds, 1, Len(ds) - 1)
       IN IF l = "." THEN IncDigs(h) \o <<".">>
          ELSE IF l = "9" THEN IncDigs(h) \o <<"0">>
          ELSE Append(h, V!DigitChar(V!DigitVal(l) + 1))
LastSig(t) == SetMax({i \in 1..Len(t) : t[i] \notin {"0", "."}})
SigCount(t) == LET nz == {i \in 1..Len(t) : t[i] \notin {"0", "."}}
               IN Cardinality({i \in SetMin(nz)..SetMax(nz) : t[i] # "."})
RoundedTo(t, e) ==
  LET k == LastSig(t)
      cut == SubSeq(e, 1, k)
      more == {i \in (k + 1)..Len(e) : e[i] # "."}
      nxt == IF more = {} THEN "0" ELSE e[SetMin(more)]
      tail0 == \A i \in more : i = SetMin(more) \/ e[i] = "0"
      up == V!DigitVal(nxt) > 5 \/ (nxt = "5" /\ ~tail0)
      dn == V!DigitVal(nxt) < 5
  IN /\ k <= Len(e)
     /\ \/ ~dn /\ SubSeq(t, 1, k) = IncDigs(cut)
        \/ ~up /\ SubSeq(t, 1, k) = cut
     /\ \A i \in (k + 1)..Len(t) : t[i] = "0"
     /\ LET pt == {i \in 1..Len(e) : e[i] = "."}
        IN IF pt = {} THEN Len(t) = Len(e) ELSE k > SetMin(pt) /\ Len(t) = k
LongOK ==
  \A p \in PfLong :
    LET x == PN(p[1], p[2]) t == Chars(p[3]) e == V!ExactText(x)
    IN /\ x = V!Num(p[1], 1, p[2])
       /\ t # e /\ RoundedTo(t, e)
       /\ SigCount(t) \in 16..17 /\ SigCount(e) > SigCount(t)
NumLaw ==
  /\ \A x \in Nums6 : /\ x.n = 0 \/ x = V!Num(x.n, 1, x.e)                      \* normal form: the name is the number
                      /\ V!IsNeg(x) <=> (Head(PfNumText(x)) = "-")              \* negative zero shows its sign
                      /\ PfNumText(V!Neg(x)) # PfNumText(x)
                      /\ Len(PfNumText(x)) <= 8 => V!ParseNum(PfNumText(x)) = [ok |-> TRUE, v |-> x]   \* reads back
                      /\ PfNumText(x) = V!NumText(x) \/ \E p \in PfLong : p[1] = V!Abs(x.n) /\ p[2] = x.e
                      /\ (x.n # 0 /\ SigCount(V!ExactText(x)) > 17) => \E p \in PfLong : p[1] = V!Abs(x.n) /\ p[2] = x.e
  /\ \A x, y \in Nums6 : x # y => PfNumText(x) # PfNumText(y)
  /\ PfNumText(V!NegZero) = Chars("-0") /\ PfNumText(PN(-1, 62)) = Chars("-4611686018427388000")
ASSUME KindLaw
ASSUME Family = 6 => LongOK /\ NumLaw

Laws == TypeOK /\ WriteOnce /\ BufShape /\ Finished /\ KindFail

\* Action properties
IsPrefix(a, b) == Len(a) <= Len(b) /\ SubSeq(b, 1, Len(a)) = a
BufMonotone == [][IsPrefix(buf, buf') /\ Len(buf') <= Len(buf) + 1]_vars
WriteOnlyAtEmit == [][(writes' # writes \/ out' # out) => (mode = "Literal" /\ mode' = "Done" /\ out' = buf /\ inp' = inp)]_vars
FailStep == (mode = "Fail") => (mode' \in {"Fail", "Failed"} /\ buf' = buf /\ argi' = argi /\ why' = why)
FailAbsorbs == [][FailStep]_vars
ArgsStep == /\ argi' \in {argi, argi + 1}
            /\ IsPrefix(args, args') /\ Len(args') <= Len(args) + 1
            /\ (argi' = argi + 1) => (Len(args') = argi' /\ Len(buf') = Len(buf) + 1 /\ buf'[Len(buf')].r = args'[argi'].r)
            /\ (Len(args') = Len(args) + 1 /\ argi' = argi) => (mode' = "Fail" /\ why' = "kind")
ArgsInOrder == [][ArgsStep]_vars
ByteStep == (mode \in Scanning \cup {"Fail"}) => (Len(inp') = Len(inp) + 1 \/ (inp' = inp /\ mode' \in Terminal))
EveryByteConsumed == [][ByteStep]_vars

\* ------------------------------------------------------------------------
\* outs[k+1] is the output under policy k (bit 0: width applies to %v, bit 1: to
\* %%); entries equal to outs[1] are 0.
PolOf(k) == [v |-> (k % 2 = 1), pct |-> ((k \div 2) % 2 = 1)]
Vec == mode \in Terminal =>
  LET base == OutRuns(PolOf(0)) IN
  Emit([fam |-> Family, fmt |-> inp, args |-> [i \in 1..Len(args) |-> args[i].src],
        cls |-> Class,
        outs |-> [k \in 1..4 |-> IF k > 1 /\ OutRuns(PolOf(k - 1)) = base THEN <<0>> ELSE OutRuns(PolOf(k - 1))],
        rend |-> pick.r,
        why |-> why])
=============================================================================
