---------------------------- MODULE Trace_Stream ----------------------------
(* C03, binding B: validates reader/decoder/writer event traces recorded from *)
(* the real EvalProgram against JqStream, reusing its actions.  The file      *)
(* c03trace.ndjson holds many runs one after the other:                       *)
(*   {"e":"reset","stream":[bytes],"fault":{"kind":k,"at":p}}  a new run       *)
(*   {"e":"rc","d":D,"p":P}   Read called: D bytes delivered, P values' output written *)
(*   {"e":"rr","n":N}         Read returned N > 0 bytes                        *)
(*   {"e":"re","s":S}         Read returned "eof" / "ioerr"                    *)
(*   {"e":"dec"}              Decode handed out a value (hook Decoded)         *)
(*   {"e":"proc"}             its rules have run to completion                 *)
(*   {"e":"end","class":C,"p":P}  EvalProgram returned ok / json, P values' output written *)
(* Every event must be the JqStream action of the same name, enabled in the   *)
(* current state; the invariants of JqStream are evaluated in every state.    *)
(* Accepted iff the last line is reached (POSTCONDITION, one worker).         *)
EXTENDS JqStream

Trace == ndJsonDeserialize("c03trace.ndjson")

VARIABLE l            \* next trace line
tvars == <<vars, l>>

Is(e) == l <= Len(Trace) /\ Trace[l].e = e
Ev == Trace[l]

Load(ev) ==
  /\ stream' = ev.stream
  /\ fault' = ev.fault
  /\ scan' = ScanAll(Readable(ev.stream, ev.fault))

Init ==
  /\ Trace[1].e = "reset"
  /\ stream = Trace[1].stream
  /\ fault = Trace[1].fault
  /\ scan = ScanAll(Readable(Trace[1].stream, Trace[1].fault))
  /\ StartState
  /\ l = 2
  /\ TLCSet(1, 2)

Advance == l' = l + 1 /\ TLCSet(1, l + 1)

TraceReset ==
  /\ Is("reset") /\ outcome # "run"
  /\ Load(Ev)
  /\ delivered' = 0 /\ inRead' = FALSE /\ rstat' = "open" /\ consumed' = 0
  /\ pending' = <<>> /\ processed' = 0 /\ emitted' = <<>> /\ outcome' = "run"
  /\ Advance

EvReadCall   == Is("rc") /\ delivered = Ev.d /\ processed = Ev.p /\ ReadCall
EvReadReturn == Is("rr") /\ ReadReturn(Ev.n)
EvReadEnd    == Is("re") /\ ReadEnd /\ rstat' = Ev.s
EvDecode     == Is("dec") /\ DecodeValue
EvProcess    == Is("proc") /\ ProcessValue
EvEnd        == Is("end") /\ processed = Ev.p
                /\ (StopJsonError \/ StopEndOfInput \/ StopSwallow)
                /\ outcome' = Ev.class

\* JqStream's invariants; also required of every successor state, so that a
\* trace that breaks one is rejected at the line where it does
AllInv == TypeOK /\ Incremental /\ NoSpeculation /\ ChunkIndependent /\ FaultReported

Next ==
  \/ TraceReset
  \/ /\ (EvReadCall \/ EvReadReturn \/ EvReadEnd \/ EvDecode \/ EvProcess \/ EvEnd)
     /\ UNCHANGED params
     /\ AllInv'
     /\ Advance

\* all lines consumed and the last run has ended
Accepted ==
  IF TLCGet(1) = Len(Trace) + 1 THEN TRUE
  ELSE PrintT(<<"TRACE-REJECTED-AT-LINE", TLCGet(1), Len(Trace)>>) /\ FALSE

EndsStopped == l = Len(Trace) + 1 => outcome # "run"
=============================================================================
