--------------------------- MODULE MC_LexProg ---------------------------
(* C13, program level: the layouts the statement permits for the programs  *)
(* of a corpus (file c13_corpus.json next to the spec: an array of texts,   *)
(* each an array of byte symbols).  The corpus text is lexed by the model;  *)
(* a variant is Layout(T, g, qs, lead, trail) with every g[i] chosen from   *)
(* Permitted.  Two ways to choose:                                          *)
(*   InitSim/NextSim  one gap (and quote) per step, nondeterministically;   *)
(*                    run with -simulate, TLC picks the gaps at random      *)
(*   InitDet/NextDet  the systematic variants of Modes (exhaustive)         *)
(* Law (every emitted variant): it lexes to the same tokens (plus one ';'   *)
(* per "semi" gap), with a newline exactly in the gaps that got one.        *)
(* Vector: program index, variant text; the harness compares its behaviour  *)
(* with that of the corpus text on the real code.                           *)
EXTENDS JqLex
CONSTANTS Shard, NShards     \* a simulation run covers the programs p with p % NShards = Shard

CorpusTexts == JsonDeserialize("c13_corpus.json")
NProg == Len(CorpusTexts)

\* lexed once (constant level): tokens, newline flags, bracket context
Prep(tx) ==
  LET r == Tokens(tx)
      T == NoNewlines(r.toks)
  IN [ok |-> ~r.err /\ ~r.open /\ Len(T) > 0, T |-> T, nl |-> NlAfter(r.toks), cx |-> Ctx(T), all |-> r.toks]
\* (built with Append so that TLC holds an explicit tuple, not a lazily re-evaluated function)
RECURSIVE PrepAll(_)
PrepAll(i) == IF i = 0 THEN <<>> ELSE Append(PrepAll(i - 1), Prep(CorpusTexts[i]))
Progs == PrepAll(NProg)

\* gap i of program p: between token i and i+1; was there a newline originally
OrigNl(p, i) == Progs[p].nl[i + 1]
Perm(p, i) == Permitted(Progs[p].T, Progs[p].cx, OrigNl(p, i), i)
Usable == {p \in 1..NProg : Progs[p].ok /\ \A i \in 1..(Len(Progs[p].T) - 1) : Perm(p, i) # {}}
OrigQuote(p, i) == LET k == Progs[p].T[i] IN IF k.tag = "Str" THEN CorpusTexts[p][k.pos] ELSE "'"
\* the original has a number written directly against a '-': the corpus text itself is mis-read under lex-minus-in-number
OrigMinusAdj(p) ==
  \E i \in 1..(Len(Progs[p].all) - 1) :
     LET a == Progs[p].all[i] b == Progs[p].all[i+1] IN
     a.tag = "Num" /\ b.pos = a.pos + a.len /\ CorpusTexts[p][b.pos + 1] = "-"

VARIABLES pi, mode, g, qs, lead, trail, done
vars == <<pi, mode, g, qs, lead, trail, done>>
N == Len(Progs[pi].T)

\* ---- random layouts (simulation)
InitSim == /\ pi \in {p \in Usable : p % NShards = Shard} /\ mode = "sim"
           /\ lead \in LeadKinds /\ trail \in TrailKinds
           /\ g = <<>> /\ qs = <<>> /\ done = FALSE
NextSim == /\ ~done
           /\ UNCHANGED <<pi, mode, lead, trail>>
           /\ LET k == Len(qs) + 1 IN
              /\ \E q \in AllowedQuotes(Progs[pi].T[k]) : qs' = Append(qs, q)
              /\ IF k < N THEN /\ \E x \in Perm(pi, k) : g' = Append(g, x)
                               /\ UNCHANGED done
                 ELSE g' = g /\ done' = TRUE

\* ---- systematic layouts
Modes == {"semi", "swap", "tight", "airy", "crlf", "tabs", "same"}
Pick(P, prefs) == prefs[CHOOSE i \in 1..Len(prefs) : prefs[i] \in P /\ \A j \in 1..(i-1) : prefs[j] \notin P]
Like(p, i) == IF OrigNl(p, i) THEN <<"nl", "sp", "semi">> ELSE <<"sp", "nl">>
DetGap(m, p, i) ==
  Pick(Perm(p, i),
    CASE m = "semi" -> <<"semi">> \o Like(p, i)
      [] m = "swap" -> Like(p, i)
      [] m = "same" -> Like(p, i)
      [] m = "tight" -> <<"none", "sp", "nl", "semi">>
      [] m = "airy" -> <<"cmt", "tab", "sp">>
      [] m = "crlf" -> <<"crnl", "cr", "sp">>
      [] m = "tabs" -> (IF OrigNl(p, i) THEN <<"cmt", "tab">> ELSE <<"tab", "cmt">>))
DetQuote(m, p, i) ==
  LET A == AllowedQuotes(Progs[p].T[i]) o == OrigQuote(p, i) IN
  IF m = "swap" /\ (Quotes \ {o}) \subseteq A THEN CHOOSE x \in Quotes : x # o ELSE o
InitDet == /\ pi \in Usable /\ mode = "det" /\ lead = "none" /\ trail = "none"
           /\ g = <<>> /\ qs = <<>> /\ done = FALSE
NextDet == /\ ~done /\ done' = TRUE /\ UNCHANGED pi
           /\ mode' \in Modes
           /\ g' = [i \in 1..(N - 1) |-> DetGap(mode', pi, i)]
           /\ qs' = [i \in 1..N |-> DetQuote(mode', pi, i)]
           /\ lead' = (IF mode' = "airy" THEN "cmt" ELSE IF mode' = "crlf" THEN "crnl" ELSE "none")
           /\ trail' = (IF mode' = "airy" THEN "cmteof" ELSE IF mode' = "crlf" THEN "crnl" ELSE IF mode' = "tabs" THEN "tab" ELSE "none")

\* ---- law
Variant == Layout(Progs[pi].T, g, qs, lead, trail)
Laws == done =>
  LET T == Progs[pi].T
      r == Tokens(Variant)
  IN /\ \A i \in 1..(N - 1) : g[i] \in Perm(pi, i)
     /\ ~r.err /\ ~r.open
     /\ Sig(r.toks) = Expected(T, g)
     /\ \A i \in 1..(N - 1) : g[i] # "semi" =>
          NlAfter(r.toks)[i + Cardinality({j \in 1..i : g[j] = "semi"}) + 1] = (g[i] \in NlKinds)
     \* the statement's exclusions, read off the variant's own tokens
     /\ \A i \in 1..(N - 1) :
          /\ (T[i].tag \in {"Print", "Return"} /\ g[i] \in NlKinds) => OrigNl(pi, i)
          /\ (T[i+1].tag = ";") => g[i] \notin NlKinds
          /\ (g[i] = "semi") => (OrigNl(pi, i) /\ T[i].tag # "}")
          /\ (OrigNl(pi, i) /\ g[i] \in WsKinds) => (~Separator(T, Progs[pi].cx, i) /\ T[i].tag \notin {"Print", "Return"})

Vec == done =>
  Emit([p |-> pi, mode |-> mode, text |-> Variant, minus |-> MinusAdjacent(Progs[pi].T, g),
        printsemi |-> BarePrintSemi(Progs[pi].T, g),
        kinds |-> {g[i] : i \in 1..(N-1)} \cup {lead, trail},
        semis |-> Cardinality({i \in 1..(N-1) : g[i] = "semi"}),
        swaps |-> Cardinality({i \in 1..N : Progs[pi].T[i].tag = "Str" /\ qs[i] # OrigQuote(pi, i)})])

\* ---- one record per corpus program (INIT InitInfo, no NEXT steps needed)
Compact(toks) == [i \in 1..Len(toks) |-> [g |-> toks[i].tag, p |-> toks[i].pos, n |-> toks[i].len, x |-> toks[i].text]]
InitInfo == /\ pi \in 1..NProg /\ mode = "info" /\ lead = "none" /\ trail = "none"
            /\ g = <<>> /\ qs = <<>> /\ done = FALSE
NextInfo == FALSE /\ UNCHANGED vars
Info == Emit([p |-> pi, ok |-> pi \in Usable, minus |-> IF Progs[pi].ok THEN OrigMinusAdj(pi) ELSE FALSE,
              toks |-> Compact(Progs[pi].all),
              \* vacuity evidence: which cases of the context scan and of Permitted this program exercises
              ctx |-> {Progs[pi].cx[i].inner : i \in 1..Len(Progs[pi].T)},
              classes |-> IF pi \in Usable THEN {GapClass(Progs[pi].T, Progs[pi].cx, OrigNl(pi, i), i) : i \in 1..(N-1)} ELSE {},
              fused |-> IF pi \in Usable THEN Cardinality({i \in 1..(N-1) : NeedsSpace(Progs[pi].T[i], Progs[pi].T[i+1])}) ELSE 0,
              seps |-> IF Progs[pi].ok THEN Cardinality({i \in 1..(N-1) : OrigNl(pi, i) /\ Separator(Progs[pi].T, Progs[pi].cx, i)}) ELSE 0])
=============================================================================
