--------------------------- MODULE MC_RenderDeep ---------------------------
(* C04, "arbitrary nesting": values that are one long chain of containers,   *)
(* up to and across the deepest nesting a document can have, against values  *)
(* that really contain themselves.                                           *)
(*                                                                            *)
(* The conversion of JqRender (ToJsonV) has no notion of depth: a tree of any *)
(* depth is written as it is, and a value is refused exactly when a          *)
(* container is on its own path.  The only depth in the universe of the       *)
(* statement is the reader's: a JSON document is "as read" only if its        *)
(* brackets nest at most Limit deep (encoding/json: 10000; the model uses a   *)
(* small Limit, the harness replays every vector at its own depth d and       *)
(* stretched to the implementation's limit + (d - Limit)).  What counts is   *)
(* the nesting of brackets: a scalar inside the innermost container, or a     *)
(* sibling next to the chain, is not a level.                                 *)
(*                                                                            *)
(* shape   d containers, level i (1 = outermost) of kind Pat[(d - i) mod p]:  *)
(*         patterns of period <= MaxPeriod, aligned at the innermost level    *)
(* bottom  "none": the innermost container is empty; "atom": it holds a scalar*)
(* sib     "no" | "before" | "after": every non-empty level also holds a      *)
(*         scalar before / after its chain slot                               *)
(* mode    "doc"   the chain is a document (a tree), passed through unchanged *)
(*         "heap"  the chain is built by a program, container i refers to     *)
(*                 container i + 1                                            *)
(*         "cycle" as heap, but the innermost container refers back to        *)
(*                 container back (1 = the root, d = itself)                  *)
EXTENDS JqRender
CONSTANTS Limit, MaxPeriod

Kinds == {"arr", "obj"}
Patterns == UNION {[1..p -> Kinds] : p \in 1..MaxPeriod}
\* a pattern that is a repetition of a shorter one describes the same chains
Primitive(pt) == \A q \in 1..(Len(pt) - 1) : ~(Len(pt) % q = 0 /\ \A i \in 1..Len(pt) : pt[i] = pt[((i - 1) % q) + 1])

VARIABLES d, pat, bottom, sib, mode, back, done
vars == <<d, pat, bottom, sib, mode, back, done>>

KindAt(i) == pat[((d - i) % Len(pat)) + 1]
Mk(i, s) == IF KindAt(i) = "arr" THEN Arr(s) ELSE Obj(s, [j \in 1..Len(s) |-> <<i, j>>])
WithSib(i, child) ==
  CASE sib = "before" -> <<Atom("a", <<i, 9>>)>> \o child
    [] sib = "after"  -> child \o <<Atom("a", <<i, 9>>)>>
    [] OTHER          -> child
Innermost == IF bottom = "atom" THEN WithSib(d, <<Atom("a", <<d, 8>>)>>) ELSE <<>>

\* the chain as a tree (a document as read)
RECURSIVE Tree(_)
Tree(i) == IF i = d THEN Mk(d, Innermost) ELSE Mk(i, WithSib(i, <<Tree(i + 1)>>))
\* the chain as a heap: one container per level
Heap == [i \in 1..d |->
           IF i < d THEN Mk(i, WithSib(i, <<Ref(i + 1)>>))
           ELSE IF mode = "cycle" THEN Mk(d, WithSib(d, <<Ref(back)>>))
           ELSE Mk(d, Innermost)]

Init == /\ d \in 1..(Limit + 1)
        /\ pat \in {pt \in Patterns : Primitive(pt)}
        /\ mode \in {"doc", "heap", "cycle"}
        /\ bottom = "atom" /\ sib = "no" /\ back = 0 /\ done = FALSE
Next == /\ ~done /\ done' = TRUE /\ UNCHANGED <<d, pat, mode>>
        /\ sib' \in {"no", "before", "after"}
        /\ IF mode = "cycle" THEN bottom' = "atom" /\ back' \in 1..d
           ELSE bottom' \in {"none", "atom"} /\ back' = 0

----------------------------------------------------------------------------
RECURSIVE ContDepth(_)
\* the number of containers on the longest way down
ContDepth(v) == IF ~IsContainer(v) THEN 0
                ELSE IF v.s = <<>> THEN 1
                ELSE 1 + SetMax({ContDepth(v.s[j]) : j \in 1..Len(v.s)})
\* what a reader with a nesting limit does: it counts open brackets
Nesting(v) == MaxDepth(Pretty(EmptyHeap, v))
ReaderAccepts(v) == Nesting(v) <= Limit

Root == IF mode = "doc" THEN Tree(1) ELSE Ref(1)
H == IF mode = "doc" THEN EmptyHeap ELSE Heap
Js == ToJsonV(H, Root)
\* what the statement fixes: "same" the value itself; "error"; "open" when
\* the text would nest deeper than any document that can be read
Class == IF mode = "cycle" THEN "error" ELSE IF d <= Limit THEN "same" ELSE "open"

Laws == done =>
  /\ ContDepth(Tree(1)) = d
  \* bracket nesting = number of containers, whatever the innermost one holds
  /\ Nesting(Tree(1)) = d
  /\ ReaderAccepts(Tree(1)) <=> (d <= Limit)
  /\ ParseJson(Pretty(EmptyHeap, Tree(1))) = Tree(1)
  \* conversion does not depend on depth ...
  /\ mode = "doc" => Js = Tree(1)
  /\ mode = "heap" => (Js = Tree(1) /\ ~CyclicFrom(H, Root) /\ Unfold(H, Root) = Tree(1))
  \* ... and a cycle is an error however long it is and wherever it closes
  /\ mode = "cycle" => (Js = Error /\ CyclicFrom(H, Root) /\ OnCycle(H, d) /\ (OnCycle(H, 1) <=> back = 1))
  /\ (Class = "error") <=> (Js = Error)
  /\ MaxDepth(Pretty(H, Root)) = d
  /\ ToJsonDev(H, Root, "empty-array-null") = (IF Js = Error THEN Error ELSE NullEmptyArrays(Js))

Vec == done =>
  Emit([mode |-> mode, d |-> d, off |-> d - Limit, pat |-> pat, bottom |-> bottom, sib |-> sib, back |-> back,
        class |-> Class,
        doc |-> EncVal(Tree(1)),
        h |-> IF mode = "doc" THEN <<>> ELSE [i \in 1..d |-> EncVal(Heap[i])],
        exp |-> EncVal(Js),
        dev |-> ("empty-array-null" :> EncVal(ToJsonDev(H, Root, "empty-array-null")))])
=============================================================================
