--------------------------- MODULE Trace_Proto ---------------------------
(* Validates recorded executions (trace.ndjson: one event per line, many    *)
(* runs one after the other, each beginning with a Start event) against     *)
(* JqProto.  Every event is logged with its arguments, so the search is a   *)
(* single path.  Accepted iff every line was consumed (POSTCONDITION).      *)
EXTENDS JqProto

Trace == ndJsonDeserialize("trace.ndjson")

VARIABLE l
tvars == <<pvars, l>>

TInit == PInit /\ l = 1

Ev == Trace[l]
Is(e) == l <= Len(Trace) /\ Ev.e = e /\ l' = l + 1

TNext ==
  \/ Is("Start") /\ Start
  \/ Is("Push") /\ Ev.s = "<root>" /\ Ev.a = 0 /\ UNCHANGED pvars   \* an evaluator (program or selector) is set up
  \/ Is("Push") /\ Ev.s # "<root>" /\ PushF(Ev.s, Ev.a)
  \/ Is("Pop") /\ PopF(Ev.a)
  \/ Is("Refuse") /\ Refuse
  \/ Is("Rule") /\ RuleStart(Ev.s, Ev.b)
  \/ Is("Pattern") /\ PatternTested
  \/ Is("Element") /\ NewElement(Ev.b)
  \/ Is("Decoded") /\ NewValue
  \/ Is("Round") /\ NewValue
  \/ Is("Raise") /\ RaiseSig(Ev.s, Ev.a)
  \/ Is("Consume") /\ ConsumeNext(Ev.a)
  \/ Is("Write") /\ Wrote
  \/ Is("Outcome") /\ Outcome(Ev.s, Ev.b = 1)

TSpec == TInit /\ [][TNext]_tvars

Matched == TLCGet("stats").diameter - 1
TraceAccepted == /\ PrintT(<<"MATCHED", Matched, Len(Trace)>>)
                 /\ Matched = Len(Trace)
=============================================================================
