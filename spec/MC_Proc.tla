----------------------------- MODULE MC_Proc -----------------------------
(* Design-level check of JqProc on a tiny universe. *)
EXTENDS JqProc
VARIABLE n
MCInit == PrInit /\ n = 0
MCNext == n < 4 /\ n' = n + 1 /\ PrNext
MCSpec == MCInit /\ [][MCNext]_<<prvars, n>>
=============================================================================
