---------------------------- MODULE Trace_Driver ----------------------------
(* C02, binding B: validation of traces recorded from the real evaluator     *)
(* against the actions of JqDriver.                                          *)
(*                                                                           *)
(* trace_driver.ndjson holds many runs one after the other.  A run is        *)
(*   {"e":"Cfg","cfg":{"rules":[{"kind":..,"haspat":..}..],"files":[[[{"n":..}..]..]..]}}   *)
(*        the configuration as the *generator* knows it: rules in source     *)
(*        order; per file, per JSON value, per selector the length of the    *)
(*        selected array root (-1: not an array)                             *)
(*   the hook events of the run, in order:                                   *)
(*        Rule{a = index within kind, s = kind}  Pattern{a = 0|1}            *)
(*        Element{a = index}  Raise{s = next|exit}  Consume{s = next}        *)
(*        Decoded{a = number of the file (1-based)}  Round (a selected root   *)
(*        is taken up)                                                       *)
(*   {"e":"End","s":class}   the outcome of EvalProgram                      *)
(* Every line must be explained by the JqDriver action it names, enabled in  *)
(* the current state with the logged outcome as parameter; actions the code  *)
(* does not log (loop exits, the single round of a non-array root, a body    *)
(* that raises nothing) are taken silently.  The invariants of JqDriver are  *)
(* checked on every state passed.  Accepted iff all lines are consumed       *)
(* (POSTCONDITION, needs -workers 1); each accepted run is also reported.    *)
EXTENDS JqDriver

Trace == ndJsonDeserialize("trace_driver.ndjson")

VARIABLES l,     \* next line of Trace
          run    \* number of runs started
tvars == <<dvars, l, run>>

Is(e) == l <= Len(Trace) /\ Trace[l].e = e
Peek(e) == l + 1 <= Len(Trace) /\ Trace[l + 1].e = e
Ev == Trace[l]

Init == Idle /\ l = 1 /\ run = 0 /\ TLCSet(1, 0) /\ TLCSet(2, 0)

\* ---- TraceReset: the next run starts
TCfg ==
  /\ Is("Cfg") /\ phase = "config"
  /\ Load(Ev.cfg.rules, Ev.cfg.files)
  /\ l' = l + 1 /\ run' = run + 1

\* ---- end of a run: the model must have finished too, the outcome is success
TEnd ==
  /\ Is("End") /\ phase = "done" /\ Ev.s = "ok"
  /\ Unload
  /\ l' = l + 1 /\ UNCHANGED run
  /\ TLCSet(1, IF TLCGet(1) > l THEN TLCGet(1) ELSE l)

Silent == Internal /\ UNCHANGED <<l, run>>

TDecoded == Is("Decoded") /\ Ev.a = fi /\ NextValue /\ l' = l + 1 /\ UNCHANGED run
TRound == Is("Round") /\ NextSelector /\ l' = l + 1 /\ UNCHANGED run
TElement == Is("Element") /\ Ev.a = ei + 1 /\ NextElement /\ l' = l + 1 /\ UNCHANGED run

\* the recorded programs write nothing through $ or to $file: every body runs with the write "none"
RunByKind(sig) == RunBegin(sig, "none") \/ RunBeginFile(sig, "none") \/ RunEndFile(sig, "none") \/ RunEnd(sig, "none")
TRulePlain ==
  /\ Is("Rule") /\ Ev.s # "P" /\ Ev.s = CurKind /\ Ev.a = ri - 1
  /\ \/ Peek("Raise") /\ Trace[l + 1].s = "exit" /\ RunByKind("exit") /\ l' = l + 2
     \/ ~Peek("Raise") /\ RunByKind("none") /\ l' = l + 1
  /\ UNCHANGED run

TTest ==
  /\ Is("Rule") /\ Ev.s = "P" /\ phase = "files" /\ level = "rule" /\ ~tested /\ ri <= N("P") /\ Ev.a = ri - 1
  /\ IF rules[part["P"][ri]].haspat
       THEN Peek("Pattern") /\ TestPattern(Trace[l + 1].a = 1) /\ l' = l + 2
       ELSE TestPattern(TRUE) /\ l' = l + 1
  /\ UNCHANGED run

TBody ==
  /\ tested
  /\ \/ Is("Raise") /\ RunBody(Ev.s, "none") /\ l' = l + 1
     \/ ~Is("Raise") /\ RunBody("none", "none") /\ l' = l
  /\ UNCHANGED run

TConsume == Is("Consume") /\ Ev.s = "next" /\ ConsumeNext /\ l' = l + 1 /\ UNCHANGED run

\* the run is over exactly when the model says so
TExit == Is("End") /\ Exit /\ UNCHANGED <<l, run>>
TFinish == Is("End") /\ Finish /\ UNCHANGED <<l, run>>

Next == TCfg \/ TEnd \/ Silent \/ TDecoded \/ TRound \/ TElement \/ TRulePlain \/ TTest \/ TBody \/ TConsume \/ TExit \/ TFinish

Spec == Init /\ [][Next]_tvars

\* one line per accepted run (evaluated once per distinct state)
Accepted == (phase = "config" /\ run > 0) => Emit([run |-> run, lines |-> l - 1])

\* the longest prefix of the trace that was matched (to localise a rejection)
Progress == TLCSet(2, IF TLCGet(2) > l - 1 THEN TLCGet(2) ELSE l - 1)

AllConsumed == Emit([run |-> 0, maxline |-> TLCGet(2)]) /\ TLCGet(1) = Len(Trace)
=============================================================================
