------------------------- MODULE Trace_RenderData -------------------------
(* Placeholder: the harness (c17.go) overwrites this module in its scratch   *)
(* copy of spec/ with the heaps it generated for the run.                    *)
EXTENDS JqRender
Heaps == <<
  <<Arr(<<Atom("n", <<1, 1>>), Ref(2), Ref(2)>>), Obj(<<Ref(1), Atom("s", <<2, 2>>)>>, <<<<2, 1>>, <<2, 2>>>>)>>,
  <<Arr(<<Ref(2), Ref(2)>>), Arr(<<>>)>>
>>
=============================================================================
