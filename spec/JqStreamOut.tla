---------------------------- MODULE JqStreamOut ----------------------------
(* C03, the writer side of the reader / decoder / writer system.              *)
(*                                                                           *)
(* JqStream counts a value as processed "with its output written" and treats  *)
(* that output as one indivisible thing.  Here the output of a value is what  *)
(* it is in the implementation: a sequence of pieces (one Write per argument  *)
(* and separator of print / printf) of ARBITRARY bytes - with or without a    *)
(* newline, empty, several lines - that travel from the rules to the caller's *)
(* writer.  The implementation may gather pieces before it hands them on      *)
(* (buf), but the statement "its output [is] written without waiting for any  *)
(* later value to arrive" forbids asking the reader for more input, and       *)
(* ending the run, while output is still held back: whatever has been         *)
(* produced is on the caller's writer whenever the run blocks in Read.        *)
(* The actions of JqStream are reused unchanged; ProcessValue is refined into *)
(* Produce* ; FinishValue, and Flush may happen at any time.                  *)
EXTENDS JqStream

VARIABLES
  outs,      \* parameter: outs[k] = the pieces the rules write for the k-th value of the stream
  piece,     \* pieces of the pending value produced so far
  buf,       \* bytes produced by the rules, not yet handed to the caller's writer
  written    \* bytes the caller's writer has received

ovars == <<piece, buf, written>>

OutStart == piece = 0 /\ buf = <<>> /\ written = <<>>

\* the output of the first k values, processed one after another
RECURSIVE OutOf(_)
OutOf(k) == IF k = 0 THEN <<>> ELSE OutOf(k - 1) \o FlattenSeq(outs[k])

\* a rule writes the next piece of the value being processed
Produce ==
  /\ outcome = "run" /\ pending # <<>>
  /\ piece < Len(outs[processed + 1])
  /\ buf' = buf \o outs[processed + 1][piece + 1]
  /\ piece' = piece + 1
  /\ UNCHANGED <<svars, written>>

\* the rules have run to completion on the pending value
FinishValue ==
  /\ pending # <<>> /\ piece = Len(outs[processed + 1])
  /\ ProcessValue
  /\ piece' = 0
  /\ UNCHANGED <<buf, written>>

\* the gathered bytes (any non-empty prefix of them) go to the caller's writer
Flush(n) ==
  /\ n \in 1..Len(buf)
  /\ written' = written \o SubSeq(buf, 1, n)
  /\ buf' = SubSeq(buf, n + 1, Len(buf))
  /\ UNCHANGED <<svars, piece>>

\* asking for input and ending the run: only with nothing held back
OutReadCall   == buf = <<>> /\ ReadCall /\ UNCHANGED ovars
OutStop       == buf = <<>> /\ (StopJsonError \/ StopEndOfInput \/ StopSwallow) /\ UNCHANGED ovars
OutReadReturn == (\E k \in 1..(Limit - delivered) : ReadReturn(k)) /\ UNCHANGED ovars
OutReadEnd    == ReadEnd /\ UNCHANGED ovars
OutDecode     == DecodeValue /\ UNCHANGED ovars

OutStep ==
  \/ OutReadCall \/ OutReadReturn \/ OutReadEnd \/ OutDecode
  \/ Produce \/ FinishValue \/ (\E n \in 1..Len(buf) : Flush(n))
  \/ OutStop

\* ---- invariants
OutTypeOK ==
  /\ piece \in 0..(IF pending = <<>> THEN 0 ELSE Len(outs[processed + 1]))
  /\ Len(outs) >= Len(scan.vals)

\* nothing is lost, reordered or invented on the way to the writer
OutOrdered ==
  written \o buf = OutOf(processed) \o
     (IF pending = <<>> THEN <<>> ELSE FlattenSeq(SubSeq(outs[processed + 1], 1, piece)))

\* blocked in Read, or stopped: the caller's writer holds exactly the output of
\* the values processed, and those are at least the values read with one
\* following byte (JqStream's Incremental) - byte for byte, whatever the last byte is
OutWritten ==
  (inRead \/ outcome # "run") =>
     /\ written = OutOf(processed)
     /\ processed >= MustCount(scan, delivered)

\* what an observer of the caller's writer may see when Read is called with d
\* bytes delivered (ended: the reader has reported a true end of input) and at the end of the run
WrittenAtRead(d, ended) ==
  {OutOf(k) : k \in MustCount(scan, d)..MayCount(scan, d, ended)}
WrittenAtEnd ==
  LET x == Expected(scan, stream, fault) IN {OutOf(k) : k \in x.lo..x.hi}

OutObservable ==
  /\ inRead => written \in WrittenAtRead(delivered, rstat = "eof")
  /\ outcome # "run" => written \in WrittenAtEnd
=============================================================================
