----------------------------- MODULE JqProc -----------------------------
(* C10: a run is a FUNCTION of its key (program text, selectors, input      *)
(* bytes), whatever ran before in the same process and in whichever         *)
(* process it happens (DESIGN.md 4.10).                                     *)
(*   memo      key -> the observation (stdout, JSON output, outcome class)  *)
(*             every run of that key must show; None before the first run   *)
(*   polluted  the set of processes in which a run has modified process-    *)
(*             level state.  The ideal interpreter has no such state: no    *)
(*             action adds to it unless a named deviation is enabled.       *)
(* Deviation "proto-pollution" (open finding only): a program that assigns  *)
(* through a method name (x = 5; x.floor = 1) overwrites a prototype table  *)
(* shared by the whole process; later runs IN THAT PROCESS that call        *)
(* methods are then unconstrained -- and nothing else is.                   *)
EXTENDS JqUtil
CONSTANTS Keys, Observations, Procs, Deviations
None == "none"
VARIABLES memo, polluted
prvars == <<memo, polluted>>

PrInit == memo = [k \in Keys |-> None] /\ polluted = {}

\* one run of key k in process p showing observation o; pollutes / usesMethods are
\* static facts about the program (ground truth from the driver)
Run(k, p, o, pollutes, usesMethods) ==
  /\ \/ memo[k] \in {None, o}
     \/ "proto-pollution" \in Deviations /\ p \in polluted /\ usesMethods
  /\ memo' = IF memo[k] = None /\ ~(p \in polluted /\ usesMethods) THEN [memo EXCEPT ![k] = o] ELSE memo
  /\ polluted' = IF "proto-pollution" \in Deviations /\ pollutes THEN polluted \cup {p} ELSE polluted

\* design-level exploration (MC_Proc.cfg): any run, any observation the memo allows
PrNext == \E k \in Keys, p \in Procs, o \in Observations, pl \in BOOLEAN, um \in BOOLEAN : Run(k, p, o, pl, um)

\* the content of C10: once observed, a key's observation never changes
Deterministic == [][\A k \in Keys : memo[k] # None => memo'[k] = memo[k]]_prvars
\* the ideal interpreter has no process-level state
NoProcessState == Deviations = {} => polluted = {}
=============================================================================
