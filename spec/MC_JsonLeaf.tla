--------------------------- MODULE MC_JsonLeaf ---------------------------
(* C04, leaves x positions x entry points: "json(v) returns valid JSON text   *)
(* that parses back to v ... all string escapes and non-ASCII text, every     *)
(* finite double", for v a scalar ITSELF and a scalar at every kind of place  *)
(* inside a container, through every way a value reaches the JSON writer.     *)
(*                                                                            *)
(* leaf   a string = a sequence of <= MaxLen code point classes of           *)
(*        JqJsonText (every class next to every class), a number of one of    *)
(*        the NumClasses, or one of the words true / false / null             *)
(* pos    where the leaf sits in the value V that is converted:               *)
(*        "arg" V is the leaf; "elem" [leaf]; "val" {k: leaf};                *)
(*        "key" {leaf: n} (strings only); "deep" [{k: [leaf]}]                *)
(* via    how V reaches the writer:                                           *)
(*        "json-var"  the leaf comes from the input, V is built by            *)
(*                    assignments, print json(V)                              *)
(*        "json-doc"  the input document is V, BEGINFILE { print json($) }   *)
(*        "json-path" the input document is V, print json(<path to the leaf>) *)
(*                    : the converted value is the leaf alone                 *)
(*        "root-var"  V built by assignments, $ = V, then -o / GetRootJson    *)
(*        "root-doc"  the document is V, identity program, -o                 *)
(*        "root-sel"  the document is V, -r <path to the leaf>, -o: the leaf  *)
(* The expectation is the model's conversion of the converted value (a tree: *)
(* the identity); for strings the vector also carries, per code point, the    *)
(* spellings JqJsonText allows, against which the harness checks the text     *)
(* the implementation wrote.                                                  *)
EXTENDS JqRender, JqJsonText
CONSTANTS MaxLen, NumClasses

Positions == {"arg", "elem", "val", "key", "deep"}
Vias == {"json-var", "json-doc", "json-path", "root-var", "root-doc", "root-sel"}
Words == {"true", "false", "null"}

VARIABLES kind, cs, pos, via, done
vars == <<kind, cs, pos, via, done>>

\* names: <<1>> the leaf (for pos "key": the key), <<2>> the safe key k,
\* <<3>> the number under the key of pos "key"
LeafAtom == Atom(IF kind = "s" THEN "s" ELSE IF kind = "n" THEN "n" ELSE "l", <<1>>)
Place(p) ==
  CASE p = "arg"  -> LeafAtom
    [] p = "elem" -> Arr(<<LeafAtom>>)
    [] p = "val"  -> Obj(<<LeafAtom>>, <<<<2>>>>)
    [] p = "key"  -> Obj(<<Atom("n", <<3>>)>>, <<<<1>>>>)
    [] OTHER      -> Arr(<<Obj(<<Arr(<<LeafAtom>>)>>, <<<<2>>>>)>>)
V == Place(pos)
\* the value that is converted: the leaf alone when a path / selector picks it
Converted == IF via \in {"json-path", "root-sel"} THEN LeafAtom ELSE V

\* two phases: Init picks the kind of leaf and where it goes, Next its content
Init == /\ kind \in {"s", "n", "l"}
        /\ pos \in Positions /\ via \in Vias
        /\ (pos = "key" => kind = "s")
        /\ (via \in {"json-path", "root-sel"} => pos \notin {"arg", "key"})
        /\ cs = <<>> /\ done = FALSE
Next == /\ ~done /\ done' = TRUE /\ UNCHANGED <<kind, pos, via>>
        /\ CASE kind = "s" -> cs' \in SeqsUpTo(CharClasses, MaxLen)
             [] kind = "n" -> \E c \in NumClasses : cs' = <<c>>
             [] OTHER      -> \E w \in Words : cs' = <<w>>

\* the table laws once per string (not per position)
Laws == done =>
  /\ TableLaws
  /\ ToJsonV(EmptyHeap, Converted) = Converted
  /\ ToJsonDev(EmptyHeap, Converted, "empty-array-null") = Converted
  /\ ~BadLeafFrom(EmptyHeap, Converted)
  /\ (IsContainer(Converted) => ParseJson(Pretty(EmptyHeap, Converted)) = Converted)
  /\ (kind = "s" /\ pos = "arg" /\ via = "json-var") => StringLaws(cs)

Vec == done =>
  Emit([kind |-> kind, cs |-> cs, pos |-> pos, via |-> via,
        v |-> EncVal(V), exp |-> EncVal(ToJsonV(EmptyHeap, Converted)),
        allowed |-> IF kind = "s" THEN [i \in 1..Len(cs) |-> FormSeq(Allowed(cs[i]))] ELSE <<>>])
=============================================================================
