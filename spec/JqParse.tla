----------------------------- MODULE JqParse -----------------------------
(* The expression grammar of jqawk (DESIGN.md 3.9, 4.3): a Pratt parser     *)
(* over a token sequence, written like src/parser.go (expressionWithPrec,  *)
(* binary, unary, assign, is, member, computedMember, call, group, array)  *)
(* so that a rejected conformance case points at one function.             *)
(*                                                                         *)
(* The grammar is the INTENDED one: the right operand of a binary operator *)
(* is parsed one level above the operator (equal levels group left to      *)
(* right), of an assignment at the assignment level (right to left).  The  *)
(* pinned code parses every right operand at the operator's own level;     *)
(* that is the named deviation "parse-right-assoc" (parameter dv).         *)
(*                                                                         *)
(* This module holds the EXPRESSION part only (property C06).  Statement   *)
(* and program parsing (C07, C11, C13) go below the marked line at the end.*)
EXTENDS JqUtil

\* ------------------------------------------------------------------ tokens
\* A token is [tag, text].  Operators and punctuation: tag = text = the
\* symbol.  Operands: tag Num / Str / Ident / true / false / null, text =
\* the spelling (for Str: the contents, without the quotes).
Tok(tag, text) == [tag |-> tag, text |-> text]
Sym(s) == Tok(s, s)
\* "Prim": one token standing for a complete primary expression of a form this grammar does not open up
\* (a match expression, an object literal, a regex literal, a postfix ++/--): like a literal it is an
\* operand and never an assignment target.  Only catalogues (MC_AssignTarget) produce it.
LitTags == {"Num", "Str", "true", "false", "null", "Prim"}

\* ------------------------------------------------- the table of 3.9
MulOps == {"*", "/", "%"}
AddOps == {"+", "-"}
CmpOps == {"==", "!=", "<", "<=", ">", ">=", "~", "!~", "is"}
LogOps == {"&&", "||"}
AssignOps == {"=", "+=", "-=", "*=", "/="}
CompoundOps == AssignOps \ {"="}
BinOps == MulOps \cup AddOps \cup CmpOps \cup LogOps \cup AssignOps
PrefixOps == {"!", "-", "+"}

PrecAssign == 1
PrecLogical == 2
PrecComparison == 3
PrecAddition == 4
PrecMultiplication == 5
PrecUnary == 7
PrecCall == 8
PrecAtom == 9

\* rule(tag).prec for a token in infix position (0: not an infix token)
InfixPrec(tag) ==
  CASE tag \in AssignOps -> PrecAssign
    [] tag \in LogOps -> PrecLogical
    [] tag \in CmpOps -> PrecComparison
    [] tag \in AddOps -> PrecAddition
    [] tag \in MulOps -> PrecMultiplication
    [] tag \in {".", "[", "("} -> PrecCall
    [] OTHER -> 0

\* ------------------------------------------------------------------- trees
Id(v) == [k |-> "id", v |-> v]                       \* variable
Ty(v) == [k |-> "ty", v |-> v]                       \* type name after `is`
Lit(tag, v) == [k |-> "lit", tag |-> tag, v |-> v]
Bin(op, l, r) == [k |-> "bin", op |-> op, l |-> l, r |-> r]
Un(op, e) == [k |-> "un", op |-> op, e |-> e]
Dot(e, v) == [k |-> "dot", e |-> e, v |-> v]         \* e.v
Idx(e, x) == [k |-> "idx", e |-> e, x |-> x]         \* e[x]
Call(f, args) == [k |-> "call", f |-> f, args |-> args]
Arr(items) == [k |-> "arr", items |-> items]
ErrTree(why, at) == [k |-> "error", v |-> why, at |-> at]

\* target of an assignment: a variable, a member or an index (3.9)
Assignable(t) == t.k \in {"id", "dot", "idx"}

\* ------------------------------------------------------------------ parser
\* Results: [ok |-> TRUE, t |-> tree (or sequence of trees), i |-> index of
\* the next token] or [ok |-> FALSE, why, i].  dv: set of deviation names.
POk(t, i) == [ok |-> TRUE, t |-> t, i |-> i]
PFail(why, i) == [ok |-> FALSE, why |-> why, i |-> i]
TagAt(toks, i) == IF i <= Len(toks) THEN toks[i].tag ELSE "EOF"

\* consume(tag)
Expect(toks, i, tag, val) ==
  IF TagAt(toks, i) = tag THEN POk(val, i + 1) ELSE PFail("expected " \o tag, i)

RECURSIVE PExpr(_, _, _, _), PInfix(_, _, _, _, _), PPrefix(_, _, _), PList(_, _, _, _, _)

\* binary(): the right operand one level up => equal levels group left to right.
\* Deviation parse-right-assoc: at the operator's own level (groups right to left).
PBinary(toks, lhs, i, dv) ==
  LET op == toks[i].tag
      rp == IF "parse-right-assoc" \in dv THEN InfixPrec(op) ELSE InfixPrec(op) + 1
      r == PExpr(toks, i + 1, rp, dv)
  IN IF r.ok THEN POk(Bin(op, lhs, r.t), r.i) ELSE r

\* assign(): target validation; right operand at the assignment level =>
\* a = b = c is a = (b = c).  The compound forms are kept as operators of the
\* tree (the implementation rewrites a += b to a = a + b, see Sexpr).
\* (dv "lax-target": without the validation - the tree a parser that does
\* not validate would build; used to tell a precedence defect from a missing
\* validation when an ungrammatical text is accepted.)
PAssign(toks, lhs, i, dv) ==
  IF ~Assignable(lhs) /\ "lax-target" \notin dv THEN PFail("InvalidAssignmentTarget", i)
  ELSE LET r == PExpr(toks, i + 1, PrecAssign, dv)
       IN IF r.ok THEN POk(Bin(toks[i].tag, lhs, r.t), r.i) ELSE r

\* is(): the right side is one type-name token, not an expression
PIs(toks, lhs, i) ==
  IF TagAt(toks, i + 1) \in {"Ident", "function", "null"}
  THEN POk(Bin("is", lhs, Ty(toks[i + 1].text)), i + 2)
  ELSE PFail("expected a type name", i + 1)

\* member(): .name
PMember(toks, lhs, i) ==
  IF TagAt(toks, i + 1) = "Ident" THEN POk(Dot(lhs, toks[i + 1].text), i + 2)
  ELSE PFail("expected Ident", i + 1)

\* computedMember(): [ expression ]   (precedence starts again inside)
PComputed(toks, lhs, i, dv) ==
  LET x == PExpr(toks, i + 1, PrecAssign, dv)
  IN IF ~x.ok THEN x ELSE Expect(toks, x.i, "]", Idx(lhs, x.t))

\* call(): ( expression list )
PCall(toks, lhs, i, dv) ==
  LET a == PList(toks, i + 1, ")", <<>>, dv)
  IN IF a.ok THEN POk(Call(lhs, a.t), a.i) ELSE a

\* evalExprList(endTag): expressions separated by commas, then endTag
PList(toks, i, endTag, acc, dv) ==
  IF TagAt(toks, i) \in {"EOF", endTag} THEN Expect(toks, i, endTag, acc)
  ELSE LET e == PExpr(toks, i, PrecAssign, dv) IN
       IF ~e.ok THEN e
       ELSE IF TagAt(toks, e.i) = "," THEN PList(toks, e.i + 1, endTag, Append(acc, e.t), dv)
            ELSE Expect(toks, e.i, endTag, Append(acc, e.t))

\* the prefix rule of the current token: literal, identifier, group, array, unary
PPrefix(toks, i, dv) ==
  LET tag == TagAt(toks, i) IN
  CASE tag \in LitTags -> POk(Lit(tag, toks[i].text), i + 1)
    [] tag = "Ident" -> POk(Id(toks[i].text), i + 1)
    [] tag = "(" ->       \* group(): the parentheses leave no node
         LET e == PExpr(toks, i + 1, PrecAssign, dv)
         IN IF ~e.ok THEN e ELSE Expect(toks, e.i, ")", e.t)
    [] tag = "[" ->       \* array()
         LET a == PList(toks, i + 1, "]", <<>>, dv)
         IN IF a.ok THEN POk(Arr(a.t), a.i) ELSE a
    [] tag \in PrefixOps ->   \* unary(): operand at PrecUnary
         LET e == PExpr(toks, i + 1, PrecUnary, dv)
         IN IF e.ok THEN POk(Un(tag, e.t), e.i) ELSE e
    [] OTHER -> PFail("unexpected token " \o tag, i)

\* the loop `for prec <= rule(current).prec { lhs = infix(lhs) }`
PInfix(toks, lhs, i, prec, dv) ==
  LET tag == TagAt(toks, i)
      q == InfixPrec(tag)
  IN IF q = 0 \/ prec > q THEN POk(lhs, i)
     ELSE LET r == CASE tag \in AssignOps -> PAssign(toks, lhs, i, dv)
                     [] tag = "is" -> PIs(toks, lhs, i)
                     [] tag = "." -> PMember(toks, lhs, i)
                     [] tag = "[" -> PComputed(toks, lhs, i, dv)
                     [] tag = "(" -> PCall(toks, lhs, i, dv)
                     [] OTHER -> PBinary(toks, lhs, i, dv)
          IN IF r.ok THEN PInfix(toks, r.t, r.i, prec, dv) ELSE r

\* expressionWithPrec(prec)
PExpr(toks, i, prec, dv) ==
  LET p == PPrefix(toks, i, dv)
  IN IF p.ok THEN PInfix(toks, p.t, p.i, prec, dv) ELSE p

\* ParseExpression(): one expression, then end of input
ParseWith(toks, dv) ==
  LET r == PExpr(toks, 1, PrecAssign, dv) IN
  IF ~r.ok THEN ErrTree(r.why, r.i)
  ELSE IF r.i # Len(toks) + 1 THEN ErrTree("expected EOF", r.i)
  ELSE r.t

ParseExpr(toks) == ParseWith(toks, {})                        \* the grammar
ParseExprDev(toks) == ParseWith(toks, {"parse-right-assoc"})  \* the pinned behaviour

\* --------------------------------------------------------------- rendering
\* level of the outermost construct of a tree
NodePrec(t) ==
  CASE t.k = "bin" -> InfixPrec(t.op)
    [] t.k = "un" -> PrecUnary
    [] t.k \in {"dot", "idx", "call"} -> PrecCall
    [] OTHER -> PrecAtom

Paren(s) == <<Sym("(")>> \o s \o <<Sym(")")>>

RECURSIVE CommaSep(_)
CommaSep(ss) ==
  IF ss = <<>> THEN <<>>
  ELSE IF Len(ss) = 1 THEN ss[1]
  ELSE ss[1] \o <<Sym(",")>> \o CommaSep(Tail(ss))

\* two of the type names `is` takes are keywords with a token of their own (is(): consume(Ident, Function,
\* Null)): as an OPERAND `null` is a literal and `function` is no expression at all, after `is` both are names
KwTypeNames == {"null", "function"}
LeafTok(t) ==
  CASE t.k = "lit" -> Tok(t.tag, t.v)
    [] t.k = "ty" /\ t.v \in KwTypeNames -> Tok(t.v, t.v)
    [] OTHER -> Tok("Ident", t.v)       \* id, ty

\* Body(t, R(_,_)): the tokens of t with its direct sub-expressions rendered
\* by R(sub, least level that needs no parentheses at that place).
\* RenderP: parentheses exactly where the table requires them.
RECURSIVE RenderP(_, _)
RenderP(t, min) ==
  LET body ==
        CASE t.k = "bin" /\ t.op = "is" ->
               RenderP(t.l, PrecComparison) \o <<Sym("is"), LeafTok(t.r)>>
          [] t.k = "bin" /\ t.op \in AssignOps ->
               RenderP(t.l, PrecCall) \o <<Sym(t.op)>> \o RenderP(t.r, PrecAssign)
          [] t.k = "bin" ->
               RenderP(t.l, InfixPrec(t.op)) \o <<Sym(t.op)>> \o RenderP(t.r, InfixPrec(t.op) + 1)
          [] t.k = "un" -> <<Sym(t.op)>> \o RenderP(t.e, PrecUnary)
          [] t.k = "dot" -> RenderP(t.e, PrecCall) \o <<Sym("."), Tok("Ident", t.v)>>
          [] t.k = "idx" -> RenderP(t.e, PrecCall) \o <<Sym("[")>> \o RenderP(t.x, PrecAssign) \o <<Sym("]")>>
          [] t.k = "call" ->
               RenderP(t.f, PrecCall) \o <<Sym("(")>> \o
               CommaSep([j \in 1..Len(t.args) |-> RenderP(t.args[j], PrecAssign)]) \o <<Sym(")")>>
          [] t.k = "arr" ->
               <<Sym("[")>> \o CommaSep([j \in 1..Len(t.items) |-> RenderP(t.items[j], PrecAssign)]) \o <<Sym("]")>>
          [] OTHER -> <<LeafTok(t)>>
  IN IF NodePrec(t) < min THEN Paren(body) ELSE body

Render(t) == RenderP(t, PrecAssign)

\* FullParen: every operator application (binary, prefix, member, index,
\* call) is enclosed in parentheses; operands and type names stay bare.
RECURSIVE FullP(_)
FullP(t) ==
  CASE t.k = "bin" /\ t.op = "is" -> Paren(FullP(t.l) \o <<Sym("is"), LeafTok(t.r)>>)
    [] t.k = "bin" -> Paren(FullP(t.l) \o <<Sym(t.op)>> \o FullP(t.r))
    [] t.k = "un" -> Paren(<<Sym(t.op)>> \o FullP(t.e))
    [] t.k = "dot" -> Paren(FullP(t.e) \o <<Sym("."), Tok("Ident", t.v)>>)
    [] t.k = "idx" -> Paren(FullP(t.e) \o <<Sym("[")>> \o FullP(t.x) \o <<Sym("]")>>)
    [] t.k = "call" ->
         Paren(FullP(t.f) \o <<Sym("(")>> \o CommaSep([j \in 1..Len(t.args) |-> FullP(t.args[j])]) \o <<Sym(")")>>)
    [] t.k = "arr" -> <<Sym("[")>> \o CommaSep([j \in 1..Len(t.items) |-> FullP(t.items[j])]) \o <<Sym("]")>>
    [] OTHER -> <<LeafTok(t)>>

FullParen(t) == FullP(t)

\* number of operator applications in a tree
RECURSIVE Size(_)
SumSizes(ts) == LET RECURSIVE S(_) S(j) == IF j = 0 THEN 0 ELSE Size(ts[j]) + S(j - 1) IN S(Len(ts))
Size(t) ==
  CASE t.k = "bin" -> 1 + Size(t.l) + Size(t.r)
    [] t.k = "un" -> 1 + Size(t.e)
    [] t.k = "dot" -> 1 + Size(t.e)
    [] t.k = "idx" -> 1 + Size(t.e) + Size(t.x)
    [] t.k = "call" -> 1 + Size(t.f) + SumSizes(t.args)
    [] t.k = "arr" -> SumSizes(t.items)
    [] OTHER -> 0

\* ------------------------------------------- the tree as the hook prints it
\* lang.VerifExprSexpr (src/verif_on.go): (op l r), (pre! e), (. e (name x)),
\* ([ e x), (call f args), (id a), (num 8), (str "s"), true/false/null.  The
\* parser rewrites  l += r  to  l = l + r  (rewriteCompundAssingment).
CompoundBase(op) == CASE op = "+=" -> "+" [] op = "-=" -> "-" [] op = "*=" -> "*" [] op = "/=" -> "/"

\* An opaque primary ("Prim" token: a complete primary expression this grammar does not open up) is
\* spelled by its program text; the hook prints the primary's own tree: (re "s") for a regex literal,
\* (str "s") for a string literal in single quotes, (obj ("k" v) ...) for an object literal,
\* (match subject (case (patterns) (expr body)) ...) for a match expression.  The primaries the
\* catalogue of MC_Parse uses:
PrimSexpr(text) ==
  CASE text = "/s/" -> "(re \"s\")"
    [] text = "'s'" -> "(str \"s\")"
    [] text = "{k: 7}" -> "(obj (\"k\" (num 7)))"
    [] text = "match (2) { 2 => 5 }" -> "(match (num 2) (case ((num 2)) (expr (num 5))))"
    [] OTHER -> "(prim " \o text \o ")"

RECURSIVE Sexpr(_), SexprList(_)
SexprList(ts) ==
  IF ts = <<>> THEN ""
  ELSE IF Len(ts) = 1 THEN Sexpr(ts[1])
  ELSE Sexpr(ts[1]) \o " " \o SexprList(Tail(ts))
Sexpr(t) ==
  CASE t.k \in {"id", "ty"} -> "(id " \o t.v \o ")"
    [] t.k = "lit" -> (CASE t.tag = "Num" -> "(num " \o t.v \o ")"
                         [] t.tag = "Str" -> "(str \"" \o t.v \o "\")"
                         [] t.tag = "Prim" -> PrimSexpr(t.v)
                         [] OTHER -> t.tag)
    [] t.k = "bin" ->
         IF t.op \in CompoundOps
         THEN "(= " \o Sexpr(t.l) \o " (" \o CompoundBase(t.op) \o " " \o Sexpr(t.l) \o " " \o Sexpr(t.r) \o "))"
         ELSE "(" \o (IF t.op = "is" THEN "Is" ELSE t.op) \o " " \o Sexpr(t.l) \o " " \o Sexpr(t.r) \o ")"
    [] t.k = "un" -> "(pre" \o t.op \o " " \o Sexpr(t.e) \o ")"
    [] t.k = "dot" -> "(. " \o Sexpr(t.e) \o " (name " \o t.v \o "))"
    [] t.k = "idx" -> "([ " \o Sexpr(t.e) \o " " \o Sexpr(t.x) \o ")"
    [] t.k = "call" -> "(call " \o Sexpr(t.f) \o " " \o SexprList(t.args) \o ")"
    [] t.k = "arr" -> "(arr " \o SexprList(t.items) \o ")"
    [] OTHER -> "(syntax-error)"

\* ===========================================================================
\* Statement and program parsing (ParseProgram, C07/C11/C13) goes below this
\* line; nothing above depends on it.

\* ------------------------------------------------------------ expression sites
\* The places where the statement grammar (src/parser.go: statement, printStatement, parseRule, parseFunction,
\* and the primaries array, object, computedMember, call, match, group) calls expression().  The grammar of
\* expressions is context free: the SAME token sequence means the SAME tree at every site, and the expression
\* ends where the site's terminator stands (a token that is no infix operator).  A site is described by program
\* text around the expression and by the tree the hook VerifProgSexpr prints around the expression's tree:
\*   kind "stmt": a statement  pre E post  in a BEGIN block; tree (prog (rule BeginRule - (block  tpre E tpost )))
\*   kind "fn":   function kk9() { pre E post };               tree (prog (function kk9 () (block  tpre E tpost )))
\*   kind "pat":  a rule  pre E post  (E is the rule's pattern); tree (prog  tpre E tpost )
\* term: the token after E ("EOF": nothing follows).  nofirst: "{" where E must not START with a curly bracket (there
\* the statement grammar looks at the first token before it calls expression(): `{` opens a block).
ExprSite(name, kind, pre, post, tpre, tpost, term, nofirst) ==
  [name |-> name, kind |-> kind, pre |-> pre, post |-> post, tpre |-> tpre, tpost |-> tpost, term |-> term, nofirst |-> nofirst]
ExprSites == <<
  ExprSite("print", "stmt", "print ", "", "(print ", ")", "}", ""),
  ExprSite("print-first", "stmt", "print ", ", 1", "(print ", " (num 1))", ",", ""),
  ExprSite("print-last", "stmt", "print 1, ", "", "(print (num 1) ", ")", "}", ""),
  ExprSite("if", "stmt", "if (", ") print \"T\"; else print \"F\"", "(if ", " (print (str \"T\")) (print (str \"F\")))", ")", ""),
  ExprSite("while", "stmt", "while (", ") { print \"T\"; break }", "(while ", " (block (print (str \"T\")) (break)))", ")", ""),
  ExprSite("for-init", "stmt", "for (", "; false; 0) {}", "(for ", " false (num 0) (block ))", ";", ""),
  ExprSite("for-cond", "stmt", "for (0; ", "; 0) { print \"T\"; break }", "(for (num 0) ", " (num 0) (block (print (str \"T\")) (break)))", ";", ""),
  ExprSite("for-post", "stmt", "for (n9 = 0; n9 < 1; ", ") n9 = n9 + 1",
           "(for (= (id n9) (num 0)) (< (id n9) (num 1)) ", " (expr (= (id n9) (+ (id n9) (num 1)))))", ")", ""),
  ExprSite("for-in", "stmt", "for (q9 in ", ") print \"it\", q9", "(forin (id q9) ", " (print (str \"it\") (id q9)))", ")", ""),
  ExprSite("statement", "stmt", "", "", "(expr ", ")", "}", "{"),
  ExprSite("argument", "stmt", "print idf(", ")", "(print (call (id idf) ", "))", ")", ""),
  ExprSite("argument-last", "stmt", "print ids(1, ", ")", "(print (call (id ids) (num 1) ", "))", ")", ""),
  ExprSite("item-first", "stmt", "print [", ", 1][0]", "(print ([ (arr ", " (num 1)) (num 0)))", ",", ""),
  ExprSite("item-last", "stmt", "print [1, ", "][1]", "(print ([ (arr (num 1) ", ") (num 1)))", "]", ""),
  ExprSite("object-value", "stmt", "print {k: ", "}.k", "(print (. (obj (\"k\" ", ")) (name k)))", "}", ""),
  ExprSite("object-value-first", "stmt", "print {k: ", ", j: 1}.k", "(print (. (obj (\"k\" ", ") (\"j\" (num 1))) (name k)))", ",", ""),
  ExprSite("index", "stmt", "print r9[", "]", "(print ([ (id r9) ", "))", "]", ""),
  ExprSite("match-subject", "stmt", "print match (", ") { z9 => z9 }", "(print (match ", " (case ((id z9)) (expr (id z9)))))", ")", ""),
  ExprSite("case-body", "stmt", "print match (1) { z9 => ", " }", "(print (match (num 1) (case ((id z9)) (expr ", "))))", "}", "{"),
  ExprSite("case-body-first", "stmt", "print match (1) { 2 => 0, z9 => ", ", 3 => 0 }",
           "(print (match (num 1) (case ((num 2)) (expr (num 0))) (case ((id z9)) (expr ", ")) (case ((num 3)) (expr (num 0)))))", ",", "{"),
  ExprSite("group", "stmt", "print (", ")", "(print ", ")", ")", ""),
  ExprSite("return", "fn", "return ", "", "(return ", ")", "}", ""),
  ExprSite("pattern", "pat", "", " { print \"T\" }", "(rule PatternRule ", " (block (print (str \"T\"))))", "{", "{"),
  ExprSite("pattern-alone", "pat", "", "", "(rule PatternRule ", " (print ))", "EOF", "{")
>>

\* expression() called where the tokens toks are followed by the terminator term
ParseAtSite(toks, term) ==
  IF term = "EOF" THEN PExpr(toks, 1, PrecAssign, {}) ELSE PExpr(toks \o <<Sym(term)>>, 1, PrecAssign, {})
=============================================================================
