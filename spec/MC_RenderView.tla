--------------------------- MODULE MC_RenderView ---------------------------
(* C04 / C17: array values that share their storage but differ in length or  *)
(* start (JqRender "view").  In the pinned implementation an array value is  *)
(* a slice header; `b = a` copies the header, `b.pop()` / `b.popfirst()`     *)
(* change only b's: a and b are then two arrays - print, length() and        *)
(* iteration show different elements - over one storage.  json(), -o and     *)
(* print owe each of them ITS OWN elements wherever it is met, also when     *)
(* several of them are reachable from the one value being written.  (A       *)
(* conversion that works per STORAGE - a memo, a "seen" table, a cache keyed  *)
(* by the identity the cycle test uses - writes the second one with the      *)
(* first one's elements.)                                                    *)
(*                                                                            *)
(* Universe: one storage B (container 2: an array of L <= MaxL slots holding *)
(* distinct atoms; variant "leaf": its last slot refers to an object, so that *)
(* windows share a container) and the root (container 1: array or object of  *)
(* 1..MaxSlots slots).  A root slot is an atom, a view of B - EVERY window    *)
(* (off, len) with off + len <= L, including the whole array and the empty    *)
(* windows at every offset - or a one-slot array / object wrapper around     *)
(* such a view (the view one level further down).  So: every pair (triple)   *)
(* of windows over one storage, in every order, at both depths.              *)
(* The harness realises a window by the history that produces it (reference  *)
(* copy, then pop / popfirst in a seeded order, through a variable or in      *)
(* place) and confirms by length() probes that the implementation has the    *)
(* values the model speaks of before it compares.                            *)
EXTENDS JqRender
CONSTANTS MaxL, MaxSlots, Classes, Wrappers, BaseKinds

VARIABLES L, bk, h, done
vars == <<L, bk, h, done>>

Windows(n) == {w \in (0..n) \X (0..n) : w[1] + w[2] <= n}     \* <<off, len>>
\* what a root slot is chosen from
SlotChoices(n) ==
  {[c |-> "atom", cl |-> cl] : cl \in Classes}
  \cup {[c |-> "view", w |-> w] : w \in Windows(n)}
  \cup {[c |-> "wrap", k |-> k, w |-> w] : k \in Wrappers, w \in Windows(n)}

\* container ids: 1 root, 2 storage, 3 the leaf object of the storage (variant "leaf"), then the wrappers
LeafId == 3
Base(n, kind) ==
  Arr([j \in 1..n |-> IF kind = "leaf" /\ j = n THEN Ref(LeafId) ELSE Atom("a", <<2, j>>)])
Leaf == Obj(<<Atom("a", <<3, 1>>)>>, <<<<3, 1>>>>)

\* the heap for a root of kind rk whose slots are the choices cs
WrapIdx(cs, j) == Cardinality({i \in 1..j : cs[i].c = "wrap"})
Build(n, kind, rk, cs) ==
  LET nw == WrapIdx(cs, Len(cs))
      slot(j) == CASE cs[j].c = "atom" -> Atom(cs[j].cl, <<1, j>>)
                   [] cs[j].c = "view" -> View(2, cs[j].w[1], cs[j].w[2])
                   [] OTHER -> Ref(3 + WrapIdx(cs, j))
      root == IF rk = "arr" THEN Arr([j \in 1..Len(cs) |-> slot(j)])
              ELSE Obj([j \in 1..Len(cs) |-> slot(j)], [j \in 1..Len(cs) |-> <<1, j>>])
      wrapper(k) == LET j == CHOOSE i \in 1..Len(cs) : cs[i].c = "wrap" /\ WrapIdx(cs, i) = k
                        vw == View(2, cs[j].w[1], cs[j].w[2])
                    IN IF cs[j].k = "arr" THEN Arr(<<vw>>) ELSE Obj(<<vw>>, <<<<3 + k, 1>>>>)
  IN [i \in 1..(3 + nw) |->
        CASE i = 1 -> root
          [] i = 2 -> Base(n, kind)
          [] i = 3 -> Leaf          \* unreferenced when the storage holds atoms only
          [] OTHER -> wrapper(i - 3)]

Init == /\ L \in 1..MaxL /\ bk \in BaseKinds
        /\ h = <<>> /\ done = FALSE
Next == /\ ~done /\ done' = TRUE /\ UNCHANGED <<L, bk>>
        /\ \E rk \in {"arr", "obj"}, k \in 1..MaxSlots :
             \E cs \in [1..k -> SlotChoices(L)] :
                \* at least one view: everything else is MC_Render's universe
                /\ \E j \in 1..k : cs[j].c # "atom"
                /\ h' = Build(L, bk, rk, cs)

----------------------------------------------------------------------------
Root == Ref(1)
\* all view values in the heap
ViewsIn(c) == {c.s[j] : j \in {i \in 1..Len(c.s) : c.s[i].t = "view"}}
AllViews == UNION {ViewsIn(h[i]) : i \in 1..Len(h)}
WindowOf(t, w) == SubSeq(t, w.off + 1, w.off + w.len)

Laws == done =>
  LET js == ToJsonV(h, Root)
      pr == Pretty(h, Root)
      whole == ToJsonV(h, Ref(2))
  IN
  \* no cycles in this universe: the value is written, and print shows no <circular reference>
  /\ js # Error /\ whole # Error
  /\ Count(pr, LAMBDA tk : tk = Circ) = 0
  \* a view is written with its own elements: the window of the storage's tree, of its own length
  /\ \A w \in AllViews :
       LET jw == ToJsonV(h, w) IN
       /\ jw = Arr(WindowOf(whole.s, w))
       /\ Len(jw.s) = w.len
       /\ Pretty(h, w) = Pretty(EmptyHeap, jw)
  \* two views are written alike iff they show the same elements (the atoms of the storage are distinct)
  /\ \A w1, w2 \in AllViews :
       (ToJsonV(h, w1) = ToJsonV(h, w2)) <=> (w1.len = w2.len /\ (w1.len = 0 \/ w1.off = w2.off))
  \* compositional: the tree of a container is made of the trees of its slots, whatever was converted before
  /\ \A i \in 1..Len(h) : i # 3 \/ bk = "leaf" =>
       LET ji == ToJsonV(h, Ref(i)) IN \A j \in 1..Len(h[i].s) : ji.s[j] = ToJsonV(h, h[i].s[j])
  \* the independent unfolding (substitution, no path logic) gives the same tree
  /\ js = Unfold(h, Root)
  /\ pr = Pretty(EmptyHeap, js)
  \* re-readable
  /\ ParseJson(pr) = js

Vec == done =>
  Emit([h |-> [i \in 1..Len(h) |-> EncVal(h[i])], bk |-> bk,
        exp |-> EncVal(ToJsonV(h, Root)),
        out |-> EncToks(PrintStmt(h, <<Root>>, Root))])
=============================================================================
