---------------------------- MODULE MC_MatchEnv ----------------------------
(* C19, match inside a program: every case list of the universe below x     *)
(* every body scheme (one TLC state each) against EVERY subject source       *)
(* (Sources: ~70 expressions: literals of every kind, variables, a name      *)
(* never set, elements 0..4 of a 3-element array held by a variable and by   *)
(* the input document, object members present / missing by number and by     *)
(* name, call results, function names, method values, each of them also      *)
(* through the binding of an enclosing match, and $ running over JSON values *)
(* of every kind).  Number literals of the patterns include every index the  *)
(* sources use (0..4, 7), string literals the name of the missing member zz. *)
(*   phase 1 (Init): the case list; static laws of Eval / EnvCmp             *)
(*   phase 2 (Next): the body scheme; laws of the selection and of the body; *)
(*                   one vector (per applicable source: admitted outcomes)   *)
(* Source text and output are emitted as tokens the harness concatenates     *)
(* ("," -> ", ", ":" -> ": ", "=>" -> " => "; "@x" "@y" "@u": identifiers   *)
(* instantiated per seed; "%T" "%U" "%E" "%W": scratch names unique per      *)
(* match; "%ARGS": the arguments of the call body, per source).              *)
EXTENDS JqMatchEnv
CONSTANT Big        \* FALSE: quick, TRUE: thorough (all ordered pairs of literals)
JM == INSTANCE JqMatch

\* ---- sources
S(e)    == [e |-> e, mode |-> "doc", dollar |-> Doc]
Each(v) == [e |-> EDollar, mode |-> "each", dollar |-> v]
Gar == EVar("Gar")   Gob == EVar("Gob")   Gsv == EVar("Gsv")   Nosuch == EVar("Nosuch")
DArr == EMem(EDollar, "arr")   DObj == EMem(EDollar, "obj")
OA1 == Obj(<<Str("a"), Num(1)>>)
A12 == Arr(<<Num(1), Num(2)>>)
Plain == << ELit(Num(0)), ELit(Num(3)), ELit(Str("a")), ELit(Bool(TRUE)), ELit(Null),
            ELit(Arr(<<>>)), ELit(A12), ELit(Obj(<<>>)), ELit(OA1),
            Gar, Gob, Gsv, Nosuch,
            EIdx(Gar, 0), EIdx(Gar, 1), EIdx(Gar, 2), EIdx(Gar, 3), EIdx(Gar, 4),
            EIdx(DArr, 0), EIdx(DArr, 1), EIdx(DArr, 2), EIdx(DArr, 3), EIdx(DArr, 4),
            EIdx(Gob, 3), EIdx(Gob, 7), EIdx(Gob, 0), EIdx(DObj, 3), EIdx(DObj, 7),
            EMem(Gob, "a"), EMem(Gob, "n"), EMem(Gob, "zz"), EMem(DObj, "zz"), EMem(EDollar, "num"), EMem(EDollar, "nokey"),
            ECall(EIdx(Gar, 3)), ECall(EIdx(Gar, 0)), ECall(EIdx(DObj, 7)), ECall(Gar), ECall(EMem(Gob, "zz")),
            EFn("Fu"), EFn("num"), EFn("json"), EFn("printf"), EMem(Gsv, "length"), EMem(Gar, "length"), EMem(DArr, "length") >>
Rebound == << EIdx(Gar, 3), EIdx(Gar, 4), EIdx(DArr, 3), EIdx(Gob, 7), EIdx(DObj, 0), EMem(Gob, "zz"), EIdx(Gar, 1), ELit(Num(3)),
              ECall(EIdx(Gar, 4)), Gar, Nosuch, EFn("Fu"), EFn("num"), EMem(Gsv, "length") >>
EachVals == << Num(0), Num(1), Num(3), Str("a"), Bool(TRUE), Bool(FALSE), Null, Arr(<<>>), A12,
               Arr(<<Num(1), Num(2), Num(0)>>), Obj(<<>>), OA1 >>
Sources == [j \in 1..Len(Plain) |-> S(Plain[j])] \o [j \in 1..Len(Rebound) |-> S(EBind(Rebound[j]))]
           \o [j \in 1..Len(EachVals) |-> Each(EachVals[j])]
NS == Len(Sources)
Vals == [s \in 1..NS |-> Eval(Sources[s].e, Sources[s].dollar)]

\* ---- case lists (sequences of alternative lists)
LP == {Num(0), Num(1), Num(2), Num(3), Num(4), Num(7), Str("a"), Str("zz"), Bool(TRUE), Bool(FALSE), Null}
NN == LP \ {Null}
X == PId("x")
P0 == PArr(<<>>)
P2 == PArr(<<PId("x"), PId("y")>>)
P3 == PArr(<<PId("x"), PId("y"), PId("u")>>)
PL3(l) == PArr(<<PLit(l), PId("y"), PId("u")>>)
L(l) == <<PLit(l)>>
ListsA == {<<L(l), <<X>>>> : l \in LP}
ListsD == {<<L(l)>> : l \in LP}
ListsBq == {<<L(l), L(Null), <<X>>>> : l \in NN} \cup {<<L(Null), L(l), <<X>>>> : l \in {Num(0), Num(3)}}
ListsB == IF Big THEN {<<L(l[1]), L(l[2]), <<X>>>> : l \in {m \in LP \X LP : m[1] # m[2]}} ELSE ListsBq
ListsC == {<< <<PLit(l), PLit(Null)>>, <<X>> >> : l \in NN} \cup {<< <<PLit(Null), PLit(l)>>, <<X>> >> : l \in NN}
ListsE == { << <<P3>>, <<P0>>, <<X>> >>,  << <<PL3(Num(1))>>, <<X>> >>,  << <<PL3(Num(0))>>, <<P3>> >>,
            << <<P0, X>> >>,  << <<P2>>, L(Null), <<X>> >>,  << <<PLit(Null), X>> >>,  << <<X, PLit(Null)>> >>,
            << <<X>> >>,  << <<P3, PLit(Null)>>, <<X>> >>,  << L(Null), <<P0>>, <<P3>> >>,
            << <<PArr(<<PLit(Null), PId("y")>>)>>, L(Null), <<X>> >> }
AllLists == ListsA \cup ListsD \cup ListsB \cup ListsC \cup ListsE

Schemes == {"const", "name", "new", "newblk", "unset", "forin", "update", "nested", "call"}
Common(alts) == {n \in {"x", "y", "u"} : \A i \in 1..Len(alts) : n \in I!PatNames(alts[i])}
First(C) == IF "x" \in C THEN "x" ELSE IF "y" \in C THEN "y" ELSE "u"
SchemeBody(sch, alts) ==
  IF sch \in {"name", "call"}
  THEN (IF Common(alts) = {} THEN Body("const", "") ELSE Body(sch, First(Common(alts))))
  ELSE Body(sch, "")

VARIABLES lists, scheme, done
vars == <<lists, scheme, done>>
Init == lists \in AllLists /\ scheme = "" /\ done = FALSE
Next == ~done /\ done' = TRUE /\ UNCHANGED lists /\ scheme' \in Schemes

CasesOf(sch) == [k \in 1..Len(lists) |-> [alts |-> lists[k], body |-> SchemeBody(sch, lists[k])]]
Cases == CasesOf(scheme)
AllLits == UNION {UNION {PatLits(lists[k][i]) : i \in 1..Len(lists[k])} : k \in 1..Len(lists)}

\* the runs the statement fixes: a function meets no non-null literal; the call body
\* is for function subjects; the printed form of a function / of unset is not used
Applicable(s) ==
  LET v == Vals[s] IN
  /\ (v.k = "fn" => AllLits \subseteq {Null})
  /\ (scheme = "call" => v.k = "fn")
  /\ (scheme = "name" => v.k \notin {"fn", "unset"})
App == {s \in 1..NS : Applicable(s)}

\* ------------------------------------------------------------------------
\* Laws, phase 1: the values the sources denote and the comparison
Kinds == {"num", "str", "bool", "null", "arr", "obj", "fn", "unset"}
StaticLaws == ~done =>
  /\ {Vals[s].k : s \in 1..NS} = Kinds
  \* an element at or past the length, a key that is absent: null, whatever the base and the way there
  /\ \A i \in 0..4 : \A b \in {1, 2} :
       LET base == IF b = 1 THEN Gar ELSE DArr
           want == IF i < 3 THEN GarV.a[i + 1] ELSE Null
       IN /\ Eval(EIdx(base, i), Doc) = want
          /\ Eval(ECall(EIdx(base, i)), Doc) = want /\ Eval(EBind(EIdx(base, i)), Doc) = want
  /\ Eval(EIdx(Gob, 3), Doc) = Num(2) /\ Eval(EIdx(Gob, 7), Doc) = Null /\ Eval(EMem(Gob, "zz"), Doc) = Null
  /\ Eval(EMem(Gob, "n"), Doc) = Null /\ Eval(Nosuch, Doc) = Unset /\ Eval(EMem(EDollar, "num"), Doc) = Num(4)
  \* on the kinds of JqMatch the comparison is JqMatch's
  /\ \A s \in 1..NS : Vals[s].k \in {"num", "str", "bool", "null", "arr"} =>
       \A l \in LP : EnvCmp(Vals[s], l) = JM!LitCmp(Vals[s], l)
  \* null equals the null literal only, and only null does; unset equals nothing
  /\ \A s \in 1..NS : \A l \in LP :
       /\ (EnvCmp(Vals[s], Null) = "eq") <=> (Vals[s] = Null)
       /\ Vals[s] = Null => (EnvCmp(Vals[s], l) = (IF l = Null THEN "eq" ELSE "ne"))
       /\ Vals[s].k = "unset" => EnvCmp(Vals[s], l) = "ne"
       /\ Vals[s].k = "obj" => EnvCmp(Vals[s], l) = (IF l = Null THEN "ne" ELSE "err")
  \* the deviation differs on unset subjects only
  /\ \A s \in 1..NS : \A l \in LP : DevCmp(Vals[s], l) # EnvCmp(Vals[s], l) => Vals[s].k = "unset"

\* Laws, phase 2
HasTopId(k) == \E i \in 1..Len(lists[k]) : lists[k][i].t = "id"
SelLaws == done =>
  \A s \in App :
    LET v == Vals[s]
        n == Len(lists)
        o == MatchEnv(v, Cases, "lenient", {})
        M == {k \in 1..n : \E i \in 1..Len(lists[k]) : DMatches(v, lists[k][i])}
        body == Cases[o.sel].body
    IN \* the statement's wording: the least case one of whose patterns matches; null when none
       /\ o.cls = "ok" /\ o.sel = (IF M = {} THEN 0 ELSE SetMin(M))
       /\ o.sel = 0 => (o.val = Null /\ o.trace = <<>> /\ o.gc = 0)
       \* an identifier matches anything: a case with a top-level identifier is never passed over
       /\ \A k \in 1..n : HasTopId(k) => (o.sel >= 1 /\ o.sel <= k)
       \* only an identifier matches a function, an unset value or an object (lenient reading)
       /\ (v.k \in {"fn", "unset", "obj"} /\ o.sel > 0) => HasTopId(o.sel)
       \* null: the first case with a null literal or an identifier at top level
       /\ v = Null =>
            LET N == {k \in 1..n : \E i \in 1..Len(lists[k]) : lists[k][i].t = "id" \/ lists[k][i] = PLit(Null)}
            IN o.sel = (IF N = {} THEN 0 ELSE SetMin(N))
       \* the readings differ only for containers meeting a non-null literal; nothing else errs
       /\ \A rd \in I!Readings :
            LET r == MatchEnv(v, Cases, rd, {}) IN
            /\ r # o => (v.k \in {"arr", "obj"} /\ ~(AllLits \subseteq {Null}))
            /\ r.cls = "runtime" => (r.trace = <<>> /\ r.gc = 0)
       \* the body does not influence the selection
       /\ MatchEnv(v, CasesOf("const"), "lenient", {}).sel = o.sel
       \* the selected body is evaluated: its value, its output, its effect on Gc
       /\ o.sel > 0 =>
            /\ (o.gc = 1) <=> (body.kind = "update")
            /\ IsBlock(body) => o.val = Null
            /\ body.kind \in {"const", "new", "nested"} => (o.val = CStr(o.sel) /\ o.trace = <<>>)
            /\ body.kind = "newblk" => o.trace = <<MLine(KStr(o.sel))>>
            /\ body.kind = "forin" => Len(o.trace) = 2
            /\ body.kind = "name" => \E j \in 0..Len(v.a) : o.val = (IF j = 0 THEN v ELSE v.a[j])
            /\ body.kind = "call" => (v.k = "fn" /\ o.val = CallFn(v).val)
       \* the deviation: only an unset subject meeting a literal whose number is 0
       /\ \A rd \in I!Readings :
            MatchEnv(v, Cases, rd, {"match-unset-as-zero"}) # MatchEnv(v, Cases, rd, {}) =>
              (v.k = "unset" /\ \E l \in AllLits : l # Null /\ NumOf(l) = 0)

Laws == StaticLaws /\ SelLaws

\* ------------------------------------------------------------------------
\* Tokens
RECURSIVE JoinC(_)
JoinC(ss) == IF ss = <<>> THEN <<>> ELSE IF Len(ss) = 1 THEN ss[1] ELSE ss[1] \o <<",">> \o JoinC(Tail(ss))

\* printed form (top: a string at top level prints raw; inside a container as JSON); also the JSON text of an input value
RECURSIVE ValToks(_, _)
ValToks(v, top) ==
  CASE v.k = "num" -> <<ToString(v.n)>>
    [] v.k = "str" -> (IF top THEN <<v.s>> ELSE <<"\"", v.s, "\"">>)
    [] v.k = "bool" -> <<IF v.n = 1 THEN "true" ELSE "false">>
    [] v.k = "null" -> <<"null">>
    [] v.k = "arr" -> <<"[">> \o JoinC([j \in 1..Len(v.a) |-> ValToks(v.a[j], FALSE)]) \o <<"]">>
    [] v.k = "obj" -> <<"{">> \o JoinC([j \in 1..(Len(v.a) \div 2) |->
                                        <<"\"", v.a[2 * j - 1].s, "\"", ":">> \o ValToks(v.a[2 * j], FALSE)]) \o <<"}">>

\* a value written in the program
RECURSIVE LitSrc(_)
LitSrc(v) ==
  CASE v.k = "str" -> <<"'", v.s, "'">>
    [] v.k = "arr" -> <<"[">> \o JoinC([j \in 1..Len(v.a) |-> LitSrc(v.a[j])]) \o <<"]">>
    [] v.k = "obj" -> <<"{">> \o JoinC([j \in 1..(Len(v.a) \div 2) |->
                                        <<"\"", v.a[2 * j - 1].s, "\"", ":">> \o LitSrc(v.a[2 * j])]) \o <<"}">>
    [] OTHER -> ValToks(v, TRUE)

RECURSIVE ETok(_)
ETok(e) ==
  CASE e.e = "lit" -> LitSrc(e.v)
    [] e.e = "var" -> <<e.name>>
    [] e.e = "dollar" -> <<"$">>
    [] e.e = "idx" -> ETok(e.b) \o <<"[", ToString(e.i), "]">>
    [] e.e = "mem" -> ETok(e.b) \o <<".", e.name>>
    [] e.e = "call" -> <<"Idf(">> \o ETok(e.b) \o <<")">>
    [] e.e = "fn" -> <<e.name>>
    [] e.e = "bind" -> ETok(e.b)

RECURSIVE PatToks(_)
PatToks(p) ==
  CASE p.t = "lit" -> LitSrc(p.v)
    [] p.t = "id" -> <<"@" \o p.name>>
    [] p.t = "arr" -> <<"[">> \o JoinC([j \in 1..Len(p.items) |-> PatToks(p.items[j])]) \o <<"]">>

Q(v) == "'" \o v.s \o "'"
BodyToks(body, k) ==
  CASE body.kind = "const"  -> <<Q(CStr(k))>>
    [] body.kind = "name"   -> <<"@" \o body.arg>>
    [] body.kind = "new"    -> <<"(", "%T", " = ", Q(CStr(k)), ")">>
    [] body.kind = "newblk" -> <<"{ ", "%T", " = ", Q(KStr(k)), "; m(", "%T", ") }">>
    [] body.kind = "unset"  -> <<"!", "%U">>
    [] body.kind = "forin"  -> <<"{ for (", "%E", " in [", Q(KStr(k)), ",", "'j'", "]) m(", "%E", ") }">>
    [] body.kind = "update" -> <<"(Gc = Gc + 1)">>
    [] body.kind = "nested" -> <<"match (2) { 2 => (", "%T", " = ", Q(CStr(k)), ") }">>
    [] body.kind = "call"   -> <<"@" \o body.arg, "(", "%ARGS", ")">>
CaseToks(k) == JoinC([i \in 1..Len(lists[k]) |-> PatToks(lists[k][i])]) \o <<"=>">> \o BodyToks(Cases[k].body, k)

Obs(o) == [cls |-> o.cls, sel |-> o.sel, gc |-> o.gc,
           lines |-> o.trace \o (IF o.cls = "ok" THEN <<ValToks(o.val, TRUE)>> ELSE <<>>)]

GlobalNames == <<"Gar", "Gob", "Gsv">>
Vec == done =>
  Emit([scheme |-> scheme,
        cases |-> [k \in 1..Len(lists) |-> CaseToks(k)],
        globals |-> [j \in 1..Len(GlobalNames) |-> <<GlobalNames[j], " = ">> \o LitSrc(Globals[GlobalNames[j]])],
        doc |-> ValToks(Doc, FALSE),
        runs |-> {LET v == Vals[s]
                      exp == {Obs(MatchEnv(v, Cases, rd, {})) : rd \in I!Readings}
                      dev == {Obs(MatchEnv(v, Cases, rd, {"match-unset-as-zero"})) : rd \in I!Readings} \ exp
                  IN [idx |-> s, mode |-> Sources[s].mode, subj |-> ETok(Sources[s].e), wrap |-> Sources[s].e.e = "bind",
                      dollar |-> (IF Sources[s].mode = "each" THEN ValToks(Sources[s].dollar, FALSE) ELSE <<>>),
                      kind |-> v.k, args |-> (IF v.k = "fn" THEN CallFn(v).args ELSE <<>>),
                      exp |-> exp, dev |-> dev] : s \in App}])
=============================================================================
