----------------------------- MODULE MC_Splice -----------------------------
(* C11, syntax half.  Programs are token sequences.  WellFormed is a set of  *)
(* NECESSARY conditions for a token sequence to be a jqawk program (each is *)
(* implied by the grammar of README / DESIGN 3.9):                          *)
(*   no illegal character; brackets balance; a binary-only operator is not  *)
(*   followed by another binary-only operator; a literal is never assigned  *)
(*   to; `return` only inside a function body; `break`/`continue` only      *)
(*   inside the body block of a loop; a statement keyword only where a      *)
(*   statement may start.                                                   *)
(* Every host satisfies them (law); every spliced variant violates one      *)
(* (law), hence is not a program, hence must be refused with a syntax error *)
(* before anything runs (C11).  Splices: insert one of the catalogue at any *)
(* token boundary, or delete a closing bracket.                             *)
EXTENDS JqUtil

\* split an ASCII string at single spaces
RECURSIVE WordsFrom(_, _, _)
WordsFrom(cs, i, cur) ==
  IF i > Len(cs) THEN (IF cur = "" THEN <<>> ELSE <<cur>>)
  ELSE IF cs[i] = " " THEN (IF cur = "" THEN <<>> ELSE <<cur>>) \o WordsFrom(cs, i + 1, "")
  ELSE WordsFrom(cs, i + 1, cur \o cs[i])
Words(s) == WordsFrom(Chars(s), 1, "")

Hosts == <<
  Words("BEGIN { print \"a\" ; x = 1 ; print x } { y = $ . a + 1 ; print y } END { print \"z\" }"),
  Words("function f ( a , b ) { return a + b } BEGIN { print f ( 1 , 2 ) ; print \"b\" }"),
  Words("BEGIN { print match ( 1 ) { 1 => \"one\" , q => \"other\" } } END { print [ 1 , 2 ] [ 0 ] }"),
  Words("BEGIN { if ( 1 < 2 ) { print \"lt\" } else { print \"ge\" } ; print \"done\" } $ . a > 0 { print $ . a }"),
  Words("BEGIN { print \"s\" } { if ( $ ~ /a/ ) { print \"m\" } ; o = { k : 1 } ; print o . k } END { print 1 + 2 * 3 }"),
  Words("BEGIN { for ( k in [ 1 , 2 ] ) { print k } ; print \"x\" } END { n = 0 ; while ( n < 1 ) { n = n + 1 } ; print \"e\" }"),
  Words("function g ( a ) { for ( i = 0 ; i < 2 ; i = i + 1 ) { print i } ; return a } BEGIN { print g ( 1 ) } { print \"r\" }")
>>

Openers == {"(", "[", "{"}
Closers == {")", "]", "}"}
Match(o) == CASE o = "(" -> ")" [] o = "[" -> "]" [] o = "{" -> "}"
BinOnly == {"*", "%", "==", "!=", "<", "<=", ">", ">=", "&&", "||", "~", "!~", "=", "+=", "-=", "*=", "/=", "=>"}
AssignOps == {"=", "+=", "-=", "*=", "/="}
IsLiteral(t) == t \in {"1", "2", "3", "0", "\"a\"", "\"z\"", "true", "false", "null"}

RECURSIVE Bal(_, _, _)
Bal(ts, i, st) ==
  IF i > Len(ts) THEN st = <<>>
  ELSE IF ts[i] \in Openers THEN Bal(ts, i + 1, <<ts[i]>> \o st)
  ELSE IF ts[i] \in Closers THEN st # <<>> /\ Match(Head(st)) = ts[i] /\ Bal(ts, i + 1, Tail(st))
  ELSE Bal(ts, i + 1, st)
Balanced(ts) == Bal(ts, 1, <<>>)

NoIllegal(ts) == \A i \in 1..Len(ts) : ts[i] # "@"
NoBinBin(ts) == \A i \in 1..(Len(ts) - 1) : ~(ts[i] \in BinOnly /\ ts[i+1] \in BinOnly)
NoLiteralAssign(ts) == \A i \in 1..(Len(ts) - 1) : ~(IsLiteral(ts[i]) /\ ts[i+1] \in AssignOps)

\* positions (token indices) that lie inside a function body
RECURSIVE FnBody(_, _, _, _, _)
FnBody(ts, i, depth, pending, start) ==
  \* returns the set of indices inside function bodies
  IF i > Len(ts) THEN {}
  ELSE LET t == ts[i] IN
    IF t = "function" THEN FnBody(ts, i + 1, depth, TRUE, start)
    ELSE IF t = "{" THEN (IF start > 0 THEN {i} ELSE {})
                         \cup FnBody(ts, i + 1, depth + 1, FALSE, IF pending /\ start = 0 THEN depth + 1 ELSE start)
    ELSE IF t = "}" THEN (IF start > 0 THEN {i} ELSE {})
                         \cup FnBody(ts, i + 1, depth - 1, pending, IF start = depth THEN 0 ELSE start)
    ELSE (IF start > 0 THEN {i} ELSE {}) \cup FnBody(ts, i + 1, depth, pending, start)
ReturnInFn(ts) == \A i \in 1..Len(ts) : ts[i] = "return" => i \in FnBody(ts, 1, 0, FALSE, 0)
\* positions inside the body block of a loop: the block opened by the first "{" after a
\* for / while keyword (hosts never put a brace in a loop header), up to its matching "}"
RECURSIVE LoopBody(_, _, _, _, _)
LoopBody(ts, i, depth, pending, stack) ==
  IF i > Len(ts) THEN {}
  ELSE LET t == ts[i]
           here == IF stack # <<>> THEN {i} ELSE {}
       IN IF t \in {"for", "while"} THEN here \cup LoopBody(ts, i + 1, depth, TRUE, stack)
          ELSE IF t = "{" THEN here \cup LoopBody(ts, i + 1, depth + 1, FALSE, IF pending THEN <<depth + 1>> \o stack ELSE stack)
          ELSE IF t = "}" THEN here \cup LoopBody(ts, i + 1, depth - 1, pending,
                                               IF stack # <<>> /\ Head(stack) = depth THEN Tail(stack) ELSE stack)
          ELSE here \cup LoopBody(ts, i + 1, depth, pending, stack)
BreakInLoop(ts) == \A i \in 1..Len(ts) : ts[i] \in {"break", "continue"} => i \in LoopBody(ts, 1, 0, FALSE, <<>>)

\* a statement keyword only starts a statement: it is the first token or follows "{", "}", ";", ")" (the
\* header of if / while / for) or "else" -- never an operator, "=>", a comma, an opening "(" / "[", a
\* literal, a name or another keyword
StmtKw == {"print", "if", "while", "for", "next", "exit", "return", "break", "continue"}
StmtStartPrev == {"{", "}", ";", ")", "else"}
KwAtStart(ts) == \A i \in 1..Len(ts) : ts[i] \in StmtKw => (i = 1 \/ ts[i-1] \in StmtStartPrev)

\* two operands (literals, names, $) never stand next to each other: something - an operator, a comma, a
\* bracket, a keyword, a separator - is between them
Keywords == StmtKw \cup {"BEGIN", "END", "function", "match", "in", "else", "is", "true", "false", "null"}
Puncts == Openers \cup Closers \cup BinOnly \cup {"+", "-", "/", "!", ".", ",", ";", ":", "++", "--", "@", "=>"}
IsOperand(t) == t \notin Keywords /\ t \notin Puncts
\* ... inside [ ] and inside ( ) other than a parameter list (the grammar is lax about the commas of
\* parameters, object members and match cases; at rule level two operands are two rules)
RECURSIVE OpenerOf(_, _, _, _)
\* index of the innermost bracket open at position i (0: none)
OpenerOf(ts, i, j, st) ==
  IF j >= i THEN (IF st = <<>> THEN 0 ELSE Head(st))
  ELSE IF ts[j] \in Openers THEN OpenerOf(ts, i, j + 1, <<j>> \o st)
  ELSE IF ts[j] \in Closers /\ st # <<>> THEN OpenerOf(ts, i, j + 1, Tail(st))
  ELSE OpenerOf(ts, i, j + 1, st)
InList(ts, i) == LET o == OpenerOf(ts, i, 1, <<>>) IN
  o > 0 /\ (ts[o] = "[" \/ (ts[o] = "(" /\ ~(o > 2 /\ ts[o - 2] = "function")))
NoOperandPair(ts) == \A i \in 1..(Len(ts) - 1) : ~(IsOperand(ts[i]) /\ IsOperand(ts[i+1]) /\ InList(ts, i + 1))

\* the "}" that closes an object literal (a "{" that follows "=", ":", ",", "(", "[" or an operator, i.e. stands
\* where an operand is expected) ends an operand: on the same line it is not followed by a statement keyword
\* or by another operand
RECURSIVE CloserOf(_, _, _)
CloserOf(ts, j, depth) ==      \* index of the bracket that closes the one opened just before j (0: none)
  IF j > Len(ts) THEN 0
  ELSE IF ts[j] \in Openers THEN CloserOf(ts, j + 1, depth + 1)
  ELSE IF ts[j] \in Closers THEN (IF depth = 0 THEN j ELSE CloserOf(ts, j + 1, depth - 1))
  ELSE CloserOf(ts, j + 1, depth)
ObjOpen(ts, i) == ts[i] = "{" /\ i > 1 /\ ts[i-1] \in ({"=", ":", ",", "(", "[", "+", "return", "print"} \cup AssignOps)
NoStmtAfterObject(ts) == \A i \in 1..Len(ts) : ObjOpen(ts, i) =>
  LET c == CloserOf(ts, i + 1, 0) IN
  (c > 0 /\ c < Len(ts)) => ~(ts[c+1] \in StmtKw \/ IsOperand(ts[c+1]))

\* (the last condition holds only while the tokens stay on one line: a line break after the "}" separates)
WellFormedAnyLayout(ts) == /\ NoIllegal(ts) /\ Balanced(ts) /\ NoBinBin(ts) /\ NoLiteralAssign(ts)
                           /\ ReturnInFn(ts) /\ BreakInLoop(ts) /\ KwAtStart(ts) /\ NoOperandPair(ts)
WellFormed(ts) == WellFormedAnyLayout(ts) /\ NoStmtAfterObject(ts)

Catalogue == << <<"@">>, <<")">>, <<"]">>, <<"}">>, <<"(">>, <<"==", "*">>, <<"1", "=", "2">>, <<"return">>, <<"break">>, <<"continue">>,
                <<"print", "1">>, <<"next">>, <<"exit">>, <<"if", "(", "1", ")", "{", "}">>, <<"while", "(", "0", ")", "{", "}">>, <<"return", "1">> >>

VARIABLES h, pos, sp, done
vars == <<h, pos, sp, done>>
Init == h \in 1..Len(Hosts) /\ sp \in (0 - 2)..Len(Catalogue) /\ pos = 0 /\ done = FALSE
\* sp = 0: delete a closing bracket at pos; sp = -1: delete a comma or an operator between two operands at pos;
\* sp > 0: insert Catalogue[sp] after token pos
Next == /\ ~done /\ done' = TRUE /\ UNCHANGED <<h, sp>>
        /\ pos' \in IF sp = 0 THEN {i \in 1..Len(Hosts[h]) : Hosts[h][i] \in Closers}
                     ELSE IF sp = 0 - 2 THEN {i \in 2..(Len(Hosts[h]) - 1) : Hosts[h][i] = ";"}     \* sp = -2: delete a ";"
                     ELSE IF sp < 0 THEN {i \in 2..(Len(Hosts[h]) - 1) : Hosts[h][i] \in {",", "+", "*", "<", ">", "=", "~"}}
                     ELSE 0..Len(Hosts[h])

Spliced == LET ts == Hosts[h] IN
  IF sp <= 0 THEN SubSeq(ts, 1, pos - 1) \o SubSeq(ts, pos + 1, Len(ts))
  ELSE SubSeq(ts, 1, pos) \o Catalogue[sp] \o SubSeq(ts, pos + 1, Len(ts))

\* a `return` spliced into a function body, or a break / continue spliced into a loop body,
\* is no static error there: not a splice of this family
\* (likewise a statement keyword spliced in where a statement may start)
\* (and a deleted separator whose neighbours are not both operands)
Applicable == /\ ~(sp > 0 /\ Head(Catalogue[sp]) \in StmtKw /\ WellFormed(Spliced))
              /\ ~(sp < 0 /\ WellFormed(Spliced))

HostsWellFormed == \A i \in 1..Len(Hosts) : WellFormed(Hosts[i])
SplicedIllFormed == (done /\ Applicable) => ~WellFormed(Spliced)
Vec == (done /\ Applicable /\ ~WellFormed(Spliced)) =>
  Emit([host |-> h, pos |-> pos, splice |-> sp, toks |-> Spliced, oneline |-> WellFormedAnyLayout(Spliced)])
=============================================================================
