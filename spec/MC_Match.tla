----------------------------- MODULE MC_Match -----------------------------
(* C19: every case list of the bounded universe below, against all ten     *)
(* subjects.  One TLC state = one case list; the laws are checked for      *)
(* every subject and every reading; the vector carries, per subject, the   *)
(* set of outcomes the statement admits and (separately) the outcomes that *)
(* only the deviation match-array-alt-stops predicts.                      *)
(*   tier 1: one case, <= 2 alternatives (ordered) from PoolA, every body  *)
(*   tier 2: two cases, <= 2 alternatives from PoolB, six body schemes     *)
(*   tier 3: three cases, alternative lists AltsC, six body schemes        *)
(*   tier 4: "position by position": array patterns of length 2 and 3      *)
(*           whose every position holds in turn a literal, an identifier,  *)
(*           an array pattern (to depth 2), alone or followed by another   *)
(*           alternative, with and without a later catch-all case, against *)
(*           subjects whose every position holds in turn a scalar, an      *)
(*           array, an object (SubjectsP)                                  *)
(* Bodies may read names bound only by an alternative / case that does not *)
(* match (tier 1: every such name; tiers 2, 3: scheme G): the value must   *)
(* be the program's global.                                                *)
(* Source text and output are emitted as token sequences; numbers other    *)
(* than 1, the string and the identifier names are opaque atoms ("#2",     *)
(* "#5", "$a", "@x" ...) instantiated per seed by the harness.             *)
EXTENDS JqMatch
CONSTANTS Big,        \* FALSE: quick pools, TRUE: thorough pools
          Tiers       \* subset of {1, 2, 3}

N1 == Num(1)  N2 == Num(2)  N5 == Num(5)  SA == Str("a")

Subjects == << N1, N2, SA, Null, Bool(TRUE), Arr(<<>>), Arr(<<N1>>), Arr(<<N1, N2>>), Arr(<<N2, N5>>),
               Arr(<<Arr(<<N1>>), N2>>) >>
\* a container AFTER a scalar: a pattern that fails at the first position must not look at it
\* (tier 1: every ordered pair of alternatives meets these two as well)
SubjectsLate == << Arr(<<N2, Arr(<<N1>>)>>), Arr(<<N2, Obj>>) >>
\* tier 4: scalar / array / object at every position of arrays of length 2 and 3, nested to depth 3
SubjectsP == << Arr(<<N2, Arr(<<N1>>)>>), Arr(<<N1, Arr(<<N1>>)>>), Arr(<<N2, Obj>>), Arr(<<N1, Obj>>),
                Arr(<<N5, Arr(<<N1, N2>>)>>), Arr(<<N1, Arr(<<N5, Arr(<<N1>>)>>)>>), Arr(<<N2, Arr(<<N5, Obj>>)>>),
                Arr(<<N1, Arr(<<N1, Obj>>)>>),
                Arr(<<N1, N2, N5>>), Arr(<<N2, N2, Arr(<<N1>>)>>), Arr(<<N1, N5, Obj>>), Arr(<<N1, Arr(<<N1>>), Arr(<<N1>>)>>),
                Arr(<<N1, N2>>), Arr(<<N2, N5>>) >>
SubjectsOf(t) == IF t = 1 THEN Subjects \o SubjectsLate ELSE IF t = 4 THEN SubjectsP ELSE Subjects

\* ---- pattern pools.  Identifier names are fixed by position: "x" top level or
\* first element, "y" second element, "u" inside a nested array.
Lits == {PLit(N1), PLit(N2), PLit(SA), PLit(Null), PLit(Bool(TRUE))}
At1(nm) == {PLit(N1), PLit(N2), PId(nm)}
At2(nm) == {PLit(N1), PLit(N2), PLit(N5), PId(nm)}
D1 == {PArr(<<>>)} \cup {PArr(<<a>>) : a \in At1("x")} \cup {PArr(<<a, b>>) : a \in At1("x"), b \in At2("y")}
Inner == {PArr(<<>>)} \cup {PArr(<<a>>) : a \in At1("u")}
D2 == {PArr(<<i>>) : i \in Inner} \cup {PArr(<<i, b>>) : i \in Inner, b \in At2("y")}
PoolA == Lits \cup {PId("x")} \cup D1 \cup D2

PX == PId("x")
P1y == PArr(<<PLit(N1), PId("y")>>)
P2y == PArr(<<PLit(N2), PId("y")>>)
Pxy == PArr(<<PId("x"), PId("y")>>)
Px2 == PArr(<<PId("x"), PLit(N2)>>)
Pux == PArr(<<PId("x")>>)
Puy == PArr(<<PArr(<<PId("u")>>), PId("y")>>)
P1uy == PArr(<<PArr(<<PLit(N1)>>), PId("y")>>)
PoolBq == {PLit(N1), PLit(SA), PX, Pux, P1y, P2y, Puy}
PoolB == IF Big THEN PoolBq \cup {PLit(N2), PLit(Null), PArr(<<>>), Pxy, P1uy} ELSE PoolBq

AltLists(P) == {<<p>> : p \in P} \cup {pq \in P \X P : pq[1] # pq[2]}
\* [x, 2] against [2, 5] binds x and then fails at the second position: the
\* lists below let a later alternative / a later case match after that
BindThenFail == { <<Px2>>, <<Px2, P2y>> }
AltsB == AltLists(PoolB) \cup BindThenFail
AltsCq == {<<p>> : p \in PoolBq} \cup
          { <<P1y, P2y>>, <<P2y, P1y>>, <<Pux, PLit(SA)>>, <<PLit(N1), PX>>, <<Puy, P1y>>, <<Px2, P2y>> }
AltsC == IF Big
         THEN AltsCq \cup {<<p>> : p \in PoolB} \cup
              { <<PLit(SA), Pux>>, <<PLit(N1), PLit(N2)>>, <<Pxy, PLit(N1)>>, <<P1uy, P2y>>,
                <<PArr(<<>>), Pux>>, <<PLit(Null), PLit(N1)>>, <<P2y, Px2>> }
         ELSE AltsCq

\* ---- tier 4: the position pool
E1 == {PLit(N1), PLit(N2), PId("x")}
In2 == {PArr(<<PLit(N1)>>), PArr(<<PId("u")>>), PArr(<<PLit(N1), PLit(N2)>>), PArr(<<PId("u"), PLit(N2)>>),
        PArr(<<PLit(N1), PId("u")>>)}
E2 == {PLit(N1), PLit(N2), PId("y")} \cup In2
L2 == {PArr(<<a, b>>) : a \in E1, b \in E2}
L3 == {PArr(<<a, b, c>>) : a \in {PLit(N1), PId("x")}, b \in {PLit(N2), PId("y"), PArr(<<PLit(N1)>>)},
                           c \in {PLit(N1), PLit(N5), PId("u")}}
PoolP == L2 \cup L3
Pxyu == PArr(<<PId("x"), PId("y"), PId("u")>>)
CatchP == {Pxy, Pxyu, PX}
AltsP == {<<p>> : p \in PoolP} \cup {<<p, q>> : p \in PoolP, q \in CatchP}
         \cup (IF Big THEN {pq \in PoolP \X PoolP : pq[1] # pq[2]} ELSE {})
SchemesP == {"M", "B", "V", "G"}

\* names bound by every alternative of a case / by some alternative of a case
Common(alts) == {n \in {"x", "y", "u"} : \A i \in 1..Len(alts) : n \in PatNames(alts[i])}
AnyName(alts) == UNION {PatNames(alts[i]) : i \in 1..Len(alts)}
First(C) == IF "x" \in C THEN "x" ELSE IF "y" \in C THEN "y" ELSE "u"

\* tier 1: a body may read every name some alternative binds (where the matching
\* alternative does not bind it, it is the global)
BodiesA(alts) == {Body("const", ""), Body("marker", ""), Body("block", "")}
                 \cup {Body("name", n) : n \in AnyName(alts)}
                 \cup {Body("blockname", n) : n \in AnyName(alts)}

\* scheme G ("global"): the body of case k reads a name that some alternative of
\* cases 1..k binds but not every alternative of case k (seen: the names of the
\* earlier cases): a name that can only come from a pattern that did not match
Schemes == {"M", "B", "MB", "BM", "V", "G"}
SchemeBody(sch, k, alts, seen) ==
  LET C == Common(alts)
      X == (seen \cup AnyName(alts)) \ C
      blk == IF C = {} THEN Body("block", "") ELSE Body("blockname", First(C))
      val == IF C = {} THEN Body("const", "") ELSE Body("name", First(C))
      mk == Body("marker", "")
  IN CASE sch = "M" -> mk
       [] sch = "B" -> blk
       [] sch = "MB" -> IF k % 2 = 1 THEN mk ELSE blk
       [] sch = "BM" -> IF k % 2 = 1 THEN blk ELSE mk
       [] sch = "V" -> val
       [] sch = "G" -> IF X = {} THEN val
                       ELSE IF k % 2 = 1 THEN Body("name", First(X)) ELSE Body("blockname", First(X))

Case(alts, body) == [alts |-> alts, body |-> body]

VARIABLES tier, first, cases, done
vars == <<tier, first, cases, done>>

FirstLists(t) == IF t = 1 THEN AltLists(PoolA) ELSE IF t = 2 THEN AltsB ELSE IF t = 3 THEN AltsC ELSE AltsP

Init == /\ tier \in Tiers
        /\ first \in FirstLists(tier)
        /\ cases = <<>> /\ done = FALSE

Next == /\ ~done /\ done' = TRUE /\ UNCHANGED <<tier, first>>
        /\ \/ /\ tier = 1
              /\ \E b \in BodiesA(first) : cases' = <<Case(first, b)>>
           \/ /\ tier = 2
              /\ \E a2 \in AltsB, sch \in Schemes :
                   cases' = <<Case(first, SchemeBody(sch, 1, first, {})),
                              Case(a2, SchemeBody(sch, 2, a2, AnyName(first)))>>
           \/ /\ tier = 3
              /\ \E a2 \in AltsC, a3 \in AltsC, sch \in Schemes :
                   cases' = <<Case(first, SchemeBody(sch, 1, first, {})),
                              Case(a2, SchemeBody(sch, 2, a2, AnyName(first))),
                              Case(a3, SchemeBody(sch, 3, a3, AnyName(first) \cup AnyName(a2)))>>
           \/ /\ tier = 4       \* alone (nothing matches: null), or with a later catch-all case
              /\ \E sch \in SchemesP :
                   \/ cases' = <<Case(first, SchemeBody(sch, 1, first, {}))>>
                   \/ \E c \in CatchP :
                        cases' = <<Case(first, SchemeBody(sch, 1, first, {})),
                                   Case(<<c>>, SchemeBody(sch, 2, <<c>>, AnyName(first)))>>

\* ------------------------------------------------------------------------
\* Laws (for the current case list, every subject, every reading)
Dev == {"match-array-alt-stops"}
AltRes(v, k, i, rd) == MatchPat(v, cases[k].alts[i], rd).m
\* case k is reached and matches / errs (alternatives tried in order)
Hit(v, k, rd) == \E i \in 1..Len(cases[k].alts) :
                   AltRes(v, k, i, rd) = "yes" /\ \A j \in 1..(i - 1) : AltRes(v, k, j, rd) = "no"
ErrAt(v, k, rd) == \E i \in 1..Len(cases[k].alts) :
                   AltRes(v, k, i, rd) = "err" /\ \A j \in 1..(i - 1) : AltRes(v, k, j, rd) = "no"

FirstMatchLaw(v, rd) ==
  LET o == MatchExpr(v, cases, rd, {})
      n == Len(cases)
  IN /\ o.sel \in 0..n
     /\ \A j \in 1..n : (j < o.sel \/ o.sel = 0) => (~Hit(v, j, rd) /\ ~ErrAt(v, j, rd))
     /\ (o.cls = "ok" /\ o.sel > 0) => Hit(v, o.sel, rd)
     /\ (o.cls = "ok" /\ o.sel = 0) => (o.val = Null /\ o.trace = <<>> /\ ~o.blk)
     /\ o.cls = "runtime" => (o.sel > 0 /\ ErrAt(v, o.sel, rd) /\ o.trace = <<>>)
     \* the statement's wording, under the lenient reading: least case one of whose patterns matches
     /\ rd = "lenient" =>
          LET S == {k \in 1..n : \E i \in 1..Len(cases[k].alts) : AltRes(v, k, i, rd) = "yes"}
          IN o.cls = "ok" /\ o.sel = (IF S = {} THEN 0 ELSE SetMin(S))

MarkerLaw(v, rd) ==
  LET o == MatchExpr(v, cases, rd, {}) IN
  /\ Len(o.trace) <= 1
  /\ \A k \in 1..Len(cases) : k # o.sel => \A t \in 1..Len(o.trace) : o.trace[t] # KStr(k)
  /\ o.blk => (o.val = Null /\ o.sel > 0 /\ IsBlock(cases[o.sel].body))
  /\ (o.cls = "ok" /\ o.sel > 0) =>
       LET body == cases[o.sel].body IN
       /\ (body.kind = "const" => o.val = CStr(o.sel) /\ o.trace = <<>>)
       /\ (body.kind = "marker" => o.val = KStr(o.sel) /\ o.trace = <<KStr(o.sel)>>)
       /\ (body.kind = "block" => o.trace = <<KStr(o.sel)>>)
       /\ (IsBlock(body) <=> o.blk)

\* the bindings of the selected alternative are exactly its names, and putting
\* them back into the pattern gives the subject (up to == on scalars)
BindLaw(v, rd) ==
  LET o == MatchExpr(v, cases, rd, {}) IN
  (o.cls = "ok" /\ o.sel > 0) =>
    LET p == cases[o.sel].alts[o.alt]
        r == MatchPat(v, p, rd)
        body == cases[o.sel].body
    IN /\ r.m = "yes"
       /\ Bound(r.b) = PatNames(p)
       /\ Len(r.b) = Cardinality(PatNames(p))
       /\ SameUpToEq(Inst(p, r.b), v)
       \* a name denotes the binding iff the pattern that matched binds it (syntactically)
       /\ body.kind \in {"name", "blockname"} =>
            LET want == IF body.arg \in PatNames(p) THEN Lookup(r.b, body.arg) ELSE Global(body.arg)
            IN IF body.kind = "name" THEN o.val = want ELSE o.trace = <<want>>

\* the readings differ only where an array meets a non-null literal
ReadingLaw(v) ==
  (\A k \in 1..Len(cases) : \A i \in 1..Len(cases[k].alts) : ~Touchy(v, cases[k].alts[i]))
    => /\ MatchExpr(v, cases, "short", {}) = MatchExpr(v, cases, "lenient", {})
       /\ MatchExpr(v, cases, "decided", {}) = MatchExpr(v, cases, "lenient", {})
       /\ MatchExpr(v, cases, "eager", {}) = MatchExpr(v, cases, "lenient", {})

\* "matches ... position by position": an array pattern matches exactly when every position matches; a position
\* that does not match (all before it matching, or - "decided" - anywhere) makes the pattern a non-match whatever
\* the later positions hold: no admitted reading raises an error there.  (The reading "eager" breaks this law.)
RECURSIVE PosLaw(_, _, _)
PosLaw(v, p, rd) ==
  (p.t = "arr" /\ v.k = "arr" /\ Len(v.a) = Len(p.items)) =>
    LET n == Len(p.items)
        r == [i \in 1..n |-> MatchPat(v.a[i], p.items[i], rd).m]
        whole == MatchPat(v, p, rd).m
    IN /\ (whole = "yes") <=> (\A i \in 1..n : r[i] = "yes")
       /\ (\E i \in 1..n : r[i] = "no" /\ \A j \in 1..(i - 1) : r[j] = "yes") => whole = "no"
       /\ (rd = "decided" /\ \E i \in 1..n : r[i] = "no") => whole = "no"
       /\ whole = "err" => \E i \in 1..n : r[i] = "err" /\ \A j \in 1..(i - 1) : r[j] # "no"
       /\ \A i \in 1..n : PosLaw(v.a[i], p.items[i], rd)
PositionLaw(v, rd) == \A k \in 1..Len(cases) : \A i \in 1..Len(cases[k].alts) : PosLaw(v, cases[k].alts[i], rd)

\* the deviation changes the outcome only in its class: a failing array pattern
\* that is not the last alternative of its case
DevLaw(v, rd) ==
  MatchExpr(v, cases, rd, Dev) # MatchExpr(v, cases, rd, {}) =>
    \E k \in 1..Len(cases) : \E i \in 1..(Len(cases[k].alts) - 1) :
       cases[k].alts[i].t = "arr" /\ AltRes(v, k, i, rd) = "no"

CatchAllLaw(v, rd) ==
  cases[1].alts[1].t = "id" => MatchExpr(v, cases, rd, {}).sel = 1

Laws == done =>
  LET Subj == SubjectsOf(tier) IN
  \A s \in 1..Len(Subj) :
    /\ ReadingLaw(Subj[s])
    /\ \A rd \in Readings :
         /\ FirstMatchLaw(Subj[s], rd) /\ MarkerLaw(Subj[s], rd) /\ BindLaw(Subj[s], rd)
         /\ DevLaw(Subj[s], rd) /\ CatchAllLaw(Subj[s], rd) /\ PositionLaw(Subj[s], rd)

\* ------------------------------------------------------------------------
\* Tokens
NumTok(n) == CASE n = 1 -> "#1" [] n = 2 -> "#2" [] n = 5 -> "#5"
StrTok(s) == CASE s = "a" -> "$a" [] s = "k1" -> "$k1" [] s = "k2" -> "$k2" [] s = "k3" -> "$k3"
               [] s = "c1" -> "$c1" [] s = "c2" -> "$c2" [] s = "c3" -> "$c3"
               [] s = "gx" -> "$gx" [] s = "gy" -> "$gy" [] s = "gu" -> "$gu"
NameTok(n) == CASE n = "x" -> "@x" [] n = "y" -> "@y" [] n = "u" -> "@u"

RECURSIVE Join(_)
Join(ss) == IF ss = <<>> THEN <<>> ELSE IF Len(ss) = 1 THEN ss[1] ELSE ss[1] \o <<",">> \o Join(Tail(ss))

RECURSIVE ValToks(_)
ValToks(v) ==
  CASE v.k = "num" -> <<NumTok(v.n)>>
    [] v.k = "str" -> <<StrTok(v.s)>>
    [] v.k = "null" -> <<"null">>
    [] v.k = "bool" -> <<IF v.n = 1 THEN "true" ELSE "false">>
    [] v.k = "arr" -> <<"[">> \o Join([i \in 1..Len(v.a) |-> ValToks(v.a[i])]) \o <<"]">>
    [] v.k = "obj" -> <<"%o">>        \* source {z: 1}, printed {"z": 1}

RECURSIVE PatToks(_)
PatToks(p) ==
  CASE p.t = "lit" -> ValToks(p.v)
    [] p.t = "id" -> <<NameTok(p.name)>>
    [] p.t = "arr" -> <<"[">> \o Join([i \in 1..Len(p.items) |-> PatToks(p.items[i])]) \o <<"]">>

BodyToks(body, k) ==
  CASE body.kind = "const" -> <<StrTok(CStr(k).s)>>
    [] body.kind = "name" -> <<NameTok(body.arg)>>
    [] body.kind = "marker" -> <<"m(", StrTok(KStr(k).s), ")">>
    [] body.kind = "block" -> <<"{", "m(", StrTok(KStr(k).s), ")", "}">>
    [] body.kind = "blockname" -> <<"{", "m(", NameTok(body.arg), ")", "}">>

CaseToks(k) == Join([i \in 1..Len(cases[k].alts) |-> PatToks(cases[k].alts[i])]) \o <<"=>">> \o BodyToks(cases[k].body, k)

\* observable part of an outcome: class, marker lines then the printed value, block flag
Obs(o) == [cls |-> o.cls,
           lines |-> [t \in 1..Len(o.trace) |-> <<"m">> \o ValToks(o.trace[t])]
                     \o (IF o.cls = "ok" THEN <<ValToks(o.val)>> ELSE <<>>),
           blk |-> o.blk, sel |-> o.sel]

Vec == done =>
  Emit([tier |-> tier,
        cases |-> [k \in 1..Len(cases) |-> CaseToks(k)],
        blocks |-> [k \in 1..Len(cases) |-> IsBlock(cases[k].body)],
        runs |-> [s \in 1..Len(SubjectsOf(tier)) |->
           LET v == SubjectsOf(tier)[s]
               exp == {Obs(MatchExpr(v, cases, rd, {})) : rd \in Readings}
               dev == {Obs(MatchExpr(v, cases, rd, Dev)) : rd \in Readings} \ exp
           IN [subj |-> ValToks(v), exp |-> exp, dev |-> dev,
               \* does this run tell a matcher that compares every position (the reading not admitted) from the admitted ones
               eager |-> Obs(MatchExpr(v, cases, "eager", {})) \notin exp]]])
=============================================================================
