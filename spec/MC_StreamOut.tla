---------------------------- MODULE MC_StreamOut ----------------------------
(* C03: bounded universe for JqStreamOut (output of arbitrary shape).         *)
(*                                                                           *)
(* A value of the stream is a JSON array of 0..2 strings; the program writes  *)
(* every element as one piece (printf("%s", $)), or as one line (print), so   *)
(* that the bytes a value puts out are data: no output at all, text without a *)
(* newline, a newline in front / at the end / alone, an empty piece.          *)
(* Behaviours: every stream of 1..MaxVals such values (seeded slices of the   *)
(* longer ones) x separators x {no fault, end of input / I/O error at and     *)
(* after every value end} x EVERY chunking x every gathering of the pieces    *)
(* that the writer side of the specification allows.                          *)
EXTENDS JqStreamOut

CONSTANTS MaxVals, Mod2, Mod3, Salt

Q  == "\""
BS == "\\"
\* txt: the bytes between the quotes of the JSON string; out: the bytes it denotes
Pieces == <<
  [txt |-> <<"a">>,           out |-> <<"a">>],
  [txt |-> <<"b", BS, "n">>,  out |-> <<"b", NL>>],
  [txt |-> <<BS, "n", "c">>,  out |-> <<NL, "c">>],
  [txt |-> <<>>,              out |-> <<>>],
  [txt |-> <<BS, "n">>,       out |-> <<NL>>]
>>
NP == Len(Pieces)
ValShapes == UNION {[1..n -> 1..NP] : n \in 0..2}      \* 31 value shapes

RECURSIVE Elems(_, _)
Elems(v, i) ==
  IF i > Len(v) THEN <<>>
  ELSE (IF i > 1 THEN <<",">> ELSE <<>>) \o <<Q>> \o Pieces[v[i]].txt \o <<Q>> \o Elems(v, i + 1)
Text(v) == <<"[">> \o Elems(v, 1) \o <<"]">>

Seps  == <<<<>>, <<NL>>>>
Tails == <<<<>>, <<" ">>>>
Modes == {"printf", "print"}

\* the pieces written for value shape v
PiecesOf(v, mode) ==
  [i \in 1..Len(v) |-> IF mode = "print" THEN Pieces[v[i]].out \o <<NL>> ELSE Pieces[v[i]].out]

Hash(c) ==
  LET n == Len(c.vs)
      h(v) == Len(v) * 7 + (IF Len(v) >= 1 THEN v[1] * 3 ELSE 0) + (IF Len(v) >= 2 THEN v[2] * 11 ELSE 0)
  IN Salt + c.t * 5 + (IF c.mode = "print" THEN 1 ELSE 0)
       + h(c.vs[1]) * 31 + (IF n >= 2 THEN h(c.vs[2]) * 17 + c.ss[1] * 13 ELSE 0)
       + (IF n >= 3 THEN h(c.vs[3]) * 19 + c.ss[2] * 23 ELSE 0)

Keep(c) ==
  CASE Len(c.vs) <= 1 -> TRUE
    [] Len(c.vs) = 2  -> Hash(c) % Mod2 = 0
    [] OTHER          -> TRUE

\* three-value streams are built from a seeded slice of the value shapes (1 of Mod3)
HV(v) == Len(v) * 7 + (IF Len(v) >= 1 THEN v[1] * 3 ELSE 0) + (IF Len(v) >= 2 THEN v[2] * 11 ELSE 0)
Sub3 == {v \in ValShapes : (HV(v) + Salt) % Mod3 = 0}
ShapesFor(n) == IF n >= 3 THEN Sub3 ELSE ValShapes

Comps ==
  UNION {{[vs |-> vs, ss |-> ss, t |-> t, mode |-> m] :
            vs \in [1..n -> ShapesFor(n)], ss \in [1..(n - 1) -> 1..2], t \in 1..2, m \in Modes} : n \in 1..MaxVals}

RECURSIVE BuildFrom(_, _)
BuildFrom(c, i) ==
  IF i > Len(c.vs) THEN <<>>
  ELSE Text(c.vs[i]) \o (IF i < Len(c.vs) THEN Seps[c.ss[i]] ELSE Tails[c.t]) \o BuildFrom(c, i + 1)
Build(c) == BuildFrom(c, 1)

RECURSIVE SpansFrom(_, _, _)
SpansFrom(c, i, off) ==
  IF i > Len(c.vs) THEN <<>>
  ELSE LET l == Len(Text(c.vs[i]))
           g == IF i < Len(c.vs) THEN Len(Seps[c.ss[i]]) ELSE Len(Tails[c.t])
       IN <<[s |-> off + 1, e |-> off + l]>> \o SpansFrom(c, i + 1, off + l + g)

NoComp == [vs |-> <<>>, ss |-> <<>>, t |-> 0, mode |-> "printf"]
NoFault == [kind |-> "none", at |-> 0]

VARIABLES ph, comp
mcvars == <<vars, outs, ovars, ph, comp>>

Init ==
  /\ ph = "pick"
  /\ comp \in {c \in Comps : Keep(c)}
  /\ stream = Build(comp)
  /\ outs = [k \in 1..Len(comp.vs) |-> PiecesOf(comp.vs[k], comp.mode)]
  /\ fault = NoFault /\ scan = <<>>
  /\ StartState /\ OutStart

\* faults at and just after the end of every value (the places where "processed or not yet" changes)
FaultPos == {p \in 0..Len(stream) : \E k \in 1..Len(comp.vs) :
                LET e == SpansFrom(comp, 1, 0)[k].e IN p \in {e - 1, e, e + 1}}

Setup ==
  /\ ph = "pick" /\ ph' = "run"
  /\ \/ fault' = NoFault
     \/ \E p \in FaultPos : p < Len(stream) /\ fault' = [kind |-> "eof", at |-> p]
     \/ \E p \in FaultPos : fault' = [kind |-> "ioerr", at |-> p]
  /\ scan' = ScanAll(Readable(stream, fault'))
  /\ UNCHANGED <<stream, outs, comp, svars, ovars>>

Keep4 == UNCHANGED <<params, outs, ph, comp>>
McReadCall   == ph = "run" /\ OutReadCall /\ Keep4
McReadReturn == ph = "run" /\ OutReadReturn /\ Keep4
McReadEnd    == ph = "run" /\ OutReadEnd /\ Keep4
McDecode     == ph = "run" /\ OutDecode /\ Keep4
McProduce    == ph = "run" /\ Produce /\ Keep4
McFinish     == ph = "run" /\ FinishValue /\ Keep4
McFlush      == ph = "run" /\ (\E n \in 1..Len(buf) : Flush(n)) /\ Keep4
McStop       == ph = "run" /\ OutStop /\ Keep4

Next == Setup \/ McReadCall \/ McReadReturn \/ McReadEnd \/ McDecode \/ McProduce \/ McFinish \/ McFlush \/ McStop

Running == ph = "run"
Fresh == Running /\ StartState /\ OutStart

\* ---- laws
\* round trip: the scanner finds the values the stream was built from, and the
\* output of the stream is the concatenation of what its pieces denote
BuildLaw ==
  ph = "pick" =>
    LET sc == ScanAll(stream) IN
    /\ sc.err = 0 /\ ~sc.open
    /\ [k \in 1..Len(sc.vals) |-> [s |-> sc.vals[k].s, e |-> sc.vals[k].e]] = SpansFrom(comp, 1, 0)
    /\ \A k \in 1..Len(sc.vals) : sc.vals[k].sd
    /\ Len(OutOf(Len(outs))) =
         LET PL(v) == (IF Len(v) >= 1 THEN Len(Pieces[v[1]].out) ELSE 0) + (IF Len(v) >= 2 THEN Len(Pieces[v[2]].out) ELSE 0)
                        + (IF comp.mode = "print" THEN Len(v) ELSE 0)
             RECURSIVE Sum(_)
             Sum(k) == IF k = 0 THEN 0 ELSE Sum(k - 1) + PL(comp.vs[k])
         IN Sum(Len(comp.vs))

InvTypeOK        == Running => TypeOK /\ OutTypeOK
InvIncremental   == Running => Incremental
InvNoSpeculation == Running => NoSpeculation
InvChunkIndep    == Running => ChunkIndependent
InvFaultReported == Running => FaultReported
InvOutOrdered    == Running => OutOrdered
InvOutWritten    == Running => OutWritten
InvOutObservable == Running => OutObservable

Terminates == (Running /\ ~ENABLED Next) => (outcome # "run" /\ buf = <<>>)

\* ---- vectors
BoundaryPos(sc, lim) ==
  {p \in 1..(lim - 1) : \E k \in 1..Len(sc.vals) : p \in {sc.vals[k].e - 1, sc.vals[k].e, sc.vals[k].e + 1}}

CutSets(sc, lim) ==
  LET B == BoundaryPos(sc, lim) IN
  {{}} \cup {{b} : b \in B} \cup {{a, b} : a \in B, b \in B} \cup {1..(lim - 1)}

Vec ==
  Fresh =>
    LET lim == Limit
        n == Len(scan.vals)
    IN Emit([stream |-> stream, fault |-> fault, lim |-> lim, mode |-> comp.mode,
             vals |-> [k \in 1..n |-> <<scan.vals[k].s, scan.vals[k].e>>],
             pieces |-> [k \in 1..n |-> outs[k]],
             cum |-> [i \in 1..(n + 1) |-> Len(OutOf(i - 1))],
             out |-> OutOf(n),
             exp |-> Expected(scan, stream, fault),
             must |-> [i \in 1..(lim + 1) |-> MustCount(scan, i - 1)],
             may |-> [i \in 1..(lim + 1) |-> MayCount(scan, i - 1, FALSE)],
             cutsets |-> CutSets(scan, lim)])
=============================================================================
