----------------------------- MODULE JqDriver -----------------------------
(* The awk schedule of a jqawk run (DESIGN.md 4.9; property C02).            *)
(*                                                                           *)
(* A transition system with one action per loop level of EvalProgram /       *)
(* evalPatternRules / evalRules (src/evaluator.go).  What the schedule does  *)
(* not determine -- is this pattern truthy?  did this body execute `next` or *)
(* `exit`? -- is a parameter of the action: MC_Driver supplies it from the   *)
(* configuration (exhaustive exploration), Trace_Driver from the events      *)
(* logged by the real code (trace validation).                               *)
(*                                                                           *)
(*   rules : Seq([kind, haspat, ...])  the program's rules in source order   *)
(*   files : files[f][v][s] is a record with field n = length of the array   *)
(*           root selected by selector s (or by no selector: one root) from  *)
(*           the v-th JSON value of the f-th file, -1 when it is not an array *)
(*                                                                           *)
(* The bindings are CELLS a rule body can write (`$ = v`, `$.p = v`,         *)
(* `$file = v`): `cell` is the overlay of such writes on the tree of the     *)
(* root of the current round, `fw` the content of the $file cell.  The       *)
(* statement re-binds: every BEGIN / END rule gets a fresh null cell, every  *)
(* JSON value a fresh $file cell, every (value, selector) round a fresh tree *)
(* selected from the value as read -- so no write outlives its rule (BEGIN,  *)
(* END), its value ($file) or its round ($).  Within a round writes are      *)
(* ordinary assignments: later activations of the round see them.  Every     *)
(* ENDFILE rule is bound to the selected root on its own: `$ = v` in an      *)
(* ENDFILE rule rebinds $ for the rest of that rule only (the tree of the    *)
(* round is shared: `$.p = v` is seen by the ENDFILE rules that follow).     *)
(*                                                                           *)
(* `glob` is the program's OWN variable (an ordinary global, `g`): no level of *)
(* the schedule binds it, so a value a body assigns stays until the next      *)
(* assignment -- across rules, elements, rounds, values and files -- and a    *)
(* pattern that reads it is evaluated when its rule is reached, for every     *)
(* element anew (GlobalPersists; MC_Driver supplies the truth value from      *)
(* `glob` at that moment).                                                    *)
(*                                                                           *)
(* Not modelled (left open by the statement): `next` outside a pattern rule  *)
(* body, $ in ENDFILE once the root cell of the round was reassigned as a    *)
(* whole, $file in a later selector round of the value in which it was       *)
(* overwritten, $index outside an array round, $ in BEGIN.                   *)
EXTENDS JqUtil

CONSTANT ObsKeep   \* 0: obs is the whole history; k > 0: only the last k entries are kept

VARIABLES
  rules, files,   \* the configuration
  part,           \* readRules: per kind, the source positions of its rules, in source order
  phase,          \* "config" | "parsed" | "begin" | "files" | "end" | "done"
  level,          \* within phase "files": "file" | "value" | "sel" | "bf" | "elem" | "rule" | "ef"; else "-"
  fi, vi, si,     \* current file / value in file / selector (1-based; 0 = before the first)
  ei,             \* current round of the pattern rules: element index (0-based); -1 = before the first
  ri,             \* next rule to run among the rules of the current kind (1-based)
  tested,         \* pattern rule ri was tested truthy, its body is pending
  signal,         \* "none" | "next" | "exit": control signal raised by the last body, not yet consumed
  dollar, index, file,   \* what $, $index, $file denote
  cell,           \* writes of the current round through $: [root |-> overlay of the root cell, els |-> element index (1-based) -> overlay]
  fw,             \* the $file cell: 0 = names file `file`; r > 0 = overwritten by rule r; -1 = overwritten in an earlier round of this value (open)
  obs,            \* history of activations
  outcome,        \* "running" | "ok"
  glob            \* the program's own (global) variable g: -1 = never assigned, n >= 0 = that number.  The schedule
                  \* never touches it: what a body assigned is what every later pattern and body reads, whatever
                  \* lies between them (the next rule, element, round, JSON value, file)

dvars == <<rules, files, part, phase, level, fi, vi, si, ei, ri, tested, signal, dollar, index, file, cell, fw, obs, outcome, glob>>

Kinds == {"B", "BF", "P", "EF", "E"}

\* ---- what $ can denote
DOpen == [t |-> "open", f |-> 0, v |-> 0, s |-> 0, e |-> -1]      \* not fixed by the statement
DNull == [t |-> "null", f |-> 0, v |-> 0, s |-> 0, e |-> -1]
DRoot(f, v, s) == [t |-> "root", f |-> f, v |-> v, s |-> s, e |-> -1]
DElem(f, v, s, e) == [t |-> "elem", f |-> f, v |-> v, s |-> s, e |-> e]

\* ---- readRules: partition by kind, preserving source order
OfKind(rs, k) == SelectSeq([i \in 1..Len(rs) |-> i], LAMBDA i : rs[i].kind = k)
NoPart == [k \in Kinds |-> <<>>]
N(k) == Len(part[k])

\* ---- overlays: what a body wrote into a cell.  <<"-", 0>> nothing; <<"w", r>> rule r assigned the whole
\* cell (`$ = v`, v a scalar); <<"p", r>> rule r assigned the member p of the object in the cell (`$.p = v`)
NoW == <<"-", 0>>
NoCell == [root |-> NoW, els |-> <<>>]
GWrites == {"g0", "g1", "ginc"}           \* `g = 0` | `g = 1` | `g++` (an unset variable counts as 0: DESIGN.md 3.1)
Writes == {"none", "sd", "sf", "sm"} \cup GWrites     \* nothing | `$ = v` | `$file = v` | `$.p = v` | a write to g
GAfter(g, w) == CASE w = "g0" -> 0 [] w = "g1" -> 1 [] w = "ginc" -> (IF g < 0 THEN 1 ELSE g + 1) [] OTHER -> g
ElOv(c, e) == IF e \in DOMAIN c.els THEN c.els[e] ELSE NoW
SetEl(c, e, ov) == [c EXCEPT !.els = [x \in DOMAIN c.els \cup {e} |-> IF x = e THEN ov ELSE c.els[x]]]

CurKind == IF phase = "begin" THEN "B" ELSE IF phase = "end" THEN "E"
           ELSE IF level = "bf" THEN "BF" ELSE IF level = "ef" THEN "EF" ELSE "P"
RootN == files[fi][vi][si].n
\* a root whose cell was assigned a scalar is not an array (any more)
RootWhole == cell.root[1] = "w"
EffN == IF RootWhole THEN -1 ELSE RootN
InArrayRound == phase = "files" /\ level = "rule" /\ EffN >= 0
\* the overlay of the cell $ denotes: BEGIN / END rules get a fresh null cell each
DollarW == IF phase \in {"begin", "end"} THEN NoW
           ELSE IF InArrayRound THEN ElOv(cell, ei + 1) ELSE cell.root
Written(w, r) == IF w = "sd" THEN <<"w", r>> ELSE <<"p", r>>
\* `$ = v` in an ENDFILE rule rebinds the rule's own $: the next ENDFILE rule is bound to the selected root again
RuleLocal(w) == phase \in {"begin", "end"} \/ (phase = "files" /\ level = "ef" /\ w = "sd")
CellAfter(w, r) ==
  IF w \in {"none", "sf"} \cup GWrites \/ RuleLocal(w) THEN cell
  ELSE IF InArrayRound THEN SetEl(cell, ei + 1, Written(w, r))
  ELSE [cell EXCEPT !.root = Written(w, r)]
\* a member can be assigned only in an object: not in null (BEGIN, END), not in a cell holding a scalar
\* and $file exists only while a value is being processed
CanWrite(w) == /\ w \in Writes
               /\ w = "sm" => (phase = "files" /\ DollarW[1] # "w")
               /\ w = "sf" => phase = "files"

\* position of an activation in the run, for the ordering properties:
\* <<phase, file, value, selector, stage, round, rule within kind, test(0)/body(1)>>
Pos(t) ==
  IF phase = "begin" THEN <<0, 0, 0, 0, 0, 0, ri, t>>
  ELSE IF phase = "end" THEN <<2, 0, 0, 0, 0, 0, ri, t>>
  ELSE <<1, fi, vi, si, (IF level = "bf" THEN 0 ELSE IF level = "ef" THEN 2 ELSE 1),
         (IF level = "rule" THEN ei ELSE 0), ri, t>>

\* one activation: t = "test" (a pattern rule is reached and its pattern, if any, tested: outcome b)
\*                 t = "body" (a rule's body runs; sig = the signal it raises)
\*   w: the write the body performs; cw: overlay of the cell $ denotes; ews: overlays of the elements when $ is an
\*   array root; fw: the $file cell; en: length of the root as it is now (-1: not an array); dopen: $ is left open
Entry(t, b, sig, w) ==
  [t |-> t, k |-> CurKind, r |-> part[CurKind][ri], i |-> ri - 1, b |-> b, sig |-> sig,
   d |-> dollar, x |-> index, fb |-> file, pos |-> Pos(IF t = "test" THEN 0 ELSE 1),
   w |-> w, cw |-> DollarW,
   ews |-> (IF phase = "files" /\ level \in {"bf", "ef"} /\ EffN >= 0 THEN cell.els ELSE <<>>),
   fw |-> fw, g |-> glob, en |-> (IF phase = "files" THEN EffN ELSE -1),
   dopen |-> (phase = "files" /\ level = "ef" /\ RootWhole)]

Push(e) ==
  LET o == Append(obs, e) IN
  IF ObsKeep > 0 /\ Len(o) > ObsKeep THEN SubSeq(o, Len(o) - ObsKeep + 1, Len(o)) ELSE o

\* ---- (re)start: a parsed program and opened inputs
Load(rs, fs) ==
  /\ rules' = rs /\ files' = fs /\ part' = NoPart
  /\ phase' = "parsed" /\ level' = "-"
  /\ fi' = 0 /\ vi' = 0 /\ si' = 0 /\ ei' = -1 /\ ri' = 1
  /\ tested' = FALSE /\ signal' = "none"
  /\ dollar' = DOpen /\ index' = -1 /\ file' = 0 /\ cell' = NoCell /\ fw' = 0
  /\ obs' = <<>> /\ outcome' = "running" /\ glob' = -1

Idle ==
  /\ rules = <<>> /\ files = <<>> /\ part = NoPart
  /\ phase = "config" /\ level = "-"
  /\ fi = 0 /\ vi = 0 /\ si = 0 /\ ei = -1 /\ ri = 1
  /\ tested = FALSE /\ signal = "none"
  /\ dollar = DOpen /\ index = -1 /\ file = 0 /\ cell = NoCell /\ fw = 0
  /\ obs = <<>> /\ outcome = "running" /\ glob = -1

\* back to the idle state (between the runs of a concatenated trace)
Unload ==
  /\ rules' = <<>> /\ files' = <<>> /\ part' = NoPart
  /\ phase' = "config" /\ level' = "-"
  /\ fi' = 0 /\ vi' = 0 /\ si' = 0 /\ ei' = -1 /\ ri' = 1
  /\ tested' = FALSE /\ signal' = "none"
  /\ dollar' = DOpen /\ index' = -1 /\ file' = 0 /\ cell' = NoCell /\ fw' = 0
  /\ obs' = <<>> /\ outcome' = "running" /\ glob' = -1

Quiet == signal = "none" /\ phase # "done"

\* ---- NewEvaluator / readRules
ReadRules ==
  /\ phase = "parsed"
  /\ part' = [k \in Kinds |-> OfKind(rules, k)]
  /\ phase' = "begin" /\ ri' = 1 /\ dollar' = DOpen
  /\ UNCHANGED <<rules, files, level, fi, vi, si, ei, tested, signal, index, file, cell, fw, obs, outcome, glob>>

\* ---- a rule of kind B / BF / EF / E runs (no pattern); sig: the signal its body raises, w: what it writes
RunPlain(sig, w) ==
  /\ sig \in {"none", "exit"} /\ CanWrite(w)
  /\ ri <= N(CurKind)
  /\ obs' = Push(Entry("body", TRUE, sig, w))
  /\ cell' = CellAfter(w, part[CurKind][ri])
  /\ fw' = (IF w = "sf" THEN part[CurKind][ri] ELSE fw)
  /\ glob' = GAfter(glob, w)
  /\ signal' = sig /\ ri' = ri + 1
  /\ UNCHANGED <<rules, files, part, phase, level, fi, vi, si, ei, tested, dollar, index, file, outcome>>

RunBegin(sig, w) == Quiet /\ phase = "begin" /\ RunPlain(sig, w)
EndBegin ==
  /\ Quiet /\ phase = "begin" /\ ri > N("B")
  /\ phase' = "files" /\ level' = "file" /\ fi' = 0
  /\ UNCHANGED <<rules, files, part, vi, si, ei, ri, tested, signal, dollar, index, file, cell, fw, obs, outcome, glob>>

\* ---- for _, file := range files
NextFile ==
  /\ Quiet /\ phase = "files" /\ level = "file" /\ fi < Len(files)
  /\ fi' = fi + 1 /\ vi' = 0 /\ level' = "value"
  /\ UNCHANGED <<rules, files, part, phase, si, ei, ri, tested, signal, dollar, index, file, cell, fw, obs, outcome, glob>>
EndFiles ==
  /\ Quiet /\ phase = "files" /\ level = "file" /\ fi = Len(files)
  /\ phase' = "end" /\ level' = "-" /\ ri' = 1 /\ dollar' = DNull
  /\ UNCHANGED <<rules, files, part, fi, vi, si, ei, tested, signal, index, file, cell, fw, obs, outcome, glob>>

\* ---- for d.More(): decode the next value; $file is published: a fresh cell naming the file
NextValue ==
  /\ Quiet /\ phase = "files" /\ level = "value" /\ vi < Len(files[fi])
  /\ vi' = vi + 1 /\ si' = 0 /\ file' = fi /\ fw' = 0 /\ level' = "sel"
  /\ UNCHANGED <<rules, files, part, phase, fi, ei, ri, tested, signal, dollar, index, cell, obs, outcome, glob>>
EndValues ==
  /\ Quiet /\ phase = "files" /\ level = "value" /\ vi = Len(files[fi])
  /\ level' = "file"
  /\ UNCHANGED <<rules, files, part, phase, fi, vi, si, ei, ri, tested, signal, dollar, index, file, cell, fw, obs, outcome, glob>>

\* ---- for _, rootCell := range rootCells (one per selector; one if there is none): the root is selected
\* from the value as read, whatever the rules did to the roots of earlier rounds
NextSelector ==
  /\ Quiet /\ phase = "files" /\ level = "sel" /\ si < Len(files[fi][vi])
  /\ si' = si + 1 /\ dollar' = DRoot(fi, vi, si + 1) /\ ri' = 1 /\ level' = "bf"
  /\ cell' = NoCell /\ fw' = (IF fw = 0 THEN 0 ELSE -1)
  /\ UNCHANGED <<rules, files, part, phase, fi, vi, ei, tested, signal, index, file, obs, outcome, glob>>
EndSelectors ==
  /\ Quiet /\ phase = "files" /\ level = "sel" /\ si = Len(files[fi][vi])
  /\ level' = "value"
  /\ UNCHANGED <<rules, files, part, phase, fi, vi, si, ei, ri, tested, signal, dollar, index, file, cell, fw, obs, outcome, glob>>

\* ---- BEGINFILE rules, $ = the selected root
RunBeginFile(sig, w) == Quiet /\ phase = "files" /\ level = "bf" /\ RunPlain(sig, w)
EnterPatternRules ==
  /\ Quiet /\ phase = "files" /\ level = "bf" /\ ri > N("BF")
  /\ level' = "elem" /\ ei' = -1
  /\ UNCHANGED <<rules, files, part, phase, fi, vi, si, ri, tested, signal, dollar, index, file, cell, fw, obs, outcome, glob>>

\* ---- evalPatternRules: one round per element of an array root, exactly one round otherwise
NextElement ==
  /\ Quiet /\ phase = "files" /\ level = "elem" /\ EffN >= 0 /\ ei < EffN - 1
  /\ ei' = ei + 1 /\ index' = ei + 1 /\ dollar' = DElem(fi, vi, si, ei + 1)
  /\ ri' = 1 /\ level' = "rule"
  /\ UNCHANGED <<rules, files, part, phase, fi, vi, si, tested, signal, file, cell, fw, obs, outcome, glob>>
RootRound ==
  /\ Quiet /\ phase = "files" /\ level = "elem" /\ EffN = -1 /\ ei = -1
  /\ ei' = 0 /\ dollar' = DRoot(fi, vi, si)
  /\ ri' = 1 /\ level' = "rule"
  /\ UNCHANGED <<rules, files, part, phase, fi, vi, si, tested, signal, index, file, cell, fw, obs, outcome, glob>>
EndElements ==
  /\ Quiet /\ phase = "files" /\ level = "elem"
  /\ \/ EffN >= 0 /\ ei = EffN - 1
     \/ EffN = -1 /\ ei = 0
  /\ level' = "ef" /\ ri' = 1 /\ dollar' = DRoot(fi, vi, si)
  /\ UNCHANGED <<rules, files, part, phase, fi, vi, si, ei, tested, signal, index, file, cell, fw, obs, outcome, glob>>

\* ---- evalRules: source order; body iff pattern absent or truthy; next ends the round
TestPattern(b) ==
  /\ Quiet /\ phase = "files" /\ level = "rule" /\ ~tested /\ ri <= N("P")
  /\ b \in BOOLEAN
  /\ rules[part["P"][ri]].haspat \/ b          \* no pattern: always matches
  /\ obs' = Push(Entry("test", b, "none", "none"))
  /\ IF b THEN tested' = TRUE /\ ri' = ri ELSE tested' = FALSE /\ ri' = ri + 1
  /\ UNCHANGED <<rules, files, part, phase, level, fi, vi, si, ei, signal, dollar, index, file, cell, fw, outcome, glob>>
RunBody(sig, w) ==
  /\ Quiet /\ phase = "files" /\ level = "rule" /\ tested
  /\ sig \in {"none", "next", "exit"} /\ CanWrite(w)
  /\ obs' = Push(Entry("body", TRUE, sig, w))
  /\ cell' = CellAfter(w, part["P"][ri])
  /\ fw' = (IF w = "sf" THEN part["P"][ri] ELSE fw)
  /\ glob' = GAfter(glob, w)
  /\ tested' = FALSE /\ signal' = sig /\ ri' = ri + 1
  /\ UNCHANGED <<rules, files, part, phase, level, fi, vi, si, ei, dollar, index, file, outcome>>
ConsumeNext ==
  /\ phase = "files" /\ level = "rule" /\ signal = "next"
  /\ signal' = "none" /\ level' = "elem"
  /\ UNCHANGED <<rules, files, part, phase, fi, vi, si, ei, ri, tested, dollar, index, file, cell, fw, obs, outcome, glob>>
EndRules ==
  /\ Quiet /\ phase = "files" /\ level = "rule" /\ ~tested /\ ri > N("P")
  /\ level' = "elem"
  /\ UNCHANGED <<rules, files, part, phase, fi, vi, si, ei, ri, tested, signal, dollar, index, file, cell, fw, obs, outcome, glob>>

\* ---- ENDFILE rules
RunEndFile(sig, w) == Quiet /\ phase = "files" /\ level = "ef" /\ RunPlain(sig, w)
\* the round is over: its tree is dropped
EndRoot ==
  /\ Quiet /\ phase = "files" /\ level = "ef" /\ ri > N("EF")
  /\ level' = "sel" /\ cell' = NoCell
  /\ UNCHANGED <<rules, files, part, phase, fi, vi, si, ei, ri, tested, signal, dollar, index, file, fw, obs, outcome, glob>>

\* ---- END rules, $ = null
RunEnd(sig, w) == Quiet /\ phase = "end" /\ RunPlain(sig, w)
Finish ==
  /\ Quiet /\ phase = "end" /\ ri > N("E")
  /\ phase' = "done" /\ outcome' = "ok"
  /\ UNCHANGED <<rules, files, part, level, fi, vi, si, ei, ri, tested, signal, dollar, index, file, cell, fw, obs, glob>>

\* ---- errExit at any level: the run ends at once, successfully
Exit ==
  /\ signal = "exit" /\ phase # "done"
  /\ phase' = "done" /\ outcome' = "ok" /\ signal' = "none"
  /\ UNCHANGED <<rules, files, part, level, fi, vi, si, ei, ri, tested, dollar, index, file, cell, fw, obs, glob>>

\* the actions that take no parameter and correspond to no logged event of the real code
\* (NextValue, NextSelector, NextElement, ConsumeNext, Exit, Finish are parameterless too but are logged)
Internal ==
  \/ ReadRules \/ EndBegin \/ NextFile \/ EndFiles \/ EndValues \/ EndSelectors
  \/ EnterPatternRules \/ RootRound \/ EndElements \/ EndRules \/ EndRoot

-----------------------------------------------------------------------------
(* Properties.  obs only ever grows by appending (or, with ObsKeep = k, is   *)
(* the last k entries of that history), and every prefix of a history is the *)
(* history of an earlier reachable state.  A property of the form "for all   *)
(* adjacent activations a, c" is therefore stated for the LAST pair of obs   *)
(* and checked in every reachable state, which covers every pair at a cost   *)
(* independent of the length of the run.                                     *)

LexLess(a, b) == \E k \in 1..Len(a) : (\A j \in 1..(k - 1) : a[j] = b[j]) /\ a[k] < b[k]
Prefix(p, n) == SubSeq(p, 1, n)
SameRound(a, b) == Prefix(a.pos, 6) = Prefix(b.pos, 6)

HasLast == Len(obs) >= 1
HasPair == Len(obs) >= 2
Last == obs[Len(obs)]          \* the newest activation
Prev == obs[Len(obs) - 1]      \* the one before it

TypeOK ==
  /\ phase \in {"config", "parsed", "begin", "files", "end", "done"}
  /\ level \in {"-", "file", "value", "sel", "bf", "elem", "rule", "ef"}
  /\ (level # "-") => phase \in {"files", "done"}
  /\ fi \in 0..Len(files)
  /\ (level \in {"value", "sel", "bf", "elem", "rule", "ef"}) => fi >= 1 /\ vi \in 0..Len(files[fi])
  /\ (level \in {"sel", "bf", "elem", "rule", "ef"}) => vi >= 1 /\ si \in 0..Len(files[fi][vi])
  /\ (level \in {"bf", "elem", "rule", "ef"}) => si >= 1
  /\ tested \in BOOLEAN /\ (tested => level = "rule")
  /\ signal \in {"none", "next", "exit"}
  /\ outcome \in {"running", "ok"} /\ (outcome = "ok" <=> phase = "done")

\* readRules keeps every rule exactly once, under its kind, in source order
PartitionLaw ==
  phase \notin {"config", "parsed"} =>
    /\ \A k \in Kinds : \A j \in 1..Len(part[k]) :
          /\ rules[part[k][j]].kind = k
          /\ j > 1 => part[k][j - 1] < part[k][j]
    /\ \A i \in 1..Len(rules) : \E j \in 1..Len(part[rules[i].kind]) : part[rules[i].kind][j] = i

\* File/Value/SelectorOrder, stage order (BEGINFILE < pattern < ENDFILE), element
\* order, rule order within a kind, and "at most once": activations are strictly
\* increasing in <<phase, file, value, selector, stage, round, rule, test/body>>
Ordered == HasPair => LexLess(Prev.pos, Last.pos)

\* no BEGIN rule after a rule of another kind; only END rules after an END rule
BeginFirst == HasPair => (Last.k = "B" => Prev.k = "B")
EndLast == HasPair => (Prev.k = "E" => Last.k = "E")
EndDollarNull == HasLast => (Last.k = "E" => Last.d = DNull /\ Last.cw = NoW)

\* $, $index, $file as the statement prescribes them for each activation
Bindings ==
  HasLast =>
    LET a == Last f == a.pos[2] v == a.pos[3] s == a.pos[4] IN
    /\ a.k \in {"BF", "EF"} => a.d = DRoot(f, v, s) /\ a.fb = f
    /\ a.k \in {"BF", "P", "EF"} => a.en \in {-1, files[f][v][s].n}
    /\ a.k = "P" =>
         /\ a.fb = f
         /\ IF a.en >= 0
              THEN a.d = DElem(f, v, s, a.pos[6]) /\ a.x = a.pos[6] /\ a.pos[6] \in 0..(a.en - 1)
              ELSE a.d = DRoot(f, v, s) /\ a.pos[6] = 0

\* a round visits the pattern rules in source order
SourceOrderWithinElement ==
  HasPair => ((Prev.k = "P" /\ Last.k = "P" /\ SameRound(Prev, Last)) => Prev.r <= Last.r)

\* a body runs iff the pattern is absent or truthy: a truthy test is followed
\* by that rule's body and by nothing else; a pattern body has such a test before it
BodyIffPattern ==
  /\ HasLast =>
       /\ (Last.t = "test" /\ ~rules[Last.r].haspat) => Last.b
       /\ (Last.t = "test" /\ Last.b) <=> tested
       /\ (Last.t = "body" /\ Last.k = "P") => HasPair
  /\ HasPair =>
       /\ (Prev.t = "test" /\ Prev.b) =>
             Last.t = "body" /\ Last.r = Prev.r /\ SameRound(Prev, Last)
       /\ (Last.t = "body" /\ Last.k = "P") =>
             Prev.t = "test" /\ Prev.b /\ Prev.r = Last.r /\ SameRound(Prev, Last)

\* next: nothing more in this round, and the run goes on with what follows the round
NextSkipsRestOfElementOnly ==
  (HasPair /\ Prev.sig = "next") =>
      /\ ~SameRound(Prev, Last)
      /\ LET a == Prev c == Last f == a.pos[2] v == a.pos[3] s == a.pos[4] IN
         \* the next activation is the first rule of the next element if there is one ...
         IF a.en > a.pos[6] + 1
           THEN c.k = "P" /\ c.i = 0 /\ Prefix(c.pos, 5) = Prefix(a.pos, 5) /\ c.pos[6] = a.pos[6] + 1
           \* ... else it is not a pattern rule of this root any more
           ELSE Prefix(c.pos, 5) # Prefix(a.pos, 5)

\* exit: the activation that raised it is the last one, the outcome is ok
Exited == HasLast /\ Last.sig = "exit"
ExitAbsorbing ==
  /\ HasPair => Prev.sig # "exit"
  /\ Exited => (signal = "exit" \/ phase = "done")
  /\ signal = "exit" => Exited
  /\ signal = "next" => (HasLast /\ Last.sig = "next" /\ level = "rule")
\* ... and nothing happens after the end of the run (action property)
Absorbing == [][phase # "done"]_dvars

\* ---- the bindings are re-made: what one rule, value or round wrote is gone in the next
SameRoot(a, b) == Prefix(a.pos, 4) = Prefix(b.pos, 4)
SameValue(a, b) == Prefix(a.pos, 3) = Prefix(b.pos, 3)
InFiles(a) == a.k \in {"BF", "P", "EF"}
Untouched(a) == a.cw = NoW /\ a.ews = <<>> /\ ~a.dopen
FreshBindings ==
  /\ HasLast =>
       /\ Last.k \in {"B", "E"} => Last.cw = NoW /\ Last.ews = <<>>
       /\ (Len(obs) = 1 /\ InFiles(Last)) => Untouched(Last) /\ Last.fw = 0
  /\ HasPair =>
       \* the first activation of a round sees the root as selected from the value as read ...
       /\ (InFiles(Last) /\ ~(InFiles(Prev) /\ SameRoot(Prev, Last))) => Untouched(Last)
       \* ... and the first activation for a value sees $file name the file
       /\ (InFiles(Last) /\ ~(InFiles(Prev) /\ SameValue(Prev, Last))) => Last.fw = 0
       /\ (InFiles(Last) /\ InFiles(Prev) /\ SameValue(Prev, Last) /\ ~SameRoot(Prev, Last)) => Last.fw \in {0, -1}
       \* every ENDFILE rule is bound to the selected root: `$ = v` in one is gone in the next, which sees what the
       \* ENDFILE rule before saw (plus a member that one wrote into the shared tree); $ is open there only when it
       \* was open for the first ENDFILE rule (the root cell reassigned as a whole by a BEGINFILE / pattern rule)
       /\ (Prev.k = "EF" /\ Last.k = "EF" /\ SameRoot(Prev, Last)) =>
             /\ Last.dopen = Prev.dopen /\ Last.ews = Prev.ews /\ Last.en = Prev.en
             /\ Last.cw = (IF Prev.w = "sm" THEN Written("sm", Prev.r) ELSE Prev.cw)
       /\ (ObsKeep = 0 /\ Last.k = "EF" /\ Last.dopen) =>
             \E k \in 1..Len(obs) : obs[k].k \in {"BF", "P"} /\ obs[k].w = "sd" /\ SameRoot(obs[k], Last)
\* within a round a write is an ordinary assignment: the next activation on the same cell sees it
WritesLast ==
  HasPair =>
    /\ (InFiles(Prev) /\ Prev.w = "sf" /\ InFiles(Last) /\ SameRoot(Prev, Last)) => Last.fw = Prev.r
    /\ (InFiles(Prev) /\ Prev.w \in {"none", "sd", "sm"} \cup GWrites /\ InFiles(Last) /\ SameRoot(Prev, Last)) => Last.fw = Prev.fw
    /\ (Prev.k = "P" /\ Last.k = "P" /\ SameRound(Prev, Last)) =>
          Last.cw = (IF Prev.w \in {"sd", "sm"} THEN Written(Prev.w, Prev.r) ELSE Prev.cw)
    /\ (Prev.k = "BF" /\ Last.k \in {"BF", "P"} /\ SameRoot(Prev, Last) /\ Last.en = -1) =>
          Last.cw = (IF Prev.w \in {"sd", "sm"} THEN Written(Prev.w, Prev.r) ELSE Prev.cw)
    /\ Last.w = "sm" => Last.cw[1] # "w"

\* the program's own variable is not a binding of the schedule: it starts unset and from then on holds what the
\* last body that wrote it left, for every later activation of the run (test or body, any kind, any round)
GlobalPersists ==
  /\ glob = (IF HasLast THEN GAfter(Last.g, Last.w) ELSE -1)
  /\ (HasLast /\ Len(obs) = 1 /\ ObsKeep = 0) => Last.g = -1
  /\ HasPair => Last.g = GAfter(Prev.g, Prev.w)
  /\ HasLast => (Last.t = "test" => Last.w = "none")

\* ElementMultiplicity: an array root of length n gets exactly the rounds 0..n-1
\* in order, any other root exactly one.  Counted (when there is a pattern rule,
\* so that rounds are visible in obs, and the whole history is kept) at the moment
\* the rounds of a root are over, and for all roots at the end of a run without exit.
RoundsOf(f, v, s) ==
  SelectSeq(obs, LAMBDA a : a.k = "P" /\ a.t = "test" /\ a.i = 0 /\ Prefix(a.pos, 4) = <<1, f, v, s>>)
\* a BEGINFILE rule gave the root cell a scalar: the root is not an array in this round
Reassigned(f, v, s) == \E k \in 1..Len(obs) : obs[k].k = "BF" /\ obs[k].w = "sd" /\ Prefix(obs[k].pos, 4) = <<1, f, v, s>>
RoundsRight(f, v, s) ==
  LET R == RoundsOf(f, v, s) n == IF Reassigned(f, v, s) THEN -1 ELSE files[f][v][s].n IN
  /\ Len(R) = (IF n >= 0 THEN n ELSE 1)
  /\ \A j \in 1..Len(R) : R[j].pos[6] = j - 1
ElementMultiplicity ==
  (ObsKeep = 0 /\ phase \notin {"config", "parsed"} /\ N("P") > 0) =>
    /\ (phase = "files" /\ level = "ef" /\ ri = 1 /\ signal = "none") => RoundsRight(fi, vi, si)
    /\ (phase = "done" /\ ~Exited) =>
          \A f \in 1..Len(files) : \A v \in 1..Len(files[f]) : \A s \in 1..Len(files[f][v]) : RoundsRight(f, v, s)
=============================================================================
