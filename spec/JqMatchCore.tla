--------------------------- MODULE JqMatchCore ---------------------------
(* The pattern matcher of match expressions (property C19), parametrised by *)
(* what "v == literal" means.  Structured like src/evaluator.go:           *)
(* MatchPat = one pattern against one value (evalCaseMatch on a one-element *)
(* list), MatchAlts = the loop over the comma-separated alternatives of a   *)
(* case (evalCaseMatch), SelectFrom = the loop over the cases (the          *)
(* ExprMatch arm of evalExpr, up to the evaluation of the selected body).   *)
(*                                                                          *)
(* Instantiated twice: JqMatch (abstract scalars, LitCmp = the table of     *)
(* DESIGN.md 3.4 on them) and JqMatchLit (literal patterns as written in    *)
(* the source: LitCmp = `==` of JqValue against the value the literal       *)
(* token denotes).                                                          *)
(*                                                                          *)
(* Values need a field k (kind; "arr" for arrays) and arrays a field a (the *)
(* sequence of elements).                                                   *)
(*                                                                          *)
(* Open point (statement silent): a literal pattern against an array is a  *)
(* comparison `array == literal`, which is a runtime error for `==`.  Three *)
(* readings are admitted: "lenient" (simply no match), "short" (error,     *)
(* positions of an array pattern compared left to right, stopping at the   *)
(* first mismatch or error), "decided" (positions in any order: a position *)
(* that does not match decides the pattern - no match - whatever the other *)
(* positions hold; error only if no position mismatches and one errs).     *)
(* NOT admitted: an error raised by a position of an array pattern that    *)
(* comes after a position that has already failed ("matches ... position   *)
(* by position": once a position fails the pattern is a non-match, the     *)
(* rest decides nothing; a matcher that goes on comparing aborts a match   *)
(* whose later case matches).  Law PositionLaw of MC_Match states it.      *)
(*                                                                          *)
(* Named deviation match-array-alt-stops (F16): a failing ARRAY pattern    *)
(* ends its case instead of moving on to the next alternative.             *)
EXTENDS JqUtil
CONSTANT LitCmp(_, _)     \* LitCmp(v, lit): "eq" / "ne" / "err"; lit = the v field of a literal pattern

\* ---- patterns (nolit: the filler of the v field where there is no literal)
PLitOf(v)          == [t |-> "lit", v |-> v,     name |-> "",   items |-> <<>>]
PIdOf(name, nolit) == [t |-> "id",  v |-> nolit, name |-> name, items |-> <<>>]
PArrOf(ps, nolit)  == [t |-> "arr", v |-> nolit, name |-> "",   items |-> ps]

Readings == {"lenient", "short", "decided"}

Yes(b) == [m |-> "yes", b |-> b]     \* b: bindings, a sequence of <<name, value>>
No     == [m |-> "no",  b |-> <<>>]
Err    == [m |-> "err", b |-> <<>>]

RECURSIVE MatchPat(_, _, _)
MatchPat(v, p, rd) ==
  IF p.t = "lit" THEN
    LET c == LitCmp(v, p.v) IN
    IF c = "eq" THEN Yes(<<>>)
    ELSE IF c = "ne" THEN No
    ELSE IF rd = "lenient" THEN No ELSE Err
  ELSE IF p.t = "id" THEN Yes(<< <<p.name, v>> >>)
  ELSE IF v.k # "arr" \/ Len(v.a) # Len(p.items) THEN No
  ELSE
    LET n == Len(p.items)
        rs == [i \in 1..n |-> MatchPat(v.a[i], p.items[i], rd)]
        bad == {i \in 1..n : rs[i].m # "yes"}
    IN IF bad = {} THEN Yes(FlattenSeq([i \in 1..n |-> rs[i].b]))
       ELSE IF rd = "short" THEN [m |-> rs[SetMin(bad)].m, b |-> <<>>]
       ELSE IF rd = "decided" THEN (IF \E i \in bad : rs[i].m = "no" THEN No ELSE Err)
       \* ("eager", not admitted, kept for the laws that tell it from the admitted ones:
       \*  every position is compared, an error anywhere is an error)
       ELSE IF \E i \in bad : rs[i].m = "err" THEN Err ELSE No

\* the alternatives of one case, in order.  Result: [m, b, alt] (alt = index of
\* the matching alternative, 0 if none)
RECURSIVE MatchAlts(_, _, _, _, _)
MatchAlts(v, alts, i, rd, devs) ==
  IF i > Len(alts) THEN [m |-> "no", b |-> <<>>, alt |-> 0]
  ELSE
    LET r == MatchPat(v, alts[i], rd) IN
    IF r.m = "yes" THEN [m |-> "yes", b |-> r.b, alt |-> i]
    ELSE IF r.m = "err" THEN [m |-> "err", b |-> <<>>, alt |-> i]
    ELSE IF "match-array-alt-stops" \in devs /\ alts[i].t = "arr"
         THEN [m |-> "no", b |-> <<>>, alt |-> 0]            \* deviation: `return false`
    ELSE MatchAlts(v, alts, i + 1, rd, devs)

\* the cases (records with a field alts), in order, from case k on.  Result:
\* [m, sel, alt, b]: m = "yes": case sel is selected by its alternative alt with
\* bindings b; m = "err": the comparison made by alternative alt of case sel is
\* a runtime error; m = "no": no case matches (sel = 0).  No pattern of a case
\* after sel is looked at.
RECURSIVE SelectFrom(_, _, _, _, _)
SelectFrom(v, cases, k, rd, devs) ==
  IF k > Len(cases) THEN [m |-> "no", sel |-> 0, alt |-> 0, b |-> <<>>]
  ELSE
    LET r == MatchAlts(v, cases[k].alts, 1, rd, devs) IN
    IF r.m = "no" THEN SelectFrom(v, cases, k + 1, rd, devs)
    ELSE [m |-> r.m, sel |-> k, alt |-> r.alt, b |-> r.b]

Lookup(b, name) ==
  LET S == {i \in 1..Len(b) : b[i][1] = name} IN b[SetMax(S)][2]
Bound(b) == {b[i][1] : i \in 1..Len(b)}

\* names bound by a pattern
RECURSIVE PatNames(_)
PatNames(p) ==
  IF p.t = "id" THEN {p.name}
  ELSE IF p.t = "arr" THEN UNION {PatNames(p.items[i]) : i \in 1..Len(p.items)}
  ELSE {}
=============================================================================
