------------------------------ MODULE MC_Heap ------------------------------
(* C09: histories of assignments, compound assignments, ++/--, reads, calls  *)
(* that mutate (or step) a parameter, for-in loops (one and two variables,   *)
(* over arrays and objects) whose body stores to or steps the loop variable, *)
(* pluck, and the length-changing methods pop / popfirst / push through any  *)
(* path, over two variables and the input document `$`; right-hand sides,    *)
(* arguments, iterables and match subjects may be EXPRESSIONS (EvalR: an      *)
(* assignment or update used as a value, a match expression, a call, sort,   *)
(* literals of these), and a match statement binds names by patterns and     *)
(* stores to / steps them.  Every history is emitted with the complete expected state  *)
(* (x, y, $) after every operation, under the intended semantics (JqHeap     *)
(* part 1) and, where it differs, under the slice-header semantics of the    *)
(* pinned code without / with padding reads (part 3: "g0" / "g1").           *)
(* Config: Mode = "depth"   histories of <= MaxOps operations over Small     *)
(*         Mode = "breadth" a prefix from Prefixes, then ONE operation of    *)
(*                          Big (every path of depth <= 3 x every kind)      *)
(*         Mode = "names"   a prefix from NamePrefixes, then ONE operation    *)
(*                          whose path uses keys that are also the names of   *)
(*                          prototype methods (length, pluck, push)           *)
(*         Mode = "expr"    a prefix from EPre, then ONE statement that puts   *)
(*                          the value of an expression (every form of EForms  *)
(*                          over a source place: a path, an assignment or an  *)
(*                          update used as a value, a match expression, a    *)
(*                          call, sort / pop / popfirst / pluck, a literal)   *)
(*                          into a sink (every form of ESinks: an assignment, *)
(*                          an element of an array literal, a member of an    *)
(*                          object literal, an argument, an iterable, push,   *)
(*                          the subject of a match whose patterns bind names  *)
(*                          at every position), then a store to / a step of   *)
(*                          every scalar place that exists on either side     *)
(*         Mode = "given"   the histories in given.json (seeded random ones   *)
(*                          over Big, and ones whose statements put random     *)
(*                          expressions into random sinks, written by the     *)
(*                          harness); operations the statement leaves open    *)
(*                          in their state are skipped                         *)
EXTENDS JqHeap
CONSTANTS Mode, MaxOps, Wide

Fuel == 40
ObsNames == {"x", "y", "$"}
Names == {"x", "y", "$", "v", "e", "g", "p", "q"}      \* v: parameter, e / g: loop variables, p / q: names bound by a pattern
Sems == {"I", "G0", "G1"}

-----------------------------------------------------------------------------
(* operations *)
NoR == [r |-> "none"]
P(b, ss) == Path(b, ss)
RNum(n) == [r |-> "num", n |-> n]
RStr(s) == [r |-> "str", s |-> s]
RArr == [r |-> "arrlit"]       \* [8, 9]
RObj == [r |-> "objlit"]       \* {k: 3}
RPath(p) == [r |-> "path", p |-> p]
Op(kind, p, r, f) == [kind |-> kind, p |-> p, r |-> r, f |-> f]
Set(p, r) == Op("set", p, r, "")
Rd(p) == Op("read", p, NoR, "")
RPluck(p) == [r |-> "pluck", p |-> p]     \* p.pluck("k", "n"): a new object; scalars are copied into it, containers shared
\* a function that changes its parameter:  fk: v.k = 7   fi: v[0] = 7   fg: v[2] = 7   fr: v = 7
\*                                         fp: v++       fa: v += 2     fq: v.k++
Call(f, p) == Op("call", p, NoR, f)
\* for (e in p) body / for (g, e in p) body:  lr: e = 9   lk: e.k = 9   li: e[0] = 9
\*                                            lp: e++     lm: --e       la: e += 2    lq: e.k++
\* e is the element of an array / the key of an object in the one-variable form and the index of an
\* array / the member value of an object in the two-variable form
Loop(f, p) == Op("loop", p, NoR, f)
Loop2(f, p) == Op("loop2", p, NoR, f)
\* expressions that are more than a literal or a path (an expression may occur wherever a value is used)
RSort(p) == [r |-> "sort", p |-> p]                          \* p.sort(): a NEW array that holds copies of p's elements, in order
RArrOf(es) == [r |-> "arrof", es |-> es]                     \* [e1, e2, ...]: a new array; scalars are copied into it, containers shared
RObjOf(e) == [r |-> "objof", e |-> e]                        \* {k: e}
RAsg(p, e) == [r |-> "asg", p |-> p, e |-> e]                \* (p = e) used as a value: the value stored
RUpdE(kind, p) == [r |-> "upd", kind |-> kind, p |-> p]      \* (p += 2), (++p), (p++), ... used as a value
RMatchE(e, pats, arm) == [r |-> "match", e |-> e, pats |-> pats, arm |-> arm]   \* match (e) { pat, pat => arm }: arm is an expression
RCallE(f, e) == [r |-> "call", f |-> f, e |-> e]             \* id(e): return v   h0: return v[0]   hk: return v.k   hj: return v.j   gx: return x   ga: return x = v
RMethE(kind, p) == [r |-> "meth", kind |-> kind, p |-> p]    \* p.pop() / p.popfirst() / p.push(6) used as a value
\* patterns of a match: a name (binds the value: a scalar is copied, a container shared), a number, an array of patterns
PN(n) == [pt |-> "name", nm |-> n]
PL(n) == [pt |-> "lit", n |-> n]
PA(ps) == [pt |-> "arr", ps |-> ps]
\* match (r) { pats => { body f } }:  mr: p = 9   mp: p++   ma: p += 2   mk: p.k = 9   mi: p[0] = 9   mq: p.k++
\*                                    nr: q = 9   np: q++   nk: q.k = 9  ni: q[0] = 9  m2: p = 9; q++
Match(r, pats, f) == [kind |-> "match", p |-> Path("x", <<>>), r |-> r, f |-> f, pats |-> pats]
\* f(r) / for (e in r) / p.push(r) with an expression r (with r = NoR: the path p, the number 6)
CallR(f, r) == Op("call", Path("x", <<>>), r, f)
LoopR(f, r) == Op("loop", Path("x", <<>>), r, f)
Loop2R(f, r) == Op("loop2", Path("x", <<>>), r, f)
PushR(p, r) == Op("push", p, r, "")
ArgOf(op) == IF op.r.r = "none" THEN RPath(op.p) ELSE op.r
Upd(kind, p) == Op(kind, p, NoR, "")      \* cadd: p += 2  csub: p -= 2   cstr: p += "s"  preinc postinc predec postdec
UpdKinds == {"cadd", "csub", "cstr", "preinc", "postinc", "predec", "postdec"}
\* length-changing methods through any path:  print p.pop() / p.popfirst() / p.push(6)
Meth(kind, p) == Op(kind, p, NoR, "")
MethKinds == {"pop", "popfirst", "push"}
CallFs == {"fk", "fi", "fg", "fr", "fp", "fa", "fq"}
LoopFs == {"lr", "lk", "li", "lp", "lm", "la", "lq"}
MatchPFs == {"mr", "mp", "ma", "mk", "mi", "mq"}
MatchQFs == {"nr", "np", "nk", "ni"}
MatchFs == MatchPFs \cup MatchQFs \cup {"m2"}
BodyVar(f) == CASE f \in CallFs -> "v" [] f \in MatchPFs -> "p" [] f \in MatchQFs -> "q" [] OTHER -> "e"
BodyPath(f) == P(BodyVar(f), CASE f \in {"fk", "lk", "fq", "lq", "mk", "mq", "nk"} -> <<K("k")>> [] f \in {"fi", "li", "mi", "ni"} -> <<I(0)>> [] f = "fg" -> <<I(2)>> [] OTHER -> <<>>)
BodyUpd(f) == CASE f \in {"fp", "lp", "fq", "lq", "mp", "mq", "np"} -> "postinc" [] f = "lm" -> "predec" [] f \in {"fa", "la", "ma"} -> "cadd" [] OTHER -> ""
\* the names a body needs to be bound
BodyNeeds(f) == IF f = "m2" THEN {"p", "q"} ELSE {BodyVar(f)}

X(ss) == P("x", ss)
Y(ss) == P("y", ss)
D(ss) == P("$", ss)

Small ==
  { Set(X(<<>>), RArr), Set(X(<<>>), RObj), Set(X(<<>>), RNum(7)), Set(Y(<<>>), RPath(X(<<>>))), Set(X(<<>>), RPath(Y(<<>>))),
    Set(X(<<>>), RPath(D(<<K("k")>>))), Set(Y(<<>>), RPath(D(<<>>))),
    Set(X(<<I(0)>>), RNum(7)), Set(X(<<I(2)>>), RNum(7)), Set(X(<<I(5)>>), RStr("s")), Set(X(<<I(-1)>>), RStr("s")),
    Set(X(<<K("k")>>), RNum(7)), Set(X(<<K("j")>>), RArr), Set(X(<<K("k")>>), RPath(Y(<<>>))), Set(X(<<I(1)>>), RPath(Y(<<>>))),
    Set(Y(<<I(0)>>), RNum(6)), Set(Y(<<I(2)>>), RNum(6)), Set(Y(<<K("k")>>), RNum(6)), Set(Y(<<K("j"), K("k")>>), RNum(6)),
    Set(D(<<K("k"), I(0)>>), RNum(7)), Set(D(<<K("k"), I(2)>>), RNum(7)), Set(D(<<K("j")>>), RPath(X(<<>>))),
    Set(D(<<K("k"), I(1), K("k")>>), RNum(7)),
    Upd("cadd", X(<<K("k")>>)), Upd("postinc", X(<<I(1)>>)), Upd("preinc", Y(<<I(2)>>)), Upd("predec", D(<<K("n")>>)),
    Rd(X(<<I(5)>>)), Rd(D(<<K("k"), I(3)>>)), Rd(Y(<<K("j")>>)), Rd(X(<<I(-3)>>)),
    Call("fk", X(<<>>)), Call("fi", X(<<>>)), Call("fg", Y(<<>>)), Call("fr", X(<<>>)), Call("fk", D(<<>>)),
    Loop("lk", D(<<K("k")>>)), Loop("lr", X(<<>>)), Loop("li", X(<<>>)),
    \* a loop variable / a plucked member stepped in place; an array shrunk and then padded; a member named like a method
    Loop("lp", D(<<K("k")>>)), Loop2("lm", D(<<>>)), Meth("pop", X(<<>>)), Meth("pop", D(<<K("k")>>)), Set(D(<<K("k"), I(1)>>), RNum(7)),
    Set(X(<<K("length")>>), RNum(7)) }

SelAll == {K("k"), K("j"), I(0), I(1), I(2), I(5), I(-1), I(-3)}
SelSome == {K("k"), K("j"), I(0), I(2), I(-1)}
SelSeqs == SeqsUpTo(SelAll, 2) \cup (IF Wide THEN [1..3 -> SelSome] ELSE {<<K("k"), I(1), s>> : s \in SelAll} \cup {<<K("j"), s, t>> : s, t \in {K("k"), I(1)}})
BigPaths == {P(b, ss) : b \in ObsNames, ss \in SelSeqs}
Rhss == {RNum(7), RStr("s"), RArr, RObj, RPath(Y(<<>>)), RPath(X(<<>>)), RPath(D(<<K("k")>>)), RPath(Y(<<I(5)>>))}
\* the operations added for scalar copies (loop variables, parameters, plucked members) and for the
\* length-changing methods: over every path of depth <= 1 and a few deeper ones (Wide: over every path)
NewPaths == IF Wide THEN BigPaths
            ELSE {P(b, ss) : b \in ObsNames, ss \in SeqsUpTo(SelAll, 1) \cup {<<K("k"), I(1)>>, <<K("k"), I(0)>>, <<K("k"), K("k")>>, <<K("j"), K("k")>>, <<I(1), K("k")>>}}
BigNew == {Meth(k, p) : k \in MethKinds, p \in NewPaths}
          \cup {Call(f, p) : f \in {"fp", "fa", "fq"}, p \in NewPaths}
          \cup {Loop(f, p) : f \in {"lp", "lm", "la", "lq"}, p \in NewPaths} \cup {Loop2(f, p) : f \in LoopFs, p \in NewPaths}
          \cup {Set(p, RPluck(q)) : p \in {X(<<>>), Y(<<K("j")>>), X(<<I(1)>>)}, q \in NewPaths}
Big == {Set(p, r) : p \in BigPaths, r \in Rhss} \cup {Upd(k, p) : k \in UpdKinds, p \in BigPaths} \cup {Rd(p) : p \in BigPaths}
       \cup {Call(f, p) : f \in {"fk", "fi", "fg", "fr"}, p \in BigPaths} \cup {Loop(f, p) : f \in {"lr", "lk", "li"}, p \in BigPaths}
       \cup BigNew

\* keys that are also names of prototype methods (of objects: length, pluck; of arrays: length, push)
SelNames == {K("length"), K("pluck"), K("push"), K("k"), I(0)}
NamePaths == {P(b, ss) : b \in ObsNames, ss \in SeqsUpTo(SelNames, 2)}
BigNames == {Set(p, r) : p \in NamePaths, r \in {RNum(7), RObj, RPath(Y(<<>>))}} \cup {Upd(k, p) : k \in UpdKinds, p \in NamePaths}
            \cup {Rd(p) : p \in NamePaths} \cup {Call(f, p) : f \in {"fk", "fr"}, p \in NamePaths}
            \cup {Loop2("lq", p) : p \in NamePaths}
NamePrefixes ==
  { <<>>, <<Set(X(<<>>), RObj)>>, <<Set(X(<<>>), RNum(7))>>, <<Set(X(<<>>), RStr("s"))>>, <<Set(X(<<>>), RArr)>>,
    <<Set(X(<<>>), RObj), Set(Y(<<>>), RPath(X(<<>>)))>>,
    <<Set(X(<<K("length")>>), RNum(7))>>, <<Set(X(<<K("pluck")>>), RObj), Set(X(<<K("pluck"), K("length")>>), RNum(7)), Set(Y(<<>>), RPath(X(<<K("pluck")>>)))>>,
    <<Set(X(<<>>), RPath(D(<<>>)))>> }

Prefixes ==
  { <<>>,
    <<Set(X(<<>>), RArr)>>, <<Set(X(<<>>), RObj)>>, <<Set(X(<<>>), RNum(7))>>, <<Set(X(<<>>), RStr("s"))>>,
    <<Set(X(<<>>), RArr), Set(Y(<<>>), RPath(X(<<>>)))>>,
    <<Set(X(<<>>), RObj), Set(Y(<<>>), RPath(X(<<>>)))>>,
    <<Set(X(<<>>), RNum(7)), Set(Y(<<>>), RPath(X(<<>>)))>>,
    <<Set(X(<<>>), RPath(D(<<K("k")>>)))>>, <<Set(X(<<>>), RPath(D(<<>>)))>>,
    <<Set(Y(<<>>), RArr), Set(X(<<K("k")>>), RPath(Y(<<>>)))>>,
    <<Set(Y(<<>>), RObj), Set(X(<<I(1)>>), RPath(Y(<<>>)))>>,
    <<Set(Y(<<>>), RArr), Set(X(<<I(0)>>), RPath(Y(<<>>))), Set(X(<<I(1)>>), RPath(Y(<<>>)))>>,
    <<Set(X(<<K("k"), K("k")>>), RArr), Set(Y(<<>>), RPath(X(<<K("k")>>)))>>,
    \* arrays that were longer before (pop leaves what it removed in the spare capacity; popfirst re-slices)
    <<Meth("pop", D(<<K("k")>>)), Meth("pop", D(<<K("k")>>))>>,
    <<Set(X(<<>>), RArr), Meth("pop", X(<<>>)), Meth("pop", X(<<>>))>>,
    <<Set(X(<<>>), RArr), Set(Y(<<>>), RPath(X(<<>>))), Meth("pop", X(<<>>))>>,
    <<Set(X(<<>>), RArr), Meth("push", X(<<>>)), Meth("pop", X(<<>>)), Meth("pop", X(<<>>))>>,
    <<Set(X(<<>>), RArr), Meth("popfirst", X(<<>>))>>,
    \* an object whose members were plucked from another
    <<Set(X(<<>>), RPluck(D(<<>>)))>> }

-----------------------------------------------------------------------------
(* initial states: x, y unset; $ = {"k": [1, {"k": 2}], "n": 5}              *)
Env0(d) == [n \in Names |-> IF n = "$" THEN d ELSE Unset]
InitI == [heap |-> << ObjC(("k" :> Arr(2)) @@ ("n" :> Num(5))), ArrC(<<Num(1), Obj(3)>>), ObjC("k" :> Num(2)) >>,
          env |-> Env0(Obj(1))]
InitG == [heap |-> << ObjC(("k" :> GHdr(2, 2, 2)) @@ ("n" :> Num(5))), [k |-> "slots", s |-> <<3, 4>>],
                      [k |-> "cell", v |-> Num(1)], [k |-> "cell", v |-> Obj(5)], ObjC("k" :> Num(2)) >>,
          env |-> Env0(Obj(1)), taint |-> 0]

-----------------------------------------------------------------------------
(* the primitives under the three semantics *)
R3(st, res, status) == [st |-> st, res |-> res, status |-> status]
\* read in a pure-read context (print, right-hand side, argument, iterable)
RdP(sem, st, p) ==
  IF sem = "I" THEN LET v == ReadPath(st, p) IN R3(st, v, IF v.t \in {"error", "open"} THEN v.t ELSE "ok")
  ELSE LET r == GReadPath(st, p, sem = "G1") IN R3(r.st, r.res, r.status)
\* read as the first half of a read-modify-write of the same location
RdQ(sem, st, p) ==
  IF sem = "I" THEN RdP(sem, st, p) ELSE LET r == GReadPath(st, p, FALSE) IN R3(r.st, r.res, r.status)
AsP(sem, st, p, v) ==
  LET r == IF sem = "I" THEN AssignPath(st, p, v) ELSE GAssignPath(st, p, v) IN R3(r.st, Missing, r.status)
TreeOf(sem, st, v) == IF sem = "I" THEN Tree(st, v, Fuel) ELSE GTree(st, v, Fuel)
ElemsOf(sem, st, v) == IF sem = "I" THEN st.heap[v.id].items ELSE LET cs == GView(st, v) IN [i \in 1..Len(cs) |-> st.heap[cs[i]].v]
\* the keys of an object in the order a for-in loop visits them (bytewise)
KeySeq == <<"floor", "j", "k", "length", "n", "pluck", "push">>
KeysKnown(m) == \A k \in DOMAIN m : \E i \in 1..Len(KeySeq) : KeySeq[i] = k
SortedKeys(m) == SelectSeq(KeySeq, LAMBDA k : k \in DOMAIN m)
\* what the loop variable e holds in each round (two: the two-variable form)
LoopElems(sem, st, v, two) ==
  IF v.t = "arr" THEN LET es == ElemsOf(sem, st, v) IN IF two THEN [i \in 1..Len(es) |-> Num(i - 1)] ELSE es
  ELSE LET m == st.heap[v.id].m  ks == SortedKeys(m) IN [i \in 1..Len(ks) |-> IF two THEN m[ks[i]] ELSE Str(ks[i])]
SetEnv(st, n, v) == [st EXCEPT !.env[n] = v]
MkLit(sem, st, r) ==
  CASE r.r = "num" -> [st |-> st, val |-> Num(r.n)]
    [] r.r = "str" -> [st |-> st, val |-> Str(r.s)]
    [] r.r = "objlit" -> LET s1 == Alloc(st, ObjC("k" :> Num(3))) IN [st |-> s1, val |-> Obj(Len(s1.heap))]
    [] r.r = "pluck" ->      \* only called when r.p holds an object
         LET v == IF sem = "I" THEN ReadPath(st, r.p) ELSE GReadPath(st, r.p, FALSE).res
             m == st.heap[v.id].m
             at(k) == IF k \in DOMAIN m THEN GCopy(m[k]) ELSE Null
             s1 == Alloc(st, ObjC(("k" :> at("k")) @@ ("n" :> at("n"))))   \* (an explicit function: TLC cannot write a lazy one to its disk queue)
         IN [st |-> s1, val |-> Obj(Len(s1.heap))]
    [] r.r = "arrlit" ->
         IF sem = "I" THEN LET s1 == Alloc(st, ArrC(<<Num(8), Num(9)>>)) IN [st |-> s1, val |-> Arr(Len(s1.heap))]
         ELSE LET s1 == GAlloc(GAlloc(st, [k |-> "cell", v |-> Num(8)]), [k |-> "cell", v |-> Num(9)])
                  s2 == GAlloc(s1, [k |-> "slots", s |-> <<Len(s1.heap) - 1, Len(s1.heap)>>])
              IN [st |-> s2, val |-> GHdr(Len(s2.heap), 2, 2)]

\* the null a padding evaluation of the left side left behind is treated as absent by the store of
\* the same statement (it is created in place or overwritten)
Despec(old, new) ==
  [new EXCEPT !.heap = [i \in 1..Len(new.heap) |->
      IF i > Len(old.heap) /\ new.heap[i].k = "cell" /\ new.heap[i].v = SpecNull THEN [k |-> "cell", v |-> Fresh] ELSE new.heap[i]]]

\* a read that goes through an unset variable: the value (null) is fixed, what
\* becomes of the variable is not (the pinned code turns it into a container)
ThroughUnset(st, p) == p.sels # <<>> /\ st.env[p.base].t = "unset"

\* A member that an object does not have but whose key names a method of objects reads as that method
\* (x.length is the method length when x has no member "length"): the statement does not say what a
\* pure read of it yields; a store to it creates the member like any other
ObjMethods == {"length", "pluck"}
ValueAt(sem, st, p, n) == IF sem = "I" THEN ReadFrom(st, st.env[p.base], SubSeq(p.sels, 1, n))
                          ELSE LET r == GReadAt(st, st.env[p.base], SubSeq(p.sels, 1, n), FALSE) IN IF r.status = "ok" THEN r.res ELSE [t |-> r.status]
\* is the selector after the first n one that finds a method instead of a member?
MethodAt(sem, st, p, n) ==
  /\ n < Len(p.sels) /\ p.sels[n + 1].s = "key" /\ p.sels[n + 1].k \in ObjMethods
  /\ LET v == ValueAt(sem, st, p, n) IN
     \/ v.t = "obj" /\ p.sels[n + 1].k \notin DOMAIN st.heap[v.id].m
     \/ v.t = "unset" /\ n = 0
PureMethodRead(sem, st, p) == p.sels # <<>> /\ MethodAt(sem, st, p, Len(p.sels) - 1)
\* deviation `method-name-intermediate`: a store THROUGH such a member (x.length.k = 1, x without a member
\* "length") must create it as an object like any missing intermediate; the pinned code refuses it
MethodIntermediate(sem, st, p) == \E n \in 0..(Len(p.sels) - 2) : MethodAt(sem, st, p, n)

\* p op= 2, ++p, ... : read, compute, store at the same location
UpdStep(sem, st, op) ==
         LET rd == RdQ(sem, st, op.p) IN
         IF rd.status # "ok" THEN rd
         ELSE IF IsCont(rd.res) THEN R3(st, Missing, "open")      \* arithmetic on containers is C05's
         ELSE LET cur == rd.res
                  new == CASE op.kind = "cadd" -> Plus(cur, Num(2))
                           [] op.kind = "csub" -> Minus(cur, Num(2))
                           [] op.kind = "cstr" -> Plus(cur, Str("s"))
                           [] op.kind \in {"preinc", "postinc"} -> Num(NumOf(cur) + 1)
                           [] OTHER -> Num(NumOf(cur) - 1)
                  as == AsP(sem, rd.st, op.p, new)
                  res == CASE op.kind \in {"postinc", "postdec"} -> Num(NumOf(cur))
                           [] op.kind \in {"preinc", "predec"} -> new
                           [] OTHER -> Missing
              IN IF as.status = "error" /\ op.kind \in {"preinc", "postinc", "predec", "postdec"}
                 THEN R3(st, Missing, "open")                      \* C11 owns the fault of ++ on a member of a scalar
                 ELSE R3(as.st, res, as.status)

\* the body of a function / a loop / a match arm: a store to, or an update of, the parameter / loop variable / bound name or a part of it
Body1(sem, st, f, n) ==
  IF BodyUpd(f) = "" THEN AsP(sem, st, BodyPath(f), Num(n))
  ELSE LET r == UpdStep(sem, st, Upd(BodyUpd(f), BodyPath(f))) IN R3(r.st, Missing, r.status)
Body(sem, st, f, n) ==
  IF f = "m2" THEN LET a == Body1(sem, st, "mr", n) IN IF a.status # "ok" THEN a ELSE Body1(sem, a.st, "np", n)
  ELSE Body1(sem, st, f, n)

RECURSIVE LoopFrom(_, _, _, _, _)
LoopFrom(sem, st, elems, i, f) ==
  IF i > Len(elems) THEN R3(st, Missing, "ok")
  ELSE IF elems[i].t = "specnull" THEN R3(st, Missing, "wild")
  ELSE LET r == Body(sem, SetEnv(st, "e", GCopy(elems[i])), f, 9)
       IN IF r.status # "ok" THEN r ELSE LoopFrom(sem, r.st, elems, i + 1, f)

\* a new array that holds the (already copied) values vals
MkArr(sem, st, vals) ==
  IF sem = "I" THEN LET s1 == Alloc(st, ArrC(vals)) IN [st |-> s1, val |-> Arr(Len(s1.heap))]
  ELSE LET n == Len(vals)
           base == Len(st.heap)
           s1 == IF n = 0 THEN st ELSE [st EXCEPT !.heap = @ \o [i \in 1..n |-> [k |-> "cell", v |-> vals[i]]]]
           s2 == GAlloc(s1, [k |-> "slots", s |-> IF n = 0 THEN <<>> ELSE [i \in 1..n |-> base + i]])
       IN [st |-> s2, val |-> GHdr(Len(s2.heap), n, n)]

\* pop / popfirst / push(arg) on the array held in location p
MethStep(sem, st, kind, p, arg) ==
         \* the receiver must be an array (a method of anything else: C15's / C16's)
         LET rd == RdQ(sem, st, p) IN
         IF rd.status # "ok" THEN rd
         ELSE IF rd.res.t # "arr" THEN R3(st, Missing, "open")
         ELSE IF sem = "I" THEN
              LET r == CASE kind = "pop" -> ListPop(rd.st.heap, rd.res.id)
                         [] kind = "popfirst" -> ListPopFirst(rd.st.heap, rd.res.id)
                         [] OTHER -> ListPush(rd.st.heap, rd.res.id, arg)
              IN R3([rd.st EXCEPT !.heap = r.h], r.res, "ok")
         ELSE LET r == GMethod(rd.st, p, rd.res, kind, arg) IN R3(r.st, r.res, r.status)

\* the places a store at p goes through: (container, position) pairs with the length of each array; a store whose
\* right-hand side changes this trail is not fixed by the statement (the pinned code resolves the target first)
RECURSIVE Trail(_, _, _)
Trail(st, cur, sels) ==
  IF sels = <<>> THEN <<>>
  ELSE LET sel == Head(sels) IN
  IF cur.t = "arr" /\ sel.s = "idx" THEN
     LET items == st.heap[cur.id].items
         j == Norm(Len(items), sel.i)
     IN <<[id |-> cur.id, j |-> j, k |-> "", n |-> Len(items)]>>
        \o (IF j >= 0 /\ j < Len(items) THEN Trail(st, items[j + 1], Tail(sels)) ELSE <<[id |-> 0, j |-> 0, k |-> "new", n |-> 0]>>)
  ELSE IF cur.t = "obj" /\ sel.s = "key" THEN
     LET m == st.heap[cur.id].m
     IN <<[id |-> cur.id, j |-> 0, k |-> sel.k, n |-> 0]>>
        \o (IF sel.k \in DOMAIN m THEN Trail(st, m[sel.k], Tail(sels)) ELSE <<[id |-> 0, j |-> 0, k |-> "new", n |-> 0]>>)
  ELSE <<[id |-> 0, j |-> 0, k |-> cur.t, n |-> 0]>>
TrailOf(st, p) == Trail(st, st.env[p.base], p.sels)

\* the deepest proper prefix of p that resolves to an existing container
RECURSIVE Deepest(_, _, _)
Deepest(st, p, n) ==
  IF n < 0 THEN [n |-> -1, v |-> Unset]
  ELSE LET v == ReadFrom(st, st.env[p.base], SubSeq(p.sels, 1, n)) IN
       IF IsCont(v) THEN [n |-> n, v |-> v] ELSE Deepest(st, p, n - 1)

\* would storing the container v at p put it below itself?
CycleI(st, p, v) ==
  /\ IsCont(v) /\ p.sels # <<>>
  /\ LET d == Deepest(st, p, Len(p.sels) - 1) IN d.n >= 0 /\ d.v.id \in ReachFrom(st, v, Fuel)

\* the variables a statement mentions
RECURSIVE RhsBases(_)
RhsBases(r) ==
  CASE r.r \in {"path", "pluck", "sort", "meth", "upd"} -> {r.p.base}
    [] r.r = "asg" -> {r.p.base} \cup RhsBases(r.e)
    [] r.r = "arrof" -> UNION {RhsBases(r.es[i]) : i \in 1..Len(r.es)}
    [] r.r = "objof" -> RhsBases(r.e)
    [] r.r = "match" -> RhsBases(r.e) \cup RhsBases(r.arm)
    [] r.r = "call" -> RhsBases(r.e) \cup (IF r.f \in {"gx", "ga"} THEN {"x"} ELSE {})
    [] OTHER -> {}
\* the variables an expression stores to or steps (a name first assigned inside a function or a match arm lives
\* in that frame only: which frame a new variable belongs to is not this property's matter)
RECURSIVE WriteBases(_)
WriteBases(r) ==
  CASE r.r = "asg" -> {r.p.base} \cup WriteBases(r.e)
    [] r.r \in {"upd", "meth"} -> {r.p.base}
    [] r.r = "arrof" -> UNION {WriteBases(r.es[i]) : i \in 1..Len(r.es)}
    [] r.r = "objof" -> WriteBases(r.e)
    [] r.r = "match" -> WriteBases(r.e) \cup WriteBases(r.arm)
    [] r.r = "call" -> WriteBases(r.e) \cup (IF r.f = "ga" THEN {"x"} ELSE {})
    [] OTHER -> {}
\* how many length-changing method calls an expression contains
RECURSIVE MethCount(_)
MethCount(r) ==
  CASE r.r = "meth" -> 1
    [] r.r = "asg" -> MethCount(r.e)
    [] r.r = "arrof" -> IF r.es = <<>> THEN 0 ELSE MethCount(Head(r.es)) + MethCount([r EXCEPT !.es = Tail(@)])
    [] r.r = "objof" -> MethCount(r.e)
    [] r.r = "match" -> MethCount(r.e) + MethCount(r.arm)
    [] r.r = "call" -> MethCount(r.e)
    [] OTHER -> 0

BindAll(st, b) == [st EXCEPT !.env = [n \in Names |-> IF \E i \in 1..Len(b) : b[i].n = n
                                                    THEN b[CHOOSE i \in 1..Len(b) : b[i].n = n /\ \A j \in (i + 1)..Len(b) : b[j].n # n].v ELSE @[n]]]
Unbind(st) == [st EXCEPT !.env["p"] = Unset, !.env["q"] = Unset]

(* does the value v match the pattern pat?  m: "yes" / "no" / "open" (not fixed here: what a literal equals is   *)
(* C05's / C19's) / "wild"; b: the bindings, a sequence of [n, v].  A name binds the VALUE: a scalar is copied.  *)
RECURSIVE PatBind(_, _, _, _), PatBindSeq(_, _, _, _, _, _)
PatBind(sem, st, pat, v) ==
  CASE pat.pt = "name" -> [m |-> "yes", b |-> <<[n |-> pat.nm, v |-> GCopy(v)]>>]
    [] pat.pt = "lit" ->
         IF v.t = "specnull" THEN [m |-> "wild", b |-> <<>>]
         ELSE IF v.t \notin {"num", "null", "missing"} THEN [m |-> "open", b |-> <<>>]
         ELSE [m |-> IF v.t = "num" /\ v.n = pat.n THEN "yes" ELSE "no", b |-> <<>>]
    [] OTHER ->
         IF v.t # "arr" THEN [m |-> IF v.t = "specnull" THEN "wild" ELSE "no", b |-> <<>>]
         ELSE LET es == ElemsOf(sem, st, v) IN
              IF Len(es) # Len(pat.ps) THEN [m |-> "no", b |-> <<>>]
              ELSE PatBindSeq(sem, st, pat.ps, es, 1, <<>>)
PatBindSeq(sem, st, ps, es, i, acc) ==
  IF i > Len(ps) THEN [m |-> "yes", b |-> acc]
  ELSE LET r == PatBind(sem, st, ps[i], es[i]) IN
       IF r.m # "yes" THEN r ELSE PatBindSeq(sem, st, ps, es, i + 1, acc \o r.b)
\* the alternatives of a case, in order: the first that matches
RECURSIVE PatAlts(_, _, _, _, _)
PatAlts(sem, st, pats, v, i) ==
  IF i > Len(pats) THEN [m |-> "no", b |-> <<>>]
  ELSE LET r == PatBind(sem, st, pats[i], v) IN IF r.m = "no" THEN PatAlts(sem, st, pats, v, i + 1) ELSE r

(* The value of an expression: [st, res, status].  res is the value itself: whoever uses it copies it (GCopy: a  *)
(* scalar is a value, a container a reference), so that by construction nothing that is done to the place the    *)
(* value is put into can reach the place it came from, and the other way round, unless it is a container.        *)
RECURSIVE EvalR(_, _, _), SetStep(_, _, _, _), EvalList(_, _, _, _), MatchEnter(_, _, _, _)
EvalList(sem, st, es, acc) ==
  IF es = <<>> THEN [st |-> st, vals |-> acc, status |-> "ok"]
  ELSE LET e == EvalR(sem, st, Head(es)) IN
       IF e.status # "ok" THEN [st |-> st, vals |-> acc, status |-> e.status]
       ELSE IF e.res.t = "unset" THEN [st |-> st, vals |-> acc, status |-> "open"]     \* an unset variable inside a literal
       ELSE EvalList(sem, e.st, Tail(es), Append(acc, GCopy(e.res)))
\* evaluate the subject, find the alternative, bind its names: m = "yes" (st: with the bindings) / "no" / a status
MatchEnter(sem, st, e, pats) ==
  LET sv == EvalR(sem, st, e) IN
  IF sv.status # "ok" THEN [st |-> st, m |-> sv.status]
  ELSE IF sv.res.t = "unset" THEN [st |-> st, m |-> "open"]       \* an unset subject: C19's
  ELSE LET pm == PatAlts(sem, sv.st, pats, sv.res, 1) IN
       IF pm.m = "yes" THEN [st |-> BindAll(sv.st, pm.b), m |-> "yes"] ELSE [st |-> sv.st, m |-> pm.m]
EvalR(sem, st, r) ==
  CASE r.r \in {"num", "str", "arrlit", "objlit"} -> LET m == MkLit(sem, st, r) IN R3(m.st, m.val, "ok")
    [] r.r = "path" ->
         LET rd == RdP(sem, st, r.p) IN
         IF rd.status # "ok" THEN rd ELSE IF PureMethodRead(sem, st, r.p) THEN R3(st, Missing, "open") ELSE rd
    [] r.r = "pluck" ->
         LET rd == RdP(sem, st, r.p) IN
         IF rd.status # "ok" THEN rd
         ELSE IF rd.res.t # "obj" THEN R3(st, Missing, "open")       \* pluck of anything else: C16's
         ELSE IF PureMethodRead(sem, st, r.p) THEN R3(st, Missing, "open")
         ELSE LET m == MkLit(sem, rd.st, r) IN R3(m.st, m.val, "ok")
    [] r.r = "sort" ->
         LET rd == RdP(sem, st, r.p) IN
         IF rd.status # "ok" THEN rd
         ELSE IF rd.res.t # "arr" THEN R3(st, Missing, "open")       \* sort of anything else: C16's
         ELSE LET es == ElemsOf(sem, rd.st, rd.res) IN
              IF \E i \in 1..Len(es) : es[i].t = "specnull" THEN R3(st, Missing, "wild")
              \* the order of containers, booleans and nulls, and of strings longer than StrRank looks: C15's
              ELSE IF \E i \in 1..Len(es) : es[i].t \notin {"num", "str"} \/ (es[i].t = "str" /\ Len(es[i].s) > 4) THEN R3(st, Missing, "open")
              ELSE LET m == MkArr(sem, rd.st, ListSortItems(es)) IN R3(m.st, m.val, "ok")
    [] r.r = "arrof" ->
         LET l == EvalList(sem, st, r.es, <<>>) IN
         IF l.status # "ok" THEN R3(st, Missing, l.status)
         ELSE LET m == MkArr(sem, l.st, l.vals) IN R3(m.st, m.val, "ok")
    [] r.r = "objof" ->
         LET e == EvalR(sem, st, r.e) IN
         IF e.status # "ok" THEN e
         ELSE IF e.res.t = "unset" THEN R3(st, Missing, "open")
         ELSE LET s1 == Alloc(e.st, ObjC("k" :> GCopy(e.res))) IN R3(s1, Obj(Len(s1.heap)), "ok")
    [] r.r = "asg" -> SetStep(sem, st, r.p, r.e)
    [] r.r = "upd" ->
         LET u == UpdStep(sem, st, Upd(r.kind, r.p)) IN
         IF u.status # "ok" \/ r.kind \in {"preinc", "postinc", "predec", "postdec"} THEN u
         ELSE LET rd == RdQ(sem, u.st, r.p) IN R3(u.st, rd.res, rd.status)     \* (p += 2): the new value
    [] r.r = "meth" -> MethStep(sem, st, r.kind, r.p, Num(6))       \* p.push(6) yields p itself: the same array, not a copy
    [] r.r = "match" ->
         LET en == MatchEnter(sem, st, r.e, r.pats) IN
         IF en.m = "yes" THEN
            IF \E b \in WriteBases(r.arm) : en.st.env[b].t = "unset" THEN R3(st, Missing, "open")
            ELSE LET a == EvalR(sem, en.st, r.arm) IN R3(Unbind(a.st), a.res, a.status)
         ELSE IF en.m = "no" THEN R3(en.st, Null, "ok")               \* no alternative matches: null
         ELSE R3(st, Missing, en.m)
    [] r.r = "call" ->
         LET a == EvalR(sem, st, r.e) IN
         IF a.status # "ok" THEN a
         ELSE IF r.f \in {"gx", "ga"} /\ a.st.env["x"].t = "unset" THEN R3(st, Missing, "open")   \* x would be a local of the function
         ELSE LET s1 == SetEnv(a.st, "v", GCopy(a.res))
                  V(ss) == P("v", ss)
                  b == CASE r.f = "id" -> RdP(sem, s1, V(<<>>))
                         [] r.f = "h0" -> RdP(sem, s1, V(<<I(0)>>))
                         [] r.f = "hk" -> RdP(sem, s1, V(<<K("k")>>))
                         [] r.f = "hj" -> RdP(sem, s1, V(<<K("j")>>))
                         [] r.f = "gx" -> RdP(sem, s1, P("x", <<>>))
                         [] OTHER -> IF s1.env["v"].t = "unset" THEN R3(s1, Missing, "open") ELSE SetStep(sem, s1, P("x", <<>>), RPath(V(<<>>)))
              IN IF b.status # "ok" THEN b
                 ELSE R3(SetEnv(b.st, "v", Unset), GCopy(b.res), "ok")

\* p = r: the value stored is the result
SetStep(sem, st, p, r) ==
         IF r.r = "path" THEN
            \* the pinned code evaluates the left side first, and (with padding reads) that already
            \* pads the array, which the right side then sees: y[2] = y[-3]
            LET lt == IF sem = "G1" THEN GReadPath(st, p, TRUE) ELSE [st |-> st, status |-> "ok"]
                st1 == IF sem = "G1" /\ lt.status = "ok" THEN Despec(st, lt.st) ELSE st
                rd == RdP(sem, st1, r.p)
                target == IF sem = "G1" THEN GResolvePath(st1, p) ELSE p
            IN
            IF lt.status = "error" THEN R3(st, Missing, "error")
            ELSE IF rd.status # "ok" THEN rd
            ELSE IF PureMethodRead(sem, st1, r.p) THEN R3(st, Missing, "open")
            ELSE IF sem # "I" /\ rd.st.taint > st1.taint THEN R3(st, Missing, "wild")   \* both sides evaluated before the store
            ELSE IF rd.res.t = "fresh" THEN R3(st, Missing, "wild")     \* the right side is the cell the left side just padded
            ELSE IF sem # "I" /\ GMakesCycle(rd.st, target, rd.res, Fuel) THEN R3(st, Missing, "wild")
            ELSE IF rd.res.t = "unset" THEN R3(st, Missing, "open")
            ELSE IF sem = "I" /\ CycleI(rd.st, target, GCopy(rd.res)) THEN R3(st, Missing, "open")      \* (a statement that is such a store is not generated: MakesCycle)
            ELSE LET a == AsP(sem, rd.st, target, GCopy(rd.res)) IN R3(a.st, GCopy(rd.res), a.status)
         ELSE IF r.r = "pluck" THEN
            LET rd == RdP(sem, st, r.p) IN
            IF rd.status # "ok" THEN rd
            ELSE IF rd.res.t # "obj" THEN R3(st, Missing, "open")       \* pluck of anything else: C16's
            ELSE IF PureMethodRead(sem, st, r.p) THEN R3(st, Missing, "open")
            ELSE IF sem # "I" /\ \E k \in DOMAIN rd.st.heap[rd.res.id].m : GMakesCycle(rd.st, p, rd.st.heap[rd.res.id].m[k], Fuel) THEN R3(st, Missing, "wild")
            ELSE LET m == MkLit(sem, rd.st, r)  a == AsP(sem, m.st, p, m.val) IN
                 IF sem = "I" /\ CycleI(m.st, p, m.val) THEN R3(st, Missing, "open") ELSE R3(a.st, m.val, a.status)
         ELSE IF r.r \in {"num", "str", "arrlit", "objlit"} THEN
            LET m == MkLit(sem, st, r)  a == AsP(sem, m.st, p, m.val) IN R3(a.st, m.val, a.status)
         ELSE
            LET rd == EvalR(sem, st, r) IN
            \* the pinned code turns an unset variable into a container when it evaluates the left side, before the right side
            \* (which mentions the variable too) is evaluated: not fixed by the statement
            IF st.env[p.base].t = "unset" /\ p.sels # <<>> /\ p.base \in RhsBases(r) THEN R3(st, Missing, IF sem = "I" THEN "open" ELSE "wild")
            ELSE IF rd.status # "ok" THEN R3(st, Missing, rd.status)
            ELSE IF rd.res.t = "unset" THEN R3(st, Missing, "open")
            ELSE LET v == GCopy(rd.res) IN
                 IF sem = "I" /\ CycleI(rd.st, p, v) THEN R3(st, Missing, "open")
                 ELSE IF sem # "I" /\ GMakesCycle(rd.st, p, v, Fuel) THEN R3(st, Missing, "wild")
                 ELSE IF sem = "I" /\ (TrailOf(st, p) # TrailOf(rd.st, p) \/ MethCount(r) > 1) THEN R3(st, Missing, "open")
                 ELSE IF sem # "I" /\ GResolvePath(st, p) # GResolvePath(rd.st, p) THEN R3(st, Missing, "wild")
                 ELSE LET a == AsP(sem, rd.st, p, v) IN R3(a.st, v, a.status)

(* one operation: [st, res (Missing = the statement prints no result), status] *)
Step(sem, st, op) ==
  CASE op.kind = "set" -> LET s == SetStep(sem, st, op.p, op.r) IN R3(s.st, Missing, s.status)
    [] op.kind \in UpdKinds -> UpdStep(sem, st, op)
    [] op.kind = "read" -> IF PureMethodRead(sem, st, op.p) THEN R3(st, Missing, "open") ELSE RdP(sem, st, op.p)
    [] op.kind = "call" ->
         LET rd == EvalR(sem, st, ArgOf(op)) IN
         IF rd.status # "ok" THEN rd
         ELSE LET as == Body(sem, SetEnv(rd.st, "v", GCopy(rd.res)), op.f, 7)
              IN R3(SetEnv(as.st, "v", Unset), Missing, as.status)
    [] op.kind \in {"loop", "loop2"} ->
         LET rd == EvalR(sem, st, ArgOf(op)) IN
         IF rd.status # "ok" THEN rd
         ELSE IF rd.res.t \notin {"arr", "obj"} THEN R3(st, Missing, "open")     \* other iterables: C07's
         ELSE IF rd.res.t = "obj" /\ ~KeysKnown(rd.st.heap[rd.res.id].m) THEN R3(st, Missing, "open")
         ELSE LET lp == LoopFrom(sem, rd.st, LoopElems(sem, rd.st, rd.res, op.kind = "loop2"), 1, op.f)
              IN R3(SetEnv(SetEnv(lp.st, "e", Unset), "g", Unset), Missing, lp.status)
    [] op.kind = "match" ->
         LET en == MatchEnter(sem, st, op.r, op.pats) IN
         IF en.m = "yes" THEN
            IF \E n \in BodyNeeds(op.f) : en.st.env[n].t = "unset" THEN R3(st, Missing, "open")   \* the body would create a variable
            ELSE LET b == Body(sem, en.st, op.f, 9) IN R3(Unbind(b.st), Missing, b.status)
         ELSE IF en.m = "no" THEN R3(en.st, Missing, "ok")
         ELSE R3(st, Missing, en.m)
    [] op.kind \in MethKinds ->
         IF op.kind # "push" \/ op.r.r = "none" THEN MethStep(sem, st, op.kind, op.p, Num(6))
         ELSE \* p.push(r): the argument must leave the receiver alone (the pinned code looks the receiver up first)
              LET a == EvalR(sem, st, op.r) IN
              IF a.status # "ok" THEN a
              ELSE IF a.res.t = "unset" THEN R3(st, Missing, "open")
              ELSE IF sem = "I" /\ (ReadPath(st, op.p) # ReadPath(a.st, op.p) \/ TrailOf(st, Path(op.p.base, op.p.sels \o <<I(0)>>)) # TrailOf(a.st, Path(op.p.base, op.p.sels \o <<I(0)>>))) THEN R3(st, Missing, "open")
              ELSE IF sem # "I" /\ GReadPath(st, op.p, FALSE).res # GReadPath(a.st, op.p, FALSE).res THEN R3(st, Missing, "wild")
              ELSE IF sem = "I" /\ ReadPath(a.st, op.p).t = "arr" /\ IsCont(a.res) /\ ReadPath(a.st, op.p).id \in ReachFrom(a.st, a.res, Fuel) THEN R3(st, Missing, "open")   \* a cycle
              ELSE IF sem # "I" /\ a.res.t \in {"arr", "obj"} /\ GReadPath(a.st, op.p, FALSE).res.t = "arr" /\ GReadPath(a.st, op.p, FALSE).res.id \in GReach(a.st, a.res, Fuel) THEN R3(st, Missing, "wild")
              ELSE MethStep(sem, a.st, "push", op.p, GCopy(a.res))

\* the paths an operation only reads
RECURSIVE RhsReads(_)
RhsReads(r) ==
  CASE r.r \in {"path", "pluck", "sort"} -> {r.p}
    [] r.r = "arrof" -> UNION {RhsReads(r.es[i]) : i \in 1..Len(r.es)}
    [] r.r \in {"objof", "asg"} -> RhsReads(r.e)
    [] r.r = "match" -> RhsReads(r.e) \cup RhsReads(r.arm)
    [] r.r = "call" -> RhsReads(r.e)
    [] OTHER -> {}
ReadPaths(op) == CASE op.kind = "set" -> RhsReads(op.r)
                   [] op.kind = "read" -> {op.p}
                   [] op.kind \in {"call", "loop", "loop2"} -> RhsReads(ArgOf(op))
                   [] op.kind = "match" -> RhsReads(op.r)
                   [] op.kind = "push" -> RhsReads(op.r)
                   [] OTHER -> {}
SkipOf(st, op) == {p.base : p \in {q \in ReadPaths(op) : q.base \in ObsNames /\ ThroughUnset(st, q)}}

Observe(sem, st) == [n \in ObsNames |-> TreeOf(sem, st, st.env[n])]
ResTree(sem, st, res) == IF res.t = "missing" THEN Null ELSE TreeOf(sem, st, res)

-----------------------------------------------------------------------------
(* spec-level laws on the intended semantics, evaluated on every step        *)
Prefix(ss) == SubSeq(ss, 1, Len(ss) - 1)
IsRefTo(v, id) == IsCont(v) /\ v.id = id
RefsIn(c, id) == IF c.k = "array" THEN Cardinality({i \in 1..Len(c.items) : IsRefTo(c.items[i], id)})
                 ELSE Cardinality({k \in DOMAIN c.m : IsRefTo(c.m[k], id)})
RECURSIVE RefSum(_, _, _)
RefSum(heap, id, i) == IF i = 0 THEN 0 ELSE RefsIn(heap[i], id) + RefSum(heap, id, i - 1)
RefCount(st, id) == Cardinality({n \in Names : IsRefTo(st.env[n], id)}) + RefSum(st.heap, id, Len(st.heap))
NoSharing(st) == \A id \in 1..Len(st.heap) : RefCount(st, id) <= 1

\* inserting a container below itself would create a cycle (rendering cycles is C17's / C04's)
MakesCycle(st, op) ==
  /\ op.kind = "set" /\ op.r.r \in {"path", "pluck"} /\ op.p.sels # <<>>
  /\ LET v == ReadPath(st, op.r.p)
         d == Deepest(st, op.p, Len(op.p.sels) - 1)
         vals == IF op.r.r = "path" THEN {v}
                 ELSE IF v.t = "obj" THEN {st.heap[v.id].m[k] : k \in DOMAIN st.heap[v.id].m \cap {"k", "n"}} ELSE {}
     IN d.n >= 0 /\ \E w \in vals : IsCont(w) /\ d.v.id \in ReachFrom(st, w, Fuel)

\* frame condition of a successful store at p: of the containers that existed
\* before, only the deepest existing one on the path changes, and only at the
\* selector that follows it; no other variable changes
FrameLaw(st, st2, p) ==
  LET d == Deepest(st, p, Len(p.sels) - 1) IN
  /\ \A n \in Names \ {p.base} : st2.env[n] = st.env[n]
  /\ (d.n >= 0 => st2.env[p.base] = st.env[p.base])
  /\ \A id \in 1..Len(st.heap) :
       IF d.n >= 0 /\ id = d.v.id THEN
          LET sel == p.sels[d.n + 1]
              c == st.heap[id]
              c2 == st2.heap[id]
          IN IF c.k = "array" THEN
               LET j == Norm(Len(c.items), sel.i) IN
               /\ Len(c2.items) = (IF j + 1 > Len(c.items) THEN j + 1 ELSE Len(c.items))
               /\ \A i \in 1..Len(c2.items) : i # j + 1 => c2.items[i] = (IF i <= Len(c.items) THEN c.items[i] ELSE Null)
             ELSE /\ DOMAIN c2.m = DOMAIN c.m \cup {sel.k}
                  /\ \A k \in DOMAIN c.m : k # sel.k => c2.m[k] = c.m[k]
       ELSE st2.heap[id] = st.heap[id]

\* an independent definition of assignment on trees (no heap, no sharing)
RECURSIVE TSub(_, _, _)
TSub(tr, sels, v) ==
  IF sels = <<>> THEN v
  ELSE LET sel == Head(sels) IN
  IF tr.t \in {"unset", "missing"} THEN
     TSub(IF sel.s = "idx" THEN [t |-> "arr", items |-> <<>>] ELSE [t |-> "obj", m |-> EmptyMap], sels, v)
  ELSE IF tr.t = "arr" THEN
     LET n == Len(tr.items)
         j == Norm(n, sel.i)
         len2 == IF j + 1 > n THEN j + 1 ELSE n
     IN [t |-> "arr", items |-> [i \in 1..len2 |->
           IF i = j + 1 THEN TSub(IF i <= n THEN tr.items[i] ELSE Missing, Tail(sels), v)
           ELSE IF i <= n THEN tr.items[i] ELSE Null]]
  ELSE [t |-> "obj", m |-> [k \in DOMAIN tr.m \cup {sel.k} |->
           IF k = sel.k THEN TSub(IF k \in DOMAIN tr.m THEN tr.m[k] ELSE Missing, Tail(sels), v) ELSE tr.m[k]]]

\* ... and of its outcome: "ok", "error" (runtime error) or "open" (not fixed by the statement)
RECURSIVE TStat(_, _)
TStat(tr, sels) ==
  IF sels = <<>> THEN "ok"
  ELSE LET sel == Head(sels) IN
  IF tr.t \in {"unset", "missing"} THEN
     IF sel.s = "idx" /\ sel.i < 0 THEN "error" ELSE TStat(Missing, Tail(sels))
  ELSE IF tr.t = "arr" /\ sel.s = "idx" THEN
     LET j == Norm(Len(tr.items), sel.i) IN
     IF j < 0 THEN "error" ELSE TStat(IF j < Len(tr.items) THEN tr.items[j + 1] ELSE Missing, Tail(sels))
  ELSE IF tr.t = "obj" /\ sel.s = "key" THEN TStat(IF sel.k \in DOMAIN tr.m THEN tr.m[sel.k] ELSE Missing, Tail(sels))
  ELSE IF tr.t = "str" /\ sel.s = "idx" THEN "open"
  ELSE IF tr.t \in {"num", "str", "bool"} THEN "error"
  ELSE "open"

RawTree(st, n) == IF st.env[n].t = "unset" THEN Unset ELSE Tree(st, st.env[n], Fuel)

\* a law: where its antecedent holds its consequence must; chk records that it was exercised (vacuity)
L(name, ante, conseq) == [bad |-> IF ante /\ ~conseq THEN {name} ELSE {}, chk |-> IF ante THEN {name} ELSE {}]
LAll(ls) == [bad |-> UNION {l.bad : l \in ls}, chk |-> UNION {l.chk : l \in ls}]
\* is a sequence of values in the order sort() must produce, and does it hold the same values as another?
SortedSeq(s) == LET ks == SortKey(s) IN \A i, j \in 1..Len(s) : i < j => ks[i] <= ks[j]
SameBag(s, t) == Len(s) = Len(t) /\ \A i \in 1..Len(s) : Cardinality({j \in 1..Len(s) : s[j] = s[i]}) = Cardinality({j \in 1..Len(t) : t[j] = s[i]})
\* an expression without stores, steps and length-changing methods
RECURSIVE PureR(_)
PureR(r) ==
  CASE r.r \in {"asg", "upd", "meth"} -> FALSE
    [] r.r = "arrof" -> \A i \in 1..Len(r.es) : PureR(r.es[i])
    [] r.r = "objof" -> PureR(r.e)
    [] r.r = "match" -> PureR(r.e) /\ PureR(r.arm)
    [] r.r = "call" -> r.f # "ga" /\ PureR(r.e)
    [] OTHER -> TRUE
\* nothing that existed before has changed (new containers may have been made)
SameOld(st, st2) == st2.env = st.env /\ \A id \in 1..Len(st.heap) : st2.heap[id] = st.heap[id]

StepLaws(st, op, r) ==
  LET st2 == r.st
      ok == r.status = "ok"
      okset == op.kind = "set" /\ ok
      lit == MkLit("I", st, op.r)            \* only used for literal right-hand sides
      isLit == op.r.r \in {"num", "str", "arrlit", "objlit"}
      isPluck == op.r.r = "pluck"
      isOld == isLit \/ op.r.r \in {"path", "pluck"}
      ev == EvalR("I", st, ArgOf(op))        \* only used for the other right-hand sides / arguments
      rid == ReadPath(st, op.p).id           \* only used for methods
      onlyVar == op.f \in {"lr", "lp", "lm", "la", "fr", "fp", "fa", "mr", "mp", "ma", "nr", "np", "m2"}    \* the body changes the variable itself only
      incs == {"preinc", "postinc", "predec", "postdec"}
  IN LAll({
  \* a store changes only the deepest existing container on its path, only at the next selector
  L("frame", okset /\ isOld, FrameLaw(IF isLit THEN lit.st ELSE st, st2, op.p)),
  \* ... whatever the right-hand side is: everything else is as its evaluation left it
  L("framex", okset /\ ~isOld, FrameLaw(ev.st, st2, op.p)),
  \* reading the target back yields what was stored (the same reference for a container)
  L("readback", okset /\ isOld /\ ~isPluck, ReadPath(st2, op.p) = (IF isLit THEN lit.val ELSE ReadPath(st, op.r.p))),
  L("readbackx", okset /\ ~isOld, ReadPath(st2, op.p) = Stored(ev.res)),
  \* a literal, sort() and pluck() yield a container that did not exist before
  L("fresh", okset /\ op.r.r \in {"sort", "arrof", "objof", "arrlit", "objlit", "pluck"},
       LET o == ReadPath(st2, op.p) IN IsCont(o) /\ o.id > Len(st.heap)),
  \* p.sort() leaves p alone and yields p's elements in order
  L("sort", okset /\ op.r.r = "sort",
       LET o == ReadPath(st2, op.p)
           src == ReadPath(st, op.r.p)
       IN /\ SortedSeq(ev.st.heap[o.id].items) /\ SameBag(ev.st.heap[o.id].items, st.heap[src.id].items)
          /\ SameOld(st, ev.st)),
  \* an expression without stores changes nothing that existed
  L("pure", ok /\ op.kind \in {"set", "call", "loop", "loop2", "match", "push"} /\ PureR(ArgOf(op)) /\ ev.status = "ok", SameOld(st, ev.st)),
  \* p.pluck("k", "n") is a NEW object that holds exactly these two members, with the values p has (null where it has none)
  L("pluck", okset /\ isPluck,
       LET o == ReadPath(st2, op.p)
           src == st.heap[ReadPath(st, op.r.p).id].m
       IN /\ o.t = "obj" /\ o.id > Len(st.heap)
          /\ st2.heap[o.id].m = [k \in {"k", "n"} |-> IF k \in DOMAIN src THEN src[k] ELSE Null]),
  \* a length-changing method changes the array it is invoked on, there only at the end / the start, and nothing else
  L("meth", ok /\ op.kind \in MethKinds /\ op.r.r = "none",
       LET old == st.heap[rid].items
           new == st2.heap[rid].items
       IN /\ st2.env = st.env /\ \A id \in 1..Len(st.heap) : id # rid => st2.heap[id] = st.heap[id]
          /\ CASE op.kind = "push" -> new = Append(old, Num(6)) /\ r.res = Arr(rid)
               [] op.kind = "pop" -> IF old = <<>> THEN new = old /\ r.res = Null ELSE new \o <<r.res>> = old
               [] OTHER -> IF old = <<>> THEN new = old /\ r.res = Null ELSE <<r.res>> \o new = old),
  \* p.push(e) appends the value of e to what the evaluation of e left, and changes nothing else
  L("pushx", ok /\ op.kind = "push" /\ op.r.r # "none",
       /\ st2.env = ev.st.env /\ \A id \in 1..Len(ev.st.heap) : id # rid => st2.heap[id] = ev.st.heap[id]
       /\ st2.heap[rid].items = Append(ev.st.heap[rid].items, Stored(ev.res))),
  \* a loop variable / a parameter / a name bound by a pattern holds a COPY of a scalar: a body that changes only the variable changes nothing else
  L("loopcopy", ok /\ op.kind \in {"loop", "loop2"} /\ onlyVar /\ op.r.r = "none", st2 = st),
  L("callcopy", ok /\ op.kind = "call" /\ onlyVar /\ op.r.r = "none", st2 = st),
  L("sinkcopy", ok /\ op.kind \in {"call", "loop", "loop2", "match"} /\ onlyVar /\ op.r.r # "none", st2 = ev.st),
  \* two names for one container still show the same tree after any operation that does not rebind them
  L("alias", ok /\ \E a, b \in ObsNames : a # b /\ IsCont(st.env[a]) /\ st.env[a] = st.env[b],
       \A a, b \in ObsNames :
          (/\ a # b /\ IsCont(st.env[a]) /\ st.env[a] = st.env[b]
           /\ ~(op.kind \in {"set"} \cup UpdKinds /\ op.p.sels = <<>> /\ op.p.base \in {a, b})
           /\ (op.kind \in {"set", "call", "loop", "loop2", "match", "push"} => WriteBases(ArgOf(op)) \cap {a, b} = {}))
          => Tree(st2, st2.env[a], Fuel) = Tree(st2, st2.env[b], Fuel)),
  L("readpure", op.kind = "read", st2 = st),
  \* the outcome of a store (done / runtime error / not fixed) is the one of the tree semantics
  L("status", op.kind = "set" /\ isLit, r.status = TStat(RawTree(st, op.p.base), op.p.sels)),
  \* without sharing, the heap semantics equals substitution in the tree
  L("tree", okset /\ op.r.r \in {"num", "str"} /\ NoSharing(st),
       RawTree(st2, op.p.base) = TSub(RawTree(st, op.p.base), op.p.sels, lit.val)),
  L("others", ok /\ op.kind \in {"set"} \cup UpdKinds /\ NoSharing(st) /\ (op.kind = "set" => PureR(op.r)),
       \A n \in ObsNames \ {op.p.base} : RawTree(st2, n) = RawTree(st, n)),
  L("incdec", ok /\ op.kind \in incs,
       LET old == NumOf(ReadPath(st, op.p))
           new == ReadPath(st2, op.p)
       IN /\ new = Num(IF op.kind \in {"preinc", "postinc"} THEN old + 1 ELSE old - 1)
          /\ r.res = (IF op.kind \in {"preinc", "predec"} THEN new ELSE Num(old))),
  L("compound", ok /\ op.kind \in {"cadd", "csub"} /\ ReadPath(st, op.p).t \in {"num", "null"},
       ReadPath(st2, op.p) = Num(NumOf(ReadPath(st, op.p)) + (IF op.kind = "cadd" THEN 2 ELSE -2))),
  L("updframe", ok /\ op.kind \in UpdKinds, FrameLaw(st, st2, op.p)) })

-----------------------------------------------------------------------------
(* Mode = "expr": the value of every expression form, put into every sink.   *)
Pp == P("p", <<>>)
Pq == P("q", <<>>)
PatPQ == PA(<<PN("p"), PN("q")>>)
\* the expression forms over a source place s
EForms(s) ==
  { RPath(s), RAsg(s, RNum(7)), RAsg(s, RStr("s")), RAsg(s, RArr), RAsg(s, RPath(D(<<K("n")>>))),
    RUpdE("cadd", s), RUpdE("cstr", s), RUpdE("preinc", s), RUpdE("postinc", s),
    RMatchE(RPath(s), <<PN("p")>>, RPath(Pp)),                 \* match (s) { p => p }
    RMatchE(RNum(1), <<PL(1)>>, RPath(s)),                     \* match (1) { 1 => s }: the arm is a place
    RMatchE(RNum(1), <<PL(1)>>, RAsg(s, RNum(7))),             \* match (1) { 1 => s = 7 }
    RMatchE(RPath(s), <<PatPQ>>, RPath(Pq)),                   \* match (s) { [p, q] => q }
    RMatchE(RPath(s), <<PL(1), PatPQ>>, RUpdE("postinc", Pp)), \* match (s) { 1, [p, q] => p++ }
    RCallE("id", RPath(s)), RCallE("h0", RPath(s)), RCallE("hk", RPath(s)), RCallE("hj", RPath(s)), RCallE("ga", RPath(s)), RCallE("gx", RPath(s)),
    RSort(s), RMethE("pop", s), RMethE("popfirst", s), RMethE("push", s), RPluck(s),
    RArrOf(<<RPath(s), RNum(2)>>), RObjOf(RPath(s)) }
  \cup (IF Wide THEN { RUpdE("csub", s), RUpdE("predec", s), RUpdE("postdec", s), RAsg(s, RObj), RAsg(s, RAsg(Y(<<K("j")>>), RNum(7))),
                       RCallE("id", RAsg(s, RNum(7))), RArrOf(<<>>), RArrOf(<<RSort(s)>>), RMatchE(RPath(s), <<PA(<<PN("p"), PA(<<PN("q"), PL(3)>>)>>)>>, RPath(Pq)) }
        ELSE {})
\* the patterns and bodies of a match statement whose subject is e
EPats == { <<PN("p")>>, <<PatPQ>>, <<PL(1), PatPQ>>, <<PA(<<PL(8), PN("q")>>)>>, <<PA(<<PN("p"), PA(<<PN("q"), PL(3)>>)>>)>> }
RECURSIVE PatNames(_)
PatNames(pat) == CASE pat.pt = "name" -> {pat.nm} [] pat.pt = "lit" -> {} [] OTHER -> UNION {PatNames(pat.ps[i]) : i \in 1..Len(pat.ps)}
AltNames(pats) == UNION {PatNames(pats[i]) : i \in 1..Len(pats)}
\* the sinks of the value of e, in four groups (one initial state per prefix, source place and group)
ESinks(e, g) ==
  CASE g = 1 ->
         {Set(t, e) : t \in {Y(<<>>), Y(<<K("j")>>), Y(<<I(1)>>), X(<<>>), D(<<K("j")>>)}}
         \cup {Set(Y(<<>>), r) : r \in {RArrOf(<<e, RNum(2)>>), RArrOf(<<RNum(2), e>>), RObjOf(e), RCallE("id", e), RArrOf(<<RArrOf(<<e>>)>>),
                                        RMatchE(e, <<PN("p")>>, RPath(Pp)), RAsg(D(<<K("j")>>), e)}}
    [] g = 2 ->
         {CallR(f, e) : f \in {"fr", "fp", "fa", "fk", "fi"}}
         \cup {LoopR(f, e) : f \in {"lr", "lp", "lk", "li"}} \cup {Loop2R("lp", e)}
         \cup {PushR(p, e) : p \in {X(<<>>), D(<<K("k")>>)}}
    [] OTHER ->
         UNION {{Match(e, pats, f) : f \in {h \in MatchFs : BodyNeeds(h) \subseteq AltNames(pats)}} :
                pats \in (IF g = 3 THEN {<<PN("p")>>, <<PatPQ>>} ELSE EPats \ {<<PN("p")>>, <<PatPQ>>})}
\* the forms that are the subject of a match statement (Wide: every form)
ESubjForms(s) == IF Wide THEN EForms(s)
                 ELSE {RPath(s), RCallE("id", RPath(s)), RArrOf(<<RPath(s), RNum(2)>>), RAsg(s, RArr), RSort(s), RMatchE(RNum(1), <<PL(1)>>, RPath(s))}
\* the forms that need an array (after the prefixes that only vary the array)
EArrForms(s) == {RPath(s), RSort(s), RMethE("pop", s), RMethE("popfirst", s), RMethE("push", s), RCallE("id", RPath(s)), RMatchE(RPath(s), <<PatPQ>>, RPath(Pq))}
\* prefixes, each with the source places that are used after it, and whether every form is (Wide: always) or only
\* the forms that need an array are
EPre ==
  << [ops |-> <<Set(X(<<>>), RNum(7))>>, src |-> <<X(<<>>), D(<<K("n")>>)>>, all |-> TRUE],
     [ops |-> <<Set(X(<<>>), RArr)>>, src |-> <<X(<<>>), X(<<I(0)>>)>>, all |-> TRUE],                                                  \* [8, 9]: in order
     [ops |-> <<Set(X(<<>>), RObj)>>, src |-> <<X(<<>>), X(<<K("k")>>), X(<<K("j")>>)>>, all |-> TRUE],
     [ops |-> <<Set(D(<<K("k"), I(1)>>), RNum(2)), Set(X(<<>>), RPath(D(<<K("k")>>)))>>, src |-> <<D(<<K("k")>>), D(<<K("k"), I(0)>>)>>, all |-> TRUE],   \* $.k = [1, 2], also held by x
     [ops |-> <<>>, src |-> <<X(<<>>), D(<<K("k"), I(1), K("k")>>)>>, all |-> TRUE],
     [ops |-> <<Set(X(<<>>), RArrOf(<<RNum(9), RNum(8)>>))>>, src |-> <<X(<<>>)>>, all |-> FALSE],                                      \* not in order
     [ops |-> <<Set(X(<<>>), RArrOf(<<RStr("s"), RNum(7)>>))>>, src |-> <<X(<<>>)>>, all |-> FALSE],                                    \* mixed: ordered as strings
     [ops |-> <<Set(X(<<>>), RArrOf(<<RNum(7)>>))>>, src |-> <<X(<<>>)>>, all |-> FALSE],
     [ops |-> <<Set(X(<<>>), RArrOf(<<>>))>>, src |-> <<X(<<>>)>>, all |-> FALSE],
     [ops |-> <<Set(D(<<K("k"), I(1)>>), RNum(0))>>, src |-> <<D(<<K("k")>>)>>, all |-> FALSE],                                         \* $.k = [1, 0]
     [ops |-> <<Set(X(<<>>), RArrOf(<<RNum(1), RArrOf(<<RNum(2), RNum(3)>>)>>))>>, src |-> <<X(<<>>), X(<<I(1)>>)>>, all |-> FALSE],   \* [1, [2, 3]]
     [ops |-> <<Set(X(<<>>), RPath(D(<<>>)))>>, src |-> <<X(<<K("n")>>), X(<<K("k")>>)>>, all |-> FALSE] >>
\* the cases: one per prefix, source place and group of sinks
ECases == FlattenSeq([i \in 1..Len(EPre) |->
             LET ss == EPre[i].src IN
             FlattenSeq([j \in 1..Len(ss) |-> [g \in 1..4 |-> [i |-> i, s |-> ss[j], g |-> g]]])])
ExprOps(c) ==
  LET forms == IF c.g >= 3 THEN ESubjForms(c.s) ELSE IF Wide \/ EPre[c.i].all THEN EForms(c.s) ELSE EArrForms(c.s)
  IN UNION {ESinks(e, c.g) : e \in forms}
\* the statement reads only places that exist or are a missing member / element of a container that exists
\* (a place below a missing one reads as null whatever the form)
EUseful(st, op) ==
  \A q \in ReadPaths(op) \cup (IF op.kind = "push" THEN {op.p} ELSE {}) :
     \/ q.base \notin ObsNames
     \/ ~IsAbsent(ReadFrom(st, st.env[q.base], q.sels))
     \/ q.sels # <<>> /\ IsCont(ReadFrom(st, st.env[q.base], Prefix(q.sels)))
\* after the statement: every scalar place that exists then is stepped or stored to (Wide: both), deepest first
ProbePlaces ==
  << Y(<<I(0), I(0)>>), Y(<<I(0), I(1)>>), Y(<<I(0), K("k")>>), Y(<<I(1), I(0)>>), Y(<<I(1), K("k")>>), Y(<<K("k"), K("k")>>), Y(<<K("k"), I(0)>>),
     Y(<<K("j"), I(0)>>), Y(<<K("j"), K("k")>>), Y(<<I(0)>>), Y(<<I(1)>>), Y(<<I(2)>>), Y(<<K("k")>>), Y(<<K("j")>>), Y(<<K("n")>>),
     X(<<I(1), I(0)>>), X(<<I(1), I(1)>>), X(<<I(0)>>), X(<<I(1)>>), X(<<I(2)>>), X(<<K("k")>>), X(<<K("n")>>),
     D(<<K("j"), I(0)>>), D(<<K("j"), K("k")>>), D(<<K("j")>>), D(<<K("k"), I(0)>>), D(<<K("k"), I(1), K("k")>>), D(<<K("k"), I(1)>>), D(<<K("k"), I(2)>>), D(<<K("n")>>),
     X(<<>>), Y(<<>>) >>
ProbeOps == FlattenSeq([i \in 1..Len(ProbePlaces) |->
               IF Wide THEN <<Upd("postinc", ProbePlaces[i]), Set(ProbePlaces[i], RNum(5))>>
               ELSE IF i % 2 = 1 THEN <<Upd("postinc", ProbePlaces[i])>> ELSE <<Set(ProbePlaces[i], RNum(5))>>])
OpBases(op) == RhsBases(ArgOf(op)) \cup (IF op.kind \in {"set", "push"} THEN {op.p.base} ELSE {})
\* the probes of the places below the variables the statement mentions, and below y
ProbesFor(op) == SelectSeq(ProbeOps, LAMBDA q : q.p.base \in OpBases(op) \cup {"y"})
ProbeUseful(st, op) == ReadFrom(st, st.env[op.p.base], op.p.sels).t \in {"num", "str", "null"}

-----------------------------------------------------------------------------
VARIABLES hist, cur, gst, out, fin, law, idx
vars == <<hist, cur, gst, out, fin, law, idx>>

Alphabet(pos) ==
  CASE Mode = "depth" -> Small
    [] Mode = "names" -> BigNames
    [] OTHER -> Big

\* expectation of one step under one semantics
Expect(sem, status, st, res) ==
  IF status \in {"wild", "dead", "error"} THEN [st |-> status]
  ELSE [st |-> "ok", res |-> ResTree(sem, st, res), vars |-> Observe(sem, st)]

\* deviation `preinc-missing-index`: the pinned code yields null instead of the new value for a
\* prefix ++/-- whose target is an index of an array that does not exist yet (y.k[0] with y.k missing)
PreShape(op) == op.kind \in {"preinc", "predec"} /\ Len(op.p.sels) >= 2 /\ op.p.sels[Len(op.p.sels)].s = "idx"
PreMissingIndex(st, op) == PreShape(op) /\ ReadFrom(st, st.env[op.p.base], Prefix(op.p.sels)).t = "missing"
\* the same under the slice-header semantics (an alias may be shorter there)
PreMissingIndexG(st, op) == PreShape(op) /\ GReadAt(st, st.env[op.p.base], Prefix(op.p.sels), FALSE).res.t = "missing"

\* apply op to all three semantics
Apply2(h, c, g, o, op, rI) ==
  LET skip == SkipOf(c["I"], op)
      stepG(sem) == IF g[sem] # "ok" THEN [st |-> c[sem], res |-> Missing, status |-> IF g[sem] = "wild" THEN "wild" ELSE "dead"]
                    ELSE LET r == Step(sem, c[sem], op) IN IF r.status = "open" THEN [r EXCEPT !.status = "wild"] ELSE r
      r0 == stepG("G0")
      \* without a padding read so far and none in this operation the two coincide
      r1 == IF c["G1"] = c["G0"] /\ g["G1"] = g["G0"] /\ ReadPaths(op) = {} THEN r0 ELSE stepG("G1")
      eI == Expect("I", rI.status, rI.st, rI.res)
      e0 == Expect("G0", r0.status, r0.st, r0.res)
      e1 == Expect("G1", r1.status, r1.st, r1.res)
      devs == {d \in {"g0", "g1"} : (IF d = "g0" THEN e0 ELSE e1) # eI}
  IN [hist |-> Append(h, op),
      cur |-> [s \in Sems |-> CASE s = "I" -> rI.st [] s = "G0" -> r0.st [] OTHER -> r1.st],
      gst |-> [s \in Sems |-> CASE s = "I" -> rI.status [] s = "G0" -> r0.status [] OTHER -> r1.status],
      out |-> Append(o, [exp |-> eI, skip |-> skip, kind |-> op.kind,
                         mni |-> LET t == op.kind \in {"set"} \cup UpdKinds IN
                                 [I |-> t /\ MethodIntermediate("I", c["I"], op.p),
                                  g0 |-> t /\ g["G0"] = "ok" /\ MethodIntermediate("G0", c["G0"], op.p),
                                  g1 |-> t /\ g["G1"] = "ok" /\ MethodIntermediate("G1", c["G1"], op.p)],
                         pre |-> [I |-> PreMissingIndex(c["I"], op),
                                  g0 |-> g["G0"] = "ok" /\ PreMissingIndexG(c["G0"], op),
                                  g1 |-> g["G1"] = "ok" /\ PreMissingIndexG(c["G1"], op)],
                         dev |-> [d \in devs |-> IF d = "g0" THEN e0 ELSE e1],
                         taint |-> [g0 |-> r0.st.taint > 0, g1 |-> r1.st.taint > 0]]),
      fin |-> (rI.status # "ok" \/ skip # {}),
      \* the slice-header semantics agrees with the intended one as long as no aliased array changed its length
      law |-> LAll({StepLaws(c["I"], op, rI), L("agree", r0.status \notin {"wild", "dead"} /\ r0.st.taint = 0, e0 = eI)})]

Apply(h, c, g, o, op) == Apply2(h, c, g, o, op, Step("I", c["I"], op))
\* A read through an unset variable leaves the variable open (the pinned code turns it into a container).  A statement of
\* the old forms (one read) is kept, its variable is not compared and the history ends; a statement with an expression may
\* mention the variable again after the read, so it is not generated
OldForm(op) == op.kind # "match" /\ ArgOf(op).r \in {"num", "str", "arrlit", "objlit", "path", "pluck"} /\ (op.kind = "push" => op.r.r = "none")
EnabledR(c, op, rI) == rI.status \in {"ok", "error"} /\ ~MakesCycle(c["I"], op) /\ (OldForm(op) \/ SkipOf(c["I"], op) = {})
Enabled(c, op) == EnabledR(c, op, Step("I", c["I"], op))

RECURSIVE Run(_, _)
Run(s, ops) == IF ops = <<>> THEN s ELSE Run(Apply(s.hist, s.cur, s.gst, s.out, Head(ops)), Tail(ops))
NoLaw == [bad |-> {}, chk |-> {}]
Start == [hist |-> <<>>, cur |-> [s \in Sems |-> IF s = "I" THEN InitI ELSE InitG], gst |-> [s \in Sems |-> "ok"],
          out |-> <<>>, fin |-> FALSE, law |-> NoLaw]

\* run a given history, skipping what is not enabled, stopping when the history is over
RECURSIVE RunGiven(_, _)
RunGiven(s, ops) ==
  IF ops = <<>> \/ s.fin THEN s
  ELSE IF ~Enabled(s.cur, Head(ops)) THEN RunGiven(s, Tail(ops))
  ELSE LET t == Apply(s.hist, s.cur, s.gst, s.out, Head(ops))
       IN RunGiven([t EXCEPT !.law = LAll({@, s.law})], Tail(ops))
Given == IF Mode = "given" THEN JsonDeserialize("given.json") ELSE <<>>

\* after the statement of Mode = "expr": the probes that apply, one after the other
RECURSIVE RunProbes(_, _)
RunProbes(s, ops) ==
  IF ops = <<>> \/ s.fin THEN s
  ELSE LET op == Head(ops)
           rI == Step("I", s.cur["I"], op)
       IN IF ~ProbeUseful(s.cur["I"], op) \/ rI.status # "ok" THEN RunProbes(s, Tail(ops))
          ELSE LET t == Apply2(s.hist, s.cur, s.gst, s.out, op, rI)
               IN RunProbes([t EXCEPT !.law = LAll({@, s.law})], Tail(ops))

Init == IF Mode = "given"
        THEN /\ idx \in 1..Len(Given)
             /\ hist = Start.hist /\ cur = Start.cur /\ gst = Start.gst /\ out = Start.out /\ fin = FALSE /\ law = NoLaw
        ELSE IF Mode = "expr"
        THEN /\ idx \in 1..Len(ECases)
             /\ LET s == Run(Start, EPre[ECases[idx].i].ops) IN
                /\ hist = s.hist /\ cur = s.cur /\ gst = s.gst /\ out = s.out /\ fin = s.fin /\ law = s.law
        ELSE /\ idx = 0
             /\ \E pre \in (CASE Mode = "breadth" -> Prefixes [] Mode = "names" -> NamePrefixes [] OTHER -> {<<>>}) :
                  LET s == Run(Start, pre) IN
                  /\ hist = s.hist /\ cur = s.cur /\ gst = s.gst /\ out = s.out /\ fin = s.fin /\ law = s.law

NextGiven ==
  /\ Mode = "given" /\ hist = <<>> /\ ~fin
  /\ LET s == RunGiven(Start, Given[idx]) IN
     /\ hist' = s.hist /\ cur' = s.cur /\ gst' = s.gst /\ out' = s.out /\ law' = s.law /\ fin' = TRUE
  /\ UNCHANGED idx

NextExpr ==
  /\ Mode = "expr" /\ ~fin /\ Len(hist) = Len(EPre[ECases[idx].i].ops)
  /\ UNCHANGED idx
  /\ \E op \in ExprOps(ECases[idx]) :
       LET rI == Step("I", cur["I"], op) IN
       /\ EnabledR(cur, op, rI) /\ EUseful(cur["I"], op)
       /\ LET s == RunProbes(Apply2(hist, cur, gst, out, op, rI), ProbesFor(op)) IN
          /\ hist' = s.hist /\ cur' = s.cur /\ gst' = s.gst /\ out' = s.out /\ law' = s.law /\ fin' = TRUE

NextOp ==
        /\ Mode \notin {"given", "expr"}
        /\ UNCHANGED idx
        /\ ~fin
        /\ (Mode \in {"breadth", "names"} \/ Len(hist) < MaxOps)
        /\ \E op \in Alphabet(Len(hist) + 1) :
             LET rI == Step("I", cur["I"], op) IN
             /\ EnabledR(cur, op, rI)
             /\ LET s == Apply2(hist, cur, gst, out, op, rI) IN
                /\ hist' = s.hist /\ cur' = s.cur /\ gst' = s.gst /\ out' = s.out /\ law' = s.law
                /\ fin' = (s.fin \/ Mode \in {"breadth", "names"})

Next == NextGiven \/ NextOp \/ NextExpr
\* every variable is a function of (hist, idx)
View == <<hist, idx>>
Laws == law.bad = {}

\* compact JSON form of a tree: number, string, boolean, array, {"o": members}, "~null", "~unset"
RECURSIVE Compact(_)
Compact(tr) ==
  CASE tr.t = "num" -> tr.n [] tr.t = "str" -> tr.s [] tr.t = "bool" -> tr.b
    [] tr.t = "arr" -> [i \in 1..Len(tr.items) |-> Compact(tr.items[i])]
    [] tr.t = "obj" -> [o |-> [k \in DOMAIN tr.m |-> Compact(tr.m[k])]]
    [] OTHER -> "~" \o tr.t
CompactExp(e) == IF e.st # "ok" THEN e ELSE [st |-> "ok", res |-> Compact(e.res), vars |-> [n \in ObsNames |-> Compact(e.vars[n])]]
CompactStep(s) == [exp |-> CompactExp(s.exp), skip |-> s.skip, taint |-> s.taint, pre |-> s.pre, mni |-> s.mni,
                   dev |-> [d \in DOMAIN s.dev |-> CompactExp(s.dev[d])]]
Vec == (hist # <<>> /\ (Mode = "expr" => fin)) => Emit([ops |-> hist, chk |-> law.chk, steps |-> [i \in 1..Len(out) |-> CompactStep(out[i])]])
=============================================================================
