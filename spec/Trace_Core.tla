--------------------------- MODULE Trace_Core ---------------------------
(* Re-executes generated core programs (coretraces.ndjson: one record per   *)
(* run with the program's AST, the lines the real interpreter printed and   *)
(* its outcome) on the JqCore machine.  The machine is deterministic: one   *)
(* path per run.  At every step the lines printed by the model must be a    *)
(* prefix of the real output; at the end they must be equal and the outcome *)
(* must agree - unless the run left the defined core (st.open).             *)
EXTENDS JqCore
Traces == ndJsonDeserialize("coretraces.ndjson")
VARIABLE ti
TInit == \E i \in 1..Len(Traces) : ti = i /\ st = InitState(Traces[i].prog)
TNext == CoreNext /\ UNCHANGED ti
OutPrefix == st.open \/ (/\ Len(st.out) <= Len(Traces[ti].out)
                         /\ \A j \in 1..Len(st.out) : st.out[j] = Traces[ti].out[j])
FinalMatch == (st.outcome # "running" /\ ~st.open) =>
                 (Len(st.out) = Len(Traces[ti].out) /\ st.outcome = Traces[ti].outcome)
\* how many runs stayed inside the defined core (printed once per finished run)
Report == (st.outcome # "running") => PrintT(<<"CORE", ti, st.open, st.steps, st.why>>)
\* development aid: the model's output and flags of a finished run
ReportOut == (st.outcome # "running") => PrintT(<<"MODELOUT", st.out, st.outcome, st.open, st.why>>)
=============================================================================
