------------------------------ MODULE JqHeap ------------------------------
(* Cells, containers, assignment paths and the array methods (DESIGN.md 4.6). *)
(* Serves C09 (MC_Heap) and C15 (MC_List, Trace_List).                        *)
(*                                                                            *)
(* Part 1 is the INTENDED semantics: scalars are values, arrays and objects   *)
(* live in a heap and are held by reference, so a mutation made through one   *)
(* reference is visible through every other one by construction.              *)
(* Part 2 are the array methods on that heap (the ideal list of C15); part 2b *)
(* evaluates statements with calls nested in arguments, every call acting on *)
(* the array it was invoked on, and, as the named deviation `shared-receiver` *)
(* (F12), with the receiver kept in one cell per method name (EvalD).        *)
(* Part 3 is the alternative heap semantics of the pinned implementation      *)
(* that the open finding `alias-length` (F10) names: an array value is a Go   *)
(* slice header (backing, len, cap) that is copied on assignment, argument    *)
(* passing and insertion, the element cells being shared; with the flag       *)
(* `pads` it also fills an array on a READ past its end (`read-pads-array`,   *)
(* F9); a header also has an offset into its backing (popfirst), and pop      *)
(* leaves the removed cell in the spare capacity.                             *)
(* Part 3 is used only to explain observations that differ from Part 1.       *)
EXTENDS JqUtil

-----------------------------------------------------------------------------
(* Values *)
Null    == [t |-> "null"]
Unset   == [t |-> "unset"]       \* a variable never assigned (`is unknown`)
Missing == [t |-> "missing"]     \* internal: no such member/index (never stored; reads as null)
Wild    == [t |-> "wild"]        \* in expectations only: not constrained
Num(n)  == [t |-> "num", n |-> n]
Str(s)  == [t |-> "str", s |-> s]
Bool(b) == [t |-> "bool", b |-> b]
Arr(i)  == [t |-> "arr", id |-> i]
Obj(i)  == [t |-> "obj", id |-> i]
IsCont(v)   == v.t \in {"arr", "obj"}
IsAbsent(v) == v.t \in {"missing", "unset", "fresh"}
Stored(v)   == IF v.t \in {"missing", "fresh"} THEN Null ELSE v

(* Selectors and paths: x.k[2] is Path("x", <<K("k"), I(2)>>) *)
K(k) == [s |-> "key", k |-> k]
I(i) == [s |-> "idx", i |-> i]
Path(b, ss) == [base |-> b, sels |-> ss]

(* The three coercions of DESIGN.md 3.1 on the model's value universe        *)
(* (integers; short strings, of which only the listed ones are numeric)      *)
NumOfStr(s) == CASE s = "0" -> 0 [] s = "1" -> 1 [] s = "2" -> 2 [] s = "7" -> 7 [] s = "10" -> 10 [] s = "-1" -> -1 [] OTHER -> 0
NumOf(v) == CASE v.t = "num" -> v.n
              [] v.t = "bool" -> IF v.b THEN 1 ELSE 0
              [] v.t = "str" -> NumOfStr(v.s)
              [] OTHER -> 0
StrOf(v) == CASE v.t = "str" -> v.s
              [] v.t = "num" -> ToString(v.n)
              [] OTHER -> ""
\* `L + R` (3.3): concatenation if either side is a string, else numeric
Plus(l, r) == IF l.t = "str" \/ r.t = "str" THEN Str(StrOf(l) \o StrOf(r)) ELSE Num(NumOf(l) + NumOf(r))
Minus(l, r) == Num(NumOf(l) - NumOf(r))

-----------------------------------------------------------------------------
(* Part 1: the intended heap.                                                *)
(* st = [heap |-> Seq(container), env |-> [name -> Value]]                   *)
(* container = [k |-> "array", items |-> Seq(Value)]                         *)
(*           | [k |-> "object", m |-> [keys -> Value]]                       *)
ArrC(items) == [k |-> "array", items |-> items]
ObjC(m)     == [k |-> "object", m |-> m]
EmptyMap    == [x \in {} |-> Null]
Alloc(st, c) == [st EXCEPT !.heap = Append(@, c)]     \* the new id is Len(heap)
Norm(n, i)  == IF i < 0 THEN n + i ELSE i             \* negative indices count from the end
Pad(items, n) == IF n <= Len(items) THEN items ELSE items \o [i \in 1..(n - Len(items)) |-> Null]
Fail(st, why) == [st |-> st, val |-> Null, status |-> why]   \* why: "error" (runtime error) | "open" (statement silent)

(* One step of a read.  Result: a Value, Missing, or [t |-> "error"/"open"]. *)
(* Reads never change the state: the state is not even returned.             *)
ReadStep(st, v, sel) ==
  CASE v.t = "arr" /\ sel.s = "idx" ->
         LET items == st.heap[v.id].items
             j == Norm(Len(items), sel.i)
         IN IF j < 0 THEN [t |-> "error"]              \* before the start
            ELSE IF j >= Len(items) THEN Missing      \* past the end: null, nothing is created
            ELSE items[j + 1]
    [] v.t = "obj" /\ sel.s = "key" ->
         LET m == st.heap[v.id].m IN IF sel.k \in DOMAIN m THEN m[sel.k] ELSE Missing
    [] v.t = "unset" /\ sel.s = "idx" /\ sel.i < 0 -> [t |-> "open"]   \* x[-1] with x never assigned: not fixed
    [] v.t \in {"null", "missing", "unset"} -> Missing   \* a.b.c is null when a.b is
    [] OTHER -> [t |-> "open"]                          \* key of an array, index of an object, member of a scalar

RECURSIVE ReadFrom(_, _, _)
ReadFrom(st, v, sels) ==
  IF sels = <<>> \/ v.t \in {"error", "open"} THEN v
  ELSE ReadFrom(st, ReadStep(st, v, Head(sels)), Tail(sels))

\* the value of the expression p (Missing shows as null); "error"/"open" as above
ReadPath(st, p) == Stored(ReadFrom(st, st.env[p.base], p.sels))

(* Assignment of v at the selectors `sels` inside the value `cur` that sits  *)
(* in some location.  Returns the new state and the value that location must *)
(* hold afterwards (the same reference for an existing container, a fresh    *)
(* one where an intermediate was missing).                                   *)
RECURSIVE AssignAt(_, _, _, _)
AssignAt(st, cur, sels, v) ==
  IF sels = <<>> THEN [st |-> st, val |-> v, status |-> "ok"]
  ELSE
  LET sel == Head(sels)
      rest == Tail(sels)
  IN
  IF IsAbsent(cur) THEN
       \* a missing intermediate (or an unset base): an object for a key, an array for an index
       LET st1 == Alloc(st, IF sel.s = "idx" THEN ArrC(<<>>) ELSE ObjC(EmptyMap))
           ref == IF sel.s = "idx" THEN Arr(Len(st1.heap)) ELSE Obj(Len(st1.heap))
       IN AssignAt(st1, ref, sels, v)
  ELSE IF cur.t = "arr" /\ sel.s = "idx" THEN
       LET items == st.heap[cur.id].items
           j == Norm(Len(items), sel.i)
       IN IF j < 0 THEN Fail(st, "error")
          ELSE LET r == AssignAt(st, IF j < Len(items) THEN items[j + 1] ELSE Missing, rest, v)
               IN IF r.status # "ok" THEN r
                  ELSE [st |-> [r.st EXCEPT !.heap[cur.id].items = [Pad(@, j + 1) EXCEPT ![j + 1] = r.val]],
                        val |-> cur, status |-> "ok"]
  ELSE IF cur.t = "obj" /\ sel.s = "key" THEN
       LET m == st.heap[cur.id].m
           r == AssignAt(st, IF sel.k \in DOMAIN m THEN m[sel.k] ELSE Missing, rest, v)
       IN IF r.status # "ok" THEN r
          ELSE [st |-> [r.st EXCEPT !.heap[cur.id].m = (sel.k :> r.val) @@ @], val |-> cur, status |-> "ok"]
  ELSE IF cur.t = "str" /\ sel.s = "idx" THEN Fail(st, "open")     \* s[0] = v on a string: not fixed (silently dropped today)
  ELSE IF cur.t \in {"num", "str", "bool"} THEN Fail(st, "error")   \* member store on a scalar
  ELSE Fail(st, "open")   \* through an explicit null; key of an array; index of an object

AssignPath(st, p, v) ==
  LET r == AssignAt(st, st.env[p.base], p.sels, v)
  IN IF r.status # "ok" THEN r
     ELSE [st |-> [r.st EXCEPT !.env[p.base] = r.val], val |-> v, status |-> "ok"]

(* Containers reachable from a value (to keep the bounded models acyclic)    *)
RECURSIVE ReachFrom(_, _, _)
ReachFrom(st, v, fuel) ==
  IF ~IsCont(v) \/ fuel = 0 THEN {}
  ELSE LET c == st.heap[v.id]
           kids == IF c.k = "array" THEN {c.items[i] : i \in 1..Len(c.items)} ELSE {c.m[k] : k \in DOMAIN c.m}
       IN {v.id} \cup UNION {ReachFrom(st, w, fuel - 1) : w \in kids}

(* The observable tree below a value: what print / json() / -o show.         *)
RECURSIVE Tree(_, _, _)
Tree(st, v, fuel) ==
  IF fuel = 0 THEN [t |-> "deep"]
  ELSE IF v.t = "arr" THEN
     LET items == st.heap[v.id].items IN [t |-> "arr", items |-> [i \in 1..Len(items) |-> Tree(st, items[i], fuel - 1)]]
  ELSE IF v.t = "obj" THEN
     LET m == st.heap[v.id].m IN [t |-> "obj", m |-> [k \in DOMAIN m |-> Tree(st, m[k], fuel - 1)]]
  ELSE Stored(v)

-----------------------------------------------------------------------------
(* Part 2: the array methods, on the container id (the ideal list of C15).   *)
(* Each returns [h |-> heap', res |-> Value, status |-> "ok"/"error"/"open"] *)
LRes(h, res) == [h |-> h, res |-> res, status |-> "ok"]
LFail(h, why) == [h |-> h, res |-> Null, status |-> why]
Items(h, id) == h[id].items

ListLength(h, id) == LRes(h, Num(Len(Items(h, id))))
\* push appends one value and returns the array
ListPush(h, id, v) == LRes([h EXCEPT ![id].items = Append(@, v)], Arr(id))
\* pop / popfirst remove and return the last / first element, null when empty
ListPop(h, id) ==
  LET s == Items(h, id) IN
  IF s = <<>> THEN LRes(h, Null) ELSE LRes([h EXCEPT ![id].items = SubSeq(s, 1, Len(s) - 1)], s[Len(s)])
ListPopFirst(h, id) ==
  LET s == Items(h, id) IN
  IF s = <<>> THEN LRes(h, Null) ELSE LRes([h EXCEPT ![id].items = Tail(s)], Head(s))
\* a[i]: negative counts from the end, before the start is an error; past the end is C09's matter
ListGet(h, id, i) ==
  LET s == Items(h, id)  j == Norm(Len(s), i) IN
  IF j < 0 THEN LFail(h, "error") ELSE IF j >= Len(s) THEN LRes(h, Null) ELSE LRes(h, s[j + 1])
ListSet(h, id, i, v) ==
  LET s == Items(h, id)  j == Norm(Len(s), i) IN
  IF j < 0 THEN LFail(h, "error") ELSE LRes([h EXCEPT ![id].items = [Pad(s, j + 1) EXCEPT ![j + 1] = v]], v)

\* == of DESIGN.md 3.4 restricted to the model's universe: [ok, eq]
CmpEq(a, b) ==
  CASE a.t = "null" /\ b.t = "null" -> [ok |-> TRUE, eq |-> TRUE]
    [] a.t = "null" \/ b.t = "null" -> [ok |-> TRUE, eq |-> FALSE]
    [] IsCont(a) \/ IsCont(b) \/ a.t = "wild" \/ b.t = "wild" -> [ok |-> FALSE, eq |-> FALSE]
    [] a.t = "str" /\ b.t = "str" -> [ok |-> TRUE, eq |-> a.s = b.s]
    [] OTHER -> [ok |-> TRUE, eq |-> NumOf(a) = NumOf(b)]
\* contains(v): == against each element in order; true at the first equal one;
\* a runtime error if a container is compared before that
RECURSIVE ContainsFrom(_, _, _)
ContainsFrom(s, i, v) ==
  IF i > Len(s) THEN [ok |-> TRUE, eq |-> FALSE]
  ELSE LET c == CmpEq(v, s[i]) IN
       IF ~c.ok THEN c ELSE IF c.eq THEN c ELSE ContainsFrom(s, i + 1, v)
ListContains(h, id, v) ==
  LET c == ContainsFrom(Items(h, id), 1, v) IN IF c.ok THEN LRes(h, Bool(c.eq)) ELSE LFail(h, "error")

\* sort: a fresh array, stably sorted; numerically if every element is a
\* number, otherwise by string form in bytewise order.  StrRank maps a string
\* of at most 4 characters over "-0123456789abs" to an integer, monotonically.
CharCode(c) == CASE c = "-" -> 1 [] c = "0" -> 2 [] c = "1" -> 3 [] c = "2" -> 4 [] c = "3" -> 5 [] c = "4" -> 6
                 [] c = "5" -> 7 [] c = "6" -> 8 [] c = "7" -> 9 [] c = "8" -> 10 [] c = "9" -> 11
                 [] c = "a" -> 12 [] c = "b" -> 13 [] c = "s" -> 14
StrRank(s) == LET c(i) == IF i <= Len(s) THEN CharCode(SubSeq(s, i, i)) ELSE 0
              IN c(1) * 4096 + c(2) * 256 + c(3) * 16 + c(4)
AllNums(s) == \A i \in 1..Len(s) : s[i].t = "num"
RECURSIVE InsertByKey(_, _)
\* s: sorted sequence of [v, key]; insert x after every element with key <= x.key
InsertByKey(s, x) ==
  IF s = <<>> THEN <<x>>
  ELSE IF Head(s).key <= x.key THEN <<Head(s)>> \o InsertByKey(Tail(s), x)
  ELSE <<x>> \o s
RECURSIVE SortByKey(_)
SortByKey(s) == IF s = <<>> THEN <<>> ELSE InsertByKey(SortByKey(SubSeq(s, 1, Len(s) - 1)), s[Len(s)])
SortKey(s) == IF AllNums(s) THEN [i \in 1..Len(s) |-> s[i].n] ELSE [i \in 1..Len(s) |-> StrRank(StrOf(s[i]))]
ListSortItems(s) ==
  LET keys == SortKey(s)
      sorted == SortByKey([i \in 1..Len(s) |-> [v |-> s[i], key |-> keys[i]]])
  IN [i \in 1..Len(s) |-> sorted[i].v]
ListSort(h, id) ==
  LET s == Items(h, id) IN
  IF \E i \in 1..Len(s) : IsCont(s[i]) THEN LFail(h, "open")     \* string form of a container: not fixed
  ELSE LET h1 == Append(h, ArrC(ListSortItems(s))) IN LRes(h1, Arr(Len(h1)))
-----------------------------------------------------------------------------
(* Part 2b: statements over named arrays a, b, c (containers 1, 2, 3): a call *)
(* expression with calls nested in its arguments, or an index store.         *)
ArrNames == <<"a", "b", "c">>
Id(n) == CASE n = "a" -> 1 [] n = "b" -> 2 [] n = "c" -> 3
Named == {1, 2, 3}

-----------------------------------------------------------------------------
(* expressions and statements *)
LLit(v) == [e |-> "lit", v |-> v]
LCall(m, a, args) == [e |-> "call", m |-> m, a |-> a, args |-> args]
LGet(a, i) == [e |-> "get", a |-> a, i |-> i]
\* a[i].m(args): a method invoked on an array that lives inside the array a.  The receiver is the array
\* that a[i] denotes when the call expression is entered, whatever the arguments do to a afterwards
LCallAt(m, a, i, args) == [e |-> "callat", m |-> m, a |-> a, i |-> i, args |-> args]
LMiss == [e |-> "miss"]                                    \* m.nope on an object m that has no such member
SExpr(x) == [op |-> "expr", x |-> x]                       \* print the value of x
SSet(a, i, v) == [op |-> "set", a |-> a, i |-> i, v |-> v]  \* a[i] = v
SInc(a, i) == [op |-> "inc", a |-> a, i |-> i]             \* print ++a[i]

(* list state: the heap, which named arrays have been stored inside an array *)
(* (aliased) and which of those changed their length afterwards (stale: what *)
(* the copy shows is C09's alias question, not compared here)                *)
LS(h, al, stl) == [h |-> h, aliased |-> al, stale |-> stl]
LUpd(s, h2, stl2) == [s EXCEPT !.h = h2, !.stale = stl2]
ER(s, res, status) == [s |-> s, res |-> res, status |-> status]
LenChanged(s, id, h2) ==
  IF Len(h2[id].items) # Len(s.h[id].items) /\ id \in s.aliased THEN s.stale \cup {id} ELSE s.stale

\* the arrays reachable from a value in a heap of arrays
RECURSIVE ReachArr(_, _, _)
ReachArr(h, v, fuel) ==
  IF v.t # "arr" \/ fuel = 0 THEN {}
  ELSE {v.id} \cup UNION {ReachArr(h, h[v.id].items[i], fuel - 1) : i \in 1..Len(h[v.id].items)}

\* apply method m of array id with argument arg (Null when it takes none)
Method(s, m, id, arg, dev) ==
  LET fin(r) == IF r.status # "ok" THEN ER(s, Null, r.status)
                ELSE ER(LUpd(s, r.h, LenChanged(s, id, r.h)), r.res, "ok")
  IN
  CASE m = "push" ->
         IF arg.t = "arr" /\ arg.id = id THEN
            \* the array inside itself: a cycle (C17) in the intended semantics; in the pinned code a
            \* copy of the header, shown as a copy or as <circular reference> depending on the allocation
            IF dev THEN ER(LUpd(s, ListPush(s.h, id, Wild).h, s.stale), Arr(id), "ok") ELSE ER(s, Null, "open")
         ELSE LET s1 == IF arg.t = "arr" /\ arg.id \in Named THEN [s EXCEPT !.aliased = @ \cup {arg.id}] ELSE s
                  r == ListPush(s1.h, id, arg)
              IN ER(LUpd(s1, r.h, LenChanged(s1, id, r.h)), r.res, "ok")
    [] m = "pop" -> fin(ListPop(s.h, id))
    [] m = "popfirst" -> fin(ListPopFirst(s.h, id))
    [] m = "length" -> fin(ListLength(s.h, id))
    [] m = "contains" -> fin(ListContains(s.h, id, arg))
    [] m = "sort" ->
         IF \E i \in 1..Len(s.h[id].items) : s.h[id].items[i].t = "wild" THEN ER(s, Null, "wild")
         ELSE LET r == ListSort(s.h, id) IN
              IF r.status = "open" /\ dev THEN ER(s, Null, "wild") ELSE fin(r)

\* the receiver of a[i].m(..): the container that a[i] holds now
RecvAt(s, a, i) ==
  LET items == s.h[Id(a)].items
      j == Norm(Len(items), i)
  IN IF j < 0 THEN [st |-> "error"]                                   \* before the start
     ELSE IF j >= Len(items) THEN [st |-> "open"]                     \* a method of null: not this property's
     ELSE IF items[j + 1].t # "arr" THEN [st |-> "open"]              \* a method of a scalar: C16's
     ELSE [st |-> "ok", id |-> items[j + 1].id]
\* an array that is the value of an element read (a[i] as an argument) is from then on held twice
ArgAlias(s, x, v) == IF x.e = "get" /\ v.t = "arr" THEN [s EXCEPT !.aliased = @ \cup {v.id}] ELSE s

\* intended semantics: every call acts on the array it was invoked on
RECURSIVE Eval(_, _)
Eval(s, e) ==
  CASE e.e = "lit" -> ER(s, e.v, "ok")
    [] e.e = "miss" -> ER(s, Null, "ok")                      \* a missing member of an object: null, nothing changes
    [] e.e = "get" ->
         LET n == Len(s.h[Id(e.a)].items) IN
         IF Norm(n, e.i) >= n THEN ER(s, Null, "ok")          \* a read past the end: null, nothing changes
         ELSE LET r == ListGet(s.h, Id(e.a), e.i) IN ER(s, r.res, r.status)
    [] e.e = "call" ->
         IF e.args = <<>> THEN Method(s, e.m, Id(e.a), Null, FALSE)
         ELSE LET ra == Eval(s, e.args[1]) IN
              IF ra.status # "ok" THEN ra ELSE Method(ArgAlias(ra.s, e.args[1], ra.res), e.m, Id(e.a), ra.res, FALSE)
    [] e.e = "callat" ->
         \* the receiver is resolved first, then the arguments are evaluated (left to right)
         LET rc == RecvAt(s, e.a, e.i) IN
         IF rc.st # "ok" THEN ER(s, Null, rc.st)
         ELSE IF e.args = <<>> THEN Method(s, e.m, rc.id, Null, FALSE)
         ELSE LET ra == Eval(s, e.args[1]) IN
              IF ra.status # "ok" THEN ra
              ELSE IF ra.res.t = "arr" /\ rc.id \in ReachArr(ra.s.h, ra.res, 6) THEN ER(s, Null, "open")   \* a cycle: C17's
              ELSE Method(ArgAlias(ra.s, e.args[1], ra.res), e.m, rc.id, ra.res, FALSE)

\* deviation shared-receiver: last[m] = the array on which method m was looked up last
RECURSIVE EvalD(_, _, _)
EvalD(s, e, last) ==
  CASE e.e = "lit" -> [r |-> ER(s, e.v, "ok"), last |-> last]
    [] e.e = "miss" -> [r |-> ER(s, Null, "ok"), last |-> last]
    [] e.e = "get" ->
         LET n == Len(s.h[Id(e.a)].items) IN
         IF Norm(n, e.i) >= n THEN [r |-> ER(s, Null, "ok"), last |-> last]
         ELSE LET r == ListGet(s.h, Id(e.a), e.i) IN [r |-> ER(s, r.res, r.status), last |-> last]
    [] e.e = "call" ->
         LET l1 == [last EXCEPT ![e.m] = Id(e.a)] IN
         IF e.args = <<>> THEN [r |-> Method(s, e.m, l1[e.m], Null, TRUE), last |-> l1]
         ELSE LET ra == EvalD(s, e.args[1], l1) IN
              IF ra.r.status # "ok" THEN ra
              ELSE [r |-> Method(ArgAlias(ra.r.s, e.args[1], ra.r.res), e.m, ra.last[e.m], ra.r.res, TRUE), last |-> ra.last]
    [] e.e = "callat" ->
         LET rc == RecvAt(s, e.a, e.i) IN
         IF rc.st # "ok" THEN [r |-> ER(s, Null, rc.st), last |-> last]
         ELSE LET l1 == [last EXCEPT ![e.m] = rc.id] IN
         IF e.args = <<>> THEN [r |-> Method(s, e.m, l1[e.m], Null, TRUE), last |-> l1]
         ELSE LET ra == EvalD(s, e.args[1], l1) IN
              IF ra.r.status # "ok" THEN ra
              ELSE IF ra.r.res.t = "arr" /\ ra.last[e.m] \in ReachArr(ra.r.s.h, ra.r.res, 6) THEN [r |-> ER(s, Null, "wild"), last |-> ra.last]
              ELSE [r |-> Method(ArgAlias(ra.r.s, e.args[1], ra.r.res), e.m, ra.last[e.m], ra.r.res, TRUE), last |-> ra.last]
Last0 == [m \in {"push", "pop", "popfirst", "length", "contains", "sort"} |-> 0]

Exec(s, st, dev) ==
  IF st.op = "inc" THEN
     \* ++a[i] on an existing element: stores num(element) + 1 and yields it
     LET items == s.h[Id(st.a)].items
         j == Norm(Len(items), st.i)
     IN IF j < 0 THEN ER(s, Null, "error")
        ELSE IF j >= Len(items) THEN ER(s, Null, "open")                       \* creation by ++: C09's
        ELSE IF items[j + 1].t \in {"arr", "obj", "wild"} THEN ER(s, Null, "open")   \* arithmetic on containers: C05's
        ELSE LET new == Num(NumOf(items[j + 1]) + 1)
             IN ER([s EXCEPT !.h[Id(st.a)].items[j + 1] = new], new, "ok")
  ELSE IF st.op = "set" THEN
     LET r == ListSet(s.h, Id(st.a), st.i, st.v) IN
     IF r.status # "ok" THEN ER(s, Null, r.status)
     ELSE ER(LUpd(s, r.h, LenChanged(s, Id(st.a), r.h)), Null, "ok")
  ELSE IF dev THEN EvalD(s, st.x, Last0).r ELSE Eval(s, st.x)

-----------------------------------------------------------------------------
(* what is observed: the tree of a value; the copy of an array whose length  *)
(* changed after it was stored is not constrained                            *)
RECURSIVE LTree(_, _, _, _)
LTree(s, v, top, fuel) ==
  IF fuel = 0 THEN Wild
  ELSE IF v.t = "arr" THEN
     IF ~top /\ v.id \in s.stale THEN Wild
     ELSE LET items == s.h[v.id].items IN [t |-> "arr", items |-> [i \in 1..Len(items) |-> LTree(s, items[i], FALSE, fuel - 1)]]
  ELSE v
\* the result of push is the receiver itself; an array returned by pop / popfirst / a[i] is a stored copy
ResIsReceiver(st) == st.op = "expr" /\ st.x.e \in {"call", "callat"} /\ st.x.m = "push"
LExpect(s, st, res, status, n) ==
  IF status # "ok" THEN [st |-> status]
  ELSE [st |-> "ok", res |-> LTree(s, res, ResIsReceiver(st), 5),
        arrs |-> [k \in 1..n |-> LTree(s, Arr(k), TRUE, 5)],
        lens |-> [k \in 1..n |-> Len(s.h[k].items)]]
-----------------------------------------------------------------------------
(* Part 3: the heap of the pinned implementation (deviations `alias-length`  *)
(* and `read-pads-array`).  An array VALUE is a slice header                 *)
(*     [t |-> "arr", id |-> backing, len |-> n, cap |-> c]                    *)
(* that is copied wherever a value is copied; the backing holds cell ids, a  *)
(* cell holds a value.  An element write goes to the cell and is seen by     *)
(* every header whose view contains the cell; a change of length is made in  *)
(* the header that sits in the location the array was reached through and    *)
(* is not seen by the other headers.  append() within capacity stores into   *)
(* the shared backing, beyond it allocates a new backing (cells are shared). *)
(* gst = [heap |-> Seq(entry), env, taint |-> how many times an array that   *)
(* had a second header changed its length]                                   *)
(* entry = [k |-> "object", m] | [k |-> "slots", s |-> Seq(cell id or 0)]    *)
(*       | [k |-> "cell", v |-> Value]                                       *)
SpecNull == [t |-> "specnull"]   \* the null a padding read leaves at the index it asked for
Fresh    == [t |-> "fresh"]      \* the same while the statement that padded is still running (absent for its store)
\* off: how many slots of the backing lie before the view (popfirst re-slices from the front); cap counts from off
GHdrO(bk, o, n, c) == [t |-> "arr", id |-> bk, len |-> n, cap |-> c, off |-> o]
GHdr(bk, n, c) == GHdrO(bk, 0, n, c)
GSlot(st, h, j) == st.heap[h.id].s[h.off + j + 1]          \* the cell at index j (from 0) of the view
GAlloc(st, e) == [st EXCEPT !.heap = Append(@, e)]
GView(st, h) == SubSeq(st.heap[h.id].s, h.off + 1, h.off + h.len)
GCopy(v) == IF v.t \in {"specnull", "missing", "fresh"} THEN Null ELSE v        \* copyValue
GFail(st, why) == [st |-> st, val |-> Null, res |-> Null, status |-> why]

\* how many headers in the state look at backing bk
GIsHdr(v, bk) == v.t = "arr" /\ v.id = bk
GHdrsIn(e, bk) == CASE e.k = "object" -> Cardinality({k \in DOMAIN e.m : GIsHdr(e.m[k], bk)})
                    [] e.k = "cell" -> IF GIsHdr(e.v, bk) THEN 1 ELSE 0
                    [] OTHER -> 0
RECURSIVE GHdrSum(_, _, _)
GHdrSum(heap, bk, i) == IF i = 0 THEN 0 ELSE GHdrsIn(heap[i], bk) + GHdrSum(heap, bk, i - 1)
GHeaders(st, bk) == Cardinality({n \in DOMAIN st.env : GIsHdr(st.env[n], bk)}) + GHdrSum(st.heap, bk, Len(st.heap))

\* Go's append(), one element at a time, up to length newlen
RECURSIVE GGrow(_, _, _, _)
GGrow(st, h, newlen, spec) ==
  IF h.len >= newlen THEN [st |-> st, h |-> h]
  ELSE
  LET st1 == GAlloc(st, [k |-> "cell", v |-> IF spec /\ h.len + 1 = newlen THEN SpecNull ELSE Null])
      c == Len(st1.heap)
  IN IF h.len < h.cap
     THEN GGrow([st1 EXCEPT !.heap[h.id].s[h.off + h.len + 1] = c], [h EXCEPT !.len = @ + 1], newlen, spec)
     ELSE LET ncap == IF h.cap = 0 THEN 1 ELSE 2 * h.cap      \* growslice for 8-byte elements, cap <= 16
              st2 == GAlloc(st1, [k |-> "slots", s |-> GView(st, h) \o <<c>> \o [i \in 1..(ncap - h.len - 1) |-> 0]])
          IN GGrow(st2, GHdr(Len(st2.heap), h.len + 1, ncap), newlen, spec)
GGrowT(st, h, newlen, spec) ==
  LET g == GGrow(st, h, newlen, spec) IN
  [st |-> [g.st EXCEPT !.taint = IF GHeaders(st, h.id) >= 2 THEN @ + 1 ELSE @], h |-> g.h]

(* read: returns the value read (res) and the value the location holds       *)
(* afterwards (val: the header may have grown when pads is set)              *)
RECURSIVE GReadAt(_, _, _, _)
GReadAt(st, cur, sels, pads) ==
  IF sels = <<>> THEN [st |-> st, val |-> cur, res |-> cur, status |-> "ok"]
  ELSE
  LET sel == Head(sels)
      rest == Tail(sels)
  IN
  IF cur.t = "arr" /\ sel.s = "idx" THEN
      LET j == Norm(cur.len, sel.i) IN
      IF j < 0 THEN GFail(st, "error")
      ELSE IF j >= cur.len THEN
         IF pads THEN LET g == GGrowT(st, cur, j + 1, TRUE) IN [st |-> g.st, val |-> g.h, res |-> Missing, status |-> "ok"]
         ELSE [st |-> st, val |-> cur, res |-> Missing, status |-> "ok"]
      ELSE LET c == GSlot(st, cur, j)
               r == GReadAt(st, st.heap[c].v, rest, pads)
           IN IF r.status # "ok" THEN r
              ELSE [st |-> [r.st EXCEPT !.heap[c].v = r.val], val |-> cur, res |-> r.res, status |-> "ok"]
  ELSE IF cur.t = "obj" /\ sel.s = "key" THEN
      LET m == st.heap[cur.id].m IN
      IF sel.k \notin DOMAIN m THEN [st |-> st, val |-> cur, res |-> Missing, status |-> "ok"]
      ELSE LET r == GReadAt(st, m[sel.k], rest, pads)
           IN IF r.status # "ok" THEN r
              ELSE [st |-> [r.st EXCEPT !.heap[cur.id].m[sel.k] = r.val], val |-> cur, res |-> r.res, status |-> "ok"]
  ELSE IF cur.t \in {"null", "missing", "unset", "specnull", "fresh"} THEN [st |-> st, val |-> cur, res |-> Missing, status |-> "ok"]
  ELSE GFail(st, "open")

GReadPath(st, p, pads) ==
  LET r == GReadAt(st, st.env[p.base], p.sels, pads)
  IN IF r.status # "ok" THEN r ELSE [r EXCEPT !.st.env[p.base] = r.val]

RECURSIVE GAssignAt(_, _, _, _)
GAssignAt(st, cur, sels, v) ==
  IF sels = <<>> THEN
     IF cur.t = "specnull" THEN GFail(st, "wild") ELSE [st |-> st, val |-> v, res |-> v, status |-> "ok"]
  ELSE
  LET sel == Head(sels)
      rest == Tail(sels)
  IN
  IF IsAbsent(cur) THEN
       IF sel.s = "idx"
       THEN LET st1 == GAlloc(st, [k |-> "slots", s |-> <<>>]) IN GAssignAt(st1, GHdr(Len(st1.heap), 0, 0), sels, v)
       ELSE LET st1 == GAlloc(st, ObjC(EmptyMap)) IN GAssignAt(st1, Obj(Len(st1.heap)), sels, v)
  ELSE IF cur.t = "arr" /\ sel.s = "idx" THEN
       LET j == Norm(cur.len, sel.i) IN
       IF j < 0 THEN GFail(st, "error")
       ELSE LET g == IF j >= cur.len THEN GGrowT(st, cur, j + 1, FALSE) ELSE [st |-> st, h |-> cur]
                c == GSlot(g.st, g.h, j)
                child == IF j >= cur.len THEN Missing ELSE g.st.heap[c].v
                r == GAssignAt(g.st, child, rest, v)
            IN IF r.status # "ok" THEN r
               ELSE [st |-> [r.st EXCEPT !.heap[c].v = r.val], val |-> g.h, res |-> v, status |-> "ok"]
  ELSE IF cur.t = "obj" /\ sel.s = "key" THEN
       LET m == st.heap[cur.id].m
           r == GAssignAt(st, IF sel.k \in DOMAIN m THEN m[sel.k] ELSE Missing, rest, v)
       IN IF r.status # "ok" THEN r
          ELSE [st |-> [r.st EXCEPT !.heap[cur.id].m = (sel.k :> r.val) @@ @], val |-> cur, res |-> v, status |-> "ok"]
  ELSE IF cur.t = "specnull" THEN GFail(st, "wild")            \* depends on what the cell's recorded parent holds now
  ELSE IF cur.t = "str" /\ sel.s = "idx" /\ rest = <<>> THEN [st |-> st, val |-> cur, res |-> v, status |-> "ok"]  \* silently dropped
  ELSE IF cur.t \in {"num", "str", "bool", "null"} THEN GFail(st, "error")
  ELSE GFail(st, "open")

\* the selectors of p with negative indices replaced by the positions they denote in st (the
\* pinned code resolves the target of an assignment before it evaluates the right-hand side)
RECURSIVE GResolve(_, _, _)
GResolve(st, cur, sels) ==
  IF sels = <<>> THEN <<>>
  ELSE LET sel == Head(sels) IN
  IF cur.t = "arr" /\ sel.s = "idx" THEN
     LET j == Norm(cur.len, sel.i) IN
     IF j < 0 THEN sels
     ELSE <<I(j)>> \o GResolve(st, IF j < cur.len THEN st.heap[GSlot(st, cur, j)].v ELSE Missing, Tail(sels))
  ELSE IF cur.t = "obj" /\ sel.s = "key" /\ sel.k \in DOMAIN st.heap[cur.id].m THEN
     <<sel>> \o GResolve(st, st.heap[cur.id].m[sel.k], Tail(sels))
  ELSE sels
GResolvePath(st, p) == Path(p.base, GResolve(st, st.env[p.base], p.sels))

GAssignPath(st, p, v) ==
  LET r == GAssignAt(st, st.env[p.base], p.sels, v)
  IN IF r.status # "ok" THEN r ELSE [r EXCEPT !.st.env[p.base] = r.val]

(* the length-changing array methods applied to the array held in location p: they re-slice / append   *)
(* the header that sits in that location (pop leaves the popped cell in the backing, beyond the view)  *)
GMethod(st, p, h, m, arg) ==
  LET shrink(h2, res) ==
        LET w == GAssignPath([st EXCEPT !.taint = IF GHeaders(st, h.id) >= 2 THEN @ + 1 ELSE @], p, h2)
        IN [st |-> w.st, res |-> res, status |-> w.status]
  IN
  CASE m = "pop" ->
         IF h.len = 0 THEN [st |-> st, res |-> Null, status |-> "ok"]
         ELSE shrink([h EXCEPT !.len = @ - 1], GCopy(st.heap[GSlot(st, h, h.len - 1)].v))
    [] m = "popfirst" ->
         IF h.len = 0 THEN [st |-> st, res |-> Null, status |-> "ok"]
         ELSE shrink([h EXCEPT !.len = @ - 1, !.cap = @ - 1, !.off = @ + 1], GCopy(st.heap[GSlot(st, h, 0)].v))
    [] m = "push" ->
         LET g == GGrowT(st, h, h.len + 1, FALSE)
             c == GSlot(g.st, g.h, h.len)
             w == GAssignPath([g.st EXCEPT !.heap[c].v = arg], p, g.h)
         IN [st |-> w.st, res |-> g.h, status |-> w.status]

\* containers (object ids, backing ids) reachable from a value
RECURSIVE GReach(_, _, _)
GReach(st, v, fuel) ==
  IF fuel = 0 THEN {}
  ELSE IF v.t = "obj" THEN
     LET m == st.heap[v.id].m IN {v.id} \cup UNION {GReach(st, m[k], fuel - 1) : k \in DOMAIN m}
  ELSE IF v.t = "arr" THEN
     LET cs == GView(st, v) IN {v.id} \cup UNION {GReach(st, st.heap[cs[i]].v, fuel - 1) : i \in 1..Len(cs)}
  ELSE {}
\* would storing v at p put a container below itself?  (what is shown then depends on the allocation)
RECURSIVE GDeepest(_, _, _)
GDeepest(st, p, n) ==
  IF n < 0 THEN Missing
  ELSE LET r == GReadAt(st, st.env[p.base], SubSeq(p.sels, 1, n), FALSE) IN
       IF r.status = "ok" /\ r.res.t \in {"arr", "obj"} THEN r.res ELSE GDeepest(st, p, n - 1)
GMakesCycle(st, p, v, fuel) ==
  /\ v.t \in {"arr", "obj"} /\ p.sels # <<>>
  /\ LET d == GDeepest(st, p, Len(p.sels) - 1) IN d.t \in {"arr", "obj"} /\ d.id \in GReach(st, v, fuel)

RECURSIVE GTree(_, _, _)
GTree(st, v, fuel) ==
  IF fuel = 0 THEN [t |-> "deep"]
  ELSE IF v.t = "arr" THEN
     LET cs == GView(st, v) IN [t |-> "arr", items |-> [i \in 1..Len(cs) |-> GTree(st, st.heap[cs[i]].v, fuel - 1)]]
  ELSE IF v.t = "obj" THEN
     LET m == st.heap[v.id].m IN [t |-> "obj", m |-> [k \in DOMAIN m |-> GTree(st, m[k], fuel - 1)]]
  ELSE IF v.t = "specnull" THEN Null
  ELSE Stored(v)
=============================================================================
