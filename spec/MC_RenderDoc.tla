-------------------------- MODULE MC_RenderDoc --------------------------
(* C04 (i) / C17 (bare print, body-less rule): JSON documents as read, i.e.   *)
(* trees of containers without identity.  Every tree of depth <= 3 whose      *)
(* containers at depth d (1 = the root's level) have 0..Width[d] slots, each  *)
(* slot an atom of class "a" (some JSON scalar, instantiated by the harness)  *)
(* or a container: every combination of empty / non-empty array / object /    *)
(* scalar at every position.  The document is passed through a program that   *)
(* does not modify it; the selector sel = 0 keeps the whole document, sel = j *)
(* picks the value of slot j of the root.                                     *)
EXTENDS JqRender
CONSTANTS W1, W2, W3      \* e.g. 2, 2, 1
Width == <<W1, W2, W3>>

A0 == Atom("a", <<>>)
Level(sub, w) == {A0} \cup UNION {{Arr(s), Obj(s, <<>>)} : s \in SeqsUpTo(sub, w)}
D3 == Level({A0}, Width[3])   \* values at depth 3: scalars and containers of scalars
D2 == Level(D3, Width[2])

\* names: the access path of the atom / of the slot a key belongs to
RECURSIVE Label(_, _)
Label(v, path) ==
  CASE v.t = "atom" -> Atom(v.c, path)
    [] v.t = "arr"  -> Arr([j \in 1..Len(v.s) |-> Label(v.s[j], Append(path, j))])
    [] OTHER        -> Obj([j \in 1..Len(v.s) |-> Label(v.s[j], Append(path, j))],
                           [j \in 1..Len(v.s) |-> Append(path, j)])

VARIABLES top, doc, done
vars == <<top, doc, done>>

\* two phases: Init picks the root's kind and width, Next its slots
Init == /\ top \in {<<"atom", 0>>} \cup ({"arr", "obj"} \X (0..Width[1]))
        /\ doc = A0 /\ done = FALSE
Next == /\ ~done /\ done' = TRUE /\ UNCHANGED top
        /\ IF top[1] = "atom" THEN doc' = Label(A0, <<>>)
           ELSE \E s \in [1..top[2] -> D2] :
                  doc' = Label(IF top[1] = "arr" THEN Arr(s) ELSE Obj(s, <<>>), <<>>)

RECURSIVE Depth(_)
Depth(v) == IF ~IsContainer(v) THEN 0
            ELSE IF v.s = <<>> THEN 1
            ELSE 1 + SetMax({Depth(v.s[j]) : j \in 1..Len(v.s)})
RECURSIVE HasEmptyArr(_)
HasEmptyArr(j) ==
  CASE j.t = "arr" -> j.s = <<>> \/ \E i \in 1..Len(j.s) : HasEmptyArr(j.s[i])
    [] j.t = "obj" -> \E i \in 1..Len(j.s) : HasEmptyArr(j.s[i])
    [] OTHER -> FALSE

Sels == IF IsContainer(doc) THEN 0..Len(doc.s) ELSE {0}
Sub(j) == IF j = 0 THEN doc ELSE doc.s[j]
Out == PrintStmt(EmptyHeap, <<>>, doc)
\* a rule without a body prints $: the document, or for an array document each
\* of its elements in turn (the awk schedule of C02)
RuleOut == IF doc.t = "arr" THEN FlattenSeq([j \in 1..Len(doc.s) |-> PrintStmt(EmptyHeap, <<>>, doc.s[j])]) ELSE Out

\* a document is a tree: conversion is the identity, never an error; print
\* never shows <circular reference> and (for containers) reads back as the
\* document; the deviation bites exactly on documents with an empty array
Laws == done =>
  /\ Depth(doc) <= 3
  /\ \A j \in Sels :
       /\ ToJsonV(EmptyHeap, Sub(j)) = Sub(j)
       /\ (ToJsonDev(EmptyHeap, Sub(j), "empty-array-null") # Sub(j)) <=> HasEmptyArr(Sub(j))
       /\ ~CyclicFrom(EmptyHeap, Sub(j))
  /\ Count(Out, LAMBDA tk : tk = Circ) = 0
  /\ Out[Len(Out)] = Newline
  /\ MaxDepth(Out) = Depth(doc)
  /\ IsContainer(doc) => ParseJson(SubSeq(Out, 1, Len(Out) - 1)) = doc
  /\ ~IsContainer(doc) => Out = <<[t |-> "atop", n |-> <<>>], Newline>>
  \* the same round trip for the tree the deviation produces (null in place of every empty array)
  /\ LET d == NullEmptyArrays(doc) IN IsContainer(d) => ParseJson(Pretty(EmptyHeap, d)) = d
  /\ Count(RuleOut, LAMBDA tk : tk = Newline) = (IF doc.t = "arr" THEN Len(doc.s) ELSE 1)
  /\ doc.t = "arr" => SplitToks(RuleOut, Newline) = [j \in 1..(Len(doc.s) + 1) |-> IF j <= Len(doc.s) THEN Pretty(EmptyHeap, doc.s[j]) ELSE <<>>]

Vec == done =>
  Emit([doc |-> EncVal(doc), out |-> EncToks(Out), rule |-> EncToks(RuleOut),
        subs |-> [j \in 1..(Len(IF IsContainer(doc) THEN doc.s ELSE <<>>) + 1) |->
                    [exp |-> EncVal(ToJsonV(EmptyHeap, Sub(j - 1))),
                     dev |-> ("empty-array-null" :> EncVal(ToJsonDev(EmptyHeap, Sub(j - 1), "empty-array-null")))]]])
=============================================================================
