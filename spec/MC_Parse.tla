----------------------------- MODULE MC_Parse -----------------------------
(* C06: precedence and associativity.  Enumerates expression trees, checks  *)
(* the round-trip laws of JqParse on every tree, evaluates every tree on a  *)
(* small operand universe to pick operands under which the intended         *)
(* grouping is distinguishable from the other groupings of the same token   *)
(* sequence, and emits one vector per token sequence.                       *)
(*                                                                          *)
(* A token sequence is described by a descriptor d:                         *)
(*   d.ops   binary operators o1..on between n+1 operand positions          *)
(*   d.base  the operand at each position (variable, type name after `is`)  *)
(*   d.pre   prefix operators written before each position                  *)
(*   d.post  suffixes (.k  [x]  (args)) written after each position         *)
(* Groupings(d) = every tree whose tokens, parentheses removed, are that    *)
(* sequence: all bracketings of the binary operators (2 for two operators,  *)
(* 5 for three, 14 for four), each prefix applied to any sub-expression     *)
(* that starts at its position, each suffix to any sub-expression that ends *)
(* at its position.  The well-formed ones are the cases; each case's        *)
(* alternatives are the other cases of the same descriptor.                 *)
EXTENDS JqParse
CONSTANTS Fams,      \* families to enumerate (set of strings)
          Seed,      \* selects the third of the triples / the deep sample / the extra run
          Mod,       \* 1: every operator triple; 3: those with (i+j+k+Seed) % 3 = 0
          NDeep,     \* number of sampled operator sequences of length 4 (family deep)
          PMod,      \* family prim3: a selection of operator triples x place x primary: one in PMod
          SiteAll,   \* families whose every tree is placed at EVERY expression site (the others: one site per tree)
          SiteMod    \* ... per tree selected by (tree, seed): one tree in SiteMod

BinOpSeq == <<"*", "/", "%", "+", "-", "==", "!=", "<", "<=", ">", ">=", "~", "!~", "is",
              "&&", "||", "=", "+=", "-=", "*=", "/=">>
NB == Len(BinOpSeq)
PreSeq == <<"!", "-", "+">>
AssignSeq == <<"=", "+=", "-=", "*=", "/=">>
VarName == <<"a", "b", "c", "d", "e", "h">>
TyName(p) == "T" \o ToString(p)

ASSUME {BinOpSeq[j] : j \in 1..NB} = BinOps /\ {PreSeq[j] : j \in 1..3} = PrefixOps

RECURSIVE SetToSeq(_)
SetToSeq(S) == IF S = {} THEN <<>> ELSE LET x == CHOOSE y \in S : TRUE IN <<x>> \o SetToSeq(S \ {x})

Front(s) == SubSeq(s, 1, Len(s) - 1)
Last(s) == s[Len(s)]

\* ------------------------------------------------------------- descriptors
DefaultBase(ops) ==
  [p \in 1..(Len(ops) + 1) |-> IF p > 1 /\ ops[p - 1] = "is" THEN Ty(TyName(p)) ELSE Id(VarName[p])]
Empties(n) == [p \in 1..n |-> <<>>]
MkBin(ops) == [ops |-> ops, base |-> DefaultBase(ops), pre |-> Empties(Len(ops) + 1), post |-> Empties(Len(ops) + 1)]
IsTyPos(d, q) == d.base[q].k = "ty"
WithPre(d, q, us) == [d EXCEPT !.pre[q] = us]
WithSuf(d, q, sk) == [d EXCEPT !.post[q] = sk.sfx, !.base[q] = sk.base]

\* suffix kinds: a base variable (initialised by the harness: o = {k: 7},
\* r = [4, 9, 2], f = function f(x) { return x + 1 }) and the suffixes on it
SDot(v) == [s |-> "dot", v |-> v]
SIdx(x) == [s |-> "idx", x |-> x]
SCall(args) == [s |-> "call", args |-> args]
SufSeq == <<
  [base |-> Id("o"), sfx |-> <<SDot("k")>>],                       \* o.k
  [base |-> Id("r"), sfx |-> <<SIdx(Lit("Num", "1"))>>],           \* r[1]
  [base |-> Id("f"), sfx |-> <<SCall(<<Lit("Num", "2")>>)>>],      \* f(2)
  [base |-> Id("r"), sfx |-> <<SDot("length"), SCall(<<>>)>>]      \* r.length()
>>
NS == Len(SufSeq)
\* pairs of suffixes on one operand
Suf2Seq == <<
  [base |-> Id("o"), sfx |-> <<SDot("k"), SDot("k")>>],
  [base |-> Id("o"), sfx |-> <<SDot("k"), SIdx(Lit("Num", "0"))>>],
  [base |-> Id("r"), sfx |-> <<SIdx(Lit("Num", "0")), SDot("k")>>],
  [base |-> Id("r"), sfx |-> <<SIdx(Lit("Num", "0")), SIdx(Lit("Num", "1"))>>],
  [base |-> Id("g"), sfx |-> <<SCall(<<>>), SCall(<<Lit("Num", "2")>>)>>],
  [base |-> Id("g"), sfx |-> <<SCall(<<>>), SDot("k")>>],
  [base |-> Id("r"), sfx |-> <<SIdx(Lit("Num", "0")), SCall(<<>>)>>],
  [base |-> Id("o"), sfx |-> <<SDot("k"), SDot("floor"), SCall(<<>>)>>]
>>
\* precedence starts again inside [ ], ( ) of a call and an array literal
\* (u, v, w: further variables the harness initialises)
InnerSeq == <<
  [base |-> Id("r"), sfx |-> <<SIdx(Bin("=", Id("u"), Lit("Num", "1")))>>],
  [base |-> Id("r"), sfx |-> <<SIdx(Bin("-", Bin("-", Lit("Num", "2"), Lit("Num", "1")), Lit("Num", "1")))>>],
  [base |-> Id("r"), sfx |-> <<SIdx(Bin("||", Bin("<", Id("u"), Id("v")), Lit("true", "true")))>>],
  [base |-> Id("f"), sfx |-> <<SCall(<<Bin("=", Id("u"), Bin("+", Id("v"), Lit("Num", "1")))>>)>>],
  [base |-> Id("f"), sfx |-> <<SCall(<<Bin("-", Bin("-", Id("u"), Id("v")), Lit("Num", "1")), Id("w")>>)>>],
  [base |-> Arr(<<Bin("=", Id("u"), Lit("Num", "5")), Bin("-", Bin("-", Id("v"), Lit("Num", "1")), Lit("Num", "1"))>>),
   sfx |-> <<SIdx(Lit("Num", "1"))>>],
  [base |-> Id("r"), sfx |-> <<SIdx(Un("-", Un("-", Lit("Num", "1"))))>>],
  [base |-> Id("f"), sfx |-> <<SCall(<<Un("!", Bin("==", Id("u"), Id("v")))>>)>>]
>>

\* Operand FORMS: every primary expression of the language that is not a variable (a parser can
\* dispatch on the token an operand starts with - the regex literal has a prefix rule of its own, on
\* the token `/` that is also an operator -, so "every operator sequence" has to be crossed with
\* "every kind of operand at every place"): a regex literal, a string in single quotes, null, `$`,
\* an array literal, an object literal, a match expression.  (Numbers, strings in double quotes
\* and booleans are written in place of the variables by the harness: the -lit forms.)
PrimSeq == <<
  Lit("Prim", "/s/"),
  Lit("Prim", "'s'"),
  Lit("null", "null"),
  Id("$"),
  Arr(<<Lit("Num", "4"), Lit("Num", "9")>>),
  Lit("Prim", "{k: 7}"),
  Lit("Prim", "match (2) { 2 => 5 }")
>>
NPrim == Len(PrimSeq)
WithBase(d, q, b) == [d EXCEPT !.base[q] = b]

\* deterministic pseudo-random operator index from Seed, sample number s, place j
\* (TLC integers are 32 bit: keep the products small)
Rnd(s, j, m) == (((((Seed % 1000) + 1) * 7919 + (s % 10000) * 4729 + j * 9973 + ((s * j) % 1000) * 5843) % 100003) % m) + 1

Sel(i, j, k) == (i + j + k + (Seed % 1000)) % Mod = 0

\* the first component a family is enumerated by (picked in Init), the rest in Next
FirstRange(fam) ==
  CASE fam \in {"bin1", "bin2", "bin3", "pre1", "pre2", "suf1", "suf2", "prim1", "prim2", "prim3", "iskw", "lvl3"} -> 1..NB
    [] fam \in {"prepre", "presuf", "preprim"} -> 1..3
    [] fam = "chain4" -> 1..5
    [] fam = "sufsuf" -> 1..Len(Suf2Seq)
    [] fam = "inner" -> 1..Len(InnerSeq)
    [] fam = "deep" -> 1..8
    [] fam = "neg" -> 1..1

PrePositions(d) == {q \in 1..(Len(d.ops) + 1) : ~IsTyPos(d, q)}

DescsOf(fam, i1) ==
  CASE fam = "bin1" -> {MkBin(<<BinOpSeq[i1]>>)}
    [] fam = "bin2" -> {MkBin(<<BinOpSeq[i1], BinOpSeq[j]>>) : j \in 1..NB}
    [] fam = "bin3" -> {MkBin(<<BinOpSeq[i1], BinOpSeq[jk[1]], BinOpSeq[jk[2]]>>) :
                          jk \in {x \in (1..NB) \X (1..NB) : Sel(i1, x[1], x[2])}}
    \* runs of three operators of ONE level (every ordered triple of * / %, of + -, of && ||; the others: the same
    \* operator three times): the sequences an evaluator may be tempted to flatten, in every quick run
    [] fam = "lvl3" -> LET o == BinOpSeq[i1]
                           lvl == IF o \in MulOps THEN MulOps ELSE IF o \in AddOps THEN AddOps ELSE IF o \in LogOps THEN LogOps ELSE {o}
                       IN {MkBin(<<o, o2, o3>>) : o2 \in lvl, o3 \in lvl}
    [] fam = "pre1" -> LET d == MkBin(<<BinOpSeq[i1]>>) IN
                       {WithPre(d, q, <<u>>) : q \in PrePositions(d), u \in PrefixOps}
    [] fam = "pre2" -> UNION {LET d == MkBin(<<BinOpSeq[i1], BinOpSeq[j]>>) IN
                              {WithPre(d, q, <<u>>) : q \in PrePositions(d), u \in PrefixOps} : j \in 1..NB}
    [] fam = "prepre" -> {WithPre(MkBin(<<>>), 1, <<PreSeq[i1], u>>) : u \in PrefixOps}
                         \cup UNION {LET d == MkBin(<<BinOpSeq[j]>>) IN
                                     {WithPre(d, q, <<PreSeq[i1], u>>) : q \in PrePositions(d), u \in PrefixOps} : j \in 1..NB}
    [] fam = "presuf" -> {WithPre(WithSuf(MkBin(<<>>), 1, SufSeq[s]), 1, <<PreSeq[i1]>>) : s \in 1..NS}
                         \cup {WithPre(WithSuf(MkBin(<<>>), 1, Suf2Seq[s]), 1, <<PreSeq[i1]>>) : s \in 1..Len(Suf2Seq)}
    [] fam = "suf1" -> LET d == MkBin(<<BinOpSeq[i1]>>) IN
                       {WithSuf(d, q, SufSeq[s]) : q \in PrePositions(d), s \in 1..NS}
    [] fam = "suf2" -> UNION {LET d == MkBin(<<BinOpSeq[i1], BinOpSeq[j]>>) IN
                              {WithSuf(d, q, SufSeq[1 + ((i1 + j + q + (Seed % 1000)) % NS)]) : q \in PrePositions(d)} : j \in 1..NB}
    [] fam = "sufsuf" -> {WithSuf(MkBin(<<>>), 1, Suf2Seq[i1])}
                         \cup {WithSuf(MkBin(<<BinOpSeq[j]>>), 1, Suf2Seq[i1]) : j \in {4, 6, 15}}
    [] fam = "inner" -> {WithSuf(MkBin(<<>>), 1, InnerSeq[i1])}
                        \cup {WithSuf(MkBin(<<BinOpSeq[j]>>), q, InnerSeq[i1]) : j \in {1, 5, 8, 16}, q \in 1..2}
    [] fam = "chain4" -> {MkBin(<<AssignSeq[i1], AssignSeq[x[1]], AssignSeq[x[2]], o4>>) :
                            x \in (1..5) \X (1..5), o4 \in AssignOps \cup {"+", "<", "||"}}
    \* a primary at every place of every single operator (and at both places), of every ordered pair,
    \* of a selection of the ordered triples; under a prefix operator, alone and next to every operator
    [] fam = "prim1" -> LET d == MkBin(<<BinOpSeq[i1]>>) IN
                        {WithBase(d, q, PrimSeq[s]) : q \in PrePositions(d), s \in 1..NPrim}
                        \cup (IF IsTyPos(d, 2) THEN {}
                              ELSE {WithBase(WithBase(d, 1, PrimSeq[s]), 2, PrimSeq[s2]) : s \in 1..NPrim, s2 \in 1..NPrim})
                        \cup (IF i1 = 1 THEN {WithBase(MkBin(<<>>), 1, PrimSeq[s]) : s \in 1..NPrim} ELSE {})
    [] fam = "prim2" -> UNION {LET d == MkBin(<<BinOpSeq[i1], BinOpSeq[j]>>) IN
                               {WithBase(d, q, PrimSeq[s]) : q \in PrePositions(d), s \in 1..NPrim} : j \in 1..NB}
    [] fam = "prim3" -> {WithBase(MkBin(<<BinOpSeq[i1], BinOpSeq[x[1]], BinOpSeq[x[2]]>>), x[3], PrimSeq[x[4]]) :
                           x \in {y \in (1..NB) \X (1..NB) \X (1..4) \X (1..NPrim) :
                                   /\ (i1 * 31 + y[1] * 17 + y[2] * 7 + y[3] * 3 + y[4] + (Seed % 1000)) % PMod = 0
                                   /\ ~IsTyPos(MkBin(<<BinOpSeq[i1], BinOpSeq[y[1]], BinOpSeq[y[2]]>>), y[3])}}
    [] fam = "preprim" -> {WithPre(WithBase(MkBin(<<>>), 1, PrimSeq[s]), 1, <<PreSeq[i1]>>) : s \in 1..NPrim}
                          \cup UNION {LET d == MkBin(<<BinOpSeq[j]>>) IN
                                      {WithPre(WithBase(d, q, PrimSeq[s]), q, <<PreSeq[i1]>>) : q \in PrePositions(d), s \in 1..NPrim} :
                                      j \in 1..NB}
    \* the type names that are keywords (`null`, `function`: tokens of their own, see JqParse.LeafTok) after every
    \* `is` of every operator single and ordered pair (each `is` with each of the two), of the selected ordered
    \* triples (one choice per triple); a prefix operator before the left operand of the singles; null `is` ...
    [] fam = "iskw" ->
         LET KwDescs(ops) ==
               LET isAt == {p \in 2..(Len(ops) + 1) : ops[p - 1] = "is"} IN
               IF isAt = {} THEN {}
               ELSE {LET d0 == MkBin(ops) IN
                     [d0 EXCEPT !.base = [p \in 1..(Len(ops) + 1) |-> IF p \in isAt THEN Ty(kw[p]) ELSE d0.base[p]]] :
                       kw \in [isAt -> KwTypeNames]}
             Pick(ops, ds) == \* one of ds, chosen by the operators and the seed
               LET seq == SetToSeq(ds)
                   h == (Len(ops[1]) + 3 * Len(ops[2]) + 5 * Len(ops[3]) + i1 + (Seed % 1000)) % Len(seq)
               IN {seq[h + 1]}
         IN KwDescs(<<BinOpSeq[i1]>>)
            \cup {WithPre(d, 1, <<u>>) : d \in KwDescs(<<BinOpSeq[i1]>>), u \in PrefixOps}
            \cup {WithBase(d, 1, Lit("null", "null")) : d \in KwDescs(<<BinOpSeq[i1]>>)}
            \cup UNION {KwDescs(<<BinOpSeq[i1], BinOpSeq[j]>>) : j \in 1..NB}
            \cup UNION {LET ops == <<BinOpSeq[i1], BinOpSeq[x[1]], BinOpSeq[x[2]]>>
                             ds == KwDescs(ops)
                         IN IF ds = {} THEN {} ELSE Pick(ops, ds) :
                         x \in {y \in (1..NB) \X (1..NB) : Sel(i1, y[1], y[2])}}
    [] fam = "deep" -> {LET d == MkBin([j \in 1..4 |-> BinOpSeq[Rnd(s, j, NB)]])
                            q == Rnd(s, 7, 5)
                            u == PreSeq[Rnd(s, 8, 3)]
                        IN IF Rnd(s, 9, 2) = 1 /\ ~IsTyPos(d, q) THEN WithPre(d, q, <<u>>) ELSE d :
                          s \in {x \in 1..NDeep : x % 8 = i1 - 1}}

\* ---------------------------------------------------------------- groupings
ApplySfx(sf, t) ==
  CASE sf.s = "dot" -> Dot(t, sf.v)
    [] sf.s = "idx" -> Idx(t, sf.x)
    [] sf.s = "call" -> Call(t, sf.args)

\* trees over positions lo..hi with the prefixes pr still to be placed at the
\* left end and the suffixes po at the right end
RECURSIVE G(_, _, _, _, _)
G(d, lo, hi, pr, po) ==
  (IF pr # <<>> THEN {Un(Head(pr), t) : t \in G(d, lo, hi, Tail(pr), po)} ELSE {})
  \cup (IF po # <<>> THEN {ApplySfx(Last(po), t) : t \in G(d, lo, hi, pr, Front(po))} ELSE {})
  \cup (IF lo = hi THEN (IF pr = <<>> /\ po = <<>> THEN {d.base[lo]} ELSE {})
        ELSE UNION {{Bin(d.ops[m], l, r) : l \in G(d, lo, m, pr, d.post[m]), r \in G(d, m + 1, hi, d.pre[m + 1], po)} :
                    m \in lo..(hi - 1)})

Groupings(d) == G(d, 1, Len(d.ops) + 1, d.pre[1], d.post[Len(d.ops) + 1])

\* a tree of the grammar: assignment targets assignable, type names exactly after `is`
RECURSIVE WellFormed(_)
WellFormed(t) ==
  CASE t.k = "bin" ->
         /\ t.l.k # "ty" /\ WellFormed(t.l)
         /\ (t.op = "is") = (t.r.k = "ty")
         /\ t.r.k = "ty" \/ WellFormed(t.r)
         /\ t.op \in AssignOps => Assignable(t.l)
    [] t.k = "un" -> t.e.k # "ty" /\ WellFormed(t.e)
    [] t.k \in {"dot", "idx", "call"} ->
         LET e == IF t.k = "call" THEN t.f ELSE t.e IN e.k # "ty" /\ WellFormed(e)
    [] OTHER -> TRUE

Cases(d) == {t \in Groupings(d) : WellFormed(t)}

\* the token sequence of a descriptor (no grouping parentheses)
RECURSIVE SfxToks(_)
SfxToks(po) ==
  IF po = <<>> THEN <<>>
  ELSE LET sf == Head(po) IN
       (CASE sf.s = "dot" -> <<Sym("."), Tok("Ident", sf.v)>>
          [] sf.s = "idx" -> <<Sym("[")>> \o Render(sf.x) \o <<Sym("]")>>
          [] sf.s = "call" -> <<Sym("(")>> \o CommaSep([j \in 1..Len(sf.args) |-> Render(sf.args[j])]) \o <<Sym(")")>>)
       \o SfxToks(Tail(po))
Flat(d) ==
  FlattenSeq([p \in 1..(Len(d.ops) + 1) |->
     (IF p > 1 THEN <<Sym(d.ops[p - 1])>> ELSE <<>>) \o
     [j \in 1..Len(d.pre[p]) |-> Sym(d.pre[p][j])] \o Render(d.base[p]) \o SfxToks(d.post[p])])

\* ------------------------------------------------------------ negative cases
\* token sequences outside the grammar: the parser must refuse them
I(v) == Tok("Ident", v)
NegCase(toks, why) == [t |-> toks, why |-> why]
NegCases == <<
  \* = binds loosest: (a + b) = c has no assignable target
  NegCase(<<I("a"), Sym("+"), I("b"), Sym("="), I("c")>>, "InvalidAssignmentTarget"),
  NegCase(<<I("a"), Sym("*"), I("b"), Sym("="), I("c")>>, "InvalidAssignmentTarget"),
  NegCase(<<I("a"), Sym("&&"), I("b"), Sym("="), I("c")>>, "InvalidAssignmentTarget"),
  NegCase(<<I("a"), Sym("=="), I("b"), Sym("="), I("c")>>, "InvalidAssignmentTarget"),
  \* prefix and call bind tighter than =
  NegCase(<<Sym("-"), I("a"), Sym("="), I("b")>>, "InvalidAssignmentTarget"),
  NegCase(<<Sym("!"), I("a"), Sym("="), I("b")>>, "InvalidAssignmentTarget"),
  NegCase(<<I("f"), Sym("("), Sym(")"), Sym("="), I("b")>>, "InvalidAssignmentTarget"),
  NegCase(<<Tok("Num", "1"), Sym("="), I("b")>>, "InvalidAssignmentTarget"),
  \* `is` takes a type name, not an expression
  NegCase(<<I("a"), Sym("is"), Tok("Num", "3")>>, "expected a type name"),
  NegCase(<<I("a"), Sym("is"), Sym("("), I("number"), Sym(")")>>, "expected a type name"),
  NegCase(<<I("a"), Sym("+")>>, "unexpected token EOF"),
  NegCase(<<I("a"), Sym("+"), Sym("*"), I("b")>>, "unexpected token *"),
  NegCase(<<Sym("("), I("a"), Sym("+"), I("b")>>, "expected )"),
  NegCase(<<I("a"), Sym("+"), I("b"), Sym(")")>>, "expected EOF"),
  NegCase(<<I("a"), Sym("."), Tok("Num", "1")>>, "expected Ident"),
  NegCase(<<I("r"), Sym("["), I("b")>>, "expected ]"),
  NegCase(<<I("f"), Sym("("), I("a"), Sym(",")>>, "expected )"),
  NegCase(<<I("a"), I("b")>>, "expected EOF")
>>
NegSeq == [j \in 1..Len(NegCases) |-> NegCases[j].t]

\* ------------------------------------------------------- evaluation (3.1-3.7)
\* A reference evaluation on a small exact universe, used to choose operands
\* (and reported, never used as a verdict on precedence): numbers are
\* integers, strings contain the letter s (so none is numeric), booleans.
\* "err": a runtime error; "unk": outside the exactly-specified universe
\* (non-integral quotient, zero dividend, negative zero, containers, calls).
\* null and a regex value follow the tables of DESIGN.md 3.1-3.7: not truthy, number 0, string
\* form ""; null is below everything else and equal to null only; a regex is a pattern for ~.
\* How a regex value PRINTS is not fixed: an outcome that shows one is "unk".
NumV(n) == [k |-> "n", n |-> n, s |-> "", b |-> FALSE]
StrV(s) == [k |-> "s", n |-> 0, s |-> s, b |-> FALSE]
BoolV(b) == [k |-> "b", n |-> 0, s |-> "", b |-> b]
NullV == [k |-> "z", n |-> 0, s |-> "", b |-> FALSE]      \* null
ReV(p) == [k |-> "r", n |-> 0, s |-> p, b |-> FALSE]      \* a regex value with pattern text p
ErrV == [k |-> "err", n |-> 0, s |-> "", b |-> FALSE]
UnkV == [k |-> "unk", n |-> 0, s |-> "", b |-> FALSE]
Bad(v) == v.k \in {"err", "unk"}

NumOf(v) == CASE v.k = "n" -> v.n [] v.k = "b" -> (IF v.b THEN 1 ELSE 0) [] OTHER -> 0
StrOf(v) == CASE v.k = "n" -> ToString(v.n) [] v.k = "s" -> v.s [] OTHER -> ""
Truthy(v) == CASE v.k = "n" -> v.n # 0 [] v.k = "s" -> v.s # "" [] OTHER -> v.b
KindName(v) == CASE v.k = "n" -> "number" [] v.k = "s" -> "string" [] v.k = "z" -> "null" [] v.k = "r" -> "regex" [] OTHER -> "bool"

Abs(x) == IF x < 0 THEN -x ELSE x
Sgn(x) == IF x < 0 THEN -1 ELSE IF x > 0 THEN 1 ELSE 0

ByteOrder == "-0123456789s"      \* the bytes that occur, ascending
Code(ch) == CHOOSE j \in 1..Len(ByteOrder) : SubSeq(ByteOrder, j, j) = ch
RECURSIVE StrCmp(_, _)
StrCmp(x, y) ==
  IF x = "" THEN (IF y = "" THEN 0 ELSE -1)
  ELSE IF y = "" THEN 1
  ELSE LET cx == Code(SubSeq(x, 1, 1))
           cy == Code(SubSeq(y, 1, 1))
       IN IF cx # cy THEN Sgn(cx - cy) ELSE StrCmp(SubSeq(x, 2, Len(x)), SubSeq(y, 2, Len(y)))
Contains(s, p) == \E j \in 1..(Len(s) - Len(p) + 1) : SubSeq(s, j, j + Len(p) - 1) = p

Cmp3(L, R) ==
  IF L.k = "z" \/ R.k = "z" THEN (IF L.k = R.k THEN 0 ELSE IF L.k = "z" THEN -1 ELSE 1)
  ELSE IF L.k = "s" /\ R.k = "s" THEN StrCmp(L.s, R.s) ELSE Sgn(NumOf(L) - NumOf(R))

BinVal(op, L, R) ==
  LET l == NumOf(L)
      r == NumOf(R)
  IN CASE op = "+" -> IF L.k = "s" \/ R.k = "s" THEN StrV(StrOf(L) \o StrOf(R)) ELSE NumV(l + r)
       [] op = "-" -> NumV(l - r)
       [] op = "*" -> IF l * r = 0 /\ (l < 0 \/ r < 0) THEN UnkV ELSE NumV(l * r)
       [] op = "/" -> IF r = 0 THEN ErrV
                      ELSE IF l = 0 \/ Abs(l) % Abs(r) # 0 THEN UnkV
                      ELSE NumV(Sgn(l) * Sgn(r) * (Abs(l) \div Abs(r)))
       [] op = "%" -> IF r = 0 THEN ErrV
                      ELSE IF l = 0 THEN UnkV
                      ELSE NumV(Sgn(l) * (Abs(l) % Abs(r)))
       [] op = "==" -> BoolV(Cmp3(L, R) = 0)
       [] op = "!=" -> BoolV(Cmp3(L, R) # 0)
       [] op = "<" -> BoolV(Cmp3(L, R) < 0)
       [] op = "<=" -> BoolV(Cmp3(L, R) <= 0)
       [] op = ">" -> BoolV(Cmp3(L, R) > 0)
       [] op = ">=" -> BoolV(Cmp3(L, R) >= 0)
       [] op = "~" -> IF R.k \notin {"s", "r"} THEN ErrV ELSE BoolV(Contains(StrOf(L), R.s))
       [] op = "!~" -> IF R.k \notin {"s", "r"} THEN ErrV ELSE BoolV(~Contains(StrOf(L), R.s))

UnVal(op, v) ==
  CASE op = "!" -> BoolV(~Truthy(v))
    [] op = "+" -> NumV(NumOf(v))
    [] op = "-" -> IF NumOf(v) = 0 THEN UnkV ELSE NumV(-NumOf(v))

\* the value of an opaque primary, where the tables fix it
PrimVal(text) == CASE text = "/s/" -> ReV("s") [] text = "'s'" -> StrV("s") [] OTHER -> UnkV

\* Ev(t, env, ty): [v |-> value, env |-> variables afterwards]; operands left
\* to right; && and || do not evaluate a right operand they do not need.
RECURSIVE Ev(_, _, _)
Ev(t, env, ty) ==
  CASE t.k = "id" -> [v |-> IF t.v \in DOMAIN env THEN env[t.v] ELSE UnkV, env |-> env]
    [] t.k = "lit" -> [v |-> CASE t.tag \in {"true", "false"} -> BoolV(t.tag = "true")
                               [] t.tag = "null" -> NullV
                               [] t.tag = "Prim" -> PrimVal(t.v)
                               [] OTHER -> UnkV, env |-> env]
    [] t.k = "un" ->
         LET e == Ev(t.e, env, ty) IN
         IF Bad(e.v) THEN e ELSE [v |-> UnVal(t.op, e.v), env |-> e.env]
    [] t.k = "bin" /\ t.op = "is" ->
         LET l == Ev(t.l, env, ty) IN
         \* a type placeholder T<p> stands for the name ty gives it; `null` and `function` are written as they are
         IF Bad(l.v) THEN l
         ELSE [v |-> BoolV(KindName(l.v) = (IF t.r.v \in DOMAIN ty THEN ty[t.r.v] ELSE t.r.v)), env |-> l.env]
    [] t.k = "bin" /\ t.op \in LogOps ->
         LET l == Ev(t.l, env, ty) IN
         IF Bad(l.v) THEN l
         ELSE IF Truthy(l.v) = (t.op = "||") THEN [v |-> BoolV(t.op = "||"), env |-> l.env]
         ELSE LET r == Ev(t.r, l.env, ty) IN
              IF Bad(r.v) THEN r ELSE [v |-> BoolV(Truthy(r.v)), env |-> r.env]
    [] t.k = "bin" /\ t.op \in AssignOps ->
         IF t.l.k # "id" \/ t.l.v \notin DOMAIN env THEN [v |-> UnkV, env |-> env]
         ELSE LET r == Ev(t.r, env, ty) IN
              IF Bad(r.v) THEN r
              ELSE LET nv == IF t.op = "=" THEN r.v ELSE BinVal(CompoundBase(t.op), r.env[t.l.v], r.v) IN
                   IF Bad(nv) THEN [v |-> nv, env |-> r.env]
                   ELSE [v |-> nv, env |-> [r.env EXCEPT ![t.l.v] = nv]]
    [] t.k = "bin" ->
         LET l == Ev(t.l, env, ty) IN
         IF Bad(l.v) THEN l
         ELSE LET r == Ev(t.r, l.env, ty) IN
              IF Bad(r.v) THEN r ELSE [v |-> BinVal(t.op, l.v, r.v), env |-> r.env]
    [] OTHER -> [v |-> UnkV, env |-> env]

\* ------------------------------------------------------ operand universe
Pool == <<NumV(12), NumV(6), NumV(2), NumV(3), StrV("s"), BoolV(TRUE), BoolV(FALSE), NumV(5)>>
TyPool == <<"number", "string", "bool", "number", "string", "bool", "bool", "number">>
NPool == Len(Pool)

\* An operand assignment gives every position a pool index; it is named by its
\* number in counting order (base NPool, position 1 least significant).
\* One and two positions, and operator pairs (family bin2): every assignment.
\* Otherwise a table (this is DESIGN.md's DiscriminatingOperands with the
\* search space cut down once, offline): Table3 / Table4 were computed by a
\* greedy cover over all 8^3 / 8^4 assignments, with this module's Ev, so that
\* every pair of groupings that SOME assignment of the pool tells apart is told
\* apart by one of the table - for all operator pairs with and without a prefix
\* operator (Table3: complete), for 921 of the 9261 operator triples (Table4;
\* on a held-out third of that sample a table built from the rest covered 98%).
\* A fifth position takes the value of the first.
Pow(b, e) == IF e = 0 THEN 1 ELSE IF e = 1 THEN b ELSE IF e = 2 THEN b * b ELSE b * b * b
Table3 == <<289, 145, 326, 257, 263, 384, 318, 66, 9, 293, 352, 385, 167, 374, 367, 422, 46, 353, 429,
            357, 489, 312, 373, 423, 13, 294, 6, 438, 295, 311, 327, 214, 404, 192, 196, 33, 437, 303,
            248, 509, 229, 421, 130, 450, 512, 7, 426, 261, 369, 386>>
Table4 == <<2332, 3271, 33, 2103, 3361, 577, 2054, 3457, 2921, 2902, 2343, 2607, 2409, 2817, 2570,
            2917, 2739, 645, 294, 3365, 1609, 1039, 3437, 1673, 2981, 2204, 1154, 2944, 2638, 2345,
            1842, 2407, 1353, 3662, 2277, 2861, 3078, 1025, 2434, 2358, 3054, 2850, 2977, 3048, 1129>>

AllCands(f, np) == np <= 2 \/ (np = 3 /\ f = "bin2")
NCand(f, np) == IF AllCands(f, np) THEN Pow(NPool, np) ELSE IF np = 3 THEN Len(Table3) ELSE Len(Table4)
Decode(code, np) == [p \in 1..np |-> (((code - 1) \div Pow(NPool, (p - 1) % 4)) % NPool) + 1]
Cand(f, np, c) == Decode(IF AllCands(f, np) THEN c ELSE IF np = 3 THEN Table3[c] ELSE Table4[c], np)

Env0(np, cand) == [x \in {VarName[p] : p \in 1..np} |-> Pool[cand[CHOOSE p \in 1..np : VarName[p] = x]]]
Ty0(np, cand) == [x \in {TyName(p) : p \in 1..np} |-> TyPool[cand[CHOOSE p \in 1..np : TyName(p) = x]]]
Outcome(t, np, cand) ==
  LET env0 == Env0(np, cand)
      ty == Ty0(np, cand)
      r == Ev(t, env0, ty)
  IN IF Bad(r.v) THEN [k |-> r.v.k, v |-> r.v, env |-> <<>>]
     ELSE IF r.v.k = "r" \/ \E p \in 1..np : r.env[VarName[p]].k = "r" THEN [k |-> "unk", v |-> UnkV, env |-> <<>>]
     ELSE [k |-> "ok", v |-> r.v, env |-> [p \in 1..np |-> r.env[VarName[p]]]]

Known(o) == o.k # "unk"
Discr(o1, o2) == Known(o1) /\ Known(o2) /\ o1 # o2


\* ------------------------------------------------- staged evaluation
\* "Parentheses override everything" on the EVALUATOR's side, without a reference value: the grouping of t is
\* imposed by statement sequencing.  Stage(t): one assignment statement per operator application of t, innermost
\* first, left to right, each applying ONE operator to operands, temporaries or sub-expressions this grammar does
\* not open (member, index, call, array literal: written fully parenthesised), then the value of the last.  No
\* grouping decision is left to the parser or the evaluator.  For trees without assignment (operands are pure, so
\* evaluating a right operand that && / || would have skipped changes nothing unless it fails): if the staged
\* program runs, the expression must print what it prints - under ANY operand values, in particular decimal
\* fractions, on which + and * are not associative in binary floating point (FPool; outside the universe of Ev).
RECURSIVE HasAssign(_)
AnyAssign(ts) == \E j \in 1..Len(ts) : HasAssign(ts[j])
HasAssign(t) ==
  CASE t.k = "bin" -> t.op \in AssignOps \/ HasAssign(t.l) \/ (t.r.k # "ty" /\ HasAssign(t.r))
    [] t.k = "un" -> HasAssign(t.e)
    [] t.k = "dot" -> HasAssign(t.e)
    [] t.k = "idx" -> HasAssign(t.e) \/ HasAssign(t.x)
    [] t.k = "call" -> HasAssign(t.f) \/ AnyAssign(t.args)
    [] t.k = "arr" -> AnyAssign(t.items)
    [] OTHER -> FALSE
RECURSIVE HasLogical(_)
HasLogical(t) ==
  CASE t.k = "bin" -> t.op \in LogOps \/ HasLogical(t.l) \/ (t.r.k # "ty" /\ HasLogical(t.r))
    [] t.k = "un" -> HasLogical(t.e)
    [] OTHER -> FALSE
Stageable(t) == ~HasAssign(t) /\ t.k \in {"bin", "un"}

TmpName(n) == "y" \o ToString(n)
TmpTok(n) == <<Tok("Ident", TmpName(n))>>
RECURSIVE StageR(_, _)
StageR(t, n) ==
  CASE t.k = "bin" /\ t.op = "is" ->
         LET l == StageR(t.l, n) IN
         [steps |-> Append(l.steps, [tmp |-> TmpName(l.n), toks |-> Paren(l.atom \o <<Sym("is"), LeafTok(t.r)>>)]),
          atom |-> TmpTok(l.n), n |-> l.n + 1]
    [] t.k = "bin" ->
         LET l == StageR(t.l, n)
             r == StageR(t.r, l.n)
         IN [steps |-> Append(l.steps \o r.steps, [tmp |-> TmpName(r.n), toks |-> Paren(l.atom \o <<Sym(t.op)>> \o r.atom)]),
             atom |-> TmpTok(r.n), n |-> r.n + 1]
    [] t.k = "un" ->
         LET e == StageR(t.e, n) IN
         [steps |-> Append(e.steps, [tmp |-> TmpName(e.n), toks |-> Paren(<<Sym(t.op)>> \o e.atom)]),
          atom |-> TmpTok(e.n), n |-> e.n + 1]
    [] OTHER -> [steps |-> <<>>, atom |-> FullP(t), n |-> n]
Stage(t) == StageR(t, 1)

\* operator applications of t outside member / index / call / array sub-expressions
RECURSIVE OpenSize(_)
OpenSize(t) ==
  CASE t.k = "bin" -> 1 + OpenSize(t.l) + (IF t.r.k = "ty" THEN 0 ELSE OpenSize(t.r))
    [] t.k = "un" -> 1 + OpenSize(t.e)
    [] OTHER -> 0

\* the reference evaluation of the staged program
RECURSIVE EvSteps(_, _, _, _)
EvSteps(steps, j, env, ty) ==
  IF j > Len(steps) THEN [ok |-> TRUE, env |-> env]
  ELSE LET r == Ev(ParseExpr(steps[j].toks), env, ty) IN
       IF Bad(r.v) THEN [ok |-> FALSE, env |-> env]
       ELSE EvSteps(steps, j + 1, [x \in DOMAIN r.env \cup {steps[j].tmp} |-> IF x = steps[j].tmp THEN r.v ELSE r.env[x]], ty)

StageLaw(t, f, np, nc) ==
  Stageable(t) =>
    LET sg == Stage(t) IN
    /\ Len(sg.steps) = OpenSize(t)
    /\ Len(sg.atom) = 1 /\ sg.atom[1].text = sg.steps[Len(sg.steps)].tmp
    \* every step applies one operator to operands that are no operator applications themselves
    /\ \A j \in 1..Len(sg.steps) :
         LET st == ParseExpr(sg.steps[j].toks) IN
         /\ st.k \in {"bin", "un"}
         /\ st.k = "bin" => st.l.k \notin {"bin", "un"} /\ st.r.k \notin {"bin", "un"}
         /\ st.k = "un" => st.e.k \notin {"bin", "un"}
    \* and under the reference evaluation the staged program, where it runs, gives the value of t; without
    \* && and || it runs exactly where t evaluates
    /\ \A c \in {1 + k * (nc \div 6) : k \in 0..5} :
         LET cand == Cand(f, np, c)
             ty == Ty0(np, cand)
             direct == Ev(t, Env0(np, cand), ty)
             sr == EvSteps(sg.steps, 1, Env0(np, cand), ty)
         IN /\ sr.ok => ~Bad(direct.v) /\ direct.v = sr.env[sg.atom[1].text]
            /\ (~HasLogical(t) /\ ~Bad(direct.v)) => sr.ok

\* operand values outside the universe of Ev: decimal fractions (k = "f", s = the spelling)
FltV(s) == [k |-> "f", n |-> 0, s |-> s, b |-> FALSE]
FPool == <<"1.1", "0.1", "0.7", "0.3", "2.5", "3">>
FRuns(np, j) ==
  <<[vals |-> [p \in 1..np |-> FltV(FPool[1])], tys |-> [p \in 1..np |-> "number"]],
    [vals |-> [p \in 1..np |-> FltV(FPool[((p + j + (Seed % 1000)) % Len(FPool)) + 1])], tys |-> [p \in 1..np |-> "number"]]>>

\* ------------------------------------------------- the tight layout
\* The same token sequence written with no blank wherever the LEXER (JqLex) reads the text without the blank as
\* the same tokens - decided token by token, left to right, by lexing both spellings - and one blank elsewhere
\* (`a is T`, `- -a`, `a < -b` but `a<- b`...).  `o.k-b`, `r[1]-b`, `f(2)*-a`: what binds tightest must not
\* depend on blanks around the operators.
Lx == INSTANCE JqLex
LexSig(str) == LET r == Lx!Tokens(Chars(str)) IN IF r.err \/ r.open THEN << <<"error", Chars(str)>> >> ELSE Lx!Sig(r.toks)
RECURSIVE TightR(_, _, _, _)
TightR(toks, j, sofar, gaps) ==
  IF j > Len(toks) THEN gaps
  ELSE LET g == IF LexSig(sofar \o toks[j].text) = LexSig(sofar \o " " \o toks[j].text) THEN "" ELSE " "
       IN TightR(toks, j + 1, sofar \o g \o toks[j].text, Append(gaps, g))
\* (JqLex decides "regex or division" by the token before the `/`; after the `}` of an object literal or a match
\* expression only the parser knows: such texts keep their blanks)
TightOk(toks) == \A j \in 1..(Len(toks) - 1) :
                   ~(toks[j].tag = "Prim" /\ SubSeq(toks[j].text, Len(toks[j].text), Len(toks[j].text)) = "}" /\ toks[j + 1].tag \in {"/", "/="})
Gaps(toks) == IF TightOk(toks) THEN TightR(toks, 2, toks[1].text, <<>>) ELSE [j \in 1..(Len(toks) - 1) |-> " "]
RECURSIVE Spell(_, _, _)
Spell(toks, gaps, j) == IF j > Len(toks) THEN "" ELSE (IF j > 1 THEN gaps[j - 1] ELSE "") \o toks[j].text \o Spell(toks, gaps, j + 1)
Spaced(toks) == Spell(toks, [j \in 1..(Len(toks) - 1) |-> " "], 1)
TightLaw(toks) ==
  TightOk(toks) =>
  LET gaps == Gaps(toks) IN
  /\ LexSig(Spell(toks, gaps, 1)) = LexSig(Spaced(toks))          \* the same tokens
  /\ LexSig(Spaced(toks))[1][1] # "error"
  \* no blank that is left is redundant
  /\ \A j \in {x \in 1..Len(gaps) : gaps[x] = " "} :
       LexSig(Spell(toks, [gaps EXCEPT ![j] = ""], 1)) # LexSig(Spaced(toks))

\* the families whose trees are also written tight / whose staged forms are checked by StageLaw (lexing in TLC is
\* slow: the small families that put every operator next to every suffix, prefix and operand kind), and those whose
\* staged forms are run
TightFams == {"bin1", "lvl3", "pre1", "prepre", "presuf", "suf1", "sufsuf", "inner"}
StageFams == TightFams \cup {"bin2"}

\* ------------------------------------------------------------------ states
VARIABLES fam, i1, d, done
vars == <<fam, i1, d, done>>

Nil == [ops |-> <<>>, base |-> <<>>, pre |-> <<>>, post |-> <<>>]

Init == /\ fam \in Fams
        /\ i1 \in FirstRange(fam)
        /\ d = Nil
        /\ done = FALSE
Next == /\ ~done
        /\ done' = TRUE
        /\ IF fam = "neg" THEN d' = Nil ELSE d' \in DescsOf(fam, i1)
        /\ UNCHANGED <<fam, i1>>

\* ----------------------------------------------------------- spec-level laws
StripParens(toks) == SelectSeq(toks, LAMBDA x : x.tag \notin {"(", ")"})
Without(toks, i, j) == [q \in 1..(Len(toks) - 2) |-> IF q < i THEN toks[q] ELSE IF q < j - 1 THEN toks[q + 1] ELSE toks[q + 2]]
\* index of the ")" matching the "(" at i
RECURSIVE MatchFrom(_, _, _)
MatchFrom(toks, j, depth) ==
  IF toks[j].tag = ")" THEN (IF depth = 0 THEN j ELSE MatchFrom(toks, j + 1, depth - 1))
  ELSE IF toks[j].tag = "(" THEN MatchFrom(toks, j + 1, depth + 1)
  ELSE MatchFrom(toks, j + 1, depth)
Match(toks, i) == MatchFrom(toks, i + 1, 0)

Levels(ops) == {InfixPrec(ops[j]) : j \in {x \in 1..Len(ops) : ops[x] \notin AssignOps}}
NonAssign(ops) == {x \in 1..Len(ops) : ops[x] \notin AssignOps}

TreeLaws(t, flat) ==
  LET rt == Render(t)
      fp == FullParen(t)
  IN /\ ParseExpr(rt) = t                          \* the minimal rendering means t
     /\ ParseExpr(fp) = t                          \* the fully parenthesised form means t
     /\ ParseExprDev(fp) = t                       \* ... under either associativity
     /\ StripParens(rt) = StripParens(flat)        \* same tokens in the same order
     /\ StripParens(fp) = StripParens(flat)
     /\ Len(rt) <= Len(fp)
     \* no parenthesis of the minimal rendering is redundant: without it the text
     \* means something else or nothing.  (Not claimed for `(x is T)`: the table
     \* asks for the parentheses in `(x is T) * y`, but the right side of `is` is
     \* one token, so a parser has no other way to read `x is T * y`.)
     /\ \A i \in {x \in 1..Len(rt) : rt[x].tag = "("} :
          LET j == Match(rt, i) IN rt[j - 2].tag = "is" \/ ParseExpr(Without(rt, i, j)) # t
     \* a rendering without grouping parentheses is the descriptor's token sequence
     /\ Len(rt) = Len(flat) => rt = flat

\* The one kind of parenthesis the minimal rendering writes although the text without it still means t: around
\* `x is T` where an operator that binds tighter than `is` follows (`(x is T) * y`: the right side of `is` is ONE
\* token, so `x is T * y` cannot be read as x is (T * y)).  Bares(t): the renderings of t with some such pair left
\* out, as far as they still mean t - further texts of t with fewer parentheses; they too must be read as t.
BareOnce(t, rt) ==
  {Without(rt, i, Match(rt, i)) : i \in {x \in 1..Len(rt) : rt[x].tag = "(" /\ rt[Match(rt, x) - 2].tag = "is"
                                                            /\ ParseExpr(Without(rt, x, Match(rt, x))) = t}}
Bares(t) ==
  LET rt == Render(t) IN
  IF \A x \in 1..Len(rt) : rt[x].tag # "is" THEN {}
  ELSE LET b1 == BareOnce(t, rt)
           b2 == UNION {BareOnce(t, w) : w \in b1}
       IN b1 \cup b2

\* the sites a tree is placed at: all that admit its first token (SiteAll), else one chosen by the tree and the seed
NSites == Len(ExprSites)
SiteAdmits(k, rt) == ExprSites[k].nofirst = "" \/ SubSeq(rt[1].text, 1, 1) # ExprSites[k].nofirst
SitesOf(t, j) ==
  LET rt == Render(t) IN
  IF fam \in SiteAll THEN {k \in 1..NSites : SiteAdmits(k, rt)}
  ELSE LET h == Len(rt) * 5 + j * 7 + i1 + (Seed % 1000)
           k == ((h \div SiteMod) % NSites) + 1
       IN IF h % SiteMod # 0 THEN {} ELSE IF SiteAdmits(k, rt) THEN {k} ELSE {1}

\* the expression grammar is context free: at every site the tokens of t, followed by the site's terminator, are
\* read as t and the expression ends exactly before the terminator
SiteLaw(t, ks) ==
  LET rt == Render(t) IN
  \A term \in {ExprSites[k].term : k \in ks} : ParseAtSite(rt, term) = POk(t, Len(rt) + 1)

Laws ==
  done /\ fam # "neg" =>
    LET cs == Cases(d)
        flat == Flat(d)
    IN /\ \A t \in cs : TreeLaws(t, flat)
       /\ fam \in TightFams => \A t \in cs : StageLaw(t, fam, Len(d.ops) + 1, NCand(fam, Len(d.ops) + 1))
       /\ fam \in TightFams => \A t \in cs : TightLaw(Render(t))
       /\ LET cseq == SetToSeq(cs) IN \A j \in 1..Len(cseq) : SiteLaw(cseq[j], SitesOf(cseq[j], j))
       \* the bare token sequence, where it has a meaning, is the minimal rendering or one of the bare texts of its tree
       /\ ParseExpr(flat).k # "error" => (Render(ParseExpr(flat)) = flat \/ flat \in Bares(ParseExpr(flat)))
       \* every grouping applies the same operators (inner: plus those inside [ ] and ( ))
       /\ \A t \in cs : IF fam = "inner" THEN \A u \in cs : Size(u) = Size(t)
                        ELSE Size(t) = Len(d.ops) + Len(FlattenSeq(d.pre)) + Len(FlattenSeq(d.post))
       \* different groupings are different texts and different printed trees
       /\ Cardinality({Render(t) : t \in cs}) = Cardinality(cs)
       /\ Cardinality({Sexpr(t) : t \in cs}) = Cardinality(cs)
       \* at most one grouping needs no parentheses: the meaning of the bare token sequence
       /\ Cardinality({t \in cs : Render(t) = flat}) <= 1
       /\ ParseExpr(flat).k # "error" => ParseExpr(flat) \in cs
       \* the deviation only regroups operators of one level: with pairwise
       \* different levels (assignments aside) it changes nothing; two adjacent
       \* operators of one non-assignment level without parentheses always differ
       \* (unless the first is `is`, whose right side is not an expression)
       /\ (fam \in {"bin1", "bin2", "bin3", "chain4"} /\ Cardinality(Levels(d.ops)) = Cardinality(NonAssign(d.ops)))
            => \A t \in cs : ParseExprDev(Render(t)) = t
       /\ (fam \in {"bin2", "bin3"} /\ \E j \in 1..(Len(d.ops) - 1) :
               d.ops[j] \notin AssignOps \cup {"is"} /\ d.ops[j + 1] \notin AssignOps /\ InfixPrec(d.ops[j]) = InfixPrec(d.ops[j + 1]))
            => \A t \in cs : Render(t) = flat => ParseExprDev(flat) # t

NegLaws ==
  done /\ fam = "neg" =>
    \A j \in 1..Len(NegCases) :
       \* refused, and by the rule of the grammar that is meant to refuse it
       /\ ParseExpr(NegCases[j].t).k = "error" /\ ParseExpr(NegCases[j].t).v = NegCases[j].why
       /\ ParseExprDev(NegCases[j].t).k = "error"

\* ----------------------------------------------------------------- vectors
Texts(toks) == [j \in 1..Len(toks) |-> toks[j].text]

\* the first assignment (in counting order) under which cases j and x are
\* both inside the evaluated universe and differ; 0: none
RECURSIVE FirstDiscr(_, _, _, _, _)
FirstDiscr(table, nc, j, x, c) ==
  IF c > nc THEN 0
  ELSE IF Discr(table[c][j], table[c][x]) THEN c
  ELSE FirstDiscr(table, nc, j, x, c + 1)

CaseVec(t, cseq, np, nc, table, j) ==
  LET rt == Render(t)
      dt == ParseExprDev(rt)
      others == {x \in 1..Len(cseq) : x # j}
      fd == [x \in others |-> FirstDiscr(table, nc, j, x, 1)]
      firstDisc(x) == fd[x]
      picks == {firstDisc(x) : x \in others} \ {0}
      extra == (((Seed % 1000) * 31 + Len(rt) * 7 + j) % nc) + 1
      \* where the reference evaluation cannot tell t from some other grouping (operands without a
      \* reference value: `$`, containers, match), one more assignment for the implementation to try
      more == IF \E x \in others : fd[x] = 0 THEN {((extra + (nc \div 2)) % nc) + 1} ELSE {}
      runs == SetToSeq(picks \cup {extra} \cup more)
  IN [text |-> Texts(rt),
      full |-> Texts(FullParen(t)),
      exp |-> Sexpr(t),
      dev |-> IF dt = t THEN <<>> ELSE <<[name |-> "parse-right-assoc", exp |-> Sexpr(dt), full |-> Texts(FullParen(dt))]>>,
      alts |-> [x \in 1..(Len(cseq) - 1) |-> Texts(FullParen(cseq[IF x < j THEN x ELSE x + 1]))],
      bares |-> LET bs == SetToSeq(Bares(t)) IN [x \in 1..Len(bs) |-> Texts(bs[x])],
      sites |-> SetToSeq(SitesOf(t, j)),
      gaps |-> IF fam \in TightFams THEN Gaps(rt) ELSE <<>>,
      stage |-> IF Stageable(t) /\ fam \in StageFams
                THEN LET sg == Stage(t) IN
                     <<[steps |-> [q \in 1..Len(sg.steps) |-> [tmp |-> sg.steps[q].tmp, toks |-> Texts(sg.steps[q].toks)]],
                        atom |-> Texts(sg.atom), fruns |-> FRuns(np, j)]>>
                ELSE <<>>,
      nalt |-> Cardinality(others),
      ndisc |-> Cardinality({x \in others : firstDisc(x) # 0}),
      runs |-> [q \in 1..Len(runs) |->
                  [vals |-> [p \in 1..np |-> Pool[Cand(fam, np, runs[q])[p]]],
                   tys |-> [p \in 1..np |-> TyPool[Cand(fam, np, runs[q])[p]]],
                   out |-> table[runs[q]][j],
                   \* what the other groupings (order of alts) evaluate to under the same
                   \* operands, where the reference evaluation tells them from t
                   \* ("unk" otherwise): lets the harness recognise "evaluated as a
                   \* different grouping" without judging operator semantics
                   altouts |-> [x \in 1..(Len(cseq) - 1) |->
                                  LET o == table[runs[q]][IF x < j THEN x ELSE x + 1] IN
                                  IF Discr(table[runs[q]][j], o) THEN o ELSE [k |-> "unk", v |-> UnkV, env |-> <<>>]]]]]

NegVec(toks) ==
  [text |-> Texts(toks),
   lax |-> Sexpr(ParseWith(toks, {"lax-target"})),
   dev |-> <<[name |-> "parse-right-assoc", lax |-> Sexpr(ParseWith(toks, {"lax-target", "parse-right-assoc"}))]>>]

\* table[c][j]: outcome of case j under assignment c (TLCEval: computed once per state)
BuildTable(cseq, np, nc) ==
  TLCEval([c \in 1..nc |-> TLCEval([j \in 1..Len(cseq) |-> Outcome(cseq[j], np, Cand(fam, np, c))])])

Vec ==
  done =>
    IF fam = "neg"
    THEN Emit([fam |-> fam, negflat |-> [j \in 1..Len(NegSeq) |-> NegVec(NegSeq[j])], sitetable |-> ExprSites])
    ELSE LET cseq == SetToSeq(Cases(d))
             np == Len(d.ops) + 1
             nc == NCand(fam, np)
             table == BuildTable(cseq, np, nc)
             flat == Flat(d)
             \* the bare token sequence is outside the grammar (no assignable target):
             \* it must be refused - or, if the parser does not validate targets (C11),
             \* at least be grouped as the table says (lax).  (The compound forms are
             \* left out: whether `a + b += c` is refused statically is not fixed by C06.)
             negflat == IF ParseExpr(flat).k = "error" /\ {d.ops[x] : x \in 1..Len(d.ops)} \cap CompoundOps = {}
                        THEN <<NegVec(flat)>> ELSE <<>>
         IN Emit([fam |-> fam, flat |-> Texts(flat), np |-> np, negflat |-> negflat,
                  cases |-> [j \in 1..Len(cseq) |-> CaseVec(cseq[j], cseq, np, nc, table, j)]])
=============================================================================
