---------------------------- MODULE MC_EvalCtl ----------------------------
(* C07: every statement tree up to MaxNodes nodes x every sequence of       *)
(* condition outcomes (up to Fuel TRUE outcomes), run as the body of a      *)
(* pattern rule over an input of 1 or 2 elements, followed by a second      *)
(* pattern rule and an END rule.  Each terminated behaviour is a vector:    *)
(* the tree, the outcomes taken, the label trace.                           *)
EXTENDS JqEval
CONSTANTS MaxNodes, ForInVariants

P == [k |-> "print"]
Leaves(inLoop, inFn) ==
  {P, [k |-> "next"], [k |-> "exit"]}
  \cup (IF inLoop THEN {[k |-> "break"], [k |-> "continue"]} ELSE {})
  \cup (IF inFn THEN {[k |-> "return", e |-> NoStmt]} ELSE {})

\* for-in variants: <<kind, length, two variables?>>
FIV == IF ForInVariants = "few"
       THEN {<<"arr", 2, FALSE>>, <<"obj", 2, TRUE>>, <<"str", 2, TRUE>>, <<"arr", 0, TRUE>>,
             <<"ustr", 2, TRUE>>,    \* a string with a multi-byte character: characters and byte offsets
             <<"fstr", 2, TRUE>>,    \* a string that starts with U+FFFD
             <<"nobj", 4, FALSE>>}   \* an object whose keys mix numeric-looking and other strings
       ELSE IF ForInVariants = "lean"
       THEN {<<"arr", 2, FALSE>>, <<"obj", 2, TRUE>>, <<"str", 2, TRUE>>, <<"arr", 0, TRUE>>}
       ELSE {<<kd, m, tw>> : kd \in {"arr", "obj", "str", "ustr"}, m \in 0..2, tw \in BOOLEAN} \cup {<<"nobj", 4, TRUE>>, <<"fstr", 2, TRUE>>, <<"fstr", 2, FALSE>>}

\* statements with exactly n nodes
RECURSIVE Sz(_, _, _)
Sz(n, inLoop, inFn) ==
  IF n <= 0 THEN {}
  ELSE IF n = 1 THEN Leaves(inLoop, inFn)
  ELSE
    {[k |-> "if", c |-> "o", th |-> x, el |-> NoStmt] : x \in Sz(n-1, inLoop, inFn)}
    \cup UNION {{[k |-> "if", c |-> "o", th |-> x, el |-> y] : x \in Sz(i, inLoop, inFn), y \in Sz(n-1-i, inLoop, inFn)} : i \in 1..(n-2)}
    \cup UNION {{[k |-> "block", b |-> <<x, y>>] : x \in Sz(i, inLoop, inFn), y \in Sz(n-1-i, inLoop, inFn)} : i \in 1..(n-2)}
    \cup {[k |-> "while", c |-> "o", b |-> x] : x \in Sz(n-1, TRUE, inFn)}
    \cup {[k |-> "for", c |-> "o", init |-> "ok", post |-> "ok", b |-> x] : x \in Sz(n-1, TRUE, inFn)}
    \cup {[k |-> "forin", kind |-> v[1], n |-> v[2], two |-> v[3], b |-> x] : v \in FIV, x \in Sz(n-1, TRUE, inFn)}
    \cup (IF inFn THEN {} ELSE {[k |-> "callstmt", f |-> 0, args |-> <<>>, fb |-> x] : x \in Sz(n-1, FALSE, TRUE)})

Trees == UNION {Sz(n, FALSE, FALSE) : n \in 1..MaxNodes}

RECURSIVE HasKind(_, _)
HasKind(s, ks) ==
  \/ s.k \in ks
  \/ s.k = "if" /\ (HasKind(s.th, ks) \/ (s.el.k # "none" /\ HasKind(s.el, ks)))
  \/ s.k = "block" /\ \E i \in 1..Len(s.b) : HasKind(s.b[i], ks)
  \/ s.k \in {"while", "for", "forin"} /\ HasKind(s.b, ks)
  \/ s.k = "callstmt" /\ HasKind(s.fb, ks)

Init == \E tr \in Trees :
  InitFor([fns |-> <<>>,
           rules |-> << [kind |-> "P", body |-> tr], [kind |-> "P", body |-> P], [kind |-> "E", body |-> P] >>,
           n |-> IF HasKind(tr, {"next"}) THEN 2 ELSE 1])

Spec == Init /\ [][Next]_vars

Vec == (outcome # "running") =>
  Emit([tree |-> prog.rules[1].body, n |-> prog.n, conds |-> conds, out |-> out, outcome |-> outcome])
=============================================================================
