--------------------------- MODULE MC_EvalPlace ---------------------------
(* C01 (and C11's propagation half): every placement of a control signal    *)
(* or a fault.  A placement is a rule context, a nest of up to MaxDepth     *)
(* wrappers and a leaf:                                                     *)
(*   context : BEGIN, BEGINFILE, pattern-rule body, pattern expression (a   *)
(*             function called from the pattern), ENDFILE, END, root        *)
(*             selector (-r)                                                *)
(*   wrapper : if, while, for, for-in, function body, match block body,     *)
(*             match expression body (a call inside it), block, a match     *)
(*             block in a while condition / for init clause / for condition *)
(*   leaf    : next exit return break continue fault                        *)
(* Placements the parser must reject (return outside a function, break /    *)
(* continue outside a loop of the same function) are emitted with the       *)
(* expected outcome "syntax" and no output.  All others run on the JqEval   *)
(* machine: TLC checks NoEscape, SigConsumed, FrameBalance, ... in every    *)
(* state and every terminated behaviour is emitted.  Where the statement    *)
(* leaves the meaning open (next outside a pattern rule, next/exit in a     *)
(* selector) the machine is nondeterministic and the harness accepts any    *)
(* of the emitted outcomes for the same placement.                          *)
EXTENDS JqEval
CONSTANTS MaxDepth

P == [k |-> "print"]
Contexts == {"B", "BF", "P", "PAT", "EF", "E", "SEL"}
Wrappers == {"if", "while", "for", "forin", "forins", "forino", "fn", "matchb", "matche", "block", "whilecond", "forinit", "forcond"}
LeafKinds == {"next", "exit", "return", "break", "continue", "fault"}

Leaf(l) == IF l = "return" THEN [k |-> "return", e |-> NoStmt] ELSE [k |-> l]

Wrap(w, s) ==
  CASE w = "if" -> [k |-> "if", c |-> "true", th |-> s, el |-> NoStmt]
    [] w = "while" -> [k |-> "while", c |-> "true", b |-> s]
    [] w = "for" -> [k |-> "for", c |-> "true", init |-> "ok", post |-> "ok", b |-> s]
    [] w = "forin" -> [k |-> "forin", kind |-> "arr", n |-> 2, two |-> FALSE, b |-> s]
    [] w = "forins" -> [k |-> "forin", kind |-> "str", n |-> 2, two |-> TRUE, b |-> s]
    [] w = "forino" -> [k |-> "forin", kind |-> "obj", n |-> 2, two |-> TRUE, b |-> s]
    [] w = "fn" -> [k |-> "callstmt", f |-> 0, args |-> <<>>, fb |-> s]
    [] w = "matchb" -> [k |-> "matchstmt", subj |-> [k |-> "num", v |-> 1], bind |-> "z", b |-> s]
    [] w = "matche" -> [k |-> "set", n |-> "mv", e |-> [k |-> "match", subj |-> [k |-> "num", v |-> 1], bind |-> "z",
                                                          body |-> [k |-> "call", f |-> 0, args |-> <<>>, fb |-> s]]]
    [] w = "block" -> [k |-> "block", b |-> <<P, s, P>>]
    \* a match block in the header of a loop whose body never runs: while (match (1) { z => { s } }) { },
    \* for (match ...; false; 0) { }, for (0; match ...; 0) { }.  To the machine this is a match
    \* statement (the block's value, null, ends the loop at once); the header is NOT part of the loop
    \* for break / continue.
    [] w \in {"whilecond", "forinit", "forcond"} ->
         [k |-> "matchstmt", subj |-> [k |-> "num", v |-> 1], bind |-> "z", b |-> s, hdr |-> w]

\* ws[1] is the outermost wrapper
RECURSIVE Nest(_, _)
Nest(ws, l) == IF ws = <<>> THEN Leaf(l) ELSE Wrap(Head(ws), Nest(Tail(ws), l))

\* the wrappers since the innermost function boundary (fn / matche start a function body)
RECURSIVE SinceFn(_)
SinceFn(ws) == IF ws = <<>> THEN <<>>
               ELSE IF ws[Len(ws)] \in {"fn", "matche"} THEN <<>>
               ELSE Append(SinceFn(SubSeq(ws, 1, Len(ws) - 1)), ws[Len(ws)])
InFn(ctx, ws) == ctx = "PAT" \/ \E i \in 1..Len(ws) : ws[i] \in {"fn", "matche"}
Loops == {"while", "for", "forin", "forins", "forino"}
ForIns == {"forin", "forins", "forino"}
InLoop(ws) == LET s == SinceFn(ws) IN \E i \in 1..Len(s) : s[i] \in Loops

\* what the parser accepts
Accepted(ctx, ws, l) ==
  /\ l = "return" => InFn(ctx, ws)
  /\ l \in {"break", "continue"} => InLoop(ws)
\* a root selector is evaluated by a bare evaluator: no user functions there
Expressible(ctx, ws) == ctx = "SEL" => \A i \in 1..Len(ws) : ws[i] \notin {"fn", "matche"}
\* The signal is consumed by some wrapper (break / continue: the innermost loop;
\* return: the innermost function) or escapes them all (next, exit, fault).
\* After consumption execution goes on, so a constant-true loop outside the
\* consumer would never end; `continue` must not hit a constant-true loop.
ConsumerIdx(w, l) ==
  LET S == IF l \in {"break", "continue"} THEN {i \in 1..Len(w) : w[i] \in Loops}
           ELSE IF l = "return" THEN {i \in 1..Len(w) : w[i] \in {"fn", "matche"}}
           ELSE {}
  IN IF S = {} THEN 0 ELSE SetMax(S)
Terminates(w, l) ==
  LET ci == ConsumerIdx(w, l) IN
  /\ \A i \in 1..(ci - 1) : w[i] \notin {"while", "for"}
  /\ (l = "continue" /\ ci > 0) => w[ci] \in ForIns

ProgFor(ctx, ws, l) ==
  LET body == Nest(ws, l)
      tailRules == << [kind |-> "P", body |-> P], [kind |-> "EF", body |-> P], [kind |-> "E", body |-> P] >>
  IN IF ctx = "PAT"
     THEN [fns |-> <<[params |-> <<>>, body |-> [k |-> "block", b |-> <<P, body, [k |-> "return", e |-> [k |-> "num", v |-> 1]]>>]]>>,
           rules |-> << [kind |-> "P", pat |-> [k |-> "call", f |-> 1], body |-> P] >> \o tailRules, n |-> 2]
     ELSE [fns |-> <<>>, rules |-> << [kind |-> ctx, body |-> [k |-> "block", b |-> <<P, body, P>>]] >> \o tailRules, n |-> 2]

VARIABLES ctx, ws, leaf, built
mcvars == <<ctx, ws, leaf, built>>

MCInit ==
  /\ ctx \in Contexts /\ leaf \in LeafKinds /\ ws = <<>> /\ built = FALSE
  /\ InitFor([fns |-> <<>>, rules |-> <<>>, n |-> 0])

Build ==
  /\ ~built /\ built' = TRUE
  /\ \E w \in SeqsUpTo(Wrappers, MaxDepth) :
       /\ Expressible(ctx, w) /\ (Accepted(ctx, w, leaf) => Terminates(w, leaf))
       /\ ws' = w
       /\ IF Accepted(ctx, w, leaf)
          THEN LET p == ProgFor(ctx, w, leaf) IN prog' = p /\ sched' = ScheduleOf(p) /\ UNCHANGED outcome
          ELSE LET p == ProgFor(ctx, w, leaf) IN prog' = p /\ sched' = <<>> /\ outcome' = "syntax"
  /\ UNCHANGED <<ctx, leaf, si, ctl, frames, sig, retval, out, conds, trues, open>>

MCNext == \/ Build
          \/ built /\ Next /\ UNCHANGED mcvars

Vec == (built /\ outcome # "running") =>
  Emit([ctx |-> ctx, ws |-> ws, leaf |-> leaf, prog |-> prog, out |-> out, outcome |-> outcome])

OutcomeLegalP == outcome \in {"running", "ok", "runtime", "syntax"}
=============================================================================
