----------------------------- MODULE JqRender -----------------------------
(* The print format and the JSON conversion of jqawk values (DESIGN.md 4.5). *)
(* Serves C17 (print) and C04 (-o / json()).                                  *)
(*                                                                            *)
(* Implementation counterparts (one operator per function, so that a        *)
(* rejected case points at one of them):                                      *)
(*   PrettyR / PrettyC  -  Value.prettyStringInteral     (src/value.go)       *)
(*   OnPath             -  the isSame / alias loop over rootValues            *)
(*   PrintStmt          -  case *StatementPrint           (src/evaluator.go)  *)
(*   ToJsonR / ToJsonC  -  Value.toGoValueInterval + json.MarshalIndent       *)
(*                         (nativeJson in src/runtime.go, GetRootJson)        *)
(*                                                                            *)
(* Values (this module has its own small heap representation):               *)
(*   atom    [t |-> "atom", c |-> class, n |-> name]                          *)
(*           class "s" string, "n" finite number, "l" one of the words true / *)
(*           false / null, "a" some JSON scalar (kind chosen by the harness), *)
(*           "x" a leaf JSON cannot express (non-finite number, function).    *)
(*           Atoms are opaque (DESIGN.md 2.3): the name n (a sequence of      *)
(*           naturals) identifies the occurrence; the harness gives each name *)
(*           a concrete string / double per seed.                             *)
(*   ref     [t |-> "ref", id |-> i]      a reference to container i of heap  *)
(*   view    [t |-> "view", id |-> i, off |-> o, len |-> n]                   *)
(*           an array value that shares its storage with array i of the heap  *)
(*           but has a length / start of its own: it shows the elements       *)
(*           off+1 .. off+len of container i.  Such values exist in the       *)
(*           pinned implementation (an array value is a slice header that is  *)
(*           copied on assignment; pop / popfirst through one copy change    *)
(*           only that copy: C09's open finding alias-length): `b = a;        *)
(*           b.pop()` leaves a and b as two arrays over one storage.  What    *)
(*           print / json() / -o owe such a value is ITS elements; the        *)
(*           storage is the identity used for the cycle test only.            *)
(*   inline  [t |-> "arr", s |-> Seq(Value)]                                  *)
(*           [t |-> "obj", s |-> Seq(Value), ks |-> Seq(name)]                *)
(*           a container without identity (a JSON document as read is a tree  *)
(*           of these); slot j of an object has the key named ks[j].          *)
(*   null    [t |-> "null"]  the JSON null constant (only produced by the     *)
(*           deviation below)                                                 *)
(* A heap is a function from container ids to inline containers whose slots *)
(* are atoms and refs.  Containers have reference semantics: two refs with   *)
(* the same id are the same container.                                       *)
(*                                                                            *)
(* Object key order: the model renders the slots in sequence order (the      *)
(* "KeyOrder" of DESIGN.md 4.5); the statement leaves the order open, the     *)
(* harness compares objects order-insensitively.                              *)
EXTENDS JqUtil

Atom(c, n) == [t |-> "atom", c |-> c, n |-> n]
Ref(i)     == [t |-> "ref", id |-> i]
View(i, o, n) == [t |-> "view", id |-> i, off |-> o, len |-> n]
Arr(s)     == [t |-> "arr", s |-> s]
Obj(s, ks) == [t |-> "obj", s |-> s, ks |-> ks]
Null       == [t |-> "null"]
Error      == [t |-> "error"]
EmptyHeap  == <<>>

IsContainer(v) == v.t \in {"arr", "obj"}
IsRefLike(v) == v.t \in {"ref", "view"}
\* the container a reference denotes; for a view: its window of the shared storage
Target(h, v) == IF v.t = "view" THEN [h[v.id] EXCEPT !.s = SubSeq(@, v.off + 1, v.off + v.len)] ELSE h[v.id]

----------------------------------------------------------------------------
(* Output of print: a sequence of tokens (all records, field t = kind).      *)
(*   p    punctuation, s = the exact text                                     *)
(*   raw  the string atom n, its bytes as they are                            *)
(*   quo  the string atom n between double quotes, bytes as they are          *)
(*   num  NumText of the number atom n: opaque; contract checked by the       *)
(*        harness: -?digits(.digits)? that reads back as the identical double *)
(*   word true / false / null (the word of the literal atom n)                *)
(*   atop / anest   a generic JSON scalar at top level / nested: a string is  *)
(*        raw at top level and quoted when nested, the others as above        *)
(*   key  the key named n between double quotes                               *)
(*   any  a leaf whose rendering the statement does not fix (class x)         *)
P(s)     == [t |-> "p", s |-> s]
Circ     == P("<circular reference>")
LBr == P("[")  RBr == P("]")  LCu == P("{")  RCu == P("}")
Comma == P(", ")  Colon == P(": ")  Space == P(" ")  Newline == P("\n")

AtomTok(v, top) ==
  CASE v.c = "s" -> [t |-> IF top THEN "raw" ELSE "quo", n |-> v.n]
    [] v.c = "n" -> [t |-> "num", n |-> v.n]
    [] v.c = "l" -> [t |-> "word", n |-> v.n]
    [] v.c = "a" -> [t |-> IF top THEN "atop" ELSE "anest", n |-> v.n]
    [] OTHER     -> [t |-> "any", n |-> v.n]

RECURSIVE JoinToks(_, _)
JoinToks(parts, sep) ==
  IF parts = <<>> THEN <<>>
  ELSE IF Len(parts) = 1 THEN parts[1]
  ELSE parts[1] \o <<sep>> \o JoinToks(Tail(parts), sep)

\* the cycle test: is the container a ref denotes one of those being rendered
\* on the way from the root down to here
OnPath(v, path) == v.id \in path

RECURSIVE PrettyR(_, _, _, _), PrettyC(_, _, _)
\* h heap; v value; path = ids of the containers on the current path from the
\* root; top = v is a print argument itself (not inside a container)
PrettyR(h, v, path, top) ==
  CASE v.t = "atom" -> <<AtomTok(v, top)>>
    [] v.t = "null" -> <<P("null")>>
    [] IsRefLike(v) -> IF OnPath(v, path) THEN <<Circ>>
                       ELSE PrettyC(h, Target(h, v), path \cup {v.id})
    [] OTHER        -> PrettyC(h, v, path)
PrettyC(h, c, path) ==
  LET kids == [j \in 1..Len(c.s) |-> PrettyR(h, c.s[j], path, FALSE)] IN
  IF c.t = "arr" THEN <<LBr>> \o JoinToks(kids, Comma) \o <<RBr>>
  ELSE <<LCu>> \o JoinToks([j \in 1..Len(c.s) |-> <<[t |-> "key", n |-> c.ks[j]], Colon>> \o kids[j]], Comma) \o <<RCu>>

Pretty(h, v) == PrettyR(h, v, {}, TRUE)

\* the print statement: arguments separated by one space, ended by a newline;
\* without arguments it prints $ (so does a rule without a body)
PrintStmt(h, args, dollar) ==
  (IF args = <<>> THEN Pretty(h, dollar)
   ELSE JoinToks([i \in 1..Len(args) |-> Pretty(h, args[i])], Space)) \o <<Newline>>

----------------------------------------------------------------------------
(* JSON conversion: the JSON value as a tree (an inline value without refs) *)
(* or Error when a container is on its own path or a class-x leaf is met.   *)
RECURSIVE ToJsonR(_, _, _), ToJsonC(_, _, _)
ToJsonR(h, v, path) ==
  CASE v.t = "atom" -> IF v.c = "x" THEN Error ELSE v
    [] v.t = "null" -> v
    [] IsRefLike(v) -> IF OnPath(v, path) THEN Error
                       ELSE ToJsonC(h, Target(h, v), path \cup {v.id})
    [] OTHER        -> ToJsonC(h, v, path)
ToJsonC(h, c, path) ==
  LET kids == [j \in 1..Len(c.s) |-> ToJsonR(h, c.s[j], path)] IN
  IF \E j \in 1..Len(kids) : kids[j].t = "error" THEN Error
  ELSE [c EXCEPT !.s = kids]

ToJsonV(h, v) == ToJsonR(h, v, {})

\* Deviation empty-array-null (finding F5): ToGoValue leaves the slice of an
\* empty array nil, so every empty array is written as null.
RECURSIVE NullEmptyArrays(_)
NullEmptyArrays(j) ==
  CASE j.t = "arr" -> IF j.s = <<>> THEN Null ELSE [j EXCEPT !.s = [i \in 1..Len(j.s) |-> NullEmptyArrays(j.s[i])]]
    [] j.t = "obj" -> [j EXCEPT !.s = [i \in 1..Len(j.s) |-> NullEmptyArrays(j.s[i])]]
    [] OTHER -> j
ToJsonDev(h, v, dev) ==
  LET j == ToJsonV(h, v) IN
  IF dev = "empty-array-null" /\ j.t # "error" THEN NullEmptyArrays(j) ELSE j

----------------------------------------------------------------------------
(* Reading the print format back: a recursive-descent parser over tokens.   *)
(* For values whose strings need no escaping the text of quo / num / word / *)
(* key tokens is JSON (checked on the real output by the harness), so the   *)
(* structure is what is parsed here.  Result [ok, v, i]: value and the      *)
(* position after it; raw strings, <circular reference> and class-x leaves  *)
(* are not JSON.                                                            *)
NoParse == [ok |-> FALSE, v |-> Null, i |-> 0]
TokAt(toks, i) == IF i <= Len(toks) THEN toks[i] ELSE P("<eof>")
IsP(tok, s) == tok.t = "p" /\ tok.s = s

RECURSIVE ParseVal(_, _), ParseItems(_, _, _), ParseMembers(_, _, _, _)
ParseVal(toks, i) ==
  LET tok == TokAt(toks, i) IN
  CASE tok.t = "quo"   -> [ok |-> TRUE, v |-> Atom("s", tok.n), i |-> i + 1]
    [] tok.t = "num"   -> [ok |-> TRUE, v |-> Atom("n", tok.n), i |-> i + 1]
    [] tok.t = "word"  -> [ok |-> TRUE, v |-> Atom("l", tok.n), i |-> i + 1]
    [] tok.t = "anest" -> [ok |-> TRUE, v |-> Atom("a", tok.n), i |-> i + 1]
    [] IsP(tok, "null") -> [ok |-> TRUE, v |-> Null, i |-> i + 1]
    [] IsP(tok, "[")   -> IF IsP(TokAt(toks, i + 1), "]") THEN [ok |-> TRUE, v |-> Arr(<<>>), i |-> i + 2]
                          ELSE ParseItems(toks, i + 1, <<>>)
    [] IsP(tok, "{")   -> IF IsP(TokAt(toks, i + 1), "}") THEN [ok |-> TRUE, v |-> Obj(<<>>, <<>>), i |-> i + 2]
                          ELSE ParseMembers(toks, i + 1, <<>>, <<>>)
    [] OTHER -> NoParse
ParseItems(toks, i, acc) ==
  LET r == ParseVal(toks, i) IN
  IF ~r.ok THEN NoParse
  ELSE IF IsP(TokAt(toks, r.i), ", ") THEN ParseItems(toks, r.i + 1, Append(acc, r.v))
  ELSE IF IsP(TokAt(toks, r.i), "]") THEN [ok |-> TRUE, v |-> Arr(Append(acc, r.v)), i |-> r.i + 1]
  ELSE NoParse
ParseMembers(toks, i, acc, keys) ==
  IF TokAt(toks, i).t # "key" \/ ~IsP(TokAt(toks, i + 1), ": ") THEN NoParse
  ELSE LET r == ParseVal(toks, i + 2) IN
    IF ~r.ok THEN NoParse
    ELSE IF IsP(TokAt(toks, r.i), ", ") THEN ParseMembers(toks, r.i + 1, Append(acc, r.v), Append(keys, toks[i].n))
    ELSE IF IsP(TokAt(toks, r.i), "}") THEN [ok |-> TRUE, v |-> Obj(Append(acc, r.v), Append(keys, toks[i].n)), i |-> r.i + 1]
    ELSE NoParse

\* the whole token sequence is one JSON value
ParseJson(toks) ==
  LET r == ParseVal(toks, 1) IN
  IF r.ok /\ r.i = Len(toks) + 1 THEN r.v ELSE Error

----------------------------------------------------------------------------
(* Independent characterisations used by the laws (graph-theoretic, no      *)
(* path threading).                                                          *)

RECURSIVE RefsIn(_)
\* ids referenced from value v without passing through the heap
RefsIn(v) ==
  CASE IsRefLike(v) -> {v.id}
    [] IsContainer(v) -> UNION {RefsIn(v.s[j]) : j \in 1..Len(v.s)}
    [] OTHER -> {}

RECURSIVE Closure(_, _)
\* all containers reachable from the set S of ids (S included)
Closure(h, S) ==
  LET N == S \cup UNION {RefsIn(h[i]) : i \in S} IN
  IF N = S THEN S ELSE Closure(h, N)

ReachFrom(h, v) == Closure(h, RefsIn(v))
\* container i can reach itself through at least one edge
OnCycle(h, i) == i \in Closure(h, RefsIn(h[i]))
CyclicFrom(h, v) == \E i \in ReachFrom(h, v) : OnCycle(h, i)

RECURSIVE HasClass(_, _)
HasClass(v, c) ==
  CASE v.t = "atom" -> v.c = c
    [] IsContainer(v) -> \E j \in 1..Len(v.s) : HasClass(v.s[j], c)
    [] OTHER -> FALSE
BadLeafFrom(h, v) == HasClass(v, "x") \/ \E i \in ReachFrom(h, v) : HasClass(h[i], "x")

\* unfolding by repeated substitution: one round replaces every ref that is
\* visible without passing through the heap by the container it denotes
RECURSIVE Subst1(_, _)
Subst1(h, v) ==
  CASE IsRefLike(v) -> Target(h, v)
    [] IsContainer(v) -> [v EXCEPT !.s = [j \in 1..Len(v.s) |-> Subst1(h, v.s[j])]]
    [] OTHER -> v
RECURSIVE SubstN(_, _, _)
SubstN(h, v, k) == IF k = 0 THEN v ELSE SubstN(h, Subst1(h, v), k - 1)
\* for an acyclic v every chain of refs is shorter than the number of
\* containers, so this is the tree the value denotes
Unfold(h, v) == SubstN(h, v, Len(h) + 1)

\* access paths: sequences of slot indices followed from a value, with no
\* cycle logic at all.  Follow returns the values met, <<>> if the path leaves
\* the structure.
Deref(h, v) == IF IsRefLike(v) THEN Target(h, v) ELSE v
RECURSIVE Follow(_, _, _)
Follow(h, v, p) ==
  IF p = <<>> THEN <<v>>
  ELSE LET c == Deref(h, v) IN
    IF ~IsContainer(c) \/ Head(p) > Len(c.s) THEN <<>>
    ELSE LET rest == Follow(h, c.s[Head(p)], Tail(p)) IN
      IF rest = <<>> THEN <<>> ELSE <<v>> \o rest
\* ids of the refs among the first k values met
IdsOf(vs, k) == [i \in {j \in 1..k : vs[j].t = "ref"} |-> vs[i].id]
Distinct(f) == \A i, j \in DOMAIN f : i # j => f[i] # f[j]
\* the statement's rule: a position is rendered iff no container recurs on
\* the way to it; it shows <circular reference> iff the value there is a
\* container that already occurs on the way (the first recurrence)
Rendered(vs) == Distinct(IdsOf(vs, Len(vs) - 1))
IsCircPos(vs) ==
  /\ Rendered(vs)
  /\ vs[Len(vs)].t = "ref"
  /\ \E i \in 1..(Len(vs) - 1) : vs[i].t = "ref" /\ vs[i].id = vs[Len(vs)].id

\* token statistics
Count(toks, Pred(_)) == Cardinality({i \in 1..Len(toks) : Pred(toks[i])})
IsOpen(tk) == IsP(tk, "[") \/ IsP(tk, "{")
IsClose(tk) == IsP(tk, "]") \/ IsP(tk, "}")
\* bracket nesting depth in front of token i
DepthAt(toks, i) ==
  Cardinality({j \in 1..(i - 1) : IsOpen(toks[j])}) - Cardinality({j \in 1..(i - 1) : IsClose(toks[j])})
MaxDepth(toks) == IF toks = <<>> THEN 0 ELSE SetMax({DepthAt(toks, i) : i \in 1..(Len(toks) + 1)})

RECURSIVE SplitToks(_, _)
\* split at the separator token (inverse of JoinToks for a separator that does
\* not occur inside the parts)
SplitToks(toks, sep) ==
  LET S == {i \in 1..Len(toks) : toks[i] = sep} IN
  IF S = {} THEN <<toks>>
  ELSE LET i == SetMin(S) IN <<SubSeq(toks, 1, i - 1)>> \o SplitToks(SubSeq(toks, i + 1, Len(toks)), sep)
----------------------------------------------------------------------------
(* Compact encoding of values and tokens for the vectors (harness input).   *)
(*   name <<1, 2>> -> "1.2";  atom -> class letter + name ("s1.2");          *)
(*   ref -> "#2";  null -> "null";  error -> "error";                         *)
(*   view of container 2, offset 1, length 2 -> "~2.1.2";                     *)
(*   array -> [a |-> items];  object -> [o |-> items, k |-> key names];       *)
(*   punctuation token -> its text;  other tokens -> "@kind:name".            *)
RECURSIVE NameStr(_)
NameStr(n) == IF n = <<>> THEN "" ELSE IF Len(n) = 1 THEN ToString(n[1]) ELSE ToString(n[1]) \o "." \o NameStr(Tail(n))
RECURSIVE EncVal(_)
EncVal(v) ==
  CASE v.t = "atom"  -> v.c \o NameStr(v.n)
    [] v.t = "ref"   -> "#" \o ToString(v.id)
    [] v.t = "view"  -> "~" \o ToString(v.id) \o "." \o ToString(v.off) \o "." \o ToString(v.len)
    [] v.t = "null"  -> "null"
    [] v.t = "error" -> "error"
    [] v.t = "arr"   -> [a |-> [j \in 1..Len(v.s) |-> EncVal(v.s[j])]]
    [] OTHER         -> [o |-> [j \in 1..Len(v.s) |-> EncVal(v.s[j])], k |-> [j \in 1..Len(v.ks) |-> NameStr(v.ks[j])]]
EncToks(toks) == [i \in 1..Len(toks) |-> IF toks[i].t = "p" THEN toks[i].s ELSE "@" \o toks[i].t \o ":" \o NameStr(toks[i].n)]
=============================================================================
