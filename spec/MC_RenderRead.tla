--------------------------- MODULE MC_RenderRead ---------------------------
(* C04 (vi): programs that READ the document without modifying it.            *)
(*                                                                            *)
(* A transition system: the document is picked (every tree of depth <= 3 over *)
(* the leaves null / string / number / word, nulls at every position), then   *)
(* an access chain is walked step by step (JqRead.Lookup; at a cell of the    *)
(* document every key of the object incl. a missing one, every index incl.    *)
(* one past the end, -1 and one off the front; once the chain has left the    *)
(* document it goes on through the nulls it gets), and at any point the       *)
(* program may instead assign through the chain (JqRead.Assign).              *)
(* Checked in every reachable state: as long as no Assign was taken the       *)
(* document is the one that was read (and what -o owes is that tree), a       *)
(* speculative null is not a cell of the document, and an Assign through the  *)
(* very same chain DOES change it (the distinction read / write is real).     *)
(* Every state of the read phase is emitted as a vector; the harness renders  *)
(* the chain in every reading context and compares -o with doc.               *)
EXTENDS JqRead
CONSTANTS W1, W2, W3,    \* slots of the containers at depth 1, 2, 3
          MaxSteps,      \* length of the access chain
          OffDoc,        \* steps a chain may go on after it has left the document
          WideSecond     \* TRUE: the root's second slot ranges over all of D2 (thorough)

Leaves == {Null, Atom("s", <<>>), Atom("n", <<>>), Atom("l", <<>>)}
Level(sub, w) == Leaves \cup UNION {{Arr(s), Obj(s, <<>>)} : s \in SeqsUpTo(sub, w)}
D3 == Level(Leaves, W3)
D2 == Level(D3, W2)
Small == Leaves \cup {Arr(<<>>), Obj(<<>>, <<>>)}

RECURSIVE Label(_, _)
Label(v, path) ==
  CASE v.t = "atom" -> Atom(v.c, path)
    [] v.t = "null" -> v
    [] v.t = "arr"  -> Arr([j \in 1..Len(v.s) |-> Label(v.s[j], Append(path, j))])
    [] OTHER        -> Obj([j \in 1..Len(v.s) |-> Label(v.s[j], Append(path, j))],
                           [j \in 1..Len(v.s) |-> Append(path, j)])

VARIABLES top, doc, doc0, cur, steps, off, mod, phase
vars == <<top, doc, doc0, cur, steps, off, mod, phase>>

Marker == Atom("s", <<9, 9>>)   \* the value an Assign stores: no atom of a document has this name

Init == /\ top \in {"arr", "obj"} \X (0..W1)
        /\ doc = Null /\ doc0 = Null /\ cur = Node(<<>>) /\ steps = <<>> /\ off = 0 /\ mod = FALSE /\ phase = "top"

Pick == /\ phase = "top" /\ phase' = "read"
        /\ \E s \in [1..top[2] -> D2] :
             /\ (top[2] = 2 /\ ~WideSecond) => s[2] \in Small
             /\ doc' = Label(IF top[1] = "arr" THEN Arr(s) ELSE Obj(s, <<>>), <<>>)
        /\ doc0' = doc'
        /\ UNCHANGED <<top, cur, steps, off, mod>>

\* the steps offered where the chain stands
StepsAt ==
  IF cur.k = "node" THEN
    LET v == At(doc, cur.p)
        n == IF IsContainer(v) THEN Len(v.s) ELSE 0 IN
    {Key(j) : j \in 0..(IF v.t = "obj" THEN n ELSE 0)} \cup {Idx(i) : i \in (0..(IF v.t = "arr" THEN n ELSE 0)) \cup (IF v.t = "arr" THEN {-1, -(n + 1)} ELSE {})}
  ELSE IF cur.k \in {"spec", "det"} /\ off < OffDoc THEN {Key(0), Idx(0)}
  ELSE {}

Step == /\ phase = "read" /\ ~mod /\ Len(steps) < MaxSteps
        /\ \E st \in StepsAt :
             /\ cur' = Lookup(doc, cur, st)
             /\ doc' = AfterLookup(doc, cur, st)
             /\ steps' = Append(steps, st)
             /\ off' = IF cur.k = "node" THEN 0 ELSE off + 1
        /\ UNCHANGED <<top, doc0, mod, phase>>

Write == /\ phase = "read" /\ ~mod /\ steps # <<>> /\ CanAssign(doc, cur)
         /\ doc' = Assign(doc, cur, Marker)
         /\ mod' = TRUE
         /\ UNCHANGED <<top, doc0, cur, steps, off, phase>>

Next == Pick \/ Step \/ Write

Laws == phase = "read" =>
  \* the frame condition of reading
  /\ ~mod => /\ doc = doc0
             /\ ToJsonV(EmptyHeap, doc) = doc0
             /\ Size(doc) = Size(doc0)
  \* ... which an assignment through the same chain does not have
  /\ mod => /\ doc # doc0
            /\ (cur.k = "spec" => Size(doc) = Size(doc0) + 1)
            /\ (cur.k = "node" => At(doc, cur.p) = Marker)
  \* a cursor inside the document is a cell of it; a speculative null hangs off one and is none
  /\ cur.k = "node" => ValidPos(doc0, cur.p)
  /\ cur.k = "spec" => /\ ValidPos(doc0, cur.p)
                       /\ Lookup(doc0, Node(cur.p), cur.st) = cur
                       /\ Value(doc0, cur) = Null
  /\ (cur.k = "node" /\ ~mod) => ToJsonV(EmptyHeap, Value(doc, cur)) = At(doc0, cur.p)
  \* once outside, never back inside
  /\ (off > 0 => cur.k \in {"det", "error"})

EncStep(st) == [s |-> st.s, n |-> st.n,
                key |-> IF st.s = "key" THEN (IF st.n = 0 THEN "0" ELSE "?") ELSE ""]
\* the key name of step i of the chain: the label of the slot it selects (the position reached so far + slot)
RECURSIVE PosAfter(_, _, _)
PosAfter(d, sts, p) ==
  IF sts = <<>> THEN <<>>
  ELSE LET c == Lookup(d, Node(p), Head(sts)) IN
       <<p>> \o (IF c.k = "node" THEN PosAfter(d, Tail(sts), c.p) ELSE [i \in 1..(Len(sts) - 1) |-> <<>>])
StepKeys == LET ps == PosAfter(doc0, steps, <<>>) IN
  [i \in 1..Len(steps) |->
     IF steps[i].s = "key" /\ steps[i].n > 0 THEN NameStr(Append(ps[i], steps[i].n))
     ELSE IF steps[i].s = "key" THEN "0" ELSE ""]

Vec == (phase = "read" /\ ~mod /\ steps # <<>>) =>
  Emit([doc |-> EncVal(doc0),
        steps |-> [i \in 1..Len(steps) |-> [s |-> steps[i].s, n |-> steps[i].n, key |-> StepKeys[i]]],
        cls |-> cur.k, through |-> Through(doc0, cur),
        val |-> IF Value(doc0, cur) = Open THEN "open" ELSE EncVal(Value(doc0, cur)),
        exp |-> EncVal(ToJsonV(EmptyHeap, doc)),
        dev |-> ("empty-array-null" :> EncVal(ToJsonDev(EmptyHeap, doc, "empty-array-null")))])
=============================================================================
