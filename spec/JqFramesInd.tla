---------------------------- MODULE JqFramesInd ----------------------------
(* An integer-shaped abstraction of JqEval's frame and signal discipline,    *)
(* for an UNBOUNDED check with Apalache: for EVERY call-depth limit L >= 1   *)
(* the frame depth stays within 0..L and mirrors the open calls and matches  *)
(* (FrameBalance, DepthBounded), a pending `return` always has a call to     *)
(* consume it, and whenever control is back at the rule driver only the root *)
(* frame exists and no signal is pending (BaseAtRuleStart, NoEscape).  TLC   *)
(* checks the same properties on spec/JqEval.tla for small L only; here the  *)
(* order of the frames is abstracted into two counters.  JqEval refines this *)
(* module (JqEval!RefinesFrames, checked by TLC in every MC_Eval* run).      *)
(*   apalache-mc check --cinit=ConstInit --init=Init --inv=IndInv --length=0 *)
(*   apalache-mc check --cinit=ConstInit --init=IndInit --inv=IndInv --length=1 *)
EXTENDS Integers

CONSTANT
  \* @type: Int;
  L

VARIABLES
  \* @type: Int;
  depth,     \* frames above the root
  \* @type: Int;
  calls,     \* active calls on the control stack (callk items)
  \* @type: Int;
  matches,   \* active match frames on the control stack (matchk items)
  \* @type: Str;
  sig,       \* "none" | "return" | "next" | "exit" | "fault"
  \* @type: Str;
  at         \* "driver" (between rules) | "body" (inside a rule)

ConstInit == L \in Nat /\ L >= 1

Init == depth = 0 /\ calls = 0 /\ matches = 0 /\ sig = "none" /\ at = "driver"

StartRule == at = "driver" /\ sig = "none" /\ at' = "body" /\ UNCHANGED <<depth, calls, matches, sig>>
\* a rule whose pattern is a call: evalRules enters the rule and the pattern's call in one step
StartPatternRule == /\ at = "driver" /\ sig = "none" /\ depth + 1 <= L
                    /\ at' = "body" /\ depth' = depth + 1 /\ calls' = calls + 1 /\ UNCHANGED <<matches, sig>>
\* callFunction: push a frame unless the limit refuses it (a fault)
PushCall == /\ at = "body" /\ sig = "none" /\ UNCHANGED <<at, matches>>
            /\ IF depth + 1 > L THEN sig' = "fault" /\ UNCHANGED <<depth, calls>>
               ELSE depth' = depth + 1 /\ calls' = calls + 1 /\ UNCHANGED sig
PushMatch == /\ at = "body" /\ sig = "none" /\ UNCHANGED <<at, calls>>
             /\ IF depth + 1 > L THEN sig' = "fault" /\ UNCHANGED <<depth, matches>>
                ELSE depth' = depth + 1 /\ matches' = matches + 1 /\ UNCHANGED sig
\* a call or a match completes normally: its frame is popped
CompleteCall == at = "body" /\ sig = "none" /\ calls > 0 /\ depth' = depth - 1 /\ calls' = calls - 1 /\ UNCHANGED <<sig, at, matches>>
CompleteMatch == at = "body" /\ sig = "none" /\ matches > 0 /\ depth' = depth - 1 /\ matches' = matches - 1 /\ UNCHANGED <<sig, at, calls>>
\* evalStatement raises a signal; the parser guarantees that return only occurs inside a function
Raise == /\ at = "body" /\ sig = "none" /\ sig' \in {"return", "next", "exit", "fault"}
         /\ (sig' = "return" => calls > 0) /\ UNCHANGED <<depth, calls, matches, at>>
\* a signal leaves a call: the frame is popped on every path and `return` is consumed
UnwindCall == /\ at = "body" /\ sig # "none" /\ calls > 0
              /\ depth' = depth - 1 /\ calls' = calls - 1
              /\ sig' = (IF sig = "return" THEN "none" ELSE sig) /\ UNCHANGED <<at, matches>>
\* a signal leaves a match: the frame is popped, every signal passes through
UnwindMatch == /\ at = "body" /\ sig # "none" /\ matches > 0
               /\ depth' = depth - 1 /\ matches' = matches - 1 /\ UNCHANGED <<sig, at, calls>>
\* the expression body of a match fails: the fault is raised and the match frame released in one step
FaultInMatchBody == /\ at = "body" /\ sig = "none" /\ matches > 0
                    /\ depth' = depth - 1 /\ matches' = matches - 1 /\ sig' = "fault" /\ UNCHANGED <<at, calls>>
\* the rule driver consumes what reaches it (with nothing left to unwind)
EndRule == /\ at = "body" /\ calls = 0 /\ matches = 0 /\ sig \in {"none", "next", "exit", "fault"}
           /\ at' = "driver" /\ sig' = "none" /\ UNCHANGED <<depth, calls, matches>>

absvars == <<depth, calls, matches, sig, at>>
Next == StartRule \/ StartPatternRule \/ PushCall \/ PushMatch \/ CompleteCall \/ CompleteMatch \/ Raise \/ UnwindCall \/ UnwindMatch \/ FaultInMatchBody \/ EndRule

IndInv == /\ depth = calls + matches                       \* FrameBalance
          /\ calls >= 0 /\ matches >= 0 /\ depth <= L      \* DepthBounded
          /\ sig \in {"none", "return", "next", "exit", "fault"}
          /\ at \in {"driver", "body"}
          /\ (at = "driver" => depth = 0 /\ sig = "none")  \* BaseAtRuleStart, NoEscape
          /\ (sig = "return" => calls > 0)                 \* SigConsumed (return)
IndInit == /\ depth \in Int /\ calls \in Int /\ matches \in Int
           /\ sig \in {"none", "return", "next", "exit", "fault"} /\ at \in {"driver", "body"}
           /\ IndInv
==============================================================================
