--------------------------- MODULE MC_EvalLimit ---------------------------
(* C20, design level: runaway recursion of every shape ends in an ordinary  *)
(* runtime error.  Shapes: direct, direct in an assignment, mutual, through *)
(* a match block body, through a match expression body; started from a      *)
(* BEGIN rule, a pattern rule's body, a pattern expression, an END rule.    *)
(* The call-depth limit is a small stand-in (CallLimit = 3 or 4): TLC       *)
(* checks DepthBounded, FrameBalance, NoEscape, StopFreezesOutput in every  *)
(* state, that every behaviour terminates (the graph is finite and acyclic  *)
(* apart from the final stutter) and ends in "runtime" with the output of   *)
(* the statements executed before the refusal.  The behaviours for two      *)
(* values of CallLimit let the harness check that the real output is the    *)
(* model's output for SOME limit (same shape, more repetitions).            *)
EXTENDS JqEval
P == [k |-> "print"]
One == [k |-> "num", v |-> 1]
Blk(b) == [k |-> "block", b |-> b]
CallS(f) == [k |-> "callstmt", f |-> f, args |-> <<>>]
CallE(f) == [k |-> "call", f |-> f, args |-> <<>>]

Shapes == {"direct", "directval", "mutual", "matchb", "matche"}
Fns(sh) ==
  CASE sh = "direct" -> << [params |-> <<>>, body |-> Blk(<<P, CallS(1), P>>)] >>
    [] sh = "directval" -> << [params |-> <<>>, body |-> Blk(<<P, [k |-> "set", n |-> "r", e |-> CallE(1)], P>>)] >>
    [] sh = "mutual" -> << [params |-> <<>>, body |-> Blk(<<P, CallS(2), P>>)], [params |-> <<>>, body |-> Blk(<<CallS(1)>>)] >>
    [] sh = "matchb" -> << [params |-> <<>>, body |-> Blk(<<P, [k |-> "matchstmt", subj |-> One, bind |-> "z", b |-> CallS(1)], P>>)] >>
    [] sh = "matche" -> << [params |-> <<>>, body |-> Blk(<<P, [k |-> "set", n |-> "v", e |-> [k |-> "match", subj |-> One, bind |-> "z", body |-> CallE(1)]], P>>)] >>

\* "BW": from a BEGIN rule through one extra wrapper function (shifts which push -- a call
\* or a <match> scope -- is the one that hits the limit)
Contexts == {"B", "P", "PAT", "E", "BW"}
Wrapper == [params |-> <<>>, body |-> Blk(<<P, CallS(1), P>>)]
ProgFor(sh, ctx) ==
  IF ctx = "BW"
  THEN [fns |-> Fns(sh) \o <<Wrapper>>,
        rules |-> << [kind |-> "B", body |-> Blk(<<P, CallS(Len(Fns(sh)) + 1), P>>)], [kind |-> "EF", body |-> P] >>, n |-> 1]
  ELSE IF ctx = "PAT"
  THEN [fns |-> Fns(sh), rules |-> << [kind |-> "B", body |-> P], [kind |-> "P", pat |-> [k |-> "call", f |-> 1], body |-> P], [kind |-> "E", body |-> P] >>, n |-> 1]
  ELSE [fns |-> Fns(sh), rules |-> << [kind |-> ctx, body |-> Blk(<<P, CallS(1), P>>)], [kind |-> "EF", body |-> P] >>, n |-> 1]

VARIABLES shape, ctx
Init == \E sh \in Shapes, cx \in Contexts : shape = sh /\ ctx = cx /\ InitFor(ProgFor(sh, cx))
MCNext == Next /\ UNCHANGED <<shape, ctx>>

\* runaway recursion never ends well, and never in anything but a runtime error
RefusedAsRuntimeError == (outcome # "running") => outcome = "runtime"
Vec == (outcome # "running") =>
  Emit([shape |-> shape, ctx |-> ctx, limit |-> CallLimit, prog |-> prog, out |-> out, outcome |-> outcome])
=============================================================================
