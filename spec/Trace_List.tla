----------------------------- MODULE Trace_List -----------------------------
(* C15, binding B: validation of records of long operation histories that    *)
(* the real interpreter produced (one program per history; its output lists  *)
(* every statement's result and the resulting lengths).  trace.ndjson holds  *)
(* one event per line:                                                       *)
(*   {"ev":"reset","arrs":[[v..],[v..],[v..]]}   a new history starts        *)
(*   {"ev":"op","st":<statement>,"err":false,"res":<tree>,"lens":[n,n,n]}    *)
(*   {"ev":"op","st":<statement>,"err":true}      the run ended with a       *)
(*                                                runtime error here         *)
(*   {"ev":"final","arrs":[<tree>,<tree>,<tree>]} the contents now (recorded  *)
(*                                after every 16th statement and at the end) *)
(* A line is accepted iff the model's action (JqHeap.Exec) from the current  *)
(* model state explains it; the behaviour is as long as the accepted prefix. *)
(* With "shared-receiver" \in Deviations a line may also be explained by the *)
(* receiver confusion of the pinned code.                                    *)
EXTENDS JqHeap
CONSTANTS Deviations

Trace == ndJsonDeserialize("trace.ndjson")

VARIABLES i, s, lost
vars == <<i, s, lost>>

\* does the observed tree fit the expected one (Wild: not constrained)
RECURSIVE Fits(_, _)
Fits(exp, got) ==
  IF exp.t = "wild" THEN TRUE
  ELSE IF exp.t = "arr" THEN
       /\ got.t = "arr" /\ Len(got.items) = Len(exp.items)
       /\ \A k \in 1..Len(exp.items) : Fits(exp.items[k], got.items[k])
  ELSE exp = got

Empty == LS(<<ArrC(<<>>), ArrC(<<>>), ArrC(<<>>)>>, {}, {})
Init == i = 0 /\ s = Empty /\ lost = FALSE

Sems == {FALSE} \cup (IF "shared-receiver" \in Deviations THEN {TRUE} ELSE {})

Step(e) ==
  CASE e.ev = "reset" ->
         /\ s' = LS([k \in 1..3 |-> ArrC(e.arrs[k])], {}, {})
         /\ lost' = FALSE
    [] e.ev = "final" ->
         /\ lost \/ \A k \in 1..3 : Fits(LTree(s, Arr(k), TRUE, 5), e.arrs[k])
         /\ UNCHANGED <<s, lost>>
    [] e.ev = "op" ->
         \/ lost /\ UNCHANGED <<s, lost>>
         \/ /\ ~lost
            /\ \E dev \in Sems :
                 LET r == Exec(s, e.st, dev) IN
                 \/ /\ r.status = "error" /\ e.err /\ UNCHANGED <<s, lost>>
                    \* under the deviation the outcome may depend on what is not modelled: the rest of
                    \* this history is then not constrained
                    \/ /\ dev /\ r.status = "wild" /\ lost' = TRUE /\ UNCHANGED s
                    \* the statement does not fix the outcome (sort of an array of arrays, an array pushed into
                    \* itself, ++ of a container): not constrained further
                    \/ /\ r.status = "open" /\ lost' = TRUE /\ UNCHANGED s
                    \/ /\ r.status = "ok" /\ ~e.err
                       /\ Fits(LTree(r.s, r.res, ResIsReceiver(e.st), 5), e.res)
                       /\ \A k \in 1..3 : Len(r.s.h[k].items) = e.lens[k]
                       /\ s' = r.s /\ UNCHANGED lost

Next == /\ i < Len(Trace)
        /\ i' = i + 1
        /\ Step(Trace[i + 1])

\* acceptance: the longest behaviour consumed every line
Report == Emit([matched |-> TLCGet("stats").diameter - 1, total |-> Len(Trace)])
=============================================================================
