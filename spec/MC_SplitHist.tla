---------------------------- MODULE MC_SplitHist ----------------------------
(* C16: the result of s.split(sep) is a VALUE OF ITS OWN.  "Returns pieces   *)
(* ... whose sep-joined concatenation is s" is a statement about the value   *)
(* the call returned, for as long as the program holds it: no later call of  *)
(* split (or write through ANOTHER result) may change it.  MC_Methods looks  *)
(* at one call at a time; this module is the transition system over          *)
(* histories of calls:                                                       *)
(*   hist   variables a, b, c hold results; actions: v = S.split(SEP) (a     *)
(*          fresh array), v[k] = "W" (a write through one result), every     *)
(*          result observed after every step                                 *)
(*   nest   for every text over {1 , ;}: the rows-and-fields walk             *)
(*          for (row in s.split(";")) { f = row.split(",") ... }: the inner  *)
(*          calls run while the outer result is being iterated               *)
(*   tuple  [S1.split(..), S2.split(..), ..]: results held as operands of    *)
(*          one expression while the next call runs                          *)
EXTENDS JqValue
CONSTANTS MaxOps, NVars, NestLen

\* the calls of the history family: piece counts 1, 2, 3, 5, empty pieces, the empty separator
CallTexts == << <<"a,b,c", ",">>, <<"x-y", "-">>, <<"q", ",">>, <<",", ",">>, <<"p;q;r;s;t", ";">>, <<"uv", "">> >>
NCalls == Len(CallTexts)
CallS(i) == Chars(CallTexts[i][1])
CallSep(i) == Chars(CallTexts[i][2])
CallRes(i) == Split(CallS(i), CallSep(i))
Vars == 1..NVars
W == <<"W">>                                   \* the written piece

NestSymbols == {"1", ",", ";"}
Semi == <<";">>
Comma == <<",">>

VARIABLES fam,      \* "hist" | "nest" | "tuple"
          heap,     \* the arrays that exist: a sequence (id = index) of sequences of byte strings; nothing is ever freed
          env,      \* variable -> id (0: unset)
          origin,   \* variable -> index of the call whose result it holds (0: unset)
          written,  \* variable -> the set of indices written through it since the call
          hist,     \* the operations so far
          obs,      \* what a program sees after each operation: every bound variable's pieces
          a,        \* nest: the text; tuple: the calls
          done
vars == <<fam, heap, env, origin, written, hist, obs, a, done>>

Bound(v) == env[v] # 0
Snap(h, e) == [v \in Vars |-> [bound |-> e[v] # 0, pieces |-> IF e[v] # 0 THEN h[e[v]] ELSE <<>>]]

Init ==
  /\ heap = <<>> /\ env = [v \in Vars |-> 0] /\ origin = [v \in Vars |-> 0] /\ written = [v \in Vars |-> {}]
  /\ hist = <<>> /\ obs = <<>> /\ done = FALSE
  /\ \/ fam = "hist" /\ a = <<>>
     \/ fam = "nest" /\ a \in SeqsUpTo(NestSymbols, NestLen)
     \/ fam = "tuple" /\ a \in (SeqsUpTo(1..NCalls, 3) \ {<<>>})

\* v = S.split(SEP): a NEW array; whatever v held before is simply no longer reachable through v.
\* (variables are taken into use in order: a history that uses b before a is a renaming of one that does not)
Call(v, i) ==
  /\ \A w \in Vars : w < v => Bound(w)
  /\ heap' = Append(heap, CallRes(i))
  /\ env' = [env EXCEPT ![v] = Len(heap) + 1]
  /\ origin' = [origin EXCEPT ![v] = i]
  /\ written' = [written EXCEPT ![v] = {}]
  /\ hist' = Append(hist, [op |-> "call", v |-> v, s |-> CallS(i), sep |-> CallSep(i), k |-> 0])
  /\ obs' = Append(obs, Snap(heap', env'))
\* v[k] = "W" for an existing index k (0-based in the program; the first and the last piece)
Write(v, k) ==
  /\ Bound(v) /\ k \in {1, Len(heap[env[v]])}
  /\ heap' = [heap EXCEPT ![env[v]][k] = W]
  /\ written' = [written EXCEPT ![v] = @ \cup {k}]
  /\ hist' = Append(hist, [op |-> "write", v |-> v, s |-> <<>>, sep |-> <<>>, k |-> k - 1])
  /\ obs' = Append(obs, Snap(heap', env))
  /\ UNCHANGED <<env, origin>>
Step ==
  /\ fam = "hist" /\ ~done /\ Len(hist) < MaxOps
  /\ \/ \E v \in Vars, i \in 1..NCalls : Call(v, i)
     \/ \E v \in Vars, k \in 1..5 : Write(v, k)
  /\ UNCHANGED <<fam, a, done>>
Finish ==
  /\ ~done /\ done' = TRUE
  /\ fam = "hist" => Len(hist) = MaxOps              \* (every prefix is observed by obs)
  /\ UNCHANGED <<fam, heap, env, origin, written, hist, obs, a>>
Next == Step \/ Finish

\* ======================================================================
\* Laws
\* ======================================================================
\* in every reachable state: two variables never hold the same array
Fresh == \A v, w \in Vars : (v # w /\ Bound(v) /\ Bound(w)) => env[v] # env[w]
\* in every reachable state: a result is what its call returned, except at the indices written THROUGH IT;
\* an unwritten result still satisfies the statement (joins to the receiver, separator-free pieces)
Holds == \A v \in Vars : Bound(v) =>
  LET r == heap[env[v]]  i == origin[v]  s == CallS(i)  sep == CallSep(i) IN
  /\ Len(r) = Len(CallRes(i))
  /\ \A k \in 1..Len(r) : r[k] = (IF k \in written[v] THEN W ELSE CallRes(i)[k])
  /\ written[v] = {} => /\ Join(r, sep) = s
                        /\ sep # <<>> => \A k \in 1..Len(r) : ~Contains(r[k], sep)
\* every step: an array changes only by a write through the variable that holds it; arrays never disappear
Frame == [][ /\ Len(heap') >= Len(heap)
             /\ \A id \in 1..Len(heap) :
                  heap'[id] # heap[id] =>
                    /\ hist' # hist /\ hist'[Len(hist')].op = "write" /\ env[hist'[Len(hist')].v] = id
                    /\ \A k \in 1..Len(heap[id]) : heap'[id][k] # heap[id][k] => k = hist'[Len(hist')].k + 1 ]_vars
\* the observations are the history's: one per operation, the last one is the current state
ObsLaw == Len(obs) = Len(hist) /\ (obs # <<>> => obs[Len(obs)] = Snap(heap, env))

\* --- rows and fields
Rows(s) == Split(s, Semi)
Fields(s) == [i \in 1..Len(Rows(s)) |-> Split(Rows(s)[i], Comma)]
FoldCount(s) == LET F[i \in 0..Len(Rows(s))] == IF i = 0 THEN 0 ELSE F[i - 1] + Len(Fields(s)[i]) IN F[Len(Rows(s))]
NestLaws(s) ==
  /\ Join([i \in 1..Len(Rows(s)) |-> Join(Fields(s)[i], Comma)], Semi) = s          \* two levels of joins give the text back
  /\ \A i \in 1..Len(Rows(s)) : \A j \in 1..Len(Fields(s)[i]) : ~Contains(Fields(s)[i][j], Comma) /\ ~Contains(Fields(s)[i][j], Semi)
  /\ Len(Rows(s)) = Cardinality({i \in 1..Len(s) : s[i] = ";"}) + 1
  /\ FoldCount(s) = Cardinality({i \in 1..Len(s) : s[i] \in {",", ";"}}) + 1
TupleLaws(cs) == \A i \in 1..Len(cs) : Join(CallRes(cs[i]), CallSep(cs[i])) = CallS(cs[i])

Laws ==
  /\ Fresh /\ Holds /\ ObsLaw
  /\ done /\ fam = "nest" => NestLaws(a)
  /\ done /\ fam = "tuple" => TupleLaws(a)
ASSUME /\ CallRes(1) = <<Chars("a"), Chars("b"), Chars("c")>> /\ CallRes(4) = <<<<>>, <<>>>> /\ Len(CallRes(5)) = 5
       /\ CallRes(6) = <<Chars("u"), Chars("v")>> /\ CallRes(3) = <<Chars("q")>>

\* ======================================================================
\* Vectors
\* ======================================================================
Vec == done =>
  CASE fam = "hist" -> Emit([fam |-> fam, ops |-> hist, obs |-> obs])
    [] fam = "nest" -> Emit([fam |-> fam, s |-> a, rows |-> Rows(a), fields |-> Fields(a)])
    [] fam = "tuple" -> Emit([fam |-> fam, calls |-> [i \in 1..Len(a) |-> [s |-> CallS(a[i]), sep |-> CallSep(a[i])]],
                              results |-> [i \in 1..Len(a) |-> CallRes(a[i])]])
=============================================================================
