----------------------------- MODULE JqCore -----------------------------
(* An executable semantics of the CORE of jqawk, end to end: expressions     *)
(* over numbers (integers), strings, booleans and null with the operator    *)
(* tables of DESIGN.md section 3, variables and frames, assignment forms,   *)
(* user functions (by position, by value, recursion), if / while / three-   *)
(* clause for / blocks, break / continue / return / exit, print.  Where     *)
(* JqEval abstracts conditions and values into an oracle, JqCore computes   *)
(* them: it ties C05 (operators), C07 (control flow), C08 (calls) and the   *)
(* print format together on whole programs.                                 *)
(*                                                                          *)
(* It is a deterministic small-step machine over one record `st`:           *)
(*   ctl    control stack (statements, expressions to evaluate, pending     *)
(*          operator applications, loop and call markers); ctl[1] = top     *)
(*   vs     value stack of the expression evaluator; vs[1] = top            *)
(*   frames variable frames, innermost first (last = root)                  *)
(*   out    the lines printed so far                                        *)
(*   sig    pending control signal                                          *)
(*   outcome running | ok | runtime                                         *)
(*   open   the run left the part of the language this module defines       *)
(*          (value outside the integer range, a comparison the tables do    *)
(*          not fix, a caller's local captured by a callee, fuel exhausted):*)
(*          such runs are not compared                                      *)
(* A program is [fns, begin, rules, end, input]: the BEGIN body, pattern      *)
(* rules [pat (an expression or none), body] run for every element of the   *)
(* input array in source order with $ and $index bound (a rule's body runs  *)
(* iff its pattern is absent or truthy; next abandons the element; exit     *)
(* ends the run), then the END body ($ null): C02's schedule on real data.  *)
(* Used by Trace_Core.tla: generated programs are run on the real code and  *)
(* TLC re-executes them here, comparing the printed lines step by step.     *)
EXTENDS JqUtil

CONSTANTS CoreCallLimit, CoreFuel

VNum(i) == [t |-> "num", v |-> i]
VStr(s) == [t |-> "str", v |-> s]
VBool(b) == [t |-> "bool", v |-> b]
VNull == [t |-> "null"]
VUnset == [t |-> "unset"]

MaxInt == 100000000

\* ---------------------------------------------------------------- coercions (3.1)
Truthy(v) == CASE v.t = "num" -> v.v # 0
               [] v.t = "str" -> v.v # ""
               [] v.t = "bool" -> v.v
               [] v.t = "ref" -> TRUE        \* arrays and objects are always truthy
               [] OTHER -> FALSE
\* Numeric strings (3.1).  The strings of the generated programs are concatenations of letters,
\* blanks and integers: such a string is numeric iff it is an optional "-" followed by digits only.
DigitOf(c) == CASE c = "0" -> 0 [] c = "1" -> 1 [] c = "2" -> 2 [] c = "3" -> 3 [] c = "4" -> 4
                [] c = "5" -> 5 [] c = "6" -> 6 [] c = "7" -> 7 [] c = "8" -> 8 [] c = "9" -> 9 [] OTHER -> 0 - 1
RECURSIVE DigitsVal(_, _, _)
DigitsVal(s, i, acc) ==     \* -1: not all digits
  IF i > Len(s) THEN acc
  ELSE LET d == DigitOf(SubSeq(s, i, i)) IN IF d < 0 THEN 0 - 1 ELSE DigitsVal(s, i + 1, acc * 10 + d)
StrBody(s) == IF Len(s) > 0 /\ SubSeq(s, 1, 1) = "-" THEN SubSeq(s, 2, Len(s)) ELSE s
StrIsNum(s) == LET b == StrBody(s) IN Len(b) >= 1 /\ Len(b) <= 8 /\ DigitsVal(b, 1, 0) >= 0
\* digit strings too long for the integer range of this model: the run is open
StrTooLong(s) == LET b == StrBody(s) IN Len(b) > 8 /\ \A i \in 1..Len(b) : DigitOf(SubSeq(b, i, i)) >= 0
StrNum(s) == LET b == StrBody(s) v == DigitsVal(b, 1, 0) IN IF Len(s) > 0 /\ SubSeq(s, 1, 1) = "-" THEN 0 - v ELSE v
NumOf(v) == CASE v.t = "num" -> v.v
              [] v.t = "bool" -> IF v.v THEN 1 ELSE 0
              [] v.t = "str" -> IF StrIsNum(v.v) THEN StrNum(v.v) ELSE 0
              [] OTHER -> 0
\* "-0" as a string is the number negative zero: outside the model, like any negative zero
NumOpen(v) == v.t = "str" /\ (StrTooLong(v.v) \/ (StrIsNum(v.v) /\ StrNum(v.v) = 0 /\ SubSeq(v.v, 1, 1) = "-"))
Abs(i) == IF i < 0 THEN 0 - i ELSE i
NumText(i) == IF i < 0 THEN "-" \o ToString(0 - i) ELSE ToString(i)
StrOf(v) == CASE v.t = "num" -> NumText(v.v)
              [] v.t = "str" -> v.v
              [] OTHER -> ""
\* print format of a top-level value (C17)
Show(v) == CASE v.t = "num" -> NumText(v.v)
             [] v.t = "str" -> v.v
             [] v.t = "bool" -> IF v.v THEN "true" ELSE "false"
             [] v.t = "null" -> "null"
             [] OTHER -> "<unknown>"

\* truncating division and remainder (sign of the dividend), as Go / section 3.3
QuotT(a, b) == IF (a >= 0) = (b >= 0) THEN Abs(a) \div Abs(b) ELSE 0 - (Abs(a) \div Abs(b))
RemT(a, b) == a - b * QuotT(a, b)

\* result of a binary operator: [ok, v] / [ok |-> FALSE] (runtime error) / [open]
ROk(v) == [k |-> "ok", v |-> v]
RErr == [k |-> "err"]
ROpen == [k |-> "open"]

InRange(i) == Abs(i) <= MaxInt
\* the product stays within the range (TLC's integers are 32-bit: test before multiplying)
MulOk(a, b) == a = 0 \/ b = 0 \/ Abs(a) <= MaxInt \div Abs(b)

Arith(op, l, r) ==
  IF op = "+" /\ (l.t = "str" \/ r.t = "str") THEN ROk(VStr(StrOf(l) \o StrOf(r)))
  ELSE LET a == NumOf(l) b == NumOf(r) IN
    CASE op = "+" -> IF InRange(a + b) THEN ROk(VNum(a + b)) ELSE ROpen
      [] op = "-" -> IF InRange(a - b) THEN ROk(VNum(a - b)) ELSE ROpen
      \* IEEE negative zero (0 * -3, 0 / -3, -0) is outside this integer model: such runs are open
      [] op = "*" -> IF ~MulOk(a, b) \/ ((a = 0 \/ b = 0) /\ (a < 0 \/ b < 0)) THEN ROpen ELSE ROk(VNum(a * b))
      [] op = "/" -> IF b = 0 THEN RErr
                     ELSE IF RemT(a, b) # 0 \/ (a = 0 /\ b < 0) THEN ROpen ELSE ROk(VNum(QuotT(a, b)))
      [] op = "%" -> IF b = 0 THEN RErr ELSE ROk(VNum(RemT(a, b)))

\* three-way comparison (3.4): [k |-> "c", v |-> -1 | 0 | 1], or [k |-> "strneq"] for two different
\* strings (their order needs bytewise comparison, which this module lacks), or [k |-> "open"]
CmpRes(l, r) ==
  IF l.t = "unset" \/ r.t = "unset" THEN [k |-> "open"]
  ELSE IF l.t = "null" /\ r.t = "null" THEN [k |-> "c", v |-> 0]
  ELSE IF l.t = "null" THEN [k |-> "c", v |-> 0 - 1]
  ELSE IF r.t = "null" THEN [k |-> "c", v |-> 1]
  ELSE IF l.t = "ref" \/ r.t = "ref" THEN [k |-> "err"]     \* comparing an array or object: runtime error
  ELSE IF l.t = "str" /\ r.t = "str" THEN (IF l.v = r.v THEN [k |-> "c", v |-> 0] ELSE [k |-> "strneq"])
  ELSE LET a == NumOf(l) b == NumOf(r) IN [k |-> "c", v |-> IF a < b THEN 0 - 1 ELSE IF a > b THEN 1 ELSE 0]

Compare(op, l, r) ==
  LET c == CmpRes(l, r) IN
  IF c.k = "open" THEN ROpen
  ELSE IF c.k = "err" THEN RErr
  ELSE IF c.k = "strneq" THEN (IF op = "==" THEN ROk(VBool(FALSE)) ELSE IF op = "!=" THEN ROk(VBool(TRUE)) ELSE ROpen)
  ELSE ROk(VBool(CASE op = "<" -> c.v < 0 [] op = "<=" -> c.v <= 0 [] op = ">" -> c.v > 0
                    [] op = ">=" -> c.v >= 0 [] op = "==" -> c.v = 0 [] op = "!=" -> c.v # 0))

BinOp(op, l, r) ==
  IF NumOpen(l) \/ NumOpen(r) THEN ROpen
  ELSE IF op \in {"+", "-", "*", "/", "%"} THEN
     (IF (l.t = "unset" \/ r.t = "unset") THEN ROpen ELSE Arith(op, l, r))
  ELSE Compare(op, l, r)

UnOp(op, v) ==
  CASE op = "!" -> ROk(VBool(~Truthy(v)))
    [] op = "-" -> IF NumOf(v) = 0 THEN ROpen ELSE ROk(VNum(0 - NumOf(v)))
    [] op = "+" -> ROk(VNum(NumOf(v)))

\* ---------------------------------------------------------------- frames
FrameOf(fr, name) ==
  LET S == {i \in 1..Len(fr) : name \in DOMAIN fr[i]} IN IF S = {} THEN 0 ELSE SetMin(S)
Lookup(fr, name) == LET i == FrameOf(fr, name) IN IF i = 0 THEN VUnset ELSE fr[i][name]
\* A match expression runs its selected arm in a frame of its own (marked with the pseudo-variable
\* "<match>"); it belongs to the function activation around it.  A name is captured when it is found
\* beyond the innermost function frame and is not a global (dynamic scoping, which the statement leaves open).
MatchMark == "<match>"
IsMatchFrame(f) == MatchMark \in DOMAIN f
OwnTop(fr) == SetMin({j \in 1..Len(fr) : ~IsMatchFrame(fr[j])})
Captured(fr, name) == LET i == FrameOf(fr, name) IN i # 0 /\ i > OwnTop(fr) /\ i # Len(fr)
\* names bound by a pattern hold the matched values: scalars copied, arrays and objects shared (as for
\* parameters and loop variables); assigning to such a name changes nothing else
WithVar(f, name, v) == [x \in (DOMAIN f) \cup {name} |-> IF x = name THEN v ELSE f[x]]
\* reading a name that exists nowhere creates it, unset, in the current frame
Touch(fr, name) == IF FrameOf(fr, name) = 0 THEN [fr EXCEPT ![1] = WithVar(fr[1], name, VUnset)] ELSE fr
Assign(fr, name, v) ==
  LET i == IF FrameOf(fr, name) = 0 THEN 1 ELSE FrameOf(fr, name) IN [fr EXCEPT ![i] = WithVar(fr[i], name, v)]

\* ---------------------------------------------------------------- containers (heap)
\* Arrays and objects live in a heap and are handled by reference ([t |-> "ref", id]); scalars
\* are copied.  Object keys come from a fixed universe listed in bytewise order (the order in
\* which objects are printed and iterated); a key outside it makes the run open.
VRef(id) == [t |-> "ref", id |-> id]
CArr(items) == [t |-> "arr", items |-> items]
CObj(m) == [t |-> "obj", m |-> m]
KeyUniverse == <<"", "0", "1", "2", "3", "4", "5", "6", "7", "8", "9", "Zq", "a", "ab", "b", "bc", "c", "k", "n", "x y">>
InKeys(k) == \E i \in 1..Len(KeyUniverse) : KeyUniverse[i] = k
KeyRank(k) == CHOOSE i \in 1..Len(KeyUniverse) : KeyUniverse[i] = k
SortedKeys(m) == LET ks == DOMAIN m IN
  [i \in 1..Cardinality(ks) |-> CHOOSE k \in ks : Cardinality({j \in ks : KeyRank(j) < KeyRank(k)}) = i - 1]
KeyOf(v) == IF v.t = "num" THEN NumText(v.v) ELSE v.v
MethodNames == {"length", "push", "pop", "popfirst", "contains", "sort", "pluck", "split", "upper", "lower", "floor", "ceil", "round"}
MapWith(m, k, v) == [x \in (DOMAIN m) \cup {k} |-> IF x = k THEN v ELSE m[x]]

RECURSIVE JoinC(_)
JoinC(ss) == IF ss = <<>> THEN "" ELSE IF Len(ss) = 1 THEN ss[1] ELSE ss[1] \o ", " \o JoinC(Tail(ss))
Quoted(x) == "\"" \o x \o "\""

\* the print format (C17): nested strings quoted; arrays [a, b]; objects {"k": v} in key order
RECURSIVE Pretty(_, _, _, _)
Pretty(h, v, nested, fuel) ==
  IF fuel = 0 THEN "<deep>"
  ELSE CASE v.t = "str" -> IF nested THEN Quoted(v.v) ELSE v.v
         [] v.t = "ref" ->
              LET c == h[v.id] IN
              IF c.t = "arr" THEN "[" \o JoinC([i \in 1..Len(c.items) |-> Pretty(h, c.items[i], TRUE, fuel - 1)]) \o "]"
              ELSE LET ks == SortedKeys(c.m) IN
                   "{" \o JoinC([i \in 1..Len(ks) |-> Quoted(ks[i]) \o ": " \o Pretty(h, c.m[ks[i]], TRUE, fuel - 1)]) \o "}"
         [] OTHER -> Show(v)
RECURSIVE Deep(_, _, _)
Deep(h, v, fuel) ==     \* nesting beyond the fuel (or a cycle): the run is open
  IF v.t # "ref" THEN FALSE
  ELSE IF fuel = 0 THEN TRUE
  ELSE LET c == h[v.id] IN
       IF c.t = "arr" THEN \E i \in 1..Len(c.items) : Deep(h, c.items[i], fuel - 1)
       ELSE \E k \in DOMAIN c.m : Deep(h, c.m[k], fuel - 1)

\* ---------------------------------------------------------------- the machine
VARIABLE st

E(e) == [t |-> "e", e |-> e]
S(s) == [t |-> "s", s |-> s]
NoStmt == [k |-> "none"]

\* the driver item at the bottom of the control stack: ph "begin" | "rules" | "end"; ei, ri: the
\* element (1-based) and rule to run next
Drv(ph, ei, ri) == [t |-> "drv", ph |-> ph, ei |-> ei, ri |-> ri]
InitState(p) ==
  [prog |-> p, ctl |-> <<S(p.begin), Drv("begin", 0, 0)>>, vs |-> <<>>, frames |-> << <<>> >>,
   out |-> <<>>, sig |-> "none", outcome |-> "running", open |-> FALSE, why |-> "", steps |-> 0, depth |-> 0,
   dollar |-> VNull, index |-> VUnset, heap |-> <<>>]

\* an element of the input as a value: a scalar, or a flat object (allocated in the heap)
InScalar(x) == IF x.k = "num" THEN VNum(x.v) ELSE IF x.k = "str" THEN VStr(x.v) ELSE IF x.k = "bool" THEN VBool(x.v) ELSE VNull
BindDollar(s, x) ==
  IF x.k = "obj"
  THEN LET m == [key \in {x.keys[i] : i \in 1..Len(x.keys)} |->
                   InScalar(x.vals[CHOOSE i \in 1..Len(x.keys) : x.keys[i] = key])]
       IN [s EXCEPT !.heap = Append(s.heap, CObj(m)), !.dollar = VRef(Len(s.heap) + 1)]
  ELSE [s EXCEPT !.dollar = InScalar(x)]

BaseOf(s, n) == IF n = "$" THEN s.dollar ELSE Lookup(s.frames, n)
SetBase(s, n, v) == IF n = "$" THEN [s EXCEPT !.dollar = v] ELSE [s EXCEPT !.frames = Assign(s.frames, n, v)]
\* an unset variable that is indexed becomes an empty array (numeric key) or an empty object
Materialise(s, n, key) ==
  IF n # "$" /\ Lookup(s.frames, n).t = "unset"
  THEN LET s1 == [s EXCEPT !.heap = Append(s.heap, IF key.t = "num" THEN CArr(<<>>) ELSE CObj(<<>>))]
       IN SetBase(s1, n, VRef(Len(s1.heap)))
  ELSE s
ArrIdx(len, i) == IF i < 0 THEN len + i ELSE i

\* n[key] read: [k |-> "ok", v, s] | [k |-> "err", s] | [k |-> "open", s]
IdxRead(s0, n, key) ==
  LET s == Materialise(s0, n, key)
      b == BaseOf(s, n)
  IN IF b.t # "ref" THEN [k |-> "open", s |-> s]
     ELSE LET c == s.heap[b.id] IN
       IF c.t = "arr"
       THEN IF key.t # "num" THEN [k |-> "open", s |-> s]
            ELSE LET i == ArrIdx(Len(c.items), key.v) IN
                 IF i < 0 THEN [k |-> "err", s |-> s]                     \* before the start: error
                 ELSE IF i >= Len(c.items) THEN [k |-> "ok", v |-> VNull, s |-> s]   \* past the end: null, nothing changes
                 ELSE [k |-> "ok", v |-> c.items[i + 1], s |-> s]
       ELSE IF key.t \notin {"num", "str"} THEN [k |-> "err", s |-> s]
       ELSE LET kk == KeyOf(key) IN
            IF kk \in DOMAIN c.m THEN [k |-> "ok", v |-> c.m[kk], s |-> s]
            ELSE IF kk \in MethodNames \/ ~InKeys(kk) THEN [k |-> "open", s |-> s]
            ELSE [k |-> "ok", v |-> VNull, s |-> s]

\* n[key] = v: [k |-> "ok", s] | [k |-> "err", s] | [k |-> "open", s]
IdxWrite(s0, n, key, v) ==
  LET s == Materialise(s0, n, key)
      b == BaseOf(s, n)
  IN IF b.t \in {"num", "bool", "null"} THEN [k |-> "err", s |-> s]       \* member store on a scalar
     ELSE IF b.t # "ref" THEN [k |-> "open", s |-> s]
     ELSE LET c == s.heap[b.id] IN
       IF c.t = "arr"
       THEN IF key.t # "num" THEN [k |-> "err", s |-> s]
            ELSE LET len == Len(c.items)
                     i == ArrIdx(len, key.v)
                 IN IF i < 0 THEN [k |-> "err", s |-> s]
                    ELSE IF i > 200 THEN [k |-> "open", s |-> s]
                    ELSE LET padded == IF i >= len THEN c.items \o [j \in 1..(i - len + 1) |-> VNull] ELSE c.items
                         IN [k |-> "ok", s |-> [s EXCEPT !.heap[b.id] = CArr([padded EXCEPT ![i + 1] = v])]]
       ELSE IF key.t \notin {"num", "str"} THEN [k |-> "err", s |-> s]
       ELSE LET kk == KeyOf(key) IN
            IF kk \in MethodNames \/ ~InKeys(kk) THEN [k |-> "open", s |-> s]
            ELSE [k |-> "ok", s |-> [s EXCEPT !.heap[b.id] = CObj(MapWith(c.m, kk, v))]]

Fn(s, name) == LET i == CHOOSE j \in 1..Len(s.prog.fns) : s.prog.fns[j].name = name IN s.prog.fns[i]
HasFn(s, name) == \E j \in 1..Len(s.prog.fns) : s.prog.fns[j].name = name

\* the n topmost values, oldest first
TopN(vs, n) == [i \in 1..n |-> vs[n + 1 - i]]
DropN(vs, n) == SubSeq(vs, n + 1, Len(vs))

Fault(s, rest) == [s EXCEPT !.ctl = rest, !.sig = "fault"]
Opened(s, w) == [s EXCEPT !.open = TRUE, !.why = w, !.outcome = "ok", !.ctl = <<>>]
\* s with the open flag raised when cond holds (the run goes on; its output is no longer compared)
Mark(s, cond, w) == IF cond /\ ~s.open THEN [s EXCEPT !.open = TRUE, !.why = w] ELSE s

RECURSIVE JoinSp(_)
JoinSp(ss) == IF ss = <<>> THEN "" ELSE IF Len(ss) = 1 THEN ss[1] ELSE ss[1] \o " " \o JoinSp(Tail(ss))

\* --- match (C19): patterns are a literal (equal by the comparison of 3.4), a name (matches anything and
\* binds it), or an array pattern (an array of exactly that length whose elements match, binding recursively).
\* Alternatives and cases are tried in order; a comparison that fails (a container against a scalar
\* literal) is a fault.  Results: [k |-> "yes", b |-> <<name, value>> pairs] |
\* [k |-> "no"] | [k |-> "err"] | [k |-> "open"]
LitVal(x) == IF x.k = "num" THEN VNum(x.v) ELSE IF x.k = "str" THEN VStr(x.v) ELSE IF x.k = "bool" THEN VBool(x.v) ELSE VNull
RECURSIVE PatMatch(_, _, _), PatItems(_, _, _, _, _)
PatMatch(h, v, p) ==
  CASE p.k = "pid" -> [k |-> "yes", b |-> <<<<p.n, v>>>>]
    [] p.k = "plit" ->
         LET r == IF NumOpen(v) THEN ROpen ELSE Compare("==", v, LitVal(p.v)) IN
         IF r.k = "open" THEN [k |-> "open"] ELSE IF r.k = "err" THEN [k |-> "err"]
         ELSE IF r.v.v THEN [k |-> "yes", b |-> <<>>] ELSE [k |-> "no"]
    [] p.k = "parr" ->
         IF v.t # "ref" THEN [k |-> "no"]
         ELSE IF h[v.id].t # "arr" \/ Len(h[v.id].items) # Len(p.items) THEN [k |-> "no"]
         ELSE PatItems(h, h[v.id].items, p.items, 1, <<>>)
PatItems(h, items, pats, i, acc) ==
  IF i > Len(pats) THEN [k |-> "yes", b |-> acc]
  ELSE LET r == PatMatch(h, items[i], pats[i]) IN
       IF r.k = "yes" THEN PatItems(h, items, pats, i + 1, acc \o r.b) ELSE r
RECURSIVE AltMatch(_, _, _, _), CaseSel(_, _, _, _)
AltMatch(h, v, pats, j) ==
  IF j > Len(pats) THEN [k |-> "no"]
  ELSE LET r == PatMatch(h, v, pats[j]) IN IF r.k = "no" THEN AltMatch(h, v, pats, j + 1) ELSE r
CaseSel(h, v, cases, i) ==
  IF i > Len(cases) THEN [k |-> "none"]
  ELSE LET r == AltMatch(h, v, cases[i].pats, 1) IN
       IF r.k = "no" THEN CaseSel(h, v, cases, i + 1)
       ELSE IF r.k = "yes" THEN [k |-> "yes", i |-> i, b |-> r.b] ELSE [k |-> r.k]
\* the frame of the selected arm: the bound names (a later binding of the same name wins) and the mark
MatchFrame(b) ==
  LET names == {b[i][1] : i \in 1..Len(b)} IN
  [x \in names \cup {MatchMark} |->
     IF x = MatchMark THEN VNull ELSE b[SetMax({i \in 1..Len(b) : b[i][1] = x})][2]]

\* --- one step with no signal pending: dispatch on the top of the control stack
StepExpr(s, e, rest) ==
  CASE e.k = "num" -> [s EXCEPT !.ctl = rest, !.vs = <<VNum(e.v)>> \o s.vs]
    [] e.k = "str" -> [s EXCEPT !.ctl = rest, !.vs = <<VStr(e.v)>> \o s.vs]
    [] e.k = "bool" -> [s EXCEPT !.ctl = rest, !.vs = <<VBool(e.v)>> \o s.vs]
    [] e.k = "null" -> [s EXCEPT !.ctl = rest, !.vs = <<VNull>> \o s.vs]
    [] e.k = "dollar" -> [s EXCEPT !.ctl = rest, !.vs = <<s.dollar>> \o s.vs]
    [] e.k = "index" -> Mark([s EXCEPT !.ctl = rest, !.vs = <<s.index>> \o s.vs], s.index.t = "unset", "$index outside an array round")
    [] e.k = "var" -> Mark([s EXCEPT !.ctl = rest, !.vs = <<Lookup(s.frames, e.n)>> \o s.vs,
                                      !.frames = Touch(s.frames, e.n)], Captured(s.frames, e.n), "captured " \o e.n)
    [] e.k = "bin" ->
         IF e.op = "&&" THEN [s EXCEPT !.ctl = <<E(e.l), [t |-> "and", r |-> e.r]>> \o rest]
         ELSE IF e.op = "||" THEN [s EXCEPT !.ctl = <<E(e.l), [t |-> "or", r |-> e.r]>> \o rest]
         ELSE [s EXCEPT !.ctl = <<E(e.l), E(e.r), [t |-> "bin", op |-> e.op]>> \o rest]
    [] e.k = "un" -> [s EXCEPT !.ctl = <<E(e.e), [t |-> "un", op |-> e.op]>> \o rest]
    [] e.k = "call" ->
         \* callee first (a name), then the arguments left to right, then the call
         [s EXCEPT !.ctl = [i \in 1..Len(e.args) |-> E(e.args[i])] \o <<[t |-> "call", f |-> e.f, n |-> Len(e.args)]>> \o rest]
    [] e.k = "asg" ->
         \* a op= b means a = a op b: the left side is read first
         IF e.op = "=" THEN [s EXCEPT !.ctl = <<E(e.e), [t |-> "store", n |-> e.n]>> \o rest]
         ELSE [s EXCEPT !.ctl = <<E([k |-> "var", n |-> e.n]), E(e.e), [t |-> "bin", op |-> SubSeq(e.op, 1, 1)], [t |-> "store", n |-> e.n]>> \o rest]
    [] e.k = "arr" ->     \* an array literal: elements left to right, scalars copied
         [s EXCEPT !.ctl = [i \in 1..Len(e.items) |-> E(e.items[i])] \o <<[t |-> "mkarr", n |-> Len(e.items)]>> \o rest]
    [] e.k = "obj" ->
         [s EXCEPT !.ctl = [i \in 1..Len(e.vals) |-> E(e.vals[i])] \o <<[t |-> "mkobj", keys |-> e.keys]>> \o rest]
    [] e.k = "is" -> [s EXCEPT !.ctl = <<E(e.e), [t |-> "is", ty |-> e.ty]>> \o rest]
    [] e.k = "match" -> [s EXCEPT !.ctl = <<E(e.e), [t |-> "matchsel", cases |-> e.cases]>> \o rest]
    [] e.k = "idx" -> [s EXCEPT !.ctl = <<E(e.key), [t |-> "idxread", n |-> e.n]>> \o rest]
    [] e.k = "asgidx" ->
         \* n[key] = e: the target (and its key) first, then the value; n[key] op= e is n[key] = n[key] op e
         IF e.op = "=" THEN [s EXCEPT !.ctl = <<E(e.key), [t |-> "idxprobe", n |-> e.n], E(e.e), [t |-> "idxwrite", n |-> e.n]>> \o rest]
         ELSE [s EXCEPT !.ctl = <<E(e.key), E([k |-> "idx", n |-> e.n, key |-> e.key]), E(e.e),
                                  [t |-> "bin", op |-> SubSeq(e.op, 1, 1)], [t |-> "idxwrite", n |-> e.n]>> \o rest]
    [] e.k = "incidx" -> [s EXCEPT !.ctl = <<E(e.key), [t |-> "incidx", n |-> e.n, op |-> e.op, post |-> e.post]>> \o rest]
    [] e.k = "mcall" ->
         [s EXCEPT !.ctl = [i \in 1..Len(e.args) |-> E(e.args[i])] \o <<[t |-> "mcall", n |-> e.n, m |-> e.m, na |-> Len(e.args)]>> \o rest]
    [] e.k = "inc" ->
         LET old == NumOf(Lookup(s.frames, e.n))
             new == IF e.op = "++" THEN old + 1 ELSE old - 1
         IN Mark([s EXCEPT !.ctl = rest, !.frames = Assign(s.frames, e.n, VNum(new)),
                           !.vs = <<VNum(IF e.post THEN old ELSE new)>> \o s.vs],
                 Captured(s.frames, e.n) \/ ~InRange(new) \/ NumOpen(Lookup(s.frames, e.n)), "inc " \o e.n)

\* for (v1[, v2] in n): the loop variables are found or created first, then the iterable is read;
\* an array is iterated over its length at loop start, an object over its keys in key order
StrChars(str) == [i \in 1..Len(str) |-> SubSeq(str, i, i)]
ForInEnter(s, x, rest) ==
  LET fr1 == Touch(s.frames, x.v1)
      fr2 == IF x.v2 = "" THEN fr1 ELSE Touch(fr1, x.v2)
      s1 == Mark([s EXCEPT !.frames = fr2], Captured(s.frames, x.v1) \/ (x.v2 # "" /\ Captured(s.frames, x.v2)), "captured loop variable")
      it == BaseOf(s1, x.n)
      item(kind, id, keys) == [t |-> "loop", kind |-> "forin", fk |-> kind, id |-> id, keys |-> keys, i |-> 0,
                               v1 |-> x.v1, v2 |-> x.v2, b |-> x.b, ph |-> "test", base |-> Len(s.vs)]
  IN IF it.t = "ref" THEN
        LET c == s1.heap[it.id] IN
        IF c.t = "arr" THEN [s1 EXCEPT !.ctl = <<item("arr", it.id, [j \in 1..Len(c.items) |-> ""])>> \o rest]
        ELSE [s1 EXCEPT !.ctl = <<item("obj", it.id, SortedKeys(c.m))>> \o rest]
     ELSE IF it.t = "str" THEN [s1 EXCEPT !.ctl = <<item("str", 0, StrChars(it.v))>> \o rest]
     ELSE IF it.t = "unset" THEN Opened(s1, "for-in over an unset variable")
     ELSE Fault(s1, rest)                 \* a number, a boolean, null: not iterable

ForInStep(s, it, rest) ==
  IF it.i >= Len(it.keys) THEN [s EXCEPT !.ctl = rest]
  ELSE LET c == IF it.fk = "str" THEN CArr(<<>>) ELSE s.heap[it.id]
           gone == it.fk = "arr" /\ it.i >= Len(c.items)       \* the array shrank meanwhile
           first == CASE it.fk = "arr" -> IF gone THEN VNull ELSE c.items[it.i + 1]
                      [] it.fk = "obj" -> VStr(it.keys[it.i + 1])
                      [] it.fk = "str" -> VStr(it.keys[it.i + 1])
           second == CASE it.fk = "obj" -> c.m[it.keys[it.i + 1]]
                       [] OTHER -> VNum(it.i)
           fr1 == Assign(s.frames, it.v1, first)
           fr2 == IF it.v2 = "" THEN fr1 ELSE Assign(fr1, it.v2, second)
       IN Mark([s EXCEPT !.frames = fr2, !.ctl = <<S(it.b), [it EXCEPT !.i = it.i + 1]>> \o rest], gone, "array shrank during for-in")

StepStmt(s, x, rest) ==
  CASE x.k = "print" ->
         [s EXCEPT !.ctl = [i \in 1..Len(x.args) |-> E(x.args[i])] \o <<[t |-> "print", n |-> Len(x.args)]>> \o rest]
    [] x.k = "expr" -> [s EXCEPT !.ctl = <<E(x.e), [t |-> "drop"]>> \o rest]
    [] x.k = "block" -> [s EXCEPT !.ctl = [i \in 1..Len(x.b) |-> S(x.b[i])] \o rest]
    [] x.k = "if" -> [s EXCEPT !.ctl = <<E(x.c), [t |-> "if", th |-> x.th, el |-> x.el]>> \o rest]
    [] x.k = "while" -> [s EXCEPT !.ctl = <<[t |-> "loop", kind |-> "while", c |-> x.c, post |-> x.c, b |-> x.b, ph |-> "test", base |-> Len(s.vs)]>> \o rest]
    [] x.k = "for" -> [s EXCEPT !.ctl = <<E(x.init), [t |-> "hdrdrop"], [t |-> "loop", kind |-> "for", c |-> x.c, post |-> x.post, b |-> x.b, ph |-> "test", base |-> Len(s.vs)]>> \o rest]
    [] x.k = "forin" -> ForInEnter(s, x, rest)
    [] x.k \in {"break", "continue", "exit", "next"} -> [s EXCEPT !.ctl = rest, !.sig = x.k]
    [] x.k = "return" ->
         IF x.e.k = "none" THEN [s EXCEPT !.ctl = rest, !.sig = "return", !.vs = <<VNull>> \o s.vs]
         ELSE [s EXCEPT !.ctl = <<E(x.e), [t |-> "ret"]>> \o rest]

\* EvalProgram / evalPatternRules / evalRules over one array value
DrvStep(s, it) ==
  LET n == Len(s.prog.input) nr == Len(s.prog.rules) IN
  CASE it.ph = "begin" -> [s EXCEPT !.ctl = <<Drv("rules", 1, 1)>>]
    [] it.ph = "rules" /\ it.ei > n -> [s EXCEPT !.ctl = <<S(s.prog.end), Drv("end", 0, 0)>>, !.dollar = VNull]
    [] it.ph = "rules" /\ it.ri > nr -> [s EXCEPT !.ctl = <<Drv("rules", it.ei + 1, 1)>>]
    [] it.ph = "rules" ->
         LET r == s.prog.rules[it.ri]
             \* $ is bound once per element: what one rule does to it is seen by the next
             s1 == IF it.ri = 1 THEN [BindDollar(s, s.prog.input[it.ei]) EXCEPT !.index = VNum(it.ei - 1)] ELSE s
         IN IF r.pat.k = "none" THEN [s1 EXCEPT !.ctl = <<S(r.body), Drv("rules", it.ei, it.ri + 1)>>]
            ELSE [s1 EXCEPT !.ctl = <<E(r.pat), [t |-> "pat", body |-> r.body], Drv("rules", it.ei, it.ri + 1)>>]
    [] it.ph = "end" -> [s EXCEPT !.ctl = <<>>, !.outcome = "ok"]

\* n.m(args) for the array / object / string methods of the core: push, pop, length
MethodCall(s, it, rest) ==
  LET args == TopN(s.vs, it.na)
      vs0 == DropN(s.vs, it.na)
      \* the callee is looked up before the arguments: an unset receiver becomes an empty object
      s1 == IF it.n # "$" /\ Lookup(s.frames, it.n).t = "unset" THEN Materialise(s, it.n, VStr(it.m)) ELSE s
      b == BaseOf(s1, it.n)
      ok(s2, v) == [s2 EXCEPT !.ctl = rest, !.vs = <<v>> \o vs0]
      err == Fault([s1 EXCEPT !.vs = vs0], rest)
  IN IF it.m \notin {"push", "pop", "length"} THEN Opened(s, "method " \o it.m)
     ELSE IF \E i \in 1..it.na : args[i].t = "unset" THEN Opened(s, "unset argument")
     ELSE IF b.t = "ref" THEN
        LET c == s1.heap[b.id] IN
        IF c.t = "arr" THEN
           CASE it.m = "length" -> ok(s1, VNum(Len(c.items)))
             [] it.m = "push" -> IF it.na # 1 THEN err
                                 ELSE ok([s1 EXCEPT !.heap[b.id] = CArr(Append(c.items, args[1]))], b)
             [] it.m = "pop" -> IF it.na # 0 THEN err
                                ELSE IF c.items = <<>> THEN ok(s1, VNull)
                                ELSE ok([s1 EXCEPT !.heap[b.id] = CArr(SubSeq(c.items, 1, Len(c.items) - 1))], c.items[Len(c.items)])
        ELSE IF it.m = "length" THEN ok(s1, VNum(Cardinality(DOMAIN c.m))) ELSE err   \* objects have no push / pop
     ELSE IF b.t = "str" THEN (IF it.m = "length" THEN ok(s1, VNum(Len(b.v))) ELSE err)
     ELSE err      \* numbers, booleans, null have none of these methods: calling nothing is an error

StepOp(s, it, rest) ==
  CASE it.t = "bin" ->
         LET r == BinOp(it.op, s.vs[2], s.vs[1]) IN
         IF r.k = "ok" THEN [s EXCEPT !.ctl = rest, !.vs = <<r.v>> \o DropN(s.vs, 2)]
         ELSE IF r.k = "err" THEN Fault([s EXCEPT !.vs = DropN(s.vs, 2)], rest)
         ELSE Opened(s, "binop " \o it.op)
    [] it.t = "un" ->
         LET r == UnOp(it.op, s.vs[1]) IN
         IF s.vs[1].t = "unset" \/ NumOpen(s.vs[1]) \/ r.k = "open" THEN Opened(s, "unop " \o it.op) ELSE [s EXCEPT !.ctl = rest, !.vs = <<r.v>> \o Tail(s.vs)]
    [] it.t = "and" ->     \* the right operand is evaluated only when needed; the result is a boolean
         IF Truthy(s.vs[1]) THEN [s EXCEPT !.ctl = <<E(it.r), [t |-> "tobool"]>> \o rest, !.vs = Tail(s.vs)]
         ELSE [s EXCEPT !.ctl = rest, !.vs = <<VBool(FALSE)>> \o Tail(s.vs)]
    [] it.t = "or" ->
         IF Truthy(s.vs[1]) THEN [s EXCEPT !.ctl = rest, !.vs = <<VBool(TRUE)>> \o Tail(s.vs)]
         ELSE [s EXCEPT !.ctl = <<E(it.r), [t |-> "tobool"]>> \o rest, !.vs = Tail(s.vs)]
    [] it.t = "is" ->      \* 3.6: the kind of the value against a type name; any other name: false
         LET v == s.vs[1]
             r == CASE it.ty = "null" -> v.t = "null"
                    [] it.ty = "string" -> v.t = "str"
                    [] it.ty = "bool" -> v.t = "bool"
                    [] it.ty = "number" -> v.t = "num"
                    [] it.ty = "array" -> v.t = "ref" /\ s.heap[v.id].t = "arr"
                    [] it.ty = "object" -> v.t = "ref" /\ s.heap[v.id].t = "obj"
                    [] it.ty = "unknown" -> v.t = "unset"
                    [] OTHER -> FALSE          \* function, regex (no such values in the core), names that are no type
         IN [s EXCEPT !.ctl = rest, !.vs = <<VBool(r)>> \o Tail(s.vs)]
    [] it.t = "tobool" -> [s EXCEPT !.ctl = rest, !.vs = <<VBool(Truthy(s.vs[1]))>> \o Tail(s.vs)]
    [] it.t \in {"drop", "hdrdrop"} -> [s EXCEPT !.ctl = rest, !.vs = Tail(s.vs)]
    [] it.t = "store" ->    \* the value of an assignment is the assigned value; scalars are copied
         Mark([s EXCEPT !.ctl = rest, !.frames = Assign(s.frames, it.n, s.vs[1])],
              Captured(s.frames, it.n) \/ s.vs[1].t = "unset", "store " \o it.n)
    [] it.t = "print" ->
         LET args == TopN(s.vs, it.n) IN
         Mark([s EXCEPT !.ctl = rest, !.vs = DropN(s.vs, it.n),
                        !.out = Append(s.out, JoinSp([i \in 1..it.n |-> Pretty(s.heap, args[i], FALSE, 5)]))],
              \E i \in 1..it.n : args[i].t = "unset" \/ Deep(s.heap, args[i], 4), "print unset / too deep")
    [] it.t = "if" ->
         LET c == Truthy(s.vs[1]) IN
         [s EXCEPT !.vs = Tail(s.vs),
                   !.ctl = IF c THEN <<S(it.th)>> \o rest ELSE IF it.el.k # "none" THEN <<S(it.el)>> \o rest ELSE rest]
    [] it.t = "ret" -> [s EXCEPT !.ctl = rest, !.sig = "return"]    \* the value stays on the stack
    [] it.t = "call" ->
         \* bind by position (missing: null, surplus: evaluated and ignored); refuse beyond the limit
         IF ~HasFn(s, it.f) THEN Opened(s, "nofn")
         ELSE LET f == Fn(s, it.f)
                  args == TopN(s.vs, it.n)
                  fr == [x \in {f.params[i] : i \in 1..Len(f.params)} |->
                           LET i == CHOOSE j \in 1..Len(f.params) : f.params[j] = x
                           IN IF i <= it.n THEN args[i] ELSE VNull]
              IN IF s.depth + 1 > CoreCallLimit THEN Fault([s EXCEPT !.vs = DropN(s.vs, it.n)], rest)
                 ELSE Mark([s EXCEPT !.vs = DropN(s.vs, it.n), !.frames = <<fr>> \o s.frames, !.depth = s.depth + 1,
                                     !.ctl = <<S(f.body), [t |-> "callk", base |-> Len(s.vs) - it.n]>> \o rest],
                           \E i \in 1..it.n : args[i].t = "unset", "unset argument")
    [] it.t = "matchsel" ->
         \* the subject is on the stack; the first case with a matching alternative is selected, its arm runs in
         \* a frame holding the bindings (refused beyond the depth limit); no case: null
         LET v == s.vs[1]
             r == CaseSel(s.heap, v, it.cases, 1)
         IN IF v.t = "unset" \/ r.k = "open" THEN Opened(s, "match subject")
            ELSE IF r.k = "err" THEN Fault([s EXCEPT !.vs = Tail(s.vs)], rest)
            ELSE IF r.k = "none" THEN [s EXCEPT !.ctl = rest, !.vs = <<VNull>> \o Tail(s.vs)]
            ELSE IF s.depth + 1 > CoreCallLimit THEN Fault([s EXCEPT !.vs = Tail(s.vs)], rest)
            ELSE LET c == it.cases[r.i] IN
                 [s EXCEPT !.vs = Tail(s.vs), !.frames = <<MatchFrame(r.b)>> \o s.frames, !.depth = s.depth + 1,
                           !.ctl = (IF c.bk = "expr" THEN <<E(c.b), [t |-> "matchk", bk |-> "expr"]>>
                                    ELSE <<S(c.b), [t |-> "matchk", bk |-> "block"]>>) \o rest]
    [] it.t = "matchk" ->   \* the arm is done: an expression arm yields its value, a block arm null
         [s EXCEPT !.ctl = rest, !.frames = Tail(s.frames), !.depth = s.depth - 1,
                   !.vs = IF it.bk = "expr" THEN s.vs ELSE <<VNull>> \o s.vs]
    [] it.t = "callk" ->    \* the body fell off its end: the call yields null
         [s EXCEPT !.ctl = rest, !.frames = Tail(s.frames), !.depth = s.depth - 1, !.vs = <<VNull>> \o s.vs]
    [] it.t = "loop" /\ it.kind = "forin" -> ForInStep(s, it, rest)
    [] it.t = "loop" ->
         IF it.ph = "test" THEN [s EXCEPT !.ctl = <<E(it.c), [t |-> "looptest"]>> \o s.ctl]
         ELSE [s EXCEPT !.ctl = <<E(it.post), [t |-> "hdrdrop"], [it EXCEPT !.ph = "test"]>> \o rest]
    [] it.t = "looptest" ->
         \* rest[1] is the loop item
         IF Truthy(s.vs[1])
         THEN [s EXCEPT !.vs = Tail(s.vs),
                        !.ctl = <<S(rest[1].b), [rest[1] EXCEPT !.ph = IF rest[1].kind = "for" THEN "post" ELSE "test"]>> \o Tail(rest)]
         ELSE [s EXCEPT !.vs = Tail(s.vs), !.ctl = Tail(rest)]
    [] it.t = "mkarr" ->
         [s EXCEPT !.ctl = rest, !.heap = Append(s.heap, CArr(TopN(s.vs, it.n))),
                   !.vs = <<VRef(Len(s.heap) + 1)>> \o DropN(s.vs, it.n)]
    [] it.t = "mkobj" ->
         LET n == Len(it.keys)
             vals == TopN(s.vs, n)
             m == [key \in {it.keys[i] : i \in 1..n} |-> vals[SetMax({i \in 1..n : it.keys[i] = key})]]
         IN Mark([s EXCEPT !.ctl = rest, !.heap = Append(s.heap, CObj(m)), !.vs = <<VRef(Len(s.heap) + 1)>> \o DropN(s.vs, n)],
                 \E i \in 1..n : ~InKeys(it.keys[i]) \/ it.keys[i] \in MethodNames, "object literal key")
    [] it.t = "idxread" ->
         LET r == IdxRead(s, it.n, s.vs[1]) IN
         IF r.k = "ok" THEN Mark([r.s EXCEPT !.ctl = rest, !.vs = <<r.v>> \o Tail(s.vs)], it.n # "$" /\ Captured(s.frames, it.n), "captured " \o it.n)
         ELSE IF r.k = "err" THEN Fault([r.s EXCEPT !.vs = Tail(s.vs)], rest)
         ELSE Opened(s, "index read " \o it.n)
    [] it.t = "idxprobe" ->     \* the target n[key] is looked up (not yet written) before the value is evaluated:
                                \* an unset n becomes a container here, and the look-up's own faults come first
         LET key == s.vs[1]
             s1 == Materialise(s, it.n, key)
             b == BaseOf(s1, it.n)
         IN IF b.t = "ref"
            THEN LET c == s1.heap[b.id] IN
                 IF key.t \notin {"num", "str"} THEN Fault([s1 EXCEPT !.vs = Tail(s.vs)], rest)
                 ELSE IF c.t = "arr" /\ key.t = "num" /\ ArrIdx(Len(c.items), key.v) < 0 THEN Fault([s1 EXCEPT !.vs = Tail(s.vs)], rest)
                 ELSE [s1 EXCEPT !.ctl = rest]
            ELSE IF key.t \notin {"num", "str"} THEN Opened(s, "index target on a scalar")
            ELSE [s1 EXCEPT !.ctl = rest]
    [] it.t = "idxwrite" ->     \* vs: value on top, key below; the value of the assignment is the value
         LET r == IdxWrite(s, it.n, s.vs[2], s.vs[1]) IN
         IF s.vs[1].t = "unset" THEN Opened(s, "store unset")
         ELSE IF r.k = "ok" THEN Mark([r.s EXCEPT !.ctl = rest, !.vs = <<s.vs[1]>> \o DropN(s.vs, 2)],
                                      it.n # "$" /\ Captured(s.frames, it.n), "captured " \o it.n)
         ELSE IF r.k = "err" THEN Fault([r.s EXCEPT !.vs = DropN(s.vs, 2)], rest)
         ELSE Opened(s, "index write " \o it.n)
    [] it.t = "incidx" ->       \* n[key]++ : a missing element counts as 0 and is created
         LET key == s.vs[1]
             r == IdxRead(s, it.n, key)
         IN IF r.k = "open" THEN Opened(s, "index read " \o it.n)
            ELSE IF r.k = "err" THEN Fault([r.s EXCEPT !.vs = Tail(s.vs)], rest)
            ELSE IF r.v.t \in {"unset", "ref"} \/ NumOpen(r.v) THEN Opened(s, "inc of a container")
            ELSE LET old == NumOf(r.v)
                     new == IF it.op = "++" THEN old + 1 ELSE old - 1
                     w == IdxWrite(r.s, it.n, key, VNum(new))
                 IN IF w.k = "ok" THEN Mark([w.s EXCEPT !.ctl = rest, !.vs = <<VNum(IF it.post THEN old ELSE new)>> \o Tail(s.vs)],
                                            ~InRange(new) \/ (it.n # "$" /\ Captured(s.frames, it.n)), "incidx")
                    ELSE IF w.k = "err" THEN Fault([w.s EXCEPT !.vs = Tail(s.vs)], rest)
                    ELSE Opened(s, "index write " \o it.n)
    [] it.t = "mcall" -> MethodCall(s, it, rest)
    [] it.t = "pat" ->     \* evalRules: the body runs iff the pattern is truthy
         IF Truthy(s.vs[1]) THEN [s EXCEPT !.vs = Tail(s.vs), !.ctl = <<S(it.body)>> \o rest]
         ELSE [s EXCEPT !.vs = Tail(s.vs), !.ctl = rest]
    [] it.t = "drv" -> DrvStep(s, it)

\* --- a signal is pending: unwind to its consumer
StepSignal(s, it, rest) ==
  \* (a break / continue raised inside an expression - a match arm - abandons the operands collected so far)
  CASE it.t = "loop" /\ s.sig = "break" -> [s EXCEPT !.ctl = rest, !.sig = "none", !.vs = SubSeq(s.vs, Len(s.vs) - it.base + 1, Len(s.vs))]
    [] it.t = "loop" /\ s.sig = "continue" ->    \* the loop item stays: post / test next
         [s EXCEPT !.sig = "none", !.vs = SubSeq(s.vs, Len(s.vs) - it.base + 1, Len(s.vs))]
    [] it.t = "matchk" -> [s EXCEPT !.ctl = rest, !.frames = Tail(s.frames), !.depth = s.depth - 1]   \* every signal leaves the arm's frame
    \* a signal raised while a clause of a loop's header is evaluated (its condition, the init or post clause of
    \* a for) leaves that loop too: a break / continue there belongs to the loop around it
    [] it.t \in {"looptest", "hdrdrop"} -> [s EXCEPT !.ctl = Tail(rest)]
    [] it.t = "callk" /\ s.sig = "return" ->
         \* the returned value is on top of the value stack; values pushed by the callee's
         \* unfinished expressions below it are discarded
         [s EXCEPT !.ctl = rest, !.sig = "none", !.frames = Tail(s.frames), !.depth = s.depth - 1,
                   !.vs = <<s.vs[1]>> \o SubSeq(s.vs, Len(s.vs) - it.base + 1, Len(s.vs))]
    [] it.t = "callk" -> [s EXCEPT !.ctl = rest, !.frames = Tail(s.frames), !.depth = s.depth - 1]
    [] it.t = "drv" ->
         \* next: abandons the remaining rules for this element (in BEGIN / END: ends that rule);
         \* exit: ends the run successfully; a fault: runtime error
         IF s.sig = "next"
         THEN [s EXCEPT !.sig = "none", !.vs = <<>>,
                        !.ctl = IF it.ph = "rules" THEN <<Drv("rules", it.ei, Len(s.prog.rules) + 1)>> ELSE <<it>>]
         ELSE [s EXCEPT !.ctl = <<>>, !.sig = "none", !.outcome = IF s.sig = "fault" THEN "runtime" ELSE "ok"]
    [] OTHER -> [s EXCEPT !.ctl = rest]

StepRec(s) ==
  LET it == s.ctl[1] rest == Tail(s.ctl) s1 == [s EXCEPT !.steps = s.steps + 1] IN
  IF s.steps >= CoreFuel THEN Opened(s, "fuel")
  ELSE IF s.sig # "none" THEN StepSignal(s1, it, rest)
  ELSE IF it.t = "e" THEN StepExpr(s1, it.e, rest)
  ELSE IF it.t = "s" THEN StepStmt(s1, it.s, rest)
  ELSE StepOp(s1, it, rest)

CoreNext == \/ st.outcome = "running" /\ st' = StepRec(st)
            \/ st.outcome # "running" /\ UNCHANGED st

\* ---------------------------------------------------------------- laws of the machine
\* the value stack holds exactly what the pending operator applications need: it is
\* empty whenever a statement starts at the base of a frame
CoreTypeOK ==
  /\ st.outcome \in {"running", "ok", "runtime"}
  /\ st.sig \in {"none", "break", "continue", "return", "exit", "next", "fault"}
  /\ Len(st.frames) = 1 + st.depth
  /\ st.depth <= CoreCallLimit
CoreDepthMirrorsCalls == st.outcome = "running" =>
  st.depth = Cardinality({i \in 1..Len(st.ctl) : st.ctl[i].t \in {"callk", "matchk"}})
CoreEndsClean == (st.outcome # "running" /\ ~st.open) => (st.sig = "none" /\ Len(st.frames) = 1)
=============================================================================
