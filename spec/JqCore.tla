----------------------------- MODULE JqCore -----------------------------
(* An executable semantics of the CORE of jqawk, end to end: expressions     *)
(* over numbers (integers), strings, booleans and null with the operator    *)
(* tables of DESIGN.md section 3, variables and frames, assignment forms,   *)
(* user functions (by position, by value, recursion), if / while / three-   *)
(* clause for / blocks, break / continue / return / exit, print.  Where     *)
(* JqEval abstracts conditions and values into an oracle, JqCore computes   *)
(* them: it ties C05 (operators), C07 (control flow), C08 (calls) and the   *)
(* print format together on whole programs.                                 *)
(*                                                                          *)
(* It is a deterministic small-step machine over one record `st`:           *)
(*   ctl    control stack (statements, expressions to evaluate, pending     *)
(*          operator applications, loop and call markers); ctl[1] = top     *)
(*   vs     value stack of the expression evaluator; vs[1] = top            *)
(*   frames variable frames, innermost first (last = root)                  *)
(*   out    the lines printed so far                                        *)
(*   sig    pending control signal                                          *)
(*   outcome running | ok | runtime                                         *)
(*   open   the run left the part of the language this module defines       *)
(*          (value outside the integer range, a comparison the tables do    *)
(*          not fix, a caller's local captured by a callee, fuel exhausted):*)
(*          such runs are not compared                                      *)
(* A program is [fns, begin, rules, end, input]: the BEGIN body, pattern      *)
(* rules [pat (an expression or none), body] run for every element of the   *)
(* input array in source order with $ and $index bound (a rule's body runs  *)
(* iff its pattern is absent or truthy; next abandons the element; exit     *)
(* ends the run), then the END body ($ null): C02's schedule on real data.  *)
(* Used by Trace_Core.tla: generated programs are run on the real code and  *)
(* TLC re-executes them here, comparing the printed lines step by step.     *)
EXTENDS JqUtil

CONSTANTS CoreCallLimit, CoreFuel

VNum(i) == [t |-> "num", v |-> i]
VStr(s) == [t |-> "str", v |-> s]
VBool(b) == [t |-> "bool", v |-> b]
VNull == [t |-> "null"]
VUnset == [t |-> "unset"]

MaxInt == 100000000

\* ---------------------------------------------------------------- coercions (3.1)
Truthy(v) == CASE v.t = "num" -> v.v # 0
               [] v.t = "str" -> v.v # ""
               [] v.t = "bool" -> v.v
               [] OTHER -> FALSE
\* Numeric strings (3.1).  The strings of the generated programs are concatenations of letters,
\* blanks and integers: such a string is numeric iff it is an optional "-" followed by digits only.
DigitOf(c) == CASE c = "0" -> 0 [] c = "1" -> 1 [] c = "2" -> 2 [] c = "3" -> 3 [] c = "4" -> 4
                [] c = "5" -> 5 [] c = "6" -> 6 [] c = "7" -> 7 [] c = "8" -> 8 [] c = "9" -> 9 [] OTHER -> 0 - 1
RECURSIVE DigitsVal(_, _, _)
DigitsVal(s, i, acc) ==     \* -1: not all digits
  IF i > Len(s) THEN acc
  ELSE LET d == DigitOf(SubSeq(s, i, i)) IN IF d < 0 THEN 0 - 1 ELSE DigitsVal(s, i + 1, acc * 10 + d)
StrBody(s) == IF Len(s) > 0 /\ SubSeq(s, 1, 1) = "-" THEN SubSeq(s, 2, Len(s)) ELSE s
StrIsNum(s) == LET b == StrBody(s) IN Len(b) >= 1 /\ Len(b) <= 8 /\ DigitsVal(b, 1, 0) >= 0
\* digit strings too long for the integer range of this model: the run is open
StrTooLong(s) == LET b == StrBody(s) IN Len(b) > 8 /\ \A i \in 1..Len(b) : DigitOf(SubSeq(b, i, i)) >= 0
StrNum(s) == LET b == StrBody(s) v == DigitsVal(b, 1, 0) IN IF Len(s) > 0 /\ SubSeq(s, 1, 1) = "-" THEN 0 - v ELSE v
NumOf(v) == CASE v.t = "num" -> v.v
              [] v.t = "bool" -> IF v.v THEN 1 ELSE 0
              [] v.t = "str" -> IF StrIsNum(v.v) THEN StrNum(v.v) ELSE 0
              [] OTHER -> 0
\* "-0" as a string is the number negative zero: outside the model, like any negative zero
NumOpen(v) == v.t = "str" /\ (StrTooLong(v.v) \/ (StrIsNum(v.v) /\ StrNum(v.v) = 0 /\ SubSeq(v.v, 1, 1) = "-"))
Abs(i) == IF i < 0 THEN 0 - i ELSE i
NumText(i) == IF i < 0 THEN "-" \o ToString(0 - i) ELSE ToString(i)
StrOf(v) == CASE v.t = "num" -> NumText(v.v)
              [] v.t = "str" -> v.v
              [] OTHER -> ""
\* print format of a top-level value (C17)
Show(v) == CASE v.t = "num" -> NumText(v.v)
             [] v.t = "str" -> v.v
             [] v.t = "bool" -> IF v.v THEN "true" ELSE "false"
             [] v.t = "null" -> "null"
             [] OTHER -> "<unknown>"

\* truncating division and remainder (sign of the dividend), as Go / section 3.3
QuotT(a, b) == IF (a >= 0) = (b >= 0) THEN Abs(a) \div Abs(b) ELSE 0 - (Abs(a) \div Abs(b))
RemT(a, b) == a - b * QuotT(a, b)

\* result of a binary operator: [ok, v] / [ok |-> FALSE] (runtime error) / [open]
ROk(v) == [k |-> "ok", v |-> v]
RErr == [k |-> "err"]
ROpen == [k |-> "open"]

InRange(i) == Abs(i) <= MaxInt
\* the product stays within the range (TLC's integers are 32-bit: test before multiplying)
MulOk(a, b) == a = 0 \/ b = 0 \/ Abs(a) <= MaxInt \div Abs(b)

Arith(op, l, r) ==
  IF op = "+" /\ (l.t = "str" \/ r.t = "str") THEN ROk(VStr(StrOf(l) \o StrOf(r)))
  ELSE LET a == NumOf(l) b == NumOf(r) IN
    CASE op = "+" -> IF InRange(a + b) THEN ROk(VNum(a + b)) ELSE ROpen
      [] op = "-" -> IF InRange(a - b) THEN ROk(VNum(a - b)) ELSE ROpen
      \* IEEE negative zero (0 * -3, 0 / -3, -0) is outside this integer model: such runs are open
      [] op = "*" -> IF ~MulOk(a, b) \/ ((a = 0 \/ b = 0) /\ (a < 0 \/ b < 0)) THEN ROpen ELSE ROk(VNum(a * b))
      [] op = "/" -> IF b = 0 THEN RErr
                     ELSE IF RemT(a, b) # 0 \/ (a = 0 /\ b < 0) THEN ROpen ELSE ROk(VNum(QuotT(a, b)))
      [] op = "%" -> IF b = 0 THEN RErr ELSE ROk(VNum(RemT(a, b)))

\* three-way comparison (3.4): [k |-> "c", v |-> -1 | 0 | 1], or [k |-> "strneq"] for two different
\* strings (their order needs bytewise comparison, which this module lacks), or [k |-> "open"]
CmpRes(l, r) ==
  IF l.t = "unset" \/ r.t = "unset" THEN [k |-> "open"]
  ELSE IF l.t = "null" /\ r.t = "null" THEN [k |-> "c", v |-> 0]
  ELSE IF l.t = "null" THEN [k |-> "c", v |-> 0 - 1]
  ELSE IF r.t = "null" THEN [k |-> "c", v |-> 1]
  ELSE IF l.t = "str" /\ r.t = "str" THEN (IF l.v = r.v THEN [k |-> "c", v |-> 0] ELSE [k |-> "strneq"])
  ELSE LET a == NumOf(l) b == NumOf(r) IN [k |-> "c", v |-> IF a < b THEN 0 - 1 ELSE IF a > b THEN 1 ELSE 0]

Compare(op, l, r) ==
  LET c == CmpRes(l, r) IN
  IF c.k = "open" THEN ROpen
  ELSE IF c.k = "strneq" THEN (IF op = "==" THEN ROk(VBool(FALSE)) ELSE IF op = "!=" THEN ROk(VBool(TRUE)) ELSE ROpen)
  ELSE ROk(VBool(CASE op = "<" -> c.v < 0 [] op = "<=" -> c.v <= 0 [] op = ">" -> c.v > 0
                    [] op = ">=" -> c.v >= 0 [] op = "==" -> c.v = 0 [] op = "!=" -> c.v # 0))

BinOp(op, l, r) ==
  IF NumOpen(l) \/ NumOpen(r) THEN ROpen
  ELSE IF op \in {"+", "-", "*", "/", "%"} THEN
     (IF (l.t = "unset" \/ r.t = "unset") THEN ROpen ELSE Arith(op, l, r))
  ELSE Compare(op, l, r)

UnOp(op, v) ==
  CASE op = "!" -> ROk(VBool(~Truthy(v)))
    [] op = "-" -> IF NumOf(v) = 0 THEN ROpen ELSE ROk(VNum(0 - NumOf(v)))
    [] op = "+" -> ROk(VNum(NumOf(v)))

\* ---------------------------------------------------------------- frames
FrameOf(fr, name) ==
  LET S == {i \in 1..Len(fr) : name \in DOMAIN fr[i]} IN IF S = {} THEN 0 ELSE SetMin(S)
Lookup(fr, name) == LET i == FrameOf(fr, name) IN IF i = 0 THEN VUnset ELSE fr[i][name]
Captured(fr, name) == LET i == FrameOf(fr, name) IN i # 0 /\ i # 1 /\ i # Len(fr)
WithVar(f, name, v) == [x \in (DOMAIN f) \cup {name} |-> IF x = name THEN v ELSE f[x]]
\* reading a name that exists nowhere creates it, unset, in the current frame
Touch(fr, name) == IF FrameOf(fr, name) = 0 THEN [fr EXCEPT ![1] = WithVar(fr[1], name, VUnset)] ELSE fr
Assign(fr, name, v) ==
  LET i == IF FrameOf(fr, name) = 0 THEN 1 ELSE FrameOf(fr, name) IN [fr EXCEPT ![i] = WithVar(fr[i], name, v)]

\* ---------------------------------------------------------------- the machine
VARIABLE st

E(e) == [t |-> "e", e |-> e]
S(s) == [t |-> "s", s |-> s]
NoStmt == [k |-> "none"]

\* the driver item at the bottom of the control stack: ph "begin" | "rules" | "end"; ei, ri: the
\* element (1-based) and rule to run next
Drv(ph, ei, ri) == [t |-> "drv", ph |-> ph, ei |-> ei, ri |-> ri]
InitState(p) ==
  [prog |-> p, ctl |-> <<S(p.begin), Drv("begin", 0, 0)>>, vs |-> <<>>, frames |-> << <<>> >>,
   out |-> <<>>, sig |-> "none", outcome |-> "running", open |-> FALSE, why |-> "", steps |-> 0, depth |-> 0,
   dollar |-> VNull, index |-> VUnset]

\* a JSON scalar of the input as a value
InVal(x) == IF x.k = "num" THEN VNum(x.v) ELSE IF x.k = "str" THEN VStr(x.v) ELSE IF x.k = "bool" THEN VBool(x.v) ELSE VNull

Fn(s, name) == LET i == CHOOSE j \in 1..Len(s.prog.fns) : s.prog.fns[j].name = name IN s.prog.fns[i]
HasFn(s, name) == \E j \in 1..Len(s.prog.fns) : s.prog.fns[j].name = name

\* the n topmost values, oldest first
TopN(vs, n) == [i \in 1..n |-> vs[n + 1 - i]]
DropN(vs, n) == SubSeq(vs, n + 1, Len(vs))

Fault(s, rest) == [s EXCEPT !.ctl = rest, !.sig = "fault"]
Opened(s, w) == [s EXCEPT !.open = TRUE, !.why = w, !.outcome = "ok", !.ctl = <<>>]
\* s with the open flag raised when cond holds (the run goes on; its output is no longer compared)
Mark(s, cond, w) == IF cond /\ ~s.open THEN [s EXCEPT !.open = TRUE, !.why = w] ELSE s

RECURSIVE JoinSp(_)
JoinSp(ss) == IF ss = <<>> THEN "" ELSE IF Len(ss) = 1 THEN ss[1] ELSE ss[1] \o " " \o JoinSp(Tail(ss))

\* --- one step with no signal pending: dispatch on the top of the control stack
StepExpr(s, e, rest) ==
  CASE e.k = "num" -> [s EXCEPT !.ctl = rest, !.vs = <<VNum(e.v)>> \o s.vs]
    [] e.k = "str" -> [s EXCEPT !.ctl = rest, !.vs = <<VStr(e.v)>> \o s.vs]
    [] e.k = "bool" -> [s EXCEPT !.ctl = rest, !.vs = <<VBool(e.v)>> \o s.vs]
    [] e.k = "null" -> [s EXCEPT !.ctl = rest, !.vs = <<VNull>> \o s.vs]
    [] e.k = "dollar" -> [s EXCEPT !.ctl = rest, !.vs = <<s.dollar>> \o s.vs]
    [] e.k = "index" -> Mark([s EXCEPT !.ctl = rest, !.vs = <<s.index>> \o s.vs], s.index.t = "unset", "$index outside an array round")
    [] e.k = "var" -> Mark([s EXCEPT !.ctl = rest, !.vs = <<Lookup(s.frames, e.n)>> \o s.vs,
                                      !.frames = Touch(s.frames, e.n)], Captured(s.frames, e.n), "captured " \o e.n)
    [] e.k = "bin" ->
         IF e.op = "&&" THEN [s EXCEPT !.ctl = <<E(e.l), [t |-> "and", r |-> e.r]>> \o rest]
         ELSE IF e.op = "||" THEN [s EXCEPT !.ctl = <<E(e.l), [t |-> "or", r |-> e.r]>> \o rest]
         ELSE [s EXCEPT !.ctl = <<E(e.l), E(e.r), [t |-> "bin", op |-> e.op]>> \o rest]
    [] e.k = "un" -> [s EXCEPT !.ctl = <<E(e.e), [t |-> "un", op |-> e.op]>> \o rest]
    [] e.k = "call" ->
         \* callee first (a name), then the arguments left to right, then the call
         [s EXCEPT !.ctl = [i \in 1..Len(e.args) |-> E(e.args[i])] \o <<[t |-> "call", f |-> e.f, n |-> Len(e.args)]>> \o rest]
    [] e.k = "asg" ->
         \* a op= b means a = a op b: the left side is read first
         IF e.op = "=" THEN [s EXCEPT !.ctl = <<E(e.e), [t |-> "store", n |-> e.n]>> \o rest]
         ELSE [s EXCEPT !.ctl = <<E([k |-> "var", n |-> e.n]), E(e.e), [t |-> "bin", op |-> SubSeq(e.op, 1, 1)], [t |-> "store", n |-> e.n]>> \o rest]
    [] e.k = "inc" ->
         LET old == NumOf(Lookup(s.frames, e.n))
             new == IF e.op = "++" THEN old + 1 ELSE old - 1
         IN Mark([s EXCEPT !.ctl = rest, !.frames = Assign(s.frames, e.n, VNum(new)),
                           !.vs = <<VNum(IF e.post THEN old ELSE new)>> \o s.vs],
                 Captured(s.frames, e.n) \/ ~InRange(new) \/ NumOpen(Lookup(s.frames, e.n)), "inc " \o e.n)

StepStmt(s, x, rest) ==
  CASE x.k = "print" ->
         [s EXCEPT !.ctl = [i \in 1..Len(x.args) |-> E(x.args[i])] \o <<[t |-> "print", n |-> Len(x.args)]>> \o rest]
    [] x.k = "expr" -> [s EXCEPT !.ctl = <<E(x.e), [t |-> "drop"]>> \o rest]
    [] x.k = "block" -> [s EXCEPT !.ctl = [i \in 1..Len(x.b) |-> S(x.b[i])] \o rest]
    [] x.k = "if" -> [s EXCEPT !.ctl = <<E(x.c), [t |-> "if", th |-> x.th, el |-> x.el]>> \o rest]
    [] x.k = "while" -> [s EXCEPT !.ctl = <<[t |-> "loop", kind |-> "while", c |-> x.c, post |-> x.c, b |-> x.b, ph |-> "test"]>> \o rest]
    [] x.k = "for" -> [s EXCEPT !.ctl = <<E(x.init), [t |-> "drop"], [t |-> "loop", kind |-> "for", c |-> x.c, post |-> x.post, b |-> x.b, ph |-> "test"]>> \o rest]
    [] x.k \in {"break", "continue", "exit", "next"} -> [s EXCEPT !.ctl = rest, !.sig = x.k]
    [] x.k = "return" ->
         IF x.e.k = "none" THEN [s EXCEPT !.ctl = rest, !.sig = "return", !.vs = <<VNull>> \o s.vs]
         ELSE [s EXCEPT !.ctl = <<E(x.e), [t |-> "ret"]>> \o rest]

\* EvalProgram / evalPatternRules / evalRules over one array value
DrvStep(s, it) ==
  LET n == Len(s.prog.input) nr == Len(s.prog.rules) IN
  CASE it.ph = "begin" -> [s EXCEPT !.ctl = <<Drv("rules", 1, 1)>>]
    [] it.ph = "rules" /\ it.ei > n -> [s EXCEPT !.ctl = <<S(s.prog.end), Drv("end", 0, 0)>>, !.dollar = VNull]
    [] it.ph = "rules" /\ it.ri > nr -> [s EXCEPT !.ctl = <<Drv("rules", it.ei + 1, 1)>>]
    [] it.ph = "rules" ->
         LET r == s.prog.rules[it.ri]
             s1 == [s EXCEPT !.dollar = InVal(s.prog.input[it.ei]), !.index = VNum(it.ei - 1)]
         IN IF r.pat.k = "none" THEN [s1 EXCEPT !.ctl = <<S(r.body), Drv("rules", it.ei, it.ri + 1)>>]
            ELSE [s1 EXCEPT !.ctl = <<E(r.pat), [t |-> "pat", body |-> r.body], Drv("rules", it.ei, it.ri + 1)>>]
    [] it.ph = "end" -> [s EXCEPT !.ctl = <<>>, !.outcome = "ok"]

StepOp(s, it, rest) ==
  CASE it.t = "bin" ->
         LET r == BinOp(it.op, s.vs[2], s.vs[1]) IN
         IF r.k = "ok" THEN [s EXCEPT !.ctl = rest, !.vs = <<r.v>> \o DropN(s.vs, 2)]
         ELSE IF r.k = "err" THEN Fault([s EXCEPT !.vs = DropN(s.vs, 2)], rest)
         ELSE Opened(s, "binop " \o it.op)
    [] it.t = "un" ->
         LET r == UnOp(it.op, s.vs[1]) IN
         IF s.vs[1].t = "unset" \/ NumOpen(s.vs[1]) \/ r.k = "open" THEN Opened(s, "unop " \o it.op) ELSE [s EXCEPT !.ctl = rest, !.vs = <<r.v>> \o Tail(s.vs)]
    [] it.t = "and" ->     \* the right operand is evaluated only when needed; the result is a boolean
         IF Truthy(s.vs[1]) THEN [s EXCEPT !.ctl = <<E(it.r), [t |-> "tobool"]>> \o rest, !.vs = Tail(s.vs)]
         ELSE [s EXCEPT !.ctl = rest, !.vs = <<VBool(FALSE)>> \o Tail(s.vs)]
    [] it.t = "or" ->
         IF Truthy(s.vs[1]) THEN [s EXCEPT !.ctl = rest, !.vs = <<VBool(TRUE)>> \o Tail(s.vs)]
         ELSE [s EXCEPT !.ctl = <<E(it.r), [t |-> "tobool"]>> \o rest, !.vs = Tail(s.vs)]
    [] it.t = "tobool" -> [s EXCEPT !.ctl = rest, !.vs = <<VBool(Truthy(s.vs[1]))>> \o Tail(s.vs)]
    [] it.t = "drop" -> [s EXCEPT !.ctl = rest, !.vs = Tail(s.vs)]
    [] it.t = "store" ->    \* the value of an assignment is the assigned value; scalars are copied
         Mark([s EXCEPT !.ctl = rest, !.frames = Assign(s.frames, it.n, s.vs[1])],
              Captured(s.frames, it.n) \/ s.vs[1].t = "unset", "store " \o it.n)
    [] it.t = "print" ->
         LET args == TopN(s.vs, it.n) IN
         Mark([s EXCEPT !.ctl = rest, !.vs = DropN(s.vs, it.n),
                        !.out = Append(s.out, JoinSp([i \in 1..it.n |-> Show(args[i])]))],
              \E i \in 1..it.n : args[i].t = "unset", "print unset")
    [] it.t = "if" ->
         LET c == Truthy(s.vs[1]) IN
         [s EXCEPT !.vs = Tail(s.vs),
                   !.ctl = IF c THEN <<S(it.th)>> \o rest ELSE IF it.el.k # "none" THEN <<S(it.el)>> \o rest ELSE rest]
    [] it.t = "ret" -> [s EXCEPT !.ctl = rest, !.sig = "return"]    \* the value stays on the stack
    [] it.t = "call" ->
         \* bind by position (missing: null, surplus: evaluated and ignored); refuse beyond the limit
         IF ~HasFn(s, it.f) THEN Opened(s, "nofn")
         ELSE LET f == Fn(s, it.f)
                  args == TopN(s.vs, it.n)
                  fr == [x \in {f.params[i] : i \in 1..Len(f.params)} |->
                           LET i == CHOOSE j \in 1..Len(f.params) : f.params[j] = x
                           IN IF i <= it.n THEN args[i] ELSE VNull]
              IN IF s.depth + 1 > CoreCallLimit THEN Fault([s EXCEPT !.vs = DropN(s.vs, it.n)], rest)
                 ELSE Mark([s EXCEPT !.vs = DropN(s.vs, it.n), !.frames = <<fr>> \o s.frames, !.depth = s.depth + 1,
                                     !.ctl = <<S(f.body), [t |-> "callk", base |-> Len(s.vs) - it.n]>> \o rest],
                           \E i \in 1..it.n : args[i].t = "unset", "unset argument")
    [] it.t = "callk" ->    \* the body fell off its end: the call yields null
         [s EXCEPT !.ctl = rest, !.frames = Tail(s.frames), !.depth = s.depth - 1, !.vs = <<VNull>> \o s.vs]
    [] it.t = "loop" ->
         IF it.ph = "test" THEN [s EXCEPT !.ctl = <<E(it.c), [t |-> "looptest"]>> \o s.ctl]
         ELSE [s EXCEPT !.ctl = <<E(it.post), [t |-> "drop"], [it EXCEPT !.ph = "test"]>> \o rest]
    [] it.t = "looptest" ->
         \* rest[1] is the loop item
         IF Truthy(s.vs[1])
         THEN [s EXCEPT !.vs = Tail(s.vs),
                        !.ctl = <<S(rest[1].b), [rest[1] EXCEPT !.ph = IF rest[1].kind = "for" THEN "post" ELSE "test"]>> \o Tail(rest)]
         ELSE [s EXCEPT !.vs = Tail(s.vs), !.ctl = Tail(rest)]
    [] it.t = "pat" ->     \* evalRules: the body runs iff the pattern is truthy
         IF Truthy(s.vs[1]) THEN [s EXCEPT !.vs = Tail(s.vs), !.ctl = <<S(it.body)>> \o rest]
         ELSE [s EXCEPT !.vs = Tail(s.vs), !.ctl = rest]
    [] it.t = "drv" -> DrvStep(s, it)

\* --- a signal is pending: unwind to its consumer
StepSignal(s, it, rest) ==
  CASE it.t = "loop" /\ s.sig = "break" -> [s EXCEPT !.ctl = rest, !.sig = "none"]
    [] it.t = "loop" /\ s.sig = "continue" -> [s EXCEPT !.sig = "none"]   \* the loop item stays: post / test next
    [] it.t = "callk" /\ s.sig = "return" ->
         \* the returned value is on top of the value stack; values pushed by the callee's
         \* unfinished expressions below it are discarded
         [s EXCEPT !.ctl = rest, !.sig = "none", !.frames = Tail(s.frames), !.depth = s.depth - 1,
                   !.vs = <<s.vs[1]>> \o SubSeq(s.vs, Len(s.vs) - it.base + 1, Len(s.vs))]
    [] it.t = "callk" -> [s EXCEPT !.ctl = rest, !.frames = Tail(s.frames), !.depth = s.depth - 1]
    [] it.t = "drv" ->
         \* next: abandons the remaining rules for this element (in BEGIN / END: ends that rule);
         \* exit: ends the run successfully; a fault: runtime error
         IF s.sig = "next"
         THEN [s EXCEPT !.sig = "none", !.vs = <<>>,
                        !.ctl = IF it.ph = "rules" THEN <<Drv("rules", it.ei, Len(s.prog.rules) + 1)>> ELSE <<it>>]
         ELSE [s EXCEPT !.ctl = <<>>, !.sig = "none", !.outcome = IF s.sig = "fault" THEN "runtime" ELSE "ok"]
    [] OTHER -> [s EXCEPT !.ctl = rest]

StepRec(s) ==
  LET it == s.ctl[1] rest == Tail(s.ctl) s1 == [s EXCEPT !.steps = s.steps + 1] IN
  IF s.steps >= CoreFuel THEN Opened(s, "fuel")
  ELSE IF s.sig # "none" THEN StepSignal(s1, it, rest)
  ELSE IF it.t = "e" THEN StepExpr(s1, it.e, rest)
  ELSE IF it.t = "s" THEN StepStmt(s1, it.s, rest)
  ELSE StepOp(s1, it, rest)

CoreNext == \/ st.outcome = "running" /\ st' = StepRec(st)
            \/ st.outcome # "running" /\ UNCHANGED st

\* ---------------------------------------------------------------- laws of the machine
\* the value stack holds exactly what the pending operator applications need: it is
\* empty whenever a statement starts at the base of a frame
CoreTypeOK ==
  /\ st.outcome \in {"running", "ok", "runtime"}
  /\ st.sig \in {"none", "break", "continue", "return", "exit", "next", "fault"}
  /\ Len(st.frames) = 1 + st.depth
  /\ st.depth <= CoreCallLimit
CoreDepthMirrorsCalls == st.outcome = "running" =>
  st.depth = Cardinality({i \in 1..Len(st.ctl) : st.ctl[i].t = "callk"})
CoreEndsClean == (st.outcome # "running" /\ ~st.open) => (st.sig = "none" /\ Len(st.frames) = 1)
=============================================================================
