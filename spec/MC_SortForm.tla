---------------------------- MODULE MC_SortForm ----------------------------
(* C15, the clause "sort returns a stably sorted copy -- numerically if    *)
(* every element is a number, otherwise by string form".                   *)
(* MC_List (JqHeap) sorts small integers and strings of <= 4 characters    *)
(* by a rank; here the elements are the values of JqValue: numbers of      *)
(* every magnitude (exact dyadic rationals), byte strings, booleans and    *)
(* null, and the string form is THE string coercion of the language        *)
(* (JqValue.StrOf, DESIGN.md 3.1: what `"" + v` yields; a number is        *)
(* written in plain decimal, never with an exponent; null and booleans     *)
(* have the empty form).  The order of forms is bytewise (JqValue.StrCmp), *)
(* the numeric order is NumCmp.                                            *)
(* For every number x of Pool (indices Pick) the arrays of 1..MaxLen       *)
(* elements over Elems(x) are enumerated: x, another number, the strings   *)
(* that lie next to the form of x in the bytewise order (its prefixes, the *)
(* form itself = a tie, the form followed by the smallest and by a digit   *)
(* byte: any other rendering of x is separated from the form by one of     *)
(* them), fixed strings, null and true.  Each array is sorted, then        *)
(* changed by one operation (which can turn a mixed array into an          *)
(* all-number one and back) and sorted again.                              *)
EXTENDS JqValue
CONSTANTS MaxLen, OpLen, Pick     \* arrays of <= OpLen elements are followed by every operation, longer ones by none

Pool == << I(3), I(25), Num(15, 1, 16), Num(1, 1, 20), Num(9, 1, 17), Num(1, 1, 31), Num(1, 1, 53), Num(1, 1, 70),
           Num(1, 1, -1), Num(3, 1, -4), Num(1, 1, -10), Num(1, 1, -14), Num(1, 1, -20),
           I(-3), Num(-1, 1, 20), Num(-1, 1, -14), Zero >>
\* the second number next to Pool[i]: one whose form sorts the other way round than its value where the
\* pool has one (every integer and every negative; plain decimal fractions of (0, 1) order like their values)
PartnerIdx == <<2, 1, 4, 3, 2, 1, 8, 7, 10, 9, 12, 13, 12, 16, 16, 14, 1>>
Partner(i) == Pool[PartnerIdx[i]]

Form(v) == StrOf(v)
Derived(t) == {SubSeq(t, 1, k) : k \in {1, 2, 3, Len(t) - 1} \cap 1..(Len(t) - 1)} \cup {t, t \o <<"0">>, t \o <<" ">>}
Fixed == {<<>>, Chars("x"), Chars("1e")}
Elems(i) == {Pool[i], Partner(i), VNull, VBool(TRUE)} \cup {VStr(s) : s \in Derived(NumText(Pool[i])) \cup Fixed}

-----------------------------------------------------------------------------
(* the ideal sort: a stable insertion sort of the element POSITIONS *)
AllNum(s) == \A i \in 1..Len(s) : s[i].k = "num"
Le(a, b, num) == IF num THEN NumCmp(a, b) <= 0 ELSE StrCmp(Form(a), Form(b)) <= 0
RECURSIVE Ins(_, _, _, _)
\* p: positions already sorted; insert position x after every position whose element is <= s[x]
Ins(s, p, x, num) == IF p = <<>> THEN <<x>>
                     ELSE IF Le(s[Head(p)], s[x], num) THEN <<Head(p)>> \o Ins(s, Tail(p), x, num)
                     ELSE <<x>> \o p
RECURSIVE SortPos(_, _, _)
SortPos(s, n, num) == IF n = 0 THEN <<>> ELSE Ins(s, SortPos(s, n - 1, num), n, num)
SortPerm(s) == SortPos(s, Len(s), AllNum(s))
Sorted(s) == LET p == SortPerm(s) IN [i \in 1..Len(s) |-> s[p[i]]]

(* one operation through the name that holds the array *)
Pre2(t) == SubSeq(t, 1, IF Len(t) < 2 THEN Len(t) ELSE 2)
Self == [k |-> "self"]
NoRes == [k |-> "none"]
OpsFor(i) == {[o |-> "none"], [o |-> "popfirst"], [o |-> "pop"], [o |-> "set0", v |-> Partner(i)]}
             \cup {[o |-> "push", v |-> v] : v \in {Pool[i], VNull, VStr(Pre2(NumText(Pool[i])))}}
Apply(s, op) ==
  CASE op.o = "push" -> [items |-> Append(s, op.v), res |-> Self]
    [] op.o = "set0" -> [items |-> [s EXCEPT ![1] = op.v], res |-> NoRes]
    [] op.o = "popfirst" -> [items |-> Tail(s), res |-> s[1]]
    [] op.o = "pop" -> [items |-> SubSeq(s, 1, Len(s) - 1), res |-> s[Len(s)]]
    [] OTHER -> [items |-> s, res |-> NoRes]

-----------------------------------------------------------------------------
VARIABLES xi, arr, op, stage
vars == <<xi, arr, op, stage>>
\* three stages (TLC generates the successors of one state in one thread): the number, the first
\* element, the remaining elements and the operation
done == stage = 2
Init == xi \in Pick /\ arr = <<>> /\ op = [o |-> "none"] /\ stage = 0
Next == \/ /\ stage = 0 /\ stage' = 1 /\ UNCHANGED <<xi, op>>
           /\ \E e \in Elems(xi) : arr' = <<e>>
        \/ /\ stage = 1 /\ stage' = 2 /\ UNCHANGED xi
           /\ \E k \in 0..(MaxLen - 1) : \E t \in [1..k -> Elems(xi)] : arr' = arr \o t
           /\ op' \in (IF Len(arr') <= OpLen THEN OpsFor(xi) ELSE {[o |-> "none"]})
arr2 == Apply(arr, op).items

(* spec-level laws: the sorted copy is THE stable ordered permutation *)
SortLaws(s) ==
  LET p == SortPerm(s)  num == AllNum(s)  n == Len(s) IN
  /\ Len(p) = n /\ {p[i] : i \in 1..n} = 1..n                                            \* a permutation
  /\ \A i \in 1..(n - 1) : Le(s[p[i]], s[p[i + 1]], num)                                \* ordered
  /\ \A i \in 1..(n - 1) : Le(s[p[i + 1]], s[p[i]], num) => p[i] < p[i + 1]             \* ties keep their order
  /\ num => \A i \in 1..(n - 1) : NumCmp(s[p[i]], s[p[i + 1]]) <= 0
  /\ ~num => \A i, j \in 1..n : i < j => StrCmp(Form(s[p[i]]), Form(s[p[j]])) <= 0    \* transitively
PlainDecimal(t) == /\ \A i \in 1..Len(t) : t[i] \in Digit \cup {"-", "."}
                   /\ Cardinality({i \in 1..Len(t) : t[i] = "."}) <= 1
                   /\ \A i \in 2..Len(t) : t[i] # "-"
FormLaws ==
  \A v \in Elems(xi) :
    /\ Arith("+", VStr(<<>>), v) = Ok(VStr(Form(v)))           \* the form is what concatenation yields
    /\ v.k = "num" => PlainDecimal(Form(v))
    /\ v.k = "num" /\ Len(Form(v)) <= 8 => ParseNum(Form(v)) = [ok |-> TRUE, v |-> v]   \* and reads back
    /\ v.k \in {"null", "bool"} => Form(v) = <<>>
\* distinct numbers have distinct forms; the bytewise order of forms is not the numeric order
PoolLaws == /\ \A i, j \in 1..Len(Pool) : i # j => NumText(Pool[i]) # NumText(Pool[j])
            /\ \E i, j \in 1..Len(Pool) : NumCmp(Pool[i], Pool[j]) < 0 /\ StrCmp(NumText(Pool[i]), NumText(Pool[j])) > 0
Laws == /\ stage = 0 => FormLaws /\ PoolLaws
        /\ done => SortLaws(arr) /\ SortLaws(arr2)

(* what the vector exercised (vacuity guard of the harness) *)
Tie(s) == \E i, j \in 1..Len(s) : i < j /\ s[i] # s[j] /\ Form(s[i]) = Form(s[j])
Chk(s) == (IF AllNum(s) THEN {"allnum"} ELSE {"mixed"})
          \cup (IF ~AllNum(s) /\ Tie(s) THEN {"tie"} ELSE {})
          \cup (IF ~AllNum(s) /\ \E i \in 1..Len(s) : s[i].k = "num" /\ \E j \in 1..Len(s) : s[j].k = "str" /\ s[j].s # <<>>
                                    /\ StrCmp(s[j].s, Form(s[i])) < 0 /\ StrCmp(SubSeq(Form(s[i]), 1, 1), s[j].s) <= 0
                THEN {"strbelow"} ELSE {})
          \cup (IF AllNum(s) /\ \E i, j \in 1..Len(s) : NumCmp(s[i], s[j]) < 0 /\ StrCmp(Form(s[i]), Form(s[j])) > 0 THEN {"numstr"} ELSE {})
          \cup (IF Sorted(s) # s THEN {"moved"} ELSE {})

EncV(v) == CASE v.k = "num" -> [k |-> "num", n |-> v.n, e |-> v.e, text |-> NumText(v)]
             [] v.k = "str" -> [k |-> "str", s |-> v.s]
             [] v.k = "bool" -> [k |-> "bool", b |-> v.b]
             [] OTHER -> [k |-> v.k]
Enc(s) == [i \in 1..Len(s) |-> EncV(s[i])]
Vec == done => Emit([x |-> xi, items |-> Enc(arr), s1 |-> Enc(Sorted(arr)),
                     op |-> IF "v" \in DOMAIN op THEN [o |-> op.o, v |-> EncV(op.v)] ELSE [o |-> op.o],
                     res |-> EncV(Apply(arr, op).res), items2 |-> Enc(arr2), s2 |-> Enc(Sorted(arr2)),
                     chk |-> Chk(arr) \cup Chk(arr2) \cup (IF AllNum(arr) # AllNum(arr2) /\ arr2 # <<>> THEN {"flip"} ELSE {})])
=============================================================================
